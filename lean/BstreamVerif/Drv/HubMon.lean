import BstreamVerif.Spec.Consumer
import BstreamVerif.Drv.Util
/- Monitors for the hub-burst suite (C05, C09, burst part of C04), evaluated on the implementation's lines. -/
namespace BstreamVerif.Drv.HubMon
open BstreamVerif BstreamVerif.Consumer BstreamVerif.Drv

def tokId (s : String) : Id := if s == "-" then "" else s
def parseRefTok (s : String) : Option Ref :=
  match s.splitOn ":" with
  | [i, n] => n.toNat?.map (fun n => ⟨tokId i, n⟩)
  | _ => none

def parseEv (ws : List String) : Option Obs :=
  match ws with
  | "impl" :: "ev" :: st :: i :: n :: h :: l :: j :: _ => do
    let step ← Step.ofName st
    let n ← n.toNat?; let h ← parseRefTok h; let l ← parseRefTok l
    pure ⟨step, ⟨tokId i, n⟩, h, l, if j == "-" then none else parseRefTok j, 0, 0, true⟩
  | _ => none

def parseB (ws : List String) : Option Obs :=
  match ws with
  | ["impl", "b", st, i, n, h, l, j] => do
    let ok := !st.startsWith "CURSORMISMATCH-"
    let step ← Step.ofName (if ok then st else (st.drop 15).toString)
    let n ← n.toNat?; let h ← parseRefTok h; let l ← parseRefTok l
    pure ⟨step, ⟨tokId i, n⟩, h, l, if j == "-" then none else parseRefTok j, 0, 0, ok⟩
  | _ => none

/-- C04 along one burst: an event that announces finality (Irreversible, new-and-irreversible) carries itself as
    cursor LIB, and a New event that follows such an announcement carries the last block announced -/
def burstLibOK : Option Ref → List Obs → Bool
  | _, [] => true
  | lastFinal, e :: r =>
    if e.step == .irreversible || e.step == .newIrreversible then e.lib.id == e.ref.id && burstLibOK (some e.ref) r
    else if e.step == .new then
      (match lastFinal with | some f => e.lib.id == f.id | none => true) && burstLibOK lastFinal r
    else burstLibOK lastFinal r

structure St where
  fed : List (Id × Id × Nat) := []           -- blocks fed so far (id, parent, height)
  evs : List Obs := []                       -- live events so far
  canon : Option (List Ref) := none          -- last snapshot
  fails : List (String × String) := []

def St.fail (s : St) (p why : String) : St :=
  if s.fails.any (·.1 == p) then s else { s with fails := s.fails ++ [(p, why)] }

def idsOf (l : List Ref) : List Id := l.map (·.id)

/-- groups: an op line with the impl lines that follow it -/
def groups (body : List (List String)) : List (List String × List (List String)) :=
  (body.foldl (fun (acc : List (List String × List (List String))) ws =>
    match ws with
    | "op" :: _ => (ws, []) :: acc
    | "impl" :: _ => (match acc with | (o, ls) :: rest => (o, ls ++ [ws]) :: rest | [] => [])
    | _ => acc) []).reverse

def run (body : List (List String)) : List (String × String) :=
  let tree : List (Id × Id × Nat) := body.filterMap (fun ws => match ws with
    | "op" :: "blk" :: i :: p :: n :: _ => n.toNat?.map (fun n => (tokId i, tokId p, n)) | _ => none)
  let parent (id : Id) : Id := match tree.find? (fun (x : Id × Id × Nat) => x.1 == id) with | some x => x.2.1 | none => "?"
  let final := (groups body).foldl (fun (s : St) (g : List String × List (List String)) =>
    let (o, ls) := g
    let crash := ls.any (fun l => l == ["impl", "panic"] || l == ["impl", "bret", "panic"])
    let s := if crash then s.fail "C05" s!"burst crashed on {unwords o}" else s
    let burst : List Obs := ls.filterMap parseB
    let ok := ls.any (· == ["impl", "bret", "ok"])
    let live := CState.run parent {} s.evs
    let hubLib : Option Ref := (s.evs.filter (·.step == .irreversible)).getLast?.map (·.ref)
    let head : Option Ref := live.bind (fun c => c.stack.getLast?)
    match o with
    | "op" :: "blk" :: i :: p :: n :: _ =>
      { s with evs := s.evs ++ ls.filterMap parseEv, fed := s.fed ++ [(tokId i, tokId p, n.toNat?.getD 0)] }
    | "op" :: "blk" :: _ => { s with evs := s.evs ++ ls.filterMap parseEv }
    | ["op", "snapshot"] =>
      let canon := ls.findSome? (fun l => match l with
        | ["impl", "canon", c] => if c == "none" then none else some ((c.splitOn ",").filterMap parseRefTok)
        | _ => none)
      -- the canonical snapshot is a parent-linked chain ending at the head
      let s := match canon, live with
        | some c, some lv =>
          let linked := (c.zip (c.drop 1)).all (fun (a, b) => parent b.id == a.id)
          let endsAtHead := match c.getLast?, lv.stack.getLast? with
            | some x, some t => x.id == t.id
            | _, none => true
            | none, _ => false
          if linked && endsAtHead then s else s.fail "C09" "canonical snapshot is not the parent-linked chain ending at the head"
        | _, _ => s
      let s := match canon, ls.findSome? (fun l => match l with | ["impl", "lowest", n] => n.toNat? | _ => none) with
        | some (f :: _), some low => if f.num == low then s else s.fail "C09" s!"lowest servable {low} is not the first block of the canonical snapshot {f.num}"
        | _, _ => s
      -- the lowest servable number is servable: a request from it is answered (the snapshot above is that answer)
      let s := match canon, ls.findSome? (fun l => match l with | ["impl", "lowest", n] => n.toNat? | _ => none), head with
        | none, some low, some _ =>
          if low != 0 && ls.any (· == ["impl", "canon", "none"]) then s.fail "C09" s!"lowest servable number {low} is not served by number" else s
        | _, _, _ => s
      { s with canon := canon }
    | ["op", "fromnum", n] =>
      let n := n.toNat?.getD 0
      match s.canon with
      | none => s
      | some canon =>
        let servable := canon.any (·.num == n)
        if ok != servable then s.fail "C09" s!"request from block {n}: served={ok} but canonical retained numbers are {canon.map (·.num)}"
        else if !ok then s
        else
          let want := canon.dropWhile (·.num != n)
          let s := if idsOf (burst.map (·.ref)) == idsOf want then s else s.fail "C09" s!"burst from {n} is not the canonical chain from {n} to head"
          let s := match hubLib with
            | some l =>
              if burst.all (fun e => if e.ref.num ≤ l.num then e.step == .newIrreversible else e.step == .new) then s
              else s.fail "C09" s!"burst from {n}: steps are not new+irreversible up to LIB {l.num} and New above"
            | none => s
          let s := if burst.all (fun e => e.lib.num ≤ e.ref.num && e.cursorOK && (some e.head.id == head.map (·.id) || head.isNone)) then s
                   else s.fail "C04" s!"burst from {n}: cursor LIB above block, or head is not the hub head"
          let s := if burstLibOK none burst then s
                   else s.fail "C04" s!"burst from {n}: a cursor LIB is not the last block announced irreversible"
          s
    | ["op", "forks", n] =>
      let _n := n.toNat?.getD 0
      let bf : List Ref := (ls.findSome? (fun l => match l with
        | ["impl", "bf", c] => some (if c == "-" then [] else (c.splitOn ",").filterMap parseRefTok) | _ => none)).getD []
      if !ok then s else
      let nondecr := (bf.zip (bf.drop 1)).all (fun (a, b) => a.num ≤ b.num)
      let nodup := bf.all (fun r => (bf.filter (·.id == r.id)).length == 1)
      let s := if nondecr && nodup && bf.all (·.num ≥ _n) then s else s.fail "C09" "with-forks snapshot is not each retained block once in non-decreasing height"
      -- completeness: every block received at or above the hub's LIB height is retained (C18), so it is in the snapshot
      -- when it is at or above the requested number — whether or not it links to the head yet
      match hubLib with
      | none => s
      | some l =>
        (match s.fed.find? (fun (x : Id × Id × Nat) => decide (x.2.2 ≥ _n) && decide (x.2.2 ≥ l.num) && x.1 != x.2.1 && x.1 != "" &&
            !(bf.any (·.id == x.1))) with
         | some x => s.fail "C09" s!"with-forks snapshot from {_n} misses the retained block {x.1}#{x.2.2}"
         | none => s)
    | ["op", "fromcursor", idx, st, _, _, l] =>
      let idx := idx.toNat?.getD 0
      let step := (Step.ofName st).getD .new
      let clib := (parseRefTok l).getD Ref.empty
      -- consumer state at the cursor: the events up to it, with the cursor's own LIB taken as known final
      -- (a New cursor whose block is its LIB — the starting LIB itself — denotes an empty pending stack)
      let at_ := (CState.run parent {} (s.evs.take (idx + 1))).map (fun (c : CState) =>
        if c.stack.any (·.id == clib.id) then
          { stack := (c.stack.dropWhile (·.id != clib.id)).drop 1, final := some clib }
        else c)
      if !ok then
        -- completeness: LIB on the retained canonical chain and block retained ⇒ must be served
        (match s.canon, s.evs[idx]? with
         | some canon, some e =>
           if canon.any (·.id == clib.id) && canon.any (·.id == e.ref.id) then
             s.fail "C05" s!"cursor {st} {e.ref.id} (LIB {clib.id}) lies on the retained canonical chain but was refused"
           else s
         | _, _ => s)
      else
        -- burst cursor rules (C04): head = hub head, LIB never above the block for New/Irreversible events, never decreasing
        let s := if burst.all (fun e => e.cursorOK && (e.step == .undo || e.step == .stalled || e.lib.num ≤ e.ref.num) &&
                      (some e.head.id == head.map (·.id) || head.isNone)) then s
                 else s.fail "C04" s!"burst from cursor #{idx}: cursor LIB above block, or head is not the hub head"
        let s := if (burst.zip (burst.drop 1)).all (fun (a, b) => a.lib.num ≤ b.lib.num) && burst.all (fun e => e.lib.num ≥ clib.num) then s
                 else s.fail "C04" s!"burst from cursor #{idx}: cursor LIB height decreases along the burst"
        let s := if burstLibOK none burst then s
                 else s.fail "C04" s!"burst from cursor #{idx}: a cursor LIB is not the last block announced irreversible"
        if step == .new || step == .undo then
          match at_, live with
          | some a, some lv =>
            (match CState.run parent a burst with
             | some r =>
               if idsOf r.stack == idsOf lv.stack && r.final.map (·.id) == lv.final.map (·.id) then s
               else s.fail "C05" s!"burst from cursor #{idx} leaves the consumer on {idsOf r.stack} final {(r.final.map (·.id)).getD "-"}, the hub is on {idsOf lv.stack} final {(lv.final.map (·.id)).getD "-"}"
             | none => s.fail "C05" s!"burst from cursor #{idx} violates the undo/new/finality discipline from the consumer state at the cursor")
          | _, _ => s
        else if step == .irreversible || step == .newIrreversible then
          match s.evs[idx]?, live with
          | some e, some lv =>
            (match finalOnlyRun parent e.ref burst with
             | some f => if some f.id == lv.final.map (·.id) || (lv.final.isNone) then s
                         else s.fail "C05" s!"final-only burst from cursor #{idx} ends on {f.id}, hub LIB is {(lv.final.map (·.id)).getD "-"}"
             | none => s.fail "C05" s!"final-only burst from cursor #{idx}: irreversible events are not the canonical final blocks after the cursor block")
          | _, _ => s
        else s
    | ["op", "through", start, idx, st, b, _, l] =>
      let start := start.toNat?.getD 0
      let idx := idx.toNat?.getD 0
      let cblk := (parseRefTok b).getD Ref.empty
      -- C05's through-cursor clause: start blocks at or below the junction
      -- cursor rules hold for every burst event, whatever the start block
      let s := if !ok then s
        else if burst.all (fun e => e.cursorOK && (e.step == .undo || e.step == .stalled || e.lib.num ≤ e.ref.num) &&
                      (some e.head.id == head.map (·.id) || head.isNone)) then s
        else s.fail "C04" s!"through-cursor burst from {start}: cursor LIB above block, or head is not the hub head"
      let s := if !ok || burstLibOK none burst then s
        else s.fail "C04" s!"through-cursor burst from {start}: a cursor LIB is not the last block announced irreversible"
      let liveJ := match s.evs[idx]? with | some e => (e.junction.map (·.num)).getD cblk.num | none => cblk.num
      let junctionNum := ((burst.filterMap (·.junction)).map (·.num)).foldl min (min cblk.num liveJ)
      if !ok || cblk.num < start || junctionNum < start then s else
      let _ := st
      let clib := (parseRefTok l).getD Ref.empty
      -- (b) the consumer's state at the cursor, rolled back to just below the start block: blocks between the
      -- cursor's LIB and the start block are still held pending and may be announced final by the burst
      let atCur : Option CState := (CState.run parent {} (s.evs.take (idx + 1))).map (fun (c : CState) =>
        let c := if c.stack.any (·.id == clib.id) then
          { stack := (c.stack.dropWhile (·.id != clib.id)).drop 1, final := some clib } else c
        { c with stack := c.stack.filter (·.num < start) })
      match burst.head?, live with
      | some f, some lv =>
        -- (a) a consumer starting afresh at the start block: nothing pending, resting on the parent of the first block
        let c0 : CState := { stack := [], final := some ⟨parent f.ref.id, 0⟩ }
        let wantStack := (idsOf lv.stack).filter (fun i => match tree.find? (fun (x : Id × Id × Nat) => x.1 == i) with | some x => x.2.2 ≥ start | none => true)
        let fresh : Option (List Id) := (CState.run parent c0 burst).map (fun r => idsOf r.stack)
        let resumed : Option CState := match atCur with
          | some a => if clib.num < start then CState.run parent a burst else none
          | none => none
        (match fresh, resumed with
         | some gotAll, _ =>
           if gotAll == wantStack || gotAll == idsOf lv.stack then s
           else s.fail "C05" s!"through-cursor burst from {start} via cursor #{idx} leaves the consumer on {gotAll}, expected {wantStack}"
         | none, some r =>
           if idsOf r.stack == idsOf lv.stack && r.final.map (·.id) == lv.final.map (·.id) then s
           else s.fail "C05" s!"through-cursor burst from {start} via cursor #{idx} leaves the consumer on {idsOf r.stack} final {(r.final.map (·.id)).getD "-"}, the hub is on {idsOf lv.stack} final {(lv.final.map (·.id)).getD "-"}"
         | none, none => s.fail "C05" s!"through-cursor burst from {start} via cursor #{idx} violates the discipline")
      | _, _ => s
    | _ => s) ({} : St)
  final.fails

end BstreamVerif.Drv.HubMon
