import BstreamVerif.Model.Range
import BstreamVerif.Spec.RangeMon
import BstreamVerif.Drv.Util
/- Line protocol for suite `range`. Range syntax: `<start>,<end|nil>,<exS>,<exE>`. -/
namespace BstreamVerif.Drv.RangeDrv
open BstreamVerif.Range BstreamVerif.Drv

def parseRangeTok (s : String) : Option Range :=
  match s.splitOn "," with
  | [a, b, c, d] => do
    let st ← parseU64 a
    let en ← if b == "nil" then some none else (parseU64 b).map some
    let x ← parseBool c
    let y ← parseBool d
    pure ⟨st, en, x, y⟩
  | _ => none

def showRange (r : Range) : String :=
  s!"{r.start.toNat},{match r.stop with | none => "nil" | some e => toString e.toNat},{if r.exS then 1 else 0},{if r.exE then 1 else 0}"

def showRanges (rs : List Range) : String := ";".intercalate (rs.map showRange)

def parseRanges (s : String) : Option (List Range) :=
  (s.splitOn ";").mapM parseRangeTok

/-- model answer to one op line -/
def op (ws : List String) : String :=
  match ws with
  | ["contains", r, n] =>
    match parseRangeTok r, parseU64 n with
    | some r, some n => boolStr (contains r n) | _, _ => "bad-op"
  | ["reached", r, n] =>
    match parseRangeTok r, parseU64 n with
    | some r, some n => boolStr (reachedEnd r n) | _, _ => "bad-op"
  | ["next", r, n] =>
    match parseRangeTok r, parseU64 n with
    | some r, some n => showRange (next r n) | _, _ => "bad-op"
  | ["previous", r, n] =>
    match parseRangeTok r, parseU64 n with
    | some r, some n => showRange (previous r n) | _, _ => "bad-op"
  | ["isnext", r, r2, n] =>
    match parseRangeTok r, parseRangeTok r2, parseU64 n with
    | some r, some r2, some n => boolStr (isNext r r2 n) | _, _, _ => "bad-op"
  | ["size", r] =>
    match parseRangeTok r with
    | some r => (match size r with | none => "open" | some v => toString v.toNat)
    | _ => "bad-op"
  | ["new", s, e, x, y] =>
    match parseU64 s, (if e == "nil" then some none else (parseU64 e).map some), parseBool x, parseBool y with
    | some s, some e, some x, some y =>
      (match newRange s e x y with | some r => "ok " ++ showRange r | none => "err")
    | _, _, _, _ => "bad-op"
  | ["containing", n, sz] =>
    match parseU64 n, parseU64 sz with
    | some n, some sz =>
      (match rangeContaining n sz with
       | none => "err" | some none => "panic" | some (some r) => "ok " ++ showRange r)
    | _, _ => "bad-op"
  | ["split", r, c] =>
    match parseRangeTok r, parseU64 c with
    | some r, some c =>
      (match split r c with
       | .ok cs => "ok " ++ showRanges cs | .openEnded => "open" | .panic => "panic")
    | _, _ => "bad-op"
  | ["parse", h] =>
    match unhex h with
    | some bs =>
      (match parseRange bs with
       | .ok r => "ok " ++ showRange r | .err c => "err " ++ c | .panic => "panic")
    | none => "bad-op"
  | _ => "bad-op"

/-- `twice <query>`: the query asked twice on the same range values, then the receiver (and the argument of IsNext)
    observed again. The model's functions are pure: same answer twice, ranges unchanged. -/
def opT (ws : List String) : String :=
  match ws with
  | "twice" :: inner =>
    let a := (op inner).replace "ok " "ok:"
    let recv := match inner with
      | _ :: r :: _ => (match parseRangeTok r with | some r => showRange r | none => "?")
      | _ => "?"
    let arg := match inner with
      | ["isnext", _, r2, _] => (match parseRangeTok r2 with | some r2 => " arg=" ++ showRange r2 | none => " arg=?")
      | _ => ""
    s!"{a} {a} recv={recv}{arg}"
  | _ => op ws

/-- monitor on the implementation's answer (C19): returns "" when fine, else a reason -/
def monitor (ws : List String) (impl : List String) : String :=
  if impl == ["panic"] || impl == ["hang"] then
    match ws with
    | "split" :: _ :: c :: _ => if c == "0" then "" else "crash-or-hang"
    | "containing" :: _ => ""     -- constructor documented to panic on invalid bounds; not a C19 method
    | _ => "crash-or-hang"
  else
  match ws, impl with
  | "twice" :: inner, _ =>
    -- queries do not change the ranges they are asked about, and give the same answer when asked again
    let want := (opT ("twice" :: inner)).splitOn " "
    (match impl, want with
     | a :: b :: rest, _ :: _ :: wrest =>
       if a != b then "query-gives-a-different-answer-when-asked-again"
       else if rest != wrest then "query-changes-the-range-it-is-asked-about"
       else ""
     | _, _ => "unparsable")
  | ["split", r, c], ["ok", cs] =>
    match parseRangeTok r, parseU64 c, parseRanges cs with
    | some r, some c, some cs => RangeMon.splitVerdict r c cs
    | _, _, _ => "unparsable"
  | ["contains", r, n], [b] =>
    match parseRangeTok r, parseU64 n, parseBool b with
    | some r, some n, some b => if RangeMon.containsSpec r n == b then "" else "contains-wrong"
    | _, _, _ => "unparsable"
  | ["reached", r, n], [b] =>
    match parseRangeTok r, parseU64 n, parseBool b with
    | some r, some n, some b => if RangeMon.reachedSpec r n == b then "" else "reached-wrong"
    | _, _, _ => "unparsable"
  | ["isnext", r, r2, n], [b] =>
    match parseRangeTok r, parseRangeTok r2, parseU64 n, parseBool b with
    | some r, some r2, some n, some b => if RangeMon.isNextSpec r r2 n == b then "" else "isnext-wrong"
    | _, _, _, _ => "unparsable"
  | ["next", r, n], [res] =>
    match parseRangeTok r, parseU64 n, parseRangeTok res with
    | some r, some n, some res => if RangeMon.nextSpec r res n then "" else "next-is-not-the-adjacent-range-after"
    | _, _, _ => "unparsable"
  | ["previous", r, n], [res] =>
    match parseRangeTok r, parseU64 n, parseRangeTok res with
    | some r, some n, some res => if RangeMon.prevSpec r res n then "" else "previous-is-not-the-adjacent-range-before"
    | _, _, _ => "unparsable"
  | ["size", r], [v] =>
    match parseRangeTok r with
    | some r => if RangeMon.sizeSpec r (if v == "open" then none else v.toNat?) then "" else "size-wrong"
    | _ => "unparsable"
  | _, _ => ""

end BstreamVerif.Drv.RangeDrv
