import BstreamVerif.Model.BlockServer
import BstreamVerif.Drv.Util
/- Line protocol for suite `server`:  case n server <buffered 0/1> <size>
   op push <id> | sub <burst> | unsub <i> | recv <i> | ready | buf -/
namespace BstreamVerif.Drv.ServerDrv
open BstreamVerif.BlockServer BstreamVerif.Drv

def idsStr (l : List Id) : String := if l.isEmpty then "-" else ",".intercalate l

def stepOp (s : Server) (ws : List String) : Server × String :=
  match ws with
  | ["op", "push", b] => (push s b, "ok")
  | ["op", "sub", n] =>
    match n.toInt? with
    | some n =>
      let s' := subscribe s n
      match s'.subs.getLast? with
      | some sub => (s', s!"sub {sub.cap} {sub.queue.length}")
      | none => (s', "nil")
    | none => (s, "bad-op")
  | ["op", "unsub", i] =>
    match i.toNat? with
    | some i => (unsubscribe s i, "ok")
    | none => (s, "bad-op")
  | ["op", "recv", i] =>
    match i.toNat? with
    | some i =>
      let (s', r) := recv s i
      (s', match r with | .blk b => "blk " ++ b | .closed => "closed" | .empty => "empty" | .nosub => "nosub")
    | none => (s, "bad-op")
  | ["op", "ready"] => (s, boolStr (ready s))
  | ["op", "buf"] => (s, idsStr s.buffer)
  | _ => (s, "bad-op")

/-- per-subscriber monitor state: what the subscriber must still receive, in order -/
structure Expect where
  pending : List Id       -- burst ++ pushes since, not yet received
  overflowed : Bool
  active : Bool
  cap : Nat
  closedSeen : Bool

def handle (hdr : List String) (body : List (List String)) : List String :=
  match hdr with
  | [_, "server", b, sz] =>
    match parseBool b, sz.toNat? with
    | some b, some sz =>
      let init : Server := { buffered := b, size := sz, buffer := [], subs := [] }
      let ops := body.filter (fun l => l.head? == some "op")
      let (_, outs) := ops.foldl (fun (acc : Server × List String) l =>
        let (s', o) := stepOp acc.1 l
        (s', ("model " ++ o) :: acc.2)) (init, [])
      -- monitor (C20) on the implementation's answers, independent of the model's state machine:
      -- every subscriber receives burst ++ later pushes, in order, until overflow; closed at most once; crashes
      let impl := (body.filter (fun l => l.head? == some "impl")).map (·.drop 1)
      let crash := impl.any (fun l => l == ["panic"] || l == ["hang"])
      let pairs := ops.zip impl
      let window : List Id × List String := pairs.foldl (fun (acc : List Id × List String) (p : List String × List String) =>
        match p.1, p.2 with
        | ["op", "push", id], _ =>
          let w := acc.1
          let w' := if !b then w else if w.contains id then w else
            let w1 := if w.length ≥ sz then w.drop 1 else w
            if sz > 0 then w1 ++ [id] else w1
          (w', acc.2)
        | ["op", "buf"], [l] => if l == idsStr acc.1 then acc else (acc.1, "window-not-most-recent-distinct" :: acc.2)
        | _, _ => acc) ([], [])
      let subsMon : List Expect × List Id × List String := pairs.foldl
        (fun (acc : List Expect × List Id × List String) (p : List String × List String) =>
        let (subs, win, errs) := acc
        match p.1, p.2 with
        | ["op", "push", id], _ =>
          let win' := if !b then win else if win.contains id then win else
            let w1 := if win.length ≥ sz then win.drop 1 else win
            if sz > 0 then w1 ++ [id] else w1
          (subs.map (fun e => if e.active && !e.overflowed then
              (if e.pending.length ≥ e.cap then { e with overflowed := true } else { e with pending := e.pending ++ [id] })
            else e), win', errs)
        | ["op", "sub", n], ["sub", c, q] =>
          let n := (n.toInt?.getD 0).toNat
          let burst := if n < win.length then win.drop (win.length - n) else win
          let c := c.toNat?.getD 0
          let errs := if c == 200 + burst.length && q.toNat? == some burst.length then errs else "burst-or-capacity-wrong" :: errs
          (subs ++ [{ pending := burst, overflowed := false, active := true, cap := c, closedSeen := false }], win, errs)
        | ["op", "sub", _], _ => (subs ++ [{ pending := [], overflowed := true, active := false, cap := 0, closedSeen := false }], win, "subscribe-failed" :: errs)
        | ["op", "unsub", i], _ =>
          let i := i.toNat?.getD 0
          (subs.mapIdx (fun j e => if j == i then { e with active := false } else e), win, errs)
        | ["op", "recv", i], r =>
          let i := i.toNat?.getD 0
          match subs[i]? with
          | none => acc
          | some e =>
            match r with
            | ["blk", id] =>
              (match e.pending with
               | x :: rest =>
                 if x == id && !e.closedSeen then (subs.mapIdx (fun j e' => if j == i then { e' with pending := rest } else e'), win, errs)
                 else (subs, win, "subscriber-got-wrong-block" :: errs)
               | [] => (subs, win, "subscriber-got-extra-block" :: errs))
            | ["closed"] =>
              if e.pending.isEmpty && e.overflowed then (subs.mapIdx (fun j e' => if j == i then { e' with closedSeen := true } else e'), win, errs)
              else (subs, win, "closed-without-overflow-or-blocks-lost" :: errs)
            | ["empty"] =>
              if e.pending.isEmpty && !e.overflowed then acc else (subs, win, "subscriber-missing-block" :: errs)
            | _ => acc
        | _, _ => acc) ([], [], [])
      let errs := (if crash then ["server-crash"] else []) ++ window.2.reverse ++ subsMon.2.2.reverse
      outs.reverse ++ (match errs with | [] => [] | e :: _ => ["monitor C20 FAIL " ++ e])
    | _, _ => ["model bad-case"]
  | _ => ["model bad-case"]

end BstreamVerif.Drv.ServerDrv
