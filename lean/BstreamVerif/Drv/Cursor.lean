import BstreamVerif.Model.Cursor
import BstreamVerif.Drv.Util
/- Line protocol for suite `cursor`. Cursor syntax: `<step> <bnum> <bidhex> <hnum> <hidhex> <lnum> <lidhex>`. -/
namespace BstreamVerif.Drv.CursorDrv
open BstreamVerif.Cursor BstreamVerif.Drv

def parseCursor (ws : List String) : Option Cursor :=
  match ws with
  | [st, bn, bi, hn, hi, ln, li] => do
    let st ← st.toInt?
    let bn ← bn.toNat?
    let bi ← unhex bi
    let hn ← hn.toNat?
    let hi ← unhex hi
    let ln ← ln.toNat?
    let li ← unhex li
    pure ⟨st, ⟨bi, bn⟩, ⟨hi, hn⟩, ⟨li, ln⟩⟩
  | _ => none

def showCursor (c : Cursor) : String :=
  s!"{c.step} {c.block.num} {hex c.block.id} {c.head.num} {hex c.head.id} {c.lib.num} {hex c.lib.id}"

def showRes (r : Option Cursor) : String :=
  match r with
  | some c => "ok " ++ showCursor c
  | none => "err"

/-- a decoded foreign input, and what it becomes when encoded and decoded again -/
def showResRe (r : Option Cursor) : String :=
  match r with
  | some c => "ok " ++ showCursor c ++ " re " ++ showRes (fromString (toString c))
  | none => "err"

def op (ws : List String) : String :=
  match ws with
  | "tostr" :: rest =>
    match parseCursor rest with
    | some c => hex (toString c) | none => "bad-op"
  | ["fromstr", h] =>
    match unhex h with
    | some bs => showResRe (fromString bs) | none => "bad-op"
  | "rt" :: rest =>
    match parseCursor rest with
    | some c => showRes (fromString (toString c)) | none => "bad-op"
  | "opq" :: rest =>
    match parseCursor rest with
    | some c => showRes (fromString (toString c)) | none => "bad-op"
  | ["fromopq", _, p] =>
    if p == "x" then "err" else
    match unhex p with
    | some bs => showResRe (fromString bs) | none => "bad-op"
  | "final" :: rest =>
    match parseCursor rest with
    | some c => boolStr (isOnFinalBlock c) | none => "bad-op"
  | _ => "bad-op"

def colonFree (b : Bytes) : Bool := !b.contains colon

/-- hypotheses of C14's round-trip clause -/
def rtHyp (c : Cursor) : Bool :=
  validStep c.step && colonFree c.block.id && colonFree c.head.id && colonFree c.lib.id &&
  c.block.num < 2^64 && c.head.num < 2^64 && c.lib.num < 2^64 &&
  (c.block.id != c.head.id || c.block.num == c.head.num) &&
  (c.block.id != c.lib.id || c.block.num == c.lib.num) &&
  (c.head.id != c.lib.id || c.head.num == c.lib.num)

/-- "equivalent cursor": same step, same ids, same block number -/
def equiv (a b : Cursor) : Bool :=
  a.step == b.step && a.block.id == b.block.id && a.head.id == b.head.id && a.lib.id == b.lib.id &&
  a.block.num == b.block.num

def monitor (ws : List String) (impl : List String) : String :=
  if impl == ["panic"] then "decoder-crash" else
  match ws with
  | "rt" :: rest | "opq" :: rest =>
    match parseCursor rest with
    | some c =>
      match impl with
      | "ok" :: r =>
        (match parseCursor r with
         | some c' =>
           if rtHyp c then (if c' = c then "" else "roundtrip-changed")
           else if validStep c.step && colonFree c.block.id && colonFree c.head.id && colonFree c.lib.id then
             (if equiv c c' then "" else "reencode-not-equivalent")
           else ""
         | none => "unparsable")
      | _ => if rtHyp c then "roundtrip-error" else ""
    | none => "unparsable"
  | "fromstr" :: _ | "fromopq" :: _ =>
    -- foreign input: an error, or a cursor that re-encodes to an equivalent cursor
    (match impl with
     | "ok" :: r =>
       (match parseCursor (r.take 7), r.drop 7 with
        | some c, "re" :: "ok" :: r2 =>
          (match parseCursor r2 with
           | some c' => if equiv c c' then "" else "accepted-input-re-encodes-to-a-different-cursor"
           | none => "unparsable")
        | some _, ["re", "err"] => "accepted-input-does-not-decode-again-after-re-encoding"
        | _, _ => "unparsable")
     | _ => "")
  | "tostr" :: rest =>
    -- shortest layout that loses nothing
    match parseCursor rest, impl with
    | some c, [h] =>
      (match unhex h with
       | some bs =>
         let pre := bs.take 2
         let want := if c.head.id = c.block.id then c1 else if c.block.id = c.lib.id then c2 else c3
         if pre = want then "" else "layout-not-shortest"
       | none => "unparsable")
    | _, _ => "unparsable"
  | _ => ""

end BstreamVerif.Drv.CursorDrv
