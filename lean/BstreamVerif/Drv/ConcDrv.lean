import BstreamVerif.Drv.Util
/- suites `shutdown` (C12) and `hubsubs` (C08): the model's answer is the single outcome the property allows. -/
namespace BstreamVerif.Drv.ConcDrv
open BstreamVerif.Drv

def shutdownExpect (name : String) : String :=
  s!"{name} returned=1 terminated=1 late=0 innerdown=1 overlap=0" ++ (if name == "eternal/in-factory-2" then " restartref=12a" else "") ++
    (if name == "eternal/after-empty-source" then " restartref=12a restartref3=12a" else "")

/-- outcomes the property allows. Shutting an eternal source down "during the restart delay" races with the end of
    that delay (3 ms in the harness): either no restart happened, or one restart from the last accepted block did. -/
def shutdownAllowed (name : String) : List String :=
  [shutdownExpect name] ++
    (if name == "eternal/during-restart-delay" then [shutdownExpect name ++ " restartref=12a"] else [])

def handleShutdown (_hdr : List String) (body : List (List String)) : List String :=
  let ops := body.filterMap (fun ws => match ws with | ["op", name] => some name | _ => none)
  let impl := body.filterMap (fun ws => match ws with | "impl" :: rest => some (unwords rest) | _ => none)
  let model := (ops.zip (impl ++ List.replicate ops.length "")).map (fun (n, i) =>
    "model " ++ (if (shutdownAllowed n).contains i then i else shutdownExpect n))
  let bad := (ops.zip impl).find? (fun (n, i) => !(shutdownAllowed n).contains i)
  model ++ (match bad with
    | some (n, i) =>
      let why := if (i.splitOn "returned=0").length > 1 then "run-does-not-return-after-shutdown"
        else if (i.splitOn "terminated=0").length > 1 then "source-not-terminated-after-shutdown"
        else if (i.splitOn "late=0").length == 1 then "handler-called-after-terminated"
        else if (i.splitOn "innerdown=0").length > 1 then "inner-source-left-running"
        else if (i.splitOn "overlap=1").length > 1 then "handler-calls-overlap"
        else "eternal-restart-not-from-last-accepted-block"
      [s!"monitor C12 FAIL {why} ({n})"]
    | none => [])

def handleHubSubs (hdr : List String) (body : List (List String)) : List String :=
  match hdr with
  | [_, "hubsubs", _, final, never] =>
    let final := final.toNat?.getD 0
    let ops := body.filterMap (fun ws => match ws with | ["op", "sub", j, from_] => some (j, from_.toNat?.getD 0) | _ => none)
    if body.any (· == ["impl", "trial", "hub-not-ready"]) then ["model trial hub-not-ready"] else
    let expect (j : String) (from_ : Nat) : String :=
      if (never == "1" && j == "0") || j.startsWith "v" then s!"sub {j} dropped=1"
      else s!"sub {j} {from_}-{final}/{final + 1 - from_} contiguous=1"
    let model := ops.map (fun (j, f) => "model " ++ expect j f)
    let impl := body.filterMap (fun ws => match ws with | "impl" :: rest => some (unwords rest) | _ => none)
    let bad := (ops.zip impl).find? (fun ((j, f), i) => i != expect j f)
    model ++ (match bad with
      | some ((j, _), i) =>
        let why := if (i.splitOn "dropped=0").length > 1 then "slow-subscriber-not-terminated"
          else if (i.splitOn "contiguous=0").length > 1 then "subscriber-stream-has-a-gap-or-duplicate"
          else "subscriber-did-not-receive-every-event-after-its-burst"
        [s!"monitor C08 FAIL {why} (subscriber {j}: {i})"]
      | none => [])
  | _ => ["model bad-case"]

/-- suite `serverconc` (C20): PushBlock concurrent with subscribe. The property allows one outcome per subscriber:
    a gap-free run of the pushed sequence ending with the last block pushed (no overflow: fewer pushes than the
    channel holds). -/
def handleServerConc (_hdr : List String) (body : List (List String)) : List String :=
  let ops := body.filterMap (fun ws => match ws with | ["op", "sub", j] => some j | _ => none)
  let impl := body.filterMap (fun ws => match ws with | "impl" :: rest => some (unwords rest) | _ => none)
  let model := ops.map (fun j => s!"model sub {j} ok")
  let bad := (ops.zip impl).find? (fun (j, i) => i != s!"sub {j} ok")
  model ++ (match bad with
    | some (_, i) =>
      let why := if (i.splitOn " gap ").length > 1 then "block-pushed-during-subscribe-is-in-neither-burst-nor-fan-out"
        else if (i.splitOn "closed").length > 1 then "subscription-closed-without-overflow"
        else "subscriber-did-not-receive-the-last-pushed-block"
      [s!"monitor C20 FAIL {why} ({i})"]
    | none => [])

end BstreamVerif.Drv.ConcDrv
