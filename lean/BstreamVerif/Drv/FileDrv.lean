import BstreamVerif.Model.FileSourceSeq
import BstreamVerif.Model.Resolver
import BstreamVerif.Spec.Consumer
import BstreamVerif.Drv.Util
/- suites `filesrc` and `resolver`.
   bundle <base> <id:parent:num:lib,…|->
   filesrc:  case n filesrc <start> <stop> <bundleSize> <threads> <failAt|->      op run
             impl blk <id> <num> <ppok|ppBAD> … ; impl fsend <stop|nonseq <id>|handlererr|waiting <base>|…>
   resolver: case n resolver <from|through> <start> <stop> <bundleSize>
             fork <id:parent:num:lib> <1|0>            (one-block file present in the forked store; 0 = unreadable)
             op resume <step> <blk> <head> <lib>
             impl ev <step> <id> <num> <head> <lib> <junction|-> … ; impl rend <stop|resolveerr|downloaderr|notimpl|…> -/
namespace BstreamVerif.Drv.FileDrv
open BstreamVerif BstreamVerif.FileSourceSeq BstreamVerif.Resolver BstreamVerif.Drv

def tokId (s : String) : Id := if s == "-" then "" else s
def idTok (s : Id) : String := if s == "" then "-" else s
def refTok (r : Ref) : String := s!"{idTok r.id}:{r.num}"
def parseRefTok (s : String) : Option Ref :=
  match s.splitOn ":" with
  | [i, n] => n.toNat?.map (fun n => ⟨tokId i, n⟩)
  | _ => none

def parseBlk4 (s : String) : Option Blk :=
  match s.splitOn ":" with
  | [i, p, n, l] => do let n ← n.toNat?; let l ← l.toNat?; pure ⟨tokId i, tokId p, n, l⟩
  | _ => none

def parseBundles (body : List (List String)) : List Bundle :=
  body.filterMap (fun ws => match ws with
    | ["bundle", base, bl] => base.toNat?.map (fun b => ⟨b, if bl == "-" then [] else (bl.splitOn ",").filterMap parseBlk4⟩)
    | _ => none)

def endStr : FSEnd → String
  | .stopReached => "stop" | .nonSequential id => "nonseq " ++ idTok id | .handlerErr => "handlererr" | .waiting b => s!"waiting {b}"

def handleFileSrc (hdr : List String) (body : List (List String)) : List String :=
  match hdr with
  | [_, "filesrc", st, sp, bs, _, fa] =>
    match st.toNat?, sp.toNat?, bs.toNat? with
    | some st, some sp, some bs =>
      let bundles := parseBundles body
      let (blks, e) := run ⟨st, sp, bs, []⟩ bundles (if fa == "-" then none else fa.toNat?)
      let model := blks.map (fun b => s!"model blk {idTok b.id} {b.num} ppok") ++ ["model fsend " ++ endStr e]
      -- C10 monitor on the implementation's own delivery: stored order from the first block ≥ start, each once,
      -- paired with its own preprocessor result; non-sequential blocks never delivered
      -- stored blocks the source must deliver: at/after the start block, legacy copies below their bundle base excluded
      let stored : List Blk := (bundles.filter (fun b => b.base + bs > st)).flatMap (fun bu => bu.blocks.filter (fun b => b.num ≥ st && b.num ≥ bu.base))
      let impl : List (Id × String) := body.filterMap (fun ws => match ws with
        | ["impl", "blk", i, _, pp] => some (tokId i, pp) | _ => none)
      let implIds := impl.map (·.1)
      let m1 := if impl.all (·.2 == "ppok") then [] else ["monitor C10 FAIL block-paired-with-another-blocks-preprocessor-result"]
      let m2 := if implIds == (stored.map (·.id)).take implIds.length
                then [] else ["monitor C10 FAIL delivery-is-not-a-prefix-of-the-stored-order-from-start"]
      let fsend := body.findSome? (fun ws => match ws with | "impl" :: "fsend" :: rest => some rest | _ => none)
      let m3 := match fsend with
        | some ["stop"] =>
          -- stop error only after every block up to the stop block was delivered
          if (stored.filter (fun b => b.num ≤ sp)).all (fun b => implIds.contains b.id) then [] else ["monitor C10 FAIL stop-reached-before-all-blocks-up-to-stop-were-delivered"]
        | some ["hang"] | some ["panic"] => ["monitor C10 FAIL file-source-hang-or-crash"]
        | some ["nonseq", x] =>
          -- the out-of-sequence error is legitimate only at a real break of the parent links of the stored sequence
          let n := implIds.length
          (match stored[n]?, (if n == 0 then none else stored[n - 1]?) with
           | some b, some prev => if idTok b.id == x && b.parent != prev.id then [] else ["monitor C10 FAIL non-sequential-error-although-the-stored-blocks-are-parent-linked"]
           | some _, none => ["monitor C10 FAIL non-sequential-error-on-the-first-block"]
           | none, _ => ["monitor C10 FAIL non-sequential-error-although-the-stored-blocks-are-parent-linked"])
        | _ => []
      -- no out-of-sequence block is ever delivered: consecutive delivered blocks are parent-linked
      let deliveredBlks := stored.take implIds.length
      let m4 := if (deliveredBlks.zip (deliveredBlks.drop 1)).all (fun (p : Blk × Blk) => p.2.parent == p.1.id) then []
                else ["monitor C10 FAIL out-of-sequence-block-delivered"]
      -- C13 on the file side: ending with stop-block-reached, the stop block itself was delivered when it is stored
      let m5 := match fsend with
        | some ["stop"] =>
          if sp != 0 && (stored.any (fun b => b.num == sp && !implIds.contains b.id)) then ["monitor C13 FAIL stop-block-is-stored-but-was-not-delivered-by-the-file-source"]
          else []     -- (the file source itself may hand over the first block above the stop block: the stream's stop handler drops it)
        | _ => []
      model ++ (m1 ++ m2 ++ m4 ++ m3).take 1 ++ m5
    | _, _, _ => ["model bad-case"]
  | _ => ["model bad-case"]

/-- suite `indexsrc` (C15, file-source half): a file source with a block index provider given as a table.
    Monitor on the implementation's own delivery: ascending, each block once; no indexed match is lost (for every
    indexed bundle the source went through, the first stored block at or above each wanted number within [start, stop]
    is delivered); once the index has ended every stored block of the bundles read is delivered again. -/
def handleIndexSrc (hdr : List String) (body : List (List String)) : List String :=
  match hdr with
  | [_, "indexsrc", st, sp, bs] =>
    match st.toNat?, sp.toNat?, bs.toNat? with
    | some st, some sp, some bs =>
      let bundles := parseBundles body
      let table : List (Nat × Option (List Nat)) := body.filterMap (fun ws => match ws with
        | ["prov", b, v] => b.toNat?.map (fun b => (b, if v == "nil" then none else if v == "empty" then some []
            else some ((v.splitOn ",").filterMap String.toNat?)))
        | _ => none)
      let prov : Prov := fun b => (table.find? (·.1 == b)).map (·.2)
      let wl : List Nat := (body.findSome? (fun ws => match ws with
        | ["wl", v] => some (if v == "-" then [] else (v.splitOn ",").filterMap String.toNat?) | _ => none)).getD []
      let cfg : Cfg := ⟨st, sp, bs, wl⟩
      let (blks, e) := runWithIndex cfg bundles prov (table.length + 2)
      let model := blks.map (fun b => s!"model blk {idTok b.id} {b.num} ppok") ++ ["model fsend " ++ endStr e]
      let impl : List (Id × Nat) := body.filterMap (fun ws => match ws with
        | ["impl", "blk", i, n, _] => n.toNat?.map (fun n => (tokId i, n)) | _ => none)
      let nums := impl.map (·.2)
      let asc := (nums.zip (nums.drop 1)).all (fun (p : Nat × Nat) => p.1 < p.2)
      let m1 := if asc then [] else ["monitor C15 FAIL indexed-delivery-not-ascending-or-a-block-delivered-twice"]
      -- bundles the source went through: from the start bundle to the bundle of the last delivered block
      let lastNum := nums.foldl max 0
      let startBase := lowBoundary st bs
      let wanted : List Nat := table.flatMap (fun (b, r) =>
        if b < startBase || b > lowBoundary lastNum bs then [] else
        match r with
        | some l => (l.filter (fun n => n ≥ b && n < b + bs && n ≥ st && (sp == 0 || n ≤ sp))).filterMap (fun n =>
            ((findBundle bundles b).bind (fun bu => (bu.blocks.filter (fun x => x.num ≥ n && x.num ≥ b)).head?)).map (·.num))
        | none => [])
      -- only bundles before the end of the index count (the first base without an entry, from the start bundle up)
      let idxEnd : Nat := (List.range (table.length + bundles.length + 2)).foldl (fun acc k =>
        if acc.2 then acc else (if (prov (startBase + k * bs)).isSome then (startBase + (k + 1) * bs, false) else (startBase + k * bs, true)))
        (startBase, false) |>.1
      let missed := wanted.filter (fun n => n < idxEnd && n ≤ lastNum && !nums.contains n)
      let m2 := if missed.isEmpty then [] else [s!"monitor C15 FAIL indexed-matching-block-not-delivered-by-the-file-source ({missed})"]
      -- "nothing besides": in a bundle the index covers (the last covered bundle aside: the launcher re-reads it
      -- unfiltered when the next file is not there), a delivered block is the first stored block at or above a
      -- number the provider reported for that bundle, or the start, stop or a whitelisted number
      let extra := impl.filter (fun (p : Id × Nat) =>
        let n := p.2
        let b := lowBoundary n bs
        if b + bs ≥ idxEnd then false else
        let wantedB : List Nat := (match prov b with | some (some l) => l | _ => []) ++ [st] ++ (if sp == 0 then [] else [sp]) ++ wl
        let stored : List Nat := ((findBundle bundles b).map (fun bu => (bu.blocks.filter (fun x => x.num ≥ b && x.num ≥ st)).map (·.num))).getD []
        !(wantedB.any (fun w => w ≤ n && !(stored.any (fun x => w ≤ x && x < n)))))
      let m3 := if extra.isEmpty then [] else [s!"monitor C15 FAIL indexed-file-source-delivers-a-block-nobody-asked-for ({extra.map (·.2)})"]
      model ++ (m1 ++ m2 ++ m3).take 1
    | _, _, _ => ["model bad-case"]
  | _ => ["model bad-case"]

/-- suite `faults`: one injected fault per run. The exact number of blocks delivered before the fault depends on
    how far the reader goroutines ran ahead, so the model yields an outcome *set*: a prefix of the fault-free
    sequence no longer than `bound`, ending with the fault's error class. When the implementation's outcome
    lies in the set the model line echoes it; otherwise the model prints the longest allowed outcome. -/
def handleFaults (hdr : List String) (body : List (List String)) : List String :=
  match hdr with
  | [_, "faults", st, sp, bs, _, _, fault] =>
    match st.toNat?, sp.toNat?, bs.toNat? with
    | some st, some sp, some bs =>
      let bundles := parseBundles body
      let fp := fault.splitOn ":"
      let arg (i : Nat) : Nat := ((fp.getD i "0").toNat?).getD 0
      let kind := fp.getD 0 ""
      let failAt := if kind == "handler" then some (arg 1) else none
      let (full, fe) := run ⟨st, sp, bs, []⟩ bundles failAt
      let eligible (b : Blk) (base : Nat) : Bool := b.num ≥ st && b.num ≥ base
      let countBefore (base : Nat) : Nat :=
        ((bundles.filter (fun bu => bu.base < base)).flatMap (fun bu => bu.blocks.filter (fun b => eligible b bu.base))).length
      let inFile (base idx : Nat) : Nat :=
        match bundles.find? (·.base == base) with
        | some bu => ((bu.blocks.take idx).filter (fun b => eligible b bu.base)).length
        | none => 0
      let (bound, cls) : Nat × String :=
        if kind == "open" then (countBefore (arg 1), "openerr")
        else if kind == "exists" then (countBefore (arg 1), "existserr")
        else if kind == "read" then
          let mode := fp.getD 2 ""
          let cls := if mode == "badheader" then "headererr" else if mode == "undecodable" then "decodeerr" else "readerr"
          (countBefore (arg 1) + (if mode == "badheader" then 0 else inFile (arg 1) (arg 3)), cls)
        else if kind == "pre" then ((full.takeWhile (fun b => b.num != arg 1)).length, "preprocerr")
        else (full.length, endStr fe)
      let bound := min bound full.length
      -- the fault is never reached when the fault-free run ends first (e.g. the stop block comes before it)
      let reached : Bool := kind == "handler" || bound < full.length || fe != .stopReached ||
        (kind == "open" || kind == "exists" || kind == "read")
      let implBlks : List Id := body.filterMap (fun ws => match ws with | ["impl", "blk", i, _, _] => some (tokId i) | _ => none)
      let implEnd := (body.findSome? (fun ws => match ws with | "impl" :: "fsend" :: rest => some (unwords rest) | _ => none)).getD "none"
      let late := body.any (fun ws => ws.take 2 == ["impl", "late"])
      let isPrefix := implBlks == (full.map (·.id)).take implBlks.length
      let okSet := if kind == "handler" then (implBlks == full.map (·.id) && implEnd == endStr fe)
        else (isPrefix && implBlks.length ≤ bound && implEnd == cls) ||
             (!reached && implBlks == full.map (·.id) && implEnd == endStr fe) ||
             -- a fault beyond the point where the run ends anyway
             (implBlks == full.map (·.id) && implEnd == endStr fe && bound == full.length)
      let model :=
        if okSet && !late then implBlks.map (fun i => match full.find? (·.id == i) with
            | some b => s!"model blk {idTok b.id} {b.num} ppok" | none => "model blk ?") ++ ["model fsend " ++ implEnd]
        else (full.take bound).map (fun b => s!"model blk {idTok b.id} {b.num} ppok") ++ ["model fsend " ++ cls]
      let mon : List String :=
        if implEnd == "hang" || implEnd.endsWith "+notterminated" then ["monitor C11 FAIL run-does-not-return-or-source-not-terminated-after-a-fault"]
        else if late then ["monitor C11 FAIL handler-called-after-the-source-terminated"]
        else if !isPrefix then ["monitor C11 FAIL blocks-delivered-before-the-fault-are-not-a-gap-free-in-order-prefix"]
        else if !okSet then ["monitor C11 FAIL fault-outcome-outside-the-allowed-set (delivered " ++ toString implBlks.length ++ ", bound " ++ toString bound ++ ", end " ++ implEnd ++ ", expected " ++ cls ++ ")"]
        else []
      model ++ mon
    | _, _, _ => ["model bad-case"]
  | _ => ["model bad-case"]

def evLine (e : Event) : String :=
  s!"ev {e.step.name} {idTok e.blk.id} {e.blk.num} {refTok e.head} {refTok e.lib} {match e.junction with | some j => refTok j | none => "-"}"

def rerrStr : RErr → String
  | .resolve => "resolveerr" | .download => "downloaderr" | .notImplemented => "notimpl" | .handler => "handlererr"

open BstreamVerif.Consumer in
def handleResolver (hdr : List String) (body : List (List String)) : List String :=
  match hdr with
  | [_, "resolver", mode, st, sp, bs] =>
    match st.toNat?, sp.toNat?, bs.toNat? with
    | some st, some sp, some bs =>
      let bundles := parseBundles body
      let files : List ForkFile := body.filterMap (fun ws => match ws with
        | ["fork", b, r] => (parseBlk4 b).map (fun b => ⟨b.num, trunc16 b.id, trunc16 b.parent, b, r == "1"⟩)
        | _ => none)
      let cur? : Option HubBurst.Cur := body.findSome? (fun ws => match ws with
        | ["op", "resume", s, b, h, l] => do
          let s ← Step.ofName s; let b ← parseRefTok b; let h ← parseRefTok h; let l ← parseRefTok l
          pure ⟨s, b, h, l⟩
        | _ => none)
      match cur? with
      | none => ["model bad-case"]
      | some c =>
        let through := mode == "through"
        let start := if through then st else c.lib.num
        let (canon, fe) := FileSourceSeq.run ⟨start, sp, bs, []⟩ bundles none
        let failAt : Option Nat := body.findSome? (fun ws => match ws with | ["failat", k] => k.toNat? | _ => none)
        let (evs, re) := Resolver.runFailing files c through canon failAt
        let endTok := match re with
          | some e => rerrStr e
          | none => endStr fe
        let model := evs.map (fun e => "model " ++ evLine e) ++ ["model rend " ++ endTok]
        -- C06 monitor: apply the implementation's events to the consumer state implied by the cursor
        let allBlks : List Blk := bundles.flatMap (·.blocks) ++ files.map (·.blk)
        let parent (id : Id) : Id := match allBlks.find? (·.id == id) with | some b => b.parent | none => "?"
        let impl : List Obs := body.filterMap (fun ws => match ws with
          | ["impl", "ev", s, i, n, h, l, j] => do
            let ok := !s.startsWith "CURSORMISMATCH-"
            let step ← Step.ofName (if ok then s else (s.drop 15).toString)
            let n ← n.toNat?; let h ← parseRefTok h; let l ← parseRefTok l
            pure (⟨step, ⟨tokId i, n⟩, h, l, if j == "-" then none else parseRefTok j, 0, 0, ok⟩ : Obs)
          | _ => none)
        let rend := (body.findSome? (fun ws => match ws with | "impl" :: "rend" :: r :: _ => some r | _ => none)).getD "none"
        let canonAll : List Blk := bundles.flatMap (·.blocks)
        -- consumer at the cursor: final = cursor LIB, pending = path LIB → cursor block (minus the block itself for Undo);
        -- a final cursor (irreversible / new+irreversible) is a final-blocks-only consumer standing on the block
        let rec pathUp (fuel : Nat) (id : Id) (acc : List Ref) : List Ref :=
          match fuel with
          | 0 => acc
          | fuel + 1 =>
            if id == c.lib.id then acc else
            match allBlks.find? (·.id == id) with
            | some b => pathUp fuel b.parent (b.ref :: acc)
            | none => acc
        let fullPath := pathUp (allBlks.length + 1) c.block.id []
        let stack := if c.step == .undo then fullPath.dropLast else fullPath
        let lastCanon := canonAll.filter (fun b => sp == 0 || b.num ≤ ((bundles.filter (fun bu => bu.base ≤ sp)).map (fun bu => bu.base + bs - 1)).foldl max 0)
        -- first the undos, then the finality replay, then the new blocks
        let phase (st : Step) : Nat := match st with | .undo => 0 | .irreversible => 1 | _ => 2
        let phasesOK := ((impl.map (fun e => phase e.step)).zip ((impl.map (fun e => phase e.step)).drop 1)).all (fun (a, b) => a ≤ b)
        -- every Undo names the junction: the parent of the oldest undone block, with its own height
        let undoEvs := impl.filter (·.step == .undo)
        let junctionOK := match undoEvs.getLast? with
          | none => true
          | some oldest =>
            let jid := parent oldest.ref.id
            let jnum := (allBlks.find? (·.id == jid)).map (·.num)
            undoEvs.all (fun e => match e.junction with
              | some j => j.id == jid && (jnum.isNone || jnum == some j.num)
              | none => false)
        let fails : List String :=
          if rend == "panic" || rend == "hang" then ["resolver-crash-or-hang"]
          else if !phasesOK then ["resumption-out-of-order-undo-then-irreversible-then-new"]
          else if !junctionOK then ["undo-does-not-name-the-junction"]
          else if through then
            -- pass-through: exactly the canonical blocks from start, each once, as new+irreversible
            (if rend == "stop" then
              (if impl.map (·.ref.id) == ((lastCanon.filter (·.num ≥ st)).map (·.id)) && impl.all (·.step == .newIrreversible) then []
               else ["through-cursor-from-files-is-not-each-canonical-block-once"])
             else [])
          else if c.step == .irreversible || c.step == .newIrreversible then
            (if rend == "stop" then
              (match finalOnlyRun parent c.block impl with
               | some f => if some f.id == (lastCanon.getLast?.map (·.id)) then [] else ["final-cursor-resumption-does-not-reach-the-last-canonical-block"]
               | none => ["final-cursor-resumption-is-not-the-canonical-final-blocks-in-order"])
             else [])
          else
            (if rend == "stop" then
              (match CState.run parent { stack := stack, final := some c.lib } impl with
               | some r => if r.stack.isEmpty && (r.final.map (·.id)) == (lastCanon.getLast?.map (·.id)) then [] else ["resumption-does-not-leave-the-consumer-on-the-last-canonical-block"]
               | none => ["resumption-violates-undo-irreversible-new-discipline"])
             else if rend == "resolveerr" then
               -- must fail only when a needed forked block is unavailable or does not link above the LIB
               (let needed := stack.filter (fun r => !(canonAll.any (·.id == r.id)))
                let cursorBlkForked := !(canonAll.any (·.id == c.block.id))
                let neededAll := if c.step == .undo && cursorBlkForked then needed ++ [c.block] else needed
                if neededAll.all (fun r => files.any (fun f => f.blk.id == r.id)) && (fullPath.head?.map (fun r => parent r.id)) == some c.lib.id
                   && canonAll.any (·.id == c.lib.id)
                then ["cursor-resolution-error-although-every-needed-forked-block-is-available"] else [])
             else [])
        -- C11: once the handler has returned an error it is not called again, and the source reports that error
        let c11 : List String := match failAt with
          | none => []
          | some k =>
            if impl.length > k + 1 then ["monitor C11 FAIL handler-called-again-after-it-returned-an-error"]
            else if impl.length == k + 1 && rend != "handlererr" then [s!"monitor C11 FAIL handler-error-not-reported-as-the-cause-of-the-end (reported: {rend})"]
            else []
        model ++ (if failAt.isSome then [] else (fails.take 1).map ("monitor C06 FAIL " ++ ·)) ++ c11
    | _, _, _ => ["model bad-case"]
  | _ => ["model bad-case"]

end BstreamVerif.Drv.FileDrv
