import BstreamVerif.Model.Joining
import BstreamVerif.Spec.Consumer
import BstreamVerif.Drv.FileDrv
/- suite `stream`:
   case n stream <start> <stop> <mode num|from|through> <final 0/1> <custom mask|-> <bundleSize> <hubKept> <fsb>
   bundle … / fork … (as in the resolver suite) / cursor <step> <blk> <head> <lib>
   hub <id:parent:num:lib> <before|after:<k>|idle>      every block handed to the hub's forkable, in order
   op run      impl ev <step> <id> <num> <head> <lib> <junction|->  … ; impl send <stop|invalidarg|resolveerr|stuck|…> -/
namespace BstreamVerif.Drv.StreamDrv
open BstreamVerif BstreamVerif.Joining BstreamVerif.Drv BstreamVerif.Drv.FileDrv

def sendStr : SEnd → String
  | .stopReached => "stop" | .invalidArg => "invalidarg" | .resolveErr => "invalidarg" | .fileErr e => "fileerr:" ++ e
  | .notFound => "notfound" | .stuck => "stuck" | .handlerErr => "handlererr"

open BstreamVerif.Consumer in
def handle (hdr : List String) (body : List (List String)) : List String :=
  match hdr with
  | [_, "stream", st, sp, mode, fin, cust, bs, kept, fsb] =>
    match st.toInt?, sp.toNat?, bs.toNat?, kept.toNat?, fsb.toNat? with
    | some st, some sp, some bs, some kept, some fsb =>
      let bundles := parseBundles body
      let files : List Resolver.ForkFile := body.filterMap (fun ws => match ws with
        | ["fork", b, r] => (parseBlk4 b).map (fun b => ⟨b.num, Resolver.trunc16 b.id, Resolver.trunc16 b.parent, b, r == "1"⟩)
        | _ => none)
      let cur? : Option HubBurst.Cur := body.findSome? (fun ws => match ws with
        | ["cursor", s, b, h, l] => do
          let s ← Step.ofName s; let b ← parseRefTok b; let h ← parseRefTok h; let l ← parseRefTok l
          pure ⟨s, b, h, l⟩
        | _ => none)
      let pushes : List Push := body.filterMap (fun ws => match ws with
        | ["hub", b, w] => (parseBlk4 b).bind (fun b =>
            if w == "before" then some ⟨b, .before⟩
            else if w == "idle" then some ⟨b, .idle⟩
            else match w.splitOn ":" with
              | ["after", k] => k.toNat?.map (fun k => ⟨b, .afterDelivery k⟩)
              | ["boot", k] => k.toNat?.map (fun k => ⟨b, .afterDelivery k⟩)    -- the hub's bootstrap, during delivery k
              | _ => none)
        | _ => none)
      let bootAt : Option Nat := body.findSome? (fun ws => match ws with
        | ["hub", _, w] => (match w.splitOn ":" with | ["boot", k] => k.toNat? | _ => none)
        | _ => none)
      let cfg : SCfg := { start := st, stop := sp, cursor := if mode == "num" then none else cur?, cursorIsTarget := mode == "through",
                          finalOnly := fin == "1", customFilter := if cust == "-" then none else cust.toNat?, bundleSize := bs, fsb := fsb,
                          failNum := body.findSome? (fun ws => match ws with | ["failnum", n] => n.toNat? | _ => none) }
      let hubCfg : Forkable.Config := ⟨none, true, kept, false, 51, fsb⟩
      let (evs, e) := runStream cfg hubCfg bundles files pushes
      let notReady := body.any (· == ["impl", "send", "hub-not-ready"])      -- generator artefact: case not run
      let model := if notReady then ["model send hub-not-ready"] else
        evs.map (fun e => "model " ++ evLine e) ++ ["model send " ++ sendStr e]
      -- monitors (C07, C13) on the implementation's deliveries
      let allBlks : List Blk := bundles.flatMap (·.blocks) ++ files.map (·.blk) ++ pushes.map (·.blk)
      let parent (id : Id) : Id := match allBlks.find? (·.id == id) with | some b => b.parent | none => "?"
      let impl : List Obs := body.filterMap (fun ws => match ws with
        | ["impl", "ev", s, i, n, h, l, j] => do
          let ok := !s.startsWith "CURSORMISMATCH-"
          let step ← Step.ofName (if ok then s else (s.drop 15).toString)
          let n ← n.toNat?; let h ← parseRefTok h; let l ← parseRefTok l
          pure (⟨step, ⟨tokId i, n⟩, h, l, if j == "-" then none else parseRefTok j, 0, 0, ok⟩ : Obs)
        | _ => none)
      let send := (body.findSome? (fun ws => match ws with | "impl" :: "send" :: r :: _ => some r | _ => none)).getD "none"
      -- C13: nothing above the stop block; the stop block itself delivered when it exists; filters only remove
      let c13a := if sp != 0 && impl.any (fun e => e.ref.num > sp) then ["monitor C13 FAIL event-delivered-above-the-stop-block"] else []
      let c13b := if impl.all (fun e => passesFilter cfg e.step) then [] else ["monitor C13 FAIL event-that-the-step-filter-must-remove-was-delivered"]
      let c13c := if send == "panic" || send == "hang" then ["monitor C13 FAIL stream-crash-or-hang"] else []
      -- a stream that reaches its stop block ends with *the* stop-block-reached error (the value callers compare with),
      -- whether the end comes from the stop handler or from the file source's end-of-range marker
      let c13f := if model.getLast? == some "model send stop" && send.startsWith "other:" then
          [s!"monitor C13 FAIL stream-reached-its-stop-block-but-ended-with-another-error ({send})"] else []
      -- the stop block itself is delivered when it exists: when the run ends with stop-block-reached and the chain the
      -- hub ends up on (ancestry of its single highest block) has a block at height S, an event for height S was delivered
      let maxNum := (pushes.map (·.blk.num)).foldl max 0
      let tops := pushes.filter (·.blk.num == maxNum)
      let rec chainOf (fuel : Nat) (id : Id) (acc : List Blk) : List Blk :=
        match fuel with
        | 0 => acc
        | fuel + 1 => match allBlks.find? (·.id == id) with
          | some b => chainOf fuel b.parent (b :: acc)
          | none => acc
      let finalChain : List Blk := match tops with | [t] => chainOf (allBlks.length + 1) t.blk.id [] | _ => []
      let filterSeesBlocks := cfg.finalOnly || (match cfg.customFilter with | some m => m % 2 == 1 || (m / 16) % 2 == 1 | none => true)
      let resumedPastStop := match cfg.cursor with | some c => c.block.num ≥ sp | none => false
      -- … and that block is on the chain the stream actually followed: in the merged files, or on the hub's own chain
      -- (what its forkable delivered) when the stream ended — blocks that reached the hub before their parents and
      -- were never switched to do not count
      let hubAtEnd : List Blk := match runStreamFinal cfg hubCfg bundles files pushes with
        | some mf => (match HubBurst.headSegment mf.hub with | some (_, seg) => seg.map (·.blk) | none => [])
        | none => []
      let followed : List Blk := bundles.flatMap (·.blocks) ++ hubAtEnd
      let c13d := if send == "stop" && sp != 0 && filterSeesBlocks && !resumedPastStop && finalChain.any (·.num == sp) && followed.any (·.num == sp) && !(impl.any (·.ref.num == sp))
                  then ["monitor C13 FAIL stop-block-reached-without-delivering-the-stop-block"] else []
      -- "a filter passes exactly the matching events": a stream by block number whose filter passes New blocks does not
      -- go quiet with nothing delivered while the chain it follows holds blocks from its start block on
      let passesNew := passesFilter cfg .new
      let startAbs := absStart cfg hubCfg pushes
      let c13e := if passesNew && cfg.cursor.isNone && impl.isEmpty && send == "stuck" &&
                     followed.any (fun b => b.num ≥ startAbs && (sp == 0 || b.num ≤ sp)) &&
                     followed.any (fun b => b.num == startAbs)     -- the start block itself is there (a request for a skipped number is refused by the hub)
                  then ["monitor C13 FAIL nothing-delivered-although-the-filter-passes-new-blocks-and-the-chain-holds-blocks-from-the-start-on"] else []
      -- C11 at stream level: once the handler has failed on a block, Run reports the handler's error (not the stop block,
      -- not success) and the handler is not called again
      let c11 : List String := match cfg.failNum with
        | none => []
        | some fnum =>
          match impl.findIdx? (fun e => e.ref.num == fnum) with
          | none => []
          | some i =>
            if i + 1 < impl.length then ["monitor C11 FAIL handler-called-again-after-it-returned-an-error"]
            else if send != "handlererr" then [s!"monitor C11 FAIL handler-error-not-reported-as-the-cause-of-the-end (reported: {send})"]
            else []
      -- C07 (default filter, by number or from cursor): one sequence following the undo/new discipline from the
      -- consumer state implied by the start point, events for blocks below the first delivered block aside
      let c07 : List String :=
        if cfg.finalOnly || cfg.customFilter.isSome || send == "invalidarg" then [] else
        match impl.head? with
        | none => []
        | some f =>
          let c0 : CState := match cfg.cursor, cfg.cursorIsTarget with
            | some c, false =>
              let rec pathUp (fuel : Nat) (id : Id) (acc : List Ref) : List Ref :=
                match fuel with
                | 0 => acc
                | fuel + 1 => if id == c.lib.id then acc else
                  match allBlks.find? (·.id == id) with
                  | some b => pathUp fuel b.parent (b.ref :: acc)
                  | none => acc
              let full := pathUp (allBlks.length + 1) c.block.id []
              { stack := if c.step == .undo then full.dropLast else full, final := some c.lib }
            | _, _ => { stack := [], final := some ⟨parent f.ref.id, 0⟩ }
          -- with the default filter the consumer sees New/Undo/new+irreversible only: finality is not announced,
          -- so a new+irreversible block is pushed like a New one
          let asNew := impl.map (fun e => if e.step == .newIrreversible then { e with step := .new } else e)
          -- "events that a later live reorganisation produces for blocks below the first delivered block aside": a
          -- stream started by number rests on blocks it never delivered; a live reorganisation reaching below the first
          -- delivered block undoes such (virtual) blocks — an Undo on the empty stack for a block below the first one —
          -- after which the consumer rests on whatever the next New extends
          let firstNum := f.ref.num
          let byNumber := cfg.cursor.isNone
          let step (acc : Option CState) (e : Obs) : Option CState :=
            match acc with
            | none => none
            | some c =>
              if byNumber && e.step == .undo && c.stack.isEmpty && e.ref.num < firstNum then some { c with final := none }
              else if byNumber && e.step == .new && c.stack.isEmpty && c.final.isNone then some { c with stack := [e.ref] }
              else CState.apply parent c e
          match asNew.foldl step (some c0) with
          | none => ["monitor C07 FAIL handoff-sequence-violates-the-undo-new-discipline"]
          | some r =>
            -- every canonical block from the start point up to the stop block exactly once, in order
            let canonIds : List Id := ((bundles.flatMap (·.blocks)).map (·.id))
            let _ := canonIds
            let held := r.stack.map (·.id)
            -- the handoff must happen when files and hub cover the chain: a stream that has stopped delivering although
            -- its tip is a canonical block the hub still retains and the hub holds later canonical blocks has stalled
            -- the hub as the schedule left it (pushes that were still pending when the stream went quiet are applied in order)
            let hubFinal := match runStreamFinal cfg hubCfg bundles files pushes with
              | some mf => mf.pushes.foldl (fun s p => (Forkable.processBlock hubCfg s p.blk none).1) mf.hub
              | none => Forkable.init hubCfg
            let lowestFinal := hubLowest hubFinal
            let stalled : List String := match r.stack.getLast?, HubBurst.headSegment hubFinal with
              | some tip, some (hubHead, seg) =>
                -- the hub's own chain (what its forkable delivered), not the ancestry of the highest block it received
                if send == "stuck" && tip.id != hubHead.id && seg.any (·.blk.id == tip.id) && lowestFinal != 0 && lowestFinal ≤ tip.num
                    && (sp == 0 || tip.num < sp)
                    -- with a cursor the file side first has to get past the cursor block (the resolver needs the merged
                    -- block at the cursor's height; a hub may legitimately refuse a cursor that forked below its LIB):
                    -- waiting for a merged file that the static store of the test does not hold is not a stall
                    && (match cfg.cursor with | some c => tip.num ≥ c.block.num | none => true)
                    -- a hub that came up only after the file side had handed over its last block is asked again only when
                    -- the next merged file appears (join attempts are made on file events): not a stall of the stream
                    && (match bootAt with | some k => impl.length > k + 1 | none => true)
                then ["monitor C07 FAIL stream-stalls-although-the-hub-retains-its-tip-and-holds-later-canonical-blocks"] else []
              | _, _ => []
            if stalled != [] then stalled else
            if held.length == (held.foldl (fun (l : List Id) i => if l.contains i then l else l ++ [i]) []).length then []
            else ["monitor C07 FAIL a-block-is-held-twice-after-the-handoff"]
      model ++ (c13c ++ c13a ++ c13b ++ c13d ++ c13e ++ c13f).take 1 ++ c07.take 1 ++ c11
    | _, _, _, _, _ => ["model bad-case"]
  | _ => ["model bad-case"]

end BstreamVerif.Drv.StreamDrv
