import BstreamVerif.Model.DBin
import BstreamVerif.Model.OneBlock
import BstreamVerif.Drv.Util
/- Line protocol for suites `dbin` (stateful: oracle lines + one op) and `oneblock` (stateless).
   dbin:   case n dbin <fsb>
           oracle <msghex> <bad | id:num:parent:parentnum:lib:haspayload:typeurl:value:kind:buffer:ts>
           op read <filehex>      impl ct <hex> / impl blk <summary> … / impl end <eof|errheader|errread|errdecode>
           op write <cthex> <msghex,msghex,…>   impl file <hex> | impl err
-/
namespace BstreamVerif.Drv.FilesDrv
open BstreamVerif.DBin BstreamVerif.OneBlock BstreamVerif.Drv

def parseSum (s : String) : Option BlockSum :=
  match s.splitOn ":" with
  | [i, n, p, pn, l, hp, tu, v, k, b, ts] => do
    let i ← unhex i; let n ← n.toNat?; let p ← unhex p; let pn ← pn.toNat?; let l ← l.toNat?
    let hp ← parseBool hp; let tu ← unhex tu; let v ← unhex v; let k ← k.toInt?; let b ← unhex b
    pure ⟨i, n, p, pn, l, hp, tu, v, k, b, ts⟩
  | _ => none

def showSum (b : BlockSum) : String :=
  s!"{hex b.id}:{b.num}:{hex b.parent}:{b.parentNum}:{b.lib}:{if b.hasPayload then 1 else 0}:{hex b.typeUrl}:{hex b.value}:{b.kind}:{hex b.buffer}:{b.ts}"

def endStr : End → String
  | .eof => "eof" | .errHeader => "errheader" | .errRead => "errread" | .errDecode => "errdecode"

def handleDbin (hdr : List String) (body : List (List String)) : List String :=
  let fsb := ((hdr.getD 2 "0").toNat?).getD 0
  -- oracle: message bytes → raw decode result
  let oracle : List (Bytes × Option BlockSum) := body.filterMap (fun ws =>
    match ws with
    | ["oracle", m, "bad"] => (unhex m).map (fun m => (m, none))
    | ["oracle", m, s] => (unhex m).bind (fun m => (parseSum s).map (fun b => (m, some b)))
    | _ => none)
  let unknown : Bool := false
  let dec (m : Bytes) : Option BlockSum :=
    match oracle.find? (fun (x : Bytes × Option BlockSum) => x.1 == m) with
    | some (_, some b) => upgradeLegacy fsb b
    | some (_, none) => none
    | none => none
  let _ := unknown
  let modelLines := body.flatMap (fun ws =>
    match ws with
    | "op" :: "read" :: f :: _ =>
      match unhex f with
      | none => ["model bad-op"]
      | some file =>
        let (ct, blks, e) := readAll dec file
        (if e == .errHeader then [] else ["model ct " ++ hex ct]) ++
          blks.map (fun b => "model blk " ++ showSum b) ++ ["model end " ++ endStr e]
    | ["op", "write", ct, msgs] =>
      match unhex ct, (if msgs == "-" then some [] else (msgs.splitOn ",").mapM unhex) with
      | some ct, some msgs =>
        (match writeAll ct msgs with
         | some f => ["model file " ++ hex f]
         | none => ["model err"])
      | _, _ => ["model bad-op"]
    | _ => [])
  -- C16 monitor on the implementation's answers: blocks read from the intact / truncated / damaged file
  let origs : List (Bytes × Option BlockSum) := body.filterMap (fun ws =>
    match ws with
    | ["orig", m, s] => (unhex m).bind (fun m => (parseSum s).map (fun b => (m, upgradeLegacy fsb b)))
    | _ => none)
  let good : List BlockSum := (origs.takeWhile (·.2.isSome)).filterMap (·.2)     -- readable originals, upgraded
  let ctLen : Nat := (body.findSome? (fun ws => match ws with
    | ["op", "write", ct, _] => (unhex ct).map (·.length) | _ => none)).getD 0
  let hdrLen := 7 + ctLen
  -- group impl lines per read op
  let groups : List (List String × List (List String)) :=
    (body.foldl (fun (acc : List (List String × List (List String))) ws =>
      match ws with
      | "op" :: "read" :: _ => (ws, []) :: acc
      | "impl" :: _ => (match acc with | (o, ls) :: rest => (o, ls ++ [ws]) :: rest | [] => [])
      | "op" :: _ => (ws, []) :: acc
      | _ => acc) []).reverse
  let isPrefix (a b : List BlockSum) : Bool := a.length ≤ b.length && b.take a.length == a
  let fails : List String := groups.filterMap (fun (o, ls) =>
    match o with
    | ["op", "read", _, kind, arg] =>
      let blks : List (Option BlockSum) := ls.filterMap (fun l => match l with | ["impl", "blk", s] => some (parseSum s) | _ => none)
      let endTok := (ls.findSome? (fun l => match l with | ["impl", "end", e] => some e | _ => none)).getD "none"
      if endTok == "panic" then some "reader-crash"
      else if endTok == "runaway" then some "reader-does-not-end"
      else if blks.any (·.isNone) then some "unparsable-summary"
      else
        let bs := blks.filterMap id
        if kind == "intact" then
          (if bs == good && (endTok == "eof" || (good.length < origs.length && endTok == "errdecode")) then none
           else some "roundtrip-differs")
        else if kind == "trunc" then
          (if isPrefix bs good then none else some "truncation-yields-altered-block")
        else if kind == "corrupt" then
          let p := arg.toNat?.getD 0
          if p < hdrLen then (if isPrefix bs good then none else none)   -- damaged header: content type may differ, blocks not at stake
          else
            -- frames wholly before p
            let ends : List Nat := (origs.foldl (fun (acc : Nat × List Nat) (x : Bytes × Option BlockSum) =>
              let e := acc.1 + 4 + x.1.length; (e, acc.2 ++ [e])) (hdrLen, [])).2
            let j := (ends.filter (· ≤ p)).length
            let jj := min j good.length
            if bs.take jj != good.take jj then some "corruption-damaged-an-earlier-block"
            else if isPrefix bs good then none
            else some "corrupted-byte-inside-a-message-yields-an-altered-block"
        else none
    | _ => none)
  let writeCrash := groups.any (fun (o, ls) => o.take 2 == ["op", "write"] && ls.any (· == ["impl", "panic"]))
  let fails := if writeCrash then "writer-crash" :: fails else fails
  modelLines ++ (match fails with | [] => [] | f :: _ => ["monitor C16 FAIL " ++ f])

def parseParts (n i p l : String) : Option NameParts := do
  let n ← n.toNat?; let i ← unhex i; let p ← unhex p; let l ← l.toNat?
  pure ⟨n, i, p, l⟩

def showParsed (r : Option Parsed) : String :=
  match r with
  | some p => s!"ok {p.parts.num} {hex p.parts.id} {hex p.parts.parent} {p.parts.lib} {hex p.canonical}"
  | none => "err"

def generated : Bytes := strBytes "generated"

def opOneBlock (ws : List String) : String :=
  match ws with
  | ["fname", n, i, p, l, suf] =>
    match parseParts n i p l, unhex suf with
    | some b, some suf => hex (fileName b suf)
    | _, _ => "bad-op"
  | ["parse", name] =>
    match unhex name with
    | some name => showParsed (parseFilename name)
    | none => "bad-op"
  | ["rt", n, i, p, l] =>
    match parseParts n i p l with
    | some b => showParsed (parseFilename (fileName b generated))
    | none => "bad-op"
  | ["mfetch", n, _base, bl] =>
    -- the block numbered n of the merged bundle, when there is one (the file source skips lower blocks and stops
    -- at the first higher one)
    match n.toNat? with
    | some n =>
      let blks : List (String × Nat) := (bl.splitOn ",").filterMap (fun t => match t.splitOn ":" with
        | [i, _, k, _] => k.toNat?.map (fun k => (i, k)) | _ => none)
      (match (blks.dropWhile (fun b => b.2 < n)).head? with
       | some b => if b.2 == n then s!"found {b.1} {b.2}" else "notfound"
       | none => "notfound")
    | none => "bad-op"
  | ["fetch", n, i, names] =>
    match n.toNat?, unhex i, (if names == "-" then some [] else (names.splitOn ",").mapM unhex) with
    | some n, some i, some names =>
      (match fetchChoice names n i with
       | some p => "found " ++ hex p.canonical
       | none => "notfound")
    | _, _, _ => "bad-op"
  | _ => "bad-op"

def dashFree (b : Bytes) : Bool := !b.contains dash

def monitorOneBlock (ws impl : List String) : String :=
  if impl == ["panic"] then "filename-crash" else
  match ws with
  | ["mfetch", n, _, bl] =>
    -- fetching by number from a merged store returns that block or not-found
    let stored : List (String × String) := (bl.splitOn ",").filterMap (fun t => match t.splitOn ":" with
      | [i, _, k, _] => some (i, k) | _ => none)
    (match impl with
     | ["found", i, k] => if k == n && stored.contains (i, k) then "" else "fetch-by-number-returns-another-block"
     | ["notfound"] => if stored.any (·.2 == n) then "fetch-by-number-misses-a-stored-block" else ""
     | _ => "fetch-by-number-fails")
  | ["fetch", n, i, names] =>
    -- fetching by number and id from a one-block store returns a stored block with that id, or not-found — and
    -- not-found only when no file of that height carries the id
    (match n.toNat?, unhex i, (if names == "-" then some [] else (names.splitOn ",").mapM unhex) with
     | some n, some i, some names =>
       let stored := names.filterMap parseFilename
       (match impl with
        | ["found", x] =>
          if stored.any (fun p => hex p.canonical == x && hasSuffix i p.parts.id) then ""
          else "fetch-from-one-block-store-returns-another-block"
        | ["notfound"] =>
          if stored.any (fun p => p.parts.num == n && hasSuffix i p.parts.id) then "fetch-from-one-block-store-misses-a-stored-block"
          else ""
        | _ => "fetch-from-one-block-store-fails")
     | _, _, _ => "")
  | ["rt", n, i, p, l] =>
    match parseParts n i p l with
    | some b =>
      if dashFree b.id && dashFree b.parent && b.num < 2^64 && b.lib < 2^64 then
        (match impl with
         | ["ok", n', i', p', l', _] =>
           if n'.toNat? == some b.num && unhex i' == some (trunc16 b.id) && unhex p' == some (trunc16 b.parent)
              && l'.toNat? == some b.lib then "" else "filename-roundtrip-changed"
         | _ => "filename-roundtrip-error")
      else if b.id.contains dash || b.parent.contains dash then
        -- F-C16e: a '-'-separated name cannot carry an id containing '-'
        (match impl with
         | ["ok", n', i', p', l', _] =>
           if n'.toNat? == some b.num && unhex i' == some (trunc16 b.id) && unhex p' == some (trunc16 b.parent)
              && l'.toNat? == some b.lib then "" else "filename-id-containing-dash-does-not-roundtrip"
         | _ => "filename-id-containing-dash-does-not-roundtrip")
      else ""
    | none => "unparsable"
  | _ => ""

end BstreamVerif.Drv.FilesDrv
