/- Shared helpers for the line-protocol driver (core only). -/
namespace BstreamVerif.Drv

def words (line : String) : List String :=
  (line.trimAscii.toString.splitOn " ").filter (· ≠ "")

def unwords (ws : List String) : String := " ".intercalate ws

def hexVal (c : Char) : Option Nat :=
  if '0' ≤ c ∧ c ≤ '9' then some (c.toNat - '0'.toNat)
  else if 'a' ≤ c ∧ c ≤ 'f' then some (c.toNat - 'a'.toNat + 10)
  else if 'A' ≤ c ∧ c ≤ 'F' then some (c.toNat - 'A'.toNat + 10)
  else none

/-- decode "0a1bff" (or "-" for empty) into bytes; none on malformed -/
def unhex (s : String) : Option (List UInt8) :=
  if s == "-" then some [] else
  let rec go : List Char → Option (List UInt8)
    | [] => some []
    | [_] => none
    | a :: b :: rest => do
      let x ← hexVal a
      let y ← hexVal b
      let tl ← go rest
      pure (UInt8.ofNat (x * 16 + y) :: tl)
  go s.toList

def hexDigit (n : Nat) : Char :=
  if n < 10 then Char.ofNat (48 + n) else Char.ofNat (87 + n)

def hex (bs : List UInt8) : String :=
  if bs.isEmpty then "-" else
  String.ofList (bs.flatMap fun b => [hexDigit (b.toNat / 16), hexDigit (b.toNat % 16)])

def boolStr (b : Bool) : String := if b then "true" else "false"

def parseBool (s : String) : Option Bool :=
  if s == "1" || s == "true" then some true
  else if s == "0" || s == "false" then some false else none

def parseU64 (s : String) : Option UInt64 :=
  match s.toNat? with
  | some n => if n < 2 ^ 64 then some (UInt64.ofNat n) else none
  | none => none

def parseInt (s : String) : Option Int := s.toInt?

end BstreamVerif.Drv
