import BstreamVerif.Model.Index
import BstreamVerif.Drv.Util
/- suite `index`:  case n index <indexSize> <fsb> <definedStart|-> <possibleSizes a,b,c>
   op add <num> <k1,k2|->            impl ok
   op files                          impl files <low.size,…|->
   op prov <exact|prefix> <keys|->   impl ok               (creates provider #i with that filter)
   op query <i> <base> <bundle>      impl res <n,n|-> | impl res err -/
namespace BstreamVerif.Drv.IndexDrv
open BstreamVerif.Index BstreamVerif.Drv

def natList (l : List Nat) : String := if l.isEmpty then "-" else ",".intercalate (l.map toString)
def keyList (s : String) : List String := if s == "-" then [] else s.splitOn ","

structure St where
  ix : Indexer
  provs : List (Provider × (Key → Bool))

def insertNatSorted (n : Nat) : List Nat → List Nat
  | [] => [n]
  | x :: xs => if n ≤ x then n :: x :: xs else x :: insertNatSorted n xs

def handle (hdr : List String) (body : List (List String)) : List String :=
  match hdr with
  | [_, "index", sz, fsb, ds, sizes] =>
    match sz.toNat?, fsb.toNat? with
    | some sz, some fsb =>
      let sizes := (sizes.splitOn ",").filterMap String.toNat?
      let init : St := ⟨⟨sz, fsb, if ds == "-" then none else ds.toNat?, none, []⟩, []⟩
      let (_, out) := body.foldl (fun (acc : St × List String) ws =>
        let (st, out) := acc
        match ws with
        | ["op", "add", n, ks] =>
          match n.toNat? with
          | some n => ({ st with ix := st.ix.add (keyList ks) n }, "model ok" :: out)
          | none => (st, "model bad-op" :: out)
        | ["op", "files"] =>
          let fs := (st.ix.written.map (·.low)).foldl (fun l n => insertNatSorted n l) []
          (st, ("model files " ++ (if fs.isEmpty then "-" else ",".intercalate (fs.map (fun l => s!"{l}.{sz}")))) :: out)
        | ["op", "prov", kind, ks] =>
          let keys := keyList ks
          let want : Key → Bool := if kind == "exact" then (fun k => keys.contains k)
            else (fun k => keys.any (fun p => k.startsWith p))
          ({ st with provs := st.provs ++ [(({ sizes := sizes, fsb := fsb } : Provider), want)] }, "model ok" :: out)
        | ["op", "query", i, b, bu] =>
          match i.toNat?, b.toNat?, bu.toNat? with
          | some i, some b, some bu =>
            (match st.provs[i]? with
             | some (p, want) =>
               let (p', r) := blocksInRange st.ix.written want p b bu
               let provs := st.provs.mapIdx (fun j x => if j == i then (p', want) else x)
               ({ st with provs := provs }, ("model res " ++ (match r with | some l => natList l | none => "err")) :: out)
             | none => (st, "model bad-op" :: out))
          | _, _, _ => (st, "model bad-op" :: out)
        | _ => acc) (init, [])
      -- C15 monitor: answers of the provider are exactly the indexed blocks carrying a wanted key inside [base, base+size)
      let adds : List (Nat × List String) := body.filterMap (fun ws => match ws with
        | ["op", "add", n, ks] => n.toNat?.map (fun n => (n, keyList ks)) | _ => none)
      let provDefs : List (String × List String) := body.filterMap (fun ws => match ws with
        | ["op", "prov", kind, ks] => some (kind, keyList ks) | _ => none)
      let pairs := (body.filter (fun l => l.head? == some "op")).zip ((body.filter (fun l => l.head? == some "impl")))
      let written : List Nat := (pairs.filterMap (fun (o, i) => match o, i with
        | ["op", "files"], ["impl", "files", fs] => some ((if fs == "-" then [] else fs.splitOn ",").filterMap (fun s => ((s.splitOn ".").head?.bind String.toNat?)))
        | _, _ => none)).getLast?.getD []
      let bad := pairs.findSome? (fun (o, i) =>
        match o, i with
        | ["op", "query", pi, b, bu], ["impl", "res", r] =>
          (match pi.toNat?, b.toNat?, bu.toNat?, provDefs[pi.toNat?.getD 0]? with
           | some _, some b, some bu, some (kind, keys) =>
             if r == "err" || bu == 0 then none else
             let got := (if r == "-" then [] else r.splitOn ",").filterMap String.toNat?
             let want (k : String) : Bool := if kind == "exact" then keys.contains k else keys.any (fun p => k.startsWith p)
             -- the answer must only contain indexed matching blocks inside the window, ascending, none missing among
             -- those stored in the (written) index file that covers `b`
             let inWin (n : Nat) : Bool := decide (max b fsb ≤ n) && decide (n < b + bu)
             let expected := (adds.filter (fun (n, ks) => inWin n && ks.any want)).map (·.1)
             let expectedSet := expected.foldl (fun l n => if l.contains n then l else insertNatSorted n l) []
             if got.all (fun n => expectedSet.contains n) && got == got.foldl (fun l n => if l.contains n then l else insertNatSorted n l) [] then
               -- completeness: every expected block whose index file (of the provider's size) was written is present
               (if expectedSet.all (fun n => got.contains n || !(written.any (fun low => low ≤ n && n < low + sz))) then none
                else some "indexed-matching-block-missing-from-range")
             else some "range-returns-block-outside-window-or-not-matching"
           | _, _, _, _ => none)
        | _, ["impl", "panic"] => some "index-crash"
        | _, _ => none)
      -- a range whose index file was written is answered, not refused: an error where the (proven) provider model
      -- answers means index-covered bundles are read unfiltered from there on
      let bad2 := ((pairs.zip out.reverse).findSome? (fun ((o, i), m) =>
        match o, i with
        | ["op", "query", _, _, _], ["impl", "res", "err"] =>
          if m != "model res err" && m.startsWith "model res" then some "indexed-range-answered-with-an-error" else none
        | _, _ => none))
      let verdict : List String := match bad, bad2 with
        | some b, _ => ["monitor C15 FAIL " ++ b]
        | none, some b => ["monitor C15 FAIL " ++ b]
        | none, none => []
      out.reverse ++ verdict
    | _, _ => ["model bad-case"]
  | _ => ["model bad-case"]

end BstreamVerif.Drv.IndexDrv
