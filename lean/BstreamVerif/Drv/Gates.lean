import BstreamVerif.Model.Gates
import BstreamVerif.Spec.GateSpec
import BstreamVerif.Drv.Util
/- Line protocol for suite `gates`:
   case n gates <num|id|irrnum|irrid|realtime> <target> <incl 0/1> <maxhold> <fsb>
   case n gator <num|time> <target> <exclusive 0/1>
   case n minfilter <n>   |   case n tripper <tol>
   op ev <id|-> <num> <step> <age>      impl <ok|errhold> <fwd 0/1>   (gator: impl true|false; tripper: impl <fwd> <trips>) -/
namespace BstreamVerif.Drv.GatesDrv
open BstreamVerif.Gates BstreamVerif.GateSpec BstreamVerif.Drv

def idTok (s : String) : String := if s == "-" then "" else s

def parseEv (ws : List String) : Option Ev :=
  match ws with
  | ["op", "ev", i, n, st, a] => do
    let n ← n.toNat?
    let st ← st.toNat?
    let a ← a.toInt?
    pure ⟨idTok i, n, st, a⟩
  | _ => none

def parseCfg (hdr : List String) : Option Cfg :=
  match hdr with
  | [_, "gates", k, t, incl, mh, fsb] => do
    let incl ← parseBool incl
    let mh ← mh.toNat?
    let fsb ← fsb.toNat?
    let kind ← match k with
      | "num" => t.toNat?.map Kind.num
      | "irrnum" => t.toNat?.map Kind.irrNum
      | "id" => some (Kind.id (idTok t))
      | "irrid" => some (Kind.irrId (idTok t))
      | "realtime" => t.toInt?.map Kind.realtime
      | _ => none
    pure ⟨kind, incl, mh, fsb⟩
  | _ => none

def outStr : Out → String
  | .fwd => "ok 1" | .drop => "ok 0" | .errHold => "errhold 0"

def implLines (body : List (List String)) : List (List String) :=
  (body.filter (fun l => l.head? == some "impl")).map (·.drop 1)

def handle (hdr : List String) (body : List (List String)) : List String :=
  let evs := body.filterMap parseEv
  let impl := implLines body
  match hdr with
  | _ :: "gates" :: _ =>
    match parseCfg hdr with
    | none => ["model bad-case"]
    | some cfg =>
      let outs := run cfg (initState cfg) evs
      let model := outs.map (fun o => "model " ++ outStr o)
      -- monitor on the implementation's answers
      let implFwd := (evs.zip impl).filterMap (fun (e, l) => if l.getD 1 "" == "1" then some e else none)
      let implErr := impl.map (fun l => l.head? == some "errhold")
      let m1 := if implFwd == suffixSpec cfg evs then [] else ["monitor C17 FAIL forwarded-not-the-suffix"]
      let m2 := if implErr == holdErrs cfg 0 evs then [] else ["monitor C17 FAIL holdoff-error-misplaced"]
      let m3 := if impl.any (· == ["panic"]) then ["monitor C17 FAIL gate-crash"] else []
      model ++ (if m3.isEmpty then m1 ++ m2 else m3)
  | [_, "gator", k, t, ex] =>
    let kind := match k with
      | "num" => (t.toNat?.bind fun t => (parseBool ex).map fun ex => GatorKind.num t ex)
      | "time" => t.toInt?.map GatorKind.time
      | _ => none
    match kind with
    | none => ["model bad-case"]
    | some kind =>
      let outs := gatorRun kind false evs
      let implB := impl.map (fun l => l == ["true"])
      outs.map (fun b => "model " ++ boolStr b) ++
        (if impl.any (· == ["panic"]) then ["monitor C17 FAIL gator-crash"]
         else if implB == gatorSpec kind evs then [] else ["monitor C17 FAIL gator-not-a-suffix"])
  | [_, "minfilter", n] =>
    match n.toNat? with
    | none => ["model bad-case"]
    | some n =>
      let keep := minFilter n evs
      evs.map (fun e => "model " ++ (if keep.contains e && e.num ≥ n then "1" else "0"))
  | [_, "tripper", tol] =>
    match tol.toInt? with
    | none => ["model bad-case"]
    | some tol =>
      -- every event forwarded; cumulative trips
      let rec go (p : Bool) (trips : Nat) : List Ev → List String
        | [] => []
        | e :: es =>
          let fire := !p && decide (e.age < tol)
          let trips' := if fire then trips + 1 else trips
          s!"model 1 {trips'}" :: go (p || fire) trips' es
      go false 0 evs
  | _ => ["model bad-case"]

end BstreamVerif.Drv.GatesDrv
