import BstreamVerif.Model.Forkable
import BstreamVerif.Model.HubBurst
import BstreamVerif.Spec.Consumer
import BstreamVerif.Drv.Util
import BstreamVerif.Drv.HubMon
/- Line protocol for suite `forkable`:
   case n forkable <none|ex:<id>:<num>|in:<id>:<num>> <hold> <kept> <alltrig> <filtermask> <fsb>
   op blk <id> <parent|-> <num> <lib> [fail <k>]
   impl|model ev <step> <id> <num> <headid>:<headnum> <libid>:<libnum> <junction|-> <idx> <count>
   impl|model ret <ok|errinvalid|errhandler>
   impl|model q <name> <value…>          (queries after every block; C18) -/
namespace BstreamVerif.Drv.ForkableDrv
open BstreamVerif BstreamVerif.ForkDB BstreamVerif.Forkable BstreamVerif.HubBurst BstreamVerif.Drv

def tokId (s : String) : Id := if s == "-" then "" else s
def idTok (s : Id) : String := if s == "" then "-" else s
def refTok (r : Ref) : String := s!"{idTok r.id}:{r.num}"

def parseRefTok (s : String) : Option Ref :=
  match s.splitOn ":" with
  | [i, n] => n.toNat?.map (fun n => ⟨tokId i, n⟩)
  | _ => none

def parseCfg (hdr : List String) : Option Config :=
  match hdr with
  | _ :: _ :: root :: hold :: kept :: allt :: filt :: fsb :: _ => do
    let root ← match root.splitOn ":" with
      | ["none"] => some none
      | ["ex", i, n] => n.toNat?.map (fun n => some (Root.exclusive ⟨tokId i, n⟩))
      | ["in", i, n] => n.toNat?.map (fun n => some (Root.inclusive ⟨tokId i, n⟩))
      | _ => none
    let hold ← parseBool hold
    let kept ← kept.toNat?
    let allt ← parseBool allt
    let filt ← filt.toNat?
    let fsb ← fsb.toNat?
    pure ⟨root, hold, kept, allt, filt, fsb⟩
  | _ => none

def parseBlkOp (ws : List String) : Option (Blk × Option Nat) :=
  match ws with
  | ["op", "blk", i, p, n, l] => do
    let n ← n.toNat?; let l ← l.toNat?
    pure (⟨tokId i, tokId p, n, l⟩, none)
  | ["op", "blk", i, p, n, l, "fail", k] => do
    let n ← n.toNat?; let l ← l.toNat?; let k ← k.toNat?
    pure (⟨tokId i, tokId p, n, l⟩, some k)
  | _ => none

def evLine (e : Event) : String :=
  s!"ev {e.step.name} {idTok e.blk.id} {e.blk.num} {refTok e.head} {refTok e.lib} {match e.junction with | some j => refTok j | none => "-"} {e.idx} {e.count}"

def resLine : Result → String
  | .ok => "ret ok" | .errInvalid => "ret errinvalid" | .errHandler => "ret errhandler"

/-- the C18 queries, printed after every block. `nums` = all heights fed so far, `ids` = all ids fed so far -/
def queryLines (s : FState) (nums : List Nat) (ids : List Id) : List String :=
  let head := match headInfo s with | some b => s!"{idTok b.id}:{b.num}:{b.lib}" | none => "-"
  [ s!"q head {head} {headNum s}",
    s!"q lowest {match lowestBlockNum s with | some n => toString n | none => "panic"}",
    "q ids " ++ (if (allIDs s).isEmpty then "-" else ",".intercalate ((allIDs s).map idTok)),
    "q canon " ++ " ".intercalate (nums.map fun n => s!"{n}={match canonicalBlockAt s n with | some b => idTok b.id | none => "-"}"),
    "q byhash " ++ " ".intercalate (ids.map fun i => s!"{idTok i}={if (getBlockByHash s i).isSome then 1 else 0}"),
    "q at " ++ " ".intercalate (nums.map fun n => s!"{n}={let l := allBlocksAt s n; if l.isEmpty then "-" else ",".intercalate (l.map (idTok ·.id))}") ]

def bevLine (e : Event) : String :=
  s!"b {e.step.name} {idTok e.blk.id} {e.blk.num} {refTok e.head} {refTok e.lib} {match e.junction with | some j => refTok j | none => "-"}"

def burstLines (r : Option (List Event)) : List String :=
  match r with
  | some evs => evs.map bevLine ++ ["bret ok"]
  | none => ["bret err"]

def parseCur (st b h l : String) : Option Cur := do
  let st ← Step.ofName st
  let b ← parseRefTok b; let h ← parseRefTok h; let l ← parseRefTok l
  pure ⟨st, b, h, l⟩

/-- the burst / snapshot queries of the hub suites -/
def burstOp (s : FState) (ws : List String) : Option (List String) :=
  match ws with
  | ["op", "fromnum", n] => n.toNat?.map (fun n => burstLines (blocksFromNum s n))
  | ["op", "forks", n] =>
    n.toNat?.map (fun n => match blocksFromNumWithForks s n with
      | some bs => ["bf " ++ (if bs.isEmpty then "-" else ",".intercalate (bs.map (fun b => refTok b.ref))), "bret ok"]
      | none => ["bret err"])
  | ["op", "fromcursor", _, st, b, h, l] =>
    (parseCur st b h l).map (fun c => burstLines (blocksFromCursor s 4 c))
  | ["op", "through", start, _, st, b, h, l] =>
    match start.toNat?, parseCur st b h l with
    | some start, some c => some (burstLines (hubThroughCursor s start c))
    | _, _ => none
  | ["op", "snapshot"] =>
    -- canonical retained segment from the head, and the hub's LIB
    if (lowestBlockNum s).isNone then some ["panic", "lowest panic"] else
    some [ match headSegment s with
           | some (_, seg) => "canon " ++ (if seg.isEmpty then "-" else ",".intercalate (seg.map (fun e => refTok e.blk.ref)))
           | none => "canon none",
           "lowest " ++ (match lowestBlockNum s with | some n => toString n | none => "panic") ]
  | _ => none

def insertNat (n : Nat) : List Nat → List Nat
  | [] => [n]
  | x :: xs => if n < x then n :: x :: xs else if n == x then x :: xs else x :: insertNat n xs

structure RunSt where
  st   : FState
  nums : List Nat
  ids  : List Id
  out  : List String    -- reversed

def runCase (cfg : Config) (withQueries : Bool) (body : List (List String)) : List String :=
  let final := body.foldl (fun (r : RunSt) ws =>
    match parseBlkOp ws with
    | none =>
      -- `op twin …`: C03 says the implementation's two traces are the same (kept_irrelevant / noise_irrelevant)
      if ws.take 2 == ["op", "twin"] then { r with out := "model twin same" :: r.out }
      else match burstOp r.st ws with
        | some lines => { r with out := (lines.map ("model " ++ ·)).reverse ++ r.out }
        | none => r
    | some (b, failAt) =>
      let (s', evs, res) := processBlock cfg r.st b failAt
      let nums := insertNat b.num r.nums
      let ids := if r.ids.contains b.id then r.ids else r.ids ++ [b.id]
      let lines := evs.map evLine ++ [resLine res] ++ (if withQueries then queryLines s' nums ids else [])
      { st := s', nums := nums, ids := ids, out := (lines.map ("model " ++ ·)).reverse ++ r.out })
    ⟨init cfg, [], [], []⟩
  final.out.reverse

/-- how many fed blocks were inside the hypotheses of the C01–C04 step theorem (Props/C01 `step_discipline`):
    (steps; steps on a state in the theorem's scope; of which every hypothesis held; steps covered by
    `history_discipline` from the initial state: exclusive known LIB and every hypothesis held at every step so far) -/
def thmStats (cfg : Config) (body : List (List String)) : Nat × Nat × Nat × Nat :=
  let handlerSees := cfg.matches .new && cfg.matches .undo && cfg.matches .irreversible
  let chain0 := handlerSees && (match cfg.root with | some (.exclusive r) => r.id != "" | _ => false)
  let r := body.foldl (fun (acc : FState × Bool × Bool × Nat × Nat × Nat × Nat) ws =>
    let (s, dead, chain, n, sc, ok, cov) := acc
    if dead then acc else
    match parseBlkOp ws with
    | none => acc
    | some (b, failAt) =>
      let inScope := handlerSees && !s.includeInit && s.db.libRef.id != ""
      let hyp := inScope && stepOKb s b
      let chain' := chain && hyp
      let (s', _, res) := processBlock cfg s b failAt
      (s', res == .errHandler, chain', n + 1, sc + (if inScope then 1 else 0), ok + (if hyp then 1 else 0),
        cov + (if chain' then 1 else 0)))
    (init cfg, false, chain0, 0, 0, 0, 0)
  (r.2.2.2.1, r.2.2.2.2.1, r.2.2.2.2.2.1, r.2.2.2.2.2.2)

/-- steps covered by `history_discipline_consistent` (Props/C01): the forkable starts on an exclusive LIB, the
    handler sees New/Undo/Irreversible, all blocks fed in the case form a consistent universe (ids identify blocks,
    heights grow along parent links, also across the root), and every LIB declaration so far resolved to a stored
    ancestor carrying its real number -/
def consistentCovered (cfg : Config) (body : List (List String)) : Nat × Nat × Nat :=
  let handlerSees := cfg.matches .new && cfg.matches .undo && cfg.matches .irreversible
  let blks := (body.filterMap parseBlkOp).map (·.1)
  let u := blks.eraseDups
  let count : Nat :=
    (body.foldl (fun (acc : FState × Bool × Nat) ws =>
      let (s, live, n) := acc
      if !live then acc else
      match parseBlkOp ws with
      | none => acc
      | some (b, failAt) =>
        if !libDeclB s.db b then (s, false, n) else
        let (s', _, res) := processBlock cfg s b failAt
        (s', res != .errHandler, n + 1)) (init cfg, true, 0)).2.2
  match cfg.root with
  | some (.exclusive r) =>
    let rootOK := u.all (fun b => (!(b.parent == r.id) || decide (r.num < b.num)) && (!(b.id == r.id) || b.num == r.num))
    if handlerSees && r.id != "" && uokB u && rootOK then (count, 0, 0) else (0, 0, 0)
  | none =>
    -- hold-until-LIB discovery (the hub's configuration): `history_discipline_discovery`
    if handlerSees && cfg.hold && uokB u then (0, count, 0) else (0, 0, 0)
  | some (.inclusive r) =>
    -- `history_discipline_inclusive`
    let rootOK := u.all (fun b => (!(b.parent == r.id) || decide (r.num < b.num)) && (!(b.id == r.id) || b.num == r.num))
    if handlerSees && r.id != "" && uokB u && rootOK then (0, 0, count) else (0, 0, 0)

open BstreamVerif.Consumer in
def parseObs (ws : List String) : Option Obs :=
  match ws with
  | ["impl", "ev", st, i, n, h, l, j, idx, cnt] => do
    let (ok, stName) := if st.startsWith "CURSORMISMATCH-" then (false, (st.drop 15).toString) else (true, st)
    let step ← Step.ofName stName
    let n ← n.toNat?
    let h ← parseRefTok h
    let l ← parseRefTok l
    let j ← if j == "-" then some none else (parseRefTok j).map some
    let idx ← idx.toNat?
    let cnt ← cnt.toNat?
    pure ⟨step, ⟨tokId i, n⟩, h, l, j, idx, cnt, ok⟩
  | _ => none

def parseKV (s : String) : Option (String × String) :=
  match s.splitOn "=" with
  | [a, b] => some (a, b)
  | _ => none

def idList (s : String) : List Id := if s == "-" then [] else (s.splitOn ",").map tokId

open BstreamVerif.Consumer in
def setQuery (q : Queries) (ws : List String) : Queries :=
  match ws with
  | ["impl", "q", "head", h, _] =>
    if h == "-" then { q with head := none } else
    match h.splitOn ":" with
    | [i, n, _] => { q with head := some (tokId i, n.toNat?.getD 0) }
    | _ => q
  | ["impl", "q", "lowest", v] => { q with lowest := v.toNat? }
  | ["impl", "q", "ids", v] => { q with ids := idList v }
  | "impl" :: "q" :: "canon" :: rest =>
    { q with canon := rest.filterMap (fun kv => (parseKV kv).bind (fun (k, v) => k.toNat?.map (fun n => (n, tokId v)))) }
  | "impl" :: "q" :: "byhash" :: rest =>
    { q with byhash := rest.filterMap (fun kv => (parseKV kv).map (fun (k, v) => (tokId k, v == "1"))) }
  | "impl" :: "q" :: "at" :: rest =>
    { q with at_ := rest.filterMap (fun kv => (parseKV kv).bind (fun (k, v) => k.toNat?.map (fun n => (n, idList v)))) }
  | _ => q

open BstreamVerif.Consumer in
/-- group the implementation's lines by fed block -/
def parseImpl (body : List (List String)) : List OpObs :=
  let flush (cur : Option OpObs) (acc : List OpObs) : List OpObs :=
    match cur with | some o => o :: acc | none => acc
  let (cur, acc) := body.foldl (fun (st : Option OpObs × List OpObs) ws =>
    let (cur, acc) := st
    match ws with
    | "op" :: "blk" :: _ =>
      (match parseBlkOp ws with
       | some (b, f) => (some { blk := b, failAt := f, evs := [], ret := "?", q := none }, flush cur acc)
       | none => (none, flush cur acc))
    | "impl" :: "ev" :: _ =>
      (match cur, parseObs ws with
       | some o, some e => (some { o with evs := o.evs ++ [e] }, acc)
       | some o, none => (some { o with ret := "unparsable-event" }, acc)
       | none, _ => (cur, acc))
    | ["impl", "ret", r] => (cur.map (fun o => { o with ret := r }), acc)
    | "impl" :: "q" :: name :: rest =>
      (cur.map (fun o =>
        let q0 : Queries := o.q.getD { head := none, lowest := some 0, ids := [], canon := [], byhash := [], at_ := [] }
        let q1 := if rest == ["panic"] && name == "lowest" then { q0 with lowest := none } else setQuery q0 ws
        { o with q := some q1 }), acc)
    | _ => (cur, acc)) (none, [])
  (flush cur acc).reverse

/-- how many burst requests of a hub case lie inside the segment-level hypotheses of the state-level theorems of
    C05 (`resume_new_cursor_on_hub_chain`, `resume_undo_cursor_on_hub_chain`, `resume_fork_cursor_on_hub`) and C07
    (`handoff_by_number_is_seamless`): (served by-number requests, of which at or below the hub LIB; served cursor
    requests, New on chain, Undo on chain, fork — each with the cursor LIB retained with its number and not above the hub LIB) -/
def burstStats (cfg : Config) (body : List (List String)) : List (String × Nat) :=
  let step (acc : FState × List (String × Nat)) (ws : List String) : FState × List (String × Nat) :=
    let (st, cs) := acc
    let bump (k : String) (cs : List (String × Nat)) : List (String × Nat) :=
      if cs.any (·.1 == k) then cs.map (fun p => if p.1 == k then (p.1, p.2 + 1) else p) else cs ++ [(k, 1)]
    match parseBlkOp ws with
    | some (b, f) => ((processBlock cfg st b f).1, cs)
    | none =>
      match ws, headSegment st with
      | ["op", "fromnum", n], some (_, seg) =>
        (match n.toNat? with
         | some n =>
           if (blocksFromNum st n).isSome then
             let cs := bump "thm.c07_by_number_served" cs
             (st, if n ≤ st.db.libRef.num && seg.any (·.blk.num == n) then bump "thm.c07_by_number_inside_handoff_theorem" cs else cs)
           else (st, cs)
         | none => (st, cs))
      | ["op", "fromcursor", _, stp, b, h, l], some (_, seg) =>
        (match parseCur stp b h l with
         | some c =>
           if (blocksFromCursor st 4 c).isSome && (c.step == .new || c.step == .undo) then
             let cs := bump "thm.c05_cursor_served" cs
             let libOK := seg.any (fun e => e.blk.id == c.lib.id && e.blk.num == c.lib.num) && c.lib.num ≤ st.db.libRef.num
             let onChain := blockIn c.block.id seg && blockIn c.lib.id seg
             if onChain && libOK && c.step == .new then (st, bump "thm.c05_inside_new_cursor_theorem" cs)
             else if onChain && libOK && c.step == .undo && c.block.num ≥ 1 then (st, bump "thm.c05_inside_undo_cursor_theorem" cs)
             else if !onChain && libOK then (st, bump "thm.c05_inside_fork_cursor_theorem" cs)
             else (st, cs)
           else (st, cs)
         | none => (st, cs))
      | _, _ => (st, cs)
  (body.foldl step (init cfg, [])).2

def slug (s : String) : String :=
  let ws := (s.splitOn " ").take 3
  "-".intercalate (ws.map (fun w => String.ofList (w.toList.filter Char.isAlpha))) |>.toLower

def handle (hdr : List String) (body : List (List String)) : List String :=
  match parseCfg hdr with
  | none => ["model bad-case"]
  | some cfg =>
    let model0 := runCase cfg (hdr.getLast? != some "noq") body
    -- outside C03's quantifier (malformed LIB declarations) retention independence is not claimed: echo
    let inC03 := (BstreamVerif.Consumer.appliesTo cfg (parseImpl body)).contains "C03"
    let implTwins := (body.filter (fun l => l.take 2 == ["impl", "twin"])).map (fun l => "model " ++ unwords (l.drop 1))
    let model := if inC03 then model0 else
      (model0.foldl (fun (acc : List String × List String) l =>
        if l == "model twin same" then
          (match acc.2 with | t :: ts => (t :: acc.1, ts) | [] => (l :: acc.1, []))
        else (l :: acc.1, acc.2)) ([], implTwins)).1.reverse
    let fails := BstreamVerif.Consumer.monitor cfg (parseImpl body)
    let twinFail := if body.any (· == ["impl", "twin", "DIFF"]) && (BstreamVerif.Consumer.appliesTo cfg (parseImpl body)).contains "C03"
      then ["monitor C03 FAIL c03-output-depends-on-retention-or-refeeds :: the implementation's trace changed under another kept-final-blocks value or with re-fed blocks inserted"] else []
    -- hub monitors apply to histories with well-formed LIB declarations (the quantifier of C02/C03, inherited by C05/C09)
    let hubFails := if hdr.getD 1 "" == "hubburst" && (BstreamVerif.Consumer.appliesTo cfg (parseImpl body)).contains "C02"
      then BstreamVerif.Drv.HubMon.run body else []
    model ++ (fails ++ hubFails).map (fun (p, why) => s!"monitor {p} FAIL {p.toLower}-{slug why} :: {why}") ++ twinFail ++
      ["note applies " ++ ",".intercalate (BstreamVerif.Consumer.appliesTo cfg (parseImpl body))] ++
      (let (n, sc, ok, cov) := thmStats cfg body
       [s!"note stat thm.steps {n}", s!"note stat thm.steps_in_scope {sc}", s!"note stat thm.steps_all_hypotheses_hold {ok}",
        s!"note stat thm.steps_covered_by_history_theorem {cov}",
        s!"note stat thm.steps_covered_by_consistent_history_theorem {(consistentCovered cfg body).1}",
        s!"note stat thm.steps_covered_by_discovery_history_theorem {(consistentCovered cfg body).2.1}",
        s!"note stat thm.steps_covered_by_inclusive_history_theorem {(consistentCovered cfg body).2.2}"]) ++
      (if hdr.getD 1 "" == "hubburst" then (burstStats cfg body).map (fun (k, n) => s!"note stat {k} {n}") else [])

end BstreamVerif.Drv.ForkableDrv
