import BstreamVerif.Model.Forkable
import BstreamVerif.Drv.Util
/- Line protocol for suite `forkable`:
   case n forkable <none|ex:<id>:<num>|in:<id>:<num>> <hold> <kept> <alltrig> <filtermask> <fsb>
   op blk <id> <parent|-> <num> <lib> [fail <k>]
   impl|model ev <step> <id> <num> <headid>:<headnum> <libid>:<libnum> <junction|-> <idx> <count>
   impl|model ret <ok|errinvalid|errhandler>
   impl|model q <name> <value…>          (queries after every block; C18) -/
namespace BstreamVerif.Drv.ForkableDrv
open BstreamVerif BstreamVerif.ForkDB BstreamVerif.Forkable BstreamVerif.Drv

def tokId (s : String) : Id := if s == "-" then "" else s
def idTok (s : Id) : String := if s == "" then "-" else s
def refTok (r : Ref) : String := s!"{idTok r.id}:{r.num}"

def parseRefTok (s : String) : Option Ref :=
  match s.splitOn ":" with
  | [i, n] => n.toNat?.map (fun n => ⟨tokId i, n⟩)
  | _ => none

def parseCfg (hdr : List String) : Option Config :=
  match hdr with
  | _ :: _ :: root :: hold :: kept :: allt :: filt :: fsb :: _ => do
    let root ← match root.splitOn ":" with
      | ["none"] => some none
      | ["ex", i, n] => n.toNat?.map (fun n => some (Root.exclusive ⟨tokId i, n⟩))
      | ["in", i, n] => n.toNat?.map (fun n => some (Root.inclusive ⟨tokId i, n⟩))
      | _ => none
    let hold ← parseBool hold
    let kept ← kept.toNat?
    let allt ← parseBool allt
    let filt ← filt.toNat?
    let fsb ← fsb.toNat?
    pure ⟨root, hold, kept, allt, filt, fsb⟩
  | _ => none

def parseBlkOp (ws : List String) : Option (Blk × Option Nat) :=
  match ws with
  | ["op", "blk", i, p, n, l] => do
    let n ← n.toNat?; let l ← l.toNat?
    pure (⟨tokId i, tokId p, n, l⟩, none)
  | ["op", "blk", i, p, n, l, "fail", k] => do
    let n ← n.toNat?; let l ← l.toNat?; let k ← k.toNat?
    pure (⟨tokId i, tokId p, n, l⟩, some k)
  | _ => none

def evLine (e : Event) : String :=
  s!"ev {e.step.name} {idTok e.blk.id} {e.blk.num} {refTok e.head} {refTok e.lib} {match e.junction with | some j => refTok j | none => "-"} {e.idx} {e.count}"

def resLine : Result → String
  | .ok => "ret ok" | .errInvalid => "ret errinvalid" | .errHandler => "ret errhandler"

/-- the C18 queries, printed after every block. `nums` = all heights fed so far, `ids` = all ids fed so far -/
def queryLines (s : FState) (nums : List Nat) (ids : List Id) : List String :=
  let head := match headInfo s with | some b => s!"{idTok b.id}:{b.num}:{b.lib}" | none => "-"
  [ s!"q head {head} {headNum s}",
    s!"q lowest {match lowestBlockNum s with | some n => toString n | none => "panic"}",
    "q ids " ++ (if (allIDs s).isEmpty then "-" else ",".intercalate ((allIDs s).map idTok)),
    "q canon " ++ " ".intercalate (nums.map fun n => s!"{n}={match canonicalBlockAt s n with | some b => idTok b.id | none => "-"}"),
    "q byhash " ++ " ".intercalate (ids.map fun i => s!"{idTok i}={if (getBlockByHash s i).isSome then 1 else 0}"),
    "q at " ++ " ".intercalate (nums.map fun n => s!"{n}={let l := allBlocksAt s n; if l.isEmpty then "-" else ",".intercalate (l.map (idTok ·.id))}") ]

def insertNat (n : Nat) : List Nat → List Nat
  | [] => [n]
  | x :: xs => if n < x then n :: x :: xs else if n == x then x :: xs else x :: insertNat n xs

structure RunSt where
  st   : FState
  nums : List Nat
  ids  : List Id
  out  : List String    -- reversed

def runCase (cfg : Config) (withQueries : Bool) (body : List (List String)) : List String :=
  let final := body.foldl (fun (r : RunSt) ws =>
    match parseBlkOp ws with
    | none => r
    | some (b, failAt) =>
      let (s', evs, res) := processBlock cfg r.st b failAt
      let nums := insertNat b.num r.nums
      let ids := if r.ids.contains b.id then r.ids else r.ids ++ [b.id]
      let lines := evs.map evLine ++ [resLine res] ++ (if withQueries then queryLines s' nums ids else [])
      { st := s', nums := nums, ids := ids, out := (lines.map ("model " ++ ·)).reverse ++ r.out })
    ⟨init cfg, [], [], []⟩
  final.out.reverse

def handle (hdr : List String) (body : List (List String)) : List String :=
  match parseCfg hdr with
  | none => ["model bad-case"]
  | some cfg => runCase cfg (hdr.getLast? != some "noq") body

end BstreamVerif.Drv.ForkableDrv
