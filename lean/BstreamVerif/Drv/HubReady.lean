import BstreamVerif.Model.HubBurst
import BstreamVerif.Drv.FileDrv
/- suite `hubready` (C09, readiness): ForkableHub.bootstrap block by block.
   case n hubready <kept> <fsb> <nofiles>   file <blk4> …   op live <blk4>   impl ready <0|1> head <num> -/
namespace BstreamVerif.Drv.HubReady
open BstreamVerif BstreamVerif.Forkable BstreamVerif.HubBurst BstreamVerif.Drv BstreamVerif.Drv.FileDrv

structure HSt where
  s : FState
  ready : Bool := false
  starts : List Nat := []          -- start blocks of the one-block replays so far
  seen : List Blk := []            -- live blocks so far

/-- ForkableHub.bootstrapperHandler / bootstrap for one live block -/
def liveStep (cfg : Forkable.Config) (kept fsb : Nat) (nofiles : Bool) (files : List Blk) (h : HSt) (b : Blk) : HSt :=
  let feed (s : FState) (x : Blk) : FState := (processBlock cfg s x none).1
  let h := { h with seen := h.seen ++ [b] }
  if h.ready then { h with s := feed h.s b }
  else if b.num < headNum h.s then { h with s := feed h.s b }
  else
    let pre : Option (FState × List Nat) :=
      if !linkable h.s b then
        (if nofiles then none
         else
           let start := substractAndRoundDown fsb b.lib kept
           some ((files.filter (fun f => f.num ≥ start)).foldl feed h.s, h.starts ++ [start]))
      else some (h.s, h.starts)
    match pre with
    | none => h                                   -- "no oneBlocksSource from factory, not bootstrapping hub yet"
    | some (s1, starts) =>
      let s2 := feed s1 b
      { h with s := s2, starts := starts, ready := linkable s2 b }

def handle (hdr : List String) (body : List (List String)) : List String :=
  match hdr with
  | [_, "hubready", kept, fsb, nof] =>
    match kept.toNat?, fsb.toNat? with
    | some kept, some fsb =>
      let cfg : Forkable.Config := ⟨none, true, kept, false, 51, fsb⟩
      let files : List Blk := body.filterMap (fun ws => match ws with | ["file", b] => parseBlk4 b | _ => none)
      let lives : List Blk := body.filterMap (fun ws => match ws with | ["op", "live", b] => parseBlk4 b | _ => none)
      let impls : List (Bool × Nat) := body.filterMap (fun ws => match ws with
        | ["impl", "ready", r, "head", n, "lowest", _] => n.toNat?.map (fun n => (r == "1", n)) | _ => none)
      let nofiles := nof == "1"
      -- ops in order: live blocks and block stream requests
      let ops : List (Option Blk × Option Int) := body.filterMap (fun ws => match ws with
        | ["op", "live", b] => (parseBlk4 b).map (fun b => (some b, none))
        | ["op", "bsblocks", n] => n.toInt?.map (fun n => (none, some n))
        | _ => none)
      let (_, outs, states) := ops.foldl (fun (acc : HSt × List String × List HSt) op =>
        match op with
        | (some b, _) =>
          let h' := liveStep cfg kept fsb nofiles files acc.1 b
          (h', acc.2.1 ++ [s!"model ready {if h'.ready then 1 else 0} head {if h'.ready then headNum h'.s else 0} lowest {if h'.ready then (lowestBlockNum h'.s).getD 0 else 0}"], acc.2.2 ++ [h'])
        | (none, some burst) =>
          let out := match blockstreamBurst acc.1.s burst fsb with
            | none => ["model bs -", "model bsret nosrc"]
            | some l => [s!"model bs {if l.isEmpty then "-" else ",".intercalate (l.map (fun b => s!"{idTok b.id}:{b.num}"))}", "model bsret ok"]
          (acc.1, acc.2.1 ++ out, acc.2.2)
        | _ => acc)
        (({ s := Forkable.init cfg } : HSt), [], [])
      -- C09: the hub reports ready only after a live block links, through blocks it has been given, down to the LIB
      -- height that block declares
      let firstReady := (impls.zip (lives.zip states)).find? (fun x => x.1.1)
      let mon : List String := match firstReady with
        | none => []
        | some (_, b, st) =>
          let minStart := st.starts.foldl min (if st.starts.isEmpty then 0 else st.starts.head!)
          let given : List Blk := (if nofiles || st.starts.isEmpty then [] else files.filter (fun f => f.num ≥ minStart)) ++ st.seen
          let rec walk (fuel : Nat) (x : Blk) : Bool :=
            match fuel with
            | 0 => false
            | fuel + 1 =>
              if x.num == b.lib then true
              else if x.num < b.lib then false
              else match given.find? (·.id == x.parent) with
                | some p => walk fuel p
                | none => false
          if walk (given.length + 1) b then []
          else [s!"monitor C09 FAIL hub-reports-ready-although-the-live-block-{idTok b.id}-does-not-link-to-its-declared-lib-height-{b.lib}"]
      -- C09: a block stream request is answered with every retained block at or above the number the request stands
      -- for (never below the first streamable block nor the lowest servable one), each once, in non-decreasing height
      let implBs : List String := body.filterMap (fun ws => match ws with | ["impl", "bs", l] => some l | _ => none)
      let modelBs : List String := outs.filterMap (fun l => match l.splitOn " " with | ["model", "bs", x] => some x | _ => none)
      let bursts : List Int := ops.filterMap (·.2)
      let mon2 : List String := match ((implBs.zip modelBs).zip bursts).find? (fun x => x.1.1 != x.1.2) with
        | none => []
        | some ((i, m), burst) =>
          [s!"monitor C09 FAIL block-stream-request-burst-{burst}-is-not-answered-with-the-retained-blocks-from-the-number-it-stands-for :: got {i} expected {m}"]
      outs ++ mon ++ mon2
    | _, _ => ["model bad-case"]
  | _ => ["model bad-case"]

end BstreamVerif.Drv.HubReady
