import BstreamVerif.Model.Forkable
/-
The consumer specification (DESIGN §4.2) and the decidable trace monitors for C01–C04 and C18.
Input: the configuration, the history (blocks fed, in order) and for every fed block the events the
handler saw plus the answers to the read-only queries. The same functions are evaluated on the model's
trace in the theorems and on the implementation's trace by the driver.
-/
namespace BstreamVerif.Consumer
open BstreamVerif BstreamVerif.Forkable

/-- one observed handler call -/
structure Obs where
  step : Step
  ref  : Ref                 -- block id / number as delivered
  head : Ref
  lib  : Ref
  junction : Option Ref
  idx : Nat
  count : Nat
  cursorOK : Bool := true    -- cursor.step/block equal the event's
deriving Repr, Inhabited

def Obs.ofEvent (e : Event) : Obs := ⟨e.step, e.blk.ref, e.head, e.lib, e.junction, e.idx, e.count, true⟩

/-- answers to the C18 queries after one fed block -/
structure Queries where
  head    : Option (Id × Nat)          -- HeadInfo
  lowest  : Option Nat                 -- none = crashed
  ids     : List Id
  canon   : List (Nat × Id)            -- "" = nil
  byhash  : List (Id × Bool)
  at_     : List (Nat × List Id)
deriving Repr, Inhabited

structure OpObs where
  blk    : Blk
  failAt : Option Nat
  evs    : List Obs
  ret    : String                      -- ok | errhandler | errinvalid | panic | …
  q      : Option Queries
deriving Repr, Inhabited

/-- monitor state -/
structure MState where
  fed      : List Blk := []            -- history so far (first occurrence of each id)
  stack    : List Ref := []            -- New'd, not undone (final blocks stay on it): what a push/pop consumer holds
  pending  : List Ref := []            -- New'd, not undone, not yet announced final
  finals   : List Ref := []            -- blocks announced Irreversible, in order
  stalled  : List Id := []
  everNew  : List Id := []
  lastNew  : Option Ref := none
  lastLib  : Ref := Ref.empty          -- cursor LIB of the previous event
  haveLib  : Bool := false
  dead     : Bool := false             -- a handler error ended the stream
  fails    : List (String × String) := []     -- (property, reason), first failure per property kept
deriving Repr, Inhabited

def MState.fail (m : MState) (p : String) (why : String) : MState :=
  if m.fails.any (·.1 == p) then m else { m with fails := m.fails ++ [(p, why)] }

def blkOf (fed : List Blk) (id : Id) : Option Blk := fed.find? (·.id == id)
def parentOf (fed : List Blk) (id : Id) : Id := ((blkOf fed id).map (·.parent)).getD "?"

def rootRef (cfg : Config) : Option Ref :=
  match cfg.root with
  | some (.exclusive r) | some (.inclusive r) => some r
  | none => none

/-- configurations C01/C02 quantify over -/
def establishesLIB (cfg : Config) : Bool := cfg.root.isSome || cfg.hold

def hasMask (cfg : Config) (s : Step) : Bool := s.matchesMask cfg.filter

/-- LibWF of one block w.r.t. the blocks fed so far: declared LIB = height of an ancestor (or own height),
    when the ancestors are known; unknown ancestry is accepted. Used to skip C02/C03 checks on malformed input. -/
def ancestorHeights (fed : List Blk) : Nat → Id → List Nat
  | 0, _ => []
  | fuel + 1, id => match blkOf fed id with
    | some b => b.num :: ancestorHeights fed fuel b.parent
    | none => []

/-- apply one event to the monitor (consumer discipline, finality, cursor rules) -/
def applyEv (cfg : Config) (tree : List Blk) (incoming : Blk) (m : MState) (e : Obs) : MState :=
  let parent := parentOf tree e.ref.id
  let m := if e.cursorOK then m else m.fail "C04" s!"cursor step/block differ from the event's at {e.ref.id}"
  -- C04 generic cursor rules
  let m := if e.head.id == incoming.id && e.head.num == incoming.num then m
           else m.fail "C04" s!"cursor head {e.head.id} is not the incoming block {incoming.id}"
  let m := if m.haveLib && e.lib.num < m.lastLib.num then m.fail "C04" s!"cursor LIB height decreased at {e.ref.id}" else m
  let m := if (e.step == .new || e.step == .irreversible || e.step == .newIrreversible) && e.lib.num > e.ref.num
           then m.fail "C04" s!"cursor LIB {e.lib.num} above block {e.ref.id}#{e.ref.num}" else m
  let expectedLib : Option Ref :=
    if hasMask cfg .irreversible then
      (match e.step with
       | .irreversible => some e.ref
       | _ => match m.finals.getLast? with
         | some f => some f
         | none => rootRef cfg)
    else none
  let m := match expectedLib with
    | some l => if l.id == e.lib.id then m else m.fail "C04" s!"cursor LIB {e.lib.id} is not the last irreversible/starting LIB {l.id} at {e.step.name} {e.ref.id}"
    | none => m
  let m := { m with lastLib := e.lib, haveLib := true }
  match e.step with
  | .new =>
    let tipOK := match m.stack.getLast? with
      | some t => parent == t.id
      | none => parent == e.lib.id || e.ref.id == e.lib.id
    let m := if tipOK then m else m.fail "C01" s!"New {e.ref.id} (parent {parent}) does not extend the consumer's tip {(m.stack.getLast?.map (·.id)).getD ("LIB " ++ e.lib.id)}"
    let m := if m.finals.any (·.id == e.ref.id) && m.stack.any (·.id == e.ref.id) then m.fail "C01" s!"New {e.ref.id} delivered twice" else m
    { m with stack := m.stack ++ [e.ref], pending := if e.ref.id == e.lib.id && m.finals.any (·.id == e.ref.id) then m.pending else m.pending ++ [e.ref],
             everNew := e.ref.id :: m.everNew, lastNew := some e.ref }
  | .undo =>
    let ok := match m.stack.getLast? with | some t => t.id == e.ref.id | none => false
    let m := if ok then m else m.fail "C01" s!"Undo {e.ref.id} is not the most recent not-undone New {(m.stack.getLast?.map (·.id)).getD "-"}"
    let m := if m.finals.any (·.id == e.ref.id) then m.fail "C02" s!"final block {e.ref.id} undone" else m
    -- the junction named by an Undo is a block the consumer's chain keeps (below the undone block, or the LIB it rests
    -- on), with that block's own height
    let m := match e.junction with
      | some j =>
        let below := m.stack.dropLast
        let libKnown := hasMask cfg .irreversible
        let libRef : Option Ref := match m.finals.getLast? with | some f => some f | none => rootRef cfg
        let onLib := match libRef with | some l => l.id == j.id && l.num == j.num | none => false
        if below.any (fun r => r.id == j.id && r.num == j.num) || onLib then m
        else if !libKnown && !(below.any (fun r => r.id == j.id)) then m      -- the handler does not see finality: cannot tell
        else m.fail "C04" s!"Undo {e.ref.id} names the junction {j.id}#{j.num}, which is not a block of the consumer's remaining chain with that height"
      | none => m
    { m with stack := m.stack.dropLast, pending := m.pending.filter (·.id != e.ref.id) }
  | .irreversible =>
    -- chain of finals
    let chainOK := match m.finals.getLast? with
      | some f => parent == f.id
      | none => match rootRef cfg with
        | some r => e.ref.id == r.id || parent == r.id
        | none => true
    let m := if chainOK then m else m.fail "C02" s!"Irreversible {e.ref.id} (parent {parent}) does not extend the final chain {(m.finals.getLast?.map (·.id)).getD "root"}"
    -- oldest pending block of the consumer's chain (when the consumer sees New events)
    let m := if hasMask cfg .new then
        (match m.pending.head? with
         | some p =>
           if p.id == e.ref.id then m
           -- the first announcement may be the starting LIB itself (never delivered as New): the chain rests on it
           else if m.finals.isEmpty && !m.everNew.contains e.ref.id && parentOf tree p.id == e.ref.id then m
           else m.fail "C02" s!"Irreversible {e.ref.id} is not the oldest pending block {p.id}"
         | none => if m.finals.isEmpty && m.everNew.isEmpty then m   -- the starting LIB itself, never delivered as New (exclusive root)
                   else m.fail "C02" s!"Irreversible {e.ref.id} but nothing is pending")
      else m
    -- bound by the head's declared LIB
    let m := match blkOf tree e.head.id with
      | some h => if e.ref.num ≤ h.lib || e.ref.id == h.id then m else m.fail "C02" s!"Irreversible {e.ref.id}#{e.ref.num} above LIB {h.lib} declared by head {h.id}"
      | none => m
    let m := if m.stalled.contains e.ref.id then m.fail "C02" s!"stalled block {e.ref.id} became final" else m
    { m with finals := m.finals ++ [e.ref], pending := m.pending.filter (·.id != e.ref.id) }
  | .stalled =>
    let m := if m.stack.any (·.id == e.ref.id) then m.fail "C02" s!"Stalled {e.ref.id} is on the consumer's chain" else m
    let m := if m.finals.any (·.id == e.ref.id) then m.fail "C02" s!"Stalled {e.ref.id} is final" else m
    let m := if m.stalled.contains e.ref.id then m.fail "C02" s!"Stalled {e.ref.id} reported twice" else m
    let m := match m.finals.getLast? with
      | some f => if e.ref.num ≤ f.num then m else m.fail "C02" s!"Stalled {e.ref.id}#{e.ref.num} above final height {f.num}"
      | none => m
    { m with stalled := e.ref.id :: m.stalled }
  | .newIrreversible => m

/-! ### C03 reference fork-choice specification -/

structure FC where
  received : List Blk := []
  tip : Option Blk := none
  lib : Ref
  inclusive : Bool := false      -- the starting LIB block itself is delivered (as first block) when it arrives
deriving Repr

def linksTo (recv : List Blk) (libId : Id) : Nat → Blk → Bool
  | 0, _ => false
  | fuel + 1, b =>
    if b.id == libId then true
    else if b.parent == libId then true
    else match recv.find? (·.id == b.parent) with
      | some p => linksTo recv libId fuel p
      | none => false

def ancestorAt (recv : List Blk) (n : Nat) : Nat → Blk → Option Blk
  | 0, _ => none
  | fuel + 1, b =>
    if b.num == n then some b
    else match recv.find? (·.id == b.parent) with
      | some p => if p.num < n then none else ancestorAt recv n fuel p
      | none => none

def FC.step (allTrigger : Bool) (s : FC) (b : Blk) : FC :=
  if b.id == b.parent || b.id == "" then s else
  let isNew := !(s.received.any (·.id == b.id))
  let recv := if isNew then s.received ++ [b] else s.received
  let s' := { s with received := recv }
  let notBelow := b.num ≥ s.lib.num || s.tip.isNone
  let higher := match s.tip with | none => true | some t => allTrigger || b.num > t.num
  -- the LIB block itself is the consumer's starting point: it is (re)delivered only as the very first block of an inclusive stream
  let notLibItself := b.id != s.lib.id || (s.inclusive && s.tip.isNone)
  if isNew && notBelow && higher && notLibItself && linksTo recv s.lib.id (recv.length + 1) b then
    let lib' := match ancestorAt recv b.lib (recv.length + 1) b with
      | some a => if a.num > s.lib.num && linksTo recv s.lib.id (recv.length + 1) a then a.ref else s.lib
      | none => s.lib
    { s' with tip := some b, lib := lib' }
  else s'

/-! ### the per-block step of the monitor -/

def Queries.hashHit (q : Queries) (id : Id) : Bool :=
  match q.byhash.find? (fun (x : Id × Bool) => x.1 == id) with | some x => x.2 | none => false
def Queries.atHit (q : Queries) (n : Nat) (id : Id) : Bool :=
  match q.at_.find? (fun (x : Nat × List Id) => x.1 == n) with | some x => x.2.contains id | none => false
def Queries.canonAt (q : Queries) (n : Nat) : Option Id :=
  match q.canon.find? (fun (x : Nat × Id) => x.1 == n) with | some x => some x.2 | none => none

def checkQueries (cfg : Config) (m : MState) (q : Queries) : MState :=
  -- head information = the last block delivered as New
  let m := if hasMask cfg .new then
      (match q.head, m.lastNew with
       | some (i, _), some l => if i == l.id then m else m.fail "C18" s!"HeadInfo {i} is not the last block delivered as New {l.id}"
       | none, some l => m.fail "C18" s!"no HeadInfo although {l.id} was delivered as New"
       | _, none => m)
    else m
  let lib : Option Ref := if hasMask cfg .irreversible then (match m.finals.getLast? with | some f => some f | none => rootRef cfg) else none
  -- window: nothing below LIB − kept after a LIB move
  let m := match m.finals.getLast?, hasMask cfg .irreversible with
    | some f, true =>
      (match q.ids.find? (fun i => match blkOf m.fed i with | some b => b.num + cfg.kept < f.num | none => false) with
       | some i => m.fail "C18" s!"block {i} retained below LIB {f.num} − kept {cfg.kept}"
       | none => m)
    | _, _ => m
  -- every block received at or above the LIB is returned by hash and by number
  let m := match lib with
    | some l =>
      (match m.fed.find? (fun (b : Blk) => b.num ≥ l.num && b.id != "" && b.id != b.parent &&
          !(q.hashHit b.id && q.atHit b.num b.id)) with
       | some b => m.fail "C18" s!"received block {b.id}#{b.num} at/above LIB {l.num} not returned by hash or by number"
       | none => m)
    | none => m
  -- canonical lookup on the consumer's pending chain
  let m := match m.pending.find? (fun (r : Ref) => (q.canonAt r.num).getD r.id != r.id) with
    | some r => if hasMask cfg .new && hasMask cfg .irreversible then m.fail "C18" s!"CanonicalBlockAt({r.num}) is not the consumer's block {r.id}" else m
    | none => m
  -- … and on the final blocks of the consumer's chain that are still retained (kept final blocks)
  let m := match m.stack.find? (fun (r : Ref) => q.ids.contains r.id && !(m.pending.any (·.id == r.id)) &&
      (q.canonAt r.num).getD r.id != r.id) with
    | some r => if hasMask cfg .new && hasMask cfg .irreversible then m.fail "C18" s!"CanonicalBlockAt({r.num}) is not the retained final block {r.id} of the consumer's chain" else m
    | none => m
  -- lowest servable number = bottom of the contiguous retained chain ending at the head
  let m := match q.lowest with
    | none => m.fail "C18" "LowestBlockNum crashed"
    | some 0 => m
    | some low =>
      match q.head with
      | none => m.fail "C18" s!"LowestBlockNum {low} without head"
      | some (hid, _) =>
        let rec walk : Nat → Id → Nat → Nat
          | 0, _, n => n
          | fuel + 1, id, n =>
            if q.ids.contains id then
              match blkOf m.fed id with
              | some b => walk fuel b.parent b.num
              | none => n
            else n
        let bottom := walk (m.fed.length + 1) hid 0
        if bottom == low then m else m.fail "C18" s!"LowestBlockNum {low} but the contiguous retained chain from the head bottoms at {bottom}"
  m

/-- id of the first ancestor that is not in `tree` -/
def bottomParent (tree : List Blk) : Nat → Id → Id
  | 0, id => id
  | fuel + 1, id => match blkOf tree id with
    | some b => bottomParent tree fuel b.parent
    | none => id

def wellFormedLib (fsb : Nat) (root : Option Ref) (tree : List Blk) (b : Blk) : Bool :=
  -- heights of proper ancestors; the block's own height only at the first streamable block
  let hs := (ancestorHeights tree (tree.length + 1) b.id).drop (if b.num == fsb then 0 else 1)
  let bottom := bottomParent tree (tree.length + 1) b.id
  -- when the known ancestry ends at the configured root, the root's height is an ancestor height too
  let hs := match root with | some r => if bottom == r.id then hs ++ [r.num] else hs | none => hs
  b.lib ≤ b.num && (hs.contains b.lib || (match hs.getLast? with | some lowest => b.lib ≤ lowest | none => b.lib < b.num || b.num == fsb))

def treeOf (ops : List OpObs) : List Blk :=
  ops.foldl (fun (t : List Blk) o => if t.any (·.id == o.blk.id) then t else t ++ [o.blk]) []

/-- C02's hypothesis on the block tree of a history -/
def libWFTree (cfg : Config) (tree : List Blk) : Bool :=
  tree.all (wellFormedLib cfg.fsb (rootRef cfg) tree) && tree.all (fun b => b.id != "" && b.id != b.parent) &&
    tree.all (fun b => match blkOf tree b.parent with | some p => p.num < b.num && p.lib ≤ b.lib | none => true)

/-- which properties' quantifiers contain this case (reported in the evidence) -/
def appliesTo (cfg : Config) (ops : List OpObs) : List String :=
  let libWF := libWFTree cfg (treeOf ops)
  (if establishesLIB cfg && hasMask cfg .new && hasMask cfg .undo then ["C01"] else []) ++
  (if establishesLIB cfg && libWF then ["C02", "C04", "C18"] else []) ++
  (if cfg.root.isSome && libWF then ["C03"] else [])

/-- the whole case -/
def monitor (cfg : Config) (ops : List OpObs) : List (String × String) :=
  let tree := treeOf ops
  let libWF := libWFTree cfg tree
  let discipline := establishesLIB cfg && hasMask cfg .new && hasMask cfg .undo
  let fc0 : Option FC := match cfg.root with
    | some (.exclusive r) => some { lib := r }
    | some (.inclusive r) => some { lib := r, inclusive := true }
    | none => none
  let (m, _) := ops.foldl (fun (acc : MState × Option FC) o =>
    let (m, fc) := acc
    if m.dead then acc else
    let refeed := m.fed.any (·.id == o.blk.id)
    -- C01: feeding a block a second time delivers nothing
    let m := if refeed && !o.evs.isEmpty && discipline then m.fail "C01" s!"re-fed block {o.blk.id} delivered {o.evs.length} event(s)" else m
    let m := if o.ret == "panic" then m.fail "C01" s!"ProcessBlock crashed on {o.blk.id}" else m
    -- C01: handler error returned at once, nothing further delivered for this incoming block
    let m := match o.failAt with
      | some k =>
        if o.evs.length > k + 1 then m.fail "C01" s!"events delivered after the handler failed on call {k} of {o.blk.id}"
        else if o.evs.length == k + 1 && o.ret != "errhandler" then m.fail "C01" s!"handler error on {o.blk.id} not returned"
        else if o.evs.length ≤ k && o.ret == "errhandler" then m.fail "C01" s!"error returned on {o.blk.id} without a failing handler call"
        else m
      | none => if o.ret == "errhandler" then m.fail "C01" s!"spurious handler error on {o.blk.id}" else m
    let m := { m with fed := if refeed then m.fed else m.fed ++ [o.blk] }
    let m := o.evs.foldl (applyEv cfg tree o.blk) m
    if o.ret == "errhandler" then ({ m with dead := true }, fc) else
    -- C03: tip and LIB follow the reference fork choice
    let fc' := fc.map (fun f => FC.step cfg.allTrigger f o.blk)
    let m := match fc', o.q with
      | some f, some q =>
        if libWF && hasMask cfg .new then
          let implTip := q.head.map (·.1)
          let m := if implTip == f.tip.map (·.id) then m
            else m.fail "C03" s!"after {o.blk.id}: tip is {implTip.getD "-"}, fork choice says {(f.tip.map (·.id)).getD "-"}"
          if hasMask cfg .irreversible then
            let implLib := (m.finals.getLast?.map (·.id)).getD (((rootRef cfg).map (·.id)).getD "")
            if implLib == f.lib.id then m else m.fail "C03" s!"after {o.blk.id}: last final block is {implLib}, fork choice says {f.lib.id}"
          else m
        else m
      | _, _ => m
    let m := match o.q with | some q => checkQueries cfg m q | none => m
    (m, fc')) (({} : MState), fc0)
  -- properties whose quantifier excludes this case are dropped
  m.fails.filter (fun (p, _) =>
    match p with
    | "C01" => discipline
    | "C02" => establishesLIB cfg && libWF
    | "C03" => cfg.root.isSome && libWF
    | "C04" => establishesLIB cfg && libWF
    | "C18" => establishesLIB cfg && libWF
    | _ => true)

end BstreamVerif.Consumer

namespace BstreamVerif.Consumer
open BstreamVerif

/-! ### the pure consumer of DESIGN §4.2, used for bursts (C05, C06, C07, C09) -/

structure CState where
  stack : List Ref := []            -- pending blocks, oldest first
  final : Option Ref := none        -- last block known final to the consumer
deriving Repr, DecidableEq, Inhabited

def CState.tipId (c : CState) (fallback : Id) : Id :=
  match c.stack.getLast? with
  | some t => t.id
  | none => match c.final with | some f => f.id | none => fallback

/-- apply one event; `none` = the discipline is violated. `parent` maps a block id to its parent id. -/
def CState.apply (parent : Id → Id) (c : CState) (e : Obs) : Option CState :=
  match e.step with
  | .new =>
    let ok := match c.stack.getLast?, c.final with
      | some t, _ => parent e.ref.id == t.id
      | none, some f => parent e.ref.id == f.id || (e.ref.id == f.id)        -- the (inclusive) starting LIB itself
      | none, none => parent e.ref.id == e.lib.id || e.ref.id == e.lib.id
    if ok then some { c with stack := c.stack ++ [e.ref] } else none
  | .undo =>
    match c.stack.getLast? with
    | some t => if t.id == e.ref.id then some { c with stack := c.stack.dropLast } else none
    | none => none
  | .irreversible =>
    match c.stack with
    | h :: rest =>
      if h.id == e.ref.id then some { stack := rest, final := some e.ref }
      else if (c.final.map (·.id)) == some e.ref.id then some c        -- the block the chain rests on, announced (again) as final
      else none
    | [] => match c.final with
      | none => some { c with final := some e.ref }                          -- the starting LIB announced first
      | some f => if f.id == e.ref.id then some c else none
  | .newIrreversible =>
    if c.stack.isEmpty then
      (match c.final with
       | some f => if parent e.ref.id == f.id then some { c with final := some e.ref } else none
       | none => some { c with final := some e.ref })
    else none
  | .stalled => some c

def CState.run (parent : Id → Id) (c : CState) (evs : List Obs) : Option CState :=
  evs.foldlM (CState.apply parent) c

/-- final-blocks-only consumer: keeps the last final block; looks at irreversible-matching events only -/
def finalOnlyRun (parent : Id → Id) (start : Ref) (evs : List Obs) : Option Ref :=
  (evs.filter (fun e => e.step == .irreversible || e.step == .newIrreversible)).foldlM
    (fun (f : Ref) e => if parent e.ref.id == f.id then some e.ref else none) start

end BstreamVerif.Consumer
