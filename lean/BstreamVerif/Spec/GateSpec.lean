import BstreamVerif.Model.Gates
/- C17's specification: a gate forwards the suffix of its input that begins at (inclusive) or just after
   (exclusive) the first triggering event. -/
namespace BstreamVerif.GateSpec
open BstreamVerif.Gates

/-- the event opens the gate -/
def fires (cfg : Cfg) (e : Ev) : Bool := considered cfg e && (trigger cfg e || special cfg e)

/-- is the opening event itself forwarded? -/
def inclAt (cfg : Cfg) (e : Ev) : Bool :=
  baseIncl cfg || special cfg e

def suffixSpec (cfg : Cfg) : List Ev → List Ev
  | [] => []
  | e :: es => if fires cfg e then (if inclAt cfg e then e :: es else es) else suffixSpec cfg es

/-- hold-off: positions (0-based) of the events answered with the hold-off error -/
def holdErrs (cfg : Cfg) : Nat → List Ev → List Bool
  | _, [] => []
  | held, e :: es =>
    if fires cfg e then (e :: es).map (fun _ => false)
    else if !considered cfg e then false :: holdErrs cfg held es
    else match cfg.kind with
      | .realtime _ => false :: holdErrs cfg held es
      | _ => if cfg.maxHold != 0 then decide (held + 1 > cfg.maxHold) :: holdErrs cfg (held + 1) es
             else false :: holdErrs cfg held es

def gatorSpec (k : GatorKind) : List Ev → List Bool
  | [] => []
  | e :: es =>
    match k with
    | .num t ex => if e.num ≥ t then (!ex) :: es.map (fun _ => true) else false :: gatorSpec k es
    | .time tol => if e.age < tol then true :: es.map (fun _ => true) else false :: gatorSpec k es

end BstreamVerif.GateSpec
