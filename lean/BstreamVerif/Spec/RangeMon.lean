import BstreamVerif.Model.Range
/- Decidable specification predicates for C19 ("interval arithmetic implied by the bounds and their
   inclusivity flags"), written over Nat so that they are independent of the UInt64 model.
   The same functions are (a) what the theorems in Props/C19 relate the model to and (b) what the
   driver evaluates on the implementation's answers. -/
namespace BstreamVerif.RangeMon
open BstreamVerif.Range

/-- membership by interval arithmetic over Nat -/
def containsSpec (r : Range) (n : UInt64) : Bool :=
  let lo := if r.exS then r.start.toNat + 1 else r.start.toNat
  decide (lo ≤ n.toNat) &&
  match r.stop with
  | none => true
  | some e => if r.exE then decide (n.toNat < e.toNat) else decide (n.toNat ≤ e.toNat)

/-- "reached the end": n is the last contained number or beyond, i.e. no number above n is contained -/
def reachedSpec (r : Range) (n : UInt64) : Bool :=
  match r.stop with
  | none => false
  | some e => if r.exE then decide (e.toNat ≤ n.toNat + 1) else decide (e.toNat ≤ n.toNat)

def isNextSpec (r nx : Range) (sz : UInt64) : Bool :=
  match r.stop with
  | none => decide (nx = ⟨r.start + sz, none, r.exS, r.exE⟩)
  | some e => decide (nx = ⟨e, some (e + sz), r.exS, r.exE⟩)

/-- Next(size): the range of that length right after the receiver (an open-ended range is shifted by size); arithmetic
    modulo 2^64, as for every uint64 computation of the code -/
def nextSpec (r res : Range) (sz : UInt64) : Bool :=
  res.exS == r.exS && res.exE == r.exE &&
  match r.stop with
  | none => res.stop == none && decide (res.start.toNat = (r.start.toNat + sz.toNat) % 2 ^ 64)
  | some e => decide (res.start = e) &&
      (match res.stop with | some e' => decide (e'.toNat = (e.toNat + sz.toNat) % 2 ^ 64) | none => false)

/-- Previous(size): the range of that length right before the receiver — it ends where the receiver starts -/
def prevSpec (r res : Range) (sz : UInt64) : Bool :=
  res.exS == r.exS && res.exE == r.exE &&
  decide (res.start.toNat = (r.start.toNat + 2 ^ 64 - sz.toNat) % 2 ^ 64) &&
  match r.stop with
  | none => res.stop == none
  | some _ => res.stop == some r.start

/-- Size: end minus start, an error for an open-ended range -/
def sizeSpec (r : Range) (res : Option Nat) : Bool :=
  match r.stop with
  | none => res == none
  | some e => res == some ((e.toNat + 2 ^ 64 - r.start.toNat) % 2 ^ 64)

def contiguous : List Range → Bool
  | a :: b :: rest => (a.stop == some b.start) && contiguous (b :: rest)
  | _ => true

def innerStarts : List Range → List UInt64
  | _ :: rest => rest.map (·.start)
  | [] => []

/-- a chunk is a closed, non-degenerate interval -/
def properChunk (ch : Range) : Bool :=
  match ch.stop with | some ce => decide (ch.start < ce) | none => false

/-- structural clauses of C19's Split statement -/
def splitShape (r : Range) (c : UInt64) (cs : List Range) : Bool :=
  match r.stop with
  | none => false
  | some e =>
    (cs.head?.map (·.start) == some r.start) &&
    (cs.getLast?.map (·.stop) == some (some e)) &&
    contiguous cs &&
    (innerStarts cs).all (fun b => b % c == 0) &&
    cs.all (fun ch => ch.exS == r.exS && ch.exE == r.exE) &&
    cs.all properChunk

/-- points at which union-of-chunks = range is sampled by the *monitor* (the theorem is for all n) -/
def probePoints (r : Range) (cs : List Range) : List UInt64 :=
  let bs := r.start :: (cs.filterMap (·.stop))
  bs.flatMap (fun b => [b - 1, b, b + 1])

def unionAgrees (r : Range) (cs : List Range) (n : UInt64) : Bool :=
  cs.any (fun ch => containsSpec ch n) == containsSpec r n

/-- "" = fine; otherwise a reason whose first word is the finding key -/
def splitVerdict (r : Range) (c : UInt64) (cs : List Range) : String :=
  if c == 0 then "" else
  if !splitShape r c cs then "split-shape" else
  match (probePoints r cs).find? (fun n => !unionAgrees r cs n) with
  | none => ""
  | some n =>
    if r.exS && r.exE && cs.length ≥ 2 && (innerStarts cs).contains n
        && (probePoints r cs).all (fun m => unionAgrees r cs m || (innerStarts cs).contains m)
    then s!"split-both-exclusive-inner-boundary-lost n={n.toNat}"
    else s!"split-union n={n.toNat}"

end BstreamVerif.RangeMon
