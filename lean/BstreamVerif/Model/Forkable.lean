import BstreamVerif.Model.ForkDB
/-
Model of /repo/forkable/forkable.go: `Forkable.ProcessBlock` statement by statement, plus the read-only
queries (HeadInfo, CanonicalBlockAt, …). Not modelled: EnsureBlockFlows and the unlinkable-block
counters (options the properties exclude), logging.
-/
namespace BstreamVerif.Forkable
open BstreamVerif BstreamVerif.ForkDB

inductive Root where
  | exclusive (lib : Ref)      -- WithExclusiveLIB
  | inclusive (lib : Ref)      -- WithInclusiveLIB
deriving DecidableEq, Repr

structure Config where
  root       : Option Root     -- none = LIB discovery
  hold       : Bool            -- HoldBlocksUntilLIB
  kept       : Nat             -- WithKeptFinalBlocks
  allTrigger : Bool            -- EnsureAllBlocksTriggerLongestChain
  filter     : Nat             -- WithFilters step mask (StepsAll = 51)
  fsb        : Nat             -- bstream.GetProtocolFirstStreamableBlock
deriving Repr

structure FState where
  db          : DB
  lastSent    : Option Blk     -- lastBlockSent
  lastLIBSeen : Ref
  includeInit : Bool           -- includeInitialLIB
  cache       : Option (List Entry)   -- lastLongestChain (nil = none)
deriving Repr

def init (cfg : Config) : FState :=
  match cfg.root with
  | none => ⟨DB.empty, none, Ref.empty, false, none⟩
  | some (.exclusive r) => ⟨DB.empty.initLIB r, none, r, false, none⟩
  | some (.inclusive r) => ⟨DB.empty.initLIB r, none, Ref.empty, true, none⟩

inductive Result where
  | ok
  | errInvalid           -- "invalid block ID detected"
  | errHandler           -- the handler's error, returned at once
deriving DecidableEq, Repr

def Config.matches (cfg : Config) (s : Step) : Bool := s.matchesMask cfg.filter

/-- delivery with an injected handler failure: `failAt = some k` makes the k-th handler call (0-based,
    counted over this ProcessBlock invocation) fail. Returns (events seen by the handler, failed?, calls left). -/
def deliver (failAt : Option Nat) (evs : List Event) : List Event × Bool × Option Nat :=
  match failAt with
  | none => (evs, false, none)
  | some k => if k < evs.length then (evs.take (k + 1), true, none) else (evs, false, some (k - evs.length))

def cursorLIB (s : FState) : Ref := if s.lastLIBSeen.isEmpty then s.db.libRef else s.lastLIBSeen

def triggers (cfg : Config) (s : FState) (b : Blk) : Bool :=
  if cfg.allTrigger then true
  else match s.lastSent with
    | none => true
    | some l => b.num > l.num

/-- computeNewLongestChain -/
def computeLongestChain (cfg : Config) (s : FState) (b : Blk) : Option (List Entry) :=
  let skip := match s.cache with
    | some (c :: cs) =>
      b.parent == (((c :: cs).getLast?.map (fun (e : Entry) => e.blk.id)).getD "") && s.db.libRef.id == c.blk.parent
    | _ => false
  if skip then (s.cache.map (fun c => c ++ [(⟨b, false⟩ : Entry)]))
  else (s.db.reversibleSegment cfg.fsb b.ref).1

/-- the `sent` flag lives in the shared ForkableBlock object: read it from the DB -/
def isSent (db : DB) (id : Id) : Bool := (db.find id).map (·.sent) |>.getD false

/-- sentChainSwitchSegments: (undo entries, redo entries, junction ref); entries missing from the DB make
    the Go code panic: reported as `none`. -/
def sentChainSwitch (db : DB) (curHead newPrev : Id) : Option (List Entry × List Entry × Option Ref) :=
  if curHead == newPrev then some ([], [], none)
  else
    match db.chainSwitchSegments curHead newPrev with
    | none => some ([], [], none)
    | some (undoIds, redoIds, j) =>
      let junction := if undoIds.isEmpty then none else (db.find j).map (fun e => e.blk.ref)
      match undoIds.mapM db.find, redoIds.mapM db.find with
      | some us, some rs => some (us, rs.filter (·.sent), junction)
      | _, _ => none

def mkEvents (step : Step) (es : List Entry) (head lib : Ref) (j : Option Ref) : List Event :=
  es.mapIdx (fun i e => ⟨step, e.blk, head, lib, j, i, es.length⟩)

structure Acc where
  st     : FState
  evs    : List Event
  failAt : Option Nat
  failed : Bool

/-- one block of processNewBlocks: New for a not-yet-sent block, marking it sent and moving lastBlockSent -/
def newStep (cfg : Config) (head : Ref) (a : Acc) (e : Entry) : Acc :=
  if a.failed then a
  else if isSent a.st.db e.blk.id then a
  else
    let doSend := cfg.matches .new
    let ev : Event := ⟨.new, e.blk, head, cursorLIB a.st, none, 0, 0⟩
    let (failedNow, failAt') := if doSend then
        (match a.failAt with | some 0 => (true, none) | some (k+1) => (false, some k) | none => (false, none))
      else (false, a.failAt)
    let evs := if doSend then a.evs ++ [ev] else a.evs
    if failedNow then { a with evs := evs, failed := true, failAt := failAt' }
    else { st := { a.st with db := a.st.db.markSent e.blk.id, lastSent := some e.blk }, evs := evs,
           failAt := failAt', failed := false }

/-- processNewBlocks(longestChain) -/
def processNew (cfg : Config) (a : Acc) (chain : List Entry) : Acc :=
  chain.foldl (newStep cfg ((chain.getLast?.map (·.blk.ref)).getD Ref.empty)) a

def phase (a : Acc) (evs : List Event) : Acc :=
  if a.failed then a else
  let (seen, failed, left) := deliver a.failAt evs
  { a with evs := a.evs ++ seen, failed := failed, failAt := left }

/-- processIrreversibleSegment + lastLIBSeen update (the update happens only when the handler did not fail) -/
def processIrr (cfg : Config) (a : Acc) (seg : List Entry) (head : Ref) (actual : Id → Option Blk := fun _ => none) : Acc :=
  if a.failed then a else
  let evs := if cfg.matches .irreversible then
      seg.mapIdx (fun i e =>
        let blk := (actual e.blk.id).getD e.blk          -- preprocBlock.Block, not the segment's (id, curNum)
        (⟨.irreversible, blk, head, blk.ref, none, i, seg.length⟩ : Event)) else []
  let a := phase a evs
  if a.failed then a else
  match seg.getLast? with
  | some l => { a with st := { a.st with lastLIBSeen := l.blk.ref } }
  | none => a

def processStalled (cfg : Config) (a : Acc) (stalled : List Entry) (head : Ref) : Acc :=
  if a.failed then a else
  let evs := if cfg.matches .stalled then
      stalled.mapIdx (fun i e => (⟨.stalled, e.blk, head, a.st.lastLIBSeen, none, i, stalled.length⟩ : Event)) else []
  phase a evs

def finish (a : Acc) : FState × List Event × Result :=
  (a.st, a.evs, if a.failed then .errHandler else .ok)

/-- processInitialInclusiveIrreversibleBlock(blk, obj, sendAsNew = true). After the fix the block is
    linked here (no-op when it already is); the fresh ForkableBlock `fb` is the DB object only when newly added. -/
def initialAcc (cfg : Config) (s : FState) (b : Blk) (failAt : Option Nat) : Acc :=
  let (db1, ex) := s.db.addLink b
  let newly := !ex && !(b.id == b.parent || b.id == "")
  let s := { s with db := db1 }
  let a : Acc := ⟨s, [], failAt, false⟩
  let doSend := cfg.matches .new
  let ev : Event := ⟨.new, b, b.ref, cursorLIB s, none, 0, 0⟩
  let a := if doSend then phase a [ev] else a
  if a.failed then a else
  let a := { a with st := { a.st with lastSent := some b, db := if newly then a.st.db.markSent b.id else a.st.db } }
  processIrr cfg a [⟨b, true⟩] b.ref

def processInitialInclusive (cfg : Config) (s : FState) (b : Blk) (failAt : Option Nat) : FState × List Event × Result :=
  finish (initialAcc cfg s b failAt)

/-- the block found as LIB by discovery is announced after the segment -/
def withFirst (firstIrr : Option Entry) (seg : List Entry) : List Entry :=
  match firstIrr with | some f => seg ++ [f] | none => seg

/-- announce the irreversible segment up to `libRef`, move the LIB there, purge, report the stalled blocks -/
def advanceTo (cfg : Config) (a : Acc) (b : Blk) (firstIrr : Option Entry) (libRef : Ref) : Acc :=
  let (hasNew, irrSeg0, stalled) := a.st.db.hasNewIrreversibleSegment cfg.fsb libRef
  let irrSeg := withFirst firstIrr irrSeg0
  if !hasNew && firstIrr.isNone then a else
  let dbBefore := a.st.db
  let db' := (a.st.db.moveLIB libRef).purgeBeforeLIB cfg.kept
  let a := { a with st := { a.st with db := db' } }
  let a := processIrr cfg a irrSeg b.ref (fun i => (dbBefore.find i).map (·.blk))
  processStalled cfg a stalled b.ref

/-- the tail of ProcessBlock: after the New events, move the LIB to the ancestor of the last sent block at its
    declared LIB number, announce the new irreversible segment and the stalled blocks, purge -/
def advanceAcc (cfg : Config) (a : Acc) (b : Blk) (firstIrr : Option Entry) : Acc :=
  if a.failed then a else
  match a.st.lastSent with
  | none => a
  | some last =>
  if !a.st.db.hasLIB then a else
  let libRef := a.st.db.blockInChain last.ref last.lib
  if libRef.id == "" then a else advanceTo cfg a b firstIrr libRef

def advanceLIB (cfg : Config) (a : Acc) (b : Blk) (firstIrr : Option Entry) : FState × List Event × Result :=
  finish (advanceAcc cfg a b firstIrr)

/-- the undo / redo / new deliveries for a block that triggers the longest chain `lc` -/
def emitSwitch (cfg : Config) (s3 : FState) (b : Blk) (lc undos redos : List Entry) (junction : Option Ref)
    (failAt : Option Nat) : Acc :=
  let a : Acc := ⟨s3, [], failAt, false⟩
  let a := if cfg.matches .undo then phase a (mkEvents .undo undos b.ref (cursorLIB s3) junction) else a
  let a := if cfg.matches .new then phase a (mkEvents .new redos b.ref (cursorLIB s3) none) else a
  processNew cfg a lc

/-- undo/redo segments, computed BEFORE the link is added; `none` = Go would panic (entries missing) -/
def switchSegments (cfg : Config) (s : FState) (b : Blk) (trig : Bool) : Option (List Entry × List Entry × Option Ref) :=
  if cfg.matches .undo && trig then
    match s.lastSent with
    | some l => sentChainSwitch s.db l.id b.parent
    | none => some ([], [], none)
  else some ([], [], none)

/-- what ProcessBlock decides to do with an incoming block, before any handler call -/
inductive Plan where
  | done (s : FState) (r : Result)            -- nothing is delivered
  | initial (s : FState)                       -- processInitialInclusiveIrreversibleBlock
  | switch (s3 : FState) (lc undos redos : List Entry) (junction : Option Ref) (firstIrr : Option Entry)

/-- the decision once the block is linked: LIB discovery, longest chain, trigger -/
def planLinked (cfg : Config) (s1 : FState) (b : Blk) (trig : Bool) (undos redos : List Entry) (junction : Option Ref) : Plan :=
  -- LIB discovery
  let hadLIB := s1.db.hasLIB
  let s2 : FState := if hadLIB then s1 else { s1 with db := s1.db.setLIB cfg.fsb b.ref b.lib }
  if !hadLIB && s2.db.hasLIB && s2.db.libRef.num == b.num then .initial s2
  else
  let firstIrr : Option Entry := if !hadLIB && s2.db.hasLIB then s2.db.find s2.db.libRef.id else none
  if !hadLIB && !s2.db.hasLIB && cfg.hold then .done s2 .ok
  else
  let chain := computeLongestChain cfg s2 b
  let s3 : FState := { s2 with cache := chain }
  match chain with
  | none | some [] => .done s3 .ok
  | some lc =>
  if !trig then .done s3 .ok else .switch s3 lc undos redos junction firstIrr

/-- the decision part of `Forkable.ProcessBlock` -/
def plan (cfg : Config) (s : FState) (b : Blk) : Plan :=
  if b.id == b.parent then .done s .errInvalid
  else if b.num < s.db.libRef.num && s.lastSent.isSome then .done s .ok
  else
  let trig := triggers cfg s b
  if s.includeInit && s.lastSent.isNone && b.id == s.db.libRef.id then .initial s
  else
  match switchSegments cfg s b trig with
  | none => .done s .errInvalid     -- Go would panic here (unreachable on well-formed states)
  | some (undos, redos, junction) =>
  let (db1, exists_) := s.db.addLink b
  if exists_ then .done s .ok
  else planLinked cfg { s with db := db1 } b trig undos redos junction

/-- `Forkable.ProcessBlock` -/
def processBlock (cfg : Config) (s : FState) (b : Blk) (failAt : Option Nat) : FState × List Event × Result :=
  match plan cfg s b with
  | .done s' r => (s', [], r)
  | .initial s' => processInitialInclusive cfg s' b failAt
  | .switch s3 lc undos redos junction firstIrr =>
    advanceLIB cfg (emitSwitch cfg s3 b lc undos redos junction failAt) b firstIrr

/-- run a whole history (no handler failures) -/
def runHistory (cfg : Config) (s : FState) (h : List Blk) : FState × List Event :=
  h.foldl (fun (acc : FState × List Event) b =>
    let (s', evs, _) := processBlock cfg acc.1 b none
    (s', acc.2 ++ evs)) (s, [])

/-! ### executable checks of the hypotheses of the step theorem (Props/C01); soundness in Lemmas/StepCheckSound -/

/-- the buffer with a new, unsent block appended (what AddLink does for a block that is not stored) -/
def appendBlk (db : DB) (b : Blk) : DB := { db with entries := db.entries ++ [⟨b, false⟩] }

def wfInB (b : Blk) : Bool := b.id != "" && b.parent != "" && b.id != b.parent

def hbB (db : DB) (b : Blk) : Bool :=
  db.entries.all (fun p => !(b.parent == p.blk.id) || decide (p.blk.num < b.num)) &&
  db.entries.all (fun e => !(e.blk.parent == b.id) || decide (b.num < e.blk.num)) &&
  (!(b.parent == db.libRef.id) || decide (db.libRef.num < b.num)) &&
  (!(b.id == db.libRef.id) || b.num == db.libRef.num)

def libDeclB (db : DB) (b : Blk) : Bool :=
  match (appendBlk db b).find ((appendBlk db b).blockInChain b.ref b.lib).id with
  | some e => e.blk.num == ((appendBlk db b).blockInChain b.ref b.lib).num
  | none => true

/-- walking down from a delivered block: every stored ancestor above the LIB is delivered too -/
def sentChainB (db : DB) : Nat → Id → Bool
  | 0, _ => false
  | fuel + 1, cur =>
    let p := db.link cur
    if p == db.libRef.id then true
    else match db.find p with
      | none => true
      | some ep => ep.sent && sentChainB db fuel p

def sentClosedB (db : DB) : Bool :=
  db.entries.all (fun e => !e.sent || sentChainB db (db.entries.length + 1) e.blk.id)

def stepOKb (s : FState) (b : Blk) : Bool :=
  (!s.includeInit || s.lastSent.isSome || b.id != s.db.libRef.id) &&
  sentClosedB s.db && wfInB b && hbB s.db b && libDeclB s.db b

/-- a finite universe of blocks given as a list, and the executable check that it is consistent (ids identify
    blocks, heights grow along parent links); soundness: Lemmas/StepCheckSound.uokB_sound -/
def ofList (l : List Blk) : Id → Option Blk := fun id => l.find? (fun b => b.id == id)

def uokB (l : List Blk) : Bool :=
  l.all wfInB && l.all (fun b => l.all (fun c => !(b.id == c.id) || b == c)) &&
  l.all (fun b => l.all (fun p => !(b.parent == p.id) || decide (p.num < b.num)))

/-! ### read-only queries (C18) -/

def headInfo (s : FState) : Option Blk := s.lastSent
def headNum (s : FState) : Nat := (s.lastSent.map (·.num)).getD 0

def canonicalBlockAt (s : FState) (n : Nat) : Option Blk :=
  match s.lastSent with
  | none => none
  | some l =>
    let r := s.db.blockInChain l.ref n
    if r.id != "" then (s.db.find r.id).map (·.blk) else none

def getBlockByHash (s : FState) (id : Id) : Option Blk := (s.db.find id).map (·.blk)

/-- AllBlocksAt(n) after the fix (ids without an object are skipped); sorted by id -/
def allBlocksAt (s : FState) (n : Nat) : List Blk :=
  (sortById (s.db.entries.filter (fun e => e.blk.num == n))).map (·.blk)

def allIDs (s : FState) : List Id := (sortById s.db.entries).map (·.blk.id)

/-- LowestBlockNum; `none` = Go panics (index out of range on an empty segment that "reaches" the LIB:
    only when the head block itself is the LIB id and has no link, i.e. after a malformed LIB declaration
    purged the head) -/
def lowestBlockNum (s : FState) : Option Nat :=
  match s.lastSent with
  | none => some 0
  | some l =>
    match s.db.completeSegment l.ref with
    | (some (f :: _), true) => some f.blk.num
    | (some [], true) => none
    | (none, true) => none
    | _ => some 0

end BstreamVerif.Forkable
