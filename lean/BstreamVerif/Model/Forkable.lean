import BstreamVerif.Model.ForkDB
/-
Model of /repo/forkable/forkable.go: `Forkable.ProcessBlock` statement by statement, plus the read-only
queries (HeadInfo, CanonicalBlockAt, …). Not modelled: EnsureBlockFlows and the unlinkable-block
counters (options the properties exclude), logging.
-/
namespace BstreamVerif.Forkable
open BstreamVerif BstreamVerif.ForkDB

inductive Root where
  | exclusive (lib : Ref)      -- WithExclusiveLIB
  | inclusive (lib : Ref)      -- WithInclusiveLIB
deriving DecidableEq, Repr

structure Config where
  root       : Option Root     -- none = LIB discovery
  hold       : Bool            -- HoldBlocksUntilLIB
  kept       : Nat             -- WithKeptFinalBlocks
  allTrigger : Bool            -- EnsureAllBlocksTriggerLongestChain
  filter     : Nat             -- WithFilters step mask (StepsAll = 51)
  fsb        : Nat             -- bstream.GetProtocolFirstStreamableBlock
deriving Repr

structure FState where
  db          : DB
  lastSent    : Option Blk     -- lastBlockSent
  lastLIBSeen : Ref
  includeInit : Bool           -- includeInitialLIB
  cache       : Option (List Entry)   -- lastLongestChain (nil = none)
deriving Repr

def init (cfg : Config) : FState :=
  match cfg.root with
  | none => ⟨DB.empty, none, Ref.empty, false, none⟩
  | some (.exclusive r) => ⟨DB.empty.initLIB r, none, r, false, none⟩
  | some (.inclusive r) => ⟨DB.empty.initLIB r, none, Ref.empty, true, none⟩

inductive Result where
  | ok
  | errInvalid           -- "invalid block ID detected"
  | errHandler           -- the handler's error, returned at once
deriving DecidableEq, Repr

def Config.matches (cfg : Config) (s : Step) : Bool := s.matchesMask cfg.filter

/-- delivery with an injected handler failure: `failAt = some k` makes the k-th handler call (0-based,
    counted over this ProcessBlock invocation) fail. Returns (events seen by the handler, failed?, calls left). -/
def deliver (failAt : Option Nat) (evs : List Event) : List Event × Bool × Option Nat :=
  match failAt with
  | none => (evs, false, none)
  | some k => if k < evs.length then (evs.take (k + 1), true, none) else (evs, false, some (k - evs.length))

def cursorLIB (s : FState) : Ref := if s.lastLIBSeen.isEmpty then s.db.libRef else s.lastLIBSeen

def triggers (cfg : Config) (s : FState) (b : Blk) : Bool :=
  if cfg.allTrigger then true
  else match s.lastSent with
    | none => true
    | some l => b.num > l.num

/-- computeNewLongestChain -/
def computeLongestChain (cfg : Config) (s : FState) (b : Blk) : Option (List Entry) :=
  let skip := match s.cache with
    | some (c :: cs) =>
      b.parent == (((c :: cs).getLast?.map (fun (e : Entry) => e.blk.id)).getD "") && s.db.libRef.id == c.blk.parent
    | _ => false
  if skip then (s.cache.map (fun c => c ++ [(⟨b, false⟩ : Entry)]))
  else (s.db.reversibleSegment cfg.fsb b.ref).1

/-- the `sent` flag lives in the shared ForkableBlock object: read it from the DB -/
def isSent (db : DB) (id : Id) : Bool := (db.find id).map (·.sent) |>.getD false

/-- sentChainSwitchSegments: (undo entries, redo entries, junction ref); entries missing from the DB make
    the Go code panic: reported as `none`. -/
def sentChainSwitch (db : DB) (curHead newPrev : Id) : Option (List Entry × List Entry × Option Ref) :=
  if curHead == newPrev then some ([], [], none)
  else
    match db.chainSwitchSegments curHead newPrev with
    | none => some ([], [], none)
    | some (undoIds, redoIds, j) =>
      let junction := if undoIds.isEmpty then none else (db.find j).map (fun e => e.blk.ref)
      match undoIds.mapM db.find, redoIds.mapM db.find with
      | some us, some rs => some (us, rs.filter (·.sent), junction)
      | _, _ => none

def mkEvents (step : Step) (es : List Entry) (head lib : Ref) (j : Option Ref) : List Event :=
  es.mapIdx (fun i e => ⟨step, e.blk, head, lib, j, i, es.length⟩)

structure Acc where
  st     : FState
  evs    : List Event
  failAt : Option Nat
  failed : Bool

/-- processNewBlocks(longestChain): New for every not-yet-sent block, marking it sent and moving lastBlockSent -/
def processNew (cfg : Config) (a : Acc) (chain : List Entry) : Acc :=
  let head := (chain.getLast?.map (·.blk.ref)).getD Ref.empty
  chain.foldl (fun a e =>
    if a.failed then a
    else if isSent a.st.db e.blk.id then a
    else
      let doSend := cfg.matches .new
      let ev : Event := ⟨.new, e.blk, head, cursorLIB a.st, none, 0, 0⟩
      let (failedNow, failAt') := if doSend then
          (match a.failAt with | some 0 => (true, none) | some (k+1) => (false, some k) | none => (false, none))
        else (false, a.failAt)
      let evs := if doSend then a.evs ++ [ev] else a.evs
      if failedNow then { a with evs := evs, failed := true, failAt := failAt' }
      else { st := { a.st with db := a.st.db.markSent e.blk.id, lastSent := some e.blk }, evs := evs,
             failAt := failAt', failed := false }) a

def phase (a : Acc) (evs : List Event) : Acc :=
  if a.failed then a else
  let (seen, failed, left) := deliver a.failAt evs
  { a with evs := a.evs ++ seen, failed := failed, failAt := left }

/-- processIrreversibleSegment + lastLIBSeen update (the update happens only when the handler did not fail) -/
def processIrr (cfg : Config) (a : Acc) (seg : List Entry) (head : Ref) (actual : Id → Option Blk := fun _ => none) : Acc :=
  if a.failed then a else
  let evs := if cfg.matches .irreversible then
      seg.mapIdx (fun i e =>
        let blk := (actual e.blk.id).getD e.blk          -- preprocBlock.Block, not the segment's (id, curNum)
        (⟨.irreversible, blk, head, blk.ref, none, i, seg.length⟩ : Event)) else []
  let a := phase a evs
  if a.failed then a else
  match seg.getLast? with
  | some l => { a with st := { a.st with lastLIBSeen := l.blk.ref } }
  | none => a

def processStalled (cfg : Config) (a : Acc) (stalled : List Entry) (head : Ref) : Acc :=
  if a.failed then a else
  let evs := if cfg.matches .stalled then
      stalled.mapIdx (fun i e => (⟨.stalled, e.blk, head, a.st.lastLIBSeen, none, i, stalled.length⟩ : Event)) else []
  phase a evs

def finish (a : Acc) : FState × List Event × Result :=
  (a.st, a.evs, if a.failed then .errHandler else .ok)

/-- processInitialInclusiveIrreversibleBlock(blk, obj, sendAsNew = true). After the fix the block is
    linked here (no-op when it already is); the fresh ForkableBlock `fb` is the DB object only when newly added. -/
def processInitialInclusive (cfg : Config) (s : FState) (b : Blk) (failAt : Option Nat) : FState × List Event × Result :=
  let (db1, ex) := s.db.addLink b
  let newly := !ex && !(b.id == b.parent || b.id == "")
  let s := { s with db := db1 }
  let a : Acc := ⟨s, [], failAt, false⟩
  let doSend := cfg.matches .new
  let ev : Event := ⟨.new, b, b.ref, cursorLIB s, none, 0, 0⟩
  let a := if doSend then phase a [ev] else a
  if a.failed then finish a else
  let a := { a with st := { a.st with lastSent := some b, db := if newly then a.st.db.markSent b.id else a.st.db } }
  let a := processIrr cfg a [⟨b, true⟩] b.ref
  finish a

/-- `Forkable.ProcessBlock` -/
def processBlock (cfg : Config) (s : FState) (b : Blk) (failAt : Option Nat) : FState × List Event × Result :=
  if b.id == b.parent then (s, [], .errInvalid)
  else if b.num < s.db.libRef.num && s.lastSent.isSome then (s, [], .ok)
  else
  let trig := triggers cfg s b
  if s.includeInit && s.lastSent.isNone && b.id == s.db.libRef.id then processInitialInclusive cfg s b failAt
  else
  -- undo/redo segments are computed BEFORE the link is added
  let sw : Option (List Entry × List Entry × Option Ref) :=
    if cfg.matches .undo && trig then
      match s.lastSent with
      | some l => sentChainSwitch s.db l.id b.parent
      | none => some ([], [], none)
    else some ([], [], none)
  match sw with
  | none => (s, [], .errInvalid)     -- Go would panic here (unreachable on well-formed states; see Inv)
  | some (undos, redos, junction) =>
  let (db1, exists_) := s.db.addLink b
  if exists_ then (s, [], .ok)
  else
  let s1 : FState := { s with db := db1 }
  -- LIB discovery
  let hadLIB := s1.db.hasLIB
  let s2 : FState := if hadLIB then s1 else { s1 with db := s1.db.setLIB cfg.fsb b.ref b.lib }
  if !hadLIB && s2.db.hasLIB && s2.db.libRef.num == b.num then processInitialInclusive cfg s2 b failAt
  else
  let firstIrr : Option Entry := if !hadLIB && s2.db.hasLIB then s2.db.find s2.db.libRef.id else none
  if !hadLIB && !s2.db.hasLIB && cfg.hold then (s2, [], .ok)
  else
  let chain := computeLongestChain cfg s2 b
  let s3 : FState := { s2 with cache := chain }
  match chain with
  | none | some [] => (s3, [], .ok)
  | some lc =>
  if !trig then (s3, [], .ok) else
  let a : Acc := ⟨s3, [], failAt, false⟩
  let a := if cfg.matches .undo then phase a (mkEvents .undo undos b.ref (cursorLIB s3) junction) else a
  let a := if cfg.matches .new then phase a (mkEvents .new redos b.ref (cursorLIB s3) none) else a
  let a := processNew cfg a lc
  if a.failed then finish a else
  match a.st.lastSent with
  | none => finish a
  | some last =>
  if !a.st.db.hasLIB then finish a else
  let libRef := a.st.db.blockInChain last.ref last.lib
  if libRef.id == "" then finish a else
  let (hasNew, irrSeg0, stalled) := a.st.db.hasNewIrreversibleSegment cfg.fsb libRef
  let irrSeg := match firstIrr with | some f => irrSeg0 ++ [f] | none => irrSeg0
  if !hasNew && firstIrr.isNone then finish a else
  let dbBefore := a.st.db
  let db' := (a.st.db.moveLIB libRef).purgeBeforeLIB cfg.kept
  let a := { a with st := { a.st with db := db' } }
  let a := processIrr cfg a irrSeg b.ref (fun i => (dbBefore.find i).map (·.blk))
  let a := processStalled cfg a stalled b.ref
  finish a

/-- run a whole history (no handler failures) -/
def runHistory (cfg : Config) (s : FState) (h : List Blk) : FState × List Event :=
  h.foldl (fun (acc : FState × List Event) b =>
    let (s', evs, _) := processBlock cfg acc.1 b none
    (s', acc.2 ++ evs)) (s, [])

/-! ### read-only queries (C18) -/

def headInfo (s : FState) : Option Blk := s.lastSent
def headNum (s : FState) : Nat := (s.lastSent.map (·.num)).getD 0

def canonicalBlockAt (s : FState) (n : Nat) : Option Blk :=
  match s.lastSent with
  | none => none
  | some l =>
    let r := s.db.blockInChain l.ref n
    if r.id != "" then (s.db.find r.id).map (·.blk) else none

def getBlockByHash (s : FState) (id : Id) : Option Blk := (s.db.find id).map (·.blk)

/-- AllBlocksAt(n) after the fix (ids without an object are skipped); sorted by id -/
def allBlocksAt (s : FState) (n : Nat) : List Blk :=
  (sortById (s.db.entries.filter (fun e => e.blk.num == n))).map (·.blk)

def allIDs (s : FState) : List Id := (sortById s.db.entries).map (·.blk.id)

/-- LowestBlockNum; `none` = Go panics (index out of range on an empty segment that "reaches" the LIB:
    only when the head block itself is the LIB id and has no link, i.e. after a malformed LIB declaration
    purged the head) -/
def lowestBlockNum (s : FState) : Option Nat :=
  match s.lastSent with
  | none => some 0
  | some l =>
    match s.db.completeSegment l.ref with
    | (some (f :: _), true) => some f.blk.num
    | (some [], true) => none
    | (none, true) => none
    | _ => some 0

end BstreamVerif.Forkable
