/-
Model of /repo/blockstream/server.go + subscription.go + the parts of /repo/buffer.go they use.
Atomic operations: push | subscribe burst | unsubscribe i | recv i. Atomicity of push w.r.t.
subscribe/unsubscribe is what the RWMutex gives (facts checked by factx); a channel receive is atomic.
-/
namespace BstreamVerif.BlockServer

abbrev Id := String

structure Sub where
  cap     : Nat
  queue   : List Id        -- channel contents, oldest first
  closed  : Bool
  closes  : Nat            -- how many times close(chan) ran (quitOnce ⇒ ≤ 1)
  active  : Bool           -- still in Server.subscriptions
deriving DecidableEq, Repr

structure Server where
  buffered : Bool          -- ServerOptionWithBuffer given
  size     : Nat           -- bufferSize
  buffer   : List Id       -- oldest (tail) first, head last
  subs     : List Sub      -- every subscription ever created, by index
deriving Repr

/-- subscription.Push -/
def Sub.push (s : Sub) (b : Id) : Sub :=
  if s.queue.length == s.cap then
    if s.closed then s else { s with closed := true, closes := s.closes + 1 }
  else if s.closed then s
  else { s with queue := s.queue ++ [b] }

/-- buffer maintenance of PushBlock (after the fix: evict only when the block is new; size 0 keeps nothing) -/
def bufPush (size : Nat) (buf : List Id) (b : Id) : List Id :=
  if buf.contains b then buf
  else
    let buf' := if buf.length ≥ size then buf.drop 1 else buf
    if size > 0 then buf' ++ [b] else buf'

def push (s : Server) (b : Id) : Server :=
  { s with
    buffer := if s.buffered then bufPush s.size s.buffer b else s.buffer,
    subs := s.subs.map (fun sub => if sub.active && !sub.closed then sub.push b else sub) }

/-- the burst handed to a new subscriber (after the fix: a negative burst is an empty burst) -/
def burstOf (s : Server) (burst : Int) : List Id :=
  if !s.buffered then [] else
  let n := burst.toNat
  if n < s.buffer.length then s.buffer.drop (s.buffer.length - n) else s.buffer

def subscribe (s : Server) (burst : Int) : Server :=
  let bl := burstOf s burst
  let sub : Sub := { cap := 200 + bl.length, queue := bl, closed := false, closes := 0, active := true }
  { s with subs := s.subs ++ [sub] }

def unsubscribe (s : Server) (i : Nat) : Server :=
  { s with subs := s.subs.mapIdx (fun j sub => if j == i then { sub with active := false } else sub) }

inductive Recv where
  | blk (b : Id) | closed | empty | nosub
deriving DecidableEq, Repr

def recv (s : Server) (i : Nat) : Server × Recv :=
  match s.subs[i]? with
  | none => (s, .nosub)
  | some sub =>
    match sub.queue with
    | b :: rest =>
      ({ s with subs := s.subs.mapIdx (fun j x => if j == i then { x with queue := rest } else x) }, .blk b)
    | [] => (s, if sub.closed then .closed else .empty)

def ready (s : Server) : Bool := !s.buffered || s.buffer.length ≥ s.size

end BstreamVerif.BlockServer
