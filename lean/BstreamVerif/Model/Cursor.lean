/-
Model of /repo/cursor.go: Cursor.String / FromString (text layouts c1, c2, c3) at byte level.
Go strings are byte strings; `strings.Split`, `strconv.ParseUint/ParseInt` and `%d` are modelled by the
functions below (their agreement with Go is part of what the correspondence run checks).
-/
namespace BstreamVerif.Cursor

abbrev Bytes := List UInt8

structure Ref where
  id  : Bytes
  num : Nat            -- uint64 in Go; callers keep it < 2^64
deriving DecidableEq, Repr

structure Cursor where
  step  : Int          -- StepType (an int)
  block : Ref
  head  : Ref
  lib   : Ref
deriving DecidableEq, Repr

def colon : UInt8 := 58

def digitByte (d : Nat) : UInt8 := UInt8.ofNat (48 + d)

/-- `%d` of a natural number -/
def showNat (n : Nat) : Bytes :=
  if h : n < 10 then [digitByte n] else showNat (n / 10) ++ [digitByte (n % 10)]
decreasing_by omega

def showInt (i : Int) : Bytes :=
  match i with
  | .ofNat n => showNat n
  | .negSucc n => 45 :: showNat (n + 1)

def isDigit (b : UInt8) : Bool := 48 ≤ b && b ≤ 57

/-- digits → value, `none` on a non-digit -/
def parseDigitsAcc (acc : Nat) : Bytes → Option Nat
  | [] => some acc
  | b :: rest => if isDigit b then parseDigitsAcc (acc * 10 + (b.toNat - 48)) rest else none

/-- strconv.ParseUint(s, 10, 64) -/
def parseUint64 (s : Bytes) : Option Nat :=
  if s.isEmpty then none else
  match parseDigitsAcc 0 s with
  | some v => if v < 2 ^ 64 then some v else none
  | none => none

/-- strconv.ParseInt(s, 10, 64) -/
def parseInt64 (s : Bytes) : Option Int :=
  match s with
  | [] => none
  | b :: rest =>
    let (neg, ds) := if b == 43 then (false, rest) else if b == 45 then (true, rest) else (false, s)
    if ds.isEmpty then none else
    match parseDigitsAcc 0 ds with
    | some v =>
      if neg then (if v ≤ 2 ^ 63 then some (-(v : Int)) else none)
      else (if v < 2 ^ 63 then some (v : Int) else none)
    | none => none

/-- strings.Split(s, ":") — always at least one part -/
def splitColon : Bytes → List Bytes
  | [] => [[]]
  | b :: rest =>
    if b == colon then [] :: splitColon rest
    else match splitColon rest with
      | p :: ps => (b :: p) :: ps
      | [] => [[b]]

def joinColon : List Bytes → Bytes
  | [] => []
  | [p] => p
  | p :: q :: r => p ++ colon :: joinColon (q :: r)

def c1 : Bytes := [99, 49]   -- "c1"
def c2 : Bytes := [99, 50]
def c3 : Bytes := [99, 51]

/-- `(*Cursor).String` -/
def toString (c : Cursor) : Bytes :=
  if c.head.id = c.block.id then
    joinColon [c1, showInt c.step, showNat c.block.num, c.block.id, showNat c.lib.num, c.lib.id]
  else if c.block.id = c.lib.id then
    joinColon [c2, showInt c.step, showNat c.block.num, c.block.id, showNat c.head.num, c.head.id]
  else
    joinColon [c3, showInt c.step, showNat c.block.num, c.block.id, showNat c.head.num, c.head.id,
               showNat c.lib.num, c.lib.id]

def validStep (s : Int) : Bool := s == 1 || s == 2 || s == 16 || s == 17

def readStep (p : Bytes) : Option Int :=
  match parseInt64 p with
  | some s => if validStep s then some s else none
  | none => none

def readRef (numStr id : Bytes) : Option Ref :=
  (parseUint64 numStr).map (fun n => ⟨id, n⟩)

/-- `FromString`; `none` = error. The function has no other outcome: no index is read past the checked length. -/
def fromParts : List Bytes → Option Cursor
  | [p0, p1, p2, p3, p4, p5] =>
    if p0 = c1 then do
      let step ← readStep p1
      let blk ← readRef p2 p3
      let lib ← readRef p4 p5
      pure ⟨step, blk, blk, lib⟩
    else if p0 = c2 then do
      let step ← readStep p1
      let blk ← readRef p2 p3
      let head ← readRef p4 p5
      pure ⟨step, blk, head, blk⟩
    else none
  | [p0, p1, p2, p3, p4, p5, p6, p7] =>
    if p0 = c3 then do
      let step ← readStep p1
      let blk ← readRef p2 p3
      let head ← readRef p4 p5
      let lib ← readRef p6 p7
      pure ⟨step, blk, head, lib⟩
    else none
  | _ => none

def fromString (s : Bytes) : Option Cursor := fromParts (splitColon s)

/-- `IsOnFinalBlock` -/
def isOnFinalBlock (c : Cursor) : Bool :=
  c.block.num == c.lib.num && (Int.fmod (Int.fdiv c.step 16) 2 == 1)   -- step & 16 ≠ 0 (two's complement)

end BstreamVerif.Cursor
