/-
Model of /repo/gates.go, /repo/forkable/gates.go, /repo/gator.go: each gate is a latch folded over the
input events. Wall-clock reads are replaced by the event's `age` (now − block time), a parameter.
-/
namespace BstreamVerif.Gates

structure Ev where
  id   : String
  num  : Nat
  step : Nat          -- StepType of the ForkableObject (only read by the irreversible gates)
  age  : Int          -- now − blockTime, in seconds (only read by the real-time gate / gators)
deriving DecidableEq, Repr

inductive Kind where
  | num (target : Nat)          -- BlockNumGate
  | id (target : String)        -- BlockIDGate
  | irrNum (target : Nat)       -- forkable.IrreversibleBlockNumGate
  | irrId (target : String)     -- forkable.IrreversibleBlockIDGate
  | realtime (tol : Int)        -- RealtimeGate
deriving DecidableEq, Repr

structure Cfg where
  kind      : Kind
  inclusive : Bool      -- GateInclusive / GateExclusive at construction
  maxHold   : Nat       -- MaxHoldOff (0 = unlimited)
  fsb       : Nat       -- GetProtocolFirstStreamableBlock
deriving Repr

structure GState where
  passed    : Bool
  inclusive : Bool
  held      : Nat       -- maxHoldOffCount
deriving DecidableEq, Repr

inductive Out where
  | fwd        -- handler called with this event
  | drop       -- returns nil without calling the handler
  | errHold    -- "maximum blocks held off busted"
deriving DecidableEq, Repr

def zeros64 : String := "0000000000000000000000000000000000000000000000000000000000000000"

def stepIrreversible : Nat := 16

/-- events the gate looks at while closed (irreversible gates ignore every other step) -/
def considered (cfg : Cfg) (e : Ev) : Bool :=
  match cfg.kind with
  | .irrNum _ | .irrId _ => e.step == stepIrreversible
  | _ => true

/-- the plain trigger test -/
def trigger (cfg : Cfg) (e : Ev) : Bool :=
  match cfg.kind with
  | .num t | .irrNum t => decide (e.num ≥ t)
  | .id t | .irrId t => e.id == t
  | .realtime tol => decide (e.age < tol)

/-- the "gate set below the first block opens inclusively at the first block" override -/
def special (cfg : Cfg) (e : Ev) : Bool :=
  match cfg.kind with
  | .num t => decide (t < cfg.fsb) && e.num == cfg.fsb
  | .id t | .irrId t => (t == "" || t == zeros64) && e.num == 2
  | .irrNum t => (t == 0 || t == 1) && e.num == 2
  | .realtime _ => false

/-- gate type at construction (a real-time gate always forwards the block that opens it) -/
def baseIncl (cfg : Cfg) : Bool :=
  match cfg.kind with | .realtime _ => true | _ => cfg.inclusive

def initState (cfg : Cfg) : GState :=
  { passed := false, held := 0, inclusive := baseIncl cfg }

/-- one `ProcessBlock` call of a gate (the wrapped handler never fails here) -/
def step (cfg : Cfg) (s : GState) (e : Ev) : GState × Out :=
  if s.passed then (s, .fwd)
  else if !considered cfg e then (s, .drop)
  else
    let sp := special cfg e
    let passed := trigger cfg e || sp
    let incl := s.inclusive || sp
    if !passed then
      match cfg.kind with
      | .realtime _ => (s, .drop)
      | _ =>
        if cfg.maxHold != 0 then
          let s' := { s with held := s.held + 1 }
          if s'.held > cfg.maxHold then (s', .errHold) else (s', .drop)
        else (s, .drop)
    else
      ({ s with passed := true, inclusive := incl }, if incl then .fwd else .drop)

def run (cfg : Cfg) : GState → List Ev → List Out
  | _, [] => []
  | s, e :: es => let r := step cfg s e; r.2 :: run cfg r.1 es

/-- what reached the wrapped handler -/
def forwarded : List Ev → List Out → List Ev
  | e :: es, o :: os => if o = .fwd then e :: forwarded es os else forwarded es os
  | _, _ => []

/-! ### Gators (`Pass(block) bool`) and the minimal-number filter -/

inductive GatorKind where
  | num (target : Nat) (exclusive : Bool)
  | time (tol : Int)
deriving DecidableEq, Repr

def gatorStep (k : GatorKind) (passed : Bool) (e : Ev) : Bool × Bool :=   -- (new passed, result)
  if passed then (true, true) else
  match k with
  | .num t ex => if e.num ≥ t then (true, !ex) else (false, false)
  | .time tol => if e.age < tol then (true, true) else (false, false)

def gatorRun (k : GatorKind) : Bool → List Ev → List Bool
  | _, [] => []
  | p, e :: es => let r := gatorStep k p e; r.2 :: gatorRun k r.1 es

def minFilter (n : Nat) (evs : List Ev) : List Ev := evs.filter (fun e => decide (e.num ≥ n))

/-- RealtimeTripper: forwards everything; (tripped?, number of tripFunc calls) -/
def tripperRun (tol : Int) : Bool → List Ev → Nat
  | _, [] => 0
  | p, e :: es => if p then tripperRun tol true es
                  else if e.age < tol then 1 + tripperRun tol true es else tripperRun tol false es

end BstreamVerif.Gates
