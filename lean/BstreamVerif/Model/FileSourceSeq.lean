import BstreamVerif.Basic.Types
import BstreamVerif.Model.Index
/-
Sequential meaning of /repo/filesource.go (FileSource.run / launchReader / streamReader) and
/repo/blocktypes.go (PassesFilter): which blocks reach the handler, in which order, and how the run ends,
when goroutine timing is abstracted away (C10 proves the pipeline delivers exactly this sequence).
The store is a list of bundles (base number → stored blocks); a missing bundle makes the real source retry
forever: outcome `waiting`.
-/
namespace BstreamVerif.FileSourceSeq
open BstreamVerif

structure Bundle where
  base   : Nat
  blocks : List Blk            -- stored order
deriving Repr, Inhabited

inductive FSEnd where
  | stopReached                -- ErrStopBlockReached
  | nonSequential (id : Id)    -- "found non-sequential blocks": the offending block is NOT delivered
  | handlerErr                 -- the handler's error
  | waiting (base : Nat)       -- bundle file does not exist (yet): retries forever
deriving DecidableEq, Repr

structure Cfg where
  start      : Nat
  stop       : Nat             -- 0 = none
  bundleSize : Nat
  whitelist  : List Nat := []
deriving Repr

def lowBoundary (i m : Nat) : Nat := i - i % m

def findBundle (bs : List Bundle) (base : Nat) : Option Bundle := bs.find? (·.base == base)

/-- PassesFilter: consumes every wanted number ≤ blockNum; passes iff at least one was consumed.
    `none` = no filtering. Returns (passes, remaining). -/
def passesFilter (filtered : Option (List Nat)) (n : Nat) : Bool × Option (List Nat) :=
  match filtered with
  | none => (true, none)
  | some l =>
    let rest := l.dropWhile (fun w => n ≥ w)
    (rest.length < l.length, some rest)

/-- delivery of one file's blocks. State: continuity `lastID` (run level), handler budget `failAt`.
    Returns delivered blocks (reversed accumulation avoided: plain append), new lastID, remaining budget, end. -/
def streamFile (cfg : Cfg) (validate : Bool) (base : Nat) (filtered : Option (List Nat)) :
    List Blk → Id → Option Nat → List Blk → (List Blk × Id × Option Nat × Option FSEnd)
  | [], lastID, budget, acc => (acc, lastID, budget, none)
  | b :: rest, lastID, budget, acc =>
    if b.num < cfg.start then streamFile cfg validate base filtered rest lastID budget acc
    else if b.num < base then streamFile cfg validate base filtered rest lastID budget acc
    else
      let (pass, filtered') := passesFilter filtered b.num
      if !pass then streamFile cfg validate base filtered' rest lastID budget acc
      else if validate && lastID != "" && b.parent != lastID then (acc, lastID, budget, some (.nonSequential b.id))
      else
        match budget with
        | some 0 => (acc ++ [b], b.id, none, some .handlerErr)          -- the handler saw b and failed
        | some (k + 1) => streamFile cfg validate base filtered' rest b.id (some k) (acc ++ [b])
        | none => streamFile cfg validate base filtered' rest b.id none (acc ++ [b])

/-- the run without index provider: bundles in ascending base from lowBoundary(start) -/
def runPlain (cfg : Cfg) (bundles : List Bundle) (failAt : Option Nat) : Nat → Nat → Id → Option Nat → List Blk → List Blk × FSEnd
  | 0, base, _, _, acc => (acc, .waiting base)
  | fuel + 1, base, lastID, budget, acc =>
    match findBundle bundles base with
    | none => (acc, .waiting base)
    | some bu =>
      let (acc', lastID', budget', e) := streamFile cfg true base none bu.blocks lastID budget acc
      match e with
      | some e => (acc', e)
      | none =>
        let base' := base + cfg.bundleSize
        if cfg.stop != 0 && base' > cfg.stop then (acc', .stopReached)
        else runPlain cfg bundles failAt fuel base' lastID' budget' acc'

def run (cfg : Cfg) (bundles : List Bundle) (failAt : Option Nat) : List Blk × FSEnd :=
  if cfg.bundleSize == 0 then ([], .waiting 0) else
  runPlain cfg bundles failAt (bundles.length + 2) (lowBoundary cfg.start cfg.bundleSize) "" failAt []

/-! ### with a block index provider (C15, file-source half) -/

/-- tweakRangeIndexResults: (result or nil, remaining whitelist) -/
def insertSortedNat (n : Nat) : List Nat → List Nat
  | [] => [n]
  | x :: xs => if n < x then n :: x :: xs else if n == x then x :: xs else x :: insertSortedNat n xs

def tweakRange (cfg : Cfg) (whitelist : List Nat) (base : Nat) (inBlocks : Option (List Nat)) : Option (List Nat) × List Nat :=
  let wlAdd := whitelist.filter (fun w => w ≥ base && w < base + cfg.bundleSize)
  let wlRest := whitelist.filter (fun w => w ≥ base + cfg.bundleSize)
  let adds := wlAdd ++ (if base ≤ cfg.start && base + cfg.bundleSize > cfg.start then [cfg.start] else []) ++
              (if cfg.stop != 0 && base ≤ cfg.stop && base + cfg.bundleSize > cfg.stop then [cfg.stop] else [])
  if adds.isEmpty then (inBlocks, wlRest)
  else
    let all := (inBlocks.getD []) ++ adds
    let bounded := all.filter (fun b => b ≥ cfg.start && (cfg.stop == 0 || b ≤ cfg.stop))
    let uniq := bounded.foldl (fun l n => insertSortedNat n l) []
    (if uniq.isEmpty then none else some uniq, wlRest)

/-- the index provider as a table: `none` = BlocksInRange fails (no index for that range: the index has ended),
    `some none` = a nil result, `some (some l)` = these block numbers -/
abbrev Prov := Nat → Option (Option (List Nat))

/-- lookupBlockIndex (after the stop-block test): walk bundle by bundle until a bundle has something to deliver -/
def lookupIndex (cfg : Cfg) (prov : Prov) : Nat → Nat → List Nat → Nat × Option (List Nat) × Bool × List Nat
  | 0, base, wl => (base, none, true, wl)
  | fuel + 1, base, wl =>
    match prov base with
    | none => (base, none, true, wl)
    | some r =>
      let (out, wl') := tweakRange cfg wl base r
      match out with
      | none => lookupIndex cfg prov fuel (base + cfg.bundleSize) wl'
      | some l => (base, some l, false, wl')

/-- launchReader + run with a block index provider (continuity is not validated: the suite feeds parent-linked chains).
    When the bundle file does not exist the launcher retries the whole iteration, lookup included — with the
    whitelist as the first attempt left it —, so it may move on to a later bundle; the run "waits" for the base it
    misses twice in a row (`lastMiss`). -/
def runIndexed (cfg : Cfg) (bundles : List Bundle) (prov : Prov) (pf : Nat) :
    Nat → Nat → Bool → List Nat → Id → List Blk → Option Nat → List Blk × FSEnd
  | 0, base, _, _, _, acc, _ => (acc, .waiting base)
  | fuel + 1, base, active, wl, lastID, acc, lastMiss =>
    let (base', filtered, active', wl') : Nat × Option (List Nat) × Bool × List Nat :=
      if active then
        let (nb, matching, noMore, wl1) :=
          if cfg.stop != 0 && base > cfg.stop then (base, none, true, wl) else lookupIndex cfg prov pf base wl
        if noMore then
          if !(findBundle bundles nb).isSome && nb > base then (nb - cfg.bundleSize, none, false, wl1)
          else (nb, none, false, wl1)
        else (nb, matching, true, wl1)
      else (base, none, false, wl)
    match findBundle bundles base' with
    | none =>
      if lastMiss == some base' then (acc, .waiting base')
      else runIndexed cfg bundles prov pf fuel base' active' wl' lastID acc (some base')
    | some bu =>
      let (acc', lastID', _, e) := streamFile cfg false base' filtered bu.blocks lastID none acc
      match e with
      | some e => (acc', e)
      | none =>
        let next := base' + cfg.bundleSize
        if cfg.stop != 0 && next > cfg.stop then (acc', .stopReached)
        else runIndexed cfg bundles prov pf fuel next active' wl' lastID' acc' none

def runWithIndex (cfg : Cfg) (bundles : List Bundle) (prov : Prov) (pf : Nat) : List Blk × FSEnd :=
  if cfg.bundleSize == 0 then ([], .waiting 0) else
  runIndexed cfg bundles prov pf (2 * (bundles.length + pf) + 6) (lowBoundary cfg.start cfg.bundleSize) true cfg.whitelist "" [] none

end BstreamVerif.FileSourceSeq
