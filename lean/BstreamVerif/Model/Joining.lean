import BstreamVerif.Model.HubBurst
import BstreamVerif.Model.FileSourceSeq
import BstreamVerif.Model.Resolver
/-
Model of /repo/joiningsource.go and /repo/stream/stream.go: a stream that starts in merged files and hands
over to the live hub. The hub is the Forkable model (hold-until-LIB, kept final blocks); its growth is given
as a list of pushes tagged with the moment they happen relative to the stream's deliveries (the schedule).
-/
namespace BstreamVerif.Joining
open BstreamVerif BstreamVerif.Forkable BstreamVerif.HubBurst

inductive When where
  | before                 -- before the stream starts
  | afterDelivery (k : Nat) -- inside the user handler of delivery #k (0-based)
  | idle                   -- when the stream had nothing more to deliver
deriving DecidableEq, Repr

structure Push where
  blk  : Blk
  when_ : When
deriving Repr

structure SCfg where
  start          : Int             -- may be negative: head − |start|
  stop           : Nat             -- 0 = none
  cursor         : Option Cur
  cursorIsTarget : Bool
  finalOnly      : Bool
  customFilter   : Option Nat      -- step mask
  bundleSize     : Nat
  fsb            : Nat
  failNum        : Option Nat := none   -- the user handler fails on the block with this number (fault injection, C11)
deriving Repr

inductive SEnd where
  | stopReached            -- stream.ErrStopBlockReached
  | invalidArg
  | resolveErr             -- mapped to invalid argument by Stream.Run
  | fileErr (e : String)   -- other file-side error
  | notFound               -- "cannot run joining_source: start_block not found" (no file source)
  | stuck                  -- nothing more can be delivered and no push is left (the real stream waits)
  | handlerErr             -- the user handler's own error, returned by Run as it is
deriving DecidableEq, Repr

/-- resolveNegativeStartBlockNum + clamp to the first streamable block -/
def resolveStart (start : Int) (head fsb : Nat) : Nat :=
  let abs := if start < 0 then (if head < start.natAbs then 0 else head - start.natAbs) else start.toNat
  if abs < fsb then fsb else abs

/-- the step filter installed by createSource -/
def passesFilter (c : SCfg) (s : Step) : Bool :=
  if c.finalOnly then s.matchesMask 16
  else match c.customFilter with
    | some m => s.matchesMask m
    | none => s.matchesMask 1 || s.matchesMask 2

/-- Cursor.IsOnFinalBlock -/
def isOnFinalBlock (c : Cur) : Bool := c.block.num == c.lib.num && c.step.matchesMask 16

structure Sim where
  hub       : FState
  hubCfg    : Forkable.Config
  ready     : Bool := true
  joined    : Bool := false
  liveQ     : List Event := []           -- events waiting in the subscription channel
  fileQ     : List Event := []           -- file-side events still to come (already through the resolver)
  fileEnd   : Option SEnd := none        -- how the file side ends after fileQ
  lowest    : Nat := 0
  delivered : List Event := []
  count     : Nat := 0
  pushes    : List Push := []
  ended     : Option SEnd := none

def hubLowest (s : FState) : Nat := (lowestBlockNum s).getD 0

/-- feed one block to the hub; when the stream is subscribed it receives every event the hub produces -/
def Sim.push (m : Sim) (b : Blk) : Sim :=
  let (s', evs, _) := processBlock m.hubCfg m.hub b none
  { m with hub := s', liveQ := if m.joined then m.liveQ ++ evs else m.liveQ }

def Sim.applyPushes (m : Sim) (w : When) : Sim :=
  let (now, later) := m.pushes.partition (fun p => p.when_ == w)
  now.foldl (fun m p => m.push p.blk) { m with pushes := later }

/-- hand one raw event to filter → stop handler → user handler -/
def Sim.deliver (cfg : SCfg) (m : Sim) (e : Event) : Sim :=
  if !passesFilter cfg e.step then m
  else if cfg.stop != 0 && e.blk.num > cfg.stop then { m with ended := some .stopReached }
  else
    let k := m.count
    let m := { m with delivered := m.delivered ++ [e], count := k + 1 }
    -- the handler saw the block and failed: its error ends the stream, whatever the stop block says
    if cfg.failNum == some e.blk.num then { m with ended := some .handlerErr } else
    let m := m.applyPushes (.afterDelivery k)
    if cfg.stop != 0 && e.blk.num == cfg.stop then { m with ended := some .stopReached } else m

/-- try to obtain a live source at the current hub state -/
def liveBurst (cfg : SCfg) (m : Sim) (start : Nat) : Option (List Event) :=
  match cfg.cursor with
  | some c => if cfg.cursorIsTarget then hubThroughCursor m.hub start c else blocksFromCursor m.hub 4 c
  | none => blocksFromNum m.hub start

/-- file-side event is a block the consumer does not hold yet (after the F-C07 fix) -/
def joinable (e : Event) : Bool := e.step.matchesMask 1

def step1 (cfg : SCfg) (m : Sim) : Sim :=
  if m.joined then
    match m.liveQ with
    | e :: rest => Sim.deliver cfg { m with liveQ := rest } e
    | [] =>
      -- nothing to deliver: the hub keeps growing
      -- quiescent: the first block not yet handed to the hub arrives (whatever its tag)
      match m.pushes with
      | p :: rest => Sim.push { m with pushes := rest } p.blk
      | [] => { m with ended := some .stuck }
  else
    match m.fileQ with
    | e :: rest =>
      let m := { m with fileQ := rest }
      if e.blk.num ≥ m.lowest && joinable e then
        let burst := if cfg.cursorIsTarget then
            (match cfg.cursor with | some c => hubThroughCursor m.hub e.blk.num c | none => none)
          else blocksFromNum m.hub e.blk.num
        match burst with
        | some b => { m with joined := true, liveQ := b, fileQ := [] }        -- stopSourceOnJoin: this event is not delivered
        | none => Sim.deliver cfg { m with lowest := if m.ready then hubLowest m.hub else 0 } e
      else Sim.deliver cfg m e
    | [] =>
      match m.fileEnd with
      | some e => { m with ended := some e }
      | none =>
        -- the file source waits for a bundle that does not exist: it never joins any more; the hub may still grow
        { m with ended := some .stuck }

def simLoop (cfg : SCfg) : Nat → Sim → Sim
  | 0, m => m
  | fuel + 1, m => if m.ended.isSome then m else simLoop cfg fuel (step1 cfg m)

def mapFileEnd : FileSourceSeq.FSEnd → Option SEnd
  | .stopReached => some .stopReached
  | .nonSequential _ => some (.fileErr "nonseq")
  | .handlerErr => some (.fileErr "handler")
  | .waiting _ => none

def mapResolverErr : Resolver.RErr → SEnd
  | .resolve => .resolveErr
  | .download => .fileErr "download"
  | .notImplemented => .fileErr "notimpl"
  | .handler => .fileErr "handler"

/-- final-blocks-only with a cursor that is not on a final block -/
def cursorRejected (cfg : SCfg) : Bool :=
  cfg.finalOnly && (match cfg.cursor with | some c => !isOnFinalBlock c | none => false)

/-- the source the stream starts on: live when the hub can serve the request at once, else files (+ resolver) -/
def startBody (cfg : SCfg) (m0 : Sim) (abs : Nat) (bundles : List FileSourceSeq.Bundle)
    (forks : List Resolver.ForkFile) : Sim :=
  match liveBurst cfg m0 abs with
  | some b => { m0 with joined := true, liveQ := b }
  | none =>
    let m := { m0 with lowest := hubLowest m0.hub }
    match cfg.cursor with
    | none =>
      let (blks, fe) := FileSourceSeq.run ⟨abs, cfg.stop, cfg.bundleSize, []⟩ bundles none
      { m with fileQ := blks.map (Resolver.fileEv .newIrreversible), fileEnd := mapFileEnd fe }
    | some c =>
      let fstart := if cfg.cursorIsTarget then abs else c.lib.num
      let (blks, fe) := FileSourceSeq.run ⟨fstart, cfg.stop, cfg.bundleSize, []⟩ bundles none
      let (evs, re) := Resolver.run forks c cfg.cursorIsTarget blks
      { m with fileQ := evs, fileEnd := match re with | some e => some (mapResolverErr e) | none => mapFileEnd fe }

/-- the hub as the stream finds it, and the resolved absolute start -/
def hubAtStart (hubCfg : Forkable.Config) (pushes : List Push) : Sim :=
  ({ hub := Forkable.init hubCfg, hubCfg := hubCfg, pushes := pushes } : Sim).applyPushes .before

def absStart (cfg : SCfg) (hubCfg : Forkable.Config) (pushes : List Push) : Nat :=
  resolveStart cfg.start (headNum (hubAtStart hubCfg pushes).hub) cfg.fsb

/-- the state in which the simulation starts: `none` = the options are rejected (invalid argument) -/
def startSim (cfg : SCfg) (hubCfg : Forkable.Config) (bundles : List FileSourceSeq.Bundle)
    (forks : List Resolver.ForkFile) (pushes : List Push) : Option Sim :=
  if cfg.stop > 0 && absStart cfg hubCfg pushes > cfg.stop then none
  else if cursorRejected cfg then none
  else some (startBody cfg (hubAtStart hubCfg pushes) (absStart cfg hubCfg pushes) bundles forks)

/-- the simulation state in which Stream.Run ends (`none`: the options were rejected) -/
def runStreamFinal (cfg : SCfg) (hubCfg : Forkable.Config) (bundles : List FileSourceSeq.Bundle)
    (forks : List Resolver.ForkFile) (pushes : List Push) : Option Sim :=
  match startSim cfg hubCfg bundles forks pushes with
  | none => none
  | some m1 =>
    let fuel := 4 * (pushes.length + (bundles.flatMap (·.blocks)).length + 10) + 50
    some (simLoop cfg fuel m1)

/-- Stream.Run over the given stores, hub configuration and schedule of hub pushes -/
def runStream (cfg : SCfg) (hubCfg : Forkable.Config) (bundles : List FileSourceSeq.Bundle)
    (forks : List Resolver.ForkFile) (pushes : List Push) : List Event × SEnd :=
  match startSim cfg hubCfg bundles forks pushes with
  | none => ([], .invalidArg)
  | some m1 =>
    let fuel := 4 * (pushes.length + (bundles.flatMap (·.blocks)).length + 10) + 50
    let mf := simLoop cfg fuel m1
    (mf.delivered, mf.ended.getD .stuck)

end BstreamVerif.Joining
