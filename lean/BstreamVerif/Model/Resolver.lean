import BstreamVerif.Basic.Types
import BstreamVerif.Model.HubBurst
/-
Model of /repo/cursor_resolver.go: the handler that a FileSource started from a cursor wraps around the
user's handler. Input: the canonical (final) blocks coming out of the merged files in order; the forked-blocks
store as a list of one-block files. Ids in file names are truncated to their last 16 characters.
-/
namespace BstreamVerif.Resolver
open BstreamVerif
open BstreamVerif.HubBurst (Cur)

def trunc16 (s : Id) : Id := if s.length ≤ 16 then s else (s.drop (s.length - 16)).toString

/-- a one-block file of the forked-blocks store: parsed name + whether its content can be downloaded -/
structure ForkFile where
  num     : Nat
  id      : Id            -- truncated
  prev    : Id            -- truncated
  blk     : Blk           -- the block stored in it
  readable : Bool         -- download + decode succeeds
deriving Repr, Inhabited

inductive RErr where
  | resolve               -- ErrResolveCursor
  | download              -- "downloading one-block-file"
  | notImplemented        -- old cursor in pass-through mode
  | handler
deriving DecidableEq, Repr

structure RState where
  seen     : List Blk := []       -- mergedBlocksSeen
  resolved : Bool := false
deriving Repr, Inhabited

/-- file event: cursor head = lib = block itself -/
def fileEv (step : Step) (b : Blk) : Event := ⟨step, b, b.ref, b.ref, none, 0, 0⟩

def sendBetween (step : Step) (seen : List Blk) (exclLow inclHigh : Nat) : List Event :=
  (seen.filter (fun b => b.num > exclLow && b.num ≤ inclHigh)).map (fileEv step)

def hasSuffix (s suf : Id) : Bool := s.endsWith suf

/-- seenIrreversible(id): first seen merged block whose id ends with `id` -/
def seenIrr (seen : List Blk) (id : Id) : Option Blk := seen.find? (fun b => hasSuffix b.id id)

/-- oneBlocks(): files at or after the cursor LIB number, keyed by truncated id (later names win) -/
def lookupFork (files : List ForkFile) (libNum : Nat) (id : Id) : Option ForkFile :=
  ((files.filter (fun f => f.num ≥ libNum)).reverse).find? (fun f => f.id == id)

/-- resolve(): (undo blocks newest first, junction) -/
def resolve (files : List ForkFile) (seen : List Blk) (c : Cur) : Nat → Id → List Blk → Except RErr (List Blk × Blk)
  | 0, _, _ => .error .resolve
  | fuel + 1, prevID, acc =>
    match seenIrr seen prevID with
    | some j => .ok (acc, j)
    | none =>
      match lookupFork files c.lib.num prevID with
      | none => .error .resolve
      | some f =>
        if f.num < c.lib.num then .error .resolve
        else if f.num == c.block.num && c.step == .undo then resolve files seen c fuel f.prev acc
        else if !f.readable then .error .download
        else resolve files seen c fuel f.prev (acc ++ [f.blk])

/-- cursorResolver.ProcessBlock for one incoming (new+irreversible) file block; handler never fails here -/
def processBlock (files : List ForkFile) (c : Cur) (passThrough : Bool) (s : RState) (b : Blk) :
    RState × List Event × Option RErr :=
  if s.resolved then (s, [fileEv .newIrreversible b], none)
  else if passThrough && b.num ≤ c.lib.num then (s, [fileEv .newIrreversible b], none)
  else
    let seen := s.seen ++ [b]
    if b.num < c.block.num then ({ s with seen := seen }, [], none)
    else if b.id == c.block.id then
      let s' : RState := { seen := seen, resolved := true }
      if passThrough then (s', sendBetween .newIrreversible seen c.lib.num c.block.num, none)
      else if c.step == .undo then
        (s', (if c.block.num > 0 then sendBetween .irreversible seen c.lib.num (c.block.num - 1) else []) ++
             [fileEv .newIrreversible b], none)
      else (s', sendBetween .irreversible seen c.lib.num c.block.num, none)
    else if passThrough then ({ s with seen := seen }, [], some .notImplemented)
    else
      match resolve files seen c (files.length + 2) (trunc16 c.block.id) [] with
      | .error e => ({ s with seen := seen }, [], some e)
      | .ok (undos, j) =>
        let undoEvs := undos.map (fun u => (⟨.undo, u, c.head, c.lib, some j.ref, 0, 0⟩ : Event))
        ({ seen := seen, resolved := true },
          undoEvs ++ sendBetween .irreversible seen c.lib.num j.num ++ sendBetween .newIrreversible seen j.num b.num, none)

/-- the whole resumption: canonical blocks (as delivered by the file source from cursor.LIB.Num on) through the resolver -/
def run (files : List ForkFile) (c : Cur) (passThrough : Bool) (canon : List Blk) : List Event × Option RErr :=
  let rec go (s : RState) (acc : List Event) : List Blk → List Event × Option RErr
    | [] => (acc, none)
    | b :: rest =>
      let (s', evs, e) := processBlock files c passThrough s b
      match e with
      | some e => (acc ++ evs, some e)
      | none => go s' (acc ++ evs) rest
  go {} [] canon

/-- the same with a user handler that fails on its call number `k` (0-based): the failing call is the last one and
    the handler's error is what the source reports (every `ProcessBlock` of the resolver returns the handler's error
    at once) -/
def runFailing (files : List ForkFile) (c : Cur) (passThrough : Bool) (canon : List Blk) (failAt : Option Nat) :
    List Event × Option RErr :=
  match failAt with
  | some k =>
    if k < (run files c passThrough canon).1.length then ((run files c passThrough canon).1.take (k + 1), some .handler)
    else run files c passThrough canon
  | none => run files c passThrough canon

end BstreamVerif.Resolver
