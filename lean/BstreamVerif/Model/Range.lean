/-
Model of /repo/range.go (bstream.Range), over UInt64 because C19 is *about* the numeric limits.
Every function follows the Go method of the same name statement by statement.
Core-only imports: this file is compiled into the native driver.
-/
namespace BstreamVerif.Range

structure Range where
  start : UInt64
  stop  : Option UInt64      -- endBlock (*uint64, nil = open ended)
  exS   : Bool               -- exclusiveStartBlock
  exE   : Bool               -- exclusiveEndBlock
deriving DecidableEq, Repr, Inhabited

/-- `newRange`: rejects `end ≤ start`. -/
def newRange (s : UInt64) (e : Option UInt64) (exS exE : Bool) : Option Range :=
  match e with
  | some ev => if ev ≤ s then none else some ⟨s, some ev, exS, exE⟩
  | none    => some ⟨s, none, exS, exE⟩

def contains (r : Range) (n : UInt64) : Bool :=
  if n < r.start then false
  else if r.exS && n == r.start then false
  else match r.stop with
    | none   => true
    | some e =>
      if n > e then false
      else if r.exE && n == e then false
      else true

def reachedEnd (r : Range) (n : UInt64) : Bool :=
  match r.stop with
  | none   => false
  | some e =>
    if n ≥ e then true
    else if r.exE && n == e - 1 then true
    else false

def next (r : Range) (size : UInt64) : Range :=
  match r.stop with
  | none   => { start := r.start + size, stop := none, exS := r.exS, exE := r.exE }
  | some e => { start := e, stop := some (e + size), exS := r.exS, exE := r.exE }

def previous (r : Range) (size : UInt64) : Range :=
  match r.stop with
  | none   => { start := r.start - size, stop := none, exS := r.exS, exE := r.exE }
  | some _ => { start := r.start - size, stop := some r.start, exS := r.exS, exE := r.exE }

/-- `Equals` (after the fix: end blocks are compared by value). -/
def equals (a b : Range) : Bool :=
  a.start == b.start && a.stop == b.stop && a.exS == b.exS && a.exE == b.exE

def isNext (r nx : Range) (size : UInt64) : Bool := equals (next r size) nx

/-- `Size`: `none` = ErrOpenEndedRange. -/
def size (r : Range) : Option UInt64 := r.stop.map (· - r.start)

/-- `NewRangeContaining`. `none` = error (size 0) ; the inner NewInclusiveRange panics when
    `start+size` wraps to ≤ start: reported as `some none`. -/
def rangeContaining (n sz : UInt64) : Option (Option Range) :=
  if sz == 0 then none
  else
    let s := n - n % sz
    some (newRange s (some (s + sz)) false false)

/-- The loop of `Split` (after the overflow fix). `cs`/`ce` = currentStart/currentEnd. -/
def splitLoop (exS exE : Bool) (e c : UInt64) (hc : 0 < c) (cs ce : UInt64) : List Range :=
  ⟨cs, some ce, exS, exE⟩ ::
    if h : ce ≥ e then []
    else
      splitLoop exS exE e c hc ce (if e - ce ≤ c then e else ce + c)
termination_by (e - ce).toNat
decreasing_by
  have hlt : ce < e := by
    simp only [ge_iff_le, UInt64.le_iff_toNat_le, Nat.not_le] at h
    exact UInt64.lt_iff_toNat_lt.mpr h
  simp only [UInt64.lt_iff_toNat_lt, UInt64.le_iff_toNat_le] at *
  split
  · simp only [UInt64.sub_self, UInt64.toNat_zero]
    rw [UInt64.toNat_sub_of_le _ _ (by simpa [UInt64.le_iff_toNat_le] using Nat.le_of_lt hlt)]
    omega
  · rename_i hgt
    have h1 : (e - ce).toNat = e.toNat - ce.toNat :=
      UInt64.toNat_sub_of_le _ _ (by simpa [UInt64.le_iff_toNat_le] using Nat.le_of_lt hlt)
    rw [h1] at hgt
    have hadd : (ce + c).toNat = ce.toNat + c.toNat := by
      rw [UInt64.toNat_add]; apply Nat.mod_eq_of_lt
      have := e.toNat_lt; omega
    have hle : ce + c ≤ e := by simp only [UInt64.le_iff_toNat_le, hadd]; omega
    rw [UInt64.toNat_sub_of_le _ _ hle, hadd, h1]
    simp only [UInt64.toNat_zero] at hc
    omega

inductive SplitResult where
  | ok (chunks : List Range)
  | openEnded                    -- ErrOpenEndedRange
  | panic                        -- integer divide by zero (chunkSize = 0)
deriving DecidableEq, Repr

def split (r : Range) (c : UInt64) : SplitResult :=
  match r.stop with
  | none   => .openEnded
  | some e =>
    if e - r.start ≤ c then .ok [r]
    else if hc : 0 < c then
      let ce := (r.start + c) - (r.start + c) % c
      .ok (splitLoop r.exS r.exE e c hc r.start ce)
    else .panic

/-! ### ParseRange (byte level; see DESIGN §6 C19 for why bytes are exact) -/

def isSep (b : UInt8) : Bool := b == 58 || b == 45            -- ':' '-'

def isAlnum (b : UInt8) : Bool :=
  (48 ≤ b && b ≤ 57) || (65 ≤ b && b ≤ 90) || (97 ≤ b && b ≤ 122)

/-- strings.FieldsFunc(in, splitBy) -/
def fields (bs : List UInt8) : List (List UInt8) :=
  let rec go (bs : List UInt8) (cur : List UInt8) (acc : List (List UInt8)) : List (List UInt8) :=
    match bs with
    | [] => (if cur.isEmpty then acc else cur.reverse :: acc).reverse
    | b :: rest =>
      if isSep b then go rest [] (if cur.isEmpty then acc else cur.reverse :: acc)
      else go rest (b :: cur) acc
  go bs [] []

/-- strconv.ParseInt(s, 10, 64) restricted to inputs made of [a-zA-Z0-9]: digits only, non-empty,
    value ≤ 2^63-1. -/
def parseInt63 (s : List UInt8) : Option Nat :=
  if s.isEmpty then none
  else if s.all (fun b => 48 ≤ b && b ≤ 57) then
    let v := s.foldl (fun acc b => acc * 10 + (b.toNat - 48)) 0
    if v < 2 ^ 63 then some v else none
  else none

inductive ParseResult where
  | ok (r : Range)
  | err (cls : String)
  | panic
deriving DecidableEq, Repr

/-- the part of `ParseRange` after the fields were cleaned: `ch[0]`, `ch[1]` -/
def parseBounds : List (List UInt8) → ParseResult
  | lo :: hi :: _ =>
    match parseInt63 lo with
    | none => .err "start"
    | some l =>
      match parseInt63 hi with
      | none => .err "stop"
      | some h =>
        match newRange (UInt64.ofNat l) (some (UInt64.ofNat h)) false false with
        | some r => .ok r
        | none => .err "making"
  | _ => .err "bounds"          -- after the fix; before it: index out of range → panic

/-- `ParseRange(in)` without options (after the fix: a missing bound is an error). -/
def parseRange (inp : List UInt8) : ParseResult :=
  if inp.isEmpty then .err "required"
  else parseBounds ((fields inp).map (fun f => f.filter isAlnum))

end BstreamVerif.Range
