/-
Model of /repo/transform/block_indexer.go (BlockIndexer.Add / writeIndex), block_index.go (key → bitmap)
and block_index_provider.go (GenericBlockIndexProvider.BlocksInRange). Roaring bitmaps are finite sets,
represented as strictly ascending lists; index files are records keyed by (size, low).
-/
namespace BstreamVerif.Index

abbrev Key := String
abbrev Bitmap := List Nat          -- strictly ascending

def bmInsert (n : Nat) : Bitmap → Bitmap
  | [] => [n]
  | x :: xs => if n < x then n :: x :: xs else if n == x then x :: xs else x :: bmInsert n xs

def bmUnion (a b : Bitmap) : Bitmap := a.foldl (fun acc n => bmInsert n acc) b

abbrev KV := List (Key × Bitmap)

/-- `kv[k]` (empty bitmap when absent) -/
def kvGet : KV → Key → Bitmap
  | [], _ => []
  | (k', bm) :: rest, k => if k' == k then bm else kvGet rest k

/-- blockIndex.add(key, n) -/
def kvAdd : KV → Key → Nat → KV
  | [], k, n => [(k, [n])]
  | (k', bm) :: rest, k, n => if k' == k then (k', bmInsert n bm) :: rest else (k', bm) :: kvAdd rest k n

structure IndexFile where
  low  : Nat
  size : Nat
  kv   : KV
deriving Repr

def lowBoundary (i m : Nat) : Nat := i - i % m

structure Indexer where
  size : Nat
  fsb : Nat
  definedStart : Option Nat
  cur : Option (Nat × KV)            -- currentIndex: (lowBlockNum, kv)
  written : List IndexFile           -- files in the store, first write wins (MockStore without overwrite)
deriving Repr

def Indexer.write (ix : Indexer) (low : Nat) (kv : KV) : Indexer :=
  if ix.written.any (fun f => f.low == low) then ix
  else { ix with written := ix.written ++ [⟨low, ix.size, kv⟩] }

/-- BlockIndexer.Add(keys, blockNum) -/
def Indexer.add (ix : Indexer) (keys : List Key) (n : Nat) : Indexer :=
  -- init lower bound
  let ix1? : Option Indexer := match ix.cur with
    | some _ => some ix
    | none =>
      if n % ix.size == 0 then some { ix with cur := some (n, []) }
      else if n == ix.fsb then some { ix with cur := some (lowBoundary n ix.size, []) }
      else match ix.definedStart with
        | some s => some { ix with cur := some (s, []) }
        | none => none
  match ix1? with
  | none => ix                                    -- "couldn't determine boundary for block": dropped
  | some ix1 =>
    match ix1.cur with
    | none => ix1
    | some (low, kv) =>
      -- upper bound reached: write and start the index containing n
      let (ix2, low2, kv2) :=
        if n ≥ low + ix1.size then (ix1.write low kv, lowBoundary n ix1.size, ([] : KV)) else (ix1, low, kv)
      { ix2 with cur := some (low2, keys.foldl (fun acc k => kvAdd acc k n) kv2) }

/-! ### provider -/

structure Provider where
  sizes : List Nat                   -- possibleIndexSizes
  fsb : Nat
  loadedLow : Nat := 0
  loadedHigh : Nat := 0
  matching : Bitmap := []
deriving Repr

/-- findIndexContaining -/
def findIndex (files : List IndexFile) (sizes : List Nat) (blockNum bundle : Nat) : Option IndexFile :=
  sizes.findSome? (fun size =>
    if size < bundle then none
    else files.find? (fun f => f.size == size && f.low == lowBoundary blockNum size))

/-- the user filter, here: union of the bitmaps of the keys accepted by `want` -/
def matchingOf (want : Key → Bool) (f : IndexFile) : Bitmap :=
  (f.kv.filter (fun p => want p.1)).foldl (fun acc p => bmUnion p.2 acc) []

/-- the scan of BlocksInRange over the (ascending) matching blocks -/
def scan (lo hi : Nat) : Bitmap → List Nat
  | [] => []
  | b :: rest => if b < lo then scan lo hi rest else if b ≥ hi then [] else b :: scan lo hi rest

/-- BlocksInRange(base, bundle): (provider', result); `none` = error -/
def blocksInRange (files : List IndexFile) (want : Key → Bool) (p : Provider) (base bundle : Nat) :
    Provider × Option (List Nat) :=
  if bundle == 0 then (p, none)                                -- integer divide by zero in Go; callers pass > 0
  else if base % bundle != 0 then (p, none)
  else
    let p'? : Option Provider :=
      if base ≥ p.loadedLow && base + bundle ≤ p.loadedHigh then some p
      else match findIndex files p.sizes base bundle with
        | none => none
        | some f => some { p with matching := matchingOf want f, loadedLow := f.low, loadedHigh := f.low + f.size }
    match p'? with
    | none => (p, none)
    | some p' => (p', some (scan (max base p.fsb) (base + bundle) p'.matching))

end BstreamVerif.Index
