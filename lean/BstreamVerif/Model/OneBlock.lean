import BstreamVerif.Model.Cursor
/-
Model of /repo/oneblockfile.go: BlockFileNameWithSuffix, TruncateBlockID, ParseFilename (byte level), and
the file selection of FetchBlockFromOneBlockStore (/repo/single_block_fetcher.go, oneblock_source.go).
Decimal printing/parsing is shared with the cursor model.
-/
namespace BstreamVerif.OneBlock
open BstreamVerif.Cursor (Bytes showNat parseUint64)

def dash : UInt8 := 45

/-- strings.Split(s, "-") -/
def splitDash : Bytes → List Bytes
  | [] => [[]]
  | b :: rest =>
    if b == dash then [] :: splitDash rest
    else match splitDash rest with
      | p :: ps => (b :: p) :: ps
      | [] => [[b]]

def joinDash : List Bytes → Bytes
  | [] => []
  | [p] => p
  | p :: q :: r => p ++ dash :: joinDash (q :: r)

/-- `%010d` -/
def pad10 (n : Nat) : Bytes :=
  let d := showNat n
  List.replicate (10 - d.length) 48 ++ d

/-- TruncateBlockID: the last 16 bytes -/
def trunc16 (s : Bytes) : Bytes := if s.length ≤ 16 then s else s.drop (s.length - 16)

structure NameParts where
  num : Nat
  id : Bytes
  parent : Bytes
  lib : Nat
deriving DecidableEq, Repr

/-- BlockFileNameWithSuffix -/
def fileName (b : NameParts) (suffix : Bytes) : Bytes :=
  joinDash [pad10 b.num, trunc16 b.id, trunc16 b.parent, showNat b.lib, suffix]

structure Parsed where
  parts : NameParts
  canonical : Bytes
deriving DecidableEq, Repr

/-- ParseFilename (after the fix: 64-bit numbers); `none` = error -/
def parseFilename (name : Bytes) : Option Parsed :=
  match splitDash name with
  | [p0, p1, p2, p3, _] =>
    match parseUint64 p0, parseUint64 p3 with
    | some n, some l => some ⟨⟨n, p1, p2, l⟩, joinDash [p0, p1, p2, p3]⟩
    | _, _ => none
  | _ => none

/-- strings.HasSuffix -/
def hasSuffix (s suf : Bytes) : Bool := suf.length ≤ s.length && s.drop (s.length - suf.length) == suf

/-- byte-wise lexicographic order of file names (the store walks names in sorted order) -/
def bytesLt : Bytes → Bytes → Bool
  | [], [] => false
  | [], _ :: _ => true
  | _ :: _, [] => false
  | a :: as, b :: bs => if a < b then true else if a > b then false else bytesLt as bs

/-- listOneBlocks(from, to): names ≥ the 10-digit `from` prefix in walk order, parseable, stopping at the
    first parsed number > to (to = 0: no upper limit) -/
def listOneBlocks (names : List Bytes) (from_ to : Nat) : List Parsed :=
  let start := pad10 from_
  let rec go : List Bytes → List Parsed
    | [] => []
    | n :: rest =>
      match parseFilename n with
      | none => go rest
      | some p => if to != 0 && p.parts.num > to then [] else p :: go rest
  go (names.filter (fun n => !bytesLt n start))

/-- FetchBlockFromOneBlockStore: the chosen file's parsed name (its canonical name identifies it), or not-found -/
def fetchChoice (names : List Bytes) (num : Nat) (id : Bytes) : Option Parsed :=
  (listOneBlocks names num (num + 1)).find? (fun p => hasSuffix id p.parts.id)

end BstreamVerif.OneBlock
