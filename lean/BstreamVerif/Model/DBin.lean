/-
Model of the dbin framing as used by /repo/writer.go (DBinBlockWriter) and /repo/reader.go
(DBinBlockReader.Read + readMessage), at byte level. `dbin.Reader`'s io.ReadFull behaviour (a short read
returns the buffer zero-padded plus an error) is modelled by `readN`. Protobuf marshalling of a Block is an
abstract codec (parameter `dec`).
-/
namespace BstreamVerif.DBin

abbrev Bytes := List UInt8

def magic : Bytes := [100, 98, 105, 110]          -- "dbin"

def be16 (n : Nat) : Bytes := [UInt8.ofNat (n / 256 % 256), UInt8.ofNat (n % 256)]
def be32 (n : Nat) : Bytes :=
  [UInt8.ofNat (n / 16777216 % 256), UInt8.ofNat (n / 65536 % 256), UInt8.ofNat (n / 256 % 256), UInt8.ofNat (n % 256)]

def unbe (bs : Bytes) : Nat := bs.foldl (fun acc b => acc * 256 + b.toNat) 0

/-- dbin.Writer.WriteHeader (version 1); `none` = error (empty or too long content type) -/
def writeHeader (ct : Bytes) : Option Bytes :=
  if ct.length == 0 || ct.length > 65535 then none
  else some (magic ++ [1] ++ be16 ct.length ++ ct)

/-- dbin.Writer.WriteMessage: uint32 length prefix (wraps for ≥ 4 GiB) + message -/
def writeMessage (m : Bytes) : Bytes := be32 (m.length % 4294967296) ++ m

def frames (msgs : List Bytes) : Bytes := msgs.flatMap writeMessage

/-- DBinBlockWriter: header from the first block's payload type URL, then one message per block -/
def writeAll (ct : Bytes) (msgs : List Bytes) : Option Bytes :=
  match msgs with
  | [] => some []                       -- nothing written at all
  | _ => (writeHeader ct).map (· ++ frames msgs)

inductive RStat where
  | full | eof | short                  -- io.ReadFull: nil | io.EOF (nothing read) | io.ErrUnexpectedEOF
deriving DecidableEq, Repr

/-- readBytes(n): (bytes actually read, rest, status); the Go buffer is these bytes zero-padded to n -/
def readN (n : Nat) (bs : Bytes) : Bytes × Bytes × RStat :=
  if n == 0 then ([], bs, .full)
  else if n ≤ bs.length then (bs.take n, bs.drop n, .full)
  else if bs.isEmpty then ([], [], .eof)
  else (bs, [], .short)

def pad (n : Nat) (bs : Bytes) : Bytes := bs ++ List.replicate (n - bs.length) 0

inductive HeaderRes where
  | ok (ct : Bytes) (rest : Bytes)
  | err
deriving DecidableEq, Repr

/-- dbin.Reader.ReadHeader (versions 0 and 1) -/
def readHeader (bs : Bytes) : HeaderRes :=
  let (p, r1, s1) := readN 5 bs
  if s1 != .full then .err
  else if p.take 4 != magic then .err
  else
    let ver := (p.getD 4 0)
    if ver == 0 then
      let (ct, r2, s2) := readN 3 r1
      if s2 != .full then .err else
      let (_, r3, s3) := readN 2 r2
      if s3 != .full then .err else .ok ct r3
    else if ver == 1 then
      let (lb, r2, s2) := readN 2 r1
      if s2 != .full then .err else
      let (ct, r3, s3) := readN (unbe lb) r2
      if s3 != .full then .err else .ok ct r3
    else .err

inductive MsgRes where
  | msg (m : Bytes) (rest : Bytes)     -- a complete message: handed to the decoder
  | eof                                -- clean end of file
  | err                                -- "failed reading next dbin message"
deriving DecidableEq, Repr

/-- dbin.Reader.ReadMessage followed by the decision of bstream's readMessage (after the fix) -/
def nextMessage (bs : Bytes) : MsgRes :=
  let (lb, r1, s1) := readN 4 bs
  if s1 == .eof then .eof                              -- (nil, io.EOF): len 0 and EOF
  else
    let length := unbe (pad 4 lb)
    if length == 0 then
      (if s1 == .full then .msg [] r1 else .err)        -- ([]byte{}, err of the length read)
    else
      let (mb, r2, s2) := readN length r1
      if s1 == .full && s2 == .full then .msg mb r2 else .err

inductive End where
  | eof | errHeader | errRead | errDecode
deriving DecidableEq, Repr

/-- Read() in a loop until EOF or the first error; `dec` = proto.Unmarshal + supportLegacy -/
def readMsgs {α : Type} (dec : Bytes → Option α) : Nat → Bytes → List α × End
  | 0, _ => ([], .errRead)
  | fuel + 1, bs =>
    match nextMessage bs with
    | .eof => ([], .eof)
    | .err => ([], .errRead)
    | .msg m rest =>
      match dec m with
      | none => ([], .errDecode)
      | some a => let r := readMsgs dec fuel rest; (a :: r.1, r.2)

def readAll {α : Type} (dec : Bytes → Option α) (file : Bytes) : Bytes × List α × End :=
  match readHeader file with
  | .err => ([], [], .errHeader)
  | .ok ct rest => let r := readMsgs dec (rest.length + 1) rest; (ct, r.1, r.2)

/-! ### legacy upgrade (supportLegacy) on the decoded summary of a block -/

structure BlockSum where
  id : Bytes
  num : Nat
  parent : Bytes
  parentNum : Nat
  lib : Nat
  hasPayload : Bool
  typeUrl : Bytes
  value : Bytes
  kind : Int             -- PayloadKind (legacy; an int32 enum on the wire: a damaged file can carry a negative value)
  buffer : Bytes         -- PayloadBuffer (legacy)
  ts : String            -- timestamp, passed through
deriving DecidableEq, Repr

def strBytes (s : String) : Bytes := s.toUTF8.toList

/-- `none` = "old block format … not supported" -/
def upgradeLegacy (fsb : Nat) (b : BlockSum) : Option BlockSum :=
  if b.hasPayload then some b
  else
    let url? : Option Bytes := match b.kind with
      | 1 => some (strBytes "type.googleapis.com/sf.antelope.type.v1.Block")
      | 2 => some (strBytes "type.googleapis.com/sf.ethereum.type.v2.Block")
      | 3 => none        -- SOLANA (env var not set in the harness)
      | 4 => none        -- NEAR
      | 5 => some (strBytes "type.googleapis.com/sf.cosmos.type.v1.Block")
      | _ => some []
    match url? with
    | none => none
    | some url =>
      some { b with hasPayload := true, typeUrl := url, value := b.buffer,
                    parentNum := if b.num > fsb then b.num - 1 else b.parentNum }

end BstreamVerif.DBin
