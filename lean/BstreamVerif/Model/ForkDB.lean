import BstreamVerif.Basic.Types
/-
Model of /repo/forkable/forkdb.go. The three Go maps links/nums/objects are one list of entries keyed by
block id (AddLink always stores an object in this code base), plus the extra `nums` entry written by
InitLIB (`initNum`), which has no link and no object and is dropped by the first purge.
Map iteration order is canonicalised (sorted) wherever the code's output depends on it.
-/
namespace BstreamVerif.ForkDB
open BstreamVerif

structure Entry where
  blk  : Blk
  sent : Bool              -- ForkableBlock.sentAsNew
deriving DecidableEq, Repr, Inhabited

structure DB where
  entries : List Entry     -- insertion order; keys (blk.id) are unique
  libRef  : Ref            -- Ref.empty = BlockRefEmpty
  initNum : Option (Id × Nat)
deriving Repr, Inhabited

def DB.empty : DB := ⟨[], Ref.empty, none⟩

def DB.find (db : DB) (id : Id) : Option Entry := db.entries.find? (fun e => e.blk.id == id)

/-- `links[id]` (zero value "" when absent) -/
def DB.link (db : DB) (id : Id) : Id := match db.find id with | some e => e.blk.parent | none => ""

/-- `nums[id]` with the comma-ok flag -/
def DB.numOf? (db : DB) (id : Id) : Option Nat :=
  match db.find id with
  | some e => some e.blk.num
  | none => match db.initNum with
    | some (i, n) => if i == id then some n else none
    | none => none

def DB.numOf (db : DB) (id : Id) : Nat := (db.numOf? id).getD 0

def DB.hasLIB (db : DB) : Bool := !(db.libRef.id == "" && db.libRef.num == 0)

def DB.initLIB (db : DB) (r : Ref) : DB := { db with libRef := r, initNum := some (r.id, r.num) }

/-- `Exists`: links[id] != "" -/
def DB.existsLink (db : DB) (id : Id) : Bool := db.link id != ""

/-- AddLink: returns (db', exists). A block whose stored parent is "" does not count as existing and is
    overwritten (new object, sentAsNew = false). -/
def DB.addLink (db : DB) (b : Blk) : DB × Bool :=
  if b.id == b.parent || b.id == "" then (db, false)
  else if db.link b.id != "" then (db, true)
  else
    let e : Entry := ⟨b, false⟩
    match db.find b.id with
    | some _ => ({ db with entries := db.entries.map (fun x => if x.blk.id == b.id then e else x) }, false)
    | none => ({ db with entries := db.entries ++ [e] }, false)

/-- BlockInCurrentChain(start, num); fuel = number of entries + 1 (never exhausted on acyclic links) -/
def DB.blockInChainAux (db : DB) (target : Nat) : Nat → Id → Nat → Ref
  | 0, _, _ => Ref.empty
  | fuel + 1, cur, _curNum =>
    let prev := db.link cur
    match db.numOf? prev with
    | none => Ref.empty
    | some prevNum =>
      if prevNum == target then ⟨prev, prevNum⟩
      else if prevNum < target then ⟨cur, target⟩
      else db.blockInChainAux target fuel prev prevNum

def DB.blockInChain (db : DB) (start : Ref) (target : Nat) : Ref :=
  if start.num == target then start
  else db.blockInChainAux target (db.entries.length + 1) start.id start.num

/-- ReversibleSegment(start) with fsb = GetProtocolFirstStreamableBlock: (blocks oldest first, reachLIB).
    `none` for blocks = Go's nil slice (unlinkable / passed the LIB). -/
def DB.revSegAux (db : DB) (fsb : Nat) : Nat → Id → Nat → List Entry → Option (List Entry) × Bool
  | 0, _, _, _ => (none, false)                                   -- loop detected
  | fuel + 1, cur, curNum, acc =>
    if curNum > fsb && curNum < db.libRef.num then (none, false)
    else if cur == db.libRef.id then (some acc, true)
    else match db.find cur with
      | none => if db.hasLIB then (none, false) else (some acc, false)
      | some e => db.revSegAux fsb fuel e.blk.parent (db.numOf e.blk.parent) (⟨{ e.blk with num := curNum }, e.sent⟩ :: acc)

def DB.reversibleSegment (db : DB) (fsb : Nat) (start : Ref) : Option (List Entry) × Bool :=
  db.revSegAux fsb (db.entries.length + 1) start.id start.num []

/-- CompleteSegment(start): keeps going past the LIB until a block has no entry -/
def DB.complSegAux (db : DB) : Nat → Id → Nat → Bool → List Entry → Option (List Entry) × Bool
  | 0, _, _, _, _ => (none, false)
  | fuel + 1, cur, curNum, reach, acc =>
    let reach := reach || cur == db.libRef.id
    match db.find cur with
    | none => (some acc, reach)
    | some e => db.complSegAux fuel e.blk.parent (db.numOf e.blk.parent) reach (⟨{ e.blk with num := curNum }, e.sent⟩ :: acc)

def DB.completeSegment (db : DB) (start : Ref) : Option (List Entry) × Bool :=
  db.complSegAux (db.entries.length + 1) start.id start.num false []

/-- ids from `cur` down the parent links until a link is "" (the undo walk of ChainSwitchSegments) -/
def DB.walkDown (db : DB) : Nat → Id → List Id
  | 0, _ => []
  | fuel + 1, cur =>
    let prev := db.link cur
    if prev == "" then [cur] else cur :: db.walkDown fuel prev

/-- the redo walk: from newHeadsPreviousID down to the first id seen by the undo walk -/
def DB.redoWalk (db : DB) (seen : List Id) : Nat → Id → List Id → Option (List Id × Id)
  | 0, _, _ => none
  | fuel + 1, cur, acc =>
    if seen.contains cur then some (acc, cur)        -- acc is already oldest-first
    else
      let prev := db.link cur
      if prev == "" then none else db.redoWalk seen fuel prev (cur :: acc)

/-- ChainSwitchSegments(oldHead, newHeadsPrevious): (undo newest first, redo oldest first, junction);
    `none` = (nil, nil, "") -/
def DB.chainSwitchSegments (db : DB) (oldHead newPrev : Id) : Option (List Id × List Id × Id) :=
  let fuel := db.entries.length + 2
  let undoChain := db.walkDown fuel oldHead
  match db.redoWalk undoChain fuel newPrev [] with
  | none => none
  | some (redo, junction) => some (undoChain.takeWhile (· != junction), redo, junction)

/-- stalledInSegment: entries not in the segment whose number lies in [first, last]; sorted by id -/
def insertById (e : Entry) : List Entry → List Entry
  | [] => [e]
  | x :: xs => if e.blk.id < x.blk.id then e :: x :: xs else x :: insertById e xs

def sortById (l : List Entry) : List Entry := l.foldr insertById []

def DB.stalledInSegment (db : DB) (seg : List Entry) : List Entry :=
  if db.libRef.id == "" then [] else
  match seg.head?, seg.getLast? with
  | some f, some l =>
    sortById (db.entries.filter (fun e =>
      !(seg.any (fun s => s.blk.id == e.blk.id)) && e.blk.num ≥ f.blk.num && e.blk.num ≤ l.blk.num))
  | _, _ => []

/-- HasNewIrreversibleSegment(newLIB) -/
def DB.hasNewIrreversibleSegment (db : DB) (fsb : Nat) (newLIB : Ref) : Bool × List Entry × List Entry :=
  if db.libRef.id == newLIB.id then (false, [], [])
  else
    match (db.reversibleSegment fsb newLIB).1 with
    | none | some [] => (false, [], [])
    | some seg => (true, seg, db.stalledInSegment seg)

def DB.moveLIB (db : DB) (r : Ref) : DB := { db with libRef := r }

/-- PurgeBeforeLIB(kept): nums is rebuilt from links only, so the InitLIB entry disappears -/
def DB.purgeBeforeLIB (db : DB) (kept : Nat) : DB :=
  let cutoff := db.libRef.num - kept
  { db with entries := db.entries.filter (fun e => e.blk.num ≥ cutoff), initNum := none }

/-- SetLIB(head, libNum) -/
def DB.setLIB (db : DB) (fsb : Nat) (head : Ref) (libNum : Nat) : DB :=
  if head.num == fsb then { db with libRef := head }
  else
    let r := db.blockInChain head libNum
    if r.id == "" then db else db.moveLIB r

def DB.markSent (db : DB) (id : Id) : DB :=
  { db with entries := db.entries.map (fun e => if e.blk.id == id then { e with sent := true } else e) }

end BstreamVerif.ForkDB
