import BstreamVerif.Model.Forkable
/-
Model of the burst functions of /repo/forkable/forkable.go used by the hub (/repo/hub/hub.go):
blocksFromNum, blocksFromNumWithForks, blocksFromCursor, blocksThroughCursor, Linkable, and of
ForkableHub.bootstrap's decision logic. A cursor is (step, block, head, lib).
-/
namespace BstreamVerif.HubBurst
open BstreamVerif BstreamVerif.ForkDB BstreamVerif.Forkable

structure Cur where
  step  : Step
  block : Ref
  head  : Ref
  lib   : Ref
deriving DecidableEq, Repr, Inhabited

def isUndo (c : Cur) : Bool := c.step == .undo

/-- CompleteSegment from the head; `none` = any of the error exits before the loop -/
def headSegment (s : FState) : Option (Blk × List Entry) :=
  if !s.db.hasLIB then none else
  match s.lastSent with
  | none => none
  | some h =>
    match s.db.completeSegment h.ref with
    | (some seg, true) => some (h, seg)
    | _ => none

def wrap (e : Entry) (step : Step) (head lib : Ref) (j : Option Ref) : Event :=
  ⟨step, e.blk, head, lib, j, 0, 0⟩

def capLib (lib : Ref) (e : Entry) : Ref := if lib.num > e.blk.num then e.blk.ref else lib

/-- the loop of blocksFromNum: skip up to the first block numbered `num`, then everything -/
def fromNumGo (head lib : Ref) (num : Nat) (seen : Bool) : List Entry → List Event
  | [] => []
  | e :: rest =>
    let seen := seen || e.blk.num == num
    if !seen then fromNumGo head lib num seen rest
    else wrap e (if e.blk.num ≤ lib.num then .newIrreversible else .new) head (capLib lib e) none ::
      fromNumGo head lib num seen rest

/-- blocksFromNum(num) -/
def blocksFromNum (s : FState) (num : Nat) : Option (List Event) :=
  match headSegment s with
  | none => none
  | some (h, seg) =>
    match fromNumGo h.ref s.db.libRef num false seg with
    | [] => none
    | out => some out

/-- stable insertion by number -/
def insByNum (b : Blk) : List Blk → List Blk
  | [] => [b]
  | x :: xs => if b.num < x.num then b :: x :: xs else x :: insByNum b xs

/-- blocksFromNumWithForks(num): every retained block with num ≥ start, ascending by height (ties: by id here) -/
def blocksFromNumWithForks (s : FState) (num : Nat) : Option (List Blk) :=
  if !s.db.hasLIB then none
  else
    let wanted := (sortById (s.db.entries.filter (fun e => e.blk.num ≥ num))).map (·.blk)
    some (wanted.foldl (fun acc b => insByNum b acc) [])

/-- `BlockstreamServer.Blocks` (hub/blockstream.go): the block number a burst request stands for. `-1`: from the LIB
    number the head declares; `-n`: from block n; `n ≥ 0`: the last n blocks, never below the first streamable block;
    the last two never below the lowest block the hub can serve. -/
def burstStart (burst : Int) (head headLib lowest fsb : Nat) : Nat :=
  if burst == -1 then headLib
  else if burst < -1 then max lowest (-burst).toNat
  else max lowest (if burst.toNat > head || head - burst.toNat < fsb then fsb else head - burst.toNat)

/-- what a block stream request is answered with before live blocks follow: the with-forks snapshot from there -/
def blockstreamBurst (s : FState) (burst : Int) (fsb : Nat) : Option (List Blk) :=
  match s.lastSent with
  | none => none
  | some h => blocksFromNumWithForks s (burstStart burst h.num h.lib ((lowestBlockNum s).getD 0) fsb)

def blockIn (id : Id) (seg : List Entry) : Bool := seg.any (·.blk.id == id)

/-- the fast path of blocksFromCursor: cursor block and LIB are on the head segment (after the F-C05 fix) -/
def fastPath (s : FState) (h : Blk) (seg : List Entry) (c : Cur) : List Event :=
  seg.filterMap (fun e =>
    if e.blk.num ≤ c.lib.num then none
    else if e.blk.num ≤ s.db.libRef.num then
      let step := if e.blk.num > c.block.num || (isUndo c && e.blk.num == c.block.num) then Step.newIrreversible else Step.irreversible
      some (wrap e step h.ref e.blk.ref none)
    else if e.blk.num > c.block.num || (isUndo c && e.blk.num == c.block.num) then
      some (wrap e .new h.ref s.db.libRef none)
    else none)

/-- the undo walk from the cursor block down to the head segment: (undo entries newest first, junction id) -/
def undoWalk (s : FState) (seg : List Entry) (c : Cur) : Nat → Id → List Entry → Option (List Entry × Id)
  | 0, _, _ => none
  | fuel + 1, id, acc =>
    match s.db.find id with
    | none => none                                              -- "cannot find block with ID"
    | some e =>
      let alreadyUndone := id == c.block.id && c.step == .undo
      let acc := if alreadyUndone then acc else acc ++ [e]
      if blockIn e.blk.parent seg then some (acc, e.blk.parent) else undoWalk s seg c fuel e.blk.parent acc

/-- blocksFromCursor(cursor); fuel bounds the recursion (one level on reachable states) -/
def blocksFromCursor (s : FState) : Nat → Cur → Option (List Event)
  | 0, _ => none
  | fuel + 1, c =>
    match headSegment s with
    | none => none
    | some (h, seg) =>
      match seg with
      | [] => none
      | first :: _ =>
        if c.lib.num < first.blk.num then none
        else if blockIn c.block.id seg && blockIn c.lib.id seg then some (fastPath s h seg c)
        else
          match undoWalk s seg c (s.db.entries.length + 1) c.block.id [] with
          | none => none
          | some (undos, jid) =>
            match s.db.find jid with
            | none => none                                      -- reorgJunctionBlock nil: Go would panic
            | some j =>
              let undoEvs := undos.map (fun e => wrap e .undo h.ref c.lib (some j.blk.ref))
              match blocksFromCursor s fuel ⟨.new, ⟨jid, j.blk.num⟩, h.ref, c.lib⟩ with
              | none => none
              | some rest => some (undoEvs ++ rest)

/-- blocksThroughCursor(start, cursor) (after the F-C04 fix) -/
def blocksThroughCursor (s : FState) (start : Nat) (c : Cur) : Option (List Event) :=
  match headSegment s with
  | none => none
  | some (h, seg) =>
    match seg with
    | [] => none
    | first :: _ =>
      if first.blk.num > start then none
      else
        let libRef := s.db.libRef
        if blockIn c.block.id seg then
          some ((seg.filter (fun e => e.blk.num ≥ start)).map (fun e =>
            wrap e (if e.blk.num ≤ libRef.num then .newIrreversible else .new) h.ref (capLib libRef e) none))
        else
          match s.db.completeSegment c.block with
          | (some seg2, true) =>
            match seg2 with
            | [] => none
            | f2 :: _ =>
              if start < f2.blk.num then none
              else
                -- blocks of the cursor's own branch from start up to the cursor block
                let rec go : List Entry → List Event × Bool
                  | [] => ([], false)
                  | e :: rest =>
                    if e.blk.num < start then go rest
                    else
                      let step := if e.blk.num ≤ c.lib.num then Step.newIrreversible else Step.new
                      let out := if e.blk.num < c.block.num || (e.blk.num == c.block.num && !(isUndo c))
                        then [wrap e step h.ref (capLib c.lib e) none] else []
                      if e.blk.num == c.block.num then (out, true)
                      else let r := go rest; (out ++ r.1, r.2)
                let (pre, matched) := go seg2
                if !matched then none
                else match blocksFromCursor s 3 c with
                  | none => none
                  | some back => some (pre ++ back)
          | _ => none

/-- ForkableHub.SourceThroughCursor: a cursor already passed is ignored -/
def hubThroughCursor (s : FState) (start : Nat) (c : Cur) : Option (List Event) :=
  if c.block.num < start then blocksFromNum s start else blocksThroughCursor s start c

/-- Forkable.Linkable(blk) -/
def linkable (s : FState) (b : Blk) : Bool :=
  match s.db.find b.id with
  | some _ => !(s.db.blockInChain b.ref b.lib).isEmpty
  | none =>
    match s.db.find b.parent with
    | some p =>
      match s.db.numOf? p.blk.parent with
      | none => false
      | some pn => !(s.db.blockInChain ⟨p.blk.parent, pn⟩ b.lib).isEmpty
    | none => false

def substractAndRoundDown (fsb blknum sub : Nat) : Nat :=
  let out := (blknum - sub) / 100 * 100
  if out < fsb then fsb else out

end BstreamVerif.HubBurst
