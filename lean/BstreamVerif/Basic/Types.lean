/- Shared basic types of the fork-aware layers: block refs, blocks, steps, events with cursors. -/
namespace BstreamVerif

abbrev Id := String       -- "" is Go's zero value and is load-bearing (links[x] == "")

structure Ref where
  id  : Id
  num : Nat
deriving DecidableEq, Repr, Inhabited

def Ref.empty : Ref := ⟨"", 0⟩
def Ref.isEmpty (r : Ref) : Bool := r.num == 0 && r.id == ""      -- bstream.IsEmpty

structure Blk where
  id     : Id
  parent : Id
  num    : Nat
  lib    : Nat            -- LibNum declared by the block
deriving DecidableEq, Repr, Inhabited

def Blk.ref (b : Blk) : Ref := ⟨b.id, b.num⟩

inductive Step where
  | new | undo | irreversible | stalled | newIrreversible
deriving DecidableEq, Repr, Inhabited

def Step.code : Step → Nat
  | .new => 1 | .undo => 2 | .irreversible => 16 | .stalled => 32 | .newIrreversible => 17

def Step.name : Step → String
  | .new => "new" | .undo => "undo" | .irreversible => "irr" | .stalled => "stalled" | .newIrreversible => "newirr"

def Step.ofName : String → Option Step
  | "new" => some .new | "undo" => some .undo | "irr" => some .irreversible
  | "stalled" => some .stalled | "newirr" => some .newIrreversible | _ => none

/-- StepType.Matches on the bit masks -/
def Step.matchesMask (s : Step) (mask : Nat) : Bool := (s.code &&& mask) != 0

/-- one handler call: the event and the cursor fields of its ForkableObject -/
structure Event where
  step     : Step
  blk      : Blk             -- the block handed to the handler
  head     : Ref             -- cursor head block
  lib      : Ref             -- cursor LIB (lastLIBSent)
  junction : Option Ref      -- ReorgJunctionBlock (undo only)
  idx      : Nat             -- StepIndex
  count    : Nat             -- StepCount
deriving DecidableEq, Repr, Inhabited

end BstreamVerif
