import BstreamVerif.Model.Cursor
namespace BstreamVerif.CursorLemmas
open BstreamVerif.Cursor

theorem parseDigitsAcc_append (acc : Nat) (a b : Bytes) :
    parseDigitsAcc acc (a ++ b) = (parseDigitsAcc acc a).bind (fun v => parseDigitsAcc v b) := by
  induction a generalizing acc with
  | nil => simp [parseDigitsAcc]
  | cons x xs ih =>
    simp only [List.cons_append, parseDigitsAcc]
    split
    · exact ih _
    · simp

theorem digit_facts (d : Nat) (h : d < 10) :
    isDigit (digitByte d) = true ∧ (digitByte d).toNat - 48 = d ∧ digitByte d ≠ colon := by
  have : d = 0 ∨ d = 1 ∨ d = 2 ∨ d = 3 ∨ d = 4 ∨ d = 5 ∨ d = 6 ∨ d = 7 ∨ d = 8 ∨ d = 9 := by omega
  rcases this with h | h | h | h | h | h | h | h | h | h <;> subst h <;> decide

theorem parse_showNat_acc (n acc : Nat) :
    parseDigitsAcc acc (showNat n) = some (acc * 10 ^ (showNat n).length + n) := by
  fun_induction showNat n generalizing acc with
  | case1 n h =>
    obtain ⟨h1, h2, _⟩ := digit_facts n h
    simp only [parseDigitsAcc, h1, if_true, h2, List.length_cons, List.length_nil, Nat.pow_one, Nat.zero_add]
  | case2 n h ih =>
    have hd : n % 10 < 10 := Nat.mod_lt _ (by decide)
    obtain ⟨h1, h2, _⟩ := digit_facts (n % 10) hd
    rw [parseDigitsAcc_append, ih]
    simp only [Option.bind_some, parseDigitsAcc, h1, if_true, h2, List.length_append, List.length_cons,
      List.length_nil, Option.some.injEq]
    rw [Nat.pow_succ]
    have := Nat.div_add_mod n 10
    rw [Nat.add_mul, Nat.mul_assoc]
    omega

theorem parse_showNat (n : Nat) : parseDigitsAcc 0 (showNat n) = some n := by
  simpa using parse_showNat_acc n 0

theorem showNat_ne_nil (n : Nat) : showNat n ≠ [] := by
  fun_induction showNat n <;> simp

theorem showNat_colonFree (n : Nat) : colon ∉ showNat n := by
  fun_induction showNat n with
  | case1 n h =>
    obtain ⟨_, _, h3⟩ := digit_facts n h
    simp only [List.mem_singleton]; exact fun h' => h3 h'.symm
  | case2 n h ih =>
    have hd : n % 10 < 10 := Nat.mod_lt _ (by decide)
    obtain ⟨_, _, h3⟩ := digit_facts (n % 10) hd
    simp only [List.mem_append, List.mem_singleton, not_or]
    exact ⟨ih, fun h' => h3 h'.symm⟩

theorem parseUint64_showNat (n : Nat) (h : n < 2 ^ 64) : parseUint64 (showNat n) = some n := by
  unfold parseUint64
  have := showNat_ne_nil n
  cases hs : showNat n with
  | nil => exact absurd hs this
  | cons a b => rw [← hs]; simp [parse_showNat, h, this]


theorem splitColon_ne_nil (s : Bytes) : splitColon s ≠ [] := by
  induction s with
  | nil => simp [splitColon]
  | cons b rest ih =>
    unfold splitColon
    split
    · simp
    · split <;> simp

theorem splitColon_colonFree (p : Bytes) (h : colon ∉ p) : splitColon p = [p] := by
  induction p with
  | nil => rfl
  | cons b rest ih =>
    have hb : b ≠ colon := fun e => h (by simp [e])
    have hr : colon ∉ rest := fun e => h (by simp [e])
    simp [splitColon, hb, ih hr]

theorem splitColon_append (p rest : Bytes) (h : colon ∉ p) :
    splitColon (p ++ colon :: rest) = p :: splitColon rest := by
  induction p with
  | nil => simp [splitColon]
  | cons b tl ih =>
    have hb : b ≠ colon := fun e => h (by simp [e])
    have hr : colon ∉ tl := fun e => h (by simp [e])
    simp [splitColon, hb, ih hr]

theorem splitColon_join : ∀ (ps : List Bytes), ps ≠ [] → (∀ p ∈ ps, colon ∉ p) →
    splitColon (joinColon ps) = ps
  | [], h, _ => absurd rfl h
  | [p], _, h => by simpa [joinColon] using splitColon_colonFree p (h p (by simp))
  | p :: q :: r, _, h => by
    rw [joinColon, splitColon_append _ _ (h p (by simp)),
      splitColon_join (q :: r) (by simp) (fun x hx => h x (by simp [hx]))]

theorem showNat_lt (n : Nat) (h : n < 10) : showNat n = [digitByte n] := by
  unfold showNat; simp [h]

theorem showNat_ge (n : Nat) (h : ¬ n < 10) : showNat n = showNat (n / 10) ++ [digitByte (n % 10)] := by
  rw [showNat]; simp [h]

theorem step_rt (s : Int) (h : validStep s = true) : readStep (showInt s) = some s := by
  simp only [validStep, Bool.or_eq_true, beq_iff_eq] at h
  rcases h with ((h | h) | h) | h <;> subst h
  · have : showInt 1 = [49] := by
      show showNat 1 = _; rw [showNat_lt 1 (by decide)]; decide
    rw [this]; decide
  · have : showInt 2 = [50] := by
      show showNat 2 = _; rw [showNat_lt 2 (by decide)]; decide
    rw [this]; decide
  · have : showInt 16 = [49, 54] := by
      show showNat 16 = _; rw [showNat_ge 16 (by decide), showNat_lt _ (by decide)]; decide
    rw [this]; decide
  · have : showInt 17 = [49, 55] := by
      show showNat 17 = _; rw [showNat_ge 17 (by decide), showNat_lt _ (by decide)]; decide
    rw [this]; decide

theorem splitColon_parts_colonFree (s : Bytes) : ∀ p ∈ splitColon s, colon ∉ p := by
  induction s with
  | nil => simp [splitColon]
  | cons b rest ih =>
    unfold splitColon
    split
    · intro p hp
      simp only [List.mem_cons] at hp
      rcases hp with rfl | hp
      · simp
      · exact ih p hp
    · rename_i hb
      split
      · rename_i p ps heq
        intro q hq
        simp only [List.mem_cons] at hq
        rcases hq with rfl | hq
        · have := ih p (by simp [heq])
          simp only [List.mem_cons, not_or]
          exact ⟨fun e => hb (by simp [e]), this⟩
        · exact ih q (by simp [heq, hq])
      · intro q hq
        simp only [List.mem_singleton] at hq
        subst hq
        simp only [List.mem_singleton]
        exact fun e => hb (by simp [e])

end BstreamVerif.CursorLemmas
