import BstreamVerif.Lemmas.DBOps
/-!
For a buffer of well-formed blocks whose heights grow along parent links, the chain-switch segments between two
chains resting on the LIB are exactly: the part of the old chain above the junction (undo) and the part of the
new chain above the junction (redo).
-/
namespace BstreamVerif.ForkDB
open BstreamVerif

/-- stored blocks have non-empty ids and parents and are not their own parent -/
def WfEntries (db : DB) : Prop :=
  (∀ e ∈ db.entries, e.blk.parent ≠ "" ∧ e.blk.id ≠ "" ∧ e.blk.id ≠ e.blk.parent) ∧
  (db.entries.map (·.blk.id)).Nodup

/-- heights grow along parent links, also across the LIB reference -/
def Heights (db : DB) : Prop :=
  (∀ e ∈ db.entries, ∀ p ∈ db.entries, e.blk.parent = p.blk.id → p.blk.num < e.blk.num) ∧
  (∀ e ∈ db.entries, e.blk.parent = db.libRef.id → db.libRef.num < e.blk.num) ∧
  (∀ e ∈ db.entries, e.blk.id = db.libRef.id → e.blk.num = db.libRef.num)

theorem find_mem (db : DB) (x : Id) (e : Entry) (h : db.find x = some e) : e ∈ db.entries :=
  List.mem_of_find?_eq_some h

theorem wf_link_ne (db : DB) (hwf : WfEntries db) (x : Id) (e : Entry) (h : db.find x = some e) : db.link x ≠ "" := by
  rw [link_of_find db x e h]; exact (hwf.1 e (find_mem db x e h)).1

theorem wf_find_none_of_link (db : DB) (hwf : WfEntries db) (x : Id) (h : db.link x = "") : db.find x = none := by
  cases hf : db.find x with
  | none => rfl
  | some e => exact absurd h (wf_link_ne db hwf x e hf)

theorem wf_path_ne (db : DB) (hwf : WfEntries db) (bottom : Id) (ids : List Id) (h : IsPath db bottom ids) : "" ∉ ids := by
  intro hm
  have := isPath_present db bottom ids h "" hm
  cases hf : db.find "" with
  | none => rw [hf] at this; cases this
  | some e => exact (hwf.1 e (find_mem db "" e hf)).2.1 (find_id db "" e hf)

theorem find_of_mem_list (l : List Entry) (hnd : (l.map (·.blk.id)).Nodup) (e : Entry) (he : e ∈ l) :
    l.find? (fun x => x.blk.id == e.blk.id) = some e := by
  induction l with
  | nil => simp at he
  | cons a t ih =>
    simp only [List.map_cons, List.nodup_cons] at hnd
    rw [List.find?_cons]
    simp only [List.mem_cons] at he
    rcases he with rfl | he
    · simp
    · have : (a.blk.id == e.blk.id) = false := by
        have : a.blk.id ≠ e.blk.id := fun hc => hnd.1 (List.mem_map.mpr ⟨e, he, hc.symm⟩)
        simpa using this
      simp only [this]
      exact ih hnd.2 he

/-- with unique ids, a stored entry is the one its id finds -/
theorem find_of_mem (db : DB) (hwf : WfEntries db) (e : Entry) (he : e ∈ db.entries) : db.find e.blk.id = some e :=
  find_of_mem_list db.entries hwf.2 e he

/-- every block on a path is higher than what the path rests on -/
theorem heights_path (db : DB) (hh : Heights db) (bottom : Id) (n : Nat) (ids : List Id) (h : IsPath db bottom ids)
    (hb : ∀ e ∈ db.entries, e.blk.parent = bottom → n < e.blk.num) :
    ∀ x ∈ ids, ∀ e, db.find x = some e → n < e.blk.num := by
  induction ids generalizing bottom n with
  | nil => simp
  | cons i r ih =>
    intro x hx e he
    cases hfi : db.find i with
    | none => have := h.2.1; rw [hfi] at this; cases this
    | some ei =>
      have hpi : ei.blk.parent = bottom := by rw [← link_of_find db i ei hfi]; exact h.1
      have hni : n < ei.blk.num := hb ei (find_mem db i ei hfi) hpi
      simp only [List.mem_cons] at hx
      rcases hx with rfl | hx
      · rw [hfi] at he; injection he with he; subst he; exact hni
      · have := ih i ei.blk.num h.2.2 (fun e' he' hp' => hh.1 e' he' ei (find_mem db i ei hfi) (by rw [hp', find_id db i ei hfi])) x hx e he
        omega

/-- walking down from a stored block only meets lower stored blocks -/
theorem heights_walkDown (db : DB) (hh : Heights db) (k : Nat) (a : Id) (ea : Entry) (ha : db.find a = some ea) :
    ∀ x ∈ (db.walkDown k a).tail, ∀ e, db.find x = some e → e.blk.num < ea.blk.num := by
  induction k generalizing a ea with
  | zero => simp [DB.walkDown]
  | succ k ih =>
    unfold DB.walkDown
    by_cases hl : (db.link a == "") = true
    · simp [hl]
    · simp only [hl, Bool.false_eq_true, if_false, List.tail_cons]
      intro x hx e he
      cases k with
      | zero => simp [DB.walkDown] at hx
      | succ k' =>
        obtain ⟨r, hr⟩ := walkDown_head db k' (db.link a)
        rw [hr] at hx
        have hla : db.link a = ea.blk.parent := link_of_find db a ea ha
        simp only [List.mem_cons] at hx
        rcases hx with rfl | hx
        · exact hh.1 ea (find_mem db a ea ha) e (find_mem db _ e he) (by rw [find_id db _ e he, hla])
        · cases hc : db.find (db.link a) with
          | none =>
            -- the walk stops at an id that is not stored
            have hlc : db.link (db.link a) = "" := by
              generalize db.link a = c at hc
              simp [DB.link, hc]
            have : db.walkDown (k' + 1) (db.link a) = [db.link a] := by
              unfold DB.walkDown; simp [hlc]
            rw [this] at hr
            injection hr with _ hr
            rw [← hr] at hx; simp at hx
          | some ec =>
            have h1 := ih (db.link a) ec hc x (by rw [hr]; exact hx) e he
            have h2 := hh.1 ea (find_mem db a ea ha) ec (find_mem db _ ec hc) (by rw [find_id db _ ec hc, hla])
            omega

/-- below the LIB reference the walk only meets stored blocks lower than the LIB -/
theorem heights_below_lib (db : DB) (hwf : WfEntries db) (hh : Heights db) (k : Nat) :
    ∀ x ∈ (db.walkDown k db.libRef.id).tail, ∀ e, db.find x = some e → e.blk.num < db.libRef.num := by
  cases hf : db.find db.libRef.id with
  | none =>
    have hl : db.link db.libRef.id = "" := by simp [DB.link, hf]
    cases k with
    | zero => simp [DB.walkDown]
    | succ k => unfold DB.walkDown; simp [hl]
  | some L =>
    have := heights_walkDown db hh k db.libRef.id L hf
    have hL : L.blk.num = db.libRef.num := hh.2.2 L (find_mem db _ L hf) (find_id db _ L hf)
    intro x hx e he
    have := this x hx e he
    omega

theorem list_split_prefix {α} [DecidableEq α] (X t u r : List α) (j : α) (h : X ++ t = u ++ j :: r) (hj : j ∈ X) (hn : j ∉ u) :
    ∃ r', X = u ++ j :: r' := by
  induction u generalizing X with
  | nil =>
    cases X with
    | nil => simp at hj
    | cons a X' =>
      simp only [List.cons_append, List.nil_append, List.cons.injEq] at h
      exact ⟨X', by rw [h.1]; rfl⟩
  | cons a u' ih =>
    cases X with
    | nil => simp at hj
    | cons a' X' =>
      simp only [List.cons_append, List.cons.injEq] at h
      have hja : j ≠ a := fun hc => hn (by simp [hc])
      have hj' : j ∈ X' := by
        simp only [List.mem_cons] at hj
        rcases hj with rfl | hj
        · exact absurd h.1 hja
        · exact hj
      obtain ⟨r', hr'⟩ := ih X' h.2 hj' (fun hc => hn (by simp [hc]))
      exact ⟨r', by rw [h.1, hr']; rfl⟩

/-- **the chain switch between two chains resting on the LIB**: `P` is the old chain (LIB exclusive → old head),
    `L` the chain of the new block's parent. -/
theorem chainSwitch_shape (db : DB) (hwf : WfEntries db) (hh : Heights db) (hlib : db.libRef.id ≠ "") (P L : List Id)
    (hP : IsPath db db.libRef.id P) (hPn : db.libRef.id ∉ P) (hL : IsPath db db.libRef.id L) (hLn : db.libRef.id ∉ L) :
    ∃ undo redo j Pj, db.chainSwitchSegments (topOf db.libRef.id P) (topOf db.libRef.id L) = some (undo, redo, j) ∧
      P = Pj ++ undo.reverse ∧ L = Pj ++ redo ∧ topOf db.libRef.id Pj = j := by
  have hPlen := isPath_length_le db _ P hP hPn
  have hLlen := isPath_length_le db _ L hL hLn
  have hPne := wf_path_ne db hwf _ P hP
  have hLne := wf_path_ne db hwf _ L hL
  -- the undo chain
  have hW : db.walkDown (db.entries.length + 2) (topOf db.libRef.id P) =
      P.reverse ++ db.walkDown (db.entries.length + 2 - P.length) db.libRef.id := by
    have := walkDown_path db _ P hP hlib hPne (db.entries.length + 2 - P.length)
    rw [show db.entries.length + 2 - P.length + P.length = db.entries.length + 2 by omega] at this
    exact this
  obtain ⟨tail, htail⟩ := walkDown_head db (db.entries.length + 1 - P.length) db.libRef.id
  rw [show db.entries.length + 1 - P.length + 1 = db.entries.length + 2 - P.length by omega] at htail
  have hbelow := heights_below_lib db hwf hh (db.entries.length + 2 - P.length)
  rw [htail, List.tail_cons] at hbelow
  rw [htail] at hW
  have hlibW : db.libRef.id ∈ db.walkDown (db.entries.length + 2) (topOf db.libRef.id P) := by rw [hW]; simp
  -- the redo walk finds something
  obtain ⟨⟨redo, j⟩, hredo⟩ := redoWalk_complete db _ db.libRef.id L hL hlibW hlib hLne (db.entries.length + 1 - L.length) []
  rw [show db.entries.length + 1 - L.length + L.length + 1 = db.entries.length + 2 by omega] at hredo
  have hcs : db.chainSwitchSegments (topOf db.libRef.id P) (topOf db.libRef.id L) =
      some ((db.walkDown (db.entries.length + 2) (topOf db.libRef.id P)).takeWhile (· != j), redo, j) := by
    unfold DB.chainSwitchSegments; simp only [hredo]
  obtain ⟨⟨rest, hrest⟩, _, _, _, hrp, hrt, hrd, hjn⟩ := chainSwitchSegments_sound db _ _ _ _ _ hcs
  obtain ⟨pre, hpre, hjW, _, _, hnW⟩ := redoWalk_sound db _ _ _ _ _ _ hredo
  simp only [List.append_nil] at hpre
  subst hpre
  generalize hundo : (db.walkDown (db.entries.length + 2) (topOf db.libRef.id P)).takeWhile (· != j) = undo at *
  -- the redo path is a suffix of L
  have hlibredo : db.libRef.id ∉ redo := fun hm => hnW _ hm hlibW
  obtain ⟨A, hA, hAj⟩ : ∃ A, L = A ++ redo ∧ topOf db.libRef.id A = j := by
    rcases Nat.le_total redo.length L.length with hle | hle
    · exact isPath_suffix db j db.libRef.id redo L hrp hL hrt hle
    · obtain ⟨A, hA, hA2⟩ := isPath_suffix db db.libRef.id j L redo hL hrp hrt.symm hle
      cases A with
      | nil => exact ⟨[], by simpa using hA.symm, by simpa using hA2.symm⟩
      | cons a r =>
        exfalso
        have := topOf_cons_mem j a r
        rw [hA2] at this
        exact hlibredo (by rw [hA]; exact List.mem_append_left _ this)
  have hAp : IsPath db db.libRef.id A := by rw [hA, isPath_append] at hL; exact hL.1
  have hAn : db.libRef.id ∉ A := fun hm => hLn (by rw [hA]; exact List.mem_append_left _ hm)
  -- the junction is not below the LIB
  have hjtail : j ∉ tail := by
    intro hjt
    cases A with
    | nil =>
      simp only [topOf_nil] at hAj
      subst hAj
      cases hf : db.find db.libRef.id with
      | none =>
        have hl : db.link db.libRef.id = "" := by simp [DB.link, hf]
        have : db.walkDown (db.entries.length + 2 - P.length) db.libRef.id = [db.libRef.id] := by
          rw [show db.entries.length + 2 - P.length = (db.entries.length + 1 - P.length) + 1 by omega]
          unfold DB.walkDown; simp [hl]
        rw [this] at htail
        injection htail with _ ht
        rw [← ht] at hjt; simp at hjt
      | some Lb =>
        have h1 := hbelow _ hjt Lb hf
        have h2 := hh.2.2 Lb (find_mem db _ Lb hf) (find_id db _ Lb hf)
        omega
    | cons a r =>
      have hjA : j ∈ a :: r := by rw [← hAj]; exact topOf_cons_mem _ a r
      have hpres := isPath_present db _ _ hAp j hjA
      cases hf : db.find j with
      | none => rw [hf] at hpres; cases hpres
      | some ej =>
        have h1 := heights_path db hh _ db.libRef.num _ hAp hh.2.1 j hjA ej hf
        have h2 := hbelow j hjt ej hf
        omega
  have hjX : j ∈ P.reverse ++ [db.libRef.id] := by
    rw [hW] at hjW
    simp only [List.mem_append, List.mem_cons, List.mem_reverse] at hjW ⊢
    rcases hjW with h | h | h
    · exact Or.inl h
    · exact Or.inr (Or.inl h)
    · exact absurd h hjtail
  have hsplit : (P.reverse ++ [db.libRef.id]) ++ tail = undo ++ j :: rest := by
    rw [← hrest, hW]; simp
  obtain ⟨r', hr'⟩ := list_split_prefix _ _ _ _ _ hsplit hjX hjn
  -- read the split upwards
  have hrev : db.libRef.id :: P = r'.reverse ++ j :: undo.reverse := by
    have := congrArg List.reverse hr'
    simpa using this
  obtain ⟨Pj, hPj, hPjt⟩ : ∃ Pj, P = Pj ++ undo.reverse ∧ topOf db.libRef.id Pj = j := by
    rcases List.eq_nil_or_concat r' with hnil | ⟨r'', z, hz⟩
    · subst hnil
      simp only [List.reverse_nil, List.nil_append, List.cons.injEq] at hrev
      exact ⟨[], by simpa using hrev.2, by simpa using hrev.1⟩
    · rw [List.concat_eq_append] at hz
      subst hz
      simp only [List.reverse_append, List.reverse_cons, List.reverse_nil, List.nil_append, List.cons_append,
        List.cons.injEq] at hrev
      exact ⟨r''.reverse ++ [j], by rw [hrev.2]; simp, by simp⟩
  have hPjp : IsPath db db.libRef.id Pj := by rw [hPj, isPath_append] at hP; exact hP.1
  have hPjn : db.libRef.id ∉ Pj := fun hm => hPn (by rw [hPj]; exact List.mem_append_left _ hm)
  have hAeq : A = Pj := isPath_unique db _ A Pj hAp hPjp (hAj.trans hPjt.symm) hAn hPjn
  exact ⟨undo, redo, j, Pj, hcs, hPj, by rw [hA, hAeq], hPjt⟩

end BstreamVerif.ForkDB
