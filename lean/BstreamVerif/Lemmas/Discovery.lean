import BstreamVerif.Lemmas.ForkStep
import BstreamVerif.Lemmas.CursorLib
/-!
LIB discovery with hold-until-LIB (the configuration of ForkableHub): before a LIB is known nothing is delivered; the
block whose declared LIB resolves to a stored ancestor `L` makes `L` the LIB, delivers the chain from `L` (exclusive)
to itself as New, announces `L` irreversible (the starting LIB itself), and leaves a state satisfying the invariants
of the known-LIB theorems.
-/
namespace BstreamVerif.Forkable
open BstreamVerif BstreamVerif.ForkDB

/-- the state of a hold-until-LIB forkable that has not found its LIB yet -/
structure PreInv (U : Id → Option Blk) (s : FState) : Prop where
  noLib : s.db.libRef = Ref.empty
  noInit : s.includeInit = false
  noLast : s.lastSent = none
  noSent : ∀ e ∈ s.db.entries, e.sent = false
  wf : WfEntries s.db
  inU : ∀ e ∈ s.db.entries, U e.blk.id = some e.blk
  noInitNum : s.db.initNum = none
  noCache : s.cache = none
  seenEmpty : s.lastLIBSeen = Ref.empty

theorem preInv_init (U : Id → Option Blk) (cfg : Config) (h : cfg.root = none) : PreInv U (init cfg) := by
  unfold init; rw [h]
  exact ⟨rfl, rfl, rfl, by simp [DB.empty], ⟨by simp [DB.empty], by simp [DB.empty]⟩, by simp [DB.empty], rfl, rfl, rfl⟩

theorem hasLIB_empty (db : DB) (h : db.libRef = Ref.empty) : db.hasLIB = false := by
  simp [DB.hasLIB, h, Ref.empty]

theorem preInv_append (U : Id → Option Blk) (s : FState) (b : Blk) (hP : PreInv U s) (hb : WFin b)
    (hbU : U b.id = some b) (hf : s.db.find b.id = none) : PreInv U { s with db := appendBlk s.db b } := by
  refine ⟨hP.noLib, hP.noInit, hP.noLast, ?_, wf_append _ _ hP.wf hb hf, ?_, hP.noInitNum, hP.noCache, hP.seenEmpty⟩
  · intro e he
    simp only [appendBlk, List.mem_append, List.mem_singleton] at he
    rcases he with he | rfl
    · exact hP.noSent e he
    · rfl
  · intro e he
    simp only [appendBlk, List.mem_append, List.mem_singleton] at he
    rcases he with he | rfl
    · exact hP.inU e he
    · exact hbU

/-- what `plan` does before the LIB is known (hold-until-LIB): nothing is delivered; the block is stored (unless it is
    stored already); and either no LIB is found, or the planning continues with the LIB set by `setLIB` -/
theorem plan_pre (cfg : Config) (hhold : cfg.hold = true) (U : Id → Option Blk) (s : FState) (b : Blk)
    (hP : PreInv U s) (hb : WFin b) :
    (plan cfg s b = .done s .ok ∧ (s.db.addLink b).2 = true) ∨
    ((s.db.addLink b).2 = false ∧
      let db2 := (appendBlk s.db b).setLIB cfg.fsb b.ref b.lib
      ((db2.hasLIB = false ∧ plan cfg s b = .done { s with db := appendBlk s.db b } .ok) ∨
       (db2.hasLIB = true ∧ db2.libRef.num = b.num ∧ plan cfg s b = .initial { s with db := db2 }) ∨
       (db2.hasLIB = true ∧ db2.libRef.num ≠ b.num ∧
         plan cfg s b =
           (match computeLongestChain cfg { s with db := db2 } b with
            | none => .done { s with db := db2, cache := none } .ok
            | some [] => .done { s with db := db2, cache := some [] } .ok
            | some (c :: cs) => .switch { s with db := db2, cache := some (c :: cs) } (c :: cs) [] [] none (db2.find db2.libRef.id))))) := by
  have hnl := hasLIB_empty s.db hP.noLib
  unfold plan
  have h1 : (b.id == b.parent) = false := by simpa using hb.2.2
  have h2 : (decide (b.num < s.db.libRef.num) && s.lastSent.isSome) = false := by simp [hP.noLast]
  have h3 : (s.includeInit && s.lastSent.isNone && b.id == s.db.libRef.id) = false := by simp [hP.noInit]
  have htrig : triggers cfg s b = true := by unfold triggers; simp [hP.noLast]
  have hsw : switchSegments cfg s b true = some ([], [], none) := by
    unfold switchSegments; simp [hP.noLast]
  simp only [h1, Bool.false_eq_true, if_false, h2, h3, htrig, hsw]
  by_cases hex : (s.db.addLink b).2 = true
  · left; rw [if_pos hex]; exact ⟨rfl, hex⟩
  · right
    have hex' : (s.db.addLink b).2 = false := by simpa using hex
    rw [if_neg hex]
    obtain ⟨hf, hadd⟩ := fresh_of_addLink s.db b hP.wf hb hex'
    refine ⟨hex', ?_⟩
    rw [hadd]
    have hnl1 : (appendBlk s.db b).hasLIB = false := hasLIB_empty _ hP.noLib
    unfold planLinked
    simp only [hnl1, Bool.false_eq_true, if_false, Bool.not_false, Bool.true_and]
    generalize hdb2 : (appendBlk s.db b).setLIB cfg.fsb b.ref b.lib = db2
    cases hl2 : db2.hasLIB with
    | false =>
      left
      simp only [Bool.false_and, Bool.false_eq_true, if_false, Bool.not_false, Bool.true_and, hhold, if_true]
      refine ⟨trivial, ?_⟩
      -- without a LIB setLIB left the buffer unchanged
      have : db2 = appendBlk s.db b := by
        rw [← hdb2]
        unfold DB.setLIB
        by_cases hfs : (b.ref.num == cfg.fsb) = true
        · exfalso
          rw [← hdb2] at hl2
          unfold DB.setLIB at hl2
          simp only [hfs, if_true] at hl2
          simp [DB.hasLIB, Blk.ref, hb.1] at hl2
        · simp only [hfs, Bool.false_eq_true, if_false]
          by_cases hr : (((appendBlk s.db b).blockInChain b.ref b.lib).id == "") = true
          · simp [hr]
          · exfalso
            rw [← hdb2] at hl2
            unfold DB.setLIB at hl2
            simp only [hfs, Bool.false_eq_true, if_false, hr] at hl2
            simp only [DB.moveLIB, DB.hasLIB] at hl2
            simp at hr
            simp [hr] at hl2
      rw [this]
    | true =>
      right
      by_cases hnum : db2.libRef.num = b.num
      · left
        have : (db2.libRef.num == b.num) = true := by simpa using hnum
        simp only [Bool.true_and, this, if_true]
        exact ⟨trivial, hnum, trivial⟩
      · right
        have : (db2.libRef.num == b.num) = false := by simpa using hnum
        simp only [Bool.true_and, this, Bool.false_eq_true, if_false, Bool.not_true, Bool.false_and]
        refine ⟨trivial, hnum, ?_⟩
        cases computeLongestChain cfg { s with db := db2 } b with
        | none => rfl
        | some lc =>
          cases lc with
          | nil => rfl
          | cons c cs => rfl

end BstreamVerif.Forkable

namespace BstreamVerif.Forkable
open BstreamVerif BstreamVerif.ForkDB

/-- what `setLIB` can do to a buffer -/
theorem setLIB_cases (db : DB) (fsb : Nat) (head : Ref) (libNum : Nat) :
    db.setLIB fsb head libNum = db ∨ db.setLIB fsb head libNum = { db with libRef := head } ∨
    (db.setLIB fsb head libNum = db.moveLIB (db.blockInChain head libNum) ∧ (db.blockInChain head libNum).id ≠ "" ∧
      ¬ head.num = fsb) := by
  unfold DB.setLIB
  by_cases h1 : (head.num == fsb) = true
  · right; left; simp [h1]
  · simp only [h1, Bool.false_eq_true, if_false]
    by_cases h2 : ((db.blockInChain head libNum).id == "") = true
    · left; simp [h2]
    · right; right
      have e : (if ((db.blockInChain head libNum).id == "") = true then db else db.moveLIB (db.blockInChain head libNum)) =
          db.moveLIB (db.blockInChain head libNum) := by rw [if_neg h2]
      exact ⟨e, by simpa using h2, by simpa using h1⟩

/-- heights in a buffer of universe blocks whose LIB reference is a stored block carrying its real number -/
theorem heights_of_universe (U : Id → Option Blk) (hU : UOK U) (db : DB) (hw : WfEntries db)
    (hin : ∀ e ∈ db.entries, U e.blk.id = some e.blk) (er : Entry) (hf : db.find db.libRef.id = some er)
    (hnum : er.blk.num = db.libRef.num) : Heights db := by
  have herU : U db.libRef.id = some er.blk := by
    have := hin er (find_mem db _ er hf); rw [find_id db _ er hf] at this; exact this
  refine ⟨?_, ?_, ?_⟩
  · intro e he p hp hpar
    have h1 := hin e he
    have h2 := hin p hp
    rw [← hpar] at h2
    exact hU.heights e.blk p.blk h1 h2
  · intro e he hpar
    have h1 := hin e he
    have := hU.heights e.blk er.blk h1 (by rw [hpar]; exact herU)
    omega
  · intro e he hid
    have := find_of_mem db hw e he
    rw [hid, hf] at this
    injection this with this
    rw [← this]; exact hnum

/-- the universe-side invariant right after the LIB was discovered: nothing has been sent yet -/
theorem inv2_fresh_lib (U : Id → Option Blk) (hU : UOK U) (db : DB)
    (hin : ∀ e ∈ db.entries, U e.blk.id = some e.blk) (hns : ∀ e ∈ db.entries, e.sent = false)
    (er : Entry) (hf : db.find db.libRef.id = some er) (hnum : er.blk.num = db.libRef.num) :
    Inv2 U [db.libRef.id] db := by
  have herU : U db.libRef.id = some er.blk := by
    have := hin er (find_mem db _ er hf); rw [find_id db _ er hf] at this; exact this
  refine ⟨?_, by simp, ?_, hin, ?_, ?_⟩
  · intro e he hs; rw [hns e he] at hs; cases hs
  · intro f hf' hne; simp only [List.mem_singleton] at hf'; exact absurd hf' hne
  · intro b hb hpar
    have := hU.heights b er.blk hb (by rw [hpar]; exact herU)
    omega
  · intro b hb hid
    rw [hid, herU] at hb
    injection hb with hb
    rw [← hb]; exact hnum

end BstreamVerif.Forkable

namespace BstreamVerif.Forkable
open BstreamVerif BstreamVerif.ForkDB

theorem blockInChainAux_present (db : DB) (hi : db.initNum = none) (target fuel : Nat) (cur : Id) (curNum : Nat)
    (hc : (db.find cur).isSome = true) (h : (db.blockInChainAux target fuel cur curNum).id ≠ "") :
    (db.find (db.blockInChainAux target fuel cur curNum).id).isSome = true := by
  induction fuel generalizing cur curNum with
  | zero => simp [DB.blockInChainAux, Ref.empty] at h
  | succ n ih =>
    unfold DB.blockInChainAux at h ⊢
    simp only at h ⊢
    cases hn : db.numOf? (db.link cur) with
    | none => rw [hn] at h; simp [Ref.empty] at h
    | some pn =>
      rw [hn] at h
      simp only at h ⊢
      have hprev : (db.find (db.link cur)).isSome = true := by
        unfold DB.numOf? at hn
        cases hf : db.find (db.link cur) with
        | some e => rfl
        | none => rw [hf, hi] at hn; simp at hn
      by_cases h1 : (pn == target) = true
      · simp only [h1, if_true]; exact hprev
      · simp only [h1, Bool.false_eq_true, if_false] at h ⊢
        by_cases h2 : pn < target
        · simp only [h2, if_true]; exact hc
        · simp only [h2, if_false] at h ⊢
          exact ih _ _ hprev h

theorem blockInChain_present (db : DB) (hi : db.initNum = none) (start : Ref) (target : Nat)
    (hc : (db.find start.id).isSome = true) (h : (db.blockInChain start target).id ≠ "") :
    (db.find (db.blockInChain start target).id).isSome = true := by
  unfold DB.blockInChain at h ⊢
  by_cases hs : (start.num == target) = true
  · simp only [hs, if_true]; exact hc
  · simp only [hs, Bool.false_eq_true, if_false] at h ⊢
    exact blockInChainAux_present db hi _ _ _ _ hc h

/-- `BlockInCurrentChain` does not look at the LIB reference -/
theorem blockInChain_moveLIB (db : DB) (r : Ref) (start : Ref) (t : Nat) :
    (db.moveLIB r).blockInChain start t = db.blockInChain start t := by
  have haux : ∀ fuel cur n, (db.moveLIB r).blockInChainAux t fuel cur n = db.blockInChainAux t fuel cur n := by
    intro fuel
    induction fuel with
    | zero => intro cur n; rfl
    | succ k ih =>
      intro cur n
      unfold DB.blockInChainAux
      have hl : (db.moveLIB r).link cur = db.link cur := rfl
      have hn : ∀ x, (db.moveLIB r).numOf? x = db.numOf? x := fun x => rfl
      simp only [hl, hn]
      cases db.numOf? (db.link cur) with
      | none => rfl
      | some pn => simp only [ih]
  unfold DB.blockInChain
  rw [haux]; rfl

/-- the LIB announcement of the discovery step: the LIB stays where `setLIB` put it, the block it names is announced
    irreversible although it was never delivered as New, the buffer is purged; the pending chain survives -/
theorem advance_first (cfg : Config) (hirr : cfg.matches .irreversible = true) (a : Acc) (hf : a.failed = false)
    (hn : a.failAt = none) (b : Blk) (Q : List Id) (hI : Inv a.st Q) (last : Blk) (hls : a.st.lastSent = some last)
    (L : Entry) (hLf : a.st.db.find a.st.db.libRef.id = some L) (hnumL : L.blk.num = a.st.db.libRef.num)
    (fi : Entry) (hfi : fi.blk = L.blk)
    (hR : a.st.db.blockInChain last.ref last.lib = a.st.db.libRef)
    (hcache : ∀ c cs, a.st.cache = some (c :: cs) → (c :: cs).map (·.blk.id) = Q)
    (hcr : ∀ c cs, a.st.cache = some (c :: cs) → c.blk.parent = a.st.db.libRef.id) :
    (advanceAcc cfg a b (some fi)).failed = false ∧ (advanceAcc cfg a b (some fi)).failAt = none ∧
    (advanceAcc cfg a b (some fi)).evs.map sbOf = a.evs.map sbOf ++ [(Step.irreversible, L.blk)] ∧
    (advanceAcc cfg a b (some fi)).st.db = (a.st.db.moveLIB a.st.db.libRef).purgeBeforeLIB cfg.kept ∧
    Inv (advanceAcc cfg a b (some fi)).st Q := by
  have hlibT : a.st.db.hasLIB = true := hasLIB_of_id _ hI.libNe
  have hRe : ((a.st.db.libRef).id == "") = false := by simpa using hI.libNe
  unfold advanceAcc
  simp only [hf, Bool.false_eq_true, if_false, hls, hlibT, Bool.not_true, hR, hRe]
  rw [advanceTo_eq]
  have hhn : a.st.db.hasNewIrreversibleSegment cfg.fsb a.st.db.libRef = (false, [], []) := by
    unfold DB.hasNewIrreversibleSegment; simp
  rw [hhn]
  simp only [Bool.not_false, Option.isNone_some, Bool.and_false, Bool.false_eq_true, if_false, withFirst, List.nil_append]
  generalize hdb' : (a.st.db.moveLIB a.st.db.libRef).purgeBeforeLIB cfg.kept = db'
  have hn1 := processIrr_nofail cfg { a with st := withDb db' a.st } [fi] b.ref (fun i => (a.st.db.find i).map (·.blk)) ⟨hf, hn⟩
  have hn2 := processStalled_nofail cfg _ ([] : List Entry) b.ref ⟨hn1.1, hn1.2.1⟩
  have hseen := processIrr_st_nofail cfg { a with st := withDb db' a.st } [fi] b.ref (fun i => (a.st.db.find i).map (·.blk)) hf hn fi (by simp)
  generalize hsn' : fi.blk.ref = seen at hseen
  have hstfin : (processStalled cfg (processIrr cfg { a with st := withDb db' a.st } [fi] b.ref
      (fun i => (a.st.db.find i).map (·.blk))) [] b.ref).st = { withDb db' a.st with lastLIBSeen := seen } := by
    rw [processStalled_st, hseen]
  have hstevs : (processStalled cfg (processIrr cfg { a with st := withDb db' a.st } [fi] b.ref
      (fun i => (a.st.db.find i).map (·.blk))) [] b.ref).evs =
      a.evs ++ irrEvents cfg [fi] b.ref (fun i => (a.st.db.find i).map (·.blk)) := by
    unfold processStalled
    simp only [hn1.1, Bool.false_eq_true, if_false, List.mapIdx_nil, ite_self]
    rw [(phase_nofail _ [] ⟨hn1.1, hn1.2.1⟩).2.2.1, hn1.2.2]; simp
  have hLid : L.blk.id = a.st.db.libRef.id := find_id _ _ L hLf
  refine ⟨hn2.1, hn2.2.1, ?_, by rw [hstfin]; rfl, ?_⟩
  · rw [hstevs, List.map_append, irrEvents_sb cfg hirr]
    simp only [List.map_cons, List.map_nil, hfi, hLid, hLf, Option.map_some, Option.getD_some]
  · rw [hstfin]
    have hseenlib : seen = a.st.db.libRef := by
      rw [← hsn']
      have h1 : fi.blk.id = a.st.db.libRef.id := by rw [hfi]; exact hLid
      have h2 : fi.blk.num = a.st.db.libRef.num := by rw [hfi]; exact hnumL
      cases hr : a.st.db.libRef with
      | mk i n => rw [hr] at h1 h2; simp only [Blk.ref] at h1 h2 ⊢; rw [h1, h2]
    have hhigh : ∀ x ∈ Q, ∀ e, a.st.db.find x = some e → a.st.db.libRef.num - cfg.kept ≤ e.blk.num := by
      intro x hx e he
      have := heights_path _ hI.heights _ a.st.db.libRef.num Q hI.path hI.heights.2.1 x hx e he
      omega
    have hfind : ∀ x ∈ Q, ∃ e, a.st.db.find x = some e := by
      intro x hx
      have := isPath_present _ _ _ hI.path x hx
      cases hfx : a.st.db.find x with
      | none => rw [hfx] at this; cases this
      | some e => exact ⟨e, rfl⟩
    have hlibfin : db'.libRef = a.st.db.libRef := by rw [← hdb']; rfl
    refine ⟨by simp only [withDb, hlibfin]; exact hI.libNe, ?_, ?_, ?_, ?_, ?_, ?_, ?_, ?_, ?_,
      Or.inr (by simp only [withDb, hlibfin]; exact hseenlib)⟩
    · simp only [withDb]; rw [← hdb']; exact wf_purge _ _ _ hI.wf
    · simp only [withDb]; rw [← hdb']; exact heights_movePurge _ hI.wf hI.heights _ cfg.kept L hLf hnumL
    · simp only [withDb, hlibfin]; rw [← hdb']; exact isPath_movePurge _ _ _ _ _ hI.path hhigh
    · simp only [withDb, hlibfin]; exact hI.libNotin
    · intro x hx
      obtain ⟨e, he⟩ := hfind x hx
      simp only [withDb]; rw [← hdb', isSent_movePurge _ _ _ x e he (hhigh x hx e he)]
      exact hI.pSent x hx
    · intro l hl
      simp only [withDb] at hl ⊢
      rw [hlibfin]; exact hI.topSome l hl
    · intro hnone
      simp only [withDb] at hnone
      rw [hls] at hnone; cases hnone
    · intro c cs hc _
      simp only [withDb, hlibfin] at hc ⊢
      have hq := hcache c cs hc
      obtain ⟨_, _, hfa⟩ := hI.cache c cs hc (hcr c cs hc).symm
      refine ⟨?_, ?_, ?_⟩
      · rw [hq, ← hdb']; exact isPath_movePurge _ _ _ _ _ hI.path hhigh
      · rw [hq]; exact hI.libNotin
      · intro e he
        obtain ⟨e0, h0, h1⟩ := hfa e he
        have hm : e.blk.id ∈ Q := by rw [← hq]; exact List.mem_map.mpr ⟨e, he, rfl⟩
        exact ⟨e0, by rw [← hdb']; exact find_movePurge _ _ _ _ e0 h0 (hhigh _ hm e0 h0), h1⟩
    · intro i n hin
      simp only [withDb] at hin
      rw [← hdb'] at hin
      simp [DB.purgeBeforeLIB] at hin

end BstreamVerif.Forkable

namespace BstreamVerif.Forkable
open BstreamVerif BstreamVerif.ForkDB

/-- the cursor LIB of a New or Irreversible event is never above the event's block (C04) -/
def CursorLibOK (evs : List Event) : Prop :=
  ∀ e ∈ evs, (e.step = .new ∨ e.step = .irreversible) → e.lib.num ≤ e.blk.num

theorem irrEvents_lib_self (cfg : Config) (seg : List Entry) (head : Ref) (actual : Id → Option Blk) :
    ∀ e ∈ irrEvents cfg seg head actual, e.lib = e.blk.ref := by
  intro e he
  unfold irrEvents at he
  split at he
  · obtain ⟨i, hi, rfl⟩ := List.getElem_of_mem he
    simp
  · simp at he

/-- what the step that may discover the LIB leaves behind -/
def DiscoveryStep (U : Id → Option Blk) (b : Blk) (s' : FState) (evs : List Event) : Prop :=
  (PreInv U s' ∧ evs = []) ∨
  (s'.db.libRef = b.ref ∧ evs.map sbOf = [(Step.new, b), (Step.irreversible, b)] ∧ Inv s' [] ∧ Inv2 U [b.id] s'.db ∧
    HeadU U s' ∧ CursorLibOK evs) ∨
  (∃ (L : Blk) (news : List Blk), L.id = s'.db.libRef.id ∧
    evs.map sbOf = news.map (fun x => (Step.new, x)) ++ (if news = [] then [] else [(Step.irreversible, L)]) ∧
    linkedBlks L.id news ∧ Inv s' (news.map (·.id)) ∧ Inv2 U [L.id] s'.db ∧ HeadU U s' ∧ CursorLibOK evs)

theorem isSent_false_of_unsent (db : DB) (h : ∀ e ∈ db.entries, e.sent = false) (x : Id) : isSent db x = false := by
  unfold isSent
  cases hf : db.find x with
  | none => rfl
  | some e => simp [h e (find_mem db x e hf)]

/-- **the step that discovers the LIB through a stored ancestor** (the hub's case) -/
theorem discovery_switch (cfg : Config) (hnew : cfg.matches .new = true) (hundo : cfg.matches .undo = true)
    (hirr : cfg.matches .irreversible = true) (U : Id → Option Blk) (hU : UOK U) (s : FState) (b : Blk)
    (hP : PreInv U s) (hb : WFin b) (hbU : U b.id = some b) (hf : s.db.find b.id = none) (hL : LibDeclOK s.db b)
    (R : Ref) (hR : R = (appendBlk s.db b).blockInChain b.ref b.lib) (hRne : R.id ≠ "") (hRnum : R.num ≠ b.num)
    (c0 : Entry) (cs0 : List Entry)
    (hc : computeLongestChain cfg { s with db := (appendBlk s.db b).moveLIB R } b = some (c0 :: cs0))
    (er : Entry) (hfer : ((appendBlk s.db b).moveLIB R).find R.id = some er) :
    DiscoveryStep U b
      (advanceLIB cfg (emitSwitch cfg { s with db := (appendBlk s.db b).moveLIB R, cache := some (c0 :: cs0) } b (c0 :: cs0) [] [] none none) b (some er)).1
      (advanceLIB cfg (emitSwitch cfg { s with db := (appendBlk s.db b).moveLIB R, cache := some (c0 :: cs0) } b (c0 :: cs0) [] [] none none) b (some er)).2.1 := by
  generalize hdb2 : (appendBlk s.db b).moveLIB R = db2 at hc hfer ⊢
  have hent : db2.entries = (appendBlk s.db b).entries := by rw [← hdb2]; rfl
  have hlib2 : db2.libRef = R := by rw [← hdb2]; rfl
  have hfind2 : ∀ x, db2.find x = (appendBlk s.db b).find x := by intro x; rw [← hdb2]; rfl
  have hP1 := preInv_append U s b hP hb hbU hf
  have hw2 : WfEntries db2 := by
    have := hP1.wf; unfold WfEntries at this ⊢; rw [hent]; exact this
  have hin2 : ∀ e ∈ db2.entries, U e.blk.id = some e.blk := by rw [hent]; exact hP1.inU
  have hns2 : ∀ e ∈ db2.entries, e.sent = false := by rw [hent]; exact hP1.noSent
  have hnumR : er.blk.num = R.num := by
    have := hL er (by rw [← hR, ← hfind2]; exact hfer)
    rw [hR]; exact this
  have hfer' : db2.find db2.libRef.id = some er := by rw [hlib2]; exact hfer
  have hh2 : Heights db2 := heights_of_universe U hU db2 hw2 hin2 er hfer' (by rw [hlib2]; exact hnumR)
  have hJ2 : Inv2 U [R.id] db2 := by
    have := inv2_fresh_lib U hU db2 hin2 hns2 er hfer' (by rw [hlib2]; exact hnumR)
    rw [hlib2] at this; exact this
  have hlT : db2.hasLIB = true := hasLIB_of_id _ (by rw [hlib2]; exact hRne)
  -- the chain
  have hcache0 : ({ s with db := db2 } : FState).cache = none := hP.noCache
  have hrev : computeLongestChain cfg { s with db := db2 } b = (db2.reversibleSegment cfg.fsb b.ref).1 := by
    rcases computeLongestChain_cases cfg { s with db := db2 } b with ⟨c, cs, hcc, _⟩ | h
    · rw [hcache0] at hcc; cases hcc
    · exact h
  cases hrs : db2.reversibleSegment cfg.fsb b.ref with
  | mk l r =>
    rw [hrev, hrs] at hc
    simp only at hc
    subst hc
    have hr' : r = true := revSegAux_reach _ _ _ _ _ _ _ _ hlT hrs
    subst hr'
    obtain ⟨hp, htop, hnl, hlast, hfa5⟩ := reversibleSegment_sound _ _ _ _ hrs
    rw [hlib2] at hp htop hnl
    have hn : R.id ∉ (c0 :: cs0).map (·.blk.id) := by
      intro hm; obtain ⟨x, hx, hxe⟩ := List.mem_map.mp hm; exact hnl x hx hxe
    have hfa : Faithful db2 (c0 :: cs0) := by
      intro e he; obtain ⟨e0, g1, g2, _⟩ := hfa5 e he
      obtain ⟨e1, k1, k2⟩ := reversibleSegment_nums _ _ _ _ _ hrs (by
        intro eb heb
        rw [hfind2, show (appendBlk s.db b).find b.ref.id = some ⟨b, false⟩ from find_append_self s.db b hf] at heb
        injection heb with heb; subst heb; rfl) e he
      rw [g1] at k1; injection k1 with k1; subst k1
      exact ⟨e0, g1, g2, k2⟩
    generalize hs3 : ({ s with db := db2, cache := some (c0 :: cs0) } : FState) = s3 at ⊢
    have hs3db : s3.db = db2 := by rw [← hs3]
    have hs3lib : s3.db.libRef = R := by rw [hs3db, hlib2]
    have hnd : ((([] : List Entry) ++ (c0 :: cs0)).map (fun (x : Entry) => x.blk.id)).Nodup := isPath_nodup _ _ _ hp hn
    have hem := emit_run cfg hnew hundo s3 b [] (c0 :: cs0) [] [] none [] [] (by simp) trivial (by simp) (by simp)
      (by intro e _; rw [hs3db]; exact isSent_false_of_unsent db2 hns2 _)
      (by rw [hs3lib]; exact linked_of_path db2 _ _ hp hfa) hnd
      (by intro e he; rw [hs3db]; exact isPath_present _ _ _ hp e.blk.id (List.mem_map.mpr ⟨e, by simpa using he, rfl⟩))
    simp only [List.nil_append] at hem
    obtain ⟨hef, hen, herun, hout⟩ := hem
    generalize hea : emitSwitch cfg s3 b (c0 :: cs0) [] [] none none = a at hef hen herun hout ⊢
    have hsame : SameBlks s3.db a.st.db := hout.same
    -- the delivered events are the New events of the chain
    have hevs : a.evs.map sbOf = (c0 :: cs0).map (fun e => (Step.new, e.blk)) := by
      rw [← hea]
      unfold emitSwitch
      simp only [hnew, hundo, if_true]
      have p1 := phase_nofail ⟨s3, [], none, false⟩ (mkEvents .undo [] b.ref (cursorLIB s3) none) ⟨rfl, rfl⟩
      have p2 := phase_nofail _ (mkEvents .new [] b.ref (cursorLIB s3) none) ⟨p1.1, p1.2.1⟩
      generalize ha2 : phase (phase ⟨s3, [], none, false⟩ (mkEvents .undo [] b.ref (cursorLIB s3) none))
        (mkEvents .new [] b.ref (cursorLIB s3) none) = a2 at p2
      have hst : a2.st = s3 := by rw [p2.2.2.2, p1.2.2.2]
      have hev0 : a2.evs = [] := by rw [p2.2.2.1, p1.2.2.1]; simp [mkEvents]
      have hno := foldl_newStep_char cfg hnew (((c0 :: cs0).getLast?.map (·.blk.ref)).getD Ref.empty) (c0 :: cs0) a2
        p2.1 p2.2.1 (by simpa using hnd)
        (by intro e he; rw [hst, hs3db]; exact isPath_present _ _ _ hp e.blk.id (List.mem_map.mpr ⟨e, he, rfl⟩))
      unfold processNew
      rw [hno.evs, hev0, hst]
      have : (c0 :: cs0).filter (fun (e : Entry) => !isSent s3.db e.blk.id) = c0 :: cs0 := by
        rw [List.filter_eq_self]; intro e _; rw [hs3db, isSent_false_of_unsent db2 hns2]; rfl
      rw [this]; simp
    -- the last block of the chain is the incoming block
    rcases List.eq_nil_or_concat (c0 :: cs0) with hnil | ⟨lc0, eb, hlceb⟩
    · cases hnil
    rw [List.concat_eq_append] at hlceb
    have heblast := hlast eb (by rw [hlceb]; simp)
    have hebid : eb.blk.id = b.id := by have := congrArg Ref.id heblast; simpa [Blk.ref] using this
    have heblib : eb.blk.lib = b.lib := by
      obtain ⟨e0, g1, _, _, _, g5⟩ := hfa5 eb (by rw [hlceb]; simp)
      rw [hebid, hfind2] at g1
      have hself : (appendBlk s.db b).find b.id = some ⟨b, false⟩ := find_append_self s.db b hf
      rw [hself] at g1
      injection g1 with g1
      rw [← g5, ← g1]
    have hebunsent : (fun (e : Entry) => !isSent s3.db e.blk.id) eb = true := by
      simp only [hs3db, isSent_false_of_unsent db2 hns2, Bool.not_false]
    have hlastSent : a.st.lastSent = some eb.blk := by
      rw [hout.last, hlceb, getLast_filter_of_last _ lc0 eb hebunsent]; rfl
    have hI2 : Inv a.st ((c0 :: cs0).map (·.blk.id)) := by
      refine ⟨by rw [hsame.1, hs3lib]; exact hRne,
        Forkable.SameBlks.wf hsame (by rw [hs3db]; exact hw2), Forkable.SameBlks.heights hsame (by rw [hs3db]; exact hh2),
        ?_, ?_, ?_, ?_, ?_, ?_, ?_, Or.inl (by rw [hout.seen, ← hs3]; exact hP.seenEmpty)⟩
      · rw [hsame.1, hsame.isPath, hs3lib, hs3db]; exact hp
      · rw [hsame.1, hs3lib]; exact hn
      · intro x hx
        obtain ⟨e, he, rfl⟩ := List.mem_map.mp hx
        exact hout.sentIn e he
      · intro l hl
        rw [hlastSent] at hl
        injection hl with hl
        rw [hsame.1, hs3lib, htop, ← hl, hebid]; rfl
      · intro hnone; rw [hlastSent] at hnone; cases hnone
      · intro c cs hcache _
        rw [hout.cache, ← hs3] at hcache
        simp only [Option.some.injEq] at hcache
        rw [← hcache, hsame.1, hs3lib]
        refine ⟨?_, hn, ?_⟩
        · rw [hsame.isPath, hs3db]; exact hp
        · exact faithful_same hsame _ (by rw [hs3db]; exact hfa)
      · intro i n hin
        rw [hsame.2.2, hs3db, ← hdb2] at hin
        simp only [DB.moveLIB, appendBlk] at hin
        rw [hP.noInitNum] at hin; cases hin
    -- the LIB entry and the declared LIB in the buffer after the deliveries
    have hfindL : ∃ L, a.st.db.find a.st.db.libRef.id = some L ∧ L.blk = er.blk := by
      have := hsame.find_blk R.id
      rw [hs3db, hfer] at this
      rw [hsame.1, hs3lib]
      cases hfa' : a.st.db.find R.id with
      | none => rw [hfa'] at this; simp at this
      | some L =>
        rw [hfa'] at this
        simp only [Option.map_some, Option.some.injEq] at this
        exact ⟨L, rfl, this⟩
    obtain ⟨L, hLf, hLblk⟩ := hfindL
    have hRa : a.st.db.blockInChain eb.blk.ref eb.blk.lib = a.st.db.libRef := by
      rw [hsame.blockInChain, hs3db, ← hdb2, blockInChain_moveLIB, heblast, heblib, ← hR, hsame.1, hs3lib]
    have hadv := advance_first cfg hirr a hef hen b _ hI2 eb.blk hlastSent L hLf
      (by rw [hLblk, hnumR, hsame.1, hs3lib]) er hLblk.symm hRa
      (by intro c cs hcache
          rw [hout.cache, ← hs3] at hcache
          simp only [Option.some.injEq] at hcache
          rw [← hcache])
      (by intro c cs hcache
          rw [hout.cache, ← hs3] at hcache
          simp only [Option.some.injEq, List.cons.injEq] at hcache
          rw [hsame.1, hs3lib, ← hcache.1]
          obtain ⟨e0, h0, h1, _⟩ := hfa c0 (by simp)
          rw [← h1, ← link_of_find _ _ e0 h0]
          exact hp.1)
    obtain ⟨_, _, hadvevs, hadvdb, hadvI⟩ := hadv
    have herid : er.blk.id = R.id := find_id _ _ er hfer
    -- C04: the New events carry the discovered LIB, strictly below the delivered blocks; Irreversible events carry themselves
    have hcl : CursorLibOK (finish (advanceAcc cfg a b (some er))).2.1 := by
      show CursorLibOK (advanceAcc cfg a b (some er)).evs
      obtain ⟨t, ht, hg⟩ := advanceAcc_evs_sub cfg a b (some er)
      rw [ht]
      intro e he hstep
      rcases List.mem_append.mp he with he | he
      · have hsw := emitSwitch_switchEvs cfg s3 b (c0 :: cs0) [] [] none none
        rw [hea] at hsw
        obtain ⟨_, hlibe⟩ := hsw.2 e he
        have hcur : cursorLIB s3 = R := by
          unfold cursorLIB
          have : s3.lastLIBSeen = Ref.empty := by rw [← hs3]; exact hP.seenEmpty
          rw [this, hs3lib]; rfl
        have hm : sbOf e ∈ a.evs.map sbOf := List.mem_map_of_mem he
        rw [hevs] at hm
        obtain ⟨x, hx, hxe⟩ := List.mem_map.mp hm
        have hblk : e.blk = x.blk := by
          have := congrArg Prod.snd hxe; simpa [sbOf] using this.symm
        obtain ⟨e0, h0, _, hnum0⟩ := hfa x hx
        have hab := heights_path db2 hh2 R.id R.num _ (by rw [← hlib2]; rw [hlib2]; exact hp)
          (by have := hh2.2.1; rw [hlib2] at this; exact this) x.blk.id (List.mem_map.mpr ⟨x, hx, rfl⟩) e0 h0
        rw [hlibe, hcur, hblk, ← hnum0]; omega
      · rcases hg e he with ⟨_, h2⟩ | h1
        · rw [h2]; exact Nat.le_refl _
        · rw [h1] at hstep; rcases hstep with hstep | hstep <;> cases hstep
    right; right
    refine ⟨er.blk, (c0 :: cs0).map (·.blk), ?_, ?_, ?_, ?_, ?_, ?_⟩
    rotate_right
    · -- the head block is the stored entry of the incoming block
      refine ⟨?_, hcl⟩
      show HeadU U (advanceAcc cfg a b (some er)).st
      intro l hl
      rw [advanceAcc_lastSent, hlastSent] at hl
      have hl' : eb.blk = l := Option.some.inj hl
      have hn : eb.blk.num = b.num := by have := congrArg Ref.num heblast; simpa [Blk.ref] using this
      exact ⟨b, by rw [← hl', hebid]; exact hbU, by rw [← hl', hn]⟩
    · show er.blk.id = (advanceAcc cfg a b (some er)).st.db.libRef.id
      rw [hadvdb, herid]
      show R.id = a.st.db.libRef.id
      rw [hsame.1, hs3lib]
    · show (advanceAcc cfg a b (some er)).evs.map sbOf = _
      rw [hadvevs, hevs, hLblk]
      simp
    · rw [herid]; exact linked_of_path db2 _ _ hp hfa
    · show Inv (advanceAcc cfg a b (some er)).st _
      have : ((c0 :: cs0).map (·.blk)).map (·.id) = (c0 :: cs0).map (·.blk.id) := by simp
      rw [this]; exact hadvI
    · show Inv2 U [er.blk.id] (advanceAcc cfg a b (some er)).st.db
      rw [hadvdb, herid]
      apply inv2_purgeSame U [R.id] a.st.db hI2.wf
      apply inv2_sent U [R.id] s3.db a.st.db (by rw [hs3db]; exact hw2) (by rw [hs3db]; exact hJ2) hsame
        ((c0 :: cs0).map (·.blk.id))
      · rw [hs3lib, hs3db]; exact hp
      · intro x hx
        obtain ⟨e, he, rfl⟩ := List.mem_map.mp hx
        exact hout.sentIn e he
      · exact hout.sentOut

end BstreamVerif.Forkable

namespace BstreamVerif.Forkable
open BstreamVerif BstreamVerif.ForkDB

theorem blockInChainAux_num' (db : DB) (target fuel : Nat) (cur : Id) (curNum : Nat)
    (h : (db.blockInChainAux target fuel cur curNum).id ≠ "") :
    (db.blockInChainAux target fuel cur curNum).num = target := by
  induction fuel generalizing cur curNum with
  | zero => simp [DB.blockInChainAux, Ref.empty] at h
  | succ n ih =>
    unfold DB.blockInChainAux at h ⊢
    simp only at h ⊢
    cases hn : db.numOf? (db.link cur) with
    | none => rw [hn] at h; simp [Ref.empty] at h
    | some pn =>
      rw [hn] at h
      simp only at h ⊢
      by_cases h1 : (pn == target) = true
      · simp only [h1, if_true]; exact beq_iff_eq.mp h1
      · simp only [h1, Bool.false_eq_true, if_false] at h ⊢
        by_cases h2 : pn < target
        · simp only [h2, if_true]
        · simp only [h2, if_false] at h ⊢
          exact ih _ _ h

/-- the LIB was set but no chain leads from it to the incoming block: nothing is delivered -/
theorem discovery_nochain (U : Id → Option Blk) (hU : UOK U) (s : FState) (b : Blk)
    (hP : PreInv U s) (hb : WFin b) (hbU : U b.id = some b) (hf : s.db.find b.id = none) (hL : LibDeclOK s.db b)
    (R : Ref) (hR : R = (appendBlk s.db b).blockInChain b.ref b.lib) (hRne : R.id ≠ "")
    (er : Entry) (hfer : ((appendBlk s.db b).moveLIB R).find R.id = some er) (c : Option (List Entry))
    (hc : c = none ∨ c = some []) :
    DiscoveryStep U b { s with db := (appendBlk s.db b).moveLIB R, cache := c } [] := by
  generalize hdb2 : (appendBlk s.db b).moveLIB R = db2 at hfer ⊢
  have hent : db2.entries = (appendBlk s.db b).entries := by rw [← hdb2]; rfl
  have hlib2 : db2.libRef = R := by rw [← hdb2]; rfl
  have hfind2 : ∀ x, db2.find x = (appendBlk s.db b).find x := by intro x; rw [← hdb2]; rfl
  have hP1 := preInv_append U s b hP hb hbU hf
  have hw2 : WfEntries db2 := by
    have := hP1.wf; unfold WfEntries at this ⊢; rw [hent]; exact this
  have hin2 : ∀ e ∈ db2.entries, U e.blk.id = some e.blk := by rw [hent]; exact hP1.inU
  have hns2 : ∀ e ∈ db2.entries, e.sent = false := by rw [hent]; exact hP1.noSent
  have hnumR : er.blk.num = R.num := by
    have := hL er (by rw [← hR, ← hfind2]; exact hfer)
    rw [hR]; exact this
  have hfer' : db2.find db2.libRef.id = some er := by rw [hlib2]; exact hfer
  have hh2 : Heights db2 := heights_of_universe U hU db2 hw2 hin2 er hfer' (by rw [hlib2]; exact hnumR)
  have hJ2 : Inv2 U [R.id] db2 := by
    have := inv2_fresh_lib U hU db2 hin2 hns2 er hfer' (by rw [hlib2]; exact hnumR)
    rw [hlib2] at this; exact this
  have herid : er.blk.id = R.id := find_id _ _ er hfer
  right; right
  refine ⟨er.blk, [], by simp only; rw [hlib2, herid], by simp, trivial, ?_, by rw [herid]; exact hJ2,
    (by intro l hl; simp only at hl; rw [hP.noLast] at hl; cases hl), (by intro e he; cases he)⟩
  refine ⟨by simp only; rw [hlib2]; exact hRne, hw2, hh2, trivial, by simp, by simp, ?_, ?_, ?_, ?_, Or.inl hP.seenEmpty⟩
  · intro l hl; simp only at hl; rw [hP.noLast] at hl; cases hl
  · intro _; exact ⟨rfl, hns2⟩
  · intro c' cs' hcc _
    simp only at hcc
    rcases hc with rfl | rfl <;> cases hcc
  · intro i n hin
    simp only at hin
    rw [← hdb2] at hin
    simp only [DB.moveLIB, appendBlk] at hin
    rw [hP.noInitNum] at hin; cases hin

/-- the incoming block is its own LIB (first streamable block, or a block declaring itself final): it is delivered
    New and announced irreversible at once -/
theorem discovery_initial (cfg : Config) (hnew : cfg.matches .new = true) (hirr : cfg.matches .irreversible = true)
    (U : Id → Option Blk) (hU : UOK U) (s : FState) (b : Blk)
    (hP : PreInv U s) (hb : WFin b) (hbU : U b.id = some b) (hf : s.db.find b.id = none)
    (hl : ((appendBlk s.db b).setLIB cfg.fsb b.ref b.lib).hasLIB = true)
    (hnum : ((appendBlk s.db b).setLIB cfg.fsb b.ref b.lib).libRef.num = b.num) :
    DiscoveryStep U b
      (processInitialInclusive cfg { s with db := (appendBlk s.db b).setLIB cfg.fsb b.ref b.lib } b none).1
      (processInitialInclusive cfg { s with db := (appendBlk s.db b).setLIB cfg.fsb b.ref b.lib } b none).2.1 := by
  -- the LIB reference is the block itself
  have hdb2 : (appendBlk s.db b).setLIB cfg.fsb b.ref b.lib = { appendBlk s.db b with libRef := b.ref } := by
    rcases setLIB_cases (appendBlk s.db b) cfg.fsb b.ref b.lib with h | h | ⟨h, hne, _⟩
    · rw [h] at hl
      have : (appendBlk s.db b).hasLIB = false := hasLIB_empty _ hP.noLib
      rw [this] at hl; cases hl
    · exact h
    · rw [h] at hnum ⊢
      simp only [DB.moveLIB] at hnum ⊢
      have : (appendBlk s.db b).blockInChain b.ref b.lib = b.ref := by
        unfold DB.blockInChain at hnum hne ⊢
        by_cases hs : (b.ref.num == b.lib) = true
        · simp [hs]
        · exfalso
          simp only [hs, Bool.false_eq_true, if_false] at hnum hne
          have := blockInChainAux_num' _ _ _ _ _ hne
          rw [this] at hnum
          simp [Blk.ref, hnum] at hs
      rw [this]
  rw [hdb2]
  generalize hd : ({ appendBlk s.db b with libRef := b.ref } : DB) = db2
  have hent : db2.entries = (appendBlk s.db b).entries := by rw [← hd]
  have hlib2 : db2.libRef = b.ref := by rw [← hd]
  have hfind2 : ∀ x, db2.find x = (appendBlk s.db b).find x := by intro x; rw [← hd]; rfl
  have hP1 := preInv_append U s b hP hb hbU hf
  have hw2 : WfEntries db2 := by
    have := hP1.wf; unfold WfEntries at this ⊢; rw [hent]; exact this
  have hin2 : ∀ e ∈ db2.entries, U e.blk.id = some e.blk := by rw [hent]; exact hP1.inU
  have hns2 : ∀ e ∈ db2.entries, e.sent = false := by rw [hent]; exact hP1.noSent
  have hself : db2.find b.id = some ⟨b, false⟩ := by rw [hfind2]; exact find_append_self s.db b hf
  have hfer' : db2.find db2.libRef.id = some ⟨b, false⟩ := by rw [hlib2]; exact hself
  have hh2 : Heights db2 := heights_of_universe U hU db2 hw2 hin2 ⟨b, false⟩ hfer' (by rw [hlib2]; rfl)
  have hJ2 : Inv2 U [b.id] db2 := by
    have := inv2_fresh_lib U hU db2 hin2 hns2 ⟨b, false⟩ hfer' (by rw [hlib2]; rfl)
    rw [hlib2] at this; exact this
  -- the block is stored: AddLink is a no-op
  have hadd : db2.addLink b = (db2, true) := by
    unfold DB.addLink
    have h1 : (b.id == b.parent || b.id == "") = false := by simp [hb.1, hb.2.2]
    have h2 : (db2.link b.id != "") = true := by
      simp only [DB.link, hself, bne_iff_ne, ne_eq]; exact hb.2.1
    simp [h1, h2]
  unfold processInitialInclusive
  rw [initialAcc_eq]
  simp only [hadd, Bool.not_true, Bool.false_and]
  generalize hs' : ({ s with db := db2 } : FState) = s'
  have hs'db : s'.db = db2 := by rw [← hs']
  have hfirst : initFirst cfg s' b none = phase ⟨s', [], none, false⟩ [⟨.new, b, b.ref, cursorLIB s', none, 0, 0⟩] := by
    unfold initFirst; simp [hnew]
  have hp := phase_nofail ⟨s', [], none, false⟩ [⟨.new, b, b.ref, cursorLIB s', none, 0, 0⟩] ⟨rfl, rfl⟩
  rw [hfirst]
  generalize hx : phase ⟨s', [], none, false⟩ [⟨.new, b, b.ref, cursorLIB s', none, 0, 0⟩] = x at hp
  rw [if_neg (by rw [hp.1]; simp)]
  have hn1 := processIrr_nofail cfg { x with st := initSt false b x.st } [⟨b, true⟩] b.ref (fun _ => none) ⟨hp.1, hp.2.1⟩
  have hseen := processIrr_st_nofail cfg { x with st := initSt false b x.st } [⟨b, true⟩] b.ref (fun _ => none) hp.1 hp.2.1 ⟨b, true⟩ (by simp)
  have hfinst : (finish (processIrr cfg { x with st := initSt false b x.st } [⟨b, true⟩] b.ref)).1 =
      { initSt false b s' with lastLIBSeen := b.ref } := by
    unfold finish; simp only; rw [hseen]; simp only [hp.2.2.2]
  have hfinevs : (finish (processIrr cfg { x with st := initSt false b x.st } [⟨b, true⟩] b.ref)).2.1 =
      [⟨.new, b, b.ref, cursorLIB s', none, 0, 0⟩] ++ irrEvents cfg [⟨b, true⟩] b.ref (fun _ => none) := by
    unfold finish; simp only; rw [hn1.2.2]; simp only [hp.2.2.1, List.nil_append]
  right; left
  rw [hfinst, hfinevs]
  refine ⟨by simp only [initSt, Bool.false_eq_true, if_false]; rw [hs'db, hlib2], ?_, ?_, ?_, ?_⟩
  rotate_right
  · refine ⟨?_, ?_⟩
    · intro l hl'
      simp only [initSt, Option.some.injEq] at hl'
      exact ⟨b, by rw [← hl']; exact hbU, by rw [← hl']⟩
    · -- C04: the New event carries the block itself as LIB (it is its own LIB), the Irreversible event too
      intro e he _
      simp only [List.mem_append, List.mem_singleton] at he
      rcases he with rfl | he
      · have : cursorLIB s' = b.ref := by
          unfold cursorLIB
          have : s'.lastLIBSeen = Ref.empty := by rw [← hs']; exact hP.seenEmpty
          rw [this, hs'db, hlib2]; rfl
        simp only [this]; exact Nat.le_refl _
      · rw [irrEvents_lib_self cfg _ _ _ e he]; exact Nat.le_refl _
  · rw [List.map_append, irrEvents_sb cfg hirr]
    simp [sbOf]
  · apply inv_seen _ _ _ _ (by simp only [initSt, Bool.false_eq_true, if_false]; rw [hs'db, hlib2])
    simp only [initSt, Bool.false_eq_true, if_false]
    refine ⟨by rw [hs'db, hlib2]; exact hb.1, by rw [hs'db]; exact hw2, by rw [hs'db]; exact hh2,
      trivial, by simp, by simp, ?_, ?_, ?_, ?_, ?_⟩
    · intro l hl'
      simp only [Option.some.injEq] at hl'
      rw [hs'db, hlib2, ← hl']; rfl
    · intro hnone; cases hnone
    · intro c cs hcc _
      simp only at hcc
      rw [← hs'] at hcc
      simp only at hcc
      rw [hP.noCache] at hcc; cases hcc
    · intro i n hin
      simp only at hin
      rw [hs'db, ← hd] at hin
      simp only [appendBlk] at hin
      rw [hP.noInitNum] at hin; cases hin
    · exact Or.inl (by rw [← hs']; exact hP.seenEmpty)
  · simp only [initSt, Bool.false_eq_true, if_false]
    rw [hs'db]; exact hJ2

end BstreamVerif.Forkable

namespace BstreamVerif.Forkable
open BstreamVerif BstreamVerif.ForkDB

/-- **one incoming block before the LIB is known** (hold-until-LIB forkable, as used by the hub) -/
theorem discovery_step (cfg : Config) (hhold : cfg.hold = true) (hnew : cfg.matches .new = true)
    (hundo : cfg.matches .undo = true) (hirr : cfg.matches .irreversible = true)
    (U : Id → Option Blk) (hU : UOK U) (s : FState) (b : Blk) (hP : PreInv U s) (hbU : U b.id = some b)
    (hL : LibDeclOK s.db b) :
    DiscoveryStep U b (processBlock cfg s b none).1 (processBlock cfg s b none).2.1 := by
  have hb := hU.wf b.id b hbU
  unfold processBlock
  rcases plan_pre cfg hhold U s b hP hb with ⟨hpl, _⟩ | ⟨hex, hrest⟩
  · rw [hpl]; exact Or.inl ⟨hP, rfl⟩
  obtain ⟨hf, _⟩ := fresh_of_addLink s.db b hP.wf hb hex
  simp only at hrest
  rcases hrest with ⟨_, hpl⟩ | ⟨hl, hnum, hpl⟩ | ⟨hl, hnum, hpl⟩
  · rw [hpl]; exact Or.inl ⟨preInv_append U s b hP hb hbU hf, rfl⟩
  · rw [hpl]; exact discovery_initial cfg hnew hirr U hU s b hP hb hbU hf hl hnum
  · -- the LIB is a stored ancestor
    have hdb2 : (appendBlk s.db b).setLIB cfg.fsb b.ref b.lib =
        (appendBlk s.db b).moveLIB ((appendBlk s.db b).blockInChain b.ref b.lib) ∧
        ((appendBlk s.db b).blockInChain b.ref b.lib).id ≠ "" := by
      rcases setLIB_cases (appendBlk s.db b) cfg.fsb b.ref b.lib with h | h | ⟨h, hne, _⟩
      · rw [h] at hl
        have : (appendBlk s.db b).hasLIB = false := hasLIB_empty _ hP.noLib
        rw [this] at hl; cases hl
      · rw [h] at hnum; exact absurd rfl hnum
      · exact ⟨h, hne⟩
    obtain ⟨hdb2, hRne⟩ := hdb2
    generalize hR : (appendBlk s.db b).blockInChain b.ref b.lib = R at hdb2 hRne
    rw [hdb2] at hpl hnum
    have hpresR : ((appendBlk s.db b).find R.id).isSome = true := by
      rw [← hR]
      apply blockInChain_present (appendBlk s.db b) hP.noInitNum b.ref b.lib
      · show ((appendBlk s.db b).find b.id).isSome = true
        rw [show (appendBlk s.db b).find b.id = some ⟨b, false⟩ from find_append_self s.db b hf]; rfl
      · rw [hR]; exact hRne
    cases hfer : (appendBlk s.db b).find R.id with
    | none => rw [hfer] at hpresR; cases hpresR
    | some er =>
      have hfer2 : ((appendBlk s.db b).moveLIB R).find R.id = some er := hfer
      have hfirst : ((appendBlk s.db b).moveLIB R).find ((appendBlk s.db b).moveLIB R).libRef.id = some er := hfer
      rw [hpl]
      cases hc : computeLongestChain cfg { s with db := (appendBlk s.db b).moveLIB R } b with
      | none =>
        exact discovery_nochain U hU s b hP hb hbU hf hL R hR.symm hRne er hfer2 none (Or.inl rfl)
      | some lc =>
        cases lc with
        | nil => exact discovery_nochain U hU s b hP hb hbU hf hL R hR.symm hRne er hfer2 (some []) (Or.inr rfl)
        | cons c0 cs0 =>
          simp only
          rw [hfirst]
          exact discovery_switch cfg hnew hundo hirr U hU s b hP hb hbU hf hL R hR.symm hRne
            (by simpa [DB.moveLIB] using hnum) c0 cs0 hc er hfer2

end BstreamVerif.Forkable
