import BstreamVerif.Model.Index
namespace BstreamVerif.IndexLemmas
open BstreamVerif.Index

abbrev Asc (l : List Nat) : Prop := l.Pairwise (· < ·)

theorem mem_bmInsert (n m : Nat) (l : Bitmap) : m ∈ bmInsert n l ↔ m = n ∨ m ∈ l := by
  induction l with
  | nil => simp [bmInsert]
  | cons x xs ih =>
    unfold bmInsert
    split
    · simp
    · split
      · rename_i h; simp only [beq_iff_eq] at h; subst h; simp
      · simp only [List.mem_cons, ih]; constructor
        · rintro (h | h | h) <;> simp [h]
        · rintro (h | h | h) <;> simp [h]

theorem bmInsert_asc (n : Nat) (l : Bitmap) (h : Asc l) : Asc (bmInsert n l) := by
  induction l with
  | nil => simp [bmInsert]
  | cons x xs ih =>
    have hx := List.pairwise_cons.mp h
    unfold bmInsert
    split
    · rename_i hlt
      refine List.pairwise_cons.mpr ⟨?_, h⟩
      intro a ha
      simp only [List.mem_cons] at ha
      rcases ha with rfl | ha
      · exact hlt
      · exact Nat.lt_trans hlt (hx.1 a ha)
    · split
      · exact h
      · rename_i h1 h2
        simp only [beq_iff_eq] at h2
        refine List.pairwise_cons.mpr ⟨?_, ih hx.2⟩
        intro a ha
        rcases (mem_bmInsert n a xs).mp ha with rfl | ha
        · omega
        · exact hx.1 a ha

theorem mem_bmUnion (a b : Bitmap) (m : Nat) : m ∈ bmUnion a b ↔ m ∈ a ∨ m ∈ b := by
  unfold bmUnion
  induction a generalizing b with
  | nil => simp
  | cons x xs ih =>
    simp only [List.foldl_cons, ih, mem_bmInsert, List.mem_cons]
    constructor
    · rintro (h | h | h) <;> simp [h]
    · rintro ((h | h) | h) <;> simp [h]

theorem bmUnion_asc (a b : Bitmap) (h : Asc b) : Asc (bmUnion a b) := by
  unfold bmUnion
  induction a generalizing b with
  | nil => simpa
  | cons x xs ih => exact ih _ (bmInsert_asc x b h)

/-- on an ascending list the early-exit scan of BlocksInRange is the plain filter on [lo, hi) -/
theorem scan_eq_filter (lo hi : Nat) (l : Bitmap) (h : Asc l) :
    scan lo hi l = l.filter (fun n => decide (lo ≤ n) && decide (n < hi)) := by
  induction l with
  | nil => rfl
  | cons x xs ih =>
    have hx := List.pairwise_cons.mp h
    unfold scan
    by_cases h1 : x < lo
    · have : (decide (lo ≤ x) && decide (x < hi)) = false := by simp; omega
      simp [h1, this, ih hx.2]
    · by_cases h2 : x ≥ hi
      · have : (decide (lo ≤ x) && decide (x < hi)) = false := by simp; omega
        simp only [h1, if_false, h2, if_true, List.filter_cons, this, Bool.false_eq_true]
        symm
        apply List.filter_eq_nil_iff.mpr
        intro a ha
        have := hx.1 a ha
        simp; omega
      · have : (decide (lo ≤ x) && decide (x < hi)) = true := by simp; omega
        simp [h1, h2, this, ih hx.2]

theorem matchingOf_mem (want : Key → Bool) (f : IndexFile) (n : Nat) :
    n ∈ matchingOf want f ↔ ∃ p ∈ f.kv, want p.1 = true ∧ n ∈ p.2 := by
  unfold matchingOf
  generalize f.kv = kv
  suffices h : ∀ (acc : Bitmap), n ∈ (kv.filter (fun p => want p.1)).foldl (fun acc p => bmUnion p.2 acc) acc ↔
      n ∈ acc ∨ ∃ p ∈ kv, want p.1 = true ∧ n ∈ p.2 by simpa using h []
  induction kv with
  | nil => intro acc; simp
  | cons p ps ih =>
    intro acc
    by_cases hw : want p.1 = true
    · simp only [List.filter_cons, hw, if_true, List.foldl_cons, ih, mem_bmUnion, List.mem_cons, exists_eq_or_imp]
      constructor
      · rintro ((h | h) | h)
        · exact Or.inr (Or.inl ⟨trivial, h⟩)
        · exact Or.inl h
        · exact Or.inr (Or.inr h)
      · rintro (h | ⟨_, h⟩ | h)
        · exact Or.inl (Or.inr h)
        · exact Or.inl (Or.inl h)
        · exact Or.inr h
    · simp only [List.filter_cons, hw, Bool.false_eq_true, if_false, ih, List.mem_cons, exists_eq_or_imp]
      constructor
      · rintro (h | h)
        · exact Or.inl h
        · exact Or.inr (Or.inr h)
      · rintro (h | ⟨h, _⟩ | h)
        · exact Or.inl h
        · exact absurd h (by simpa using hw)
        · exact Or.inr h

theorem matchingOf_asc (want : Key → Bool) (f : IndexFile) : Asc (matchingOf want f) := by
  unfold matchingOf
  generalize f.kv.filter (fun p => want p.1) = l
  suffices h : ∀ acc : Bitmap, Asc acc → Asc (l.foldl (fun acc p => bmUnion p.2 acc) acc) from h [] (by simp)
  induction l with
  | nil => intro acc h; simpa
  | cons p ps ih => intro acc h; exact ih _ (bmUnion_asc _ _ h)

end BstreamVerif.IndexLemmas
