import BstreamVerif.Model.Forkable
import BstreamVerif.Lemmas.ForkDBLemmas
/-!
Facts about `Forkable.processBlock` that need no invariant: what a failing handler sees, what a re-fed block does,
which head every event names, what the purge leaves.
-/
namespace BstreamVerif.Forkable
open BstreamVerif BstreamVerif.ForkDB

/-! ### the phases with respect to handler failures

`Sim k a₀ a` relates an accumulator `a` of a run whose (k+1)-th handler call fails to the accumulator `a₀` of the same
run with a handler that never fails. -/

structure Sim (k : Nat) (a0 a : Acc) : Prop where
  nofail0 : a0.failed = false ∧ a0.failAt = none
  run : (a.failed = false ∧ a.st = a0.st ∧ a.evs = a0.evs ∧ a.failAt = some (k - a0.evs.length) ∧ a0.evs.length ≤ k)
      ∨ (a.failed = true ∧ a.evs = a0.evs.take (k + 1) ∧ k < a0.evs.length)

theorem phase_sim (k : Nat) (a0 a : Acc) (evs : List Event) (h : Sim k a0 a) : Sim k (phase a0 evs) (phase a evs) := by
  obtain ⟨⟨hf0, hn0⟩, hr⟩ := h
  have h0 : phase a0 evs = { a0 with evs := a0.evs ++ evs, failed := false, failAt := none } := by
    simp [phase, hf0, hn0, deliver]
  rw [h0]
  refine ⟨⟨rfl, rfl⟩, ?_⟩
  rcases hr with ⟨hf, hst, hev, hfa, hle⟩ | ⟨hf, hev, hlt⟩
  · by_cases hk : k - a0.evs.length < evs.length
    · right
      have hp : phase a evs = { a with evs := a.evs ++ evs.take (k - a0.evs.length + 1), failed := true, failAt := none } := by
        simp [phase, hf, hfa, deliver, hk]
      rw [hp]
      refine ⟨rfl, ?_, by simp only [List.length_append]; omega⟩
      show a.evs ++ _ = _
      rw [hev, List.take_append, List.take_of_length_le (by omega : a0.evs.length ≤ k + 1)]
      have : k + 1 - a0.evs.length = k - a0.evs.length + 1 := by omega
      rw [this]
    · left
      have hp : phase a evs = { a with evs := a.evs ++ evs, failed := false, failAt := some (k - a0.evs.length - evs.length) } := by
        simp [phase, hf, hfa, deliver, hk]
      rw [hp]
      refine ⟨rfl, hst, by show a.evs ++ evs = _; rw [hev], ?_, by simp only [List.length_append]; omega⟩
      show some _ = some _
      simp only [List.length_append]
      congr 1; omega
  · right
    have hp : phase a evs = a := by simp [phase, hf]
    rw [hp]
    refine ⟨hf, ?_, by simp only [List.length_append]; omega⟩
    rw [hev, List.take_append]
    have : k + 1 - a0.evs.length = 0 := by omega
    simp [this]


theorem sim_of_failed {k : Nat} {a0 a a0' : Acc} (h : Sim k a0 a) (hf : a.failed = true)
    (hn : a0'.failed = false ∧ a0'.failAt = none) (hext : ∃ t, a0'.evs = a0.evs ++ t) : Sim k a0' a := by
  obtain ⟨_, hr⟩ := h
  rcases hr with ⟨hf', _⟩ | ⟨_, hev, hlt⟩
  · rw [hf] at hf'; cases hf'
  · obtain ⟨t, ht⟩ := hext
    refine ⟨hn, Or.inr ⟨hf, ?_, by rw [ht]; simp only [List.length_append]; omega⟩⟩
    rw [hev, ht, List.take_append]
    have : k + 1 - a0.evs.length = 0 := by omega
    simp [this]

theorem sim_init (k : Nat) (s : FState) : Sim k ⟨s, [], none, false⟩ ⟨s, [], some k, false⟩ :=
  ⟨⟨rfl, rfl⟩, Or.inl ⟨rfl, rfl, rfl, rfl, Nat.zero_le _⟩⟩

/-! explicit values of one step of processNew -/
def newEv (head : Ref) (st : FState) (e : Entry) : Event := ⟨.new, e.blk, head, cursorLIB st, none, 0, 0⟩
def sentSt (st : FState) (e : Entry) : FState := { st with db := st.db.markSent e.blk.id, lastSent := some e.blk }

theorem newStep_failed (cfg : Config) (head : Ref) (a : Acc) (e : Entry) (h : a.failed = true) :
    newStep cfg head a e = a := by simp [newStep, h]
theorem newStep_sent (cfg : Config) (head : Ref) (a : Acc) (e : Entry) (h : a.failed = false)
    (hs : isSent a.st.db e.blk.id = true) : newStep cfg head a e = a := by simp [newStep, h, hs]
theorem newStep_nosend (cfg : Config) (head : Ref) (a : Acc) (e : Entry) (h : a.failed = false)
    (hs : isSent a.st.db e.blk.id = false) (hd : cfg.matches .new = false) :
    newStep cfg head a e = ⟨sentSt a.st e, a.evs, a.failAt, false⟩ := by
  simp [newStep, h, hs, hd, sentSt]
theorem newStep_send_none (cfg : Config) (head : Ref) (a : Acc) (e : Entry) (h : a.failed = false)
    (hs : isSent a.st.db e.blk.id = false) (hd : cfg.matches .new = true) (hf : a.failAt = none) :
    newStep cfg head a e = ⟨sentSt a.st e, a.evs ++ [newEv head a.st e], none, false⟩ := by
  simp [newStep, h, hs, hd, hf, sentSt, newEv]
theorem newStep_send_zero (cfg : Config) (head : Ref) (a : Acc) (e : Entry) (h : a.failed = false)
    (hs : isSent a.st.db e.blk.id = false) (hd : cfg.matches .new = true) (hf : a.failAt = some 0) :
    newStep cfg head a e = ⟨a.st, a.evs ++ [newEv head a.st e], none, true⟩ := by
  simp [newStep, h, hs, hd, hf, newEv]
theorem newStep_send_succ (cfg : Config) (head : Ref) (a : Acc) (e : Entry) (h : a.failed = false)
    (hs : isSent a.st.db e.blk.id = false) (hd : cfg.matches .new = true) (j : Nat) (hf : a.failAt = some (j + 1)) :
    newStep cfg head a e = ⟨sentSt a.st e, a.evs ++ [newEv head a.st e], some j, false⟩ := by
  simp [newStep, h, hs, hd, hf, sentSt, newEv]

/-- what the never-failing run does in one step of processNew -/
theorem newStep_nofail (cfg : Config) (head : Ref) (a0 : Acc) (e : Entry) (h : a0.failed = false ∧ a0.failAt = none) :
    (newStep cfg head a0 e).failed = false ∧ (newStep cfg head a0 e).failAt = none ∧
    ∃ t, (newStep cfg head a0 e).evs = a0.evs ++ t := by
  by_cases hs : isSent a0.st.db e.blk.id = true
  · rw [newStep_sent cfg head a0 e h.1 hs]; exact ⟨h.1, h.2, [], by simp⟩
  · have hs : isSent a0.st.db e.blk.id = false := by simpa using hs
    by_cases hd : cfg.matches .new = true
    · rw [newStep_send_none cfg head a0 e h.1 hs hd h.2]; exact ⟨rfl, rfl, _, rfl⟩
    · have hd : cfg.matches .new = false := by simpa using hd
      rw [newStep_nosend cfg head a0 e h.1 hs hd]; exact ⟨rfl, h.2, [], by simp⟩

theorem newStep_sim (cfg : Config) (head : Ref) (k : Nat) (a0 a : Acc) (e : Entry) (h : Sim k a0 a) :
    Sim k (newStep cfg head a0 e) (newStep cfg head a e) := by
  have hn := newStep_nofail cfg head a0 e h.nofail0
  by_cases hf : a.failed = true
  · rw [newStep_failed cfg head a e hf]
    exact sim_of_failed h hf ⟨hn.1, hn.2.1⟩ hn.2.2
  · obtain ⟨⟨hf0, hn0⟩, hr⟩ := h
    rcases hr with ⟨hf', hst, hev, hfa, hle⟩ | ⟨hf', _⟩
    · by_cases hs : isSent a0.st.db e.blk.id = true
      · rw [newStep_sent cfg head a0 e hf0 hs, newStep_sent cfg head a e hf' (hst ▸ hs)]
        exact ⟨⟨hf0, hn0⟩, Or.inl ⟨hf', hst, hev, hfa, hle⟩⟩
      · have hs : isSent a0.st.db e.blk.id = false := by simpa using hs
        by_cases hd : cfg.matches .new = true
        · rw [newStep_send_none cfg head a0 e hf0 hs hd hn0]
          by_cases hk : k - a0.evs.length = 0
          · rw [newStep_send_zero cfg head a e hf' (hst ▸ hs) hd (hk ▸ hfa)]
            refine ⟨⟨rfl, rfl⟩, Or.inr ⟨rfl, ?_, by simp only [List.length_append, List.length_singleton]; omega⟩⟩
            show a.evs ++ _ = _
            rw [hev, hst, List.take_of_length_le]
            simp only [List.length_append, List.length_singleton]; omega
          · obtain ⟨j, hj⟩ : ∃ j, k - a0.evs.length = j + 1 := ⟨k - a0.evs.length - 1, by omega⟩
            rw [newStep_send_succ cfg head a e hf' (hst ▸ hs) hd j (hj ▸ hfa)]
            refine ⟨⟨rfl, rfl⟩, Or.inl ⟨rfl, by rw [hst], by rw [hev, hst], ?_, by simp only [List.length_append, List.length_singleton]; omega⟩⟩
            show some j = some _
            simp only [List.length_append, List.length_singleton]
            congr 1; omega
        · have hd : cfg.matches .new = false := by simpa using hd
          rw [newStep_nosend cfg head a0 e hf0 hs hd, newStep_nosend cfg head a e hf' (hst ▸ hs) hd]
          exact ⟨⟨rfl, hn0⟩, Or.inl ⟨rfl, by rw [hst], hev, hfa, hle⟩⟩
    · exact absurd hf' hf

theorem foldl_newStep_sim (cfg : Config) (head : Ref) (k : Nat) (chain : List Entry) (a0 a : Acc) (h : Sim k a0 a) :
    Sim k (chain.foldl (newStep cfg head) a0) (chain.foldl (newStep cfg head) a) := by
  induction chain generalizing a0 a with
  | nil => exact h
  | cons e r ih => exact ih _ _ (newStep_sim cfg head k a0 a e h)

theorem processNew_sim (cfg : Config) (k : Nat) (chain : List Entry) (a0 a : Acc) (h : Sim k a0 a) :
    Sim k (processNew cfg a0 chain) (processNew cfg a chain) := foldl_newStep_sim _ _ _ _ _ _ h

theorem phase_nofail (a0 : Acc) (evs : List Event) (h : a0.failed = false ∧ a0.failAt = none) :
    (phase a0 evs).failed = false ∧ (phase a0 evs).failAt = none ∧ (phase a0 evs).evs = a0.evs ++ evs ∧
    (phase a0 evs).st = a0.st := by
  simp [phase, h.1, h.2, deliver]

/-- the Irreversible events of one segment -/
def irrEvents (cfg : Config) (seg : List Entry) (head : Ref) (actual : Id → Option Blk) : List Event :=
  if cfg.matches .irreversible then
    seg.mapIdx (fun i e =>
      let blk := (actual e.blk.id).getD e.blk
      (⟨.irreversible, blk, head, blk.ref, none, i, seg.length⟩ : Event)) else []

def setSeen (a : Acc) (seg : List Entry) : Acc :=
  match seg.getLast? with
  | some l => { a with st := { a.st with lastLIBSeen := l.blk.ref } }
  | none => a

theorem processIrr_eq (cfg : Config) (a : Acc) (seg : List Entry) (head : Ref) (actual : Id → Option Blk) :
    processIrr cfg a seg head actual =
      if a.failed then a else
        if (phase a (irrEvents cfg seg head actual)).failed then phase a (irrEvents cfg seg head actual)
        else setSeen (phase a (irrEvents cfg seg head actual)) seg := by
  unfold processIrr irrEvents setSeen
  rfl

theorem setSeen_fields (a : Acc) (seg : List Entry) :
    (setSeen a seg).failed = a.failed ∧ (setSeen a seg).failAt = a.failAt ∧ (setSeen a seg).evs = a.evs := by
  unfold setSeen; cases seg.getLast? <;> exact ⟨rfl, rfl, rfl⟩

theorem processIrr_sim (cfg : Config) (k : Nat) (seg : List Entry) (head : Ref) (actual : Id → Option Blk)
    (a0 a : Acc) (h : Sim k a0 a) : Sim k (processIrr cfg a0 seg head actual) (processIrr cfg a seg head actual) := by
  have hp := phase_sim k a0 a (irrEvents cfg seg head actual) h
  have hn := phase_nofail a0 (irrEvents cfg seg head actual) h.nofail0
  have hs0 := setSeen_fields (phase a0 (irrEvents cfg seg head actual)) seg
  have e0 : processIrr cfg a0 seg head actual = setSeen (phase a0 (irrEvents cfg seg head actual)) seg := by
    rw [processIrr_eq]; simp [h.nofail0.1, hn.1]
  rw [e0]
  have hn0' : (setSeen (phase a0 (irrEvents cfg seg head actual)) seg).failed = false ∧
      (setSeen (phase a0 (irrEvents cfg seg head actual)) seg).failAt = none := ⟨hs0.1.trans hn.1, hs0.2.1.trans hn.2.1⟩
  by_cases hf : a.failed = true
  · have : processIrr cfg a seg head actual = a := by rw [processIrr_eq]; simp [hf]
    rw [this]
    exact sim_of_failed h hf hn0' ⟨_, hs0.2.2.trans hn.2.2.1⟩
  · by_cases hf2 : (phase a (irrEvents cfg seg head actual)).failed = true
    · have : processIrr cfg a seg head actual = phase a (irrEvents cfg seg head actual) := by
        rw [processIrr_eq]; simp [hf, hf2]
      rw [this]
      exact sim_of_failed hp hf2 hn0' ⟨[], by rw [hs0.2.2]; simp⟩
    · have : processIrr cfg a seg head actual = setSeen (phase a (irrEvents cfg seg head actual)) seg := by
        rw [processIrr_eq]; simp [hf, hf2]
      rw [this]
      have hs := setSeen_fields (phase a (irrEvents cfg seg head actual)) seg
      obtain ⟨_, hr⟩ := hp
      rcases hr with ⟨g1, g2, g3, g4, g5⟩ | ⟨g1, _⟩
      · refine ⟨hn0', Or.inl ⟨hs.1.trans g1, ?_, by rw [hs.2.2, hs0.2.2, g3], by rw [hs.2.1, hs0.2.2, g4], by rw [hs0.2.2]; exact g5⟩⟩
        unfold setSeen
        cases seg.getLast? with
        | none => exact g2
        | some l => simp only [g2]
      · exact absurd g1 hf2

theorem processStalled_sim (cfg : Config) (k : Nat) (st : List Entry) (head : Ref)
    (a0 a : Acc) (h : Sim k a0 a) : Sim k (processStalled cfg a0 st head) (processStalled cfg a st head) := by
  by_cases hf : a.failed = true
  · have : processStalled cfg a st head = a := by simp [processStalled, hf]
    rw [this]
    have e0 : processStalled cfg a0 st head = phase a0 (if cfg.matches .stalled then
      st.mapIdx (fun i e => (⟨.stalled, e.blk, head, a0.st.lastLIBSeen, none, i, st.length⟩ : Event)) else []) := by
      simp [processStalled, h.nofail0.1]
    rw [e0]
    have hn := phase_nofail a0 (if cfg.matches .stalled then
      st.mapIdx (fun i e => (⟨.stalled, e.blk, head, a0.st.lastLIBSeen, none, i, st.length⟩ : Event)) else []) h.nofail0
    exact sim_of_failed h hf ⟨hn.1, hn.2.1⟩ ⟨_, hn.2.2.1⟩
  · have hst : a.st = a0.st := by
      rcases h.run with ⟨_, g, _⟩ | ⟨g, _⟩
      · exact g
      · exact absurd g hf
    unfold processStalled
    simp only [hf, h.nofail0.1, Bool.false_eq_true, if_false, hst]
    exact phase_sim k a0 a _ h

theorem finish_sim (k : Nat) (a0 a : Acc) (h : Sim k a0 a) :
    (k < (finish a0).2.1.length → (finish a).2.1 = (finish a0).2.1.take (k + 1) ∧ (finish a).2.2 = .errHandler) ∧
    (¬ k < (finish a0).2.1.length → finish a = finish a0) := by
  obtain ⟨⟨hf0, hn0⟩, hr⟩ := h
  rcases hr with ⟨g1, g2, g3, g4, g5⟩ | ⟨g1, g2, g3⟩
  · have e1 : finish a = (a0.st, a0.evs, .ok) := by simp [finish, g1, g2, g3]
    have e0 : finish a0 = (a0.st, a0.evs, .ok) := by simp [finish, hf0]
    rw [e1, e0]
    exact ⟨fun hk => absurd hk (by simp only; omega), fun _ => rfl⟩
  · have e1 : finish a = (a.st, a0.evs.take (k + 1), .errHandler) := by simp [finish, g1, g2]
    have e0 : finish a0 = (a0.st, a0.evs, .ok) := by simp [finish, hf0]
    rw [e1, e0]
    exact ⟨fun _ => ⟨rfl, rfl⟩, fun hk => absurd g3 hk⟩


theorem sim_setSt (k : Nat) (a0 a : Acc) (f : FState → FState) (h : Sim k a0 a) :
    Sim k { a0 with st := f a0.st } { a with st := f a.st } := by
  obtain ⟨hn, hr⟩ := h
  refine ⟨hn, ?_⟩
  rcases hr with ⟨g1, g2, g3, g4, g5⟩ | ⟨g1, g2, g3⟩
  · exact Or.inl ⟨g1, by simp only [g2], g3, g4, g5⟩
  · exact Or.inr ⟨g1, g2, g3⟩

theorem processStalled_nofail (cfg : Config) (a0 : Acc) (st : List Entry) (head : Ref) (h : a0.failed = false ∧ a0.failAt = none) :
    (processStalled cfg a0 st head).failed = false ∧ (processStalled cfg a0 st head).failAt = none ∧
    ∃ t, (processStalled cfg a0 st head).evs = a0.evs ++ t := by
  unfold processStalled
  simp only [h.1, Bool.false_eq_true, if_false]
  have := phase_nofail a0 (if cfg.matches .stalled then
      st.mapIdx (fun i e => (⟨.stalled, e.blk, head, a0.st.lastLIBSeen, none, i, st.length⟩ : Event)) else []) h
  exact ⟨this.1, this.2.1, _, this.2.2.1⟩

theorem processIrr_nofail (cfg : Config) (a0 : Acc) (seg : List Entry) (head : Ref) (actual : Id → Option Blk)
    (h : a0.failed = false ∧ a0.failAt = none) :
    (processIrr cfg a0 seg head actual).failed = false ∧ (processIrr cfg a0 seg head actual).failAt = none ∧
    (processIrr cfg a0 seg head actual).evs = a0.evs ++ irrEvents cfg seg head actual := by
  have hn := phase_nofail a0 (irrEvents cfg seg head actual) h
  have hs0 := setSeen_fields (phase a0 (irrEvents cfg seg head actual)) seg
  have e0 : processIrr cfg a0 seg head actual = setSeen (phase a0 (irrEvents cfg seg head actual)) seg := by
    rw [processIrr_eq]; simp [h.1, hn.1]
  rw [e0]
  exact ⟨hs0.1.trans hn.1, hs0.2.1.trans hn.2.1, hs0.2.2.trans hn.2.2.1⟩

def withDb (db : DB) (st : FState) : FState := { st with db := db }

theorem advanceTo_eq (cfg : Config) (a : Acc) (b : Blk) (fi : Option Entry) (libRef : Ref) :
    advanceTo cfg a b fi libRef =
      if (!(a.st.db.hasNewIrreversibleSegment cfg.fsb libRef).1 && fi.isNone) = true then a
      else processStalled cfg
        (processIrr cfg { a with st := withDb ((a.st.db.moveLIB libRef).purgeBeforeLIB cfg.kept) a.st }
          (withFirst fi (a.st.db.hasNewIrreversibleSegment cfg.fsb libRef).2.1)
          b.ref (fun i => (a.st.db.find i).map (·.blk)))
        (a.st.db.hasNewIrreversibleSegment cfg.fsb libRef).2.2 b.ref := by
  rfl

theorem advanceTo_nofail (cfg : Config) (a0 : Acc) (b : Blk) (fi : Option Entry) (libRef : Ref)
    (h : a0.failed = false ∧ a0.failAt = none) :
    (advanceTo cfg a0 b fi libRef).failed = false ∧ (advanceTo cfg a0 b fi libRef).failAt = none ∧
    ∃ t, (advanceTo cfg a0 b fi libRef).evs = a0.evs ++ t := by
  rw [advanceTo_eq]
  split
  · exact ⟨h.1, h.2, [], by simp⟩
  · have h1 := processIrr_nofail cfg { a0 with st := withDb ((a0.st.db.moveLIB libRef).purgeBeforeLIB cfg.kept) a0.st }
      (withFirst fi (a0.st.db.hasNewIrreversibleSegment cfg.fsb libRef).2.1) b.ref
      (fun i => (a0.st.db.find i).map (·.blk)) h
    have h2 := processStalled_nofail cfg _ (a0.st.db.hasNewIrreversibleSegment cfg.fsb libRef).2.2 b.ref ⟨h1.1, h1.2.1⟩
    obtain ⟨t, ht⟩ := h2.2.2
    exact ⟨h2.1, h2.2.1, _, by rw [ht, h1.2.2, List.append_assoc]⟩

theorem advanceTo_sim (cfg : Config) (k : Nat) (a0 a : Acc) (b : Blk) (fi : Option Entry) (libRef : Ref)
    (h : Sim k a0 a) (hf : a.failed = false) :
    Sim k (advanceTo cfg a0 b fi libRef) (advanceTo cfg a b fi libRef) := by
  have hst : a.st = a0.st := by
    rcases h.run with ⟨_, g, _⟩ | ⟨g, _⟩
    · exact g
    · rw [hf] at g; cases g
  rw [advanceTo_eq, advanceTo_eq, hst]
  split
  · exact h
  · apply processStalled_sim
    apply processIrr_sim
    have := sim_setSt k a0 a (withDb ((a0.st.db.moveLIB libRef).purgeBeforeLIB cfg.kept)) h
    rw [hst] at this
    exact this

theorem advanceAcc_nofail (cfg : Config) (a0 : Acc) (b : Blk) (fi : Option Entry) (h : a0.failed = false ∧ a0.failAt = none) :
    (advanceAcc cfg a0 b fi).failed = false ∧ (advanceAcc cfg a0 b fi).failAt = none ∧
    ∃ t, (advanceAcc cfg a0 b fi).evs = a0.evs ++ t := by
  have triv : a0.failed = false ∧ a0.failAt = none ∧ ∃ t, a0.evs = a0.evs ++ t := ⟨h.1, h.2, [], by simp⟩
  unfold advanceAcc
  simp only [h.1, Bool.false_eq_true, if_false]
  split
  · exact triv
  · split
    · exact triv
    · split
      · exact triv
      · exact advanceTo_nofail cfg a0 b fi _ h

theorem advanceAcc_sim (cfg : Config) (k : Nat) (a0 a : Acc) (b : Blk) (fi : Option Entry) (h : Sim k a0 a) :
    Sim k (advanceAcc cfg a0 b fi) (advanceAcc cfg a b fi) := by
  have hn := advanceAcc_nofail cfg a0 b fi h.nofail0
  by_cases hf : a.failed = true
  · have : advanceAcc cfg a b fi = a := by simp [advanceAcc, hf]
    rw [this]
    exact sim_of_failed h hf ⟨hn.1, hn.2.1⟩ hn.2.2
  · have hf : a.failed = false := by simpa using hf
    have hst : a.st = a0.st := by
      rcases h.run with ⟨_, g, _⟩ | ⟨g, _⟩
      · exact g
      · rw [hf] at g; cases g
    unfold advanceAcc
    rw [hst]
    simp only [hf, h.nofail0.1, Bool.false_eq_true, if_false]
    split
    · exact h
    · split
      · exact h
      · split
        · exact h
        · exact advanceTo_sim cfg k a0 a b fi _ h hf

theorem emitSwitch_sim (cfg : Config) (s3 : FState) (b : Blk) (lc undos redos : List Entry) (j : Option Ref) (k : Nat) :
    Sim k (emitSwitch cfg s3 b lc undos redos j none) (emitSwitch cfg s3 b lc undos redos j (some k)) := by
  unfold emitSwitch
  apply processNew_sim
  have h0 := sim_init k s3
  have h1 : Sim k (if cfg.matches .undo then phase ⟨s3, [], none, false⟩ (mkEvents .undo undos b.ref (cursorLIB s3) j) else ⟨s3, [], none, false⟩)
      (if cfg.matches .undo then phase ⟨s3, [], some k, false⟩ (mkEvents .undo undos b.ref (cursorLIB s3) j) else ⟨s3, [], some k, false⟩) := by
    split
    · exact phase_sim _ _ _ _ h0
    · exact h0
  split
  · exact phase_sim _ _ _ _ h1
  · exact h1

def initSt (newly : Bool) (b : Blk) (st : FState) : FState :=
  { st with lastSent := some b, db := if newly then st.db.markSent b.id else st.db }

def initFirst (cfg : Config) (s' : FState) (b : Blk) (failAt : Option Nat) : Acc :=
  if cfg.matches .new then phase ⟨s', [], failAt, false⟩ [⟨.new, b, b.ref, cursorLIB s', none, 0, 0⟩] else ⟨s', [], failAt, false⟩

theorem initialAcc_eq (cfg : Config) (s : FState) (b : Blk) (failAt : Option Nat) :
    initialAcc cfg s b failAt =
      if (initFirst cfg { s with db := (s.db.addLink b).1 } b failAt).failed then initFirst cfg { s with db := (s.db.addLink b).1 } b failAt
      else processIrr cfg { initFirst cfg { s with db := (s.db.addLink b).1 } b failAt with
          st := initSt (!(s.db.addLink b).2 && !(b.id == b.parent || b.id == "")) b (initFirst cfg { s with db := (s.db.addLink b).1 } b failAt).st }
        [⟨b, true⟩] b.ref := by
  rfl

theorem initialAcc_sim (cfg : Config) (s : FState) (b : Blk) (k : Nat) :
    Sim k (initialAcc cfg s b none) (initialAcc cfg s b (some k)) := by
  rw [initialAcc_eq, initialAcc_eq]
  generalize ({ s with db := (s.db.addLink b).1 } : FState) = s'
  generalize (!(s.db.addLink b).2 && !(b.id == b.parent || b.id == "")) = newly
  have h1 : Sim k (initFirst cfg s' b none) (initFirst cfg s' b (some k)) := by
    unfold initFirst
    split
    · exact phase_sim _ _ _ _ (sim_init k s')
    · exact sim_init k s'
  generalize initFirst cfg s' b none = x0 at h1 ⊢
  generalize initFirst cfg s' b (some k) = x at h1 ⊢
  rw [if_neg (by rw [h1.nofail0.1]; simp)]
  by_cases hf : x.failed = true
  · rw [if_pos hf]
    have hn := processIrr_nofail cfg { x0 with st := initSt newly b x0.st } [⟨b, true⟩] b.ref (fun _ => none) h1.nofail0
    exact sim_of_failed h1 hf ⟨hn.1, hn.2.1⟩ ⟨_, hn.2.2⟩
  · rw [if_neg hf]
    apply processIrr_sim
    exact sim_setSt k x0 x (initSt newly b) h1

/-- **a handler error is returned at once**: with a handler that fails on its (k+1)-th call during one
    `ProcessBlock`, the handler sees exactly the first k+1 events the never-failing run would have produced and the
    error is returned; if the run produces at most k events nothing changes. -/
theorem processBlock_handler_error (cfg : Config) (s : FState) (b : Blk) (k : Nat) :
    (k < (processBlock cfg s b none).2.1.length →
      (processBlock cfg s b (some k)).2.1 = (processBlock cfg s b none).2.1.take (k + 1) ∧
      (processBlock cfg s b (some k)).2.2 = .errHandler) ∧
    (¬ k < (processBlock cfg s b none).2.1.length → processBlock cfg s b (some k) = processBlock cfg s b none) := by
  unfold processBlock
  cases plan cfg s b with
  | done s' r => simp
  | initial s' => exact finish_sim k _ _ (initialAcc_sim cfg s' b k)
  | switch s3 lc undos redos j fi =>
    exact finish_sim k _ _ (advanceAcc_sim cfg k _ _ b _ (emitSwitch_sim cfg s3 b lc undos redos j k))


/-! ### re-fed and below-LIB blocks -/

theorem addLink_exists_iff (db : DB) (b : Blk) :
    (db.addLink b).2 = true ↔ (b.id ≠ b.parent ∧ b.id ≠ "" ∧ db.link b.id ≠ "") := by
  unfold DB.addLink
  by_cases h1 : (b.id == b.parent || b.id == "") = true
  · simp only [h1, if_true]
    simp only [Bool.or_eq_true, beq_iff_eq] at h1
    constructor
    · intro h; cases h
    · intro ⟨a, b', _⟩; rcases h1 with h | h <;> contradiction
  · simp only [h1, Bool.false_eq_true, if_false]
    simp only [Bool.or_eq_true, beq_iff_eq, not_or] at h1
    by_cases h2 : (db.link b.id != "") = true
    · simp only [h2, if_true, true_iff]
      exact ⟨h1.1, h1.2, by simpa using h2⟩
    · simp only [h2, Bool.false_eq_true, if_false]
      constructor
      · intro h
        cases hf : db.find b.id <;> simp [hf] at h
      · intro ⟨_, _, h3⟩
        exact absurd (by simpa using h3) h2

/-- **feeding a stored block again delivers nothing and changes nothing** (the inclusive starting block before its
    first delivery aside) -/
theorem processBlock_refeed (cfg : Config) (s : FState) (b : Blk) (failAt : Option Nat)
    (hex : (s.db.addLink b).2 = true)
    (hni : (s.includeInit && s.lastSent.isNone && b.id == s.db.libRef.id) = false) :
    (processBlock cfg s b failAt).1 = s ∧ (processBlock cfg s b failAt).2.1 = [] := by
  have hp : ∃ r, plan cfg s b = .done s r := by
    unfold plan
    split
    · exact ⟨_, rfl⟩
    · split
      · exact ⟨_, rfl⟩
      · simp only [hni, Bool.false_eq_true, if_false]
        split
        · exact ⟨_, rfl⟩
        · simp only [hex, if_true]
          exact ⟨_, rfl⟩
  obtain ⟨r, hr⟩ := hp
  unfold processBlock
  rw [hr]
  exact ⟨rfl, rfl⟩

/-- a block below the LIB is dropped once the stream has started -/
theorem processBlock_below_lib (cfg : Config) (s : FState) (b : Blk) (failAt : Option Nat)
    (h1 : b.num < s.db.libRef.num) (h2 : s.lastSent.isSome = true) :
    (processBlock cfg s b failAt).1 = s ∧ (processBlock cfg s b failAt).2.1 = [] := by
  have hp : ∃ r, plan cfg s b = .done s r := by
    unfold plan
    split
    · exact ⟨_, rfl⟩
    · simp only [h1, h2, decide_true, Bool.and_self, if_true]
      exact ⟨_, rfl⟩
  obtain ⟨r, hr⟩ := hp
  unfold processBlock
  rw [hr]
  exact ⟨rfl, rfl⟩

/-! ### the purge -/

theorem processIrr_db (cfg : Config) (a : Acc) (seg : List Entry) (head : Ref) (actual : Id → Option Blk) :
    (processIrr cfg a seg head actual).st.db = a.st.db := by
  have hph : ∀ (a : Acc) evs, (phase a evs).st = a.st := by
    intro a evs; unfold phase; split <;> rfl
  rw [processIrr_eq]
  split
  · rfl
  · split
    · rw [hph]
    · unfold setSeen
      cases seg.getLast? with
      | none => simp only; rw [hph]
      | some l => simp only; rw [hph]

theorem processStalled_st (cfg : Config) (a : Acc) (st : List Entry) (head : Ref) :
    (processStalled cfg a st head).st = a.st := by
  unfold processStalled
  split
  · rfl
  · unfold phase; split <;> rfl

/-- **after every LIB move the buffer holds no block below LIB minus the retention** -/
theorem advanceTo_window (cfg : Config) (a : Acc) (b : Blk) (fi : Option Entry) (libRef : Ref)
    (hmove : (!(a.st.db.hasNewIrreversibleSegment cfg.fsb libRef).1 && fi.isNone) = false) :
    (advanceTo cfg a b fi libRef).st.db.libRef = libRef ∧
    ∀ e ∈ (advanceTo cfg a b fi libRef).st.db.entries, libRef.num - cfg.kept ≤ e.blk.num := by
  rw [advanceTo_eq]
  simp only [hmove, Bool.false_eq_true, if_false]
  rw [processStalled_st, processIrr_db]
  simp only [withDb, DB.purgeBeforeLIB, DB.moveLIB]
  refine ⟨trivial, ?_⟩
  intro e he
  simp only [List.mem_filter] at he
  exact of_decide_eq_true he.2

/-- and the purge removes nothing else: every stored block at or above LIB minus the retention stays stored -/
theorem purge_keeps (db : DB) (kept : Nat) (e : Entry) (he : e ∈ db.entries) (hn : db.libRef.num - kept ≤ e.blk.num) :
    e ∈ (db.purgeBeforeLIB kept).entries := by
  simp only [DB.purgeBeforeLIB, List.mem_filter, decide_eq_true_eq]
  exact ⟨he, hn⟩

end BstreamVerif.Forkable

namespace BstreamVerif.Forkable
open BstreamVerif BstreamVerif.ForkDB

/-! ### the head named by every event (C04) -/

def AllHead (r : Ref) (a : Acc) : Prop := ∀ e ∈ a.evs, e.head = r

theorem phase_allHead (r : Ref) (a : Acc) (evs : List Event) (h : AllHead r a) (he : ∀ e ∈ evs, e.head = r) :
    AllHead r (phase a evs) := by
  unfold phase
  split
  · exact h
  · intro e hm
    simp only [List.mem_append] at hm
    rcases hm with hm | hm
    · exact h e hm
    · apply he
      unfold deliver at hm
      split at hm
      · exact hm
      · split at hm
        · exact List.mem_of_mem_take hm
        · exact hm

theorem mkEvents_head (step : Step) (es : List Entry) (head lib : Ref) (j : Option Ref) :
    ∀ e ∈ mkEvents step es head lib j, e.head = head := by
  intro e he
  unfold mkEvents at he
  obtain ⟨i, hi, rfl⟩ := List.getElem_of_mem he
  simp

theorem newStep_allHead (cfg : Config) (r : Ref) (a : Acc) (e : Entry) (h : AllHead r a) : AllHead r (newStep cfg r a e) := by
  have hext : ∀ x ∈ a.evs ++ [newEv r a.st e], x.head = r := by
    intro x hx
    simp only [List.mem_append, List.mem_singleton] at hx
    rcases hx with hx | rfl
    · exact h x hx
    · rfl
  by_cases hf : a.failed = true
  · rw [newStep_failed cfg r a e hf]; exact h
  · have hf : a.failed = false := by simpa using hf
    by_cases hs : isSent a.st.db e.blk.id = true
    · rw [newStep_sent cfg r a e hf hs]; exact h
    · have hs : isSent a.st.db e.blk.id = false := by simpa using hs
      by_cases hd : cfg.matches .new = true
      · cases hfa : a.failAt with
        | none => rw [newStep_send_none cfg r a e hf hs hd hfa]; exact hext
        | some k =>
          cases k with
          | zero => rw [newStep_send_zero cfg r a e hf hs hd hfa]; exact hext
          | succ j => rw [newStep_send_succ cfg r a e hf hs hd j hfa]; exact hext
      · have hd : cfg.matches .new = false := by simpa using hd
        rw [newStep_nosend cfg r a e hf hs hd]; exact h

theorem foldl_newStep_allHead (cfg : Config) (r : Ref) (ch : List Entry) (a : Acc) (h : AllHead r a) :
    AllHead r (ch.foldl (newStep cfg r) a) := by
  induction ch generalizing a with
  | nil => exact h
  | cons e t ih => exact ih _ (newStep_allHead cfg r a e h)

theorem processIrr_allHead (cfg : Config) (r : Ref) (a : Acc) (seg : List Entry) (actual : Id → Option Blk)
    (h : AllHead r a) : AllHead r (processIrr cfg a seg r actual) := by
  have hev : ∀ e ∈ irrEvents cfg seg r actual, e.head = r := by
    intro e he
    unfold irrEvents at he
    split at he
    · obtain ⟨i, hi, rfl⟩ := List.getElem_of_mem he; simp
    · simp at he
  rw [processIrr_eq]
  split
  · exact h
  · split
    · exact phase_allHead r a _ h hev
    · intro e he
      rw [(setSeen_fields _ seg).2.2] at he
      exact phase_allHead r a _ h hev e he

theorem processStalled_allHead (cfg : Config) (r : Ref) (a : Acc) (st : List Entry) (h : AllHead r a) :
    AllHead r (processStalled cfg a st r) := by
  unfold processStalled
  split
  · exact h
  · apply phase_allHead r a _ h
    intro e he
    split at he
    · obtain ⟨i, hi, rfl⟩ := List.getElem_of_mem he; simp
    · simp at he

theorem advanceAcc_allHead (cfg : Config) (a : Acc) (b : Blk) (fi : Option Entry) (h : AllHead b.ref a) :
    AllHead b.ref (advanceAcc cfg a b fi) := by
  unfold advanceAcc
  split
  · exact h
  · split
    · exact h
    · split
      · exact h
      · simp only
        split
        · exact h
        · rw [advanceTo_eq]
          split
          · exact h
          · apply processStalled_allHead
            apply processIrr_allHead
            exact h

theorem initialAcc_allHead (cfg : Config) (s : FState) (b : Blk) (f : Option Nat) :
    AllHead b.ref (initialAcc cfg s b f) := by
  rw [initialAcc_eq]
  have h0 : AllHead b.ref (initFirst cfg { s with db := (s.db.addLink b).1 } b f) := by
    unfold initFirst
    split
    · apply phase_allHead
      · intro e he; simp at he
      · intro e he; simp only [List.mem_singleton] at he; subst he; rfl
    · intro e he; simp at he
  split
  · exact h0
  · apply processIrr_allHead
    exact h0

end BstreamVerif.Forkable
