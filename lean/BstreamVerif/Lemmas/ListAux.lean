/-! small list facts used by the fork-buffer proofs -/
namespace BstreamVerif.ListAux

/-- for a predicate that is closed under "everything before a hit is a hit", filtering is taking the prefix -/
theorem prefix_closed_filter {α} (p : α → Bool) (l : List α)
    (hc : ∀ l1 x l2, l = l1 ++ x :: l2 → p x = true → ∀ y ∈ l1, p y = true) :
    l.filter p = l.takeWhile p ∧ ∀ y ∈ l.dropWhile p, p y = false := by
  induction l with
  | nil => simp
  | cons a t ih =>
    have hct : ∀ l1 x l2, t = l1 ++ x :: l2 → p x = true → ∀ y ∈ l1, p y = true := by
      intro l1 x l2 ht hx y hy
      exact hc (a :: l1) x l2 (by rw [ht]; rfl) hx y (by simp [hy])
    obtain ⟨ih1, ih2⟩ := ih hct
    by_cases ha : p a = true
    · rw [List.filter_cons_of_pos ha, List.takeWhile_cons_of_pos ha, List.dropWhile_cons_of_pos ha]
      exact ⟨by rw [ih1], ih2⟩
    · have hall : ∀ y ∈ t, p y = false := by
        intro y hy
        by_cases hpy : p y = true
        · obtain ⟨l1, l2, hl⟩ := List.append_of_mem hy
          have := hc (a :: l1) y l2 (by rw [hl]; rfl) hpy a (by simp)
          exact absurd this ha
        · simpa using hpy
      rw [List.filter_cons_of_neg ha, List.takeWhile_cons_of_neg ha, List.dropWhile_cons_of_neg ha]
      refine ⟨?_, ?_⟩
      · rw [List.filter_eq_nil_iff]; intro y hy; simp [hall y hy]
      · intro y hy
        simp only [List.mem_cons] at hy
        rcases hy with rfl | hy
        · simpa using ha
        · exact hall y hy

theorem takeWhile_append_of_all {α} (p : α → Bool) (l1 l2 : List α) (h : ∀ x ∈ l1, p x = true) :
    (l1 ++ l2).takeWhile p = l1 ++ l2.takeWhile p := by
  induction l1 with
  | nil => rfl
  | cons a t ih =>
    rw [List.cons_append, List.takeWhile_cons_of_pos (h a (by simp)), ih (fun x hx => h x (by simp [hx]))]
    rfl

theorem dropWhile_append_of_all {α} (p : α → Bool) (l1 l2 : List α) (h : ∀ x ∈ l1, p x = true) :
    (l1 ++ l2).dropWhile p = l2.dropWhile p := by
  induction l1 with
  | nil => rfl
  | cons a t ih =>
    rw [List.cons_append, List.dropWhile_cons_of_pos (h a (by simp)), ih (fun x hx => h x (by simp [hx]))]

theorem mapM_option_spec {α β} (f : α → Option β) (l : List α) (r : List β) (h : l.mapM f = some r) :
    r.length = l.length ∧ ∀ i (h1 : i < l.length) (h2 : i < r.length), f l[i] = some r[i] := by
  induction l generalizing r with
  | nil =>
    simp only [List.mapM_nil] at h
    cases h
    exact ⟨rfl, fun i h1 => absurd h1 (by simp)⟩
  | cons a t ih =>
    rw [List.mapM_cons] at h
    cases hfa : f a with
    | none => simp [hfa] at h
    | some b =>
      cases htm : t.mapM f with
      | none => simp [hfa, htm] at h
      | some bs =>
        simp only [hfa, htm, Option.bind_eq_bind, Option.bind_some, Option.pure_def] at h
        cases h
        obtain ⟨hl, hi⟩ := ih bs htm
        refine ⟨by simp [hl], ?_⟩
        intro i h1 h2
        cases i with
        | zero => simpa using hfa
        | succ i => simpa using hi i (by simpa using h1) (by simpa using h2)

end BstreamVerif.ListAux
