import BstreamVerif.Model.DBin
namespace BstreamVerif.DBinLemmas
open BstreamVerif.DBin

theorem unbe_two (a b : UInt8) : unbe [a, b] = a.toNat * 256 + b.toNat := by
  simp [unbe]

theorem unbe_four (a b c d : UInt8) :
    unbe [a, b, c, d] = ((a.toNat * 256 + b.toNat) * 256 + c.toNat) * 256 + d.toNat := by
  simp [unbe]

theorem toNat_ofNat_mod (n : Nat) : (UInt8.ofNat (n % 256)).toNat = n % 256 := by
  simp [UInt8.toNat_ofNat']

theorem unbe_be16 (n : Nat) (h : n < 65536) : unbe (be16 n) = n := by
  unfold be16
  rw [unbe_two, toNat_ofNat_mod, toNat_ofNat_mod]
  omega

theorem unbe_be32 (n : Nat) (h : n < 4294967296) : unbe (be32 n) = n := by
  unfold be32
  rw [unbe_four, toNat_ofNat_mod, toNat_ofNat_mod, toNat_ofNat_mod, toNat_ofNat_mod]
  omega

theorem be32_length (n : Nat) : (be32 n).length = 4 := rfl
theorem be16_length (n : Nat) : (be16 n).length = 2 := rfl

theorem readN_append (n : Nat) (a b : Bytes) (h : a.length = n) : readN n (a ++ b) = (a, b, .full) := by
  unfold readN
  by_cases h0 : n = 0
  · subst h0
    have : a = [] := List.eq_nil_of_length_eq_zero h
    simp [this]
  · have hle : n ≤ (a ++ b).length := by simp; omega
    simp [h0, hle, ← h]

theorem pad_full (bs : Bytes) (h : bs.length = 4) : pad 4 bs = bs := by
  simp [pad, h]

/-- a complete frame is read back as exactly its message -/
theorem nextMessage_frame (m rest : Bytes) (hm : m.length < 4294967296) :
    nextMessage (writeMessage m ++ rest) = .msg m rest := by
  unfold nextMessage writeMessage
  rw [Nat.mod_eq_of_lt hm, List.append_assoc, readN_append 4 _ _ (be32_length _)]
  simp only [pad_full _ (be32_length _), unbe_be32 _ hm]
  by_cases h0 : m.length = 0
  · have : m = [] := List.eq_nil_of_length_eq_zero h0
    subst this; simp
  · have hne : (m.length == 0) = false := by simp [h0]
    simp only [hne, Bool.false_eq_true, if_false, readN_append m.length m rest rfl]
    simp

theorem nextMessage_nil : nextMessage [] = .eof := by
  simp [nextMessage, readN]

/-- reading the frames of `msgs` followed by anything: the messages come back, then whatever `rest` gives -/
theorem readMsgs_frames {α : Type} (dec : Bytes → Option α) (d : Bytes → α) :
    ∀ (msgs : List Bytes) (f : Nat) (rest : Bytes),
      (∀ m ∈ msgs, m.length < 4294967296 ∧ dec m = some (d m)) →
      readMsgs dec (msgs.length + f) (frames msgs ++ rest) =
        (msgs.map d ++ (readMsgs dec f rest).1, (readMsgs dec f rest).2)
  | [], f, rest, _ => by simp [frames]
  | m :: ms, f, rest, h => by
    have hm := h m (by simp)
    have ih := readMsgs_frames dec d ms f rest (fun x hx => h x (by simp [hx]))
    have : (m :: ms).length + f = (ms.length + f) + 1 := by simp; omega
    rw [this]
    simp only [frames, List.flatMap_cons, List.append_assoc] at ih ⊢
    rw [readMsgs, nextMessage_frame m _ hm.1]
    simp only [hm.2, ih, List.map_cons, List.cons_append]

/-- closed form of `nextMessage`: what dbin.ReadMessage + bstream.readMessage amount to -/
def nextSimple (bs : Bytes) : MsgRes :=
  if bs.isEmpty then .eof
  else if bs.length < 4 then .err
  else
    let len := unbe (bs.take 4)
    if (bs.drop 4).length < len then .err else .msg ((bs.drop 4).take len) ((bs.drop 4).drop len)

theorem nextMessage_simple (bs : Bytes) : nextMessage bs = nextSimple bs := by
  unfold nextMessage nextSimple readN
  by_cases he : bs = []
  · subst he; simp
  · have hne : bs.isEmpty = false := by simpa using he
    by_cases h4 : bs.length < 4
    · have : ¬ (4 ≤ bs.length) := by omega
      simp only [show ((4 : Nat) == 0) = false by rfl, Bool.false_eq_true, if_false, this, hne, h4, if_true]
      simp only [show (RStat.short == RStat.eof) = false by rfl, Bool.false_eq_true, if_false,
        show (RStat.short == RStat.full) = false by rfl]
      split
      · rfl
      · split <;> simp
    · have h4' : 4 ≤ bs.length := by omega
      simp only [show ((4 : Nat) == 0) = false by rfl, Bool.false_eq_true, if_false, h4', if_true, hne, h4]
      simp only [show (RStat.full == RStat.eof) = false by rfl, Bool.false_eq_true, if_false,
        show (RStat.full == RStat.full) = true by rfl, if_true, Bool.true_and]
      have hp : pad 4 (bs.take 4) = bs.take 4 := pad_full _ (by simp; omega)
      rw [hp]
      generalize unbe (bs.take 4) = len
      by_cases hz : len = 0
      · subst hz; simp
      · have hz' : (len == 0) = false := by simp [hz]
        simp only [hz', Bool.false_eq_true, if_false]
        by_cases hl : len ≤ (bs.drop 4).length
        · have : ¬ ((bs.drop 4).length < len) := by omega
          simp only [List.length_drop] at hl this
          simp [hl, this]
        · have hlt : (bs.drop 4).length < len := by omega
          simp only [List.length_drop] at hl hlt
          simp only [List.length_drop, hl, if_false, hlt, if_true]
          split <;> simp

/-- fuel beyond `length + 1` is never used: every message consumes at least its 4-byte prefix -/
theorem nextMessage_rest_lt (bs m rest : Bytes) (h : nextMessage bs = .msg m rest) : rest.length < bs.length := by
  rw [nextMessage_simple] at h
  unfold nextSimple at h
  split at h
  · simp at h
  · split at h
    · simp at h
    · rename_i h4
      simp only at h
      split at h
      · simp at h
      · simp only [MsgRes.msg.injEq] at h
        rw [← h.2]; simp; omega

theorem readMsgs_fuel {α : Type} (dec : Bytes → Option α) :
    ∀ (n : Nat) (bs : Bytes) (f g : Nat), bs.length ≤ n → bs.length < f → bs.length < g →
      readMsgs dec f bs = readMsgs dec g bs := by
  intro n
  induction n with
  | zero =>
    intro bs f g hn hf hg
    have : bs = [] := List.eq_nil_of_length_eq_zero (by omega)
    subst this
    cases f with
    | zero => simp at hf
    | succ f => cases g with
      | zero => simp at hg
      | succ g => simp [readMsgs, nextMessage_nil]
  | succ n ih =>
    intro bs f g hn hf hg
    cases f with
    | zero => omega
    | succ f => cases g with
      | zero => omega
      | succ g =>
        simp only [readMsgs]
        cases hnm : nextMessage bs with
        | eof => rfl
        | err => rfl
        | msg m rest =>
          have hlt := nextMessage_rest_lt bs m rest hnm
          simp only []
          cases dec m with
          | none => rfl
          | some a => rw [ih rest f g (by omega) (by omega) (by omega)]

theorem readHeader_writeHeader (ct h rest : Bytes) (hw : writeHeader ct = some h) :
    readHeader (h ++ rest) = .ok ct rest := by
  unfold writeHeader at hw
  split at hw
  · simp at hw
  · rename_i hc
    simp only [Bool.or_eq_true, beq_iff_eq, decide_eq_true_eq, not_or, Nat.not_lt] at hc
    simp only [Option.some.injEq] at hw
    subst hw
    unfold readHeader
    have e1 : magic ++ [1] ++ be16 ct.length ++ ct ++ rest = (magic ++ [1]) ++ (be16 ct.length ++ (ct ++ rest)) := by
      simp [List.append_assoc]
    rw [e1, readN_append 5 (magic ++ [1]) _ rfl]
    simp only [show (RStat.full != RStat.full) = false by rfl, Bool.false_eq_true, if_false]
    have : ((magic ++ [1]).take 4 != magic) = false := by decide
    simp only [this, Bool.false_eq_true, if_false]
    have hv : (magic ++ [1]).getD 4 0 = 1 := by decide
    simp only [hv, show ((1 : UInt8) == 0) = false by decide, Bool.false_eq_true, if_false,
      show ((1 : UInt8) == 1) = true by decide, if_true]
    rw [readN_append 2 (be16 ct.length) _ rfl]
    simp only [show (RStat.full != RStat.full) = false by rfl, Bool.false_eq_true, if_false,
      unbe_be16 _ (by omega : ct.length < 65536), readN_append ct.length ct rest rfl]


theorem writeMessage_length (m : Bytes) : (writeMessage m).length = 4 + m.length := by
  simp [writeMessage, be32_length]

/-- a non-empty strict prefix of a frame is reported as a read error (never decoded) -/
theorem partial_frame_err (m : Bytes) (n : Nat) (hm : m.length < 4294967296) (h0 : 0 < n)
    (hn : n < (writeMessage m).length) : nextMessage ((writeMessage m).take n) = .err := by
  rw [nextMessage_simple]
  unfold nextSimple
  have hlen : ((writeMessage m).take n).length = n := by
    rw [List.length_take]; omega
  have hne : ((writeMessage m).take n).isEmpty = false := by
    cases h : (writeMessage m).take n with
    | nil => rw [h] at hlen; simp at hlen; omega
    | cons _ _ => rfl
  simp only [hne, Bool.false_eq_true, if_false, hlen]
  by_cases h4 : n < 4
  · simp [h4]
  · simp only [h4, if_false]
    have h4' : 4 ≤ n := by omega
    have ht : ((writeMessage m).take n).take 4 = be32 m.length := by
      rw [List.take_take, Nat.min_eq_left h4']
      unfold writeMessage
      rw [Nat.mod_eq_of_lt hm, List.take_append_of_le_length (by simp [be32_length])]
      exact List.take_of_length_le (by simp [be32_length])
    rw [ht, unbe_be32 _ hm]
    rw [writeMessage_length] at hn
    have hdl : (((writeMessage m).take n).drop 4).length < m.length := by
      rw [List.length_drop, hlen]; omega
    rw [if_pos hdl]

/-- cutting the concatenated frames anywhere leaves whole frames followed by a strict prefix of the next one -/
theorem take_frames : ∀ (msgs : List Bytes) (k : Nat),
    ∃ j p, (frames msgs).take k = frames (msgs.take j) ++ p ∧
      (p = [] ∨ ∃ m n, m ∈ msgs ∧ p = (writeMessage m).take n ∧ 0 < n ∧ n < (writeMessage m).length)
  | [], k => ⟨0, [], by simp [frames], Or.inl rfl⟩
  | m :: ms, k => by
    by_cases hk : k < (writeMessage m).length
    · by_cases h0 : k = 0
      · exact ⟨0, [], by simp [h0, frames], Or.inl rfl⟩
      · refine ⟨0, (writeMessage m).take k, ?_, Or.inr ⟨m, k, by simp, rfl, by omega, hk⟩⟩
        simp only [frames, List.flatMap_cons, List.take_zero, List.flatMap_nil, List.nil_append]
        rw [List.take_append_of_le_length (by omega)]
    · obtain ⟨j, p, h1, h2⟩ := take_frames ms (k - (writeMessage m).length)
      refine ⟨j + 1, p, ?_, ?_⟩
      · simp only [frames, List.flatMap_cons, List.take_succ_cons] at h1 ⊢
        rw [List.take_append, List.take_of_length_le (by omega), h1, List.append_assoc]
      · rcases h2 with h2 | ⟨m', n, hm', hp, hn0, hn⟩
        · exact Or.inl h2
        · exact Or.inr ⟨m', n, by simp [hm'], hp, hn0, hn⟩

theorem frames_take_mem (msgs : List Bytes) (j : Nat) : ∀ m ∈ msgs.take j, m ∈ msgs :=
  fun _ h => List.mem_of_mem_take h

end BstreamVerif.DBinLemmas
