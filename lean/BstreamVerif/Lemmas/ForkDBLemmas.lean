import BstreamVerif.Model.ForkDB
/-!
Soundness of the ForkDB walks: whatever the contents of the buffer, the segments the walks return are
parent-linked paths of stored blocks. No assumption on the buffer (no uniqueness, no acyclicity: the walks carry fuel).
-/
namespace BstreamVerif.ForkDB
open BstreamVerif

/-- `ids` is a parent-linked path of stored blocks resting on `bottom` (exclusive), oldest first -/
def IsPath (db : DB) (bottom : Id) : List Id → Prop
  | [] => True
  | i :: rest => db.link i = bottom ∧ (db.find i).isSome ∧ IsPath db i rest

/-- the top of a path: its last element, or the bottom when it is empty -/
def topOf (bottom : Id) (ids : List Id) : Id := ids.getLast?.getD bottom

@[simp] theorem topOf_nil (b : Id) : topOf b [] = b := rfl
@[simp] theorem topOf_cons (b i : Id) (r : List Id) : topOf b (i :: r) = topOf i r := by
  cases r with
  | nil => rfl
  | cons c r =>
    have h : (c :: r).getLast? = some ((c :: r).getLast (by simp)) := List.getLast?_eq_some_getLast _
    simp [topOf, List.getLast?_cons_cons, h]

@[simp] theorem topOf_append_singleton (b : Id) (l : List Id) (x : Id) : topOf b (l ++ [x]) = x := by
  simp [topOf]

theorem isPath_append (db : DB) (bottom : Id) (l1 l2 : List Id) :
    IsPath db bottom (l1 ++ l2) ↔ IsPath db bottom l1 ∧ IsPath db (topOf bottom l1) l2 := by
  induction l1 generalizing bottom with
  | nil => simp [IsPath]
  | cons i r ih => simp only [List.cons_append, IsPath, ih, topOf_cons, and_assoc]

theorem topOf_append (b : Id) (l1 l2 : List Id) : topOf b (l1 ++ l2) = topOf (topOf b l1) l2 := by
  induction l1 generalizing b with
  | nil => rfl
  | cons i r ih => simp only [List.cons_append, topOf_cons, ih]

theorem find_id (db : DB) (id : Id) (e : Entry) (h : db.find id = some e) : e.blk.id = id := by
  unfold DB.find at h
  have := List.find?_some h
  simpa using this

theorem link_of_find (db : DB) (id : Id) (e : Entry) (h : db.find id = some e) : db.link id = e.blk.parent := by
  simp [DB.link, h]

theorem numOf_of_find (db : DB) (id : Id) (e : Entry) (h : db.find id = some e) : db.numOf id = e.blk.num := by
  simp [DB.numOf, DB.numOf?, h]

/-! ### ReversibleSegment -/

/-- the segment returned with `reachLIB = true` is a path resting on the LIB whose top is the start block -/
theorem revSegAux_sound (db : DB) (fsb : Nat) (fuel : Nat) (cur : Id) (curNum : Nat) (acc l : List Entry)
    (h : db.revSegAux fsb fuel cur curNum acc = (some l, true)) :
    ∃ pre, l = pre ++ acc ∧ IsPath db db.libRef.id (pre.map (·.blk.id)) ∧
      topOf db.libRef.id (pre.map (·.blk.id)) = cur ∧
      (∀ e ∈ pre, ∃ e0, db.find e.blk.id = some e0 ∧ e0.blk.parent = e.blk.parent ∧ e0.sent = e.sent ∧ e0.blk.id = e.blk.id ∧ e0.blk.lib = e.blk.lib) ∧
      (∀ x ∈ pre, x.blk.id ≠ db.libRef.id) ∧
      (∀ x, pre.getLast? = some x → x.blk.ref = ⟨cur, curNum⟩) := by
  induction fuel generalizing cur curNum acc with
  | zero => simp [DB.revSegAux] at h
  | succ n ih =>
    unfold DB.revSegAux at h
    split at h
    · simp at h
    · split at h
      · rename_i hc
        simp only [Prod.mk.injEq, Option.some.injEq, and_true] at h
        subst h
        exact ⟨[], rfl, trivial, by simp only [List.map_nil, topOf_nil]; exact (beq_iff_eq.mp hc).symm, by simp, by simp, by simp⟩
      · split at h
        · split at h <;> simp at h
        · rename_i hc _ e he
          obtain ⟨pre, hl, hp, ht, hall, hnl, _⟩ := ih _ _ _ h
          refine ⟨pre ++ [⟨{ e.blk with num := curNum }, e.sent⟩], by rw [hl]; simp, ?_, ?_, ?_, ?_, ?_⟩
          · rw [List.map_append, isPath_append]
            refine ⟨hp, ?_⟩
            simp only [List.map_cons, List.map_nil, IsPath, and_true]
            rw [ht, find_id db cur e he]
            exact ⟨link_of_find db cur e he, by simp [he]⟩
          · simp [find_id db cur e he]
          · intro x hx
            simp only [List.mem_append, List.mem_singleton] at hx
            rcases hx with hx | rfl
            · exact hall x hx
            · exact ⟨e, by simp only [find_id db cur e he]; exact he, rfl, rfl, rfl, rfl⟩
          · intro x hx
            simp only [List.mem_append, List.mem_singleton] at hx
            rcases hx with hx | rfl
            · exact hnl x hx
            · simp only [find_id db cur e he]
              intro hc'; exact hc (by simp [hc'])
          · intro x hx
            simp only [List.getLast?_append, List.getLast?_singleton, Option.some_or, Option.some.injEq] at hx
            subst hx
            simp [Blk.ref, find_id db cur e he]

/-- whatever the outcome, a non-empty segment ends with the start block (id and number as given) -/
theorem revSegAux_last (db : DB) (fsb : Nat) (fuel : Nat) (cur : Id) (curNum : Nat) (acc l : List Entry) (r : Bool)
    (h : db.revSegAux fsb fuel cur curNum acc = (some l, r)) :
    l = acc ∨ ∃ pre x, l = pre ++ x :: acc ∧ x.blk.ref = ⟨cur, curNum⟩ := by
  induction fuel generalizing cur curNum acc with
  | zero => simp [DB.revSegAux] at h
  | succ n ih =>
    unfold DB.revSegAux at h
    split at h
    · simp at h
    · split at h
      · simp only [Prod.mk.injEq, Option.some.injEq] at h
        exact Or.inl h.1.symm
      · split at h
        · split at h
          · simp at h
          · simp only [Prod.mk.injEq, Option.some.injEq] at h
            exact Or.inl h.1.symm
        · rename_i e he
          right
          rcases ih _ _ _ h with h1 | ⟨pre, x, h1, _⟩
          · exact ⟨[], ⟨{ e.blk with num := curNum }, e.sent⟩, by rw [h1]; rfl, by simp [Blk.ref, find_id db cur e he]⟩
          · exact ⟨pre ++ [x], ⟨{ e.blk with num := curNum }, e.sent⟩, by rw [h1]; simp, by simp [Blk.ref, find_id db cur e he]⟩

theorem revSegAux_reach (db : DB) (fsb : Nat) (fuel : Nat) (cur : Id) (curNum : Nat) (acc l : List Entry) (r : Bool)
    (hl : db.hasLIB = true) (h : db.revSegAux fsb fuel cur curNum acc = (some l, r)) : r = true := by
  induction fuel generalizing cur curNum acc with
  | zero => simp [DB.revSegAux] at h
  | succ n ih =>
    unfold DB.revSegAux at h
    split at h
    · simp at h
    · split at h
      · simp only [Prod.mk.injEq] at h; exact h.2.symm
      · split at h
        · simp [hl] at h
        · exact ih _ _ _ h

theorem reversibleSegment_last (db : DB) (fsb : Nat) (start : Ref) (l : List Entry) (r : Bool)
    (h : db.reversibleSegment fsb start = (some l, r)) (hne : l ≠ []) :
    (l.getLast?.map (·.blk.ref)) = some start := by
  rcases revSegAux_last db fsb _ _ _ _ _ _ h with h1 | ⟨pre, x, h1, hx⟩
  · exact absurd h1 hne
  · rw [h1]; simp [hx]

theorem reversibleSegment_sound (db : DB) (fsb : Nat) (start : Ref) (l : List Entry)
    (h : db.reversibleSegment fsb start = (some l, true)) :
    IsPath db db.libRef.id (l.map (·.blk.id)) ∧ topOf db.libRef.id (l.map (·.blk.id)) = start.id ∧
    (∀ x ∈ l, x.blk.id ≠ db.libRef.id) ∧ (∀ x, l.getLast? = some x → x.blk.ref = start) ∧
    (∀ e ∈ l, ∃ e0, db.find e.blk.id = some e0 ∧ e0.blk.parent = e.blk.parent ∧ e0.sent = e.sent ∧ e0.blk.id = e.blk.id ∧ e0.blk.lib = e.blk.lib) := by
  obtain ⟨pre, hl, hp, ht, hall, hnl, hlast⟩ := revSegAux_sound db fsb _ _ _ _ _ h
  simp only [List.append_nil] at hl
  subst hl
  exact ⟨hp, ht, hnl, hlast, hall⟩

/-! ### heights carried by a reversible segment -/

/-- when the walk starts with the stored height of its start block, every entry of the segment carries the height
    the buffer stores for it -/
theorem revSegAux_nums (db : DB) (fsb : Nat) (fuel : Nat) (cur : Id) (curNum : Nat) (acc l : List Entry) (r : Bool)
    (h : db.revSegAux fsb fuel cur curNum acc = (some l, r))
    (hcur : ∀ e, db.find cur = some e → e.blk.num = curNum) :
    ∃ pre, l = pre ++ acc ∧ ∀ x ∈ pre, ∃ e0, db.find x.blk.id = some e0 ∧ e0.blk.num = x.blk.num := by
  induction fuel generalizing cur curNum acc with
  | zero => simp [DB.revSegAux] at h
  | succ n ih =>
    unfold DB.revSegAux at h
    split at h
    · simp at h
    · split at h
      · simp only [Prod.mk.injEq, Option.some.injEq] at h
        exact ⟨[], by rw [← h.1]; rfl, by simp⟩
      · split at h
        · split at h
          · simp at h
          · simp only [Prod.mk.injEq, Option.some.injEq] at h
            exact ⟨[], by rw [← h.1]; rfl, by simp⟩
        · rename_i e he
          obtain ⟨pre, hl, hall⟩ := ih _ _ _ h (fun e' he' => (numOf_of_find db _ e' he').symm)
          refine ⟨pre ++ [⟨{ e.blk with num := curNum }, e.sent⟩], by rw [hl]; simp, ?_⟩
          intro x hx
          simp only [List.mem_append, List.mem_singleton] at hx
          rcases hx with hx | rfl
          · exact hall x hx
          · exact ⟨e, by simp only [find_id db cur e he]; exact he, hcur e he⟩

theorem reversibleSegment_nums (db : DB) (fsb : Nat) (start : Ref) (l : List Entry) (r : Bool)
    (h : db.reversibleSegment fsb start = (some l, r))
    (hs : ∀ e, db.find start.id = some e → e.blk.num = start.num) :
    ∀ x ∈ l, ∃ e0, db.find x.blk.id = some e0 ∧ e0.blk.num = x.blk.num := by
  obtain ⟨pre, hl, hall⟩ := revSegAux_nums db fsb _ _ _ _ _ _ h hs
  simp only [List.append_nil] at hl
  subst hl; exact hall

/-! ### ChainSwitchSegments -/

/-- consecutive elements are child, parent -/
def IsDown (db : DB) : List Id → Prop
  | [] => True
  | [_] => True
  | a :: b :: r => db.link a = b ∧ IsDown db (b :: r)

theorem walkDown_head (db : DB) (fuel : Nat) (cur : Id) : ∃ r, db.walkDown (fuel + 1) cur = cur :: r := by
  unfold DB.walkDown
  by_cases h : (db.link cur == "") = true
  · exact ⟨[], by simp [h]⟩
  · exact ⟨db.walkDown fuel (db.link cur), by simp [h]⟩

theorem walkDown_isDown (db : DB) (fuel : Nat) (cur : Id) : IsDown db (db.walkDown fuel cur) := by
  induction fuel generalizing cur with
  | zero => simp [DB.walkDown, IsDown]
  | succ n ih =>
    unfold DB.walkDown
    by_cases h : (db.link cur == "") = true
    · simp [h, IsDown]
    · simp only [h, Bool.false_eq_true, if_false]
      cases n with
      | zero => simp [DB.walkDown, IsDown]
      | succ m =>
        obtain ⟨r, hr⟩ := walkDown_head db m (db.link cur)
        have := ih (db.link cur)
        rw [hr] at this ⊢
        exact ⟨rfl, this⟩

/-- a downward chain read upwards is a path -/
theorem isDown_reverse_path (db : DB) (l : List Id) (j : Id) (h : IsDown db (l ++ [j]))
    (hf : ∀ x ∈ l, (db.find x).isSome) : IsPath db j l.reverse := by
  induction l with
  | nil => trivial
  | cons a r ih =>
    simp only [List.reverse_cons]
    rw [isPath_append]
    cases r with
    | nil =>
      simp only [List.cons_append, List.nil_append, IsDown, and_true] at h
      simp only [List.reverse_nil, IsPath, topOf_nil, true_and, and_true]
      exact ⟨h, hf a (by simp)⟩
    | cons b r =>
      simp only [List.cons_append, IsDown] at h
      refine ⟨ih (by simpa using h.2) (fun x hx => hf x (by simp [hx])), ?_⟩
      simp only [IsPath, and_true]
      refine ⟨?_, hf a (by simp)⟩
      rw [h.1]
      simp [List.reverse_cons, topOf_append]

theorem isDown_prefix (db : DB) (l1 l2 : List Id) (h : IsDown db (l1 ++ l2)) : IsDown db l1 := by
  induction l1 with
  | nil => trivial
  | cons a r ih =>
    cases r with
    | nil => trivial
    | cons b r =>
      simp only [List.cons_append, IsDown] at h ⊢
      exact ⟨h.1, ih h.2⟩

/-- the redo walk returns a path resting on the junction, none of it in the undo chain, whose top is where it started -/
theorem redoWalk_sound (db : DB) (seen : List Id) (fuel : Nat) (cur : Id) (acc redo : List Id) (j : Id)
    (h : db.redoWalk seen fuel cur acc = some (redo, j)) :
    ∃ pre, redo = pre ++ acc ∧ j ∈ seen ∧ IsPath db j pre ∧ topOf j pre = cur ∧ ∀ x ∈ pre, x ∉ seen := by
  induction fuel generalizing cur acc with
  | zero => simp [DB.redoWalk] at h
  | succ n ih =>
    unfold DB.redoWalk at h
    split at h
    · rename_i hs
      simp only [Option.some.injEq, Prod.mk.injEq] at h
      obtain ⟨rfl, rfl⟩ := h
      exact ⟨[], rfl, by simpa using hs, trivial, rfl, by simp⟩
    · rename_i hs
      simp only at h
      split at h
      · cases h
      · rename_i hl
        obtain ⟨pre, hr, hj, hp, ht, hn⟩ := ih _ _ h
        refine ⟨pre ++ [cur], by rw [hr]; simp, hj, ?_, by simp, ?_⟩
        · rw [isPath_append]
          refine ⟨hp, ?_⟩
          simp only [IsPath, and_true]
          refine ⟨ht.symm, ?_⟩
          cases hf : db.find cur with
          | some e => rfl
          | none => simp [DB.link, hf] at hl
        · intro x hx
          simp only [List.mem_append, List.mem_singleton] at hx
          rcases hx with hx | rfl
          · exact hn x hx
          · simpa using hs

theorem mem_takeWhile_pos {α} (p : α → Bool) (l : List α) (x : α) (h : x ∈ l.takeWhile p) : p x = true := by
  induction l with
  | nil => simp at h
  | cons a t ih =>
    rw [List.takeWhile_cons] at h
    split at h
    · simp only [List.mem_cons] at h
      rcases h with rfl | h
      · assumption
      · exact ih h
    · simp at h

/-- **ChainSwitchSegments is sound**: the junction lies on the old head's ancestry; the undo list is the old head's
    ancestry down to just above the junction (newest first, so read upwards it is a path resting on the junction
    whose top is the old head); the redo list is a path resting on the junction whose top is the new block's parent,
    and shares nothing with the old head's ancestry. -/
theorem chainSwitchSegments_sound (db : DB) (oldHead newPrev : Id) (undo redo : List Id) (j : Id)
    (h : db.chainSwitchSegments oldHead newPrev = some (undo, redo, j)) :
    (∃ rest, db.walkDown (db.entries.length + 2) oldHead = undo ++ j :: rest) ∧
    IsDown db (undo ++ [j]) ∧ (undo ≠ [] → undo.head? = some oldHead) ∧ (undo = [] → j = oldHead) ∧
    IsPath db j redo ∧ topOf j redo = newPrev ∧ (∀ x ∈ redo, x ∉ undo) ∧ j ∉ undo := by
  unfold DB.chainSwitchSegments at h
  simp only at h
  split at h
  · cases h
  · rename_i r jj hw
    simp only [Option.some.injEq, Prod.mk.injEq] at h
    obtain ⟨hu, rfl, rfl⟩ := h
    obtain ⟨pre, hr, hj, hp, ht, hn⟩ := redoWalk_sound db _ _ _ _ _ _ hw
    simp only [List.append_nil] at hr
    subst hr
    -- split the undo chain at the junction
    have hsplit : ∀ (l : List Id), jj ∈ l → ∃ rest, l = l.takeWhile (· != jj) ++ jj :: rest := by
      intro l hm
      induction l with
      | nil => simp at hm
      | cons a t iht =>
        by_cases ha : a = jj
        · subst ha; exact ⟨t, by simp⟩
        · have : jj ∈ t := by simpa [Ne.symm ha] using hm
          obtain ⟨rest, hrest⟩ := iht this
          refine ⟨rest, ?_⟩
          have hne : (a != jj) = true := by simp [ha]
          simp only [List.takeWhile_cons, hne, ↓reduceIte, List.cons_append]
          exact congrArg _ hrest
    obtain ⟨rest, hrest⟩ := hsplit _ hj
    rw [hu] at hrest
    have hdown := walkDown_isDown db (db.entries.length + 2) oldHead
    obtain ⟨w, hwd⟩ := walkDown_head db (db.entries.length + 1) oldHead
    have hjn : jj ∉ undo := by
      rw [← hu]; intro hmem
      have := mem_takeWhile_pos _ _ _ hmem
      simp at this
    refine ⟨⟨rest, hrest⟩, ?_, ?_, ?_, hp, ht, ?_, hjn⟩
    · rw [hrest] at hdown
      have : IsDown db ((undo ++ [jj]) ++ rest) := by simpa using hdown
      exact isDown_prefix db _ _ this
    · intro hne
      rw [hwd] at hrest
      cases undo with
      | nil => exact absurd rfl hne
      | cons a t => simp only [List.cons_append, List.cons.injEq] at hrest; simp [hrest.1]
    · intro he
      rw [hwd, he] at hrest
      simp only [List.nil_append, List.cons.injEq] at hrest
      exact hrest.1.symm
    · intro x hx hxu
      apply hn x hx
      rw [hrest]; simp [hxu]


/-! ### combinatorics of paths -/

@[elab_as_elim]
theorem rev_ind {α} {motive : List α → Prop} (nil : motive [])
    (append_singleton : ∀ l a, motive l → motive (l ++ [a])) : ∀ l, motive l := by
  intro l
  rw [← List.reverse_reverse l]
  induction l.reverse with
  | nil => exact nil
  | cons a t ih => rw [List.reverse_cons]; exact append_singleton _ _ ih

theorem topOf_cons_mem (b a : Id) (r : List Id) : topOf b (a :: r) ∈ a :: r := by
  rw [topOf_cons]
  rcases List.eq_nil_or_concat r with h | ⟨r', t, h⟩
  · subst h; simp
  · rw [List.concat_eq_append] at h; subst h; simp

theorem topOf_mem (b : Id) (l : List Id) : topOf b l = b ∨ topOf b l ∈ l := by
  induction l generalizing b with
  | nil => exact Or.inl rfl
  | cons i r ih =>
    rw [topOf_cons]
    rcases ih i with h | h
    · exact Or.inr (by rw [h]; simp)
    · exact Or.inr (by simp [h])

theorem isPath_mem_bottom (db : DB) (bottom i : Id) (rest : List Id) (h : IsPath db bottom (i :: rest))
    (hi : i ∈ rest) : bottom ∈ i :: rest := by
  obtain ⟨r1, r2, hr⟩ := List.append_of_mem hi
  have h2 : IsPath db i rest := h.2.2
  rw [hr, isPath_append] at h2
  have hl : db.link i = topOf i r1 := h2.2.1
  rw [h.1] at hl
  rcases topOf_mem i r1 with ht | ht
  · rw [ht] at hl; rw [hl]; simp
  · rw [← hl] at ht
    simp [hr, ht]

theorem isPath_nodup (db : DB) (bottom : Id) (ids : List Id) (h : IsPath db bottom ids) (hb : bottom ∉ ids) :
    ids.Nodup := by
  induction ids generalizing bottom with
  | nil => exact List.nodup_nil
  | cons i rest ih =>
    have hi : i ∉ rest := fun hi => hb (isPath_mem_bottom db bottom i rest h hi)
    exact List.nodup_cons.mpr ⟨hi, ih i h.2.2 hi⟩

theorem isPath_present (db : DB) (bottom : Id) (ids : List Id) (h : IsPath db bottom ids) :
    ∀ x ∈ ids, (db.find x).isSome := by
  induction ids generalizing bottom with
  | nil => simp
  | cons i rest ih =>
    intro x hx
    simp only [List.mem_cons] at hx
    rcases hx with rfl | hx
    · exact h.2.1
    · exact ih i h.2.2 x hx

theorem isPath_length_le (db : DB) (bottom : Id) (ids : List Id) (h : IsPath db bottom ids) (hb : bottom ∉ ids) :
    ids.length ≤ db.entries.length := by
  have hnd := isPath_nodup db bottom ids h hb
  have hsub : ids ⊆ db.entries.map (·.blk.id) := by
    intro x hx
    have := isPath_present db bottom ids h x hx
    cases hf : db.find x with
    | none => rw [hf] at this; cases this
    | some e =>
      have hm : e ∈ db.entries := List.mem_of_find?_eq_some hf
      exact List.mem_map.mpr ⟨e, hm, find_id db x e hf⟩
  have := hnd.length_le_of_subset hsub
  simpa using this

/-- two paths with the same top: the shorter is a suffix of the longer -/
theorem isPath_suffix (db : DB) (x y : Id) (l1 l2 : List Id) (h1 : IsPath db x l1) (h2 : IsPath db y l2)
    (ht : topOf x l1 = topOf y l2) (hlen : l1.length ≤ l2.length) :
    ∃ A, l2 = A ++ l1 ∧ topOf y A = x := by
  induction l1 using rev_ind generalizing l2 with
  | nil => exact ⟨l2, by simp, by simpa using ht.symm⟩
  | append_singleton l1' t ih =>
    rcases List.eq_nil_or_concat l2 with hl | ⟨l2', t', hl⟩
    · subst hl; simp at hlen
    · rw [List.concat_eq_append] at hl
      subst hl
      simp only [topOf_append_singleton] at ht
      subst ht
      rw [isPath_append] at h1 h2
      have e1 : db.link t = topOf x l1' := h1.2.1
      have e2 : db.link t = topOf y l2' := h2.2.1
      obtain ⟨A, hA, hA2⟩ := ih l2' h1.1 h2.1 (e1.symm.trans e2) (by simpa using hlen)
      exact ⟨A, by rw [hA]; simp, hA2⟩

/-- two paths from the same bottom (not on either path) to the same top are equal -/
theorem isPath_unique (db : DB) (x : Id) (l1 l2 : List Id) (h1 : IsPath db x l1) (h2 : IsPath db x l2)
    (ht : topOf x l1 = topOf x l2) (n1 : x ∉ l1) (n2 : x ∉ l2) : l1 = l2 := by
  have key : ∀ l1 l2, IsPath db x l1 → IsPath db x l2 → topOf x l1 = topOf x l2 → x ∉ l2 → l1.length ≤ l2.length → l1 = l2 := by
    intro l1 l2 h1 h2 ht n2 hlen
    obtain ⟨A, hA, hA2⟩ := isPath_suffix db x x l1 l2 h1 h2 ht hlen
    cases A with
    | nil => simpa using hA.symm
    | cons a r =>
      exfalso
      have := topOf_cons_mem x a r
      rw [hA2] at this
      exact n2 (by rw [hA]; exact List.mem_append_left _ this)
  rcases Nat.le_total l1.length l2.length with h | h
  · exact key l1 l2 h1 h2 ht n2 h
  · exact (key l2 l1 h2 h1 ht.symm n1 h).symm

/-- walking down from the top of a path reads the path backwards and continues below its bottom -/
theorem walkDown_path (db : DB) (bottom : Id) (ids : List Id) (h : IsPath db bottom ids) (hb : bottom ≠ "")
    (hne : "" ∉ ids) (k : Nat) :
    db.walkDown (k + ids.length) (topOf bottom ids) = ids.reverse ++ db.walkDown k bottom := by
  induction ids using rev_ind with
  | nil => simp
  | append_singleton l t ih =>
    rw [isPath_append] at h
    have hl : db.link t = topOf bottom l := h.2.1
    have hne' : "" ∉ l := fun hm => hne (by simp [hm])
    have hlne : db.link t ≠ "" := by
      rw [hl]
      rcases topOf_mem bottom l with g | g
      · rw [g]; exact hb
      · intro hc; rw [hc] at g; exact hne' g
    simp only [topOf_append_singleton, List.length_append, List.length_singleton, List.reverse_append,
      List.reverse_cons, List.reverse_nil, List.nil_append, List.cons_append]
    have : k + (l.length + 1) = (k + l.length) + 1 := by omega
    rw [this]
    conv => lhs; unfold DB.walkDown
    have hbne : (db.link t == "") = false := by simpa using hlne
    simp only [hbne, Bool.false_eq_true, if_false]
    rw [hl, ih h.1 hne']

/-- the redo walk succeeds when the start has a path down to an id of the undo chain -/
theorem redoWalk_complete (db : DB) (seen : List Id) (x : Id) (ids : List Id) (h : IsPath db x ids)
    (hx : x ∈ seen) (hxne : x ≠ "") (hne : "" ∉ ids) (k : Nat) (acc : List Id) :
    ∃ r, db.redoWalk seen (k + ids.length + 1) (topOf x ids) acc = some r := by
  induction ids using rev_ind generalizing acc with
  | nil =>
    simp only [topOf_nil, List.length_nil, Nat.add_zero]
    unfold DB.redoWalk
    have : seen.contains x = true := by simpa using hx
    rw [if_pos this]; exact ⟨_, rfl⟩
  | append_singleton l t ih =>
    rw [isPath_append] at h
    have hl : db.link t = topOf x l := h.2.1
    have hne' : "" ∉ l := fun hm => hne (by simp [hm])
    have hlne : db.link t ≠ "" := by
      rw [hl]
      rcases topOf_mem x l with g | g
      · rw [g]; exact hxne
      · intro hc; rw [hc] at g; exact hne' g
    simp only [topOf_append_singleton, List.length_append, List.length_singleton]
    have : k + (l.length + 1) + 1 = (k + l.length + 1) + 1 := by omega
    rw [this]
    unfold DB.redoWalk
    by_cases hs : seen.contains t = true
    · rw [if_pos hs]; exact ⟨_, rfl⟩
    · have hbne : (db.link t == "") = false := by simpa using hlne
      simp only [hs, Bool.false_eq_true, if_false, hbne]
      rw [hl]
      exact ih h.1 hne' _


/-! ### BlockInCurrentChain -/

theorem walkDown_mono_mem (db : DB) (fuel : Nat) (cur x : Id) (h : x ∈ db.walkDown fuel cur) :
    x ∈ db.walkDown (fuel + 1) cur := by
  induction fuel generalizing cur with
  | zero => simp [DB.walkDown] at h
  | succ n ih =>
    unfold DB.walkDown at h ⊢
    by_cases hl : (db.link cur == "") = true
    · simp only [hl, if_true] at h ⊢; exact h
    · simp only [hl, Bool.false_eq_true, if_false, List.mem_cons] at h ⊢
      rcases h with h | h
      · exact Or.inl h
      · exact Or.inr (ih _ h)

/-- the block `BlockInCurrentChain` returns lies on the ancestry of the start block -/
theorem blockInChainAux_on_walk (db : DB) (h0 : db.numOf? "" = none) (target fuel : Nat) (cur : Id) (curNum : Nat)
    (h : (db.blockInChainAux target fuel cur curNum).id ≠ "") :
    (db.blockInChainAux target fuel cur curNum).id ∈ db.walkDown (fuel + 1) cur := by
  induction fuel generalizing cur curNum with
  | zero => simp [DB.blockInChainAux, Ref.empty] at h
  | succ n ih =>
    unfold DB.blockInChainAux at h ⊢
    simp only at h ⊢
    cases hn : db.numOf? (db.link cur) with
    | none => rw [hn] at h; simp [Ref.empty] at h
    | some pn =>
      rw [hn] at h
      simp only at h ⊢
      have hlne : (db.link cur == "") = false := by
        cases hl : (db.link cur == "") with
        | false => rfl
        | true => rw [beq_iff_eq.mp hl, h0] at hn; cases hn
      have hwalk : db.walkDown (n + 1 + 1) cur = cur :: db.walkDown (n + 1) (db.link cur) := by
        conv => lhs; unfold DB.walkDown
        simp [hlne]
      rw [hwalk]
      obtain ⟨w', hw'⟩ := walkDown_head db n (db.link cur)
      by_cases h1 : (pn == target) = true
      · simp only [h1, if_true]
        rw [hw']; simp
      · simp only [h1, Bool.false_eq_true, if_false] at h ⊢
        by_cases h2 : pn < target
        · simp only [h2, if_true]; simp
        · simp only [h2, if_false] at h ⊢
          exact List.mem_cons_of_mem _ (ih _ _ h)

theorem blockInChain_on_walk (db : DB) (h0 : db.numOf? "" = none) (start : Ref) (target : Nat)
    (h : (db.blockInChain start target).id ≠ "") :
    (db.blockInChain start target).id ∈ db.walkDown (db.entries.length + 2) start.id := by
  unfold DB.blockInChain at h ⊢
  by_cases hs : (start.num == target) = true
  · simp only [hs, if_true]
    obtain ⟨w, hw⟩ := walkDown_head db (db.entries.length + 1) start.id
    rw [hw]; simp
  · simp only [hs, Bool.false_eq_true, if_false] at h ⊢
    exact blockInChainAux_on_walk db h0 _ _ _ _ h

end BstreamVerif.ForkDB
