import BstreamVerif.Model.Range
import BstreamVerif.Spec.RangeMon
/- Helper lemmas for Props/C19: the loop invariant of `Split`. -/
namespace BstreamVerif.RangeLemmas
open BstreamVerif.Range BstreamVerif.RangeMon

macro "bool_omega" : tactic => `(tactic| (rw [Bool.eq_iff_iff]; simp only [Bool.and_eq_true, Bool.or_eq_true, Bool.not_eq_true', Bool.not_eq_eq_eq_not, Bool.not_true, Bool.not_false, decide_eq_true_eq, decide_eq_false_iff_not]; omega))


/-- chunk list `l` starting at `cs` is a well-formed split up to `e` -/
def ChunksOK (exS exE : Bool) (c e : UInt64) : UInt64 → List Range → Prop
  | _, [] => False
  | cs, [ch] => ch = ⟨cs, some e, exS, exE⟩ ∧ cs < e
  | cs, ch :: ch2 :: rest => ∃ ce, ch = ⟨cs, some ce, exS, exE⟩ ∧ cs < ce ∧ ce < e ∧ ce % c = 0 ∧
      ChunksOK exS exE c e ce (ch2 :: rest)

theorem step_facts (e c ce : UInt64) (hc : 0 < c) (hlt : ce < e) (hm : ce % c = 0 ∨ ce = e) :
    let ce' := if e - ce ≤ c then e else ce + c
    ce < ce' ∧ ce' ≤ e ∧ (ce' % c = 0 ∨ ce' = e) := by
  have hsub : (e - ce).toNat = e.toNat - ce.toNat :=
    UInt64.toNat_sub_of_le _ _ (by simp only [UInt64.le_iff_toNat_le, UInt64.lt_iff_toNat_lt] at *; omega)
  have hce : ce % c = 0 := by
    rcases hm with h | h
    · exact h
    · subst h; exact absurd hlt (by simp)
  intro ce'
  by_cases hle : e - ce ≤ c
  · simp only [ce', hle, if_true]
    exact ⟨hlt, by simp, by simp⟩
  · simp only [ce', hle, if_false]
    have hgt : c.toNat < e.toNat - ce.toNat := by
      simp only [UInt64.le_iff_toNat_le, hsub] at hle; omega
    have hadd : (ce + c).toNat = ce.toNat + c.toNat := by
      rw [UInt64.toNat_add]; apply Nat.mod_eq_of_lt
      have := e.toNat_lt; omega
    refine ⟨?_, ?_, Or.inl ?_⟩
    · simp only [UInt64.lt_iff_toNat_lt, hadd]
      simp only [UInt64.lt_iff_toNat_lt, UInt64.toNat_zero] at hc; omega
    · simp only [UInt64.le_iff_toNat_le, hadd]; omega
    · apply UInt64.toNat_inj.mp
      rw [UInt64.toNat_mod, hadd, Nat.add_mod_right]
      have := congrArg UInt64.toNat hce
      rw [UInt64.toNat_mod] at this
      simpa using this

theorem splitLoop_ok (exS exE : Bool) (e c : UInt64) (hc : 0 < c) (cs ce : UInt64)
    (h1 : cs < ce) (h2 : ce ≤ e) (hm : ce % c = 0 ∨ ce = e) :
    ChunksOK exS exE c e cs (splitLoop exS exE e c hc cs ce) := by
  fun_induction splitLoop exS exE e c hc cs ce with
  | case1 cs ce ih =>
    by_cases h : ce ≥ e
    · have : ce = e := by
        apply UInt64.toNat_inj.mp
        simp only [ge_iff_le, UInt64.le_iff_toNat_le] at h h2; omega
      subst this
      simp only [h, dite_true, ChunksOK]
      exact ⟨trivial, h1⟩
    · have hlt : ce < e := by
        simp only [ge_iff_le, UInt64.le_iff_toNat_le, Nat.not_le] at h
        exact UInt64.lt_iff_toNat_lt.mpr h
      obtain ⟨f1, f2, f3⟩ := step_facts e c ce hc hlt hm
      have ih' := ih h (by simpa using f1) (by simpa using f2) (by simpa using f3)
      simp only [h, dite_false]
      have hce : ce % c = 0 := by
        rcases hm with h' | h'
        · exact h'
        · subst h'; exact absurd hlt (by simp)
      rw [splitLoop] at ih' ⊢
      exact ⟨ce, rfl, h1, hlt, hce, ih'⟩


theorem chunksOK_shape {exS exE : Bool} {c e : UInt64} : ∀ (l : List Range) (cs : UInt64),
    ChunksOK exS exE c e cs l →
    l.head?.map (·.start) = some cs ∧ l.getLast?.map (·.stop) = some (some e) ∧ contiguous l = true ∧
    (innerStarts l).all (fun b => b % c == 0) = true ∧
    l.all (fun ch => ch.exS == exS && ch.exE == exE) = true ∧
    l.all properChunk = true
  | [], _, h => by simp [ChunksOK] at h
  | [ch], cs, h => by
    obtain ⟨rfl, hlt⟩ := h
    simp [contiguous, innerStarts, properChunk, hlt]
  | ch :: ch2 :: rest, cs, h => by
    obtain ⟨ce, rfl, h1, h2, h3, h4⟩ := h
    obtain ⟨i1, i2, i3, i4, i5, i6⟩ := chunksOK_shape (ch2 :: rest) ce h4
    simp only [List.head?_cons, Option.map_some] at i1
    have hs : ch2.start = ce := by simpa using i1
    refine ⟨by simp, ?_, ?_, ?_, ?_, ?_⟩
    · simpa [List.getLast?_cons_cons] using i2
    · simp [contiguous, hs, i3]
    · simp only [innerStarts, List.map_cons, List.all_cons, hs, h3, beq_self_eq_true, Bool.true_and]
      simpa [innerStarts] using i4
    · simpa using i5
    · simp only [List.all_cons, properChunk, h1, decide_true, Bool.true_and]; simpa [properChunk] using i6

theorem chunksOK_union {exS exE : Bool} {c e : UInt64} (hx : ¬(exS = true ∧ exE = true)) (n : UInt64) :
    ∀ (l : List Range) (cs : UInt64), ChunksOK exS exE c e cs l →
    l.any (fun ch => containsSpec ch n) = containsSpec ⟨cs, some e, exS, exE⟩ n
  | [], _, h => by simp [ChunksOK] at h
  | [ch], cs, h => by obtain ⟨rfl, _⟩ := h; simp
  | ch :: ch2 :: rest, cs, h => by
    obtain ⟨ce, rfl, h1, h2, _, h4⟩ := h
    have ih := chunksOK_union hx n (ch2 :: rest) ce h4
    rw [List.any_cons, ih]
    simp only [UInt64.lt_iff_toNat_lt] at h1 h2
    unfold containsSpec
    cases exS <;> cases exE <;> simp at hx ⊢ <;> bool_omega

theorem init_facts (s e c : UInt64) (hv : s < e) (hc : 0 < c) (hgt : ¬ (e - s ≤ c)) :
    let ce := (s + c) - (s + c) % c
    s < ce ∧ ce ≤ e ∧ (ce % c = 0 ∨ ce = e) := by
  have hsub : (e - s).toNat = e.toNat - s.toNat :=
    UInt64.toNat_sub_of_le _ _ (by simp only [UInt64.le_iff_toNat_le, UInt64.lt_iff_toNat_lt] at *; omega)
  simp only [UInt64.le_iff_toNat_le, hsub, UInt64.lt_iff_toNat_lt, UInt64.toNat_zero] at hgt hv hc
  have hadd : (s + c).toNat = s.toNat + c.toNat := by
    rw [UInt64.toNat_add]; apply Nat.mod_eq_of_lt
    have := e.toNat_lt; omega
  have hmodle : (s.toNat + c.toNat) % c.toNat < c.toNat := Nat.mod_lt _ hc
  have hmodle2 : (s.toNat + c.toNat) % c.toNat ≤ s.toNat + c.toNat := Nat.mod_le _ _
  have hce : ((s + c) - (s + c) % c).toNat = (s.toNat + c.toNat) - (s.toNat + c.toNat) % c.toNat := by
    rw [UInt64.toNat_sub_of_le, UInt64.toNat_mod, hadd]
    simp only [UInt64.le_iff_toNat_le, UInt64.toNat_mod, hadd]; exact hmodle2
  intro ce
  refine ⟨?_, ?_, Or.inl ?_⟩
  · simp only [ce, UInt64.lt_iff_toNat_lt, hce]; omega
  · simp only [ce, UInt64.le_iff_toNat_le, hce]; omega
  · apply UInt64.toNat_inj.mp
    simp only [ce, UInt64.toNat_mod, hce, UInt64.toNat_zero]
    exact Nat.sub_mod_eq_zero_of_mod_eq (by simp)


end BstreamVerif.RangeLemmas
