/-!
Lists that are strictly ascending in a key: splitting by a threshold, last element, injectivity of the key.
-/
namespace BstreamVerif.Ascending

variable {α : Type} (f : α → Nat)

def Asc (l : List α) : Prop := l.Pairwise (fun a b => f a < f b)

theorem asc_sublist {l l' : List α} (h : Asc f l) (hs : l'.Sublist l) : Asc f l' := List.Pairwise.sublist hs h

theorem asc_filter (p : α → Bool) {l : List α} (h : Asc f l) : Asc f (l.filter p) := asc_sublist f h List.filter_sublist

/-- an ascending list is its part at or below a threshold followed by its part above it -/
theorem split_at (t : Nat) (l : List α) (h : Asc f l) :
    l = l.filter (fun a => decide (f a ≤ t)) ++ l.filter (fun a => decide (t < f a)) := by
  induction l with
  | nil => rfl
  | cons a r ih =>
    have hp := List.pairwise_cons.mp h
    by_cases ha : f a ≤ t
    · rw [List.filter_cons_of_pos (by simpa using ha), List.filter_cons_of_neg (by simp; omega)]
      rw [List.cons_append, ← ih hp.2]
    · have h1 : r.filter (fun a => decide (f a ≤ t)) = [] := by
        rw [List.filter_eq_nil_iff]
        intro x hx
        have := hp.1 x hx
        simp; omega
      have h2 : r.filter (fun a => decide (t < f a)) = r := by
        rw [List.filter_eq_self]
        intro x hx
        have := hp.1 x hx
        simp; omega
      rw [List.filter_cons_of_neg (by simpa using ha), List.filter_cons_of_pos (by simp; omega), h1, h2]
      rfl

theorem key_inj (l : List α) (h : Asc f l) (a b : α) (ha : a ∈ l) (hb : b ∈ l) (hk : f a = f b) : a = b := by
  induction l with
  | nil => cases ha
  | cons x r ih =>
    have hp := List.pairwise_cons.mp h
    rcases List.mem_cons.mp ha with rfl | ha' <;> rcases List.mem_cons.mp hb with rfl | hb'
    · rfl
    · have := hp.1 b hb'; omega
    · have := hp.1 a ha'; omega
    · exact ih hp.2 ha' hb'

/-- the element with the greatest key is the last one -/
theorem last_of_max (l : List α) (h : Asc f l) (a : α) (ha : a ∈ l) (hmax : ∀ x ∈ l, f x ≤ f a) : l.getLast? = some a := by
  induction l with
  | nil => cases ha
  | cons x r ih =>
    have hp := List.pairwise_cons.mp h
    cases r with
    | nil =>
      simp only [List.mem_singleton] at ha
      subst ha; rfl
    | cons y r' =>
      rw [List.getLast?_cons_cons]
      rcases List.mem_cons.mp ha with rfl | ha'
      · have := hp.1 y (by simp)
        have := hmax y (by simp)
        omega
      · exact ih hp.2 ha' (fun z hz => hmax z (List.mem_cons_of_mem _ hz))

end BstreamVerif.Ascending
