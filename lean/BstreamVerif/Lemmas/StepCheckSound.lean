import BstreamVerif.Props.C01
/-! the executable checks of the step hypotheses are sound -/
namespace BstreamVerif.Forkable
open BstreamVerif BstreamVerif.ForkDB

theorem wfInB_sound (b : Blk) (h : wfInB b = true) : WFin b := by
  simp only [wfInB, Bool.and_eq_true, bne_iff_ne, ne_eq] at h
  exact ⟨h.1.1, h.1.2, h.2⟩

theorem hbB_sound (db : DB) (b : Blk) (h : hbB db b = true) : HB db b := by
  simp only [hbB, Bool.and_eq_true, List.all_eq_true, Bool.or_eq_true, Bool.not_eq_true', beq_eq_false_iff_ne,
    decide_eq_true_eq, beq_iff_eq, ne_eq] at h
  obtain ⟨⟨⟨h1, h2⟩, h3⟩, h4⟩ := h
  refine ⟨?_, ?_, ?_, ?_⟩
  · intro p hp hpar
    rcases h1 p hp with g | g
    · exact absurd hpar g
    · exact g
  · intro e he hpar
    rcases h2 e he with g | g
    · exact absurd hpar g
    · exact g
  · intro hpar
    rcases h3 with g | g
    · exact absurd hpar g
    · exact g
  · intro hid
    rcases h4 with g | g
    · exact absurd hid g
    · exact g

theorem libDeclB_sound (db : DB) (b : Blk) (h : libDeclB db b = true) : LibDeclOK db b := by
  intro e he
  unfold libDeclB at h
  rw [he] at h
  simpa using h

theorem sentChainB_sound (db : DB) (fuel : Nat) (ids : List Id) (cur : Id)
    (hp : IsPath db db.libRef.id (ids ++ [cur])) (hn : db.libRef.id ∉ ids) (hlen : ids.length < fuel)
    (h : sentChainB db fuel cur = true) : ∀ y ∈ ids, isSent db y = true := by
  induction ids using rev_ind generalizing cur fuel with
  | nil => simp
  | append_singleton l p ih =>
    cases fuel with
    | zero => simp at hlen
    | succ fuel =>
      rw [isPath_append] at hp
      have hlink : db.link cur = p := by
        have := hp.2.1; simpa using this
      have hpne : p ≠ db.libRef.id := fun hc => hn (by simp [hc])
      unfold sentChainB at h
      simp only [hlink] at h
      have : (p == db.libRef.id) = false := by simpa using hpne
      simp only [this, Bool.false_eq_true, if_false] at h
      have hpres := isPath_present _ _ _ hp.1 p (by simp)
      cases hf : db.find p with
      | none => rw [hf] at hpres; cases hpres
      | some ep =>
        rw [hf] at h
        simp only [Bool.and_eq_true] at h
        intro y hy
        simp only [List.mem_append, List.mem_singleton] at hy
        rcases hy with hy | rfl
        · exact ih fuel p hp.1 (fun hm => hn (by simp [hm])) (by simp at hlen; omega) h.2 y hy
        · simp [isSent, hf, h.1]

theorem sentClosedB_sound (db : DB) (hw : WfEntries db) (h : sentClosedB db = true) : SentClosed db := by
  intro ids x hp hn hx
  unfold isSent at hx
  cases hf : db.find x with
  | none => rw [hf] at hx; simp at hx
  | some ex =>
    rw [hf] at hx
    simp only [Option.map_some, Option.getD_some] at hx
    simp only [sentClosedB, List.all_eq_true, Bool.or_eq_true, Bool.not_eq_true'] at h
    have := h ex (find_mem db x ex hf)
    rw [find_id db x ex hf] at this
    rcases this with g | g
    · rw [hx] at g; cases g
    · have hlen := isPath_length_le db _ _ hp hn
      simp only [List.length_append, List.length_singleton] at hlen
      exact sentChainB_sound db _ ids x hp (fun hm => hn (by simp [hm])) (by omega) g

/-- **the executable check of the step hypotheses is sound** -/
theorem stepOKb_sound (s : FState) (b : Blk) (hw : WfEntries s.db) (h : stepOKb s b = true) :
    Props.C01.StepOK s b := by
  simp only [stepOKb, Bool.and_eq_true] at h
  refine ⟨?_, sentClosedB_sound _ hw h.1.1.1.2, wfInB_sound b h.1.1.2, hbB_sound _ b h.1.2, libDeclB_sound _ b h.2⟩
  have h0 := h.1.1.1.1
  simp only [Bool.or_eq_true, Bool.not_eq_true', bne_iff_ne, ne_eq] at h0
  rcases h0 with (h0 | h0) | h0
  · exact Or.inl h0
  · exact Or.inr (Or.inl h0)
  · exact Or.inr (Or.inr h0)

end BstreamVerif.Forkable

namespace BstreamVerif.Forkable
open BstreamVerif BstreamVerif.ForkDB

/-- the step hypotheses checked along a whole history -/
def histOKb (cfg : Config) : FState → List Blk → Bool
  | _, [] => true
  | s, b :: r => stepOKb s b && histOKb cfg (processBlock cfg s b none).1 r

theorem histOKb_sound (cfg : Config) (hnew : cfg.matches .new = true) (hundo : cfg.matches .undo = true)
    (hirr : cfg.matches .irreversible = true) (h : List Blk) (s : FState) (P : List Id) (hI : Inv s P)
    (hb : histOKb cfg s h = true) : Props.C01.HistOK cfg s h := by
  induction h generalizing s P with
  | nil => trivial
  | cons b r ih =>
    simp only [histOKb, Bool.and_eq_true] at hb
    have hs := stepOKb_sound s b hI.wf hb.1
    obtain ⟨P1, _, hI1⟩ := Props.C01.step_discipline cfg hnew hundo hirr s P b hI hs
    exact ⟨hs, ih _ P1 hI1 hb.2⟩

/-! Non-vacuity: a history with a fork, a chain switch (undo + redo of a block delivered before), a duplicate,
    an orphan and a LIB move satisfies every hypothesis of `history_discipline`. -/
private def cfgX : Config := { root := some (.exclusive ⟨"r", 1⟩), hold := false, kept := 1, allTrigger := false, filter := 51, fsb := 0 }
private def hX : List Blk :=
  [ ⟨"a2", "r", 2, 1⟩, ⟨"a3", "a2", 3, 1⟩, ⟨"b3", "a2", 3, 1⟩, ⟨"b4", "b3", 4, 1⟩, ⟨"a3", "a2", 3, 1⟩,
    ⟨"a4", "a3", 4, 1⟩, ⟨"a5", "a4", 5, 2⟩, ⟨"z9", "z8", 9, 2⟩, ⟨"a6", "a5", 6, 3⟩ ]

example : histOKb cfgX (init cfgX) hX = true := by decide
example : ((runHistory cfgX (init cfgX) hX).2.map (fun e => (e.step, e.blk.id))) =
    [(.new, "a2"), (.new, "a3"), (.undo, "a3"), (.new, "b3"), (.new, "b4"), (.undo, "b4"), (.undo, "b3"),
     (.new, "a3"), (.new, "a4"), (.new, "a5"), (.irreversible, "a2"), (.new, "a6"), (.irreversible, "a3"),
     (.stalled, "b3")] := by decide
/-- the same run, New events only: (block, cursor LIB height, block height) — what `C04.history_cursor_lib_not_above_block`
    says of every history, computed on this one (the redo of a3 after the undo, and a6 after the LIB moved to 2) -/
example : (((runHistory cfgX (init cfgX) hX).2.filter (fun e => decide (e.step = .new))).map
      (fun e => (e.blk.id, e.lib.num, e.blk.num))) =
    [("a2", 1, 2), ("a3", 1, 3), ("b3", 1, 3), ("b4", 1, 4), ("a3", 1, 3), ("a4", 1, 4), ("a5", 1, 5), ("a6", 2, 6)] := by
  decide

end BstreamVerif.Forkable

namespace BstreamVerif.Forkable
open BstreamVerif BstreamVerif.ForkDB

/-! ### a finite universe given as a list of blocks -/

theorem ofList_mem (l : List Blk) (id : Id) (b : Blk) (h : ofList l id = some b) : b ∈ l ∧ b.id = id := by
  unfold ofList at h
  exact ⟨List.mem_of_find?_eq_some h, by have := List.find?_some h; simpa using this⟩

theorem ofList_of_mem (l : List Blk) (hu : l.all (fun b => l.all (fun c => !(b.id == c.id) || b == c)) = true)
    (b : Blk) (hb : b ∈ l) : ofList l b.id = some b := by
  unfold ofList
  cases hf : l.find? (fun c => c.id == b.id) with
  | none =>
    have := List.find?_eq_none.mp hf b hb
    simp at this
  | some c =>
    have hc := List.mem_of_find?_eq_some hf
    have hid : c.id = b.id := by have := List.find?_some hf; simpa using this
    simp only [List.all_eq_true, Bool.or_eq_true, Bool.not_eq_true', beq_eq_false_iff_ne, ne_eq, beq_iff_eq] at hu
    rcases hu c hc b hb with h | h
    · exact absurd hid h
    · rw [h]

theorem uokB_sound (l : List Blk) (h : uokB l = true) : UOK (ofList l) := by
  simp only [uokB, Bool.and_eq_true] at h
  obtain ⟨⟨h1, h2⟩, h3⟩ := h
  refine ⟨?_, ?_, ?_⟩
  · intro id b hb; exact (ofList_mem l id b hb).2
  · intro id b hb
    exact wfInB_sound b (List.all_eq_true.mp h1 b (ofList_mem l id b hb).1)
  · intro b p hb hp
    have hbm := (ofList_mem l _ b hb).1
    obtain ⟨hpm, hpid⟩ := ofList_mem l _ p hp
    simp only [List.all_eq_true, Bool.or_eq_true, Bool.not_eq_true', beq_eq_false_iff_ne, ne_eq, decide_eq_true_eq] at h3
    rcases h3 b hbm p hpm with g | g
    · exact absurd hpid.symm g
    · exact g

def libHistB (cfg : Config) : FState → List Blk → Bool
  | _, [] => true
  | s, b :: r => libDeclB s.db b && libHistB cfg (processBlock cfg s b none).1 r

theorem libHistB_sound (cfg : Config) (h : List Blk) (s : FState) (hb : libHistB cfg s h = true) :
    Props.C01.LibHistOK cfg s h := by
  induction h generalizing s with
  | nil => trivial
  | cons b r ih =>
    simp only [libHistB, Bool.and_eq_true] at hb
    exact ⟨libDeclB_sound _ b hb.1, ih _ hb.2⟩

/-! Non-vacuity of `history_discipline_consistent`: the history `hX` above (fork, undo/redo switch, duplicate, orphan,
    two LIB moves) is drawn from the consistent universe `uX`; every hypothesis is discharged by kernel evaluation. -/
private def uX : List Blk :=
  [ ⟨"a2", "r", 2, 1⟩, ⟨"a3", "a2", 3, 1⟩, ⟨"b3", "a2", 3, 1⟩, ⟨"b4", "b3", 4, 1⟩,
    ⟨"a4", "a3", 4, 1⟩, ⟨"a5", "a4", 5, 2⟩, ⟨"z9", "z8", 9, 2⟩, ⟨"a6", "a5", 6, 3⟩ ]

example : ∃ P', (⟨"r", []⟩ : CS).run (runHistory cfgX (init cfgX) hX).2 =
    some ⟨(runHistory cfgX (init cfgX) hX).1.db.libRef.id, P'⟩ := by
  have hU : UOK (ofList uX) := uokB_sound uX (by decide)
  have hI := Props.C01.init_inv cfgX ⟨"r", 1⟩ (by decide) rfl
  have hJ : Inv2 (ofList uX) ["r"] (init cfgX).db := by
    apply Props.C01.init_inv2 cfgX ⟨"r", 1⟩ rfl
    · intro b hb hp
      have hm := (ofList_mem uX _ b hb).1
      have : ∀ x ∈ uX, x.parent = "r" → 1 < x.num := by decide
      exact this b hm hp
    · intro b hb hid
      have hm := (ofList_mem uX _ b hb).1
      have : ∀ x ∈ uX, x.id = "r" → x.num = 1 := by decide
      exact this b hm hid
  have hin : ∀ b ∈ hX, ofList uX b.id = some b := by
    intro b hb
    apply ofList_of_mem uX (by decide)
    have : ∀ x ∈ hX, x ∈ uX := by decide
    exact this b hb
  obtain ⟨P', h1, _⟩ := Props.C01.history_discipline_consistent cfgX (by decide) (by decide) (by decide)
    (ofList uX) hU hX ["r"] (init cfgX) [] hI hJ hin (libHistB_sound cfgX hX _ (by decide)) (Or.inl rfl)
  exact ⟨P', h1⟩

end BstreamVerif.Forkable

namespace BstreamVerif.Forkable
open BstreamVerif BstreamVerif.ForkDB

/-! Non-vacuity of `history_discipline_discovery`: a hold-until-LIB forkable (the hub's configuration) fed the history
    `hX`; the LIB is discovered at block `a5` (which declares LIB 2): the chain a3, a4, a5 is delivered as New and the
    LIB block a2 is announced. -/
private def cfgH : Config := { root := none, hold := true, kept := 1, allTrigger := false, filter := 51, fsb := 0 }

example : Props.C01.LibHistOK cfgH (init cfgH) hX := libHistB_sound cfgH hX _ (by decide)
example : UOK (ofList uX) ∧ ∀ b ∈ hX, ofList uX b.id = some b :=
  ⟨uokB_sound uX (by decide), fun b hb => ofList_of_mem uX (by decide) b ((by decide : ∀ x ∈ hX, x ∈ uX) b hb)⟩
example : ((runHistory cfgH (init cfgH) hX).2.map (fun e => (e.step, e.blk.id))) =
    [(.new, "a3"), (.new, "a4"), (.new, "a5"), (.irreversible, "a2"), (.new, "a6"), (.irreversible, "a3"),
     (.stalled, "b3")] := by decide

end BstreamVerif.Forkable
