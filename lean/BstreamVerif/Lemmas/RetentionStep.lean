import BstreamVerif.Lemmas.Retention
import BstreamVerif.Lemmas.ForkStep
import BstreamVerif.Lemmas.Discovery
/-!
Two forkables that differ only in their retention setting, fed the same block: the same decision, the same events,
and states that again differ only below the LIB (C03: "outputs do not depend on the retention setting").
-/
namespace BstreamVerif.Forkable
open BstreamVerif BstreamVerif.ForkDB

/-- two forkable states that differ only in what their buffers hold below the LIB -/
structure Twin (s₁ s₂ : FState) : Prop where
  db : SameAbove s₁.db s₂.db
  last : s₂.lastSent = s₁.lastSent
  seen : s₂.lastLIBSeen = s₁.lastLIBSeen
  incl : s₂.includeInit = s₁.includeInit
  cache : s₂.cache = s₁.cache
  fresh : s₁.lastSent = none → s₂.db.entries = s₁.db.entries

theorem Twin.refl (s : FState) : Twin s s := ⟨SameAbove.refl _, rfl, rfl, rfl, rfl, fun _ => rfl⟩

/-- the incoming block is stored in both buffers or in neither (unless it is dropped as below the LIB anyway) -/
theorem Twin.find_incoming {s₁ s₂ : FState} (hT : Twin s₁ s₂) (U : Id → Option Blk) (hU : UOK U)
    (hw₁ : WfEntries s₁.db) (hw₂ : WfEntries s₂.db)
    (hin₁ : ∀ e ∈ s₁.db.entries, U e.blk.id = some e.blk) (hin₂ : ∀ e ∈ s₂.db.entries, U e.blk.id = some e.blk)
    (b : Blk) (hbU : U b.id = some b)
    (hnb : ¬ (b.num < s₁.db.libRef.num ∧ s₁.lastSent.isSome = true)) : s₂.db.find b.id = s₁.db.find b.id := by
  cases hls : s₁.lastSent with
  | none => unfold DB.find; rw [hT.fresh hls]
  | some l =>
    have hge : s₁.db.libRef.num ≤ b.num := by
      rw [hls] at hnb; simp at hnb; omega
    have key : ∀ (db : DB), (∀ e ∈ db.entries, U e.blk.id = some e.blk) → ∀ e, db.find b.id = some e →
        s₁.db.libRef.num ≤ e.blk.num := by
      intro db hin e he
      have h1 := hin e (find_mem db _ e he)
      rw [find_id db _ e he, hbU] at h1
      injection h1 with h1
      rw [← h1]; exact hge
    exact hT.db.find_agree hw₁ hw₂ b.id (key s₁.db hin₁) (key s₂.db hin₂)

theorem addLink_snd_of_find (db₁ db₂ : DB) (b : Blk) (h : db₂.find b.id = db₁.find b.id) :
    (db₂.addLink b).2 = (db₁.addLink b).2 := by
  have hl : db₂.link b.id = db₁.link b.id := by unfold DB.link; rw [h]
  cases h1 : (db₁.addLink b).2 with
  | true =>
    have := (addLink_exists_iff db₁ b).mp h1
    exact (addLink_exists_iff db₂ b).mpr ⟨this.1, this.2.1, by rw [hl]; exact this.2.2⟩
  | false =>
    cases h2 : (db₂.addLink b).2 with
    | false => rfl
    | true =>
      have := (addLink_exists_iff db₂ b).mp h2
      have h3 := (addLink_exists_iff db₁ b).mpr ⟨this.1, this.2.1, by rw [← hl]; exact this.2.2⟩
      rw [h1] at h3; cases h3

/-- linking a fresh block keeps the states twins -/
theorem Twin.append {s₁ s₂ : FState} (hT : Twin s₁ s₂) (b : Blk) (c : Option (List Entry)) :
    Twin { s₁ with db := appendBlk s₁.db b, cache := c } { s₂ with db := appendBlk s₂.db b, cache := c } :=
  ⟨hT.db.append b, hT.last, hT.seen, hT.incl, rfl, fun h => by
    show (appendBlk s₂.db b).entries = (appendBlk s₁.db b).entries
    unfold appendBlk; simp only; rw [hT.fresh h]⟩

/-- the longest chain computed for a freshly linked block is the same -/
theorem Twin.computeLongestChain_eq {s₁ s₂ : FState} (hT : Twin s₁ s₂) (cfg cfg' : Config) (hfsb : cfg'.fsb = cfg.fsb)
    (P : List Id) (hI₁ : Inv s₁ P) (hI₂ : Inv s₂ P) (hi₁ : InitNumOK s₁.db) (hi₂ : InitNumOK s₂.db)
    (b : Blk) (hb : WFin b) (hB₁ : HB s₁.db b) (hB₂ : HB s₂.db b)
    (hf₁ : s₁.db.find b.id = none) (hf₂ : s₂.db.find b.id = none) :
    computeLongestChain cfg' { s₂ with db := appendBlk s₂.db b } b =
      computeLongestChain cfg { s₁ with db := appendBlk s₁.db b } b := by
  have hI₁' := inv_afterLink s₁ P b none hI₁ hb hB₁ hf₁ (by intro c cs h; cases h)
  have hI₂' := inv_afterLink s₂ P b none hI₂ hb hB₂ hf₂ (by intro c cs h; cases h)
  have hs : ∀ (db : DB), db.find b.id = none → ∀ e, (appendBlk db b).find b.ref.id = some e → e.blk.num = b.ref.num := by
    intro db hf e he
    rw [show (appendBlk db b).find b.ref.id = some ⟨b, false⟩ from find_append_self db b hf] at he
    injection he with he; subst he; rfl
  have hrev : ((appendBlk s₂.db b).reversibleSegment cfg.fsb b.ref).1 = ((appendBlk s₁.db b).reversibleSegment cfg.fsb b.ref).1 :=
    ((hT.db.append b).revSeg_fst hI₁'.wf hI₂'.wf hI₁'.heights hI₂'.heights
      (by intro i n hin hid; exact hi₁ i n hin hid) (by intro i n hin hid; exact hi₂ i n hin hid)
      (hasLIB_of_id _ hI₁.libNe) cfg.fsb b.ref (hs s₁.db hf₁) (hs s₂.db hf₂)).symm
  have hlib : (appendBlk s₂.db b).libRef = (appendBlk s₁.db b).libRef := hT.db.lib
  unfold computeLongestChain
  simp only [hT.cache]
  rw [hlib, hfsb, hrev]

/-- the undo / redo segments computed for a block whose parent tops a path `L` resting on the LIB are the same -/
theorem Twin.switchSegments_eq {s₁ s₂ : FState} (hT : Twin s₁ s₂) (cfg cfg' : Config) (hflt : cfg'.filter = cfg.filter)
    (P : List Id) (hI₁ : Inv s₁ P) (hI₂ : Inv s₂ P) (b : Blk) (L : List Id)
    (hL : IsPath s₁.db s₁.db.libRef.id L) (hLn : s₁.db.libRef.id ∉ L) (hpar : b.parent = topOf s₁.db.libRef.id L) :
    switchSegments cfg' s₂ b true = switchSegments cfg s₁ b true := by
  unfold switchSegments
  have hm : cfg'.matches .undo = cfg.matches .undo := by unfold Config.matches; rw [hflt]
  rw [hm, hT.last]
  by_cases hu : (cfg.matches .undo && true) = true
  · rw [if_pos hu, if_pos hu]
    cases hls : s₁.lastSent with
    | none => rfl
    | some l =>
      simp only
      unfold sentChainSwitch
      by_cases hsame : (l.id == b.parent) = true
      · rw [if_pos hsame, if_pos hsame]
      · rw [if_neg hsame, if_neg hsame]
        have htop := hI₁.topSome l hls
        obtain ⟨hcs, u, r, j, A, hc₁, hPd, hLd, hj⟩ := hT.db.chainSwitch_eq hI₁.wf hI₂.wf hI₁.heights hI₂.heights
          hI₁.libNe P L hI₁.path hI₁.libNotin hL hLn
        rw [htop, ← hpar] at hcs hc₁
        rw [hcs, hc₁]
        simp only
        -- the entries looked up lie on the two paths
        have hfu : ∀ x ∈ u, s₂.db.find x = s₁.db.find x := by
          intro x hx
          apply hT.db.find_on_path hI₂.wf hI₁.heights P hI₁.path
          rw [hPd]; simp [hx]
        have hfr : ∀ x ∈ r, s₂.db.find x = s₁.db.find x := by
          intro x hx
          apply hT.db.find_on_path hI₂.wf hI₁.heights L hL
          rw [hLd]; simp [hx]
        have hfj : s₂.db.find j = s₁.db.find j := by
          rcases topOf_mem s₁.db.libRef.id A with h0 | h0
          · rw [← hj, h0]; exact hT.db.find_lib hI₁.wf hI₂.wf hI₁.heights hI₂.heights
          · rw [hj] at h0
            apply hT.db.find_on_path hI₂.wf hI₁.heights P hI₁.path
            rw [hPd]; simp [h0]
        rw [mapM_congr_mem _ _ u hfu, mapM_congr_mem _ _ r hfr, hfj]
  · rw [if_neg hu, if_neg hu]

/-! ### the deliveries -/

/-- two delivery accumulators in step: same events so far, no failure, twin states -/
structure AccTwin (a₁ a₂ : Acc) : Prop where
  evs : a₂.evs = a₁.evs
  st : Twin a₁.st a₂.st
  nf₁ : a₁.failed = false ∧ a₁.failAt = none
  nf₂ : a₂.failed = false ∧ a₂.failAt = none

theorem Twin.cursorLIB_eq {s₁ s₂ : FState} (hT : Twin s₁ s₂) : cursorLIB s₂ = cursorLIB s₁ := by
  unfold cursorLIB; rw [hT.seen, hT.db.lib]

theorem newStep_twin (cfg cfg' : Config) (hm : cfg.matches .new = true) (hm' : cfg'.matches .new = true) (head : Ref)
    (a₁ a₂ : Acc) (hA : AccTwin a₁ a₂) (e : Entry) (hag : a₂.st.db.find e.blk.id = a₁.st.db.find e.blk.id) :
    AccTwin (newStep cfg head a₁ e) (newStep cfg' head a₂ e) ∧
    ∀ x, a₂.st.db.find x = a₁.st.db.find x →
      (newStep cfg' head a₂ e).st.db.find x = (newStep cfg head a₁ e).st.db.find x := by
  have hs : isSent a₂.st.db e.blk.id = isSent a₁.st.db e.blk.id := by unfold isSent; rw [hag]
  by_cases h1 : isSent a₁.st.db e.blk.id = true
  · rw [newStep_sent cfg head a₁ e hA.nf₁.1 h1, newStep_sent cfg' head a₂ e hA.nf₂.1 (by rw [hs]; exact h1)]
    exact ⟨hA, fun x hx => hx⟩
  · have h1 : isSent a₁.st.db e.blk.id = false := by simpa using h1
    rw [newStep_send_none cfg head a₁ e hA.nf₁.1 h1 hm hA.nf₁.2,
      newStep_send_none cfg' head a₂ e hA.nf₂.1 (by rw [hs]; exact h1) hm' hA.nf₂.2]
    refine ⟨⟨?_, ?_, ⟨rfl, rfl⟩, ⟨rfl, rfl⟩⟩, ?_⟩
    · show a₂.evs ++ [newEv head a₂.st e] = a₁.evs ++ [newEv head a₁.st e]
      rw [hA.evs]; unfold newEv; rw [hA.st.cursorLIB_eq]
    · exact ⟨hA.st.db.markSent e.blk.id, rfl, hA.st.seen, hA.st.incl, hA.st.cache, fun h => by cases h⟩
    · intro x hx
      show (a₂.st.db.markSent e.blk.id).find x = (a₁.st.db.markSent e.blk.id).find x
      rw [find_markSent, find_markSent, hx]

theorem foldl_newStep_twin (cfg cfg' : Config) (hm : cfg.matches .new = true) (hm' : cfg'.matches .new = true)
    (head : Ref) (ch : List Entry) (a₁ a₂ : Acc) (hA : AccTwin a₁ a₂)
    (hag : ∀ e ∈ ch, a₂.st.db.find e.blk.id = a₁.st.db.find e.blk.id) :
    AccTwin (ch.foldl (newStep cfg head) a₁) (ch.foldl (newStep cfg' head) a₂) := by
  induction ch generalizing a₁ a₂ with
  | nil => exact hA
  | cons e r ih =>
    obtain ⟨h1, h2⟩ := newStep_twin cfg cfg' hm hm' head a₁ a₂ hA e (hag e (by simp))
    exact ih _ _ h1 (fun x hx => h2 _ (hag x (by simp [hx])))

theorem phase_twin (a₁ a₂ : Acc) (hA : AccTwin a₁ a₂) (evs : List Event) : AccTwin (phase a₁ evs) (phase a₂ evs) := by
  obtain ⟨f1, n1, e1, s1⟩ := phase_nofail a₁ evs hA.nf₁
  obtain ⟨f2, n2, e2, s2⟩ := phase_nofail a₂ evs hA.nf₂
  exact ⟨by rw [e1, e2, hA.evs], by rw [s1, s2]; exact hA.st, ⟨f1, n1⟩, ⟨f2, n2⟩⟩

/-- the undo / redo / new deliveries of a chain switch are the same, and leave twin states -/
theorem emitSwitch_twin (cfg cfg' : Config) (hflt : cfg'.filter = cfg.filter) (hnew : cfg.matches .new = true)
    (s3₁ s3₂ : FState) (hT : Twin s3₁ s3₂) (b : Blk) (lc u rd : List Entry) (j : Option Ref)
    (hag : ∀ e ∈ lc, s3₂.db.find e.blk.id = s3₁.db.find e.blk.id) :
    AccTwin (emitSwitch cfg s3₁ b lc u rd j none) (emitSwitch cfg' s3₂ b lc u rd j none) := by
  have hm : ∀ st, cfg'.matches st = cfg.matches st := by intro st; unfold Config.matches; rw [hflt]
  unfold emitSwitch processNew
  rw [hm .undo, hm .new, hT.cursorLIB_eq]
  have h0 : AccTwin ⟨s3₁, [], none, false⟩ ⟨s3₂, [], none, false⟩ := ⟨rfl, hT, ⟨rfl, rfl⟩, ⟨rfl, rfl⟩⟩
  simp only [hnew, if_true]
  cases hu : cfg.matches .undo with
  | true =>
    simp only [if_true]
    have h1 := phase_twin _ _ h0 (mkEvents .undo u b.ref (cursorLIB s3₁) j)
    have h2 := phase_twin _ _ h1 (mkEvents .new rd b.ref (cursorLIB s3₁) none)
    apply foldl_newStep_twin cfg cfg' hnew (by rw [hm]; exact hnew) _ lc _ _ h2
    intro e he
    rw [(phase_nofail _ _ h1.nf₁).2.2.2, (phase_nofail _ _ h1.nf₂).2.2.2, (phase_nofail _ _ h0.nf₁).2.2.2,
      (phase_nofail _ _ h0.nf₂).2.2.2]
    exact hag e he
  | false =>
    simp only [Bool.false_eq_true, if_false]
    have h2 := phase_twin _ _ h0 (mkEvents .new rd b.ref (cursorLIB s3₁) none)
    apply foldl_newStep_twin cfg cfg' hnew (by rw [hm]; exact hnew) _ lc _ _ h2
    intro e he
    rw [(phase_nofail _ _ h0.nf₁).2.2.2, (phase_nofail _ _ h0.nf₂).2.2.2]
    exact hag e he

/-! ### the LIB move -/

/-- when the LIB moves, it moves to a pending block (extracted from `advance_inv`) -/
theorem moved_on_chain (fsb : Nat) (st : FState) (Q : List Id) (hI : Inv st Q) (last : Blk)
    (hls : st.lastSent = some last) (R : Ref) (hR : st.db.blockInChain last.ref last.lib = R) (hRne : R.id ≠ "")
    (hnew : (st.db.hasNewIrreversibleSegment fsb R).1 = true) : R.id ∈ Q := by
  have hlibT : st.db.hasLIB = true := hasLIB_of_id _ hI.libNe
  obtain ⟨hne, seg, r, hrev, hsegne, _, _⟩ := hasNew_inv st.db fsb R hnew
  have hr : r = true := revSegAux_reach _ _ _ _ _ _ _ _ hlibT hrev
  subst hr
  obtain ⟨hsp, hstop, _, _, _⟩ := reversibleSegment_sound _ _ _ _ hrev
  have hRseg : R.id ∈ seg.map (·.blk.id) := by
    cases hs : seg.map (·.blk.id) with
    | nil => simp at hs; exact absurd hs hsegne
    | cons c cs => rw [← hstop, hs]; exact topOf_cons_mem _ c cs
  obtain ⟨er, hfer⟩ : ∃ er, st.db.find R.id = some er := by
    have := isPath_present _ _ _ hsp R.id hRseg
    cases hfr : st.db.find R.id with
    | none => rw [hfr] at this; cases this
    | some er => exact ⟨er, rfl⟩
  have herhigh := heights_path _ hI.heights _ st.db.libRef.num _ hsp hI.heights.2.1 R.id hRseg er hfer
  have hQlen := isPath_length_le _ _ Q hI.path hI.libNotin
  have hQne := wf_path_ne _ hI.wf _ Q hI.path
  have hW : st.db.walkDown (st.db.entries.length + 2) (topOf st.db.libRef.id Q) =
      Q.reverse ++ st.db.walkDown (st.db.entries.length + 2 - Q.length) st.db.libRef.id := by
    have := walkDown_path _ _ Q hI.path hI.libNe hQne (st.db.entries.length + 2 - Q.length)
    rw [show st.db.entries.length + 2 - Q.length + Q.length = st.db.entries.length + 2 by omega] at this
    exact this
  obtain ⟨tail, htail⟩ := walkDown_head st.db (st.db.entries.length + 1 - Q.length) st.db.libRef.id
  rw [show st.db.entries.length + 1 - Q.length + 1 = st.db.entries.length + 2 - Q.length by omega] at htail
  have hbelow := heights_below_lib _ hI.wf hI.heights (st.db.entries.length + 2 - Q.length)
  rw [htail, List.tail_cons] at hbelow
  rw [htail] at hW
  have hRwalk : R.id ∈ st.db.walkDown (st.db.entries.length + 2) last.id := by
    have := blockInChain_on_walk st.db (numOf_empty _ hI.wf hI.initOk) last.ref last.lib (by rw [hR]; exact hRne)
    rw [hR] at this; exact this
  rw [← hI.topSome last hls, hW] at hRwalk
  simp only [List.mem_append, List.mem_reverse, List.mem_cons] at hRwalk
  rcases hRwalk with h | h | h
  · exact h
  · exact absurd h.symm hne
  · have := hbelow R.id h er hfer; omega

theorem blockInChain_num (db : DB) (start : Ref) (t : Nat) (h : (db.blockInChain start t).id ≠ "") :
    (db.blockInChain start t).num = t := by
  unfold DB.blockInChain at h ⊢
  by_cases hs : (start.num == t) = true
  · simp only [hs, if_true]; exact beq_iff_eq.mp hs
  · simp only [hs, Bool.false_eq_true, if_false] at h ⊢
    exact blockInChainAux_num' db _ _ _ _ h

theorem Twin.symm {s₁ s₂ : FState} (hT : Twin s₁ s₂) : Twin s₂ s₁ :=
  ⟨hT.db.symm, hT.last.symm, hT.seen.symm, hT.incl.symm, hT.cache.symm,
    fun h => (hT.fresh (by rw [← hT.last]; exact h)).symm⟩

/-- if the LIB moves in one forkable, the other finds the same new LIB and moves too -/
theorem move_transfer (fsb : Nat) (st₁ st₂ : FState) (hT : Twin st₁ st₂) (Q : List Id) (hI₁ : Inv st₁ Q)
    (hI₂ : Inv st₂ Q) (hi₂ : InitNumOK st₂.db) (last : Blk) (hls : st₁.lastSent = some last)
    (hlast : ∀ e, st₁.db.find last.id = some e → e.blk.num = last.num)
    (hok₁ : ∀ e, st₁.db.find (st₁.db.blockInChain last.ref last.lib).id = some e →
      e.blk.num = (st₁.db.blockInChain last.ref last.lib).num)
    (hRne : (st₁.db.blockInChain last.ref last.lib).id ≠ "")
    (hnew₁ : (st₁.db.hasNewIrreversibleSegment fsb (st₁.db.blockInChain last.ref last.lib)).1 = true) :
    st₂.db.blockInChain last.ref last.lib = st₁.db.blockInChain last.ref last.lib ∧
    (st₂.db.hasNewIrreversibleSegment fsb (st₁.db.blockInChain last.ref last.lib)).1 = true := by
  generalize hR : st₁.db.blockInChain last.ref last.lib = R at hok₁ hRne hnew₁ ⊢
  have hxQ := moved_on_chain fsb st₁ Q hI₁ last hls R hR hRne hnew₁
  have hRnum : R.num = last.lib := by rw [← hR]; exact blockInChain_num _ _ _ (by rw [hR]; exact hRne)
  obtain ⟨e₁, hf₁⟩ : ∃ e, st₁.db.find R.id = some e := by
    have := isPath_present _ _ _ hI₁.path R.id hxQ
    cases hfr : st₁.db.find R.id with
    | none => rw [hfr] at this; cases this
    | some er => exact ⟨er, rfl⟩
  have hnum₁ := hok₁ e₁ hf₁
  have hagree := hT.db.find_on_path hI₂.wf hI₁.heights Q hI₁.path
  have hf₂ : st₂.db.find R.id = some e₁ := by rw [hagree R.id hxQ]; exact hf₁
  have hlib₂ : st₂.db.libRef = st₁.db.libRef := hT.db.lib
  obtain ⟨pre, post, hQ⟩ := List.append_of_mem hxQ
  have hQ' : Q = (pre ++ [R.id]) ++ post := by rw [hQ]; simp
  have hp₂ := hI₂.path
  rw [hQ', isPath_append] at hp₂
  simp only [topOf_append_singleton] at hp₂
  have hn₂ : st₂.db.libRef.id ∉ pre ++ [R.id] := fun hm => hI₂.libNotin (by rw [hQ']; exact List.mem_append_left _ hm)
  refine ⟨?_, hasNew_complete st₂.db hI₂.heights hi₂ fsb pre R.id hp₂.1 hn₂ R rfl
    (by rw [numOf_of_find _ _ _ hf₂, hnum₁])⟩
  -- the other buffer finds the same block
  have htop := hI₁.topSome last hls
  by_cases hpost : post = []
  · subst hpost
    have hid : R.id = last.id := by rw [← htop, hQ']; simp
    have hln : last.num = last.lib := by
      have := hlast e₁ (by rw [← hid]; exact hf₁)
      rw [← this, hnum₁, hRnum]
    have h1 : st₁.db.blockInChain last.ref last.lib = last.ref := by
      unfold DB.blockInChain; rw [if_pos (by simp [Blk.ref, hln])]
    have h2 : st₂.db.blockInChain last.ref last.lib = last.ref := by
      unfold DB.blockInChain; rw [if_pos (by simp [Blk.ref, hln])]
    rw [h2, ← hR, h1]
  · have hnd := isPath_nodup _ _ Q hI₁.path hI₁.libNotin
    have hxpost : R.id ∉ post := by
      rw [hQ] at hnd
      exact (List.nodup_cons.mp (List.nodup_append.mp hnd).2.1).1
    have htop2 : topOf R.id post = last.id := by
      rw [← htop, hQ', topOf_append]; simp
    have hlpost : last.id ∈ post := by
      rcases topOf_mem R.id post with h | h
      · exfalso
        rcases List.eq_nil_or_concat post with h0 | ⟨p0, z, hz⟩
        · exact hpost h0
        · rw [List.concat_eq_append] at hz; subst hz
          simp only [topOf_append_singleton] at h
          exact hxpost (by rw [← h]; simp)
      · rw [htop2] at h; exact h
    have hlQ : last.id ∈ Q := by rw [hQ]; simp [hlpost]
    obtain ⟨el, hfl₁⟩ : ∃ e, st₁.db.find last.id = some e := by
      have := isPath_present _ _ _ hI₁.path last.id hlQ
      cases hfr : st₁.db.find last.id with
      | none => rw [hfr] at this; cases this
      | some er => exact ⟨er, rfl⟩
    have hfl₂ : st₂.db.find last.id = some el := by rw [hagree last.id hlQ]; exact hfl₁
    have hlow : e₁.blk.num < el.blk.num :=
      heights_path st₂.db hI₂.heights R.id e₁.blk.num post hp₂.2
        (fun e he hpar => hI₂.heights.1 e he e₁ (find_mem _ _ e₁ hf₂) (by rw [hpar, find_id _ _ e₁ hf₂])) last.id hlpost el hfl₂
    have := blockInChain_complete st₂.db hI₂.heights R.id e₁ hf₂ post hp₂.2 hpost
      (isPath_length_le _ R.id post hp₂.2 hxpost) last.ref (by rw [htop2]; rfl)
      (by show last.num ≠ e₁.blk.num; rw [← hlast el hfl₁]; omega)
    rw [← hRnum, ← hnum₁, this]
    cases R with
    | mk ri rn => simp only at hnum₁ ⊢; rw [hnum₁]

theorem irrEvents_congr (cfg cfg' : Config) (hflt : cfg'.filter = cfg.filter) (seg : List Entry) (head : Ref)
    (act₁ act₂ : Id → Option Blk) (h : ∀ e ∈ seg, act₂ e.blk.id = act₁ e.blk.id) :
    irrEvents cfg' seg head act₂ = irrEvents cfg seg head act₁ := by
  unfold irrEvents
  have hm : cfg'.matches .irreversible = cfg.matches .irreversible := by unfold Config.matches; rw [hflt]
  rw [hm]
  split
  · apply List.ext_getElem
    · simp
    · intro i h1 h2
      simp only [List.getElem_mapIdx]
      rw [h _ (List.getElem_mem _)]
  · rfl

theorem processIrr_twin (cfg cfg' : Config) (a₁ a₂ : Acc) (hA : AccTwin a₁ a₂) (seg : List Entry) (head : Ref)
    (act₁ act₂ : Id → Option Blk) (hev : irrEvents cfg' seg head act₂ = irrEvents cfg seg head act₁) :
    AccTwin (processIrr cfg a₁ seg head act₁) (processIrr cfg' a₂ seg head act₂) := by
  have hp := phase_twin a₁ a₂ hA (irrEvents cfg seg head act₁)
  have e1 : processIrr cfg a₁ seg head act₁ = setSeen (phase a₁ (irrEvents cfg seg head act₁)) seg := by
    rw [processIrr_eq]; simp [hA.nf₁.1, hp.nf₁.1]
  have e2 : processIrr cfg' a₂ seg head act₂ = setSeen (phase a₂ (irrEvents cfg seg head act₁)) seg := by
    rw [processIrr_eq, hev]; simp [hA.nf₂.1, hp.nf₂.1]
  rw [e1, e2]
  unfold setSeen
  cases seg.getLast? with
  | none => exact hp
  | some l =>
    exact ⟨hp.evs, ⟨hp.st.db, hp.st.last, rfl, hp.st.incl, hp.st.cache, hp.st.fresh⟩, hp.nf₁, hp.nf₂⟩

theorem processStalled_twin (cfg cfg' : Config) (hflt : cfg'.filter = cfg.filter) (a₁ a₂ : Acc) (hA : AccTwin a₁ a₂)
    (st : List Entry) (head : Ref) : AccTwin (processStalled cfg a₁ st head) (processStalled cfg' a₂ st head) := by
  have hm : cfg'.matches .stalled = cfg.matches .stalled := by unfold Config.matches; rw [hflt]
  unfold processStalled
  simp only [hA.nf₁.1, hA.nf₂.1, Bool.false_eq_true, if_false, hm, hA.st.seen]
  exact phase_twin a₁ a₂ hA _

theorem advanceAcc_nomove (cfg : Config) (a : Acc) (b : Blk) (hf : a.failed = false) (last : Blk)
    (hls : a.st.lastSent = some last) (hlibT : a.st.db.hasLIB = true)
    (h : ¬ ((a.st.db.blockInChain last.ref last.lib).id ≠ "" ∧
      (a.st.db.hasNewIrreversibleSegment cfg.fsb (a.st.db.blockInChain last.ref last.lib)).1 = true)) :
    advanceAcc cfg a b none = a := by
  unfold advanceAcc
  simp only [hf, Bool.false_eq_true, if_false, hls, hlibT, Bool.not_true]
  by_cases hR : ((a.st.db.blockInChain last.ref last.lib).id == "") = true
  · rw [if_pos hR]
  · rw [if_neg hR, advanceTo_eq]
    have hne : (a.st.db.blockInChain last.ref last.lib).id ≠ "" := by simpa using hR
    have hnew : (a.st.db.hasNewIrreversibleSegment cfg.fsb (a.st.db.blockInChain last.ref last.lib)).1 = false := by
      cases hx : (a.st.db.hasNewIrreversibleSegment cfg.fsb (a.st.db.blockInChain last.ref last.lib)).1 with
      | false => rfl
      | true => exact absurd ⟨hne, hx⟩ h
    rw [if_pos (by simp [hnew])]

theorem advanceAcc_move (cfg : Config) (a : Acc) (b : Blk) (hf : a.failed = false) (last : Blk)
    (hls : a.st.lastSent = some last) (hlibT : a.st.db.hasLIB = true) (R : Ref)
    (hR : a.st.db.blockInChain last.ref last.lib = R) (hRne : R.id ≠ "")
    (hnew : (a.st.db.hasNewIrreversibleSegment cfg.fsb R).1 = true) :
    advanceAcc cfg a b none = processStalled cfg
      (processIrr cfg { a with st := withDb ((a.st.db.moveLIB R).purgeBeforeLIB cfg.kept) a.st }
        (a.st.db.hasNewIrreversibleSegment cfg.fsb R).2.1 b.ref (fun i => (a.st.db.find i).map (·.blk)))
      (a.st.db.hasNewIrreversibleSegment cfg.fsb R).2.2 b.ref := by
  unfold advanceAcc
  rw [if_neg (by simp [hf])]
  simp only [hls]
  rw [if_neg (by simp [hlibT])]
  simp only [hR]
  rw [if_neg (by simpa using hRne), advanceTo_eq, if_neg (by simp [hnew])]
  rfl

/-- **the LIB advance is the same in both forkables** -/
theorem advance_twin (cfg cfg' : Config) (hflt : cfg'.filter = cfg.filter) (hfsb : cfg'.fsb = cfg.fsb)
    (a₁ a₂ : Acc) (hA : AccTwin a₁ a₂) (b : Blk) (Q : List Id) (hI₁ : Inv a₁.st Q) (hI₂ : Inv a₂.st Q)
    (hi₁ : InitNumOK a₁.st.db) (hi₂ : InitNumOK a₂.st.db) (last : Blk) (hls : a₁.st.lastSent = some last)
    (hlast₁ : ∀ e, a₁.st.db.find last.id = some e → e.blk.num = last.num)
    (hlast₂ : ∀ e, a₂.st.db.find last.id = some e → e.blk.num = last.num)
    (hok₁ : ∀ e, a₁.st.db.find (a₁.st.db.blockInChain last.ref last.lib).id = some e →
      e.blk.num = (a₁.st.db.blockInChain last.ref last.lib).num)
    (hok₂ : ∀ e, a₂.st.db.find (a₂.st.db.blockInChain last.ref last.lib).id = some e →
      e.blk.num = (a₂.st.db.blockInChain last.ref last.lib).num) :
    AccTwin (advanceAcc cfg a₁ b none) (advanceAcc cfg' a₂ b none) := by
  have hls₂ : a₂.st.lastSent = some last := by rw [hA.st.last]; exact hls
  have hlT₁ : a₁.st.db.hasLIB = true := hasLIB_of_id _ hI₁.libNe
  have hlT₂ : a₂.st.db.hasLIB = true := hasLIB_of_id _ hI₂.libNe
  by_cases hmv : (a₁.st.db.blockInChain last.ref last.lib).id ≠ "" ∧
      (a₁.st.db.hasNewIrreversibleSegment cfg.fsb (a₁.st.db.blockInChain last.ref last.lib)).1 = true
  · obtain ⟨hR₂, hnew₂⟩ := move_transfer cfg.fsb a₁.st a₂.st hA.st Q hI₁ hI₂ hi₂ last hls hlast₁ hok₁ hmv.1 hmv.2
    generalize hR : a₁.st.db.blockInChain last.ref last.lib = R at hmv hR₂ hnew₂ hok₁
    rw [advanceAcc_move cfg a₁ b hA.nf₁.1 last hls hlT₁ R hR hmv.1 hmv.2,
      advanceAcc_move cfg' a₂ b hA.nf₂.1 last hls₂ hlT₂ R hR₂ hmv.1 (by rw [hfsb]; exact hnew₂)]
    rw [hfsb]
    -- the new LIB is a pending block, stored in both with its number
    have hxQ := moved_on_chain cfg.fsb a₁.st Q hI₁ last hls R hR hmv.1 hmv.2
    obtain ⟨er, hfer⟩ : ∃ e, a₁.st.db.find R.id = some e := by
      have := isPath_present _ _ _ hI₁.path R.id hxQ
      cases hfr : a₁.st.db.find R.id with
      | none => rw [hfr] at this; cases this
      | some er => exact ⟨er, rfl⟩
    have hagree := hA.st.db.find_on_path hI₂.wf hI₁.heights Q hI₁.path
    have hfer₂ : a₂.st.db.find R.id = some er := by rw [hagree R.id hxQ]; exact hfer
    have hnumR := hok₁ er hfer
    have hup : a₁.st.db.libRef.num ≤ R.num := by
      have := heights_path _ hI₁.heights _ a₁.st.db.libRef.num _ hI₁.path hI₁.heights.2.1 R.id hxQ er hfer
      omega
    -- the irreversible segment and the stalled blocks
    obtain ⟨_, seg₁, r₁, hrev₁, hne₁, hseg₁, hst₁⟩ := hasNew_inv a₁.st.db cfg.fsb R hmv.2
    obtain ⟨_, seg₂, r₂, hrev₂, hne₂, hseg₂, hst₂⟩ := hasNew_inv a₂.st.db cfg.fsb R hnew₂
    have hsegeq : seg₂ = seg₁ := by
      have := hA.st.db.revSeg_fst hI₁.wf hI₂.wf hI₁.heights hI₂.heights hi₁ hi₂ hlT₁ cfg.fsb R
        (by intro e he; rw [hfer] at he; injection he with he; subst he; exact hnumR)
        (by intro e he; rw [hfer₂] at he; injection he with he; subst he; exact hnumR)
      rw [hrev₁, hrev₂] at this
      exact (Option.some.inj this).symm
    subst hsegeq
    rw [hseg₁, hseg₂, hst₁, hst₂]
    have hr₁ : r₁ = true := revSegAux_reach _ _ _ _ _ _ _ _ hlT₁ hrev₁
    subst hr₁
    obtain ⟨hsp, _, _, _, _⟩ := reversibleSegment_sound _ _ _ _ hrev₁
    have hsegent := reversibleSegment_entries a₁.st.db cfg.fsb R seg₂ hrev₁
      (by intro e he; rw [hfer] at he; injection he with he; subst he; exact hnumR)
    have hsegab := heights_path _ hI₁.heights _ a₁.st.db.libRef.num _ hsp hI₁.heights.2.1
    have hstalled : a₂.st.db.stalledInSegment seg₂ = a₁.st.db.stalledInSegment seg₂ := by
      apply hA.st.db.stalled_eq
      intro f hf
      have hfm : f ∈ seg₂ := List.mem_of_mem_head? hf
      have := hsegab f.blk.id (List.mem_map.mpr ⟨f, hfm, rfl⟩) f (hsegent f hfm)
      omega
    rw [hstalled]
    apply processStalled_twin cfg cfg' hflt
    apply processIrr_twin
    · exact ⟨hA.evs, ⟨hA.st.db.movePurge R cfg.kept cfg'.kept hup, hA.st.last, hA.st.seen, hA.st.incl, hA.st.cache,
        fun h => by have h' : a₁.st.lastSent = none := h; rw [hls] at h'; cases h'⟩, hA.nf₁, hA.nf₂⟩
    · apply irrEvents_congr cfg cfg' hflt
      intro e he
      have hfe := hsegent e he
      have := hsegab e.blk.id (List.mem_map.mpr ⟨e, he, rfl⟩) e hfe
      rw [hA.st.db.find hI₂.wf e.blk.id e hfe (by omega), hfe]
  · -- no move in the first: none in the second either
    have hmv₂ : ¬ ((a₂.st.db.blockInChain last.ref last.lib).id ≠ "" ∧
        (a₂.st.db.hasNewIrreversibleSegment cfg'.fsb (a₂.st.db.blockInChain last.ref last.lib)).1 = true) := by
      intro h2
      rw [hfsb] at h2
      obtain ⟨hR₁, hnew₁⟩ := move_transfer cfg.fsb a₂.st a₁.st hA.st.symm Q hI₂ hI₁ hi₁ last hls₂ hlast₂ hok₂ h2.1 h2.2
      exact hmv ⟨by rw [hR₁]; exact h2.1, by rw [hR₁]; exact hnew₁⟩
    rw [advanceAcc_nomove cfg a₁ b hA.nf₁.1 last hls hlT₁ hmv, advanceAcc_nomove cfg' a₂ b hA.nf₂.1 last hls₂ hlT₂ hmv₂]
    exact hA

/-! ### one incoming block, two retention settings -/

/-- a reason to drop the block in one forkable is a reason to drop it in the other -/
theorem drop_transfer (cfg cfg' : Config) {s₁ s₂ : FState} (hT : Twin s₁ s₂) (U : Id → Option Blk) (hU : UOK U)
    (hw₁ : WfEntries s₁.db) (hw₂ : WfEntries s₂.db)
    (hin₁ : ∀ e ∈ s₁.db.entries, U e.blk.id = some e.blk) (hin₂ : ∀ e ∈ s₂.db.entries, U e.blk.id = some e.blk)
    (b : Blk) (hbU : U b.id = some b)
    (hwhy : b.id = b.parent ∨ (b.num < s₁.db.libRef.num ∧ s₁.lastSent.isSome = true) ∨
      switchSegments cfg s₁ b (triggers cfg s₁ b) = none ∨ (s₁.db.addLink b).2 = true)
    (hlinked : (s₂.db.addLink b).2 = false ∧ b.id ≠ b.parent ∧ ¬ (b.num < s₂.db.libRef.num ∧ s₂.lastSent.isSome = true)) :
    False := by
  obtain ⟨hex₂, hne₂, hnd₂⟩ := hlinked
  have hnd₁ : ¬ (b.num < s₁.db.libRef.num ∧ s₁.lastSent.isSome = true) := by
    rw [← hT.db.lib, ← hT.last]; exact hnd₂
  rcases hwhy with h | h | h | h
  · exact hne₂ h
  · exact hnd₁ h
  · exact switchSegments_ne_none cfg s₁ b _ h
  · have := addLink_snd_of_find s₁.db s₂.db b (hT.find_incoming U hU hw₁ hw₂ hin₁ hin₂ b hbU hnd₁)
    rw [hex₂, h] at this; cases this

/-- **one incoming block**: two forkables that differ only in their retention setting and in what their buffers hold
    below the LIB deliver the same events and stay twins -/
theorem twin_step (cfg cfg' : Config) (hflt : cfg'.filter = cfg.filter) (hfsb : cfg'.fsb = cfg.fsb)
    (hall : cfg'.allTrigger = cfg.allTrigger) (hnew : cfg.matches .new = true) (hundo : cfg.matches .undo = true)
    (U : Id → Option Blk) (hU : UOK U) (F₁ F₂ : List Id) (s₁ s₂ : FState) (P : List Id) (b : Blk)
    (hT : Twin s₁ s₂) (hI₁ : Inv s₁ P) (hI₂ : Inv s₂ P) (hJ₁ : Inv2 U F₁ s₁.db) (hJ₂ : Inv2 U F₂ s₂.db)
    (hi₁ : InitNumOK s₁.db) (hi₂ : InitNumOK s₂.db) (hbU : U b.id = some b)
    (hL₁ : LibDeclOK s₁.db b) (hL₂ : LibDeclOK s₂.db b)
    (hni₁ : s₁.includeInit = false ∨ s₁.lastSent.isSome = true ∨ b.id ≠ s₁.db.libRef.id) :
    (processBlock cfg' s₂ b none).2.1 = (processBlock cfg s₁ b none).2.1 ∧
    Twin (processBlock cfg s₁ b none).1 (processBlock cfg' s₂ b none).1 := by
  have hb := hU.wf b.id b hbU
  have hB₁ := hb_of_inv2 U hU F₁ s₁.db hJ₁ b hbU
  have hB₂ := hb_of_inv2 U hU F₂ s₂.db hJ₂ b hbU
  have hcl₁ := sentClosed_of_inv2 U F₁ s₁.db hI₁.wf hI₁.heights hJ₁
  have hcl₂ := sentClosed_of_inv2 U F₂ s₂.db hI₂.wf hI₂.heights hJ₂
  have hm : ∀ st, cfg'.matches st = cfg.matches st := by intro st; unfold Config.matches; rw [hflt]
  have hnew' : cfg'.matches .new = true := by rw [hm]; exact hnew
  have hundo' : cfg'.matches .undo = true := by rw [hm]; exact hundo
  have hni₂ : s₂.includeInit = false ∨ s₂.lastSent.isSome = true ∨ b.id ≠ s₂.db.libRef.id := by
    rw [hT.incl, hT.last, hT.db.lib]; exact hni₁
  have htrig : triggers cfg' s₂ b = triggers cfg s₁ b := by unfold triggers; rw [hall, hT.last]
  unfold processBlock
  rcases plan_cases cfg s₁ b hni₁ hI₁.libNe with ⟨⟨r₁, hr₁⟩, hwhy₁⟩ | ⟨hex₁, hne₁, hnd₁, u₁, rd₁, j₁, hsw₁, hpl₁⟩ <;>
  rcases plan_cases cfg' s₂ b hni₂ hI₂.libNe with ⟨⟨r₂, hr₂⟩, hwhy₂⟩ | ⟨hex₂, hne₂, hnd₂, u₂, rd₂, j₂, hsw₂, hpl₂⟩
  · rw [hr₁, hr₂]; exact ⟨rfl, hT⟩
  · exact (drop_transfer cfg cfg' hT U hU hI₁.wf hI₂.wf hJ₁.inU hJ₂.inU b hbU hwhy₁ ⟨hex₂, hne₂, hnd₂⟩).elim
  · exact (drop_transfer cfg' cfg hT.symm U hU hI₂.wf hI₁.wf hJ₂.inU hJ₁.inU b hbU hwhy₂ ⟨hex₁, hne₁, hnd₁⟩).elim
  -- linked in both
  obtain ⟨hf₁, _⟩ := fresh_of_addLink s₁.db b hI₁.wf hb hex₁
  obtain ⟨hf₂, _⟩ := fresh_of_addLink s₂.db b hI₂.wf hb hex₂
  have hal₁ := afterLink_eq s₁ b hI₁.wf hb hex₁
  have hal₂ := afterLink_eq s₂ b hI₂.wf hb hex₂
  have hlT₁ : (afterLink s₁ b).db.hasLIB = true := by rw [hal₁]; exact hasLIB_of_id _ hI₁.libNe
  have hlT₂ : (afterLink s₂ b).db.hasLIB = true := by rw [hal₂]; exact hasLIB_of_id _ hI₂.libNe
  rw [hpl₁, hpl₂, planLinked_hasLIB cfg _ b _ u₁ rd₁ j₁ hlT₁, planLinked_hasLIB cfg' _ b _ u₂ rd₂ j₂ hlT₂, hal₁, hal₂]
  have hcc := hT.computeLongestChain_eq cfg cfg' hfsb P hI₁ hI₂ hi₁ hi₂ b hb hB₁ hB₂ hf₁ hf₂
  rw [hcc]
  cases hc : computeLongestChain cfg { s₁ with db := appendBlk s₁.db b } b with
  | none => exact ⟨rfl, hT.append b none⟩
  | some lc =>
    cases lc with
    | nil => exact ⟨rfl, hT.append b (some [])⟩
    | cons c0 cs0 =>
      rw [htrig]
      cases htr : triggers cfg s₁ b with
      | false => exact ⟨rfl, hT.append b (some (c0 :: cs0))⟩
      | true =>
        simp only [if_true]
        rw [htr] at hsw₁
        rw [htrig, htr] at hsw₂
        -- the path of the new chain, and the chain of the block's parent
        obtain ⟨hp, hn, _, htop, _⟩ := compute_chain_path cfg s₁ P b hI₁ hb hB₁ hf₁ (c0 :: cs0) hc
        rcases List.eq_nil_or_concat (c0 :: cs0) with hnil | ⟨lc0, eb0, hlceb⟩
        · cases hnil
        rw [List.concat_eq_append] at hlceb
        have hp' := hp
        rw [hlceb] at hp' hn htop
        simp only [List.map_append, List.map_cons, List.map_nil, topOf_append_singleton] at htop hp' hn
        have hnd := isPath_nodup _ _ _ hp' hn
        rw [isPath_append] at hp'
        have hb0 : b.id ∉ lc0.map (·.blk.id) := by
          rw [htop] at hnd
          intro hmem
          have := List.nodup_append.mp hnd
          exact this.2.2 _ hmem _ (by simp) rfl
        have hp0 : IsPath s₁.db s₁.db.libRef.id (lc0.map (·.blk.id)) := isPath_of_append_entry s₁.db b _ _ hp'.1 hb0
        have hn0 : s₁.db.libRef.id ∉ lc0.map (·.blk.id) := fun hmem => hn (by simp [hmem])
        have hbpar : b.parent = topOf s₁.db.libRef.id (lc0.map (·.blk.id)) := by
          have := hp'.2.1
          rw [htop] at this
          unfold DB.link appendBlk at this
          rw [find_append_self s₁.db b hf₁] at this
          exact this
        have hseq := hT.switchSegments_eq cfg cfg' hflt P hI₁ hI₂ b (lc0.map (·.blk.id)) hp0 hn0 hbpar
        rw [hseq, hsw₁] at hsw₂
        simp only [Option.some.injEq, Prod.mk.injEq] at hsw₂
        obtain ⟨hu, hrd, hj⟩ := hsw₂
        subst hu; subst hrd; subst hj
        -- facts about both states after the deliveries
        obtain ⟨hQ₁, ⟨eb, hls₁, hebref, heblib⟩, hsb₁, hok₁, _, _, _⟩ :=
          switch_emit_facts cfg hnew hundo s₁ P b hI₁ hcl₁ hb hB₁ hL₁ hf₁ c0 cs0 hc u₁ rd₁ j₁ hsw₁
        obtain ⟨hQ₂, _, hsb₂, hok₂, _, _, _⟩ :=
          switch_emit_facts cfg' hnew' hundo' s₂ P b hI₂ hcl₂ hb hB₂ hL₂ hf₂ c0 cs0 (by rw [hcc]; exact hc) u₁ rd₁ j₁
            (by rw [hseq]; exact hsw₁)
        have hI₁' := inv_afterLink s₁ P b none hI₁ hb hB₁ hf₁ (by intro c cs h; cases h)
        have hI₂' := inv_afterLink s₂ P b none hI₂ hb hB₂ hf₂ (by intro c cs h; cases h)
        have hag : ∀ e ∈ c0 :: cs0, (appendBlk s₂.db b).find e.blk.id = (appendBlk s₁.db b).find e.blk.id := by
          intro e he
          exact (hT.db.append b).find_on_path hI₂'.wf hI₁'.heights _ hp e.blk.id (List.mem_map.mpr ⟨e, he, rfl⟩)
        have hAT := emitSwitch_twin cfg cfg' hflt hnew _ _ (hT.append b (some (c0 :: cs0))) b (c0 :: cs0) u₁ rd₁ j₁ hag
        generalize emitSwitch cfg { s₁ with db := appendBlk s₁.db b, cache := some (c0 :: cs0) } b (c0 :: cs0) u₁ rd₁ j₁ none = a₁
          at hAT hQ₁ hls₁ hsb₁ hok₁ ⊢
        generalize emitSwitch cfg' { s₂ with db := appendBlk s₂.db b, cache := some (c0 :: cs0) } b (c0 :: cs0) u₁ rd₁ j₁ none = a₂
          at hAT hQ₂ hsb₂ hok₂ ⊢
        have hlid : eb.blk.id = b.id := by have := congrArg Ref.id hebref; simpa [Blk.ref] using this
        have hlnum : eb.blk.num = b.num := by have := congrArg Ref.num hebref; simpa [Blk.ref] using this
        have hlastOf : ∀ (db a : DB), db.find b.id = none → SameBlks (appendBlk db b) a →
            ∀ e, a.find eb.blk.id = some e → e.blk.num = eb.blk.num := by
          intro db a hf hsb e he
          have hfb := hsb.find_blk b.id
          rw [hlid] at he
          rw [he, show (appendBlk db b).find b.id = some ⟨b, false⟩ from find_append_self db b hf] at hfb
          simp only [Option.map_some, Option.some.injEq] at hfb
          rw [hfb, hlnum]
        have hiOf : ∀ (db a : DB), InitNumOK db → SameBlks (appendBlk db b) a → InitNumOK a := by
          intro db a hi hsb i n hin hid
          rw [hsb.2.2] at hin
          rw [hsb.1] at hid ⊢
          exact hi i n hin hid
        have hadv := advance_twin cfg cfg' hflt hfsb a₁ a₂ hAT b _ hQ₁ hQ₂ (hiOf s₁.db _ hi₁ hsb₁) (hiOf s₂.db _ hi₂ hsb₂)
          eb.blk hls₁ (hlastOf s₁.db _ hf₁ hsb₁) (hlastOf s₂.db _ hf₂ hsb₂)
          (by rw [hebref, heblib]; exact hok₁) (by rw [hebref, heblib]; exact hok₂)
        exact ⟨hadv.evs, hadv.st⟩

/-- twin states that have not delivered anything yet are the same state -/
theorem Twin.eq_of_not_started {s₁ s₂ : FState} (hT : Twin s₁ s₂) (h : s₁.lastSent = none) : s₂ = s₁ := by
  have he := hT.fresh h
  rcases s₁ with ⟨⟨e₁, l₁, i₁⟩, ls₁, sn₁, in₁, c₁⟩
  rcases s₂ with ⟨⟨e₂, l₂, i₂⟩, ls₂, sn₂, in₂, c₂⟩
  have h1 := hT.db.lib
  have h2 := hT.db.init
  have h3 := hT.last
  have h4 := hT.seen
  have h5 := hT.incl
  have h6 := hT.cache
  simp only at he h1 h2 h3 h4 h5 h6
  subst he; subst h1; subst h2; subst h3; subst h4; subst h5; subst h6
  rfl

/-- the delivery of the inclusive starting block does not involve the retention setting -/
theorem initial_ignores_kept (cfg : Config) (k : Nat) (s : FState) (b : Blk) (h : plan cfg s b = .initial s) :
    processBlock { cfg with kept := k } s b none = processBlock cfg s b none := by
  have h' : plan { cfg with kept := k } s b = .initial s := h
  unfold processBlock
  rw [h, h']
  rfl

end BstreamVerif.Forkable
