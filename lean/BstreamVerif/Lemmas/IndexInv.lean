import BstreamVerif.Lemmas.IndexLemmas
/- Invariant of BlockIndexer.Add over strictly ascending blocks (helper for Props/C15). -/
namespace BstreamVerif.IndexInv
open BstreamVerif.Index BstreamVerif.IndexLemmas

/-- **Indexer**: adding a key for block `n` makes `n` a member of that key's bitmap and leaves the other keys'
    bitmaps unchanged -/
theorem kvAdd_get (kv : KV) (k k' : Key) (n m : Nat) :
    m ∈ kvGet (kvAdd kv k n) k' ↔ (k' = k ∧ m = n) ∨ m ∈ kvGet kv k' := by
  induction kv with
  | nil =>
    by_cases hk : k = k'
    · subst hk; simp [kvAdd, kvGet]
    · have : (k == k') = false := by simp [hk]
      simp [kvAdd, kvGet, this]; exact fun e => absurd e.symm hk
  | cons p ps ih =>
    obtain ⟨pk, bm⟩ := p
    by_cases hp : pk = k
    · subst hp
      by_cases hk : pk = k'
      · subst hk; simp [kvAdd, kvGet, mem_bmInsert]
      · have h1 : (pk == k') = false := by simp [hk]
        simp [kvAdd, kvGet, h1]; exact fun e => absurd e.symm hk
    · have h0 : (pk == k) = false := by simp [hp]
      by_cases hk : pk = k'
      · subst hk
        simp [kvAdd, kvGet, h0]; exact fun e => absurd e hp
      · have h1 : (pk == k') = false := by simp [hk]
        simp only [kvAdd, h0, Bool.false_eq_true, if_false, kvGet, h1]
        exact ih

/-- all keys of one block -/
theorem kvAddAll_get (keys : List Key) (kv : KV) (k' : Key) (n m : Nat) :
    m ∈ kvGet (keys.foldl (fun acc k => kvAdd acc k n) kv) k' ↔ (k' ∈ keys ∧ m = n) ∨ m ∈ kvGet kv k' := by
  induction keys generalizing kv with
  | nil => simp
  | cons k ks ih =>
    simp only [List.foldl_cons, ih, kvAdd_get, List.mem_cons]
    constructor
    · rintro (⟨h1, h2⟩ | ⟨h1, h2⟩ | h)
      · exact Or.inl ⟨Or.inr h1, h2⟩
      · exact Or.inl ⟨Or.inl h1, h2⟩
      · exact Or.inr h
    · rintro (⟨h1 | h1, h2⟩ | h)
      · exact Or.inr (Or.inl ⟨h1, h2⟩)
      · exact Or.inl ⟨h1, h2⟩
      · exact Or.inr (Or.inr h)



abbrev Adds := List (Nat × List Key)

def initIx (size fsb : Nat) : Indexer := ⟨size, fsb, none, none, []⟩

def runAdds (ix : Indexer) (adds : Adds) : Indexer := adds.foldl (fun ix a => ix.add a.2 a.1) ix

/-- what an index (file or current) starting at `low` must hold after `adds` -/
def Holds (size : Nat) (adds : Adds) (low : Nat) (kv : KV) : Prop :=
  ∀ k m, m ∈ kvGet kv k ↔ (low ≤ m ∧ m < low + size ∧ ∃ ks, (m, ks) ∈ adds ∧ k ∈ ks)

structure Inv (size : Nat) (adds : Adds) (ix : Indexer) : Prop where
  sz : ix.size = size
  cur : ∃ low kv, ix.cur = some (low, kv) ∧ low % size = 0 ∧ Holds size adds low kv ∧
        (∀ a ∈ adds, a.1 < low + size) ∧
        (∀ f ∈ ix.written, f.low + size ≤ low) ∧ (∃ b ∈ adds, low ≤ b.1)
  files : ∀ f ∈ ix.written, f.size = size ∧ Holds size adds f.low f.kv

theorem lowBoundary_facts (n size : Nat) (h : 0 < size) :
    lowBoundary n size % size = 0 ∧ lowBoundary n size ≤ n ∧ n < lowBoundary n size + size := by
  unfold lowBoundary
  have h1 := Nat.mod_lt n h
  have h2 := Nat.div_add_mod n size
  refine ⟨?_, by omega, by omega⟩
  have : n - n % size = size * (n / size) := by omega
  rw [this]; exact Nat.mul_mod_right _ _

theorem holds_mono (size : Nat) (adds : Adds) (a : Nat × List Key) (low : Nat) (kv : KV)
    (h : Holds size adds low kv) (hout : ¬ (low ≤ a.1 ∧ a.1 < low + size)) :
    Holds size (adds ++ [a]) low kv := by
  intro k m
  rw [h k m]
  constructor
  · rintro ⟨h1, h2, ks, h3, h4⟩; exact ⟨h1, h2, ks, by simp [h3], h4⟩
  · rintro ⟨h1, h2, ks, h3, h4⟩
    simp only [List.mem_append, List.mem_singleton] at h3
    rcases h3 with h3 | h3
    · exact ⟨h1, h2, ks, h3, h4⟩
    · exfalso; apply hout; rw [← h3]; exact ⟨h1, h2⟩

theorem step (size : Nat) (hs : 0 < size) (adds : Adds) (ix : Indexer) (a : Nat × List Key)
    (hinv : Inv size adds ix) (hasc : ∀ b ∈ adds, b.1 < a.1) : Inv size (adds ++ [a]) (ix.add a.2 a.1) := by
  obtain ⟨hsz, ⟨low, kv, hcur, hal, hh, hlt, hfl, ⟨b0, hb0, hb0l⟩⟩, hfiles⟩ := hinv
  have hla : low ≤ a.1 := by have := hasc b0 hb0; omega
  unfold Indexer.add
  simp only [hcur]
  by_cases hup : a.1 ≥ low + ix.size
  · -- write the current index, start the one containing a.1
    rw [hsz] at hup
    simp only [hsz, hup, if_true]
    obtain ⟨b1, b2, b3⟩ := lowBoundary_facts a.1 size hs
    have hnew : ¬ (ix.written.any (fun f => f.low == low)) = true := by
      simp only [List.any_eq_true, beq_iff_eq, not_exists, not_and]
      intro f hf e
      have := hfl f hf; omega
    have hlowle : low + size ≤ lowBoundary a.1 size := by
      -- both are multiples of size and low + size ≤ a.1 < lb + size
      have h1 : (lowBoundary a.1 size) % size = 0 := b1
      have : (low + size) % size = 0 := by rw [Nat.add_mod, hal]; simp
      by_cases hc : low + size ≤ lowBoundary a.1 size
      · exact hc
      · exfalso
        have hd : lowBoundary a.1 size < low + size := by omega
        -- two multiples of size with lb < low+size ≤ a.1 < lb+size: impossible
        obtain ⟨q1, hq1⟩ := Nat.dvd_of_mod_eq_zero h1
        obtain ⟨q2, hq2⟩ := Nat.dvd_of_mod_eq_zero this
        rw [hq1, hq2] at hd
        have : q1 < q2 := Nat.lt_of_mul_lt_mul_left hd
        have : size * (q1 + 1) ≤ size * q2 := Nat.mul_le_mul_left _ (by omega)
        rw [Nat.mul_add] at this
        omega
    refine ⟨by simp [Indexer.write, hnew, hsz], ⟨lowBoundary a.1 size, a.2.foldl (fun acc k => kvAdd acc k a.1) [], ?_, b1, ?_, ?_, ?_, ⟨a, by simp, b2⟩⟩, ?_⟩
    · simp [Indexer.write, hnew]
    · -- the fresh index holds exactly a's keys
      intro k m
      rw [kvAddAll_get]
      simp only [kvGet, List.not_mem_nil, or_false]
      constructor
      · rintro ⟨h1, rfl⟩; exact ⟨b2, b3, a.2, by simp, h1⟩
      · rintro ⟨h1, h2, ks, h3, h4⟩
        simp only [List.mem_append, List.mem_singleton] at h3
        rcases h3 with h3 | h3
        · have := hlt _ h3; simp only at this; omega
        · subst h3; exact ⟨h4, rfl⟩
    · intro b hb
      simp only [List.mem_append, List.mem_singleton] at hb
      rcases hb with hb | rfl
      · have := hasc b hb; omega
      · exact b3
    · intro f hf
      simp only [Indexer.write, hnew, Bool.false_eq_true, if_false, List.mem_append, List.mem_singleton] at hf
      rcases hf with hf | rfl
      · have := hfl f hf; omega
      · exact hlowle
    · intro f hf
      simp only [Indexer.write, hnew, Bool.false_eq_true, if_false, List.mem_append, List.mem_singleton] at hf
      rcases hf with hf | rfl
      · obtain ⟨g1, g2⟩ := hfiles f hf
        refine ⟨g1, holds_mono size adds a f.low f.kv g2 ?_⟩
        have := hfl f hf; omega
      · refine ⟨hsz, holds_mono size adds a low kv hh ?_⟩
        omega
  · rw [hsz] at hup
    simp only [hsz, hup, if_false]
    refine ⟨rfl, ⟨low, a.2.foldl (fun acc k => kvAdd acc k a.1) kv, rfl, hal, ?_, ?_, hfl, ⟨a, by simp, hla⟩⟩, ?_⟩
    · intro k m
      rw [kvAddAll_get, hh k m]
      constructor
      · rintro (⟨h1, rfl⟩ | ⟨h1, h2, ks, h3, h4⟩)
        · exact ⟨hla, by omega, a.2, by simp, h1⟩
        · exact ⟨h1, h2, ks, by simp [h3], h4⟩
      · rintro ⟨h1, h2, ks, h3, h4⟩
        simp only [List.mem_append, List.mem_singleton] at h3
        rcases h3 with h3 | h3
        · exact Or.inr ⟨h1, h2, ks, h3, h4⟩
        · subst h3; exact Or.inl ⟨h4, rfl⟩
    · intro b hb
      simp only [List.mem_append, List.mem_singleton] at hb
      rcases hb with hb | rfl
      · exact hlt b hb
      · omega
    · intro f hf
      obtain ⟨g1, g2⟩ := hfiles f hf
      refine ⟨g1, holds_mono size adds a f.low f.kv g2 ?_⟩
      have := hfl f hf
      omega


theorem base (size fsb : Nat) (hs : 0 < size) (a : Nat × List Key) (h0 : a.1 % size = 0) :
    Inv size [a] ((initIx size fsb).add a.2 a.1) := by
  unfold Indexer.add initIx
  have hb : (a.1 % size == 0) = true := by simp [h0]
  simp only [hb, if_true]
  have hnot : ¬ (a.1 ≥ a.1 + size) := by omega
  simp only [hnot, if_false]
  refine ⟨rfl, ⟨a.1, a.2.foldl (fun acc k => kvAdd acc k a.1) [], rfl, h0, ?_, ?_, ?_, ⟨a, by simp, Nat.le_refl _⟩⟩, ?_⟩
  · intro k m
    rw [kvAddAll_get]
    simp only [kvGet, List.not_mem_nil, or_false, List.mem_singleton]
    constructor
    · rintro ⟨h1, rfl⟩; exact ⟨Nat.le_refl _, by omega, a.2, rfl, h1⟩
    · rintro ⟨_, _, ks, h3, h4⟩
      have : m = a.1 ∧ ks = a.2 := by
        have := congrArg Prod.fst h3; have h' := congrArg Prod.snd h3; simp at this h'; exact ⟨this, h'⟩
      exact ⟨this.2 ▸ h4, this.1⟩
  · intro b hb'; simp only [List.mem_singleton] at hb'; subst hb'; omega
  · intro f hf; simp at hf
  · intro f hf; simp at hf

/-- invariant after any strictly ascending sequence of blocks starting on an index boundary -/
theorem inv_run (size fsb : Nat) (hs : 0 < size) (a : Nat × List Key) (rest : Adds) (h0 : a.1 % size = 0)
    (hasc : (a :: rest).Pairwise (fun x y => x.1 < y.1)) :
    Inv size (a :: rest) (runAdds (initIx size fsb) (a :: rest)) := by
  suffices h : ∀ (done : Adds) (ix : Indexer) (todo : Adds), Inv size done ix →
      (done ++ todo).Pairwise (fun x y => x.1 < y.1) → Inv size (done ++ todo) (runAdds ix todo) by
    have := h [a] ((initIx size fsb).add a.2 a.1) rest (base size fsb hs a h0) (by simpa using hasc)
    simpa [runAdds] using this
  intro done ix todo
  induction todo generalizing done ix with
  | nil => intro h _; simpa [runAdds] using h
  | cons b bs ih =>
    intro h hp
    have hlt : ∀ x ∈ done, x.1 < b.1 := by
      intro x hx
      have := List.pairwise_append.mp hp
      exact this.2.2 x hx b (by simp)
    have := ih (done ++ [b]) (ix.add b.2 b.1) (step size hs done ix b h hlt) (by simpa using hp)
    simpa [runAdds] using this


end BstreamVerif.IndexInv
