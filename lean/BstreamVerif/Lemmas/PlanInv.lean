import BstreamVerif.Lemmas.Discipline
/-!
Inversion of `Forkable.plan` for a buffer that knows its LIB and does not wait for an inclusive starting block.
-/
namespace BstreamVerif.Forkable
open BstreamVerif BstreamVerif.ForkDB

theorem hasLIB_of_id (db : DB) (h : db.libRef.id ≠ "") : db.hasLIB = true := by
  simp [DB.hasLIB, h]

theorem addLink_libRef (db : DB) (b : Blk) : (db.addLink b).1.libRef = db.libRef := by
  unfold DB.addLink
  split
  · rfl
  · split
    · rfl
    · split <;> rfl

/-- the state in which the chain is computed, for a buffer that already has a LIB -/
def afterLink (s : FState) (b : Blk) : FState := { s with db := (s.db.addLink b).1 }

theorem planLinked_hasLIB (cfg : Config) (s1 : FState) (b : Blk) (trig : Bool) (u r : List Entry) (j : Option Ref)
    (h : s1.db.hasLIB = true) :
    planLinked cfg s1 b trig u r j =
      match computeLongestChain cfg s1 b with
      | none => .done { s1 with cache := none } .ok
      | some [] => .done { s1 with cache := some [] } .ok
      | some (c :: cs) =>
        if trig then .switch { s1 with cache := some (c :: cs) } (c :: cs) u r j none
        else .done { s1 with cache := some (c :: cs) } .ok := by
  unfold planLinked
  simp only [h, if_true, Bool.not_true, Bool.false_and, Bool.false_eq_true, if_false]
  cases hc : computeLongestChain cfg s1 b with
  | none => rfl
  | some lc =>
    cases lc with
    | nil => rfl
    | cons c cs =>
      cases trig <;> rfl

/-- what `plan` can return when the LIB is known and no inclusive starting block is awaited -/
theorem plan_cases (cfg : Config) (s : FState) (b : Blk) (hni : s.includeInit = false) (hlib : s.db.libRef.id ≠ "") :
    (∃ r, plan cfg s b = .done s r) ∨
    ((s.db.addLink b).2 = false ∧ b.id ≠ b.parent ∧
      ∃ u r j, switchSegments cfg s b (triggers cfg s b) = some (u, r, j) ∧
        plan cfg s b = planLinked cfg (afterLink s b) b (triggers cfg s b) u r j) := by
  unfold plan
  by_cases h1 : (b.id == b.parent) = true
  · rw [if_pos h1]; exact Or.inl ⟨_, rfl⟩
  · rw [if_neg h1]
    by_cases h2 : (decide (b.num < s.db.libRef.num) && s.lastSent.isSome) = true
    · rw [if_pos h2]; exact Or.inl ⟨_, rfl⟩
    · rw [if_neg h2]
      have h0 : ¬ ((s.includeInit && s.lastSent.isNone && b.id == s.db.libRef.id) = true) := by rw [hni]; simp
      simp only
      rw [if_neg h0]
      cases hsw : switchSegments cfg s b (triggers cfg s b) with
      | none => exact Or.inl ⟨_, rfl⟩
      | some usj =>
        obtain ⟨u, r, j⟩ := usj
        simp only
        by_cases h3 : (s.db.addLink b).2 = true
        · rw [if_pos h3]; exact Or.inl ⟨_, rfl⟩
        · rw [if_neg h3]
          exact Or.inr ⟨by simpa using h3, by simpa using h1, u, r, j, rfl, rfl⟩

end BstreamVerif.Forkable
