import BstreamVerif.Lemmas.Discipline
/-!
Inversion of `Forkable.plan` for a buffer that knows its LIB and does not wait for an inclusive starting block.
-/
namespace BstreamVerif.Forkable
open BstreamVerif BstreamVerif.ForkDB

theorem hasLIB_of_id (db : DB) (h : db.libRef.id ≠ "") : db.hasLIB = true := by
  simp [DB.hasLIB, h]

theorem addLink_libRef (db : DB) (b : Blk) : (db.addLink b).1.libRef = db.libRef := by
  unfold DB.addLink
  split
  · rfl
  · split
    · rfl
    · split <;> rfl

/-- the state in which the chain is computed, for a buffer that already has a LIB -/
def afterLink (s : FState) (b : Blk) : FState := { s with db := (s.db.addLink b).1 }

theorem planLinked_hasLIB (cfg : Config) (s1 : FState) (b : Blk) (trig : Bool) (u r : List Entry) (j : Option Ref)
    (h : s1.db.hasLIB = true) :
    planLinked cfg s1 b trig u r j =
      match computeLongestChain cfg s1 b with
      | none => .done { s1 with cache := none } .ok
      | some [] => .done { s1 with cache := some [] } .ok
      | some (c :: cs) =>
        if trig then .switch { s1 with cache := some (c :: cs) } (c :: cs) u r j none
        else .done { s1 with cache := some (c :: cs) } .ok := by
  unfold planLinked
  simp only [h, if_true, Bool.not_true, Bool.false_and, Bool.false_eq_true, if_false]
  cases hc : computeLongestChain cfg s1 b with
  | none => rfl
  | some lc =>
    cases lc with
    | nil => rfl
    | cons c cs =>
      cases trig <;> rfl

/-- what `plan` can return when the LIB is known and no inclusive starting block is awaited -/
theorem plan_cases (cfg : Config) (s : FState) (b : Blk)
    (hni : s.includeInit = false ∨ s.lastSent.isSome = true ∨ b.id ≠ s.db.libRef.id) (hlib : s.db.libRef.id ≠ "") :
    ((∃ r, plan cfg s b = .done s r) ∧
      (b.id = b.parent ∨ (b.num < s.db.libRef.num ∧ s.lastSent.isSome = true) ∨
        switchSegments cfg s b (triggers cfg s b) = none ∨ (s.db.addLink b).2 = true)) ∨
    ((s.db.addLink b).2 = false ∧ b.id ≠ b.parent ∧ ¬ (b.num < s.db.libRef.num ∧ s.lastSent.isSome = true) ∧
      ∃ u r j, switchSegments cfg s b (triggers cfg s b) = some (u, r, j) ∧
        plan cfg s b = planLinked cfg (afterLink s b) b (triggers cfg s b) u r j) := by
  unfold plan
  by_cases h1 : (b.id == b.parent) = true
  · rw [if_pos h1]; exact Or.inl ⟨⟨_, rfl⟩, Or.inl (by simpa using h1)⟩
  · rw [if_neg h1]
    by_cases h2 : (decide (b.num < s.db.libRef.num) && s.lastSent.isSome) = true
    · rw [if_pos h2]; exact Or.inl ⟨⟨_, rfl⟩, Or.inr (Or.inl (by simpa using h2))⟩
    · rw [if_neg h2]
      have h0 : ¬ ((s.includeInit && s.lastSent.isNone && b.id == s.db.libRef.id) = true) := by
        rcases hni with h | h | h
        · rw [h]; simp
        · cases hl : s.lastSent with
          | none => rw [hl] at h; cases h
          | some l => simp
        · simp [h]
      simp only
      rw [if_neg h0]
      cases hsw : switchSegments cfg s b (triggers cfg s b) with
      | none => exact Or.inl ⟨⟨_, rfl⟩, Or.inr (Or.inr (Or.inl rfl))⟩
      | some usj =>
        obtain ⟨u, r, j⟩ := usj
        simp only
        by_cases h3 : (s.db.addLink b).2 = true
        · rw [if_pos h3]; exact Or.inl ⟨⟨_, rfl⟩, Or.inr (Or.inr (Or.inr h3))⟩
        · rw [if_neg h3]
          exact Or.inr ⟨by simpa using h3, by simpa using h1, by simpa using h2, u, r, j, rfl, rfl⟩

theorem computeLongestChain_cases (cfg : Config) (s : FState) (b : Blk) :
    (∃ c cs, s.cache = some (c :: cs) ∧ b.parent = (((c :: cs).getLast?.map (fun (e : Entry) => e.blk.id)).getD "") ∧
      s.db.libRef.id = c.blk.parent ∧ computeLongestChain cfg s b = some ((c :: cs) ++ [⟨b, false⟩])) ∨
    computeLongestChain cfg s b = (s.db.reversibleSegment cfg.fsb b.ref).1 := by
  unfold computeLongestChain
  cases hcache : s.cache with
  | none => right; simp
  | some l =>
    cases l with
    | nil => right; simp
    | cons c cs =>
      simp only
      by_cases hk : (b.parent == (((c :: cs).getLast?.map (fun (e : Entry) => e.blk.id)).getD "") && s.db.libRef.id == c.blk.parent) = true
      · left
        rw [if_pos hk]
        simp only [Bool.and_eq_true, beq_iff_eq] at hk
        exact ⟨c, cs, rfl, hk.1, hk.2, rfl⟩
      · right
        rw [if_neg hk]

theorem computeLongestChain_last (cfg : Config) (s : FState) (b : Blk) (lc : List Entry)
    (h : computeLongestChain cfg s b = some lc) (hne : lc ≠ []) : (lc.getLast?.map (·.blk.ref)) = some b.ref := by
  rcases computeLongestChain_cases cfg s b with ⟨c, cs, _, _, _, hres⟩ | hres
  · rw [hres] at h
    injection h with h
    subst h
    rw [show (c :: cs ++ [(⟨b, false⟩ : Entry)]) = (c :: cs) ++ [⟨b, false⟩] from rfl, List.getLast?_append]
    simp
  · rw [hres] at h
    cases hr : s.db.reversibleSegment cfg.fsb b.ref with
    | mk l r =>
      rw [hr] at h
      simp only at h
      subst h
      exact reversibleSegment_last _ _ _ _ _ hr hne

theorem planLinked_switch_chain (cfg : Config) (s1 : FState) (b : Blk) (trig : Bool) (u r : List Entry) (j : Option Ref)
    (s3 : FState) (lc u' r' : List Entry) (j' : Option Ref) (fi : Option Entry)
    (h : planLinked cfg s1 b trig u r j = .switch s3 lc u' r' j' fi) :
    ∃ s2, computeLongestChain cfg s2 b = some lc ∧ lc ≠ [] := by
  unfold planLinked at h
  dsimp only at h
  generalize (if s1.db.hasLIB = true then s1 else { s1 with db := s1.db.setLIB cfg.fsb b.ref b.lib }) = s2 at h
  by_cases c1 : (!s1.db.hasLIB && s2.db.hasLIB && s2.db.libRef.num == b.num) = true
  · rw [if_pos c1] at h; cases h
  rw [if_neg c1] at h
  by_cases c2 : (!s1.db.hasLIB && !s2.db.hasLIB && cfg.hold) = true
  · rw [if_pos c2] at h; cases h
  rw [if_neg c2] at h
  cases hc : computeLongestChain cfg s2 b with
  | none => rw [hc] at h; cases h
  | some l =>
    cases l with
    | nil => rw [hc] at h; cases h
    | cons c cs =>
      rw [hc] at h
      dsimp only at h
      by_cases c3 : (!trig) = true
      · rw [if_pos c3] at h; cases h
      · rw [if_neg c3] at h
        injection h with _ h2
        exact ⟨s2, by rw [← h2]; exact hc, by rw [← h2]; simp⟩

theorem plan_switch_chain (cfg : Config) (s : FState) (b : Blk) (s3 : FState) (lc u r : List Entry) (j : Option Ref)
    (fi : Option Entry) (h : plan cfg s b = .switch s3 lc u r j fi) :
    (lc.getLast?.map (·.blk.ref)).getD Ref.empty = b.ref := by
  unfold plan at h
  by_cases c1 : (b.id == b.parent) = true
  · rw [if_pos c1] at h; cases h
  rw [if_neg c1] at h
  by_cases c2 : (decide (b.num < s.db.libRef.num) && s.lastSent.isSome) = true
  · rw [if_pos c2] at h; cases h
  rw [if_neg c2] at h
  dsimp only at h
  by_cases c3 : (s.includeInit && s.lastSent.isNone && b.id == s.db.libRef.id) = true
  · rw [if_pos c3] at h; cases h
  rw [if_neg c3] at h
  cases hsw : switchSegments cfg s b (triggers cfg s b) with
  | none => rw [hsw] at h; cases h
  | some x =>
    obtain ⟨u0, r0, j0⟩ := x
    rw [hsw] at h
    dsimp only at h
    by_cases c4 : (s.db.addLink b).2 = true
    · rw [if_pos c4] at h; cases h
    · rw [if_neg c4] at h
      obtain ⟨s2, hc, hne⟩ := planLinked_switch_chain _ _ _ _ _ _ _ _ _ _ _ _ _ h
      rw [computeLongestChain_last cfg s2 b lc hc hne]; rfl

/-- **every event names the incoming block as the head of its cursor** (C04), for every state, block and handler
    failure point -/
theorem processBlock_head (cfg : Config) (s : FState) (b : Blk) (f : Option Nat) :
    ∀ e ∈ (processBlock cfg s b f).2.1, e.head = b.ref := by
  unfold processBlock
  cases hp : plan cfg s b with
  | done s' r => simp
  | initial s' => exact initialAcc_allHead cfg s' b f
  | switch s3 lc u r j fi =>
    simp only [advanceLIB, finish]
    apply advanceAcc_allHead
    unfold emitSwitch processNew
    rw [plan_switch_chain cfg s b s3 lc u r j fi hp]
    apply foldl_newStep_allHead
    have h0 : AllHead b.ref ⟨s3, [], f, false⟩ := by intro e he; simp at he
    have h1 : AllHead b.ref (if cfg.matches .undo then phase ⟨s3, [], f, false⟩ (mkEvents .undo u b.ref (cursorLIB s3) j) else ⟨s3, [], f, false⟩) := by
      split
      · exact phase_allHead _ _ _ h0 (mkEvents_head _ _ _ _ _)
      · exact h0
    split
    · exact phase_allHead _ _ _ h1 (mkEvents_head _ _ _ _ _)
    · exact h1

end BstreamVerif.Forkable

namespace BstreamVerif.Forkable
open BstreamVerif BstreamVerif.ForkDB

theorem walkDown_nonlast_present (db : DB) (fuel : Nat) (cur : Id) (l : List Id) (x y : Id) (r : List Id)
    (h : db.walkDown fuel cur = l ++ x :: y :: r) : (db.find x).isSome = true := by
  induction fuel generalizing cur l with
  | zero => simp [DB.walkDown] at h
  | succ n ih =>
    unfold DB.walkDown at h
    by_cases hl : (db.link cur == "") = true
    · simp only [hl, if_true] at h
      cases l with
      | nil => simp at h
      | cons a t => cases t <;> simp at h
    · simp only [hl, Bool.false_eq_true, if_false] at h
      cases l with
      | nil =>
        simp only [List.nil_append, List.cons.injEq] at h
        rw [← h.1]
        cases hf : db.find cur with
        | some e => rfl
        | none => simp [DB.link, hf] at hl
      | cons a t =>
        simp only [List.cons_append, List.cons.injEq] at h
        exact ih _ t h.2

theorem mapM_find_some (db : DB) (ids : List Id) (h : ∀ x ∈ ids, (db.find x).isSome = true) :
    ∃ es, ids.mapM db.find = some es := by
  induction ids with
  | nil => exact ⟨[], rfl⟩
  | cons a t ih =>
    obtain ⟨es, hes⟩ := ih (fun x hx => h x (by simp [hx]))
    cases hf : db.find a with
    | none => have := h a (by simp); rw [hf] at this; cases this
    | some e => exact ⟨e :: es, by rw [List.mapM_cons, hf, hes]; rfl⟩

/-- the undo / redo segments never name a block that is not stored: `sentChainSwitch` never takes its panic branch -/
theorem sentChainSwitch_ne_none (db : DB) (a b : Id) : sentChainSwitch db a b ≠ none := by
  unfold sentChainSwitch
  split
  · simp
  · cases hcs : db.chainSwitchSegments a b with
    | none => simp
    | some t =>
      obtain ⟨undo, redo, j⟩ := t
      simp only
      obtain ⟨⟨rest, hrest⟩, _, _, _, hrp, _, _, _⟩ := chainSwitchSegments_sound db a b undo redo j hcs
      have hu : ∀ x ∈ undo, (db.find x).isSome = true := by
        intro x hx
        obtain ⟨l1, l2, hl⟩ := List.append_of_mem hx
        cases l2 with
        | nil =>
          apply walkDown_nonlast_present db _ a l1 x j rest
          rw [hrest, hl]; simp
        | cons y l2' =>
          apply walkDown_nonlast_present db _ a l1 x y (l2' ++ j :: rest)
          rw [hrest, hl]; simp
      have hr : ∀ x ∈ redo, (db.find x).isSome = true := isPath_present db j redo hrp
      obtain ⟨us, hus⟩ := mapM_find_some db undo hu
      obtain ⟨rs, hrs⟩ := mapM_find_some db redo hr
      rw [hus, hrs]
      simp

theorem switchSegments_ne_none (cfg : Config) (s : FState) (b : Blk) (t : Bool) : switchSegments cfg s b t ≠ none := by
  unfold switchSegments
  split
  · split
    · exact sentChainSwitch_ne_none _ _ _
    · simp
  · simp

end BstreamVerif.Forkable

namespace BstreamVerif.Forkable
open BstreamVerif BstreamVerif.ForkDB

theorem planLinked_not_invalid (cfg : Config) (s1 : FState) (b : Blk) (trig : Bool) (u r : List Entry) (j : Option Ref)
    (s' : FState) : planLinked cfg s1 b trig u r j ≠ .done s' .errInvalid := by
  unfold planLinked
  dsimp only
  generalize (if s1.db.hasLIB = true then s1 else { s1 with db := s1.db.setLIB cfg.fsb b.ref b.lib }) = s2
  intro h
  split at h
  · cases h
  · split at h
    · injection h with _ h2; cases h2
    · split at h
      · injection h with _ h2; cases h2
      · injection h with _ h2; cases h2
      · split at h
        · injection h with _ h2; cases h2
        · cases h

/-- **the only block `ProcessBlock` rejects as invalid is one that names itself as parent**: in particular the branch
    in which the Go code would dereference a missing block of the undo/redo segments is never taken, for any state -/
theorem invalid_only_for_self_parent (cfg : Config) (s : FState) (b : Blk) (f : Option Nat)
    (h : (processBlock cfg s b f).2.2 = .errInvalid) : b.id = b.parent := by
  unfold processBlock at h
  cases hp : plan cfg s b with
  | initial s' =>
    rw [hp] at h
    simp only [processInitialInclusive, finish] at h
    split at h <;> cases h
  | switch s3 lc u r j fi =>
    rw [hp] at h
    simp only [advanceLIB, finish] at h
    split at h <;> cases h
  | done s' r =>
    rw [hp] at h
    simp only at h
    subst h
    unfold plan at hp
    by_cases c1 : (b.id == b.parent) = true
    · exact beq_iff_eq.mp c1
    · rw [if_neg c1] at hp
      exfalso
      by_cases c2 : (decide (b.num < s.db.libRef.num) && s.lastSent.isSome) = true
      · rw [if_pos c2] at hp; injection hp with _ h2; cases h2
      · rw [if_neg c2] at hp
        dsimp only at hp
        by_cases c3 : (s.includeInit && s.lastSent.isNone && b.id == s.db.libRef.id) = true
        · rw [if_pos c3] at hp; cases hp
        · rw [if_neg c3] at hp
          cases hsw : switchSegments cfg s b (triggers cfg s b) with
          | none => exact switchSegments_ne_none cfg s b _ hsw
          | some x =>
            obtain ⟨u0, r0, j0⟩ := x
            rw [hsw] at hp
            dsimp only at hp
            by_cases c4 : (s.db.addLink b).2 = true
            · rw [if_pos c4] at hp; injection hp with _ h2; cases h2
            · rw [if_neg c4] at hp
              exact planLinked_not_invalid _ _ _ _ _ _ _ _ hp

end BstreamVerif.Forkable

namespace BstreamVerif.Forkable
open BstreamVerif BstreamVerif.ForkDB

/-! ### `includeInitialLIB` is a constant of the forkable -/

theorem phase_incl (a : Acc) (evs : List Event) : (phase a evs).st = a.st := by
  unfold phase; split <;> rfl

theorem newStep_incl (cfg : Config) (head : Ref) (a : Acc) (e : Entry) :
    (newStep cfg head a e).st.includeInit = a.st.includeInit := by
  by_cases hf : a.failed = true
  · rw [newStep_failed cfg head a e hf]
  · have hf : a.failed = false := by simpa using hf
    by_cases hs : isSent a.st.db e.blk.id = true
    · rw [newStep_sent cfg head a e hf hs]
    · have hs : isSent a.st.db e.blk.id = false := by simpa using hs
      by_cases hd : cfg.matches .new = true
      · cases hfa : a.failAt with
        | none => rw [newStep_send_none cfg head a e hf hs hd hfa]; rfl
        | some k =>
          cases k with
          | zero => rw [newStep_send_zero cfg head a e hf hs hd hfa]
          | succ j => rw [newStep_send_succ cfg head a e hf hs hd j hfa]; rfl
      · have hd : cfg.matches .new = false := by simpa using hd
        rw [newStep_nosend cfg head a e hf hs hd]; rfl

theorem foldl_newStep_incl (cfg : Config) (head : Ref) (ch : List Entry) (a : Acc) :
    (ch.foldl (newStep cfg head) a).st.includeInit = a.st.includeInit := by
  induction ch generalizing a with
  | nil => rfl
  | cons e t ih => simp only [List.foldl_cons]; rw [ih, newStep_incl]

theorem processIrr_incl (cfg : Config) (a : Acc) (seg : List Entry) (head : Ref) (actual : Id → Option Blk) :
    (processIrr cfg a seg head actual).st.includeInit = a.st.includeInit := by
  rw [processIrr_eq]
  split
  · rfl
  · split
    · rw [phase_incl]
    · unfold setSeen
      cases seg.getLast? with
      | none => simp only; rw [phase_incl]
      | some l => simp only; rw [phase_incl]

theorem advanceAcc_incl (cfg : Config) (a : Acc) (b : Blk) (fi : Option Entry) :
    (advanceAcc cfg a b fi).st.includeInit = a.st.includeInit := by
  unfold advanceAcc
  split
  · rfl
  · split
    · rfl
    · split
      · rfl
      · simp only
        split
        · rfl
        · rw [advanceTo_eq]
          split
          · rfl
          · rw [processStalled_st, processIrr_incl]; rfl

theorem emitSwitch_incl (cfg : Config) (s3 : FState) (b : Blk) (lc u r : List Entry) (j : Option Ref) (f : Option Nat) :
    (emitSwitch cfg s3 b lc u r j f).st.includeInit = s3.includeInit := by
  unfold emitSwitch processNew
  rw [foldl_newStep_incl]
  split <;> split <;> simp only [phase_incl]

theorem initialAcc_incl (cfg : Config) (s : FState) (b : Blk) (f : Option Nat) :
    (initialAcc cfg s b f).st.includeInit = s.includeInit := by
  rw [initialAcc_eq]
  have h0 : (initFirst cfg { s with db := (s.db.addLink b).1 } b f).st.includeInit = s.includeInit := by
    unfold initFirst; split
    · rw [phase_incl]
    · rfl
  split
  · exact h0
  · rw [processIrr_incl]; exact h0

def Plan.incl : Plan → Bool
  | .done s' _ => s'.includeInit
  | .initial s' => s'.includeInit
  | .switch s3 _ _ _ _ _ => s3.includeInit

theorem planLinked_incl (cfg : Config) (s1 : FState) (b : Blk) (trig : Bool) (u r : List Entry) (j : Option Ref) :
    (planLinked cfg s1 b trig u r j).incl = s1.includeInit := by
  unfold planLinked
  dsimp only
  have h2 : (if s1.db.hasLIB = true then s1 else { s1 with db := s1.db.setLIB cfg.fsb b.ref b.lib }).includeInit = s1.includeInit := by
    split <;> rfl
  generalize (if s1.db.hasLIB = true then s1 else { s1 with db := s1.db.setLIB cfg.fsb b.ref b.lib }) = s2 at h2
  by_cases c1 : (!s1.db.hasLIB && s2.db.hasLIB && s2.db.libRef.num == b.num) = true
  · rw [if_pos c1]; exact h2
  rw [if_neg c1]
  by_cases c2 : (!s1.db.hasLIB && !s2.db.hasLIB && cfg.hold) = true
  · rw [if_pos c2]; exact h2
  rw [if_neg c2]
  cases hc : computeLongestChain cfg s2 b with
  | none => exact h2
  | some l =>
    cases l with
    | nil => exact h2
    | cons c cs =>
      dsimp only
      by_cases c3 : (!trig) = true
      · rw [if_pos c3]; exact h2
      · rw [if_neg c3]; exact h2

theorem plan_incl (cfg : Config) (s : FState) (b : Blk) : (plan cfg s b).incl = s.includeInit := by
  unfold plan
  by_cases c1 : (b.id == b.parent) = true
  · rw [if_pos c1]; rfl
  rw [if_neg c1]
  by_cases c2 : (decide (b.num < s.db.libRef.num) && s.lastSent.isSome) = true
  · rw [if_pos c2]; rfl
  rw [if_neg c2]
  dsimp only
  by_cases c3 : (s.includeInit && s.lastSent.isNone && b.id == s.db.libRef.id) = true
  · rw [if_pos c3]; rfl
  rw [if_neg c3]
  cases hsw : switchSegments cfg s b (triggers cfg s b) with
  | none => rfl
  | some x =>
    obtain ⟨u0, r0, j0⟩ := x
    dsimp only
    by_cases c4 : (s.db.addLink b).2 = true
    · rw [if_pos c4]; rfl
    · rw [if_neg c4]; exact planLinked_incl cfg _ b _ _ _ _

/-- `ProcessBlock` never changes whether the forkable waits for an inclusive starting block -/
theorem processBlock_includeInit (cfg : Config) (s : FState) (b : Blk) (f : Option Nat) :
    (processBlock cfg s b f).1.includeInit = s.includeInit := by
  have hplan := plan_incl cfg s b
  unfold processBlock
  cases hp : plan cfg s b with
  | done s' r => rw [hp] at hplan; exact hplan
  | initial s' =>
    rw [hp] at hplan
    simp only [processInitialInclusive, finish]
    rw [initialAcc_incl]; exact hplan
  | switch s3 lc u r j fi =>
    rw [hp] at hplan
    simp only [advanceLIB, finish]
    rw [advanceAcc_incl, emitSwitch_incl]; exact hplan

end BstreamVerif.Forkable
