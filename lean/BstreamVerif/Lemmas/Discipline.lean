import BstreamVerif.Lemmas.ForkableBasic
import BstreamVerif.Lemmas.DBOps
/-!
The push/pop consumer of a fork-aware stream and what the delivery phases of `processBlock` do to it.
-/
namespace BstreamVerif.Forkable
open BstreamVerif BstreamVerif.ForkDB

/-- a consumer that pushes on New, pops on Undo and drops its oldest pending block on Irreversible:
    the LIB it rests on and its pending blocks, oldest first -/
structure CS where
  lib  : Id
  pend : List Id
deriving DecidableEq, Repr

/-- one event; `none` = the event breaks the discipline -/
def CS.apply (c : CS) (sb : Step × Blk) : Option CS :=
  match sb.1 with
  | .new => if sb.2.parent = topOf c.lib c.pend then some ⟨c.lib, c.pend ++ [sb.2.id]⟩ else none
  | .undo => if c.pend.getLast? = some sb.2.id then some ⟨c.lib, c.pend.dropLast⟩ else none
  | .irreversible =>
    match c.pend with
    | x :: r => if x = sb.2.id then some ⟨x, r⟩ else none
    | [] => none
  | .stalled => some c
  | .newIrreversible =>
    -- a block delivered new and final at once: it must extend the final chain and nothing may be pending
    if c.pend.isEmpty && sb.2.parent == c.lib then some ⟨sb.2.id, []⟩ else none

def CS.runSB : CS → List (Step × Blk) → Option CS
  | c, [] => some c
  | c, sb :: r => match c.apply sb with
    | some c' => CS.runSB c' r
    | none => none

def sbOf (e : Event) : Step × Blk := (e.step, e.blk)

/-- run a consumer over delivered events -/
def CS.run (c : CS) (evs : List Event) : Option CS := c.runSB (evs.map sbOf)

theorem runSB_append (c : CS) (l1 l2 : List (Step × Blk)) :
    c.runSB (l1 ++ l2) = (c.runSB l1).bind (fun c' => c'.runSB l2) := by
  induction l1 generalizing c with
  | nil => rfl
  | cons a r ih =>
    simp only [List.cons_append, CS.runSB]
    cases c.apply a with
    | none => rfl
    | some c' => exact ih c'

theorem run_append (c : CS) (l1 l2 : List Event) :
    c.run (l1 ++ l2) = (c.run l1).bind (fun c' => c'.run l2) := by
  unfold CS.run; rw [List.map_append, runSB_append]

theorem mkEvents_sb (step : Step) (es : List Entry) (head lib : Ref) (j : Option Ref) :
    (mkEvents step es head lib j).map sbOf = es.map (fun e => (step, e.blk)) := by
  unfold mkEvents
  apply List.ext_getElem
  · simp
  · intro i h1 h2
    simp [sbOf]

/-- popping: the undo list read backwards is the top of the pending list -/
theorem runSB_undos (lib : Id) (base : List Id) (us : List Blk) :
    (⟨lib, base ++ (us.map (·.id)).reverse⟩ : CS).runSB (us.map (fun b => (Step.undo, b))) = some ⟨lib, base⟩ := by
  induction us generalizing base with
  | nil => simp [CS.runSB]
  | cons u r ih =>
    simp only [List.map_cons, List.reverse_cons, CS.runSB, CS.apply]
    have : (base ++ ((r.map (·.id)).reverse ++ [u.id])).getLast? = some u.id := by
      rw [← List.append_assoc]; simp
    simp only [this, if_true]
    have hd : (base ++ ((r.map (·.id)).reverse ++ [u.id])).dropLast = base ++ (r.map (·.id)).reverse := by
      rw [← List.append_assoc, List.dropLast_concat]
    rw [hd]
    exact ih base

/-- pushing a parent-linked run of blocks -/
def linkedBlks (bottom : Id) : List Blk → Prop
  | [] => True
  | b :: r => b.parent = bottom ∧ linkedBlks b.id r

theorem runSB_news (lib : Id) (base : List Id) (bs : List Blk) (h : linkedBlks (topOf lib base) bs) :
    (⟨lib, base⟩ : CS).runSB (bs.map (fun b => (Step.new, b))) = some ⟨lib, base ++ bs.map (·.id)⟩ := by
  induction bs generalizing base with
  | nil => simp [CS.runSB]
  | cons b r ih =>
    simp only [List.map_cons, CS.runSB, CS.apply, h.1, if_true]
    have := ih (base ++ [b.id]) (by simpa using h.2)
    rw [this]; simp

/-- announcing a prefix of the pending list final, oldest first -/
theorem runSB_irrs (lib : Id) (bs : List Blk) (rest : List Id) :
    (⟨lib, bs.map (·.id) ++ rest⟩ : CS).runSB (bs.map (fun b => (Step.irreversible, b))) =
      some ⟨topOf lib (bs.map (·.id)), rest⟩ := by
  induction bs generalizing lib with
  | nil => simp [CS.runSB]
  | cons b r ih =>
    simp only [List.map_cons, List.cons_append, CS.runSB, CS.apply, if_true, topOf_cons]
    exact ih b.id

theorem runSB_stalled (c : CS) (bs : List Blk) : c.runSB (bs.map (fun b => (Step.stalled, b))) = some c := by
  induction bs with
  | nil => rfl
  | cons b r ih => simp only [List.map_cons, CS.runSB, CS.apply]; exact ih


/-! ### the sent marks -/

theorem isSent_markSent_same (db : DB) (x : Id) (h : (db.find x).isSome) : isSent (db.markSent x) x = true := by
  unfold isSent
  rw [find_markSent]
  cases hf : db.find x with
  | none => rw [hf] at h; cases h
  | some e => simp [find_id db x e hf]

theorem isSent_markSent_other (db : DB) (x y : Id) (h : x ≠ y) : isSent (db.markSent y) x = isSent db x := by
  unfold isSent
  rw [find_markSent]
  cases hf : db.find x with
  | none => rfl
  | some e =>
    have : ¬ e.blk.id = y := by rw [find_id db x e hf]; exact h
    simp [this]

theorem isSent_markSent_mono (db : DB) (x y : Id) (h : isSent db x = true) : isSent (db.markSent y) x = true := by
  by_cases hxy : x = y
  · subst hxy
    apply isSent_markSent_same
    unfold isSent at h
    cases hf : db.find x with
    | none => rw [hf] at h; simp at h
    | some e => rfl
  · rw [isSent_markSent_other db x y hxy]; exact h

/-! ### processNew without handler failures -/

structure NewOut (cfg : Config) (a r : Acc) (ch : List Entry) : Prop where
  failed : r.failed = false
  failAt : r.failAt = none
  evs : r.evs.map sbOf = a.evs.map sbOf ++ (ch.filter (fun e => !isSent a.st.db e.blk.id)).map (fun e => (Step.new, e.blk))
  same : SameBlks a.st.db r.st.db
  sentIn : ∀ e ∈ ch, isSent r.st.db e.blk.id = true
  sentOut : ∀ x, x ∉ ch.map (·.blk.id) → isSent r.st.db x = isSent a.st.db x
  last : r.st.lastSent = (((ch.filter (fun e => !isSent a.st.db e.blk.id)).getLast?).map (·.blk)).or a.st.lastSent
  seen : r.st.lastLIBSeen = a.st.lastLIBSeen
  incl : r.st.includeInit = a.st.includeInit
  cache : r.st.cache = a.st.cache

theorem foldl_newStep_char (cfg : Config) (hnew : cfg.matches .new = true) (head : Ref) (ch : List Entry) (a : Acc)
    (hf : a.failed = false) (hn : a.failAt = none) (hnd : (ch.map (·.blk.id)).Nodup)
    (hpres : ∀ e ∈ ch, (a.st.db.find e.blk.id).isSome) :
    NewOut cfg a (ch.foldl (newStep cfg head) a) ch := by
  induction ch generalizing a with
  | nil =>
    exact ⟨hf, hn, by simp, SameBlks.refl _, by simp, by simp, by simp, rfl, rfl, rfl⟩
  | cons e r ih =>
    simp only [List.map_cons, List.nodup_cons] at hnd
    simp only [List.foldl_cons]
    by_cases hs : isSent a.st.db e.blk.id = true
    · rw [newStep_sent cfg head a e hf hs]
      have := ih a hf hn hnd.2 (fun x hx => hpres x (by simp [hx]))
      refine ⟨this.failed, this.failAt, ?_, this.same, ?_, ?_, ?_, this.seen, this.incl, this.cache⟩
      · rw [this.evs, List.filter_cons_of_neg (by simp [hs])]
      · intro x hx
        simp only [List.mem_cons] at hx
        rcases hx with rfl | hx
        · rw [this.sentOut _ hnd.1]; exact hs
        · exact this.sentIn x hx
      · intro x hx
        simp only [List.map_cons, List.mem_cons, not_or] at hx
        exact this.sentOut x hx.2
      · rw [this.last, List.filter_cons_of_neg (by simp [hs])]
    · have hs : isSent a.st.db e.blk.id = false := by simpa using hs
      rw [newStep_send_none cfg head a e hf hs hnew hn]
      have hpres' : ∀ x ∈ r, ((sentSt a.st e).db.find x.blk.id).isSome := by
        intro x hx
        simp only [sentSt, find_isSome_markSent]
        exact hpres x (by simp [hx])
      have := ih ⟨sentSt a.st e, a.evs ++ [newEv head a.st e], none, false⟩ rfl rfl hnd.2 hpres'
      have hfilt : (r.filter (fun x => !isSent (sentSt a.st e).db x.blk.id)) = r.filter (fun x => !isSent a.st.db x.blk.id) := by
        apply List.filter_congr
        intro x hx
        have hne : x.blk.id ≠ e.blk.id := by
          intro hc
          exact hnd.1 (List.mem_map.mpr ⟨x, hx, hc⟩)
        simp only [sentSt, isSent_markSent_other _ _ _ hne]
      refine ⟨this.failed, this.failAt, ?_, (sameBlks_markSent _ _).trans this.same, ?_, ?_, ?_, this.seen, this.incl, this.cache⟩
      · rw [this.evs, hfilt, List.filter_cons_of_pos (by simp [hs])]
        simp [sbOf, newEv]
      · intro x hx
        simp only [List.mem_cons] at hx
        rcases hx with rfl | hx
        · rw [this.sentOut _ hnd.1]
          exact isSent_markSent_same _ _ (hpres _ (by simp))
        · exact this.sentIn x hx
      · intro x hx
        simp only [List.map_cons, List.mem_cons, not_or] at hx
        rw [this.sentOut x hx.2]
        exact isSent_markSent_other _ _ _ hx.1
      · rw [this.last, hfilt, List.filter_cons_of_pos (by simp [hs])]
        cases hg : (r.filter (fun x => !isSent a.st.db x.blk.id)) with
        | nil => simp [sentSt]
        | cons y ys =>
          have h1 : (y :: ys).getLast? = some ((y :: ys).getLast (by simp)) := List.getLast?_eq_some_getLast _
          have h2 : (e :: y :: ys).getLast? = some ((y :: ys).getLast (by simp)) := by
            rw [List.getLast?_cons_cons, h1]
          rw [h1, h2]; rfl

end BstreamVerif.Forkable
