import BstreamVerif.Model.HubBurst
import BstreamVerif.Lemmas.ForkInv
/-!
The hub's retained canonical chain (`CompleteSegment` from the head, `HubBurst.headSegment`): it is a parent-linked run
of stored blocks whatever the buffer holds, and under the forkable invariant it is the retained final blocks followed
by exactly the consumer's pending chain. Used by C05 (resuming from a cursor) and C07 (the file-to-live seam).
-/
namespace BstreamVerif.Seam
open BstreamVerif BstreamVerif.ForkDB BstreamVerif.Forkable BstreamVerif.HubBurst

/-- consecutive entries are parent-linked -/
def LinkedE : List Entry → Prop
  | [] => True
  | [_] => True
  | e1 :: e2 :: r => e2.blk.parent = e1.blk.id ∧ LinkedE (e2 :: r)

theorem linkedE_cons (e : Entry) (l : List Entry) (hl : LinkedE l) (hh : ∀ f, l.head? = some f → f.blk.parent = e.blk.id) :
    LinkedE (e :: l) := by
  cases l with
  | nil => trivial
  | cons f r => exact ⟨hh f rfl, hl⟩

/-- **CompleteSegment returns a parent-linked run of stored blocks**, whatever the buffer holds -/
theorem complSegAux_linked (db : DB) (fuel : Nat) (cur : Id) (curNum : Nat) (reach : Bool) (acc l : List Entry) (r : Bool)
    (h : db.complSegAux fuel cur curNum reach acc = (some l, r)) (hacc : LinkedE acc)
    (hh : ∀ f, acc.head? = some f → f.blk.parent = cur) : LinkedE l := by
  induction fuel generalizing cur curNum reach acc with
  | zero => simp [DB.complSegAux] at h
  | succ n ih =>
    unfold DB.complSegAux at h
    simp only at h
    cases hf : db.find cur with
    | none =>
      rw [hf] at h
      simp only [Prod.mk.injEq, Option.some.injEq] at h
      rw [← h.1]; exact hacc
    | some e =>
      rw [hf] at h
      simp only at h
      refine ih _ _ _ _ h ?_ ?_
      · apply linkedE_cons _ _ hacc
        intro f hf'
        simp only
        rw [find_id db cur e hf]
        exact hh f hf'
      · intro f hf'
        simp only [List.head?_cons, Option.some.injEq] at hf'
        rw [← hf']

theorem completeSegment_linked (db : DB) (start : Ref) (l : List Entry) (r : Bool)
    (h : db.completeSegment start = (some l, r)) : LinkedE l := by
  unfold DB.completeSegment at h
  exact complSegAux_linked db _ _ _ _ [] l r h trivial (by intro f hf; cases hf)

theorem headSegment_linked (s : FState) (h : Blk) (seg : List Entry) (hs : headSegment s = some (h, seg)) :
    LinkedE seg := by
  unfold headSegment at hs
  split at hs
  · cases hs
  · cases hl : s.lastSent with
    | none => rw [hl] at hs; cases hs
    | some l =>
      rw [hl] at hs
      simp only at hs
      cases hc : s.db.completeSegment l.ref with
      | mk o r =>
        rw [hc] at hs
        cases o with
        | none => cases hs
        | some sg =>
          cases r with
          | false => cases hs
          | true =>
            simp only [Option.some.injEq, Prod.mk.injEq] at hs
            obtain ⟨_, rfl⟩ := hs
            exact completeSegment_linked _ _ _ _ hc

theorem linkedE_dropWhile (p : Entry → Bool) (l : List Entry) (h : LinkedE l) : LinkedE (l.dropWhile p) := by
  induction l with
  | nil => trivial
  | cons e r ih =>
    rw [List.dropWhile_cons]
    split
    · apply ih
      cases r with
      | nil => trivial
      | cons f r' => exact h.2
    · exact h

/-- a parent-linked run of entries whose first block rests on `t` is a linked run of blocks from `t` -/
theorem linkedBlks_of_linkedE (t : Id) (l : List Entry) (h : LinkedE l)
    (hh : ∀ f, l.head? = some f → f.blk.parent = t) : linkedBlks t (l.map (·.blk)) := by
  induction l generalizing t with
  | nil => trivial
  | cons e r ih =>
    refine ⟨hh e rfl, ?_⟩
    cases r with
    | nil => trivial
    | cons f r' =>
      exact ih e.blk.id h.2 (by intro g hg; simp only [List.head?_cons, Option.some.injEq] at hg; rw [← hg]; exact h.1)

theorem linkedBlks_append (t : Id) (l1 l2 : List Blk) :
    linkedBlks t (l1 ++ l2) ↔ linkedBlks t l1 ∧ linkedBlks (topOf t (l1.map (·.id))) l2 := by
  induction l1 generalizing t with
  | nil => simp [linkedBlks]
  | cons b r ih => simp only [List.cons_append, linkedBlks, List.map_cons, topOf_cons, ih, and_assoc]

/-! ### the shape of the hub's retained chain under the invariant -/

/-- walking `CompleteSegment` down a path of stored blocks collects exactly the entries of that path -/
theorem complSegAux_along_path (db : DB) (lib : Id) (hlib : db.libRef.id = lib) (ids : List Id) :
    ∀ (bottom cur : Id) (fuel curNum : Nat) (reach : Bool) (acc seg : List Entry) (r : Bool),
    IsPath db bottom ids → topOf bottom ids = cur → lib ∉ ids →
    (∀ e, db.find cur = some e → e.blk.num = curNum) →
    db.complSegAux fuel cur curNum reach acc = (some seg, r) →
    ∃ fuel' num' E, db.complSegAux fuel' bottom num' reach (E ++ acc) = (some seg, r) ∧
      E.map (·.blk.id) = ids ∧ (∀ e ∈ E, db.find e.blk.id = some e) ∧
      (∀ e, db.find bottom = some e → e.blk.num = num') := by
  refine rev_ind (motive := fun ids => ∀ (bottom cur : Id) (fuel curNum : Nat) (reach : Bool) (acc seg : List Entry) (r : Bool),
    IsPath db bottom ids → topOf bottom ids = cur → lib ∉ ids →
    (∀ e, db.find cur = some e → e.blk.num = curNum) →
    db.complSegAux fuel cur curNum reach acc = (some seg, r) →
    ∃ fuel' num' E, db.complSegAux fuel' bottom num' reach (E ++ acc) = (some seg, r) ∧
      E.map (·.blk.id) = ids ∧ (∀ e ∈ E, db.find e.blk.id = some e) ∧
      (∀ e, db.find bottom = some e → e.blk.num = num')) ?_ ?_ ids
  · intro bottom cur fuel curNum reach acc seg r _ htop _ hnum h
    simp only [topOf_nil] at htop
    subst htop
    exact ⟨fuel, curNum, [], by simpa using h, rfl, by simp, hnum⟩
  · intro ids' x ih bottom cur fuel curNum reach acc seg r hp htop hnl hnum h
    rw [topOf_append_singleton] at htop
    subst htop
    rw [isPath_append] at hp
    obtain ⟨hp1, hp2⟩ := hp
    have hlink : db.link x = topOf bottom ids' := hp2.1
    have hsome := hp2.2.1
    cases fuel with
    | zero => simp [DB.complSegAux] at h
    | succ f =>
      unfold DB.complSegAux at h
      simp only at h
      cases hf : db.find x with
      | none => rw [hf] at hsome; cases hsome
      | some e =>
        rw [hf] at h
        simp only at h
        have hxl : (x == db.libRef.id) = false := by
          rw [hlib]
          have : x ≠ lib := by intro hx; apply hnl; rw [← hx]; simp
          simpa using this
        rw [hxl, Bool.or_false] at h
        have hpar : e.blk.parent = topOf bottom ids' := by rw [← link_of_find db x e hf]; exact hlink
        have hnumx : e.blk.num = curNum := hnum e hf
        have he' : (⟨{ e.blk with num := curNum }, e.sent⟩ : Entry) = e := by
          cases e with
          | mk b sent => cases b; simp_all
        rw [he', hpar] at h
        obtain ⟨fuel', num', E, hE, hids, hfind, hbn⟩ := ih bottom (topOf bottom ids') f (db.numOf (topOf bottom ids')) reach
          (e :: acc) seg r hp1 rfl (by intro hm; apply hnl; simp [hm])
          (by intro p hp; exact (numOf_of_find db _ p hp).symm) h
        refine ⟨fuel', num', E ++ [e], by simpa [List.append_assoc] using hE, ?_, ?_, hbn⟩
        · rw [List.map_append, hids]; simp [find_id db x e hf]
        · intro y hy
          rcases List.mem_append.mp hy with hy | hy
          · exact hfind y hy
          · simp only [List.mem_singleton] at hy
            subst hy
            rw [find_id db x y hf]; exact hf

/-- below the starting point `CompleteSegment` only adds stored blocks whose heights do not exceed it -/
theorem complSegAux_below (db : DB) (hh : Heights db) (fuel : Nat) :
    ∀ (cur : Id) (curNum : Nat) (reach : Bool) (acc seg : List Entry) (r : Bool),
    (∀ e, db.find cur = some e → e.blk.num = curNum) →
    db.complSegAux fuel cur curNum reach acc = (some seg, r) →
    ∃ K, seg = K ++ acc ∧ (∀ k ∈ K, k.blk.num ≤ curNum) ∧
      (K = [] ∨ ∃ eL, K.getLast? = some eL ∧ db.find cur = some eL) ∧
      (∀ k ∈ K, db.find k.blk.id = some k) := by
  induction fuel with
  | zero => intro cur curNum reach acc seg r _ h; simp [DB.complSegAux] at h
  | succ f ih =>
    intro cur curNum reach acc seg r hnum h
    unfold DB.complSegAux at h
    simp only at h
    cases hf : db.find cur with
    | none =>
      rw [hf] at h
      simp only [Prod.mk.injEq, Option.some.injEq] at h
      exact ⟨[], by simp [h.1], by simp, Or.inl rfl, by simp⟩
    | some e =>
      rw [hf] at h
      simp only at h
      have hnumx : e.blk.num = curNum := hnum e hf
      have he' : (⟨{ e.blk with num := curNum }, e.sent⟩ : Entry) = e := by
        cases e with
        | mk b sent => cases b; simp_all
      rw [he'] at h
      obtain ⟨K', hseg, hle, _, hst⟩ := ih e.blk.parent (db.numOf e.blk.parent) _ (e :: acc) seg r
        (by intro p hp; exact (numOf_of_find db _ p hp).symm) h
      refine ⟨K' ++ [e], by simp [hseg], ?_, Or.inr ⟨e, by simp, rfl⟩, ?_⟩
      rotate_left
      · intro k hk
        rcases List.mem_append.mp hk with hk | hk
        · exact hst k hk
        · simp only [List.mem_singleton] at hk
          subst hk
          rw [find_id db cur k hf]; exact hf
      intro k hk
      rcases List.mem_append.mp hk with hk | hk
      · -- K' non-empty: the parent is stored, and lower
        cases hp : db.find e.blk.parent with
        | none =>
          -- then the recursive call stopped at once: K' = []
          exfalso
          cases f with
          | zero => simp [DB.complSegAux] at h
          | succ f' =>
            unfold DB.complSegAux at h
            simp only [hp, Prod.mk.injEq, Option.some.injEq] at h
            have : K' = [] := by
              have h1 := h.1
              rw [hseg] at h1
              have hl := congrArg List.length h1
              simp only [List.length_append, List.length_cons] at hl
              exact List.eq_nil_of_length_eq_zero (by omega)
            rw [this] at hk; cases hk
        | some p =>
          have hlt : p.blk.num < e.blk.num :=
            hh.1 e (find_mem db cur e hf) p (find_mem db _ p hp) (by rw [find_id db _ p hp])
          have := hle k hk
          rw [numOf_of_find db _ p hp] at this
          omega
      · simp only [List.mem_singleton] at hk
        subst hk; omega

/-- **the hub's retained chain under the invariant**: the head segment is the retained final blocks (heights at most
    the LIB's, ending with the LIB block when it is stored) followed by exactly the entries of the consumer's pending
    list `P` (heights above the LIB) -/
theorem headSegment_shape (s : FState) (P : List Id) (hI : Inv s P) (h : Blk) (seg : List Entry)
    (hs : headSegment s = some (h, seg)) (hnum : ∀ e, s.db.find h.id = some e → e.blk.num = h.num) :
    ∃ K PE, seg = K ++ PE ∧ PE.map (·.blk.id) = P ∧ (∀ e ∈ PE, ¬ e.blk.num ≤ s.db.libRef.num) ∧
      (∀ k ∈ K, k.blk.num ≤ s.db.libRef.num) ∧
      (K = [] ∨ ∃ eL, K.getLast? = some eL ∧ eL.blk.id = s.db.libRef.id) ∧
      (∀ e ∈ seg, s.db.find e.blk.id = some e) := by
  have hseg : s.lastSent = some h ∧ s.db.completeSegment h.ref = (some seg, true) := by
    unfold headSegment at hs
    split at hs
    · cases hs
    · cases hl : s.lastSent with
      | none => rw [hl] at hs; cases hs
      | some l =>
        rw [hl] at hs
        simp only at hs
        cases hc : s.db.completeSegment l.ref with
        | mk o r =>
          rw [hc] at hs
          cases o with
          | none => cases hs
          | some sg =>
            cases r with
            | false => cases hs
            | true =>
              simp only [Option.some.injEq, Prod.mk.injEq] at hs
              obtain ⟨rfl, rfl⟩ := hs
              exact ⟨rfl, hc⟩
  have htop := hI.topSome h hseg.1
  have hc := hseg.2
  unfold DB.completeSegment at hc
  obtain ⟨fuel', num', E, hE, hids, hfind, hbn⟩ :=
    complSegAux_along_path s.db s.db.libRef.id rfl P s.db.libRef.id h.id _ h.num false [] seg true
      hI.path htop hI.libNotin (by intro e he; exact hnum e he) hc
  obtain ⟨K, hK, hle, hlast, hstK⟩ := complSegAux_below s.db hI.heights fuel' s.db.libRef.id num' false (E ++ []) seg true hbn hE
  refine ⟨K, E, by simpa using hK, hids, ?_, ?_, ?_, ?_⟩
  rotate_right
  · intro e he
    have : seg = K ++ E := by simpa using hK
    rw [this] at he
    rcases List.mem_append.mp he with he | he
    · exact hstK e he
    · exact hfind e he
  · intro e he
    have hx : e.blk.id ∈ P := by rw [← hids]; exact List.mem_map.mpr ⟨e, he, rfl⟩
    have := heights_path s.db hI.heights s.db.libRef.id s.db.libRef.num P hI.path hI.heights.2.1 e.blk.id hx e (hfind e he)
    omega
  · intro k hk
    rcases hlast with hnil | ⟨eL, _, hfL⟩
    · rw [hnil] at hk; cases hk
    · have h1 : eL.blk.num = s.db.libRef.num :=
        hI.heights.2.2 eL (find_mem s.db _ eL hfL) (find_id s.db _ eL hfL)
      have h2 := hbn eL hfL
      have := hle k hk
      omega
  · rcases hlast with hnil | ⟨eL, hg, hfL⟩
    · exact Or.inl hnil
    · exact Or.inr ⟨eL, hg, find_id s.db _ eL hfL⟩

/-- heights grow strictly along a parent-linked run of stored blocks -/
theorem linkedE_ascending (db : DB) (hh : Heights db) (l : List Entry) (hl : LinkedE l)
    (hst : ∀ e ∈ l, db.find e.blk.id = some e) : l.Pairwise (fun a b => a.blk.num < b.blk.num) := by
  induction l with
  | nil => exact List.Pairwise.nil
  | cons a t ih =>
    have hlt : LinkedE t := by
      cases t with
      | nil => trivial
      | cons b r => exact hl.2
    have iht := ih hlt (fun e he => hst e (List.mem_cons_of_mem _ he))
    refine List.pairwise_cons.mpr ⟨?_, iht⟩
    cases t with
    | nil => intro x hx; cases hx
    | cons b r =>
      have hab : a.blk.num < b.blk.num :=
        hh.1 b (find_mem db _ b (hst b (by simp))) a (find_mem db _ a (hst a (by simp))) hl.1
      intro x hx
      rcases List.mem_cons.mp hx with rfl | hx
      · exact hab
      · have := (List.pairwise_cons.mp iht).1 x hx; omega

theorem linkedE_append_right (A B : List Entry) (h : LinkedE (A ++ B)) : LinkedE B := by
  induction A with
  | nil => exact h
  | cons a t ih =>
    apply ih
    cases t with
    | nil =>
      cases B with
      | nil => trivial
      | cons b r => exact h.2
    | cons a' t' => exact h.2

theorem linkedE_append_head (A : List Entry) (z : Entry) (R : List Entry) (a : Entry)
    (h : LinkedE (A ++ z :: R)) (ha : A.getLast? = some a) : z.blk.parent = a.blk.id := by
  induction A with
  | nil => cases ha
  | cons x t ih =>
    cases t with
    | nil =>
      simp only [List.getLast?_singleton, Option.some.injEq] at ha
      subst ha
      exact h.1
    | cons y t' =>
      rw [List.getLast?_cons_cons] at ha
      exact ih h.2 ha

end BstreamVerif.Seam
