import BstreamVerif.Lemmas.CursorLib
import BstreamVerif.Lemmas.ForkStep
/-!
Which blocks one `ProcessBlock` delivers as New: blocks of the redo segment and of the new longest chain — hence,
under the invariant, blocks strictly above the LIB the forkable had when the block came in (C04: the cursor LIB of a
New event never exceeds the event's block height).
-/
namespace BstreamVerif.Forkable
open BstreamVerif BstreamVerif.ForkDB

/-- every New event seen so far delivers a block satisfying `p` -/
def NewFrom (p : Blk → Prop) (a : Acc) : Prop := ∀ e ∈ a.evs, e.step = .new → p e.blk

theorem phase_newFrom (p : Blk → Prop) (a : Acc) (evs : List Event) (h : NewFrom p a)
    (he : ∀ e ∈ evs, e.step = .new → p e.blk) : NewFrom p (phase a evs) := by
  obtain ⟨t, ht, hsub⟩ := phase_evs_sub a evs
  intro e hm hs
  rw [ht] at hm
  rcases List.mem_append.mp hm with hm | hm
  · exact h e hm hs
  · exact he e (hsub e hm) hs

theorem newStep_newFrom (cfg : Config) (head : Ref) (p : Blk → Prop) (a : Acc) (e : Entry) (h : NewFrom p a)
    (hp : p e.blk) : NewFrom p (newStep cfg head a e) := by
  have hext : ∀ x ∈ a.evs ++ [newEv head a.st e], x.step = .new → p x.blk := by
    intro x hx hs
    simp only [List.mem_append, List.mem_singleton] at hx
    rcases hx with hx | rfl
    · exact h x hx hs
    · exact hp
  by_cases hf : a.failed = true
  · rw [newStep_failed cfg head a e hf]; exact h
  · have hf : a.failed = false := by simpa using hf
    by_cases hs : isSent a.st.db e.blk.id = true
    · rw [newStep_sent cfg head a e hf hs]; exact h
    · have hs : isSent a.st.db e.blk.id = false := by simpa using hs
      by_cases hd : cfg.matches .new = true
      · cases hfa : a.failAt with
        | none => rw [newStep_send_none cfg head a e hf hs hd hfa]; exact hext
        | some k =>
          cases k with
          | zero => rw [newStep_send_zero cfg head a e hf hs hd hfa]; exact hext
          | succ j => rw [newStep_send_succ cfg head a e hf hs hd j hfa]; exact hext
      · have hd : cfg.matches .new = false := by simpa using hd
        rw [newStep_nosend cfg head a e hf hs hd]; exact h

theorem foldl_newStep_newFrom (cfg : Config) (head : Ref) (p : Blk → Prop) (ch : List Entry) (a : Acc)
    (h : NewFrom p a) (hp : ∀ e ∈ ch, p e.blk) : NewFrom p (ch.foldl (newStep cfg head) a) := by
  induction ch generalizing a with
  | nil => exact h
  | cons e t ih =>
    exact ih _ (newStep_newFrom cfg head p a e h (hp e (by simp))) (fun x hx => hp x (by simp [hx]))

theorem mkEvents_blk (step : Step) (es : List Entry) (head lib : Ref) (j : Option Ref) :
    ∀ e ∈ mkEvents step es head lib j, e.step = step ∧ ∃ x ∈ es, x.blk = e.blk := by
  intro e he
  unfold mkEvents at he
  obtain ⟨i, hi, rfl⟩ := List.getElem_of_mem he
  simp only [List.getElem_mapIdx, true_and]
  simp only [List.length_mapIdx] at hi
  exact ⟨es[i], List.getElem_mem hi, rfl⟩

/-- the New events of a chain switch deliver blocks of the redo segment or of the chain -/
theorem emitSwitch_newFrom (cfg : Config) (p : Blk → Prop) (s3 : FState) (b : Blk) (lc u r : List Entry)
    (j : Option Ref) (f : Option Nat) (hr : ∀ e ∈ r, p e.blk) (hlc : ∀ e ∈ lc, p e.blk) :
    NewFrom p (emitSwitch cfg s3 b lc u r j f) := by
  unfold emitSwitch processNew
  apply foldl_newStep_newFrom _ _ _ _ _ _ hlc
  have h0 : NewFrom p ⟨s3, [], f, false⟩ := by intro e he; simp at he
  have h1 : NewFrom p (if cfg.matches .undo then phase ⟨s3, [], f, false⟩ (mkEvents .undo u b.ref (cursorLIB s3) j) else ⟨s3, [], f, false⟩) := by
    split
    · apply phase_newFrom _ _ _ h0
      intro e he hs
      have := (mkEvents_blk _ _ _ _ _ e he).1
      rw [this] at hs; cases hs
    · exact h0
  split
  · apply phase_newFrom _ _ _ h1
    intro e he _
    obtain ⟨_, x, hx, hxb⟩ := mkEvents_blk _ _ _ _ _ e he
    rw [← hxb]; exact hr x hx
  · exact h1

/-- **the blocks one `ProcessBlock` delivers as New** (known LIB, any handler failure point): whatever holds of the
    blocks of the redo segment and of the new longest chain holds of every block delivered as New -/
theorem processBlock_new_from (cfg : Config) (s : FState) (b : Blk) (f : Option Nat) (p : Blk → Prop)
    (hni : s.includeInit = false ∨ s.lastSent.isSome = true ∨ b.id ≠ s.db.libRef.id) (hlib : s.db.libRef.id ≠ "")
    (hp : ∀ u rd j lc, switchSegments cfg s b (triggers cfg s b) = some (u, rd, j) →
      computeLongestChain cfg (afterLink s b) b = some lc → (s.db.addLink b).2 = false → lc ≠ [] →
      (∀ e ∈ rd, p e.blk) ∧ (∀ e ∈ lc, p e.blk)) :
    ∀ e ∈ (processBlock cfg s b f).2.1, e.step = .new → p e.blk := by
  unfold processBlock
  rcases plan_cases cfg s b hni hlib with ⟨⟨r, hr⟩, _⟩ | ⟨hex, _, _, u, rd, j, hsw, hpl⟩
  · rw [hr]; simp
  have hlT : (afterLink s b).db.hasLIB = true := by
    apply hasLIB_of_id
    show (s.db.addLink b).1.libRef.id ≠ ""
    rw [addLink_libRef]; exact hlib
  rw [hpl, planLinked_hasLIB cfg _ b _ u rd j hlT]
  cases hc : computeLongestChain cfg (afterLink s b) b with
  | none => simp
  | some lc =>
    cases lc with
    | nil => simp
    | cons c0 cs0 =>
      cases htr : triggers cfg s b with
      | false => simp
      | true =>
        simp only [if_true, advanceLIB, finish]
        obtain ⟨hprd, hplc⟩ := hp u rd j (c0 :: cs0) hsw hc hex (by simp)
        generalize hs3 : ({ afterLink s b with cache := some (c0 :: cs0) } : FState) = s3
        have hnf := emitSwitch_newFrom cfg p s3 b (c0 :: cs0) u rd j f hprd hplc
        obtain ⟨t, ht, hg⟩ := advanceAcc_evs_sub cfg (emitSwitch cfg s3 b (c0 :: cs0) u rd j f) b none
        rw [ht]
        intro e he hs
        simp only [List.mem_append] at he
        rcases he with he | he
        · exact hnf e he hs
        · rcases hg e he with ⟨h1, _⟩ | h1
          · rw [h1] at hs; cases hs
          · rw [h1] at hs; cases hs

/-- the entries a chain switch re-delivers are entries of the buffer -/
theorem switchSegments_stored (cfg : Config) (s : FState) (b : Blk) (trig : Bool) (u rd : List Entry) (j : Option Ref)
    (h : switchSegments cfg s b trig = some (u, rd, j)) : ∀ r ∈ rd, s.db.find r.blk.id = some r := by
  unfold switchSegments at h
  split at h
  · cases hls : s.lastSent with
    | none => rw [hls] at h; simp only [Option.some.injEq, Prod.mk.injEq] at h; obtain ⟨_, rfl, _⟩ := h; simp
    | some l =>
      rw [hls] at h
      simp only at h
      unfold sentChainSwitch at h
      split at h
      · simp only [Option.some.injEq, Prod.mk.injEq] at h; obtain ⟨_, rfl, _⟩ := h; simp
      · cases hcs : s.db.chainSwitchSegments l.id b.parent with
        | none => rw [hcs] at h; simp only [Option.some.injEq, Prod.mk.injEq] at h; obtain ⟨_, rfl, _⟩ := h; simp
        | some t =>
          obtain ⟨undo, redo, jj⟩ := t
          rw [hcs] at h
          simp only at h
          cases hus : undo.mapM s.db.find with
          | none => rw [hus] at h; simp at h
          | some us =>
            cases hrs : redo.mapM s.db.find with
            | none => rw [hus, hrs] at h; simp at h
            | some rs =>
              rw [hus, hrs] at h
              simp only [Option.some.injEq, Prod.mk.injEq] at h
              obtain ⟨_, rfl, _⟩ := h
              intro r hr
              exact (mapM_find_spec s.db redo rs hrs).2 r (List.mem_filter.mp hr).1
  · simp only [Option.some.injEq, Prod.mk.injEq] at h; obtain ⟨_, rfl, _⟩ := h; simp

/-- **every block delivered as New is strictly above the LIB the forkable had when the incoming block arrived** (which
    is the cursor LIB of these events): blocks of the redo segment and of the new longest chain lie on the path from
    the LIB to the incoming block, heights grow along it, and the chain entries carry the stored heights -/
theorem processBlock_new_above_lib (cfg : Config) (s : FState) (P : List Id) (b : Blk) (f : Option Nat) (hI : Inv s P)
    (hni : s.includeInit = false ∨ s.lastSent.isSome = true ∨ b.id ≠ s.db.libRef.id)
    (hcl : SentClosed s.db) (hb : WFin b) (hB : HB s.db b) :
    ∀ e ∈ (processBlock cfg s b f).2.1, e.step = .new → s.db.libRef.num < e.blk.num := by
  apply processBlock_new_from cfg s b f (fun blk => s.db.libRef.num < blk.num) hni hI.libNe
  intro u rd j lc hsw hc hex hne
  obtain ⟨hf, _⟩ := fresh_of_addLink s.db b hI.wf hb hex
  rw [afterLink_eq s b hI.wf hb hex] at hc
  obtain ⟨hp, hn, hfa, htop, _⟩ := compute_chain_path cfg s P b hI hb hB hf lc hc
  have hh' := heights_append s.db b hI.heights hb hB
  have habove : ∀ x ∈ lc.map (·.blk.id), ∀ e, (appendBlk s.db b).find x = some e → s.db.libRef.num < e.blk.num :=
    heights_path (appendBlk s.db b) hh' s.db.libRef.id s.db.libRef.num _ hp hh'.2.1
  have hlc : ∀ e ∈ lc, s.db.libRef.num < e.blk.num := by
    intro e he
    obtain ⟨e0, h0, _, hnum⟩ := hfa e he
    rw [← hnum]; exact habove _ (List.mem_map.mpr ⟨e, he, rfl⟩) e0 h0
  refine ⟨?_, hlc⟩
  by_cases hcase : (cfg.matches .undo && triggers cfg s b) = true
  · simp only [Bool.and_eq_true] at hcase
    obtain ⟨hundo, htr⟩ := hcase
    rw [htr] at hsw
    obtain ⟨lcA, lcB, Pj, hlceq, _, _, hA, _, _⟩ := switch_decomp cfg hundo s P b hI hcl hf lc hne hp hn htop u rd j hsw
    have hst := switchSegments_stored cfg s b true u rd j hsw
    intro r hr
    have hrs := hst r hr
    have hrne : r.blk.id ≠ b.id := by intro hc'; rw [hc', hf] at hrs; cases hrs
    have hmem : r.blk.id ∈ lc.map (·.blk.id) := by
      rw [hlceq, List.map_append, hA]
      simp only [List.mem_append, List.mem_map]
      exact Or.inl (Or.inr ⟨r, hr, rfl⟩)
    exact habove _ hmem r (by unfold appendBlk; rw [find_append_other s.db b _ hrne]; exact hrs)
  · unfold switchSegments at hsw
    rw [if_neg hcase] at hsw
    simp only [Option.some.injEq, Prod.mk.injEq] at hsw
    obtain ⟨_, rfl, _⟩ := hsw
    simp

end BstreamVerif.Forkable
