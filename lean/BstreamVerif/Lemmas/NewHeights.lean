import BstreamVerif.Lemmas.CursorLib
import BstreamVerif.Lemmas.ForkStep
/-!
Which blocks one `ProcessBlock` delivers as New: blocks of the redo segment and of the new longest chain — hence,
under the invariant, blocks strictly above the LIB the forkable had when the block came in (C04: the cursor LIB of a
New event never exceeds the event's block height).
-/
namespace BstreamVerif.Forkable
open BstreamVerif BstreamVerif.ForkDB

/-- every New event seen so far delivers a block satisfying `p` -/
def NewFrom (p : Blk → Prop) (a : Acc) : Prop := ∀ e ∈ a.evs, e.step = .new → p e.blk

theorem phase_newFrom (p : Blk → Prop) (a : Acc) (evs : List Event) (h : NewFrom p a)
    (he : ∀ e ∈ evs, e.step = .new → p e.blk) : NewFrom p (phase a evs) := by
  obtain ⟨t, ht, hsub⟩ := phase_evs_sub a evs
  intro e hm hs
  rw [ht] at hm
  rcases List.mem_append.mp hm with hm | hm
  · exact h e hm hs
  · exact he e (hsub e hm) hs

theorem newStep_newFrom (cfg : Config) (head : Ref) (p : Blk → Prop) (a : Acc) (e : Entry) (h : NewFrom p a)
    (hp : p e.blk) : NewFrom p (newStep cfg head a e) := by
  have hext : ∀ x ∈ a.evs ++ [newEv head a.st e], x.step = .new → p x.blk := by
    intro x hx hs
    simp only [List.mem_append, List.mem_singleton] at hx
    rcases hx with hx | rfl
    · exact h x hx hs
    · exact hp
  by_cases hf : a.failed = true
  · rw [newStep_failed cfg head a e hf]; exact h
  · have hf : a.failed = false := by simpa using hf
    by_cases hs : isSent a.st.db e.blk.id = true
    · rw [newStep_sent cfg head a e hf hs]; exact h
    · have hs : isSent a.st.db e.blk.id = false := by simpa using hs
      by_cases hd : cfg.matches .new = true
      · cases hfa : a.failAt with
        | none => rw [newStep_send_none cfg head a e hf hs hd hfa]; exact hext
        | some k =>
          cases k with
          | zero => rw [newStep_send_zero cfg head a e hf hs hd hfa]; exact hext
          | succ j => rw [newStep_send_succ cfg head a e hf hs hd j hfa]; exact hext
      · have hd : cfg.matches .new = false := by simpa using hd
        rw [newStep_nosend cfg head a e hf hs hd]; exact h

theorem foldl_newStep_newFrom (cfg : Config) (head : Ref) (p : Blk → Prop) (ch : List Entry) (a : Acc)
    (h : NewFrom p a) (hp : ∀ e ∈ ch, p e.blk) : NewFrom p (ch.foldl (newStep cfg head) a) := by
  induction ch generalizing a with
  | nil => exact h
  | cons e t ih =>
    exact ih _ (newStep_newFrom cfg head p a e h (hp e (by simp))) (fun x hx => hp x (by simp [hx]))

theorem mkEvents_blk (step : Step) (es : List Entry) (head lib : Ref) (j : Option Ref) :
    ∀ e ∈ mkEvents step es head lib j, e.step = step ∧ ∃ x ∈ es, x.blk = e.blk := by
  intro e he
  unfold mkEvents at he
  obtain ⟨i, hi, rfl⟩ := List.getElem_of_mem he
  simp only [List.getElem_mapIdx, true_and]
  simp only [List.length_mapIdx] at hi
  exact ⟨es[i], List.getElem_mem hi, rfl⟩

/-- the New events of a chain switch deliver blocks of the redo segment or of the chain -/
theorem emitSwitch_newFrom (cfg : Config) (p : Blk → Prop) (s3 : FState) (b : Blk) (lc u r : List Entry)
    (j : Option Ref) (f : Option Nat) (hr : ∀ e ∈ r, p e.blk) (hlc : ∀ e ∈ lc, p e.blk) :
    NewFrom p (emitSwitch cfg s3 b lc u r j f) := by
  unfold emitSwitch processNew
  apply foldl_newStep_newFrom _ _ _ _ _ _ hlc
  have h0 : NewFrom p ⟨s3, [], f, false⟩ := by intro e he; simp at he
  have h1 : NewFrom p (if cfg.matches .undo then phase ⟨s3, [], f, false⟩ (mkEvents .undo u b.ref (cursorLIB s3) j) else ⟨s3, [], f, false⟩) := by
    split
    · apply phase_newFrom _ _ _ h0
      intro e he hs
      have := (mkEvents_blk _ _ _ _ _ e he).1
      rw [this] at hs; cases hs
    · exact h0
  split
  · apply phase_newFrom _ _ _ h1
    intro e he _
    obtain ⟨_, x, hx, hxb⟩ := mkEvents_blk _ _ _ _ _ e he
    rw [← hxb]; exact hr x hx
  · exact h1

/-- **the blocks one `ProcessBlock` delivers as New** (known LIB, any handler failure point): whatever holds of the
    blocks of the redo segment and of the new longest chain holds of every block delivered as New -/
theorem processBlock_new_from (cfg : Config) (s : FState) (b : Blk) (f : Option Nat) (p : Blk → Prop)
    (hni : s.includeInit = false ∨ s.lastSent.isSome = true ∨ b.id ≠ s.db.libRef.id) (hlib : s.db.libRef.id ≠ "")
    (hp : ∀ u rd j lc, switchSegments cfg s b (triggers cfg s b) = some (u, rd, j) →
      computeLongestChain cfg (afterLink s b) b = some lc → (s.db.addLink b).2 = false →
      (∀ e ∈ rd, p e.blk) ∧ (∀ e ∈ lc, p e.blk)) :
    ∀ e ∈ (processBlock cfg s b f).2.1, e.step = .new → p e.blk := by
  unfold processBlock
  rcases plan_cases cfg s b hni hlib with ⟨⟨r, hr⟩, _⟩ | ⟨hex, _, _, u, rd, j, hsw, hpl⟩
  · rw [hr]; simp
  have hlT : (afterLink s b).db.hasLIB = true := by
    apply hasLIB_of_id
    show (s.db.addLink b).1.libRef.id ≠ ""
    rw [addLink_libRef]; exact hlib
  rw [hpl, planLinked_hasLIB cfg _ b _ u rd j hlT]
  cases hc : computeLongestChain cfg (afterLink s b) b with
  | none => simp
  | some lc =>
    cases lc with
    | nil => simp
    | cons c0 cs0 =>
      cases htr : triggers cfg s b with
      | false => simp
      | true =>
        simp only [if_true, advanceLIB, finish]
        obtain ⟨hprd, hplc⟩ := hp u rd j (c0 :: cs0) hsw hc hex
        generalize hs3 : ({ afterLink s b with cache := some (c0 :: cs0) } : FState) = s3
        have hnf := emitSwitch_newFrom cfg p s3 b (c0 :: cs0) u rd j f hprd hplc
        obtain ⟨t, ht, hg⟩ := advanceAcc_evs_sub cfg (emitSwitch cfg s3 b (c0 :: cs0) u rd j f) b none
        rw [ht]
        intro e he hs
        simp only [List.mem_append] at he
        rcases he with he | he
        · exact hnf e he hs
        · rcases hg e he with ⟨h1, _⟩ | h1
          · rw [h1] at hs; cases hs
          · rw [h1] at hs; cases hs

end BstreamVerif.Forkable
