import BstreamVerif.Props.C09
import BstreamVerif.Props.C05
import BstreamVerif.Model.Resolver
import BstreamVerif.Lemmas.SegShape
/-!
The seam between merged files and the live hub, at consumer level (C07): the file-side deliveries followed by the
hub's answer to a request by number keep the push/pop consumer on one chain and leave it exactly where the hub's own
consumer stands, so that everything the hub delivers afterwards continues the same discipline.
-/
namespace BstreamVerif.Seam
open BstreamVerif BstreamVerif.ForkDB BstreamVerif.Forkable BstreamVerif.HubBurst

/-- file-side deliveries of a stream started by block number: every merged block new and irreversible at once -/
theorem run_fileEvs (lib : Id) (fb : List Blk) (h : linkedBlks lib fb) :
    (⟨lib, []⟩ : CS).run (fb.map (Resolver.fileEv .newIrreversible)) = some ⟨topOf lib (fb.map (·.id)), []⟩ := by
  unfold CS.run
  have : (fb.map (Resolver.fileEv .newIrreversible)).map sbOf = fb.map (fun b => (Step.newIrreversible, b)) := by
    simp [sbOf, Resolver.fileEv]
  rw [this]
  exact Props.C05.runSB_newIrrs lib fb h

/-- the hub's answer to a request by number, split at the hub's LIB: final blocks new+irreversible, the rest New -/
theorem run_burst (s : FState) (h : Blk) (t : Id) (A B : List Entry)
    (hA : ∀ e ∈ A, e.blk.num ≤ s.db.libRef.num) (hB : ∀ e ∈ B, ¬ e.blk.num ≤ s.db.libRef.num)
    (hl : linkedBlks t ((A ++ B).map (·.blk))) :
    (⟨t, []⟩ : CS).run ((A ++ B).map (Props.C09.fromNumEv s h)) =
      some ⟨topOf t (A.map (·.blk.id)), B.map (·.blk.id)⟩ := by
  unfold CS.run
  have eA : (A.map (Props.C09.fromNumEv s h)).map sbOf = (A.map (·.blk)).map (fun b => (Step.newIrreversible, b)) := by
    rw [List.map_map, List.map_map]
    apply List.map_congr_left
    intro e he
    simp [sbOf, Props.C09.fromNumEv, wrap, hA e he]
  have eB : (B.map (Props.C09.fromNumEv s h)).map sbOf = (B.map (·.blk)).map (fun b => (Step.new, b)) := by
    rw [List.map_map, List.map_map]
    apply List.map_congr_left
    intro e he
    simp [sbOf, Props.C09.fromNumEv, wrap, hB e he]
  rw [List.map_append, List.map_append, runSB_append, eA, eB]
  rw [List.map_append, linkedBlks_append] at hl
  rw [Props.C05.runSB_newIrrs t _ hl.1]
  simp only [Option.bind_some, List.map_map]
  have := runSB_news (topOf t (A.map (·.blk.id))) [] (B.map (·.blk))
    (by simpa [Function.comp_def] using hl.2)
  simpa [Function.comp_def] using this

end BstreamVerif.Seam
