import BstreamVerif.Lemmas.Discipline
/-!
The consumer of C01's statement, literally: it pushes on New (and on new+irreversible), pops on Undo and ignores every
other event — it is not told about finality. Whenever the finality-aware consumer `CS` accepts an event sequence, this
consumer accepts it too, and what it holds is at every moment one parent-linked chain rooted at the block it started
on: the blocks `CS` has seen become final, followed by `CS`'s pending blocks.
-/
namespace BstreamVerif.Forkable
open BstreamVerif BstreamVerif.ForkDB

/-- the push/pop consumer: the block it rests on and the blocks it holds, oldest first -/
structure SC where
  base  : Id
  stack : List Blk
deriving Repr

def SC.top (c : SC) : Id := topOf c.base (c.stack.map (·.id))

/-- one event; `none` = a New that does not extend the tip, or an Undo of something else than the tip -/
def SC.apply (c : SC) (sb : Step × Blk) : Option SC :=
  match sb.1 with
  | .new | .newIrreversible => if sb.2.parent = c.top then some ⟨c.base, c.stack ++ [sb.2]⟩ else none
  | .undo => if (c.stack.getLast?.map (·.id)) = some sb.2.id then some ⟨c.base, c.stack.dropLast⟩ else none
  | .irreversible | .stalled => some c

def SC.runSB : SC → List (Step × Blk) → Option SC
  | c, [] => some c
  | c, sb :: r => match c.apply sb with
    | some c' => SC.runSB c' r
    | none => none

/-- what the push/pop consumer holds is one parent-linked chain rooted at its base -/
def SC.Chain (c : SC) : Prop := linkedBlks c.base c.stack

theorem linkedBlks_concat (bottom : Id) (l : List Blk) (b : Blk) (h : linkedBlks bottom l)
    (hb : b.parent = topOf bottom (l.map (·.id))) : linkedBlks bottom (l ++ [b]) := by
  induction l generalizing bottom with
  | nil => exact ⟨by simpa using hb, trivial⟩
  | cons x r ih =>
    refine ⟨h.1, ih x.id h.2 ?_⟩
    simpa using hb

theorem linkedBlks_dropLast (bottom : Id) (l : List Blk) (h : linkedBlks bottom l) : linkedBlks bottom l.dropLast := by
  induction l generalizing bottom with
  | nil => trivial
  | cons x r ih =>
    cases r with
    | nil => trivial
    | cons y r' =>
      rw [List.dropLast_cons₂]
      exact ⟨h.1, ih x.id h.2⟩

theorem SC.apply_chain (c c' : SC) (sb : Step × Blk) (h : c.Chain) (ha : c.apply sb = some c') : c'.Chain := by
  unfold SC.apply at ha
  split at ha
  · split at ha
    · rename_i hp
      simp only [Option.some.injEq] at ha; subst ha
      exact linkedBlks_concat _ _ _ h hp
    · cases ha
  · split at ha
    · rename_i hp
      simp only [Option.some.injEq] at ha; subst ha
      exact linkedBlks_concat _ _ _ h hp
    · cases ha
  · split at ha
    · simp only [Option.some.injEq] at ha; subst ha
      exact linkedBlks_dropLast _ _ h
    · cases ha
  · simp only [Option.some.injEq] at ha; subst ha; exact h
  · simp only [Option.some.injEq] at ha; subst ha; exact h

/-- the relation between the two consumers: the stack is some blocks ending on `CS`'s LIB, followed by `CS`'s pending
    blocks -/
def Follows (c : CS) (s : SC) : Prop :=
  ∃ X Y : List Blk, s.stack = X ++ Y ∧ Y.map (·.id) = c.pend ∧ topOf s.base (X.map (·.id)) = c.lib

theorem SC.top_of_follows (c : CS) (s : SC) (h : Follows c s) : s.top = topOf c.lib c.pend := by
  obtain ⟨X, Y, hs, hy, hx⟩ := h
  unfold SC.top
  rw [hs, List.map_append, topOf_append, hx, hy]

/-- **whenever `CS` accepts an event, the push/pop consumer accepts it, and keeps following** -/
theorem follows_step (c c' : CS) (s : SC) (sb : Step × Blk) (hf : Follows c s) (ha : c.apply sb = some c') :
    ∃ s', s.apply sb = some s' ∧ Follows c' s' := by
  have htop := SC.top_of_follows c s hf
  obtain ⟨X, Y, hs, hy, hx⟩ := hf
  unfold CS.apply at ha
  unfold SC.apply
  cases hstep : sb.1 with
  | new =>
    rw [hstep] at ha
    simp only at ha ⊢
    split at ha
    · rename_i hp
      simp only [Option.some.injEq] at ha; subst ha
      refine ⟨⟨s.base, s.stack ++ [sb.2]⟩, by rw [if_pos (by rw [htop]; exact hp)], X, Y ++ [sb.2], ?_, ?_, hx⟩
      · simp [hs]
      · simp [hy]
    · cases ha
  | undo =>
    rw [hstep] at ha
    simp only at ha ⊢
    split at ha
    · rename_i hp
      simp only [Option.some.injEq] at ha; subst ha
      -- pend is not empty: its last element is the undone block
      have hYne : Y ≠ [] := by
        intro hnil; rw [hnil] at hy; rw [← hy] at hp; simp at hp
      have hlast : (s.stack.getLast?.map (·.id)) = some sb.2.id := by
        have hg : (X ++ Y).getLast? = Y.getLast? := by
          cases hY : Y with
          | nil => exact absurd hY hYne
          | cons y Y' =>
            rw [List.getLast?_append]
            have : (y :: Y').getLast? = some ((y :: Y').getLast (by simp)) := List.getLast?_eq_some_getLast _
            rw [this]; rfl
        rw [hs, hg, ← List.getLast?_map, hy]; exact hp
      refine ⟨⟨s.base, s.stack.dropLast⟩, by rw [if_pos hlast], X, Y.dropLast, ?_, ?_, hx⟩
      · simp only
        rw [hs, List.dropLast_append_of_ne_nil hYne]
      · rw [← hy]; simp [List.map_dropLast]
    · cases ha
  | irreversible =>
    rw [hstep] at ha
    simp only at ha ⊢
    cases hpend : c.pend with
    | nil => rw [hpend] at ha; cases ha
    | cons x r =>
      rw [hpend] at ha
      simp only at ha
      split at ha
      · simp only [Option.some.injEq] at ha; subst ha
        cases Y with
        | nil => rw [hpend] at hy; cases hy
        | cons y Y' =>
          rw [hpend] at hy
          simp only [List.map_cons, List.cons.injEq] at hy
          refine ⟨s, rfl, X ++ [y], Y', by simp [hs], hy.2, ?_⟩
          simp [hy.1]
      · cases ha
  | stalled =>
    rw [hstep] at ha
    simp only [Option.some.injEq] at ha ⊢
    subst ha
    exact ⟨s, rfl, X, Y, hs, hy, hx⟩
  | newIrreversible =>
    rw [hstep] at ha
    simp only at ha ⊢
    split at ha
    · rename_i hp
      simp only [Option.some.injEq] at ha; subst ha
      simp only [Bool.and_eq_true, List.isEmpty_iff, beq_iff_eq] at hp
      have hYnil : Y = [] := by
        cases Y with
        | nil => rfl
        | cons y Y' => rw [hp.1] at hy; cases hy
      have hpar : sb.2.parent = s.top := by rw [htop, hp.1]; simpa using hp.2
      refine ⟨⟨s.base, s.stack ++ [sb.2]⟩, by rw [if_pos hpar], X ++ [sb.2], [], ?_, rfl, ?_⟩
      · simp [hs, hYnil]
      · simp
    · cases ha

theorem follows_run (c c' : CS) (s : SC) (evs : List (Step × Blk)) (hf : Follows c s) (hc : s.Chain)
    (hr : c.runSB evs = some c') : ∃ s', s.runSB evs = some s' ∧ Follows c' s' ∧ s'.Chain := by
  induction evs generalizing c s with
  | nil =>
    simp only [CS.runSB, Option.some.injEq] at hr; subst hr
    exact ⟨s, rfl, hf, hc⟩
  | cons sb r ih =>
    simp only [CS.runSB] at hr
    cases ha : c.apply sb with
    | none => rw [ha] at hr; cases hr
    | some c1 =>
      rw [ha] at hr
      obtain ⟨s1, hs1, hf1⟩ := follows_step c c1 s sb hf ha
      obtain ⟨s', hs', hf', hc'⟩ := ih c1 s1 hf1 (SC.apply_chain s s1 sb hc hs1) hr
      exact ⟨s', by simp only [SC.runSB, hs1]; exact hs', hf', hc'⟩

theorem SC.runSB_append (c : SC) (l1 l2 : List (Step × Blk)) :
    c.runSB (l1 ++ l2) = (c.runSB l1).bind (fun c' => c'.runSB l2) := by
  induction l1 generalizing c with
  | nil => rfl
  | cons a r ih =>
    simp only [List.cons_append, SC.runSB]
    cases c.apply a with
    | none => rfl
    | some c' => exact ih c'

theorem SC.run_chain (c c' : SC) (evs : List (Step × Blk)) (hc : c.Chain) (hr : c.runSB evs = some c') : c'.Chain := by
  induction evs generalizing c with
  | nil => simp only [SC.runSB, Option.some.injEq] at hr; subst hr; exact hc
  | cons sb r ih =>
    simp only [SC.runSB] at hr
    cases ha : c.apply sb with
    | none => rw [ha] at hr; cases hr
    | some c1 => rw [ha] at hr; exact ih c1 (SC.apply_chain c c1 sb hc ha) hr

/-- at every moment of an accepted run the consumer holds one parent-linked chain -/
theorem SC.chain_at_every_moment (c c' : SC) (pre post : List (Step × Blk)) (hc : c.Chain)
    (hr : c.runSB (pre ++ post) = some c') : ∃ c1, c.runSB pre = some c1 ∧ c1.Chain := by
  rw [SC.runSB_append] at hr
  cases h1 : c.runSB pre with
  | none => rw [h1] at hr; cases hr
  | some c1 => exact ⟨c1, rfl, SC.run_chain c c1 pre hc h1⟩

/-- events that tell about finality only: invisible to the push/pop consumer -/
def seenByPushPop (sb : Step × Blk) : Bool := sb.1 == .new || sb.1 == .newIrreversible || sb.1 == .undo

/-- dropping the events the push/pop consumer ignores changes nothing for it: what a stream with the default step
    filter (New, new+irreversible, Undo) delivers is, for this consumer, the same as the unfiltered stream -/
theorem SC.runSB_filter (c : SC) (evs : List (Step × Blk)) :
    c.runSB (evs.filter seenByPushPop) = c.runSB evs := by
  induction evs generalizing c with
  | nil => rfl
  | cons sb r ih =>
    cases hst : sb.1 with
    | new =>
      rw [List.filter_cons_of_pos (by simp [seenByPushPop, hst])]
      simp only [SC.runSB]
      cases c.apply sb with
      | none => rfl
      | some c' => exact ih c'
    | newIrreversible =>
      rw [List.filter_cons_of_pos (by simp [seenByPushPop, hst])]
      simp only [SC.runSB]
      cases c.apply sb with
      | none => rfl
      | some c' => exact ih c'
    | undo =>
      rw [List.filter_cons_of_pos (by simp [seenByPushPop, hst])]
      simp only [SC.runSB]
      cases c.apply sb with
      | none => rfl
      | some c' => exact ih c'
    | irreversible =>
      rw [List.filter_cons_of_neg (by simp [seenByPushPop, hst])]
      have : c.apply sb = some c := by unfold SC.apply; rw [hst]
      simp only [SC.runSB, this]
      exact ih c
    | stalled =>
      rw [List.filter_cons_of_neg (by simp [seenByPushPop, hst])]
      have : c.apply sb = some c := by unfold SC.apply; rw [hst]
      simp only [SC.runSB, this]
      exact ih c

/-- pushing a parent-linked run of New blocks -/
theorem SC.run_news (base : Id) (st : List Blk) (news : List Blk) (h : linkedBlks (topOf base (st.map (·.id))) news) :
    (⟨base, st⟩ : SC).runSB (news.map (fun b => (Step.new, b))) = some ⟨base, st ++ news⟩ := by
  induction news generalizing st with
  | nil => simp [SC.runSB]
  | cons b r ih =>
    simp only [List.map_cons, SC.runSB, SC.apply, SC.top, h.1, if_true]
    have := ih (st ++ [b]) (by simpa using h.2)
    rw [this]; simp

end BstreamVerif.Forkable
