import BstreamVerif.Lemmas.ForkStep
/-!
The LIB carried by the cursor of every event of one `ProcessBlock` (C04).
-/
namespace BstreamVerif.Forkable
open BstreamVerif BstreamVerif.ForkDB

theorem cursorLIB_of_inv (s : FState) (P : List Id) (hI : Inv s P) : cursorLIB s = s.db.libRef := by
  unfold cursorLIB
  rcases hI.seen with h | h
  · simp [h, Ref.isEmpty, Ref.empty]
  · rw [h]
    have : s.db.libRef.isEmpty = false := by
      have hne : (s.db.libRef.id == "") = false := by simpa using hI.libNe
      simp [Ref.isEmpty, hne]
    simp [this]

/-- every event seen so far is an Undo or a New carrying `r` as cursor LIB, and `r` is still the state's cursor LIB -/
def SwitchEvs (r : Ref) (a : Acc) : Prop :=
  cursorLIB a.st = r ∧ ∀ e ∈ a.evs, (e.step = .undo ∨ e.step = .new) ∧ e.lib = r

theorem phase_switchEvs (r : Ref) (a : Acc) (evs : List Event) (h : SwitchEvs r a)
    (he : ∀ e ∈ evs, (e.step = .undo ∨ e.step = .new) ∧ e.lib = r) : SwitchEvs r (phase a evs) := by
  have hst : (phase a evs).st = a.st := by unfold phase; split <;> rfl
  refine ⟨by rw [hst]; exact h.1, ?_⟩
  unfold phase
  split
  · exact h.2
  · intro e hm
    simp only [List.mem_append] at hm
    rcases hm with hm | hm
    · exact h.2 e hm
    · apply he
      unfold deliver at hm
      split at hm
      · exact hm
      · split at hm
        · exact List.mem_of_mem_take hm
        · exact hm

theorem cursorLIB_sentSt (st : FState) (e : Entry) : cursorLIB (sentSt st e) = cursorLIB st := rfl

theorem newStep_switchEvs (cfg : Config) (head r : Ref) (a : Acc) (e : Entry) (h : SwitchEvs r a) :
    SwitchEvs r (newStep cfg head a e) := by
  have hext : ∀ x ∈ a.evs ++ [newEv head a.st e], (x.step = .undo ∨ x.step = .new) ∧ x.lib = r := by
    intro x hx
    simp only [List.mem_append, List.mem_singleton] at hx
    rcases hx with hx | rfl
    · exact h.2 x hx
    · exact ⟨Or.inr rfl, h.1⟩
  by_cases hf : a.failed = true
  · rw [newStep_failed cfg head a e hf]; exact h
  · have hf : a.failed = false := by simpa using hf
    by_cases hs : isSent a.st.db e.blk.id = true
    · rw [newStep_sent cfg head a e hf hs]; exact h
    · have hs : isSent a.st.db e.blk.id = false := by simpa using hs
      by_cases hd : cfg.matches .new = true
      · cases hfa : a.failAt with
        | none => rw [newStep_send_none cfg head a e hf hs hd hfa]; exact ⟨by rw [cursorLIB_sentSt]; exact h.1, hext⟩
        | some k =>
          cases k with
          | zero => rw [newStep_send_zero cfg head a e hf hs hd hfa]; exact ⟨h.1, hext⟩
          | succ j => rw [newStep_send_succ cfg head a e hf hs hd j hfa]; exact ⟨by rw [cursorLIB_sentSt]; exact h.1, hext⟩
      · have hd : cfg.matches .new = false := by simpa using hd
        rw [newStep_nosend cfg head a e hf hs hd]; exact ⟨by rw [cursorLIB_sentSt]; exact h.1, h.2⟩

theorem foldl_newStep_switchEvs (cfg : Config) (head r : Ref) (ch : List Entry) (a : Acc) (h : SwitchEvs r a) :
    SwitchEvs r (ch.foldl (newStep cfg head) a) := by
  induction ch generalizing a with
  | nil => exact h
  | cons e t ih => exact ih _ (newStep_switchEvs cfg head r a e h)

theorem mkEvents_fields (step : Step) (es : List Entry) (head lib : Ref) (j : Option Ref) :
    ∀ e ∈ mkEvents step es head lib j, e.step = step ∧ e.lib = lib := by
  intro e he
  unfold mkEvents at he
  obtain ⟨i, hi, rfl⟩ := List.getElem_of_mem he
  simp

/-- the deliveries of a chain switch: Undo and New events only, all carrying the forkable's cursor LIB -/
theorem emitSwitch_switchEvs (cfg : Config) (s3 : FState) (b : Blk) (lc u r : List Entry) (j : Option Ref) (f : Option Nat) :
    SwitchEvs (cursorLIB s3) (emitSwitch cfg s3 b lc u r j f) := by
  unfold emitSwitch processNew
  apply foldl_newStep_switchEvs
  have h0 : SwitchEvs (cursorLIB s3) ⟨s3, [], f, false⟩ := ⟨rfl, by intro e he; simp at he⟩
  have h1 : SwitchEvs (cursorLIB s3) (if cfg.matches .undo then phase ⟨s3, [], f, false⟩ (mkEvents .undo u b.ref (cursorLIB s3) j) else ⟨s3, [], f, false⟩) := by
    split
    · apply phase_switchEvs _ _ _ h0
      intro e he
      have := mkEvents_fields _ _ _ _ _ e he
      exact ⟨Or.inl this.1, this.2⟩
    · exact h0
  split
  · apply phase_switchEvs _ _ _ h1
    intro e he
    have := mkEvents_fields _ _ _ _ _ e he
    exact ⟨Or.inr this.1, this.2⟩
  · exact h1

/-- events added by the LIB advance: Irreversible events carrying themselves as cursor LIB, and Stalled events -/
def AdvEvs (n : Nat) (a : Acc) : Prop :=
  ∀ e ∈ a.evs.drop n, (e.step = .irreversible ∧ e.lib = e.blk.ref) ∨ e.step = .stalled

theorem phase_evs_sub (a : Acc) (evs : List Event) : ∃ t, (phase a evs).evs = a.evs ++ t ∧ ∀ e ∈ t, e ∈ evs := by
  by_cases hf : a.failed = true
  · exact ⟨[], by simp [phase, hf], by simp⟩
  · cases hfa : a.failAt with
    | none => exact ⟨evs, by simp [phase, hf, hfa, deliver], fun e he => he⟩
    | some k =>
      by_cases hk : k < evs.length
      · exact ⟨evs.take (k + 1), by simp [phase, hf, hfa, deliver, hk], fun e he => List.mem_of_mem_take he⟩
      · exact ⟨evs, by simp [phase, hf, hfa, deliver, hk], fun e he => he⟩

theorem processIrr_evs_sub (cfg : Config) (a : Acc) (seg : List Entry) (head : Ref) (actual : Id → Option Blk) :
    ∃ t, (processIrr cfg a seg head actual).evs = a.evs ++ t ∧ ∀ e ∈ t, e.step = .irreversible ∧ e.lib = e.blk.ref := by
  have hirr : ∀ e ∈ irrEvents cfg seg head actual, e.step = .irreversible ∧ e.lib = e.blk.ref := by
    intro e he
    unfold irrEvents at he
    split at he
    · obtain ⟨i, hi, rfl⟩ := List.getElem_of_mem he; simp
    · simp at he
  obtain ⟨t, ht, hsub⟩ := phase_evs_sub a (irrEvents cfg seg head actual)
  rw [processIrr_eq]
  split
  · exact ⟨[], by simp, by simp⟩
  · split
    · exact ⟨t, ht, fun e he => hirr e (hsub e he)⟩
    · exact ⟨t, by rw [(setSeen_fields _ seg).2.2]; exact ht, fun e he => hirr e (hsub e he)⟩

theorem processStalled_evs_sub (cfg : Config) (a : Acc) (st : List Entry) (head : Ref) :
    ∃ t, (processStalled cfg a st head).evs = a.evs ++ t ∧ ∀ e ∈ t, e.step = .stalled := by
  unfold processStalled
  split
  · exact ⟨[], by simp, by simp⟩
  · obtain ⟨t, ht, hsub⟩ := phase_evs_sub a (if cfg.matches .stalled then
      st.mapIdx (fun i e => (⟨.stalled, e.blk, head, a.st.lastLIBSeen, none, i, st.length⟩ : Event)) else [])
    refine ⟨t, ht, ?_⟩
    intro e he
    have := hsub e he
    split at this
    · obtain ⟨i, hi, rfl⟩ := List.getElem_of_mem this; simp
    · simp at this

theorem advanceAcc_evs_sub (cfg : Config) (a : Acc) (b : Blk) (fi : Option Entry) :
    ∃ t, (advanceAcc cfg a b fi).evs = a.evs ++ t ∧
      ∀ e ∈ t, (e.step = .irreversible ∧ e.lib = e.blk.ref) ∨ e.step = .stalled := by
  have triv : ∃ t, a.evs = a.evs ++ t ∧ ∀ e ∈ t, (e.step = .irreversible ∧ e.lib = e.blk.ref) ∨ e.step = .stalled :=
    ⟨[], by simp, by simp⟩
  unfold advanceAcc
  split
  · exact triv
  · split
    · exact triv
    · split
      · exact triv
      · simp only
        split
        · exact triv
        · rw [advanceTo_eq]
          split
          · exact triv
          · obtain ⟨t1, h1, g1⟩ := processIrr_evs_sub cfg { a with st := withDb ((a.st.db.moveLIB _).purgeBeforeLIB cfg.kept) a.st }
              (withFirst fi (a.st.db.hasNewIrreversibleSegment cfg.fsb _).2.1) b.ref (fun i => (a.st.db.find i).map (·.blk))
            obtain ⟨t2, h2, g2⟩ := processStalled_evs_sub cfg _ (a.st.db.hasNewIrreversibleSegment cfg.fsb _).2.2 b.ref
            refine ⟨t1 ++ t2, by rw [h2, h1, List.append_assoc], ?_⟩
            intro e he
            simp only [List.mem_append] at he
            rcases he with he | he
            · exact Or.inl (g1 e he)
            · exact Or.inr (g2 e he)

/-- **the cursor LIB of every event of one `ProcessBlock`** (buffer with a known LIB, any handler failure point):
    Undo and New events carry the forkable's cursor LIB as it was when the block came in; Irreversible events carry
    themselves; nothing else is delivered but Stalled events -/
theorem processBlock_cursor_lib (cfg : Config) (s : FState) (b : Blk) (f : Option Nat)
    (hni : s.includeInit = false ∨ s.lastSent.isSome = true ∨ b.id ≠ s.db.libRef.id) (hlib : s.db.libRef.id ≠ "") :
    ∀ e ∈ (processBlock cfg s b f).2.1,
      ((e.step = .undo ∨ e.step = .new) ∧ e.lib = cursorLIB s) ∨ (e.step = .irreversible ∧ e.lib = e.blk.ref) ∨
      e.step = .stalled := by
  unfold processBlock
  rcases plan_cases cfg s b hni hlib with ⟨⟨r, hr⟩, _⟩ | ⟨hex, _, _, u, rd, j, hsw, hpl⟩
  · rw [hr]; simp
  have hlT : (afterLink s b).db.hasLIB = true := by
    apply hasLIB_of_id
    show (s.db.addLink b).1.libRef.id ≠ ""
    rw [addLink_libRef]; exact hlib
  rw [hpl, planLinked_hasLIB cfg _ b _ u rd j hlT]
  cases hc : computeLongestChain cfg (afterLink s b) b with
  | none => simp
  | some lc =>
    cases lc with
    | nil => simp
    | cons c0 cs0 =>
      cases htr : triggers cfg s b with
      | false => simp
      | true =>
        simp only [if_true, advanceLIB, finish]
        generalize hs3 : ({ afterLink s b with cache := some (c0 :: cs0) } : FState) = s3
        have hcl : cursorLIB s3 = cursorLIB s := by
          rw [← hs3]
          unfold cursorLIB afterLink
          simp only [addLink_libRef]
        have hsw := emitSwitch_switchEvs cfg s3 b (c0 :: cs0) u rd j f
        obtain ⟨t, ht, hg⟩ := advanceAcc_evs_sub cfg (emitSwitch cfg s3 b (c0 :: cs0) u rd j f) b none
        rw [ht]
        intro e he
        simp only [List.mem_append] at he
        rcases he with he | he
        · left; rw [← hcl]; exact hsw.2 e he
        · right; exact hg e he

end BstreamVerif.Forkable
