import BstreamVerif.Lemmas.Complete
import BstreamVerif.Lemmas.ForkInv
import BstreamVerif.Lemmas.SentInv
/-!
One `processBlock` step preserves the invariant and is accepted by the push/pop consumer.
-/
namespace BstreamVerif.Forkable
open BstreamVerif BstreamVerif.ForkDB

/-- the declared LIB of the incoming block resolves to a stored block whose reference carries its real number
    (no "hole": the LIB number is the height of an ancestor) -/
def LibDeclOK (db : DB) (b : Blk) : Prop :=
  ∀ e, (appendBlk db b).find ((appendBlk db b).blockInChain b.ref b.lib).id = some e →
    e.blk.num = ((appendBlk db b).blockInChain b.ref b.lib).num

theorem inv_afterLink (s : FState) (P : List Id) (b : Blk) (c : Option (List Entry)) (hI : Inv s P) (hb : WFin b)
    (hB : HB s.db b) (hf : s.db.find b.id = none)
    (hc : CacheOK { s with db := appendBlk s.db b, cache := c }) :
    Inv { s with db := appendBlk s.db b, cache := c } P := by
  have hPne : ∀ x ∈ P, x ≠ b.id := by
    intro x hx hxe
    have := isPath_present _ _ _ hI.path x hx
    rw [hxe, hf] at this; cases this
  refine ⟨hI.libNe, wf_append _ _ hI.wf hb hf, heights_append _ _ hI.heights hb hB,
    isPath_append_entry _ _ _ _ hI.path hf, hI.libNotin, ?_, hI.topSome, ?_, hc, hI.initOk, hI.seen⟩
  · intro x hx
    show isSent (appendBlk s.db b) x = true
    rw [isSent_append_other _ _ _ (hPne x hx)]; exact hI.pSent x hx
  · intro hnone
    obtain ⟨h1, h2⟩ := hI.topNone hnone
    refine ⟨h1, ?_⟩
    intro e he
    simp only [appendBlk, List.mem_append, List.mem_singleton] at he
    rcases he with he | rfl
    · exact h2 e he
    · rfl

theorem getLast_filter_of_last {α} (p : α → Bool) (l0 : List α) (x : α) (hx : p x = true) :
    ((l0 ++ [x]).filter p).getLast? = some x := by
  rw [List.filter_append, List.filter_cons_of_pos hx]
  simp

theorem faithful_same {db db' : DB} (h : SameBlks db db') (l : List Entry) (hf : Faithful db l) : Faithful db' l := by
  intro e he
  obtain ⟨e0, h0, h1⟩ := hf e he
  have := h.find_blk e.blk.id
  rw [h0] at this
  cases h' : db'.find e.blk.id with
  | none => rw [h'] at this; simp at this
  | some e1 =>
    rw [h'] at this
    simp only [Option.map_some, Option.some.injEq] at this
    exact ⟨e1, rfl, by rw [this]; exact h1.1, by rw [this]; exact h1.2⟩

theorem advanceAcc_lastSent (cfg : Config) (a : Acc) (b : Blk) (fi : Option Entry) :
    (advanceAcc cfg a b fi).st.lastSent = a.st.lastSent := by
  unfold advanceAcc
  split
  · rfl
  · split
    · rfl
    · split
      · rfl
      · simp only
        split
        · rfl
        · rw [advanceTo_eq]
          split
          · rfl
          · rw [processStalled_st]
            obtain ⟨seen, hs⟩ := processIrr_st cfg { a with st := withDb ((a.st.db.moveLIB _).purgeBeforeLIB cfg.kept) a.st }
              (withFirst fi (a.st.db.hasNewIrreversibleSegment cfg.fsb _).2.1) b.ref (fun i => (a.st.db.find i).map (·.blk))
            rw [hs]; rfl

/-- when the declared ancestor is found and ends a new irreversible segment, the LIB moves to it -/
theorem advanceAcc_moves (cfg : Config) (a : Acc) (b : Blk) (hf : a.failed = false) (last : Blk)
    (hls : a.st.lastSent = some last) (hlibT : a.st.db.hasLIB = true) (R : Ref)
    (hR : a.st.db.blockInChain last.ref last.lib = R) (hRne : R.id ≠ "")
    (hnew : (a.st.db.hasNewIrreversibleSegment cfg.fsb R).1 = true) :
    (advanceAcc cfg a b none).st.db.libRef = R := by
  unfold advanceAcc
  simp only [hf, Bool.false_eq_true, if_false, hls, hlibT, Bool.not_true, hR]
  rw [if_neg (by simpa using hRne)]
  exact (advanceTo_window cfg a b none R (by simp [hnew])).1


/-- how one `ProcessBlock` changes the buffer: not at all; or the block is appended, sent marks change, and possibly the
    LIB moves up to a stored block `R` (whose reference carries its real, higher number) followed by the purge -/
def DbShape (cfg : Config) (s : FState) (b : Blk) (s' : FState) : Prop :=
  (s'.db = s.db ∧ (b.id = b.parent ∨ (b.num < s.db.libRef.num ∧ s.lastSent.isSome = true) ∨ (s.db.addLink b).2 = true)) ∨
  (s.db.find b.id = none ∧ ∃ db2, SameBlks (appendBlk s.db b) db2 ∧
    (s'.db = db2 ∨ ∃ R er, s'.db = (db2.moveLIB R).purgeBeforeLIB cfg.kept ∧ db2.find R.id = some er ∧
      er.blk.num = R.num ∧ db2.libRef.num < R.num))

/-- **one incoming block**: the events delivered for it are accepted by the push/pop consumer, which ends on the
    pending chain of the new state; and the invariant holds again. -/
theorem processBlock_step (cfg : Config) (hnew : cfg.matches .new = true) (hundo : cfg.matches .undo = true)
    (hirr : cfg.matches .irreversible = true) (s : FState) (P : List Id) (b : Blk)
    (hI : Inv s P) (hni : s.includeInit = false ∨ s.lastSent.isSome = true ∨ b.id ≠ s.db.libRef.id)
    (hcl : SentClosed s.db) (hb : WFin b) (hB : HB s.db b) (hL : LibDeclOK s.db b) :
    ∃ P', (⟨s.db.libRef.id, P⟩ : CS).run (processBlock cfg s b none).2.1 =
        some ⟨(processBlock cfg s b none).1.db.libRef.id, P'⟩ ∧
      Inv (processBlock cfg s b none).1 P' ∧
      (((processBlock cfg s b none).2.1 = [] ∧ (processBlock cfg s b none).1.lastSent = s.lastSent) ∨
       (s.db.find b.id = none ∧ triggers cfg s b = true ∧
          ∃ l, (processBlock cfg s b none).1.lastSent = some l ∧ l.ref = b.ref)) ∧
      (∀ (U : Id → Option Blk) (F : List Id), UOK U → Inv2 U F s.db → U b.id = some b →
        ∃ F', Inv2 U F' (processBlock cfg s b none).1.db) ∧
      DbShape cfg s b (processBlock cfg s b none).1 ∧
      (s.db.find b.id = none → ¬ (b.num < s.db.libRef.num ∧ s.lastSent.isSome = true) → triggers cfg s b = true →
        (∃ c cs, computeLongestChain cfg { s with db := appendBlk s.db b } b = some (c :: cs)) →
        (∃ l, (processBlock cfg s b none).1.lastSent = some l ∧ l.ref = b.ref) ∧
        (InitNumOK s.db → ∀ (ids : List Id) (x : Id) (ex : Entry),
          IsPath (appendBlk s.db b) s.db.libRef.id ids → s.db.libRef.id ∉ ids → topOf s.db.libRef.id ids = b.id →
          x ∈ ids → x ≠ b.id → (appendBlk s.db b).find x = some ex → ex.blk.num = b.lib →
          (processBlock cfg s b none).1.db.libRef = ⟨x, b.lib⟩)) := by
  unfold processBlock
  rcases plan_cases cfg s b hni hI.libNe with ⟨⟨r, hr⟩, hwhy⟩ | ⟨hex, _, hnotdrop, u, rd, j, hsw, hpl⟩
  · rw [hr]
    refine ⟨P, rfl, hI, Or.inl ⟨rfl, rfl⟩, fun U F _ hJ _ => ⟨F, hJ⟩, Or.inl ⟨rfl, ?_⟩, ?_⟩
    · rcases hwhy with h | h | h | h
      · exact Or.inl h
      · exact Or.inr (Or.inl h)
      · exact absurd h (switchSegments_ne_none cfg s b _)
      · exact Or.inr (Or.inr h)
    · intro hfresh hnb _ _
      rcases hwhy with h | h | h | h
      · exact absurd h hb.2.2
      · exact absurd h hnb
      · exact absurd h (switchSegments_ne_none cfg s b _)
      · have := ((addLink_exists_iff s.db b).mp h).2.2
        exact absurd (by simp [DB.link, hfresh]) this
  obtain ⟨hf, hadd⟩ := fresh_of_addLink s.db b hI.wf hb hex
  have hJ1 : ∀ (U : Id → Option Blk) (F : List Id), Inv2 U F s.db → U b.id = some b → Inv2 U F (appendBlk s.db b) := by
    intro U F hJ hbU
    apply inv2_append U F s.db hJ b hbU hf
    rintro ⟨e, he, hes⟩ hlow
    apply hnotdrop
    refine ⟨hlow, ?_⟩
    cases hls : s.lastSent with
    | some l => rfl
    | none =>
      have := (hI.topNone hls).2 e he
      rw [hes] at this; cases this
  have hal : afterLink s b = { s with db := appendBlk s.db b } := afterLink_eq s b hI.wf hb hex
  have hlibT : (afterLink s b).db.hasLIB = true := by rw [hal]; exact hasLIB_of_id _ hI.libNe
  rw [hpl, planLinked_hasLIB cfg _ b _ u rd j hlibT, hal]
  cases hc : computeLongestChain cfg { s with db := appendBlk s.db b } b with
  | none =>
    refine ⟨P, rfl, inv_afterLink s P b none hI hb hB hf ?_, Or.inl ⟨rfl, rfl⟩, fun U F _ hJ hbU => ⟨F, hJ1 U F hJ hbU⟩,
      Or.inr ⟨hf, _, SameBlks.refl _, Or.inl rfl⟩, ?_⟩
    · intro c cs h; cases h
    · rintro _ _ _ ⟨c, cs, h⟩; cases h
  | some lc =>
    obtain ⟨hp, hn, hfa, htop, hlast⟩ := compute_chain_path cfg s P b hI hb hB hf lc hc
    cases lc with
    | nil =>
      refine ⟨P, rfl, inv_afterLink s P b (some []) hI hb hB hf ?_, Or.inl ⟨rfl, rfl⟩, fun U F _ hJ hbU => ⟨F, hJ1 U F hJ hbU⟩,
        Or.inr ⟨hf, _, SameBlks.refl _, Or.inl rfl⟩, ?_⟩
      · intro c cs h; cases h
      · rintro _ _ _ ⟨c, cs, h⟩; cases h
    | cons c0 cs0 =>
      have hcok : CacheOK { s with db := appendBlk s.db b, cache := some (c0 :: cs0) } := by
        intro c cs h _
        simp only [Option.some.injEq] at h
        rw [← h]
        exact ⟨hp, hn, hfa⟩
      have hI1 := inv_afterLink s P b (some (c0 :: cs0)) hI hb hB hf hcok
      cases htr : triggers cfg s b with
      | false => exact ⟨P, rfl, hI1, Or.inl ⟨rfl, rfl⟩, fun U F _ hJ hbU => ⟨F, hJ1 U F hJ hbU⟩,
          Or.inr ⟨hf, _, SameBlks.refl _, Or.inl rfl⟩, fun _ _ h _ => by cases h⟩
      | true =>
        simp only [if_true]
        rw [htr] at hsw
        generalize hs3 : ({ s with db := appendBlk s.db b, cache := some (c0 :: cs0) } : FState) = s3 at hI1 hcok
        have hs3db : s3.db = appendBlk s.db b := by rw [← hs3]
        have hs3lib : s3.db.libRef = s.db.libRef := by rw [hs3db]; rfl
        obtain ⟨lcA, lcB, Pj, hlc, hPj, hredo, hA, hAs, hBs⟩ :=
          switch_decomp cfg hundo s P b hI hcl hf (c0 :: cs0) (by simp) hp hn htop u rd j hsw
        have hnd : ((lcA ++ lcB).map (·.blk.id)).Nodup := by rw [← hlc]; exact isPath_nodup _ _ _ hp hn
        have hpres : ∀ e ∈ lcA ++ lcB, (s3.db.find e.blk.id).isSome := by
          intro e he
          rw [hs3db]
          exact isPath_present _ _ _ hp e.blk.id (List.mem_map.mpr ⟨e, by rw [hlc]; exact he, rfl⟩)
        have hlinked : linkedBlks s3.db.libRef.id ((lcA ++ lcB).map (·.blk)) := by
          rw [← hlc, hs3lib]
          exact linked_of_path (appendBlk s.db b) _ _ hp hfa
        have hem := emit_run cfg hnew hundo s3 b lcA lcB u rd j P Pj hPj (by rw [hs3lib]; exact hredo) hA
          (by rw [hs3db]; exact hAs) (by rw [hs3db]; exact hBs) hlinked hnd hpres
        rw [hlc]
        obtain ⟨hef, hen, herun, hout⟩ := hem
        generalize hea : emitSwitch cfg s3 b (lcA ++ lcB) u rd j none = a at hef hen herun hout
        -- the new block is the last of the chain, and it is delivered
        rcases List.eq_nil_or_concat (c0 :: cs0) with hnil | ⟨lc0, eb, hlceb⟩
        · cases hnil
        rw [List.concat_eq_append] at hlceb
        have hebid : eb.blk.id = b.id := by
          rw [hlceb] at htop; simpa using htop
        have heblast := hlast eb (by rw [hlceb]; simp)
        have hebunsent : (fun (e : Entry) => !isSent s3.db e.blk.id) eb = true := by
          simp only [hs3db, hebid, isSent_append_self s.db b hf, Bool.not_false]
        have hlastSent : a.st.lastSent = some eb.blk := by
          rw [hout.last, ← hlc, hlceb, getLast_filter_of_last _ lc0 eb hebunsent]; rfl
        have hsame : SameBlks s3.db a.st.db := hout.same
        -- the invariant after the deliveries, with the whole chain pending
        have hI2 : Inv a.st ((lcA ++ lcB).map (·.blk.id)) := by
          refine ⟨by rw [hsame.1]; exact hI1.libNe, Forkable.SameBlks.wf hsame hI1.wf, Forkable.SameBlks.heights hsame hI1.heights,
            ?_, ?_, ?_, ?_, ?_, ?_, ?_, by rw [hout.seen, hsame.1]; exact hI1.seen⟩
          · rw [hsame.1, hsame.isPath, hs3lib, hs3db, ← hlc]; exact hp
          · rw [hsame.1, hs3lib, ← hlc]; exact hn
          · intro x hx
            obtain ⟨e, he, rfl⟩ := List.mem_map.mp hx
            exact hout.sentIn e he
          · intro l hl
            rw [hlastSent] at hl
            injection hl with hl
            rw [hsame.1, hs3lib, ← hlc, htop, ← hl, hebid]
          · intro hnone; rw [hlastSent] at hnone; cases hnone
          · intro c cs hcache _
            rw [hout.cache, ← hs3] at hcache
            simp only [Option.some.injEq] at hcache
            rw [← hcache, hsame.1, hs3lib]
            refine ⟨?_, hn, ?_⟩
            · rw [hsame.isPath, hs3db]; exact hp
            · exact faithful_same hsame _ (by rw [hs3db]; exact hfa)
          · intro i n hin
            rw [hsame.2.2, hs3db] at hin
            exact hI.initOk i n hin
        have hcr : ∀ c cs, a.st.cache = some (c :: cs) → c.blk.parent = a.st.db.libRef.id := by
          intro c cs hcache
          rw [hout.cache, ← hs3] at hcache
          simp only [Option.some.injEq, List.cons.injEq] at hcache
          rw [hsame.1, hs3lib, ← hcache.1]
          obtain ⟨e0, h0, h1, _⟩ := hfa c0 (by simp)
          rw [← h1, ← link_of_find _ _ e0 h0]
          exact hp.1
        have hlibok : ∀ e, a.st.db.find (a.st.db.blockInChain eb.blk.ref eb.blk.lib).id = some e →
            e.blk.num = (a.st.db.blockInChain eb.blk.ref eb.blk.lib).num := by
          intro e he
          rw [hsame.blockInChain, hs3db, heblast.1, heblast.2] at he ⊢
          have hfb := hsame.find_blk ((appendBlk s.db b).blockInChain b.ref b.lib).id
          rw [he, hs3db] at hfb
          cases hfe : (appendBlk s.db b).find ((appendBlk s.db b).blockInChain b.ref b.lib).id with
          | none => rw [hfe] at hfb; simp at hfb
          | some e1 =>
            rw [hfe] at hfb
            simp only [Option.map_some, Option.some.injEq] at hfb
            rw [hfb]; exact hL e1 hfe
        obtain ⟨haf, han, t, Q', hevs, hrun, hI3, hdbcase⟩ :=
          advance_inv cfg hirr a hef hen b _ hI2 eb.blk hlastSent hcr hlibok
        have hmoved : (advanceAcc cfg a b none).st.lastSent = some eb.blk := by
          rw [advanceAcc_lastSent]; exact hlastSent
        have hlibmove : InitNumOK s.db → ∀ (ids : List Id) (x : Id) (ex : Entry),
            IsPath (appendBlk s.db b) s.db.libRef.id ids → s.db.libRef.id ∉ ids → topOf s.db.libRef.id ids = b.id →
            x ∈ ids → x ≠ b.id → (appendBlk s.db b).find x = some ex → ex.blk.num = b.lib →
            (advanceAcc cfg a b none).st.db.libRef = ⟨x, b.lib⟩ := by
          intro hinit ids x ex hpi hni htopi hxin hxb hfx hexn
          have hh1 := heights_append s.db b hI.heights hb hB
          obtain ⟨pre, post, hsplit⟩ := List.append_of_mem hxin
          have hsplit' : ids = (pre ++ [x]) ++ post := by rw [hsplit]; simp
          have hpne : post ≠ [] := by
            intro h0; subst h0
            rw [hsplit'] at htopi; simp at htopi; exact hxb htopi
          have hpp := hpi
          rw [hsplit', isPath_append] at hpp
          simp only [topOf_append_singleton] at hpp
          have hnd := isPath_nodup _ _ _ hpi hni
          have hxpost : x ∉ post := by
            rw [hsplit] at hnd
            exact (List.nodup_cons.mp (List.nodup_append.mp hnd).2.1).1
          have htop2 : topOf x post = b.id := by
            rw [← htopi, hsplit', topOf_append]; simp
          have hbpost : b.id ∈ post := by
            rcases topOf_mem x post with h | h
            · rw [htop2] at h; exact absurd h.symm hxb
            · rw [htop2] at h; exact h
          have hself := find_append_self s.db b hf
          have hxlow : ex.blk.num < b.num := by
            have := heights_path (appendBlk s.db b) hh1 x ex.blk.num post hpp.2
              (fun e he hpar => hh1.1 e he ex (find_mem _ x ex hfx) (by rw [hpar, find_id _ x ex hfx])) b.id hbpost
              ⟨b, false⟩ hself
            exact this
          have hbic : (appendBlk s.db b).blockInChain b.ref ex.blk.num = ⟨x, ex.blk.num⟩ :=
            blockInChain_complete (appendBlk s.db b) hh1 x ex hfx post hpp.2 hpne
              (isPath_length_le _ x post hpp.2 hxpost) b.ref (by rw [htop2]; rfl) (by show b.num ≠ ex.blk.num; omega)
          have hRa : a.st.db.blockInChain eb.blk.ref eb.blk.lib = ⟨x, b.lib⟩ := by
            rw [hsame.blockInChain, hs3db, heblast.1, heblast.2, ← hexn]; exact hbic
          have hpa : IsPath a.st.db a.st.db.libRef.id (pre ++ [x]) := by
            rw [hsame.isPath, hsame.1, hs3lib, hs3db]; exact hpp.1
          have hna : a.st.db.libRef.id ∉ pre ++ [x] := by
            rw [hsame.1, hs3lib]; intro hm; exact hni (by rw [hsplit']; exact List.mem_append_left _ hm)
          have hia : InitNumOK a.st.db := by
            intro i n hin hid
            rw [hsame.2.2, hs3db] at hin
            rw [hsame.1, hs3lib] at hid ⊢
            exact hinit i n hin hid
          have hnumx : b.lib = a.st.db.numOf x := by
            have hfb := hsame.find_blk x
            rw [hs3db, hfx] at hfb
            cases hfa' : a.st.db.find x with
            | none => rw [hfa'] at hfb; simp at hfb
            | some e1 =>
              rw [hfa'] at hfb
              simp only [Option.map_some, Option.some.injEq] at hfb
              rw [numOf_of_find _ _ _ hfa', hfb, hexn]
          have hnewa := hasNew_complete a.st.db (Forkable.SameBlks.heights hsame hI1.heights) hia cfg.fsb pre x hpa hna
            ⟨x, b.lib⟩ rfl hnumx
          have hxne : x ≠ "" := by
            intro h0
            have := wf_path_ne _ (inv_afterLink s P b none hI hb hB hf (by intro c cs h; cases h)).wf _ ids (by
              show IsPath (appendBlk s.db b) s.db.libRef.id ids; exact hpi)
            exact this (h0 ▸ hxin)
          exact advanceAcc_moves cfg a b hef eb.blk hlastSent (hasLIB_of_id _ (by rw [hsame.1, hs3lib]; exact hI.libNe))
            ⟨x, b.lib⟩ hRa hxne hnewa
        refine ⟨Q', ?_, hI3, Or.inr ⟨hf, (by first | rfl | trivial), eb.blk, ?_, heblast.1⟩, ?_, ?_,
          fun _ _ _ _ => ⟨⟨eb.blk, hmoved, heblast.1⟩, hlibmove⟩⟩
        · show (⟨s.db.libRef.id, P⟩ : CS).run (finish (advanceAcc cfg a b none)).2.1 = _
          have : (finish (advanceAcc cfg a b none)).2.1 = a.evs ++ t := hevs
          rw [this, run_append, ← hs3lib, herun]
          simp only [Option.bind_some]
          rw [← hsame.1]
          exact hrun
        · show (advanceAcc cfg a b none).st.lastSent = some eb.blk
          rw [advanceAcc_lastSent]; exact hlastSent
        · intro U F hU hJ hbU
          show ∃ F', Inv2 U F' (advanceAcc cfg a b none).st.db
          have hJ2 : Inv2 U F a.st.db := by
            apply inv2_sent U F s3.db a.st.db hI1.wf (by rw [hs3db]; exact hJ1 U F hJ hbU) hsame
              ((lcA ++ lcB).map (·.blk.id))
            · rw [hs3lib, hs3db, ← hlc]; exact hp
            · intro x hx
              obtain ⟨e, he, rfl⟩ := List.mem_map.mp hx
              exact hout.sentIn e he
            · exact hout.sentOut
          rcases hdbcase with hsame' | ⟨R, er, hdb', hfer, hnumR, hup⟩
          · exact ⟨F, by rw [hsame']; exact hJ2⟩
          · exact ⟨F ++ [R.id], by rw [hdb']; exact inv2_movePurge U hU F a.st.db hI2.wf hJ2 R cfg.kept er hfer hnumR hup⟩
        · show DbShape cfg s b (finish (advanceAcc cfg a b none)).1
          refine Or.inr ⟨hf, a.st.db, by rw [← hs3db]; exact hsame, ?_⟩
          rcases hdbcase with hsame' | ⟨R, er, hdb', hfer, hnumR, hup⟩
          · exact Or.inl hsame'
          · exact Or.inr ⟨R, er, hdb', hfer, hnumR, hup⟩

/-- the facts `processBlock_step` establishes about the state right after the deliveries of a chain switch, before
    the LIB advance (exported for the retention-independence proof, which runs two forkables side by side) -/
theorem switch_emit_facts (cfg : Config) (hnew : cfg.matches .new = true) (hundo : cfg.matches .undo = true)
    (s : FState) (P : List Id) (b : Blk) (hI : Inv s P) (hcl : SentClosed s.db) (hb : WFin b) (hB : HB s.db b)
    (hL : LibDeclOK s.db b) (hf : s.db.find b.id = none) (c0 : Entry) (cs0 : List Entry)
    (hc : computeLongestChain cfg { s with db := appendBlk s.db b } b = some (c0 :: cs0))
    (u rd : List Entry) (j : Option Ref) (hsw : switchSegments cfg s b true = some (u, rd, j)) :
    Inv (emitSwitch cfg { s with db := appendBlk s.db b, cache := some (c0 :: cs0) } b (c0 :: cs0) u rd j none).st
        ((c0 :: cs0).map (·.blk.id)) ∧
    (∃ eb : Entry, (emitSwitch cfg { s with db := appendBlk s.db b, cache := some (c0 :: cs0) } b (c0 :: cs0) u rd j none).st.lastSent
        = some eb.blk ∧ eb.blk.ref = b.ref ∧ eb.blk.lib = b.lib) ∧
    SameBlks (appendBlk s.db b)
      (emitSwitch cfg { s with db := appendBlk s.db b, cache := some (c0 :: cs0) } b (c0 :: cs0) u rd j none).st.db ∧
    (∀ e, (emitSwitch cfg { s with db := appendBlk s.db b, cache := some (c0 :: cs0) } b (c0 :: cs0) u rd j none).st.db.find
        ((emitSwitch cfg { s with db := appendBlk s.db b, cache := some (c0 :: cs0) } b (c0 :: cs0) u rd j none).st.db.blockInChain b.ref b.lib).id = some e →
      e.blk.num = ((emitSwitch cfg { s with db := appendBlk s.db b, cache := some (c0 :: cs0) } b (c0 :: cs0) u rd j none).st.db.blockInChain b.ref b.lib).num) ∧
    IsPath (appendBlk s.db b) s.db.libRef.id ((c0 :: cs0).map (·.blk.id)) ∧
    s.db.libRef.id ∉ (c0 :: cs0).map (·.blk.id) ∧ topOf s.db.libRef.id ((c0 :: cs0).map (·.blk.id)) = b.id := by
  obtain ⟨hp, hn, hfa, htop, hlast⟩ := compute_chain_path cfg s P b hI hb hB hf (c0 :: cs0) hc
  have hcok : CacheOK { s with db := appendBlk s.db b, cache := some (c0 :: cs0) } := by
    intro c cs h _
    simp only [Option.some.injEq] at h
    rw [← h]
    exact ⟨hp, hn, hfa⟩
  have hI1 := inv_afterLink s P b (some (c0 :: cs0)) hI hb hB hf hcok
  generalize hs3 : ({ s with db := appendBlk s.db b, cache := some (c0 :: cs0) } : FState) = s3 at hI1 hcok ⊢
  have hs3db : s3.db = appendBlk s.db b := by rw [← hs3]
  have hs3lib : s3.db.libRef = s.db.libRef := by rw [hs3db]; rfl
  obtain ⟨lcA, lcB, Pj, hlc, hPj, hredo, hA, hAs, hBs⟩ :=
    switch_decomp cfg hundo s P b hI hcl hf (c0 :: cs0) (by simp) hp hn htop u rd j hsw
  have hnd : ((lcA ++ lcB).map (·.blk.id)).Nodup := by rw [← hlc]; exact isPath_nodup _ _ _ hp hn
  have hpres : ∀ e ∈ lcA ++ lcB, (s3.db.find e.blk.id).isSome := by
    intro e he
    rw [hs3db]
    exact isPath_present _ _ _ hp e.blk.id (List.mem_map.mpr ⟨e, by rw [hlc]; exact he, rfl⟩)
  have hlinked : linkedBlks s3.db.libRef.id ((lcA ++ lcB).map (·.blk)) := by
    rw [← hlc, hs3lib]
    exact linked_of_path (appendBlk s.db b) _ _ hp hfa
  have hem := emit_run cfg hnew hundo s3 b lcA lcB u rd j P Pj hPj (by rw [hs3lib]; exact hredo) hA
    (by rw [hs3db]; exact hAs) (by rw [hs3db]; exact hBs) hlinked hnd hpres
  rw [hlc]
  rw [hlc] at hp hn htop hlast hfa
  obtain ⟨hef, hen, herun, hout⟩ := hem
  generalize hea : emitSwitch cfg s3 b (lcA ++ lcB) u rd j none = a at hef hen herun hout
  rcases List.eq_nil_or_concat (lcA ++ lcB) with hnil | ⟨lc0, eb, hlceb⟩
  · rw [← hlc] at hnil; cases hnil
  rw [List.concat_eq_append] at hlceb
  have hebid : eb.blk.id = b.id := by
    rw [hlceb] at htop; simpa using htop
  have heblast := hlast eb (by rw [hlceb]; simp)
  have hebunsent : (fun (e : Entry) => !isSent s3.db e.blk.id) eb = true := by
    simp only [hs3db, hebid, isSent_append_self s.db b hf, Bool.not_false]
  have hlastSent : a.st.lastSent = some eb.blk := by
    rw [hout.last, hlceb, getLast_filter_of_last _ lc0 eb hebunsent]; rfl
  have hsame : SameBlks s3.db a.st.db := hout.same
  have hI2 : Inv a.st ((lcA ++ lcB).map (·.blk.id)) := by
    refine ⟨by rw [hsame.1]; exact hI1.libNe, Forkable.SameBlks.wf hsame hI1.wf, Forkable.SameBlks.heights hsame hI1.heights,
      ?_, ?_, ?_, ?_, ?_, ?_, ?_, by rw [hout.seen, hsame.1]; exact hI1.seen⟩
    · rw [hsame.1, hsame.isPath, hs3lib, hs3db]; exact hp
    · rw [hsame.1, hs3lib]; exact hn
    · intro x hx
      obtain ⟨e, he, rfl⟩ := List.mem_map.mp hx
      exact hout.sentIn e he
    · intro l hl
      rw [hlastSent] at hl
      injection hl with hl
      rw [hsame.1, hs3lib, htop, ← hl, hebid]
    · intro hnone; rw [hlastSent] at hnone; cases hnone
    · intro c cs hcache _
      rw [hout.cache, ← hs3] at hcache
      simp only [Option.some.injEq] at hcache
      rw [← hcache, hlc, hsame.1, hs3lib]
      refine ⟨?_, hn, ?_⟩
      · rw [hsame.isPath, hs3db]; exact hp
      · exact faithful_same hsame _ (by rw [hs3db]; exact hfa)
    · intro i n hin
      rw [hsame.2.2, hs3db] at hin
      exact hI.initOk i n hin
  have hlibok : ∀ e, a.st.db.find (a.st.db.blockInChain b.ref b.lib).id = some e →
      e.blk.num = (a.st.db.blockInChain b.ref b.lib).num := by
    intro e he
    rw [hsame.blockInChain, hs3db] at he ⊢
    have hfb := hsame.find_blk ((appendBlk s.db b).blockInChain b.ref b.lib).id
    rw [he, hs3db] at hfb
    cases hfe : (appendBlk s.db b).find ((appendBlk s.db b).blockInChain b.ref b.lib).id with
    | none => rw [hfe] at hfb; simp at hfb
    | some e1 =>
      rw [hfe] at hfb
      simp only [Option.map_some, Option.some.injEq] at hfb
      rw [hfb]; exact hL e1 hfe
  exact ⟨hI2, ⟨eb, hlastSent, heblast.1, heblast.2⟩, by rw [← hs3db]; exact hsame, hlibok, hp, hn, htop⟩

end BstreamVerif.Forkable
