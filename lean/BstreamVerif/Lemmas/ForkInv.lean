import BstreamVerif.Lemmas.PlanInv
import BstreamVerif.Lemmas.SwitchShape
import BstreamVerif.Lemmas.ListAux
/-!
The invariant that ties the fork-aware buffer to a push/pop consumer, and its preservation.
-/
namespace BstreamVerif.Forkable
open BstreamVerif BstreamVerif.ForkDB

/-- an incoming block as the chain produces it -/
def WFin (b : Blk) : Prop := b.id ≠ "" ∧ b.parent ≠ "" ∧ b.id ≠ b.parent

/-- the incoming block's height is consistent with the stored blocks and the LIB reference -/
def HB (db : DB) (b : Blk) : Prop :=
  (∀ p ∈ db.entries, b.parent = p.blk.id → p.blk.num < b.num) ∧
  (∀ e ∈ db.entries, e.blk.parent = b.id → b.num < e.blk.num) ∧
  (b.parent = db.libRef.id → db.libRef.num < b.num) ∧
  (b.id = db.libRef.id → b.num = db.libRef.num)

/-- delivered blocks are delivered together with their ancestors: on a path resting on the LIB a sent block has
    only sent blocks below it -/
def SentClosed (db : DB) : Prop :=
  ∀ ids x, IsPath db db.libRef.id (ids ++ [x]) → db.libRef.id ∉ ids ++ [x] → isSent db x = true →
    ∀ y ∈ ids, isSent db y = true

/-- copies of stored entries that agree with the buffer on the parent -/
def Faithful (db : DB) (l : List Entry) : Prop :=
  ∀ e ∈ l, ∃ e0, db.find e.blk.id = some e0 ∧ e0.blk.parent = e.blk.parent ∧ e0.blk.num = e.blk.num

def CacheOK (s : FState) : Prop :=
  ∀ c cs, s.cache = some (c :: cs) → s.db.libRef.id = c.blk.parent →
    IsPath s.db s.db.libRef.id ((c :: cs).map (·.blk.id)) ∧ s.db.libRef.id ∉ (c :: cs).map (·.blk.id) ∧
    Faithful s.db (c :: cs)

/-- the consumer's pending list `P` is the chain from the LIB (exclusive) to the last block sent -/
structure Inv (s : FState) (P : List Id) : Prop where
  libNe : s.db.libRef.id ≠ ""
  wf : WfEntries s.db
  heights : Heights s.db
  path : IsPath s.db s.db.libRef.id P
  libNotin : s.db.libRef.id ∉ P
  pSent : ∀ x ∈ P, isSent s.db x = true
  topSome : ∀ l, s.lastSent = some l → topOf s.db.libRef.id P = l.id
  topNone : s.lastSent = none → P = [] ∧ ∀ e ∈ s.db.entries, e.sent = false
  cache : CacheOK s
  initOk : ∀ i n, s.db.initNum = some (i, n) → i ≠ ""
  /-- the last LIB announced to the handler, once there is one, is the buffer's LIB -/
  seen : s.lastLIBSeen = Ref.empty ∨ s.lastLIBSeen = s.db.libRef

theorem numOf_empty (db : DB) (hw : WfEntries db) (hi : ∀ i n, db.initNum = some (i, n) → i ≠ "") :
    db.numOf? "" = none := by
  unfold DB.numOf?
  cases hf : db.find "" with
  | some e => exact absurd (find_id db "" e hf) (hw.1 e (find_mem db "" e hf)).2.1
  | none =>
    simp only
    cases hin : db.initNum with
    | none => rfl
    | some p =>
      obtain ⟨i, n⟩ := p
      have := hi i n hin
      simp [this]

/-! ### transport along buffers with the same blocks -/

theorem SameBlks.wf {db db' : DB} (h : SameBlks db db') (hw : WfEntries db) : WfEntries db' := by
  refine ⟨?_, ?_⟩
  · intro e he
    obtain ⟨e0, h0, h1⟩ := h.mem_blk e he
    rw [← h1]; exact hw.1 e0 h0
  · have : db'.entries.map (·.blk.id) = (db'.entries.map (·.blk)).map (·.id) := by simp
    rw [this, h.2.1]
    have : (db.entries.map (·.blk)).map (·.id) = db.entries.map (·.blk.id) := by simp
    rw [this]; exact hw.2

theorem SameBlks.symm {db db' : DB} (h : SameBlks db db') : SameBlks db' db := ⟨h.1.symm, h.2.1.symm, h.2.2.symm⟩

theorem SameBlks.heights {db db' : DB} (h : SameBlks db db') (hh : Heights db) : Heights db' := by
  refine ⟨?_, ?_, ?_⟩
  · intro e he p hp hpar
    obtain ⟨e0, h0, h1⟩ := h.mem_blk e he
    obtain ⟨p0, g0, g1⟩ := h.mem_blk p hp
    rw [← h1, ← g1]; exact hh.1 e0 h0 p0 g0 (by rw [h1, g1]; exact hpar)
  · intro e he hpar
    obtain ⟨e0, h0, h1⟩ := h.mem_blk e he
    rw [h.1, ← h1]; exact hh.2.1 e0 h0 (by rw [h1, ← h.1]; exact hpar)
  · intro e he hid
    obtain ⟨e0, h0, h1⟩ := h.mem_blk e he
    rw [h.1, ← h1]; exact hh.2.2 e0 h0 (by rw [h1, ← h.1]; exact hid)

/-! ### adding a block that is not stored -/


theorem wf_append (db : DB) (b : Blk) (hw : WfEntries db) (hb : WFin b) (hf : db.find b.id = none) :
    WfEntries (appendBlk db b) := by
  refine ⟨?_, ?_⟩
  · intro e he
    simp only [appendBlk, List.mem_append, List.mem_singleton] at he
    rcases he with he | rfl
    · exact hw.1 e he
    · exact ⟨hb.2.1, hb.1, hb.2.2⟩
  · simp only [appendBlk, List.map_append, List.map_cons, List.map_nil]
    rw [List.nodup_append]
    refine ⟨hw.2, by simp, ?_⟩
    intro a ha c hc
    simp only [List.mem_singleton] at hc
    subst hc
    intro hac
    obtain ⟨e, he, hid⟩ := List.mem_map.mp ha
    have := find_of_mem db hw e he
    rw [hid, hac, hf] at this
    cases this

theorem heights_append (db : DB) (b : Blk) (hh : Heights db) (hb : WFin b) (hB : HB db b) : Heights (appendBlk db b) := by
  refine ⟨?_, ?_, ?_⟩
  · intro e he p hp hpar
    simp only [appendBlk, List.mem_append, List.mem_singleton] at he hp
    rcases he with he | rfl <;> rcases hp with hp | rfl
    · exact hh.1 e he p hp hpar
    · exact hB.2.1 e he hpar
    · exact hB.1 p hp hpar
    · exact absurd hpar.symm hb.2.2
  · intro e he hpar
    simp only [appendBlk, List.mem_append, List.mem_singleton] at he
    rcases he with he | rfl
    · exact hh.2.1 e he hpar
    · exact hB.2.2.1 hpar
  · intro e he hid
    simp only [appendBlk, List.mem_append, List.mem_singleton] at he
    rcases he with he | rfl
    · exact hh.2.2 e he hid
    · exact hB.2.2.2 hid

theorem isSent_append_other (db : DB) (b : Blk) (x : Id) (hx : x ≠ b.id) : isSent (appendBlk db b) x = isSent db x := by
  unfold isSent appendBlk; rw [find_append_other db b x hx]

theorem isSent_append_self (db : DB) (b : Blk) (hf : db.find b.id = none) : isSent (appendBlk db b) b.id = false := by
  unfold isSent appendBlk; rw [find_append_self db b hf]; rfl

/-- a block for which AddLink reports "not stored" really is not stored (all stored parents are non-empty) -/
theorem fresh_of_addLink (db : DB) (b : Blk) (hw : WfEntries db) (hb : WFin b) (h : (db.addLink b).2 = false) :
    db.find b.id = none ∧ (db.addLink b).1 = appendBlk db b := by
  have hl : db.link b.id = "" := by
    by_cases hc : db.link b.id = ""
    · exact hc
    · have := (addLink_exists_iff db b).mpr ⟨hb.2.2, hb.1, hc⟩
      rw [h] at this; cases this
  have hf := wf_find_none_of_link db hw b.id hl
  refine ⟨hf, ?_⟩
  rw [addLink_fresh db b hb.1 hb.2.2 hf]; rfl


theorem afterLink_eq (s : FState) (b : Blk) (hw : WfEntries s.db) (hb : WFin b) (h : (s.db.addLink b).2 = false) :
    afterLink s b = { s with db := appendBlk s.db b } := by
  unfold afterLink; rw [(fresh_of_addLink s.db b hw hb h).2]

theorem faithful_append (db : DB) (b : Blk) (l : List Entry) (h : Faithful db l) (hf : db.find b.id = none) :
    Faithful (appendBlk db b) l := by
  intro e he
  obtain ⟨e0, h0, h1⟩ := h e he
  have : e.blk.id ≠ b.id := by intro hc; rw [hc, hf] at h0; cases h0
  exact ⟨e0, by unfold appendBlk; rw [find_append_other db b _ this]; exact h0, h1⟩

/-- the chain computed for a newly linked block is the path from the LIB to that block -/
theorem compute_chain_path (cfg : Config) (s : FState) (P : List Id) (b : Blk) (hI : Inv s P) (hb : WFin b)
    (hB : HB s.db b) (hf : s.db.find b.id = none) (lc : List Entry)
    (hc : computeLongestChain cfg { s with db := appendBlk s.db b } b = some lc) :
    IsPath (appendBlk s.db b) s.db.libRef.id (lc.map (·.blk.id)) ∧ s.db.libRef.id ∉ lc.map (·.blk.id) ∧
    Faithful (appendBlk s.db b) lc ∧ topOf s.db.libRef.id (lc.map (·.blk.id)) = b.id ∧
    (∀ x, lc.getLast? = some x → x.blk.ref = b.ref ∧ x.blk.lib = b.lib) := by
  rcases computeLongestChain_cases cfg { s with db := appendBlk s.db b } b with ⟨c, cs, hcache, hpar, hlibc, hres⟩ | hres
  · -- the cached chain is extended
    rw [hres] at hc
    injection hc with hc
    subst hc
    have hlibeq : (appendBlk s.db b).libRef.id = s.db.libRef.id := rfl
    simp only at hcache hlibc
    rw [hlibeq] at hlibc
    obtain ⟨hp, hn, hfa⟩ := hI.cache c cs hcache hlibc
    have htop : topOf s.db.libRef.id ((c :: cs).map (·.blk.id)) = b.parent := by
      unfold topOf
      rw [List.getLast?_map]
      rw [hpar]
      cases hg : (c :: cs).getLast? with
      | none => simp at hg
      | some z => simp
    have hself := find_append_self s.db b hf
    refine ⟨?_, ?_, ?_, by simp, by
      intro x hx
      rw [show (c :: cs ++ [(⟨b, false⟩ : Entry)]) = (c :: cs) ++ [⟨b, false⟩] from rfl, List.getLast?_append] at hx
      simp at hx; subst hx; exact ⟨rfl, rfl⟩⟩
    · rw [List.map_append, isPath_append]
      refine ⟨isPath_append_entry s.db b _ _ hp hf, ?_⟩
      simp only [List.map_cons, List.map_nil, IsPath, and_true]
      refine ⟨?_, by unfold appendBlk; rw [hself]; rfl⟩
      unfold DB.link appendBlk; rw [hself]; exact htop.symm
    · simp only [List.map_append, List.mem_append, not_or]
      refine ⟨hn, ?_⟩
      simp only [List.map_cons, List.map_nil, List.mem_singleton]
      intro hlb
      -- b would be the LIB itself while resting on a descendant of the LIB
      have hmem : b.parent ∈ (c :: cs).map (·.blk.id) := by
        rw [← htop]; exact topOf_cons_mem _ _ _
      have hpres := isPath_present s.db _ _ hp b.parent hmem
      cases hfp : s.db.find b.parent with
      | none => rw [hfp] at hpres; cases hpres
      | some ep =>
        have h1 := heights_path s.db hI.heights _ s.db.libRef.num _ hp hI.heights.2.1 b.parent hmem ep hfp
        have h2 := hB.1 ep (find_mem _ _ _ hfp) (find_id _ _ _ hfp).symm
        have h3 := hB.2.2.2 hlb.symm
        omega
    · intro e he
      simp only [List.mem_append, List.mem_singleton] at he
      rcases he with he | rfl
      · exact faithful_append s.db b _ hfa hf e he
      · exact ⟨⟨b, false⟩, hself, rfl, rfl⟩
  · -- ReversibleSegment from the new block
    rw [hres] at hc
    cases hr : (appendBlk s.db b).reversibleSegment cfg.fsb b.ref with
    | mk l r =>
      simp only at hc
      rw [hr] at hc
      simp only at hc
      subst hc
      have hl : (appendBlk s.db b).hasLIB = true := hasLIB_of_id _ hI.libNe
      have hr' : r = true := revSegAux_reach _ _ _ _ _ _ _ _ hl hr
      subst hr'
      obtain ⟨h1, h2, h3, h4, h5⟩ := reversibleSegment_sound _ _ _ _ hr
      refine ⟨h1, ?_, ?_, h2, ?_⟩
      · intro hm
        obtain ⟨x, hx, hxe⟩ := List.mem_map.mp hm
        exact h3 x hx hxe
      · intro e he
        obtain ⟨e0, g1, g2, _⟩ := h5 e he
        obtain ⟨e1, k1, k2⟩ := reversibleSegment_nums _ _ _ _ _ hr (by
          intro eb heb
          rw [show (appendBlk s.db b).find b.ref.id = some ⟨b, false⟩ from find_append_self s.db b hf] at heb
          injection heb with heb; subst heb; rfl) e he
        rw [g1] at k1; injection k1 with k1; subst k1
        exact ⟨e0, g1, g2, k2⟩
      · intro x hx
        have hxm : x ∈ lc := List.mem_of_getLast? hx
        obtain ⟨e0, g1, _, _, _, g5⟩ := h5 x hxm
        have hxr := h4 x hx
        refine ⟨hxr, ?_⟩
        have hxid : x.blk.id = b.id := by
          have := congrArg Ref.id hxr; simpa [Blk.ref] using this
        rw [hxid, show (appendBlk s.db b).find b.id = some ⟨b, false⟩ from find_append_self s.db b hf] at g1
        injection g1 with g1
        rw [← g5, ← g1]


/-! ### the deliveries of one chain switch -/

theorem linkedBlks_append (bottom : Id) (l1 l2 : List Blk) :
    linkedBlks bottom (l1 ++ l2) ↔ linkedBlks bottom l1 ∧ linkedBlks (topOf bottom (l1.map (·.id))) l2 := by
  induction l1 generalizing bottom with
  | nil => simp [linkedBlks]
  | cons b r ih => simp only [List.cons_append, linkedBlks, List.map_cons, topOf_cons, ih, and_assoc]

/-- entries that agree with the buffer on the parent and whose ids form a path are parent-linked -/
theorem linked_of_path (db : DB) (bottom : Id) (l : List Entry) (hp : IsPath db bottom (l.map (·.blk.id)))
    (hf : Faithful db l) : linkedBlks bottom (l.map (·.blk)) := by
  induction l generalizing bottom with
  | nil => trivial
  | cons e r ih =>
    simp only [List.map_cons, IsPath] at hp
    refine ⟨?_, ih e.blk.id hp.2.2 (fun x hx => hf x (by simp [hx]))⟩
    obtain ⟨e0, h0, h1, _⟩ := hf e (by simp)
    rw [← h1, ← link_of_find db _ e0 h0]; exact hp.1

theorem filter_unsent_split (db : DB) (lcA lcB : List Entry) (hA : ∀ e ∈ lcA, isSent db e.blk.id = true)
    (hB : ∀ e ∈ lcB, isSent db e.blk.id = false) :
    (lcA ++ lcB).filter (fun e => !isSent db e.blk.id) = lcB := by
  rw [List.filter_append]
  have h1 : lcA.filter (fun e => !isSent db e.blk.id) = [] := by
    rw [List.filter_eq_nil_iff]; intro e he; simp [hA e he]
  have h2 : lcB.filter (fun e => !isSent db e.blk.id) = lcB := by
    rw [List.filter_eq_self]; intro e he; simp [hB e he]
  rw [h1, h2]; rfl

/-- the state after the deliveries of a chain switch over chain `lc` -/
structure StOut (s3 st : FState) (lc : List Entry) : Prop where
  same : SameBlks s3.db st.db
  sentIn : ∀ e ∈ lc, isSent st.db e.blk.id = true
  sentOut : ∀ x, x ∉ lc.map (·.blk.id) → isSent st.db x = isSent s3.db x
  last : st.lastSent = (((lc.filter (fun e => !isSent s3.db e.blk.id)).getLast?).map (·.blk)).or s3.lastSent
  seen : st.lastLIBSeen = s3.lastLIBSeen
  incl : st.includeInit = s3.includeInit
  cache : st.cache = s3.cache

/-- **one chain switch, seen by the consumer**: undo the old branch down to the junction, re-deliver the part of
    the new branch that was delivered before, deliver the rest -/
theorem emit_run (cfg : Config) (hnew : cfg.matches .new = true) (hundo : cfg.matches .undo = true)
    (s3 : FState) (b : Blk) (lcA lcB undos redos : List Entry) (junction : Option Ref) (P Pj : List Id)
    (hP : P = Pj ++ (undos.map (·.blk.id)).reverse)
    (hredo : linkedBlks (topOf s3.db.libRef.id Pj) (redos.map (·.blk)))
    (hA : lcA.map (·.blk.id) = Pj ++ redos.map (·.blk.id))
    (hAs : ∀ e ∈ lcA, isSent s3.db e.blk.id = true) (hBs : ∀ e ∈ lcB, isSent s3.db e.blk.id = false)
    (hlinked : linkedBlks s3.db.libRef.id ((lcA ++ lcB).map (·.blk)))
    (hnd : ((lcA ++ lcB).map (·.blk.id)).Nodup) (hpres : ∀ e ∈ lcA ++ lcB, (s3.db.find e.blk.id).isSome) :
    (emitSwitch cfg s3 b (lcA ++ lcB) undos redos junction none).failed = false ∧
    (emitSwitch cfg s3 b (lcA ++ lcB) undos redos junction none).failAt = none ∧
    (⟨s3.db.libRef.id, P⟩ : CS).run (emitSwitch cfg s3 b (lcA ++ lcB) undos redos junction none).evs =
      some ⟨s3.db.libRef.id, (lcA ++ lcB).map (·.blk.id)⟩ ∧
    StOut s3 (emitSwitch cfg s3 b (lcA ++ lcB) undos redos junction none).st (lcA ++ lcB) := by
  unfold emitSwitch
  simp only [hnew, hundo, if_true]
  have p1 := phase_nofail ⟨s3, [], none, false⟩ (mkEvents .undo undos b.ref (cursorLIB s3) junction) ⟨rfl, rfl⟩
  have p2 := phase_nofail _ (mkEvents .new redos b.ref (cursorLIB s3) none) ⟨p1.1, p1.2.1⟩
  generalize ha2 : phase (phase ⟨s3, [], none, false⟩ (mkEvents .undo undos b.ref (cursorLIB s3) junction))
    (mkEvents .new redos b.ref (cursorLIB s3) none) = a2 at p2
  have hst : a2.st = s3 := by rw [p2.2.2.2, p1.2.2.2]
  have hevs : a2.evs = mkEvents .undo undos b.ref (cursorLIB s3) junction ++ mkEvents .new redos b.ref (cursorLIB s3) none := by
    rw [p2.2.2.1, p1.2.2.1]; rfl
  have hno := foldl_newStep_char cfg hnew (((lcA ++ lcB).getLast?.map (·.blk.ref)).getD Ref.empty) (lcA ++ lcB) a2
    p2.1 p2.2.1 hnd (by rw [hst]; exact hpres)
  unfold processNew
  refine ⟨hno.failed, hno.failAt, ?_, ?_⟩
  · unfold CS.run
    rw [hno.evs, hst, filter_unsent_split s3.db lcA lcB hAs hBs, hevs, List.map_append, mkEvents_sb, mkEvents_sb]
    rw [runSB_append, runSB_append]
    have e1 : undos.map (fun e => (Step.undo, e.blk)) = (undos.map (·.blk)).map (fun b => (Step.undo, b)) := by simp
    have e2 : redos.map (fun e => (Step.new, e.blk)) = (redos.map (·.blk)).map (fun b => (Step.new, b)) := by simp
    have e3 : lcB.map (fun e => (Step.new, e.blk)) = (lcB.map (·.blk)).map (fun b => (Step.new, b)) := by simp
    have hP' : P = Pj ++ ((undos.map (·.blk)).map (·.id)).reverse := by rw [hP]; simp
    rw [e1, hP', runSB_undos]
    simp only [Option.bind_some]
    rw [e2, runSB_news _ _ _ hredo]
    simp only [Option.bind_some]
    have hl2 : linkedBlks (topOf s3.db.libRef.id (Pj ++ (redos.map (·.blk)).map (·.id))) (lcB.map (·.blk)) := by
      rw [List.map_append, linkedBlks_append] at hlinked
      have := hlinked.2
      have hA' : (lcA.map (·.blk)).map (·.id) = Pj ++ (redos.map (·.blk)).map (·.id) := by
        have : (lcA.map (·.blk)).map (·.id) = lcA.map (·.blk.id) := by simp
        rw [this, hA]; simp
      rw [hA'] at this
      exact this
    rw [e3, runSB_news _ _ _ hl2]
    simp only [Option.some.injEq, CS.mk.injEq, true_and, List.map_append]
    rw [hA]; simp [Function.comp_def]
  · refine ⟨?_, ?_, ?_, ?_, ?_, ?_, ?_⟩
    · simpa only [hst] using hno.same
    · exact hno.sentIn
    · simpa only [hst] using hno.sentOut
    · simpa only [hst] using hno.last
    · simpa only [hst] using hno.seen
    · simpa only [hst] using hno.incl
    · simpa only [hst] using hno.cache


theorem mapM_find_spec (db : DB) (ids : List Id) (es : List Entry) (h : ids.mapM db.find = some es) :
    es.map (·.blk.id) = ids ∧ ∀ e ∈ es, db.find e.blk.id = some e := by
  obtain ⟨hl, hi⟩ := ListAux.mapM_option_spec db.find ids es h
  refine ⟨?_, ?_⟩
  · apply List.ext_getElem
    · simpa using hl
    · intro i h1 h2
      simp only [List.getElem_map]
      exact find_id db _ _ (hi i h2 (by simpa using h1))
  · intro e he
    obtain ⟨i, hi', rfl⟩ := List.getElem_of_mem he
    have := hi i (by rw [← hl]; exact hi') hi'
    rw [find_id db _ _ this]; exact this

theorem isSent_of_find (db : DB) (e : Entry) (h : db.find e.blk.id = some e) : isSent db e.blk.id = e.sent := by
  simp [isSent, h]

/-- the shape of the undo / redo segments and of the longest chain at a chain switch -/
theorem switch_decomp (cfg : Config) (hundo : cfg.matches .undo = true) (s : FState) (P : List Id) (b : Blk)
    (hI : Inv s P) (hcl : SentClosed s.db) (hf : s.db.find b.id = none)
    (lc : List Entry) (hne : lc ≠ [])
    (hp : IsPath (appendBlk s.db b) s.db.libRef.id (lc.map (·.blk.id))) (hn : s.db.libRef.id ∉ lc.map (·.blk.id))
    (htop : topOf s.db.libRef.id (lc.map (·.blk.id)) = b.id)
    (undos redos : List Entry) (junction : Option Ref)
    (hsw : switchSegments cfg s b true = some (undos, redos, junction)) :
    ∃ lcA lcB Pj, lc = lcA ++ lcB ∧ P = Pj ++ (undos.map (·.blk.id)).reverse ∧
      linkedBlks (topOf s.db.libRef.id Pj) (redos.map (·.blk)) ∧
      lcA.map (·.blk.id) = Pj ++ redos.map (·.blk.id) ∧
      (∀ e ∈ lcA, isSent (appendBlk s.db b) e.blk.id = true) ∧
      (∀ e ∈ lcB, isSent (appendBlk s.db b) e.blk.id = false) := by
  -- the chain ends with the new block
  rcases List.eq_nil_or_concat lc with hnil | ⟨lc0, eb, hlc⟩
  · exact absurd hnil hne
  rw [List.concat_eq_append] at hlc
  subst hlc
  simp only [List.map_append, List.map_cons, List.map_nil, topOf_append_singleton] at htop hp hn
  have hnd := isPath_nodup _ _ _ hp hn
  rw [isPath_append] at hp
  have hb0 : b.id ∉ lc0.map (·.blk.id) := by
    rw [htop] at hnd
    intro hm
    have := List.nodup_append.mp hnd
    exact this.2.2 _ hm _ (by simp) rfl
  have hp0 : IsPath s.db s.db.libRef.id (lc0.map (·.blk.id)) := isPath_of_append_entry s.db b _ _ hp.1 hb0
  have hn0 : s.db.libRef.id ∉ lc0.map (·.blk.id) := fun hm => hn (by simp [hm])
  have hbpar : b.parent = topOf s.db.libRef.id (lc0.map (·.blk.id)) := by
    have := hp.2.1
    rw [htop] at this
    unfold DB.link appendBlk at this
    rw [find_append_self s.db b hf] at this
    exact this
  have hsent0 : ∀ x ∈ lc0.map (·.blk.id), isSent (appendBlk s.db b) x = isSent s.db x := by
    intro x hx
    exact isSent_append_other s.db b x (fun hc => hb0 (hc ▸ hx))
  have hsentb : isSent (appendBlk s.db b) eb.blk.id = false := by rw [htop]; exact isSent_append_self s.db b hf
  -- delivered blocks of the chain form a prefix
  have hclos : ∀ l1 x l2, lc0.map (·.blk.id) = l1 ++ x :: l2 → isSent s.db x = true → ∀ y ∈ l1, isSent s.db y = true := by
    intro l1 x l2 hl hx y hy
    have hp1 : IsPath s.db s.db.libRef.id (l1 ++ [x]) := by
      have : lc0.map (·.blk.id) = (l1 ++ [x]) ++ l2 := by rw [hl]; simp
      rw [this, isPath_append] at hp0; exact hp0.1
    have hn1 : s.db.libRef.id ∉ l1 ++ [x] := by
      intro hm; apply hn0; rw [hl]
      simp only [List.mem_append, List.mem_singleton] at hm
      simp only [List.mem_append, List.mem_cons]
      rcases hm with h | h
      · exact Or.inl h
      · exact Or.inr (Or.inl h)
    exact hcl l1 x hp1 hn1 hx y hy
  unfold switchSegments at hsw
  simp only [hundo, Bool.and_self, if_true] at hsw
  cases hls : s.lastSent with
  | none =>
    -- first delivery: nothing is pending, nothing was sent
    rw [hls] at hsw
    simp only [Option.some.injEq, Prod.mk.injEq] at hsw
    obtain ⟨rfl, rfl, _⟩ := hsw
    obtain ⟨hPnil, hall⟩ := hI.topNone hls
    refine ⟨[], lc0 ++ [eb], [], by simp, by simpa using hPnil, trivial, by simp, by simp, ?_⟩
    intro e he
    simp only [List.mem_append, List.mem_singleton] at he
    rcases he with he | rfl
    · rw [hsent0 _ (List.mem_map.mpr ⟨e, he, rfl⟩)]
      unfold isSent
      cases hfe : s.db.find e.blk.id with
      | none => rfl
      | some e0 => simp [hall e0 (find_mem _ _ _ hfe)]
    · exact hsentb
  | some l =>
    rw [hls] at hsw
    simp only at hsw
    have hltop := hI.topSome l hls
    unfold sentChainSwitch at hsw
    by_cases hsame : (l.id == b.parent) = true
    · -- the new block extends the head
      simp only [hsame, if_true, Option.some.injEq, Prod.mk.injEq] at hsw
      obtain ⟨rfl, rfl, _⟩ := hsw
      have hP0 : lc0.map (·.blk.id) = P := by
        apply isPath_unique s.db _ _ _ hp0 hI.path _ hn0 hI.libNotin
        rw [← hbpar, hltop]; exact (beq_iff_eq.mp hsame).symm
      refine ⟨lc0, [eb], P, rfl, by simp, trivial, by simpa using hP0, ?_, ?_⟩
      · intro e he
        have hm : e.blk.id ∈ lc0.map (·.blk.id) := List.mem_map.mpr ⟨e, he, rfl⟩
        rw [hsent0 _ hm]; exact hI.pSent _ (hP0 ▸ hm)
      · intro e he; simp only [List.mem_singleton] at he; subst he; exact hsentb
    · simp only [hsame, Bool.false_eq_true, if_false] at hsw
      obtain ⟨undo, redo, j, Pj, hcs, hPj, hLj, hjt⟩ :=
        chainSwitch_shape s.db hI.wf hI.heights hI.libNe P (lc0.map (·.blk.id)) hI.path hI.libNotin hp0 hn0
      rw [hltop, ← hbpar] at hcs
      rw [hcs] at hsw
      simp only at hsw
      cases hus : undo.mapM s.db.find with
      | none => rw [hus] at hsw; simp at hsw
      | some us =>
        cases hrs : redo.mapM s.db.find with
        | none => rw [hus, hrs] at hsw; simp at hsw
        | some rs =>
          rw [hus, hrs] at hsw
          simp only [Option.some.injEq, Prod.mk.injEq] at hsw
          obtain ⟨rfl, rfl, _⟩ := hsw
          obtain ⟨husid, _⟩ := mapM_find_spec s.db undo us hus
          obtain ⟨hrsid, hrsf⟩ := mapM_find_spec s.db redo rs hrs
          -- delivered part of the redo segment
          have hPjs : ∀ x ∈ Pj, isSent s.db x = true := fun x hx => hI.pSent x (by rw [hPj]; simp [hx])
          have hredoclos : ∀ l1 x l2, redo = l1 ++ x :: l2 → isSent s.db x = true → ∀ y ∈ l1, isSent s.db y = true := by
            intro l1 x l2 hl hx y hy
            exact hclos (Pj ++ l1) x l2 (by rw [hLj, hl]; simp) hx y (by simp [hy])
          obtain ⟨hrf, _⟩ := ListAux.prefix_closed_filter (fun x => isSent s.db x) redo hredoclos
          obtain ⟨_, hdw⟩ := ListAux.prefix_closed_filter (fun x => isSent s.db x) (lc0.map (·.blk.id)) hclos
          have hredosid : (rs.filter (·.sent)).map (·.blk.id) = redo.takeWhile (fun x => isSent s.db x) := by
            rw [← hrf, ← hrsid, List.filter_map]
            congr 1
            apply List.filter_congr
            intro r hr
            simp only [Function.comp]
            exact (isSent_of_find s.db r (hrsf r hr)).symm
          refine ⟨lc0.takeWhile (fun e => isSent s.db e.blk.id), lc0.dropWhile (fun e => isSent s.db e.blk.id) ++ [eb], Pj,
            by rw [← List.append_assoc, List.takeWhile_append_dropWhile], by rw [husid]; exact hPj, ?_, ?_, ?_, ?_⟩
          · -- the re-delivered blocks are linked from the junction
            have hpr : IsPath s.db (topOf s.db.libRef.id Pj) redo := by
              rw [hLj, isPath_append] at hp0; exact hp0.2
            have hpre : IsPath s.db (topOf s.db.libRef.id Pj) ((rs.filter (·.sent)).map (·.blk.id)) := by
              rw [hredosid]
              have : redo = redo.takeWhile (fun x => isSent s.db x) ++ redo.dropWhile (fun x => isSent s.db x) :=
                (List.takeWhile_append_dropWhile).symm
              rw [this, isPath_append] at hpr
              exact hpr.1
            apply linked_of_path s.db _ _ hpre
            intro e he
            exact ⟨e, hrsf e (List.mem_filter.mp he).1, rfl, rfl⟩
          · have : (lc0.takeWhile (fun e => isSent s.db e.blk.id)).map (·.blk.id) =
                (lc0.map (·.blk.id)).takeWhile (fun x => isSent s.db x) := by
              rw [List.takeWhile_map]; rfl
            rw [this, hLj, ListAux.takeWhile_append_of_all _ _ _ hPjs, hredosid]
          · intro e he
            have hm : e ∈ lc0 := (List.takeWhile_sublist _).subset he
            rw [hsent0 _ (List.mem_map.mpr ⟨e, hm, rfl⟩)]
            exact mem_takeWhile_pos (fun e => isSent s.db e.blk.id) lc0 e he
          · intro e he
            simp only [List.mem_append, List.mem_singleton] at he
            rcases he with he | rfl
            · have hm : e ∈ lc0 := (List.dropWhile_sublist _).subset he
              rw [hsent0 _ (List.mem_map.mpr ⟨e, hm, rfl⟩)]
              apply hdw
              have : (lc0.map (·.blk.id)).dropWhile (fun x => isSent s.db x) =
                  (lc0.dropWhile (fun e => isSent s.db e.blk.id)).map (·.blk.id) := by
                rw [List.dropWhile_map]; rfl
              rw [this]
              exact List.mem_map.mpr ⟨e, he, rfl⟩
            · exact hsentb


/-! ### moving the LIB and purging -/

theorem wf_purge (db : DB) (r : Ref) (kept : Nat) (hw : WfEntries db) : WfEntries ((db.moveLIB r).purgeBeforeLIB kept) := by
  refine ⟨?_, ?_⟩
  · intro e he
    exact hw.1 e (by simp only [DB.purgeBeforeLIB, DB.moveLIB, List.mem_filter] at he; exact he.1)
  · simp only [DB.purgeBeforeLIB, DB.moveLIB]
    exact List.Nodup.sublist (List.Sublist.map _ (List.filter_sublist)) hw.2

theorem find_movePurge (db : DB) (r : Ref) (kept : Nat) (x : Id) (e : Entry) (h : db.find x = some e)
    (hn : r.num - kept ≤ e.blk.num) : ((db.moveLIB r).purgeBeforeLIB kept).find x = some e :=
  find_purge (db.moveLIB r) kept x e h hn

theorem isPath_movePurge (db : DB) (r : Ref) (kept : Nat) (bottom : Id) (ids : List Id) (h : IsPath db bottom ids)
    (hn : ∀ x ∈ ids, ∀ e, db.find x = some e → r.num - kept ≤ e.blk.num) :
    IsPath ((db.moveLIB r).purgeBeforeLIB kept) bottom ids := by
  induction ids generalizing bottom with
  | nil => trivial
  | cons i t ih =>
    cases hf : db.find i with
    | none => have := h.2.1; rw [hf] at this; cases this
    | some e =>
      have hf' := find_movePurge db r kept i e hf (hn i (by simp) e hf)
      refine ⟨?_, by rw [hf']; rfl, ih i h.2.2 (fun x hx => hn x (by simp [hx]))⟩
      rw [link_of_find _ i e hf', ← link_of_find db i e hf]; exact h.1

theorem isSent_movePurge (db : DB) (r : Ref) (kept : Nat) (x : Id) (e : Entry) (h : db.find x = some e)
    (hn : r.num - kept ≤ e.blk.num) : isSent ((db.moveLIB r).purgeBeforeLIB kept) x = isSent db x := by
  unfold isSent; rw [find_movePurge db r kept x e h hn, h]

theorem mem_movePurge (db : DB) (r : Ref) (kept : Nat) (e : Entry) (h : e ∈ ((db.moveLIB r).purgeBeforeLIB kept).entries) :
    e ∈ db.entries := by
  simp only [DB.purgeBeforeLIB, DB.moveLIB, List.mem_filter] at h; exact h.1

/-- heights after the LIB moved to a stored block whose reference carries its real number -/
theorem heights_movePurge (db : DB) (hw : WfEntries db) (hh : Heights db) (r : Ref) (kept : Nat) (er : Entry)
    (hf : db.find r.id = some er) (hnum : er.blk.num = r.num) : Heights ((db.moveLIB r).purgeBeforeLIB kept) := by
  have hlib : ((db.moveLIB r).purgeBeforeLIB kept).libRef = r := rfl
  refine ⟨?_, ?_, ?_⟩
  · intro e he p hp hpar
    exact hh.1 e (mem_movePurge db r kept e he) p (mem_movePurge db r kept p hp) hpar
  · intro e he hpar
    rw [hlib] at hpar ⊢
    have := hh.1 e (mem_movePurge db r kept e he) er (find_mem db _ er hf) (by rw [hpar, find_id db _ er hf])
    omega
  · intro e he hid
    rw [hlib] at hid ⊢
    have hmem := mem_movePurge db r kept e he
    have := find_of_mem db hw e hmem
    rw [hid, hf] at this
    injection this with this
    rw [← this]; exact hnum


theorem hasNew_inv (db : DB) (fsb : Nat) (R : Ref) (h : (db.hasNewIrreversibleSegment fsb R).1 = true) :
    db.libRef.id ≠ R.id ∧ ∃ seg r, db.reversibleSegment fsb R = (some seg, r) ∧ seg ≠ [] ∧
      (db.hasNewIrreversibleSegment fsb R).2.1 = seg ∧
      (db.hasNewIrreversibleSegment fsb R).2.2 = db.stalledInSegment seg := by
  unfold DB.hasNewIrreversibleSegment at h ⊢
  by_cases h1 : (db.libRef.id == R.id) = true
  · simp [h1] at h
  · simp only [h1, Bool.false_eq_true, if_false] at h ⊢
    refine ⟨by simpa using h1, ?_⟩
    cases hr : db.reversibleSegment fsb R with
    | mk l r =>
      rw [hr] at h
      cases l with
      | none => simp at h
      | some seg =>
        cases seg with
        | nil => simp at h
        | cons c cs => exact ⟨c :: cs, r, rfl, by simp, rfl, rfl⟩

theorem processIrr_st (cfg : Config) (a : Acc) (seg : List Entry) (head : Ref) (actual : Id → Option Blk) :
    ∃ seen, (processIrr cfg a seg head actual).st = { a.st with lastLIBSeen := seen } := by
  have hph : ∀ (a : Acc) evs, (phase a evs).st = a.st := by
    intro a evs; unfold phase; split <;> rfl
  rw [processIrr_eq]
  split
  · exact ⟨a.st.lastLIBSeen, rfl⟩
  · split
    · exact ⟨a.st.lastLIBSeen, by rw [hph]⟩
    · unfold setSeen
      cases seg.getLast? with
      | none => exact ⟨a.st.lastLIBSeen, by simp only; rw [hph]⟩
      | some l => exact ⟨l.blk.ref, by simp only; rw [hph]⟩

theorem inv_seen (s : FState) (Q : List Id) (x : Ref) (h : Inv s Q) (hx : x = s.db.libRef) : Inv { s with lastLIBSeen := x } Q :=
  ⟨h.libNe, h.wf, h.heights, h.path, h.libNotin, h.pSent, h.topSome, h.topNone, h.cache, h.initOk, Or.inr hx⟩

theorem processIrr_st_nofail (cfg : Config) (a : Acc) (seg : List Entry) (head : Ref) (actual : Id → Option Blk)
    (hf : a.failed = false) (hn : a.failAt = none) (l : Entry) (hl : seg.getLast? = some l) :
    (processIrr cfg a seg head actual).st = { a.st with lastLIBSeen := l.blk.ref } := by
  have hp := phase_nofail a (irrEvents cfg seg head actual) ⟨hf, hn⟩
  rw [processIrr_eq]
  simp only [hf, Bool.false_eq_true, if_false, hp.1]
  unfold setSeen
  rw [hl]
  simp only [hp.2.2.2]

theorem irrEvents_sb (cfg : Config) (hirr : cfg.matches .irreversible = true) (seg : List Entry) (head : Ref)
    (actual : Id → Option Blk) :
    (irrEvents cfg seg head actual).map sbOf = (seg.map (fun e => (actual e.blk.id).getD e.blk)).map (fun b => (Step.irreversible, b)) := by
  unfold irrEvents
  simp only [hirr, if_true]
  apply List.ext_getElem
  · simp
  · intro i h1 h2
    simp [sbOf]

theorem processStalled_run (cfg : Config) (a : Acc) (st : List Entry) (head : Ref) (hf : a.failed = false)
    (hn : a.failAt = none) :
    ∃ t, (processStalled cfg a st head).evs = a.evs ++ t ∧ ∀ c : CS, c.run t = some c := by
  unfold processStalled
  simp only [hf, Bool.false_eq_true, if_false]
  have := phase_nofail a (if cfg.matches .stalled then
      st.mapIdx (fun i e => (⟨.stalled, e.blk, head, a.st.lastLIBSeen, none, i, st.length⟩ : Event)) else []) ⟨hf, hn⟩
  refine ⟨_, this.2.2.1, ?_⟩
  intro c
  unfold CS.run
  split
  · have : (st.mapIdx (fun i e => (⟨.stalled, e.blk, head, a.st.lastLIBSeen, none, i, st.length⟩ : Event))).map sbOf =
        (st.map (·.blk)).map (fun b => (Step.stalled, b)) := by
      apply List.ext_getElem
      · simp
      · intro i h1 h2; simp [sbOf]
    rw [this]; exact runSB_stalled c _
  · rfl


/-- **moving the LIB**: the blocks announced irreversible are the oldest pending blocks of the consumer, in order;
    what remains pending is the chain from the new LIB to the head, and it survives the purge -/
theorem advance_inv (cfg : Config) (hirr : cfg.matches .irreversible = true) (a : Acc) (hf : a.failed = false)
    (hn : a.failAt = none) (b : Blk) (Q : List Id) (hI : Inv a.st Q) (last : Blk) (hls : a.st.lastSent = some last)
    (hcr : ∀ c cs, a.st.cache = some (c :: cs) → c.blk.parent = a.st.db.libRef.id)
    (hlibok : ∀ e, a.st.db.find (a.st.db.blockInChain last.ref last.lib).id = some e →
      e.blk.num = (a.st.db.blockInChain last.ref last.lib).num) :
    (advanceAcc cfg a b none).failed = false ∧ (advanceAcc cfg a b none).failAt = none ∧
    ∃ t Q', (advanceAcc cfg a b none).evs = a.evs ++ t ∧
      (⟨a.st.db.libRef.id, Q⟩ : CS).run t = some ⟨(advanceAcc cfg a b none).st.db.libRef.id, Q'⟩ ∧
      Inv (advanceAcc cfg a b none).st Q' ∧
      ((advanceAcc cfg a b none).st.db = a.st.db ∨
        ∃ R er, (advanceAcc cfg a b none).st.db = (a.st.db.moveLIB R).purgeBeforeLIB cfg.kept ∧
          a.st.db.find R.id = some er ∧ er.blk.num = R.num ∧ a.st.db.libRef.num < R.num) := by
  have triv : ∀ r : Acc, r = a → r.failed = false ∧ r.failAt = none ∧
      ∃ t Q', r.evs = a.evs ++ t ∧ (⟨a.st.db.libRef.id, Q⟩ : CS).run t = some ⟨r.st.db.libRef.id, Q'⟩ ∧ Inv r.st Q' ∧
      (r.st.db = a.st.db ∨
        ∃ R er, r.st.db = (a.st.db.moveLIB R).purgeBeforeLIB cfg.kept ∧
          a.st.db.find R.id = some er ∧ er.blk.num = R.num ∧ a.st.db.libRef.num < R.num) := by
    intro r hr; subst hr
    exact ⟨hf, hn, [], Q, by simp, rfl, hI, Or.inl rfl⟩
  have hlibT : a.st.db.hasLIB = true := hasLIB_of_id _ hI.libNe
  unfold advanceAcc
  simp only [hf, Bool.false_eq_true, if_false, hls, hlibT, Bool.not_true]
  generalize hR : a.st.db.blockInChain last.ref last.lib = R at hlibok
  by_cases hRe : (R.id == "") = true
  · rw [if_pos hRe]; exact triv a rfl
  rw [if_neg hRe, advanceTo_eq]
  by_cases hmove : (!(a.st.db.hasNewIrreversibleSegment cfg.fsb R).1 && (none : Option Entry).isNone) = true
  · rw [if_pos hmove]; exact triv a rfl
  rw [if_neg hmove]
  have hnew : (a.st.db.hasNewIrreversibleSegment cfg.fsb R).1 = true := by simpa using hmove
  obtain ⟨hne, seg, r, hrev, hsegne, hsegeq, hstalleq⟩ := hasNew_inv a.st.db cfg.fsb R hnew
  have hr : r = true := revSegAux_reach _ _ _ _ _ _ _ _ hlibT hrev
  subst hr
  obtain ⟨hsp, hstop, hsn, hslast, hsfa⟩ := reversibleSegment_sound _ _ _ _ hrev
  have hsn' : a.st.db.libRef.id ∉ seg.map (·.blk.id) := by
    intro hm; obtain ⟨x, hx, hxe⟩ := List.mem_map.mp hm; exact hsn x hx hxe
  have hRne : R.id ≠ "" := by simpa using hRe
  -- the new LIB is a pending block
  have hRseg : R.id ∈ seg.map (·.blk.id) := by
    cases hs : seg.map (·.blk.id) with
    | nil => simp at hs; exact absurd hs hsegne
    | cons c cs => rw [← hstop, hs]; exact topOf_cons_mem _ c cs
  obtain ⟨er, hfer⟩ : ∃ er, a.st.db.find R.id = some er := by
    have := isPath_present _ _ _ hsp R.id hRseg
    cases hfr : a.st.db.find R.id with
    | none => rw [hfr] at this; cases this
    | some er => exact ⟨er, rfl⟩
  have herhigh := heights_path _ hI.heights _ a.st.db.libRef.num _ hsp hI.heights.2.1 R.id hRseg er hfer
  have hQlen := isPath_length_le _ _ Q hI.path hI.libNotin
  have hQne := wf_path_ne _ hI.wf _ Q hI.path
  have hW : a.st.db.walkDown (a.st.db.entries.length + 2) (topOf a.st.db.libRef.id Q) =
      Q.reverse ++ a.st.db.walkDown (a.st.db.entries.length + 2 - Q.length) a.st.db.libRef.id := by
    have := walkDown_path _ _ Q hI.path hI.libNe hQne (a.st.db.entries.length + 2 - Q.length)
    rw [show a.st.db.entries.length + 2 - Q.length + Q.length = a.st.db.entries.length + 2 by omega] at this
    exact this
  obtain ⟨tail, htail⟩ := walkDown_head a.st.db (a.st.db.entries.length + 1 - Q.length) a.st.db.libRef.id
  rw [show a.st.db.entries.length + 1 - Q.length + 1 = a.st.db.entries.length + 2 - Q.length by omega] at htail
  have hbelow := heights_below_lib _ hI.wf hI.heights (a.st.db.entries.length + 2 - Q.length)
  rw [htail, List.tail_cons] at hbelow
  rw [htail] at hW
  have hRwalk : R.id ∈ a.st.db.walkDown (a.st.db.entries.length + 2) last.id := by
    have := blockInChain_on_walk a.st.db (numOf_empty _ hI.wf hI.initOk) last.ref last.lib (by rw [hR]; exact hRne)
    rw [hR] at this; exact this
  rw [← hI.topSome last hls, hW] at hRwalk
  have hRQ : R.id ∈ Q := by
    simp only [List.mem_append, List.mem_reverse, List.mem_cons] at hRwalk
    rcases hRwalk with h | h | h
    · exact h
    · exact absurd h.symm hne
    · have := hbelow R.id h er hfer; omega
  obtain ⟨q1, q2, hQ⟩ := List.append_of_mem hRQ
  have hQ' : Q = (q1 ++ [R.id]) ++ q2 := by rw [hQ]; simp
  have hpS : IsPath a.st.db a.st.db.libRef.id (q1 ++ [R.id]) := by
    have := hI.path; rw [hQ', isPath_append] at this; exact this.1
  have hpq2 : IsPath a.st.db R.id q2 := by
    have := hI.path; rw [hQ', isPath_append] at this
    simpa using this.2
  have hnS : a.st.db.libRef.id ∉ q1 ++ [R.id] := fun hm => hI.libNotin (by rw [hQ']; exact List.mem_append_left _ hm)
  have hsegS : seg.map (·.blk.id) = q1 ++ [R.id] :=
    isPath_unique _ _ _ _ hsp hpS (by rw [hstop]; simp) hsn' hnS
  have hQnd := isPath_nodup _ _ Q hI.path hI.libNotin
  have hRq2 : R.id ∉ q2 := by
    rw [hQ] at hQnd
    have := (List.nodup_append.mp hQnd).2.1
    exact (List.nodup_cons.mp this).1
  have hnumR : er.blk.num = R.num := hlibok er hfer
  -- heights above the new LIB
  have habove : ∀ e ∈ a.st.db.entries, e.blk.parent = R.id → R.num < e.blk.num := by
    intro e he hpar
    have := hI.heights.1 e he er (find_mem _ _ er hfer) (by rw [hpar, find_id _ _ er hfer])
    omega
  have hq2high : ∀ x ∈ q2, ∀ e, a.st.db.find x = some e → R.num - cfg.kept ≤ e.blk.num := by
    intro x hx e he
    have := heights_path _ hI.heights R.id R.num q2 hpq2 habove x hx e he
    omega
  -- the events
  rw [hsegeq, hstalleq]
  simp only [withFirst]
  generalize hdb' : (a.st.db.moveLIB R).purgeBeforeLIB cfg.kept = db'
  have hn1 := processIrr_nofail cfg { a with st := withDb db' a.st } seg b.ref (fun i => (a.st.db.find i).map (·.blk)) ⟨hf, hn⟩
  obtain ⟨t2, ht2, hrun2⟩ := processStalled_run cfg _ (a.st.db.stalledInSegment seg) b.ref hn1.1 hn1.2.1
  have hn2 := processStalled_nofail cfg _ (a.st.db.stalledInSegment seg) b.ref ⟨hn1.1, hn1.2.1⟩
  obtain ⟨lseg, hlseg⟩ : ∃ l, seg.getLast? = some l := by
    cases hg : seg.getLast? with
    | none => simp at hg; exact absurd hg hsegne
    | some l => exact ⟨l, rfl⟩
  have hseen := processIrr_st_nofail cfg { a with st := withDb db' a.st } seg b.ref (fun i => (a.st.db.find i).map (·.blk)) hf hn lseg hlseg
  have hseenR : lseg.blk.ref = R := hslast lseg hlseg
  generalize hsn' : lseg.blk.ref = seen at hseen hseenR
  have hstfin : (processStalled cfg (processIrr cfg { a with st := withDb db' a.st } seg b.ref
      (fun i => (a.st.db.find i).map (·.blk))) (a.st.db.stalledInSegment seg) b.ref).st =
      { withDb db' a.st with lastLIBSeen := seen } := by
    rw [processStalled_st, hseen]
  have hlibfin : db'.libRef = R := by rw [← hdb']; rfl
  refine ⟨hn2.1, hn2.2.1, irrEvents cfg seg b.ref (fun i => (a.st.db.find i).map (·.blk)) ++ t2, q2, ?_, ?_, ?_,
    Or.inr ⟨R, er, by rw [hstfin, ← hdb']; rfl, hfer, hnumR, by omega⟩⟩
  · rw [ht2, hn1.2.2, List.append_assoc]
  · rw [run_append, hstfin]
    simp only [withDb, hlibfin]
    have hbs : (seg.map (fun e => ((a.st.db.find e.blk.id).map (·.blk)).getD e.blk)).map (·.id) = seg.map (·.blk.id) := by
      rw [List.map_map]
      apply List.map_congr_left
      intro e _
      simp only [Function.comp]
      cases hfe : a.st.db.find e.blk.id with
      | none => rfl
      | some e0 => simp [find_id _ _ e0 hfe]
    have hrunirr : (⟨a.st.db.libRef.id, Q⟩ : CS).run (irrEvents cfg seg b.ref (fun i => (a.st.db.find i).map (·.blk))) =
        some ⟨R.id, q2⟩ := by
      unfold CS.run
      rw [irrEvents_sb cfg hirr]
      have hQ2 : Q = (seg.map (fun e => ((a.st.db.find e.blk.id).map (·.blk)).getD e.blk)).map (·.id) ++ q2 := by
        rw [hbs, hsegS]; exact hQ'
      rw [hQ2, runSB_irrs, hbs, hstop]
    rw [hrunirr]
    simp only [Option.bind_some]
    exact hrun2 _
  · rw [hstfin]
    have hfind : ∀ x ∈ q2, ∃ e, a.st.db.find x = some e := by
      intro x hx
      have := isPath_present _ _ _ hpq2 x hx
      cases hfx : a.st.db.find x with
      | none => rw [hfx] at this; cases this
      | some e => exact ⟨e, rfl⟩
    refine ⟨by simp only [withDb, hlibfin]; exact hRne, ?_, ?_, ?_, ?_, ?_, ?_, ?_, ?_, ?_, ?_⟩
    · simp only [withDb]; rw [← hdb']; exact wf_purge _ _ _ hI.wf
    · simp only [withDb]; rw [← hdb']; exact heights_movePurge _ hI.wf hI.heights R cfg.kept er hfer hnumR
    · simp only [withDb, hlibfin]; rw [← hdb']; exact isPath_movePurge _ _ _ _ _ hpq2 hq2high
    · simp only [withDb, hlibfin]; exact hRq2
    · intro x hx
      obtain ⟨e, he⟩ := hfind x hx
      simp only [withDb]; rw [← hdb', isSent_movePurge _ _ _ x e he (hq2high x hx e he)]
      exact hI.pSent x (by rw [hQ]; simp [hx])
    · intro l hl
      simp only [withDb] at hl ⊢
      rw [hlibfin]
      have := hI.topSome l hl
      rw [hQ', topOf_append] at this
      simpa using this
    · intro hnone
      simp only [withDb] at hnone
      rw [hls] at hnone; cases hnone
    · intro c cs hc hpre
      simp only [withDb, hlibfin] at hc hpre
      exact absurd (hpre.trans (hcr c cs hc)).symm hne
    · intro i n hin
      simp only [withDb] at hin
      rw [← hdb'] at hin
      simp [DB.purgeBeforeLIB] at hin
    · exact Or.inr (by simp only [withDb, hlibfin]; exact hseenR)

end BstreamVerif.Forkable
