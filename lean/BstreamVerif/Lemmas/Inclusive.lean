import BstreamVerif.Lemmas.Discovery
/-!
The inclusive starting block (`WithInclusiveLIB`): while nothing has been sent, the block whose id is the LIB's is
delivered New and announced irreversible at once; every other block goes through the ordinary path.
-/
namespace BstreamVerif.Forkable
open BstreamVerif BstreamVerif.ForkDB

theorem cacheOK_append (s : FState) (b : Blk) (h : CacheOK s) (hf : s.db.find b.id = none) :
    CacheOK { s with db := appendBlk s.db b } := by
  intro c cs hc hpre
  obtain ⟨hp, hn, hfa⟩ := h c cs hc hpre
  exact ⟨isPath_append_entry s.db b _ _ hp hf, hn, faithful_append s.db b _ hfa hf⟩

theorem cacheOK_same (s : FState) (db' : DB) (h : CacheOK s) (hs : SameBlks s.db db') : CacheOK { s with db := db' } := by
  intro c cs hc hpre
  simp only at hc hpre
  rw [hs.1] at hpre
  obtain ⟨hp, hn, hfa⟩ := h c cs hc hpre
  simp only
  rw [hs.1]
  exact ⟨(hs.isPath _ _).mpr hp, hn, faithful_same hs _ hfa⟩

/-- **the inclusive starting block**: delivered New and announced irreversible, once, while nothing was sent -/
theorem inclusive_root_step (cfg : Config) (hnew : cfg.matches .new = true) (hirr : cfg.matches .irreversible = true)
    (U : Id → Option Blk) (hU : UOK U) (F : List Id) (s : FState) (P : List Id) (b : Blk)
    (hI : Inv s P) (hJ : Inv2 U F s.db) (hincl : s.includeInit = true) (hls : s.lastSent = none)
    (hbU : U b.id = some b) (hid : b.id = s.db.libRef.id) :
    (processBlock cfg s b none).2.1.map sbOf = [(Step.new, b), (Step.irreversible, b)] ∧
    (processBlock cfg s b none).1.lastSent = some b ∧
    (processBlock cfg s b none).1.db.libRef = s.db.libRef ∧
    Inv (processBlock cfg s b none).1 [] ∧ Inv2 U F (processBlock cfg s b none).1.db := by
  have hb := hU.wf b.id b hbU
  have hnum : b.num = s.db.libRef.num := hJ.libSelf b hbU hid
  have hplan : plan cfg s b = .initial s := by
    unfold plan
    have h1 : (b.id == b.parent) = false := by simpa using hb.2.2
    have h2 : (decide (b.num < s.db.libRef.num) && s.lastSent.isSome) = false := by simp [hls]
    have h3 : (s.includeInit && s.lastSent.isNone && b.id == s.db.libRef.id) = true := by simp [hincl, hls, hid]
    simp [h1, h2, h3]
  obtain ⟨hPnil, hunsent⟩ := hI.topNone hls
  unfold processBlock
  rw [hplan]
  simp only [processInitialInclusive]
  rw [initialAcc_eq]
  -- the block is stored already, or is appended now
  have hadd : ∃ db1 newly, s.db.addLink b = (db1, !newly) ∧
      ((newly = false ∧ db1 = s.db ∧ (s.db.find b.id).isSome = true) ∨ (newly = true ∧ db1 = appendBlk s.db b ∧ s.db.find b.id = none)) := by
    by_cases hex : (s.db.addLink b).2 = true
    · have hl := (addLink_exists_iff s.db b).mp hex
      have hdb : (s.db.addLink b).1 = s.db := by
        unfold DB.addLink
        have h1 : (b.id == b.parent || b.id == "") = false := by simp [hb.1, hb.2.2]
        have h2 : (s.db.link b.id != "") = true := by simpa using hl.2.2
        simp [h1, h2]
      refine ⟨s.db, false, Prod.ext hdb (by simpa using hex), Or.inl ⟨rfl, rfl, ?_⟩⟩
      cases hfb : s.db.find b.id with
      | some e => rfl
      | none => simp [DB.link, hfb] at hl
    · have hex' : (s.db.addLink b).2 = false := by simpa using hex
      obtain ⟨hf, hdb⟩ := fresh_of_addLink s.db b hI.wf hb hex'
      exact ⟨appendBlk s.db b, true, Prod.ext hdb (by simpa using hex'), Or.inr ⟨rfl, rfl, hf⟩⟩
  obtain ⟨db1, newly, hadd, hcases⟩ := hadd
  have hnw : (!(s.db.addLink b).2 && !(b.id == b.parent || b.id == "")) = newly := by
    rw [hadd]; simp [hb.1, hb.2.2]
  rw [hnw]
  have hdb1 : (s.db.addLink b).1 = db1 := by rw [hadd]
  rw [hdb1]
  generalize hs' : ({ s with db := db1 } : FState) = s'
  have hs'db : s'.db = db1 := by rw [← hs']
  have hfirst : initFirst cfg s' b none = phase ⟨s', [], none, false⟩ [⟨.new, b, b.ref, cursorLIB s', none, 0, 0⟩] := by
    unfold initFirst; simp [hnew]
  have hp := phase_nofail ⟨s', [], none, false⟩ [⟨.new, b, b.ref, cursorLIB s', none, 0, 0⟩] ⟨rfl, rfl⟩
  rw [hfirst]
  generalize hx : phase ⟨s', [], none, false⟩ [⟨.new, b, b.ref, cursorLIB s', none, 0, 0⟩] = x at hp
  rw [if_neg (by rw [hp.1]; simp)]
  have hn1 := processIrr_nofail cfg { x with st := initSt newly b x.st } [⟨b, true⟩] b.ref (fun _ => none) ⟨hp.1, hp.2.1⟩
  have hseen := processIrr_st_nofail cfg { x with st := initSt newly b x.st } [⟨b, true⟩] b.ref (fun _ => none) hp.1 hp.2.1 ⟨b, true⟩ (by simp)
  have hfinst : (finish (processIrr cfg { x with st := initSt newly b x.st } [⟨b, true⟩] b.ref)).1 =
      { initSt newly b s' with lastLIBSeen := b.ref } := by
    unfold finish; simp only; rw [hseen]; simp only [hp.2.2.2]
  have hfinevs : (finish (processIrr cfg { x with st := initSt newly b x.st } [⟨b, true⟩] b.ref)).2.1 =
      [⟨.new, b, b.ref, cursorLIB s', none, 0, 0⟩] ++ irrEvents cfg [⟨b, true⟩] b.ref (fun _ => none) := by
    unfold finish; simp only; rw [hn1.2.2]; simp only [hp.2.2.1, List.nil_append]
  rw [hfinst, hfinevs]
  -- the buffer after the step
  have hdbfin : ∃ dbf, ({ initSt newly b s' with lastLIBSeen := b.ref } : FState).db = dbf ∧ dbf.libRef = s.db.libRef ∧
      WfEntries dbf ∧ Heights dbf ∧ Inv2 U F dbf ∧ CacheOK { s with db := dbf } := by
    rcases hcases with ⟨hn, hd, _⟩ | ⟨hn, hd, hf⟩
    · subst hn; subst hd
      refine ⟨s.db, by simp [initSt, hs'db], rfl, hI.wf, hI.heights, hJ, ?_⟩
      exact hI.cache
    · subst hn; subst hd
      have hw1 := wf_append _ _ hI.wf hb hf
      have hh1 := heights_append _ _ hI.heights hb (hb_of_inv2 U hU F s.db hJ b hbU)
      have hJ1 := inv2_append U F s.db hJ b hbU hf (by
        rintro ⟨e, he, hes⟩; rw [hunsent e he] at hes; cases hes)
      have hsame := sameBlks_markSent (appendBlk s.db b) b.id
      refine ⟨(appendBlk s.db b).markSent b.id, by simp [initSt, hs'db], rfl,
        Forkable.SameBlks.wf hsame hw1, Forkable.SameBlks.heights hsame hh1, ?_, ?_⟩
      · -- only the LIB block itself was marked
        refine ⟨?_, hJ1.libF, hJ1.finalsBelow, ?_, hJ1.libAbove, hJ1.libSelf⟩
        · intro e he hs
          obtain ⟨e0, he0, hblk⟩ := hsame.mem_blk e he
          by_cases hbe : e.blk.id = b.id
          · left; rw [hbe, hid]; exact hJ.libF
          · exfalso
            have h1 := isSent_of_mem _ (Forkable.SameBlks.wf hsame hw1) e he
            rw [isSent_markSent_other _ _ _ hbe] at h1
            have h0 : isSent (appendBlk s.db b) e.blk.id = false := by
              rw [isSent_append_other _ _ _ hbe]
              exact isSent_false_of_unsent s.db hunsent _
            rw [h0] at h1
            rw [hs] at h1; cases h1
        · intro e he
          obtain ⟨e0, he0, hblk⟩ := hsame.mem_blk e he
          rw [← hblk]; exact hJ1.inU e0 he0
      · exact cacheOK_same { s with db := appendBlk s.db b } _ (cacheOK_append s b hI.cache hf) hsame
  obtain ⟨dbf, hdbf, hlibf, hwf, hhf, hJf, hcf⟩ := hdbfin
  refine ⟨?_, by simp [initSt], by rw [hdbf, hlibf], ?_, by rw [hdbf]; exact hJf⟩
  · rw [List.map_append, irrEvents_sb cfg hirr]
    simp [sbOf]
  · have hbref : b.ref = s.db.libRef := by
      cases hr : s.db.libRef with
      | mk i n => rw [hr] at hid hnum; simp only [Blk.ref]; rw [hid, hnum]
    have hstate : initSt newly b s' = { s with db := dbf, lastSent := some b } := by
      have := hdbf
      simp only [initSt] at this ⊢
      rw [← hs'] at this ⊢
      simp only at this ⊢
      rw [this]
    rw [hstate]
    apply inv_seen _ _ _ _ (by simp only; rw [hlibf]; exact hbref)
    refine ⟨by simp only; rw [hlibf]; exact hI.libNe, hwf, hhf, trivial, by simp, by simp, ?_, ?_, ?_, ?_, ?_⟩
    · intro l hl
      simp only [Option.some.injEq] at hl
      simp only; rw [hlibf, ← hl, hid]; rfl
    · intro hnone; cases hnone
    · intro c cs hcc hpre
      exact hcf c cs hcc hpre
    · intro i n hin
      simp only at hin
      rcases hcases with ⟨_, hd, _⟩ | ⟨_, hd, _⟩
      · rw [← hdbf] at hin
        simp only [initSt, hs'db, hd] at hin
        split at hin <;> exact hI.initOk i n hin
      · rw [← hdbf] at hin
        simp only [initSt, hs'db, hd] at hin
        split at hin <;> exact hI.initOk i n hin
    · simp only; rw [hlibf]; exact hI.seen

end BstreamVerif.Forkable
