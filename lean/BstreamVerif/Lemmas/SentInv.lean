import BstreamVerif.Lemmas.ForkInv
/-!
Discharging `SentClosed` and `HB` from a consistent universe of blocks.

`U : Id → Option Blk` is the set of blocks that exist (the chain's block tree, forks included): every block fed to the
forkable is `U` of its id, ids identify blocks, heights grow along parent links. With a ghost list `F` of the ids that
have been the LIB, the invariant `Inv2` below is preserved by every step and implies `SentClosed` — the key fact being
that a block purged from the buffer can only come back below the LIB, where it is dropped.
-/
namespace BstreamVerif.Forkable
open BstreamVerif BstreamVerif.ForkDB

/-- a consistent universe of blocks -/
structure UOK (U : Id → Option Blk) : Prop where
  ident : ∀ id b, U id = some b → b.id = id
  wf : ∀ id b, U id = some b → WFin b
  heights : ∀ b p, U b.id = some b → U b.parent = some p → p.num < b.num

/-- every sent stored block has a final parent, a sent stored parent, or a parent that is gone for good (any block
    with that id lies below the LIB) -/
def SentAnc (U : Id → Option Blk) (F : List Id) (db : DB) : Prop :=
  ∀ e ∈ db.entries, e.sent = true →
    e.blk.parent ∈ F ∨ (∃ p, db.find e.blk.parent = some p ∧ p.sent = true) ∨
    (db.find e.blk.parent = none ∧ ∀ pb, U e.blk.parent = some pb → pb.num < db.libRef.num)

structure Inv2 (U : Id → Option Blk) (F : List Id) (db : DB) : Prop where
  anc : SentAnc U F db
  libF : db.libRef.id ∈ F
  finalsBelow : ∀ f ∈ F, f ≠ db.libRef.id → ∀ fb, U f = some fb → fb.num < db.libRef.num
  inU : ∀ e ∈ db.entries, U e.blk.id = some e.blk
  libAbove : ∀ b, U b.id = some b → b.parent = db.libRef.id → db.libRef.num < b.num
  libSelf : ∀ b, U b.id = some b → b.id = db.libRef.id → b.num = db.libRef.num

theorem isSent_of_mem (db : DB) (hw : WfEntries db) (e : Entry) (he : e ∈ db.entries) : isSent db e.blk.id = e.sent := by
  simp [isSent, find_of_mem db hw e he]

/-- the height hypothesis on an incoming block follows from the universe -/
theorem hb_of_inv2 (U : Id → Option Blk) (hU : UOK U) (F : List Id) (db : DB) (hJ : Inv2 U F db) (b : Blk)
    (hb : U b.id = some b) : HB db b := by
  refine ⟨?_, ?_, hJ.libAbove b hb, hJ.libSelf b hb⟩
  · intro p hp hpar
    have := hJ.inU p hp
    rw [← hpar] at this
    exact hU.heights b p.blk hb this
  · intro e he hpar
    have h1 := hJ.inU e he
    rw [← hpar] at hb
    exact hU.heights e.blk b h1 hb

/-- **delivered blocks were delivered with their ancestors**: `SentClosed` follows from the invariant -/
theorem sentClosed_of_inv2 (U : Id → Option Blk) (F : List Id) (db : DB) (hw : WfEntries db) (hh : Heights db)
    (hJ : Inv2 U F db) : SentClosed db := by
  intro ids x hp hn hx
  -- induction from the top of the path downwards
  induction ids using rev_ind generalizing x with
  | nil => simp
  | append_singleton l y ih =>
    have hpy : IsPath db db.libRef.id (l ++ [y]) := by
      rw [isPath_append] at hp; exact hp.1
    have hny : db.libRef.id ∉ l ++ [y] := fun hm => hn (List.mem_append_left _ hm)
    -- y is sent
    have hysent : isSent db y = true := by
      rw [isPath_append] at hp
      have hlink : db.link x = y := by have := hp.2.1; simpa using this
      have hxpres := hp.2.2.1
      cases hfx : db.find x with
      | none => rw [hfx] at hxpres; cases hxpres
      | some ex =>
        have hxs : ex.sent = true := by simpa [isSent, hfx] using hx
        have hexp : ex.blk.parent = y := by rw [← link_of_find db x ex hfx]; exact hlink
        have hypres := isPath_present db _ _ hpy y (by simp)
        cases hfy : db.find y with
        | none => rw [hfy] at hypres; cases hypres
        | some ey =>
          rcases hJ.anc ex (find_mem db x ex hfx) hxs with ha | ⟨p, hpf, hps⟩ | ⟨hnone, _⟩
          · -- y would be a former LIB lying above the LIB
            exfalso
            rw [hexp] at ha
            have hyne : y ≠ db.libRef.id := fun hc => hny (by simp [hc])
            have h1 := hJ.finalsBelow y ha hyne ey.blk (by
              have := hJ.inU ey (find_mem db y ey hfy); rw [find_id db y ey hfy] at this; exact this)
            have h2 := heights_path db hh _ db.libRef.num _ hpy hh.2.1 y (by simp) ey hfy
            omega
          · rw [hexp, hfy] at hpf
            injection hpf with hpf
            simp [isSent, hfy, hpf, hps]
          · rw [hexp, hfy] at hnone; cases hnone
    intro z hz
    simp only [List.mem_append, List.mem_singleton] at hz
    rcases hz with hz | rfl
    · exact ih y hpy hny hysent z hz
    · exact hysent

end BstreamVerif.Forkable
