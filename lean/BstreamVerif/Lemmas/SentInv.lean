import BstreamVerif.Lemmas.ForkInv
/-!
Discharging `SentClosed` and `HB` from a consistent universe of blocks.

`U : Id → Option Blk` is the set of blocks that exist (the chain's block tree, forks included): every block fed to the
forkable is `U` of its id, ids identify blocks, heights grow along parent links. With a ghost list `F` of the ids that
have been the LIB, the invariant `Inv2` below is preserved by every step and implies `SentClosed` — the key fact being
that a block purged from the buffer can only come back below the LIB, where it is dropped.
-/
namespace BstreamVerif.Forkable
open BstreamVerif BstreamVerif.ForkDB

/-- a consistent universe of blocks -/
structure UOK (U : Id → Option Blk) : Prop where
  ident : ∀ id b, U id = some b → b.id = id
  wf : ∀ id b, U id = some b → WFin b
  heights : ∀ b p, U b.id = some b → U b.parent = some p → p.num < b.num

/-- every sent stored block has a final parent, a sent stored parent, or a parent that is gone for good (any block
    with that id lies below the LIB) -/
def SentAnc (U : Id → Option Blk) (F : List Id) (db : DB) : Prop :=
  ∀ e ∈ db.entries, e.sent = true →
    e.blk.id ∈ F ∨ e.blk.parent ∈ F ∨ (∃ p, db.find e.blk.parent = some p ∧ p.sent = true) ∨
    (db.find e.blk.parent = none ∧ ∀ pb, U e.blk.parent = some pb → pb.num < db.libRef.num)

structure Inv2 (U : Id → Option Blk) (F : List Id) (db : DB) : Prop where
  anc : SentAnc U F db
  libF : db.libRef.id ∈ F
  finalsBelow : ∀ f ∈ F, f ≠ db.libRef.id → ∀ fb, U f = some fb → fb.num < db.libRef.num
  inU : ∀ e ∈ db.entries, U e.blk.id = some e.blk
  libAbove : ∀ b, U b.id = some b → b.parent = db.libRef.id → db.libRef.num < b.num
  libSelf : ∀ b, U b.id = some b → b.id = db.libRef.id → b.num = db.libRef.num

/-- the head block the forkable remembers is a block of the universe, with its number -/
def HeadU (U : Id → Option Blk) (s : FState) : Prop :=
  ∀ l, s.lastSent = some l → ∃ b, U l.id = some b ∧ b.num = l.num

theorem isSent_of_mem (db : DB) (hw : WfEntries db) (e : Entry) (he : e ∈ db.entries) : isSent db e.blk.id = e.sent := by
  simp [isSent, find_of_mem db hw e he]

/-- the height hypothesis on an incoming block follows from the universe -/
theorem hb_of_inv2 (U : Id → Option Blk) (hU : UOK U) (F : List Id) (db : DB) (hJ : Inv2 U F db) (b : Blk)
    (hb : U b.id = some b) : HB db b := by
  refine ⟨?_, ?_, hJ.libAbove b hb, hJ.libSelf b hb⟩
  · intro p hp hpar
    have := hJ.inU p hp
    rw [← hpar] at this
    exact hU.heights b p.blk hb this
  · intro e he hpar
    have h1 := hJ.inU e he
    rw [← hpar] at hb
    exact hU.heights e.blk b h1 hb

/-- **delivered blocks were delivered with their ancestors**: `SentClosed` follows from the invariant -/
theorem sentClosed_of_inv2 (U : Id → Option Blk) (F : List Id) (db : DB) (hw : WfEntries db) (hh : Heights db)
    (hJ : Inv2 U F db) : SentClosed db := by
  intro ids x hp hn hx
  -- induction from the top of the path downwards
  induction ids using rev_ind generalizing x with
  | nil => simp
  | append_singleton l y ih =>
    have hpy : IsPath db db.libRef.id (l ++ [y]) := by
      rw [isPath_append] at hp; exact hp.1
    have hny : db.libRef.id ∉ l ++ [y] := fun hm => hn (List.mem_append_left _ hm)
    -- y is sent
    have hysent : isSent db y = true := by
      rw [isPath_append] at hp
      have hlink : db.link x = y := by have := hp.2.1; simpa using this
      have hxpres := hp.2.2.1
      cases hfx : db.find x with
      | none => rw [hfx] at hxpres; cases hxpres
      | some ex =>
        have hxs : ex.sent = true := by simpa [isSent, hfx] using hx
        have hexp : ex.blk.parent = y := by rw [← link_of_find db x ex hfx]; exact hlink
        have hypres := isPath_present db _ _ hpy y (by simp)
        cases hfy : db.find y with
        | none => rw [hfy] at hypres; cases hypres
        | some ey =>
          rcases hJ.anc ex (find_mem db x ex hfx) hxs with hself | ha | ⟨p, hpf, hps⟩ | ⟨hnone, _⟩
          · -- x itself would be a former LIB lying above the LIB
            exfalso
            have hxid : ex.blk.id = x := find_id db x ex hfx
            rw [hxid] at hself
            have hxne : x ≠ db.libRef.id := fun hc => hn (by simp [hc])
            have h1 := hJ.finalsBelow x hself hxne ex.blk (by
              have := hJ.inU ex (find_mem db x ex hfx); rw [hxid] at this; exact this)
            have h2 := heights_path db hh _ db.libRef.num _ hp.1 hh.2.1
            -- x is the top of the path: it lies above the LIB
            have hpx : IsPath db db.libRef.id ((l ++ [y]) ++ [x]) := by
              rw [isPath_append]; exact ⟨hp.1, hp.2⟩
            have h3 := heights_path db hh _ db.libRef.num _ hpx hh.2.1 x (by simp) ex hfx
            omega
          · -- y would be a former LIB lying above the LIB
            exfalso
            rw [hexp] at ha
            have hyne : y ≠ db.libRef.id := fun hc => hny (by simp [hc])
            have h1 := hJ.finalsBelow y ha hyne ey.blk (by
              have := hJ.inU ey (find_mem db y ey hfy); rw [find_id db y ey hfy] at this; exact this)
            have h2 := heights_path db hh _ db.libRef.num _ hpy hh.2.1 y (by simp) ey hfy
            omega
          · rw [hexp, hfy] at hpf
            injection hpf with hpf
            simp [isSent, hfy, hpf, hps]
          · rw [hexp, hfy] at hnone; cases hnone
    intro z hz
    simp only [List.mem_append, List.mem_singleton] at hz
    rcases hz with hz | rfl
    · exact ih y hpy hny hysent z hz
    · exact hysent

end BstreamVerif.Forkable

namespace BstreamVerif.Forkable
open BstreamVerif BstreamVerif.ForkDB

theorem find_sent_of_isSent (db : DB) (x : Id) (h : isSent db x = true) : ∃ p, db.find x = some p ∧ p.sent = true := by
  unfold isSent at h
  cases hf : db.find x with
  | none => rw [hf] at h; simp at h
  | some p => rw [hf] at h; exact ⟨p, rfl, by simpa using h⟩

/-- linking a block of the universe that is not stored (and would not have been dropped) -/
theorem inv2_append (U : Id → Option Blk) (F : List Id) (db : DB) (hJ : Inv2 U F db) (b : Blk)
    (hbU : U b.id = some b) (hf : db.find b.id = none)
    (hnd : (∃ e ∈ db.entries, e.sent = true) → ¬ b.num < db.libRef.num) : Inv2 U F (appendBlk db b) := by
  refine ⟨?_, hJ.libF, hJ.finalsBelow, ?_, hJ.libAbove, hJ.libSelf⟩
  · intro e he hs
    simp only [appendBlk, List.mem_append, List.mem_singleton] at he
    rcases he with he | rfl
    · rcases hJ.anc e he hs with hself | ha | ⟨p, hpf, hps⟩ | ⟨hnone, hlow⟩
      · exact Or.inl hself
      · exact Or.inr (Or.inl ha)
      · have hne : e.blk.parent ≠ b.id := by intro hc; rw [hc, hf] at hpf; cases hpf
        exact Or.inr (Or.inr (Or.inl ⟨p, by unfold appendBlk; rw [find_append_other db b _ hne]; exact hpf, hps⟩))
      · by_cases hc : e.blk.parent = b.id
        · exfalso
          have := hlow b (by rw [hc]; exact hbU)
          exact hnd ⟨e, he, hs⟩ this
        · exact Or.inr (Or.inr (Or.inr ⟨by unfold appendBlk; rw [find_append_other db b _ hc]; exact hnone, hlow⟩))
    · cases hs
  · intro e he
    simp only [appendBlk, List.mem_append, List.mem_singleton] at he
    rcases he with he | rfl
    · exact hJ.inU e he
    · exact hbU

/-- marking a chain resting on the LIB as sent -/
theorem inv2_sent (U : Id → Option Blk) (F : List Id) (db1 db2 : DB) (hw : WfEntries db1) (hJ : Inv2 U F db1)
    (hsame : SameBlks db1 db2) (L : List Id) (hp : IsPath db1 db1.libRef.id L)
    (hin : ∀ x ∈ L, isSent db2 x = true) (hout : ∀ x, x ∉ L → isSent db2 x = isSent db1 x) : Inv2 U F db2 := by
  have hw2 := Forkable.SameBlks.wf hsame hw
  have hmono : ∀ x, isSent db1 x = true → isSent db2 x = true := by
    intro x hx
    by_cases hm : x ∈ L
    · exact hin x hm
    · rw [hout x hm]; exact hx
  refine ⟨?_, by rw [hsame.1]; exact hJ.libF, by rw [hsame.1]; exact hJ.finalsBelow, ?_, by rw [hsame.1]; exact hJ.libAbove,
    by rw [hsame.1]; exact hJ.libSelf⟩
  · intro e' he' hs'
    obtain ⟨e0, he0, hblk⟩ := hsame.mem_blk e' he'
    have hid : e0.blk.id = e'.blk.id := by rw [hblk]
    by_cases hm : e'.blk.id ∈ L
    · -- on the chain: the parent is the LIB or the previous block of the chain
      obtain ⟨l1, l2, hL⟩ := List.append_of_mem hm
      have hL' : L = l1 ++ ([e'.blk.id] ++ l2) := by rw [hL]; rfl
      rw [hL', isPath_append] at hp
      have hlink : db1.link e'.blk.id = topOf db1.libRef.id l1 := hp.2.1
      have hf0 := find_of_mem db1 hw e0 he0
      rw [hid] at hf0
      rw [link_of_find db1 _ e0 hf0, hblk] at hlink
      rcases topOf_mem db1.libRef.id l1 with ht | ht
      · right; left; rw [hlink, ht]; exact hJ.libF
      · right; right; left
        rw [hlink]
        exact find_sent_of_isSent db2 _ (hin _ (by rw [hL]; exact List.mem_append_left _ ht))
    · have hs1 : e0.sent = true := by
        have h2 := isSent_of_mem db2 hw2 e' he'
        have h1 := isSent_of_mem db1 hw e0 he0
        rw [hid, ← hout _ hm, h2] at h1
        rw [← h1]; exact hs'
      rw [← hblk]
      rcases hJ.anc e0 he0 hs1 with hself | ha | ⟨p, hpf, hps⟩ | ⟨hnone, hlow⟩
      · exact Or.inl hself
      · exact Or.inr (Or.inl ha)
      · right; right; left
        apply find_sent_of_isSent
        apply hmono
        simp [isSent, hpf, hps]
      · right; right; right
        refine ⟨?_, by rw [hsame.1]; exact hlow⟩
        have := hsame.find_isSome e0.blk.parent
        rw [hnone] at this
        cases hf2 : db2.find e0.blk.parent with
        | none => rfl
        | some q => rw [hf2] at this; cases this
  · intro e' he'
    obtain ⟨e0, he0, hblk⟩ := hsame.mem_blk e' he'
    rw [← hblk]; exact hJ.inU e0 he0

theorem find_movePurge_none (db : DB) (hw : WfEntries db) (R : Ref) (kept : Nat) (x : Id)
    (h : ∀ p, db.find x = some p → ¬ R.num - kept ≤ p.blk.num) : ((db.moveLIB R).purgeBeforeLIB kept).find x = none := by
  cases hf : ((db.moveLIB R).purgeBeforeLIB kept).find x with
  | none => rfl
  | some q =>
    exfalso
    have hq := find_mem _ x q hf
    have hqid := find_id _ x q hf
    have hqdb := mem_movePurge db R kept q hq
    have := find_of_mem db hw q hqdb
    rw [hqid] at this
    have hpass : R.num - kept ≤ q.blk.num := by
      simp only [DB.purgeBeforeLIB, DB.moveLIB, List.mem_filter] at hq
      exact of_decide_eq_true hq.2
    exact h q this hpass

/-- moving the LIB up to a stored block of the chain and purging -/
theorem inv2_movePurge (U : Id → Option Blk) (hU : UOK U) (F : List Id) (db : DB) (hw : WfEntries db) (hJ : Inv2 U F db)
    (R : Ref) (kept : Nat) (er : Entry) (hfer : db.find R.id = some er) (hnum : er.blk.num = R.num)
    (hup : db.libRef.num < R.num) : Inv2 U (F ++ [R.id]) ((db.moveLIB R).purgeBeforeLIB kept) := by
  have hlib : ((db.moveLIB R).purgeBeforeLIB kept).libRef = R := rfl
  have hUer : U R.id = some er.blk := by
    have := hJ.inU er (find_mem db _ er hfer)
    rw [find_id db _ er hfer] at this; exact this
  refine ⟨?_, by rw [hlib]; simp, ?_, ?_, ?_, ?_⟩
  · intro e he hs
    have hedb := mem_movePurge db R kept e he
    rw [hlib]
    rcases hJ.anc e hedb hs with hself | ha | ⟨p, hpf, hps⟩ | ⟨hnone, hlow⟩
    · exact Or.inl (List.mem_append_left _ hself)
    · exact Or.inr (Or.inl (List.mem_append_left _ ha))
    · by_cases hkeep : R.num - kept ≤ p.blk.num
      · exact Or.inr (Or.inr (Or.inl ⟨p, find_movePurge db R kept _ p hpf hkeep, hps⟩))
      · right; right; right
        refine ⟨find_movePurge_none db hw R kept _ (fun q hq => by rw [hpf] at hq; injection hq with hq; rw [← hq]; exact hkeep), ?_⟩
        intro pb hpb
        have := hJ.inU p (find_mem db _ p hpf)
        rw [find_id db _ p hpf, hpb] at this
        injection this with this
        rw [this]; omega
    · right; right; right
      refine ⟨find_movePurge_none db hw R kept _ (fun q hq => by rw [hnone] at hq; cases hq), ?_⟩
      intro pb hpb
      have := hlow pb hpb
      omega
  · intro f hf hne fb hfb
    rw [hlib] at hne ⊢
    simp only [List.mem_append, List.mem_singleton] at hf
    rcases hf with hf | hf
    · by_cases hfl : f = db.libRef.id
      · have hfbid := hU.ident f fb hfb
        have := hJ.libSelf fb (by rw [hfbid]; exact hfb) (by rw [hfbid]; exact hfl)
        omega
      · have := hJ.finalsBelow f hf hfl fb hfb
        omega
    · exact absurd hf hne
  · intro e he
    exact hJ.inU e (mem_movePurge db R kept e he)
  · intro b hb hpar
    rw [hlib] at hpar ⊢
    have := hU.heights b er.blk hb (by rw [hpar]; exact hUer)
    omega
  · intro b hb hid
    rw [hlib] at hid ⊢
    rw [hid, hUer] at hb
    injection hb with hb
    rw [← hb]; exact hnum

/-- purging without moving the LIB (the LIB announcement of the discovery step) -/
theorem inv2_purgeSame (U : Id → Option Blk) (F : List Id) (db : DB) (hw : WfEntries db) (hJ : Inv2 U F db) (kept : Nat) :
    Inv2 U F ((db.moveLIB db.libRef).purgeBeforeLIB kept) := by
  have hlib : ((db.moveLIB db.libRef).purgeBeforeLIB kept).libRef = db.libRef := rfl
  refine ⟨?_, by rw [hlib]; exact hJ.libF, by rw [hlib]; exact hJ.finalsBelow, ?_, by rw [hlib]; exact hJ.libAbove,
    by rw [hlib]; exact hJ.libSelf⟩
  · intro e he hs
    have hedb := mem_movePurge db db.libRef kept e he
    rw [hlib]
    rcases hJ.anc e hedb hs with hself | ha | ⟨p, hpf, hps⟩ | ⟨hnone, hlow⟩
    · exact Or.inl hself
    · exact Or.inr (Or.inl ha)
    · by_cases hkeep : db.libRef.num - kept ≤ p.blk.num
      · exact Or.inr (Or.inr (Or.inl ⟨p, find_movePurge db db.libRef kept _ p hpf hkeep, hps⟩))
      · right; right; right
        refine ⟨find_movePurge_none db hw db.libRef kept _ (fun q hq => by rw [hpf] at hq; injection hq with hq; rw [← hq]; exact hkeep), ?_⟩
        intro pb hpb
        have := hJ.inU p (find_mem db _ p hpf)
        rw [find_id db _ p hpf, hpb] at this
        injection this with this
        rw [this]; omega
    · right; right; right
      exact ⟨find_movePurge_none db hw db.libRef kept _ (fun q hq => by rw [hnone] at hq; cases hq), hlow⟩
  · intro e he
    exact hJ.inU e (mem_movePurge db db.libRef kept e he)

end BstreamVerif.Forkable
