import BstreamVerif.Model.Forkable
import BstreamVerif.Lemmas.ForkDBLemmas
/-!
How the buffer operations (AddLink of a new block, the sent mark, MoveLIB, PurgeBeforeLIB) act on lookups and paths.
-/
namespace BstreamVerif.ForkDB
open BstreamVerif

/-! ### markSent -/

theorem find_map_id {l : List Entry} (f : Entry → Entry) (hf : ∀ e, (f e).blk.id = e.blk.id) (x : Id) :
    (l.map f).find? (fun e => e.blk.id == x) = (l.find? (fun e => e.blk.id == x)).map f := by
  induction l with
  | nil => rfl
  | cons a t ih =>
    rw [List.map_cons, List.find?_cons, List.find?_cons, hf a]
    cases (a.blk.id == x) with
    | true => rfl
    | false => exact ih

theorem find_markSent (db : DB) (y x : Id) :
    (db.markSent y).find x = (db.find x).map (fun e => if e.blk.id == y then { e with sent := true } else e) := by
  unfold DB.markSent DB.find
  exact find_map_id _ (fun e => by split <;> rfl) x

theorem link_markSent (db : DB) (y x : Id) : (db.markSent y).link x = db.link x := by
  unfold DB.link
  rw [find_markSent]
  cases db.find x with
  | none => rfl
  | some e => simp only [Option.map_some]; split <;> rfl

theorem find_isSome_markSent (db : DB) (y x : Id) : ((db.markSent y).find x).isSome = (db.find x).isSome := by
  rw [find_markSent]; simp

theorem isPath_markSent (db : DB) (y bottom : Id) (ids : List Id) :
    IsPath (db.markSent y) bottom ids ↔ IsPath db bottom ids := by
  induction ids generalizing bottom with
  | nil => exact Iff.rfl
  | cons i r ih => simp only [IsPath, link_markSent, find_isSome_markSent, ih]

theorem markSent_libRef (db : DB) (y : Id) : (db.markSent y).libRef = db.libRef := rfl
theorem markSent_length (db : DB) (y : Id) : (db.markSent y).entries.length = db.entries.length := by
  simp [DB.markSent]

/-! ### buffers that differ only in sent marks -/

/-- same LIB and the same stored blocks in the same order (only the sent marks may differ) -/
def SameBlks (db db' : DB) : Prop :=
  db'.libRef = db.libRef ∧ db'.entries.map (·.blk) = db.entries.map (·.blk) ∧ db'.initNum = db.initNum

theorem SameBlks.refl (db : DB) : SameBlks db db := ⟨rfl, rfl, rfl⟩
theorem SameBlks.trans {a b c : DB} (h1 : SameBlks a b) (h2 : SameBlks b c) : SameBlks a c :=
  ⟨h2.1.trans h1.1, h2.2.1.trans h1.2.1, h2.2.2.trans h1.2.2⟩

theorem sameBlks_markSent (db : DB) (y : Id) : SameBlks db (db.markSent y) := by
  refine ⟨rfl, ?_, rfl⟩
  simp only [DB.markSent, List.map_map]
  apply List.map_congr_left
  intro e _
  simp only [Function.comp]
  split <;> rfl

theorem find_blk (db : DB) (x : Id) :
    (db.find x).map (·.blk) = (db.entries.map (·.blk)).find? (fun b => b.id == x) := by
  unfold DB.find
  rw [List.find?_map]
  rfl

theorem SameBlks.find_blk {db db' : DB} (h : SameBlks db db') (x : Id) :
    (db'.find x).map (·.blk) = (db.find x).map (·.blk) := by
  rw [ForkDB.find_blk, ForkDB.find_blk, h.2.1]

theorem SameBlks.link {db db' : DB} (h : SameBlks db db') (x : Id) : db'.link x = db.link x := by
  have := h.find_blk x
  unfold DB.link
  cases h1 : db'.find x <;> cases h2 : db.find x <;> simp [h1, h2] at this ⊢
  rw [this]

theorem SameBlks.find_isSome {db db' : DB} (h : SameBlks db db') (x : Id) :
    (db'.find x).isSome = (db.find x).isSome := by
  have := h.find_blk x
  cases h1 : db'.find x <;> cases h2 : db.find x <;> simp [h1, h2] at this ⊢

theorem SameBlks.isPath {db db' : DB} (h : SameBlks db db') (bottom : Id) (ids : List Id) :
    IsPath db' bottom ids ↔ IsPath db bottom ids := by
  induction ids generalizing bottom with
  | nil => exact Iff.rfl
  | cons i r ih => simp only [IsPath, h.link, h.find_isSome, ih]

theorem SameBlks.length {db db' : DB} (h : SameBlks db db') : db'.entries.length = db.entries.length := by
  have := congrArg List.length h.2.1
  simpa using this

theorem SameBlks.mem_blk {db db' : DB} (h : SameBlks db db') (e : Entry) (he : e ∈ db'.entries) :
    ∃ e0 ∈ db.entries, e0.blk = e.blk := by
  have : e.blk ∈ db'.entries.map (·.blk) := List.mem_map.mpr ⟨e, he, rfl⟩
  rw [h.2.1] at this
  obtain ⟨e0, h0, h1⟩ := List.mem_map.mp this
  exact ⟨e0, h0, h1⟩

theorem SameBlks.numOf? {db db' : DB} (h : SameBlks db db') (x : Id) : db'.numOf? x = db.numOf? x := by
  have := h.find_blk x
  unfold DB.numOf?
  rw [h.2.2]
  cases h1 : db'.find x <;> cases h2 : db.find x <;> simp [h1, h2] at this ⊢
  rw [this]

theorem SameBlks.blockInChainAux {db db' : DB} (h : SameBlks db db') (t fuel : Nat) (cur : Id) (n : Nat) :
    db'.blockInChainAux t fuel cur n = db.blockInChainAux t fuel cur n := by
  induction fuel generalizing cur n with
  | zero => rfl
  | succ k ih =>
    unfold DB.blockInChainAux
    simp only [h.link, h.numOf?]
    cases db.numOf? (db.link cur) with
    | none => rfl
    | some pn => simp only [ih]

theorem SameBlks.blockInChain {db db' : DB} (h : SameBlks db db') (start : Ref) (t : Nat) :
    db'.blockInChain start t = db.blockInChain start t := by
  unfold DB.blockInChain
  rw [h.blockInChainAux, h.length]

/-! ### addLink of a block that is not stored -/

theorem addLink_fresh (db : DB) (b : Blk) (hid : b.id ≠ "") (hpar : b.id ≠ b.parent) (hf : db.find b.id = none) :
    db.addLink b = ({ db with entries := db.entries ++ [⟨b, false⟩] }, false) := by
  unfold DB.addLink
  have h1 : (b.id == b.parent || b.id == "") = false := by simp [hid, hpar]
  have h2 : (db.link b.id != "") = false := by simp [DB.link, hf]
  simp [h1, h2, hf]

theorem find_append_other (db : DB) (b : Blk) (x : Id) (hx : x ≠ b.id) :
    ({ db with entries := db.entries ++ [⟨b, false⟩] } : DB).find x = db.find x := by
  unfold DB.find
  simp only [List.find?_append]
  cases h : db.entries.find? (fun e => e.blk.id == x) with
  | some e => rfl
  | none =>
    simp only [Option.none_or, List.find?_cons, List.find?_nil]
    have : (b.id == x) = false := by simp [Ne.symm hx]
    simp [this]

theorem find_append_self (db : DB) (b : Blk) (hf : db.find b.id = none) :
    ({ db with entries := db.entries ++ [⟨b, false⟩] } : DB).find b.id = some ⟨b, false⟩ := by
  unfold DB.find at hf ⊢
  simp only [List.find?_append, hf, Option.none_or, List.find?_cons, beq_self_eq_true]

theorem isPath_append_entry (db : DB) (b : Blk) (bottom : Id) (ids : List Id) (h : IsPath db bottom ids)
    (hf : db.find b.id = none) : IsPath ({ db with entries := db.entries ++ [⟨b, false⟩] } : DB) bottom ids := by
  induction ids generalizing bottom with
  | nil => trivial
  | cons i r ih =>
    have hi : i ≠ b.id := by
      intro hc; have := h.2.1; rw [hc, hf] at this; cases this
    refine ⟨?_, ?_, ih i h.2.2⟩
    · unfold DB.link; rw [find_append_other db b i hi]; exact h.1
    · rw [find_append_other db b i hi]; exact h.2.1

/-- a path in the extended buffer that avoids the new block is a path in the old one -/
theorem isPath_of_append_entry (db : DB) (b : Blk) (bottom : Id) (ids : List Id)
    (h : IsPath ({ db with entries := db.entries ++ [⟨b, false⟩] } : DB) bottom ids) (hn : b.id ∉ ids) :
    IsPath db bottom ids := by
  induction ids generalizing bottom with
  | nil => trivial
  | cons i r ih =>
    have hi : i ≠ b.id := fun hc => hn (by simp [hc])
    have hr : b.id ∉ r := fun hc => hn (by simp [hc])
    refine ⟨?_, ?_, ih i h.2.2 hr⟩
    · have := h.1; unfold DB.link at this ⊢; rw [find_append_other db b i hi] at this; exact this
    · have := h.2.1; rw [find_append_other db b i hi] at this; exact this

/-! ### purge -/

theorem find_filter_of_pass {α} (l : List α) (q p : α → Bool) (e : α) (h : l.find? q = some e) (hp : p e = true) :
    (l.filter p).find? q = some e := by
  induction l with
  | nil => simp at h
  | cons a t ih =>
    rw [List.find?_cons] at h
    by_cases hq : q a = true
    · simp only [hq] at h
      injection h with h; subst h
      rw [List.filter_cons_of_pos hp, List.find?_cons, hq]
    · simp only [hq] at h
      by_cases hpa : p a = true
      · rw [List.filter_cons_of_pos hpa, List.find?_cons]; simp only [hq]; exact ih h
      · rw [List.filter_cons_of_neg hpa]; exact ih h

theorem find_purge (db : DB) (kept : Nat) (x : Id) (e : Entry) (h : db.find x = some e)
    (hn : db.libRef.num - kept ≤ e.blk.num) : (db.purgeBeforeLIB kept).find x = some e := by
  unfold DB.purgeBeforeLIB DB.find
  exact find_filter_of_pass _ _ _ e h (by simpa using hn)

theorem mem_purge (db : DB) (kept : Nat) (e : Entry) (h : e ∈ (db.purgeBeforeLIB kept).entries) : e ∈ db.entries := by
  simp only [DB.purgeBeforeLIB, List.mem_filter] at h
  exact h.1

end BstreamVerif.ForkDB
