import BstreamVerif.Lemmas.SwitchShape
/-!
Completeness of `ReversibleSegment`: when a block links back to the LIB through stored blocks, the walk finds the
path — it is never cut short by the below-the-LIB test, by a missing entry or by the fuel. (The soundness half, with
no assumption on the buffer, is in `ForkDBLemmas`.) This is what turns the tip rule of C03 into a statement about the
block tree: a fresh block that links to the LIB and triggers *does* move the tip.
-/
namespace BstreamVerif.ForkDB
open BstreamVerif

/-- the extra `nums` entry written by `InitLIB`, while it is there, is the LIB's own number -/
def InitNumOK (db : DB) : Prop := ∀ i n, db.initNum = some (i, n) → i = db.libRef.id → n = db.libRef.num

/-- the number the walk reads for the LIB is never "above the first streamable block and below the LIB" -/
theorem numOf_lib_ok (db : DB) (hh : Heights db) (hi : InitNumOK db) (fsb : Nat) :
    (decide (db.numOf db.libRef.id > fsb) && decide (db.numOf db.libRef.id < db.libRef.num)) = false := by
  have : db.numOf db.libRef.id = db.libRef.num ∨ db.numOf db.libRef.id = 0 := by
    unfold DB.numOf DB.numOf?
    cases hf : db.find db.libRef.id with
    | some e =>
      left
      simp only [Option.getD_some]
      exact hh.2.2 e (find_mem db _ e hf) (find_id db _ e hf)
    | none =>
      simp only
      cases hin : db.initNum with
      | none => right; rfl
      | some p =>
        obtain ⟨i, n⟩ := p
        simp only
        by_cases hid : (i == db.libRef.id) = true
        · left; simp only [hid, if_true, Option.getD_some]; exact hi i n hin (beq_iff_eq.mp hid)
        · right; simp [hid]
  rcases this with h | h <;> rw [h] <;> simp

/-- **completeness of the walk**: along a path of stored blocks resting on the LIB, started at the top of the path
    with the number the buffer stores for it and enough fuel, the walk returns the whole path -/
theorem revSegAux_complete (db : DB) (hh : Heights db) (hi : InitNumOK db) (fsb : Nat)
    (ids : List Id) (hp : IsPath db db.libRef.id ids) (hn : db.libRef.id ∉ ids) :
    ∀ (fuel : Nat) (acc : List Entry), ids.length < fuel →
      ∃ l, db.revSegAux fsb fuel (topOf db.libRef.id ids) (db.numOf (topOf db.libRef.id ids)) acc = (some (l ++ acc), true) ∧
        l.map (·.blk.id) = ids := by
  induction ids using rev_ind with
  | nil =>
    intro fuel acc hf
    cases fuel with
    | zero => omega
    | succ n =>
      refine ⟨[], ?_, rfl⟩
      simp only [topOf_nil]
      unfold DB.revSegAux
      rw [if_neg (by rw [numOf_lib_ok db hh hi fsb]; simp)]
      simp
  | append_singleton l x ih =>
    intro fuel acc hf
    rw [isPath_append] at hp
    simp only [IsPath, and_true] at hp
    obtain ⟨hp1, hlink, hpres⟩ := hp
    have hn1 : db.libRef.id ∉ l := fun hm => hn (by simp [hm])
    have hxl : x ≠ db.libRef.id := fun hc => hn (by simp [hc])
    cases hfx : db.find x with
    | none => rw [hfx] at hpres; cases hpres
    | some e =>
      have hnum : db.libRef.num < e.blk.num :=
        heights_path db hh db.libRef.id db.libRef.num (l ++ [x]) (by
          rw [isPath_append]; simp only [IsPath, and_true]; exact ⟨hp1, hlink, hpres⟩) hh.2.1 x (by simp) e hfx
      cases fuel with
      | zero => omega
      | succ n =>
        simp only [topOf_append_singleton]
        unfold DB.revSegAux
        rw [numOf_of_find db x e hfx]
        rw [if_neg (by simp; omega)]
        rw [if_neg (by simpa using hxl)]
        simp only [hfx]
        have hpar : e.blk.parent = topOf db.libRef.id l := by rw [← link_of_find db x e hfx]; exact hlink
        have hentid : (⟨{ e.blk with num := e.blk.num }, e.sent⟩ : Entry).blk.id = x := find_id db x e hfx
        generalize (⟨{ e.blk with num := e.blk.num }, e.sent⟩ : Entry) = ent at hentid ⊢
        rw [hpar]
        obtain ⟨l', h1, h2⟩ := ih hp1 hn1 n (ent :: acc) (by
          simp only [List.length_append, List.length_singleton] at hf; omega)
        refine ⟨l' ++ [ent], ?_, ?_⟩
        · rw [h1]; simp
        · rw [List.map_append, h2]; simp [hentid]

/-- `ReversibleSegment` finds every block that links back to the LIB through stored blocks -/
theorem reversibleSegment_complete (db : DB) (hh : Heights db) (hi : InitNumOK db) (fsb : Nat)
    (ids : List Id) (hp : IsPath db db.libRef.id ids) (hn : db.libRef.id ∉ ids) (start : Ref)
    (hs : start.id = topOf db.libRef.id ids) (hnum : start.num = db.numOf start.id) :
    ∃ l, db.reversibleSegment fsb start = (some l, true) ∧ l.map (·.blk.id) = ids := by
  unfold DB.reversibleSegment
  rw [hnum, hs]
  obtain ⟨l, h1, h2⟩ := revSegAux_complete db hh hi fsb ids hp hn (db.entries.length + 1) []
    (by have := isPath_length_le db _ ids hp hn; omega)
  exact ⟨l, by rw [h1]; simp, h2⟩

/-! ### the LIB is actually followed: `BlockInCurrentChain` and `HasNewIrreversibleSegment` are complete on pending blocks -/

/-- walking down a path of stored blocks whose heights grow, `BlockInCurrentChain` stops at the block the path rests
    on when that block has the target height -/
theorem blockInChainAux_complete (db : DB) (hh : Heights db) (x : Id) (ex : Entry) (hx : db.find x = some ex)
    (post : List Id) (hp : IsPath db x post) (hne : post ≠ []) :
    ∀ (fuel : Nat) (curNum : Nat), post.length ≤ fuel →
      db.blockInChainAux ex.blk.num fuel (topOf x post) curNum = ⟨x, ex.blk.num⟩ := by
  induction post using rev_ind with
  | nil => exact absurd rfl hne
  | append_singleton l y ih =>
    intro fuel curNum hf
    rw [isPath_append] at hp
    simp only [IsPath, and_true] at hp
    obtain ⟨hp1, hlink, _⟩ := hp
    cases fuel with
    | zero => simp at hf
    | succ n =>
      simp only [topOf_append_singleton]
      unfold DB.blockInChainAux
      simp only [hlink]
      by_cases hl : l = []
      · subst hl
        simp only [topOf_nil]
        have : db.numOf? x = some ex.blk.num := by simp [DB.numOf?, hx]
        rw [this]
        simp
      · -- the previous block is above x: keep walking
        have hmem : topOf x l ∈ l := by
          rcases topOf_mem x l with h | h
          · rcases List.eq_nil_or_concat l with h0 | ⟨l0, z, hz⟩
            · exact absurd h0 hl
            · rw [List.concat_eq_append] at hz; subst hz; simp
          · exact h
        cases hfp : db.find (topOf x l) with
        | none =>
          have := isPath_present db x l hp1 _ hmem
          rw [hfp] at this; cases this
        | some ep =>
          have hhigh : ex.blk.num < ep.blk.num :=
            heights_path db hh x ex.blk.num l hp1
              (fun e he hpar => hh.1 e he ex (find_mem db x ex hx) (by rw [hpar, find_id db x ex hx])) _ hmem ep hfp
          have : db.numOf? (topOf x l) = some ep.blk.num := by simp [DB.numOf?, hfp]
          rw [this]
          simp only
          rw [if_neg (by simp; omega), if_neg (by omega)]
          exact ih hp1 hl n ep.blk.num (by simp only [List.length_append, List.length_singleton] at hf; omega)

theorem blockInChain_complete (db : DB) (hh : Heights db) (x : Id) (ex : Entry) (hx : db.find x = some ex)
    (post : List Id) (hp : IsPath db x post) (hne : post ≠ []) (hlen : post.length ≤ db.entries.length)
    (start : Ref) (hs : start.id = topOf x post) (hnum : start.num ≠ ex.blk.num) :
    db.blockInChain start ex.blk.num = ⟨x, ex.blk.num⟩ := by
  unfold DB.blockInChain
  rw [if_neg (by simpa using hnum), hs]
  exact blockInChainAux_complete db hh x ex hx post hp hne _ _ (by omega)

/-- a pending block — a block on a path resting on the LIB — is the end of a new irreversible segment -/
theorem hasNew_complete (db : DB) (hh : Heights db) (hi : InitNumOK db) (fsb : Nat) (pre : List Id) (x : Id)
    (hp : IsPath db db.libRef.id (pre ++ [x])) (hn : db.libRef.id ∉ pre ++ [x]) (R : Ref) (hR : R.id = x)
    (hnum : R.num = db.numOf x) : (db.hasNewIrreversibleSegment fsb R).1 = true := by
  unfold DB.hasNewIrreversibleSegment
  have hne : (db.libRef.id == R.id) = false := by
    cases h : db.libRef.id == R.id
    · rfl
    · exact absurd (by rw [beq_iff_eq.mp h, hR]; simp) hn
  rw [hne]
  simp only [Bool.false_eq_true, if_false]
  obtain ⟨l, h1, h2⟩ := reversibleSegment_complete db hh hi fsb (pre ++ [x]) hp hn R (by rw [hR]; simp) (by rw [hR]; exact hnum)
  rw [h1]
  cases l with
  | nil => simp at h2
  | cons c cs => rfl

end BstreamVerif.ForkDB
