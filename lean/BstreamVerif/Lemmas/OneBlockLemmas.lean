import BstreamVerif.Model.OneBlock
import BstreamVerif.Lemmas.CursorLemmas
namespace BstreamVerif.OneBlockLemmas
open BstreamVerif.OneBlock BstreamVerif.Cursor BstreamVerif.CursorLemmas

theorem splitDash_dashFree (p : Bytes) (h : dash ∉ p) : splitDash p = [p] := by
  induction p with
  | nil => rfl
  | cons b rest ih =>
    have hb : b ≠ dash := fun e => h (by simp [e])
    have hr : dash ∉ rest := fun e => h (by simp [e])
    simp [splitDash, hb, ih hr]

theorem splitDash_append (p rest : Bytes) (h : dash ∉ p) :
    splitDash (p ++ dash :: rest) = p :: splitDash rest := by
  induction p with
  | nil => simp [splitDash]
  | cons b tl ih =>
    have hb : b ≠ dash := fun e => h (by simp [e])
    have hr : dash ∉ tl := fun e => h (by simp [e])
    simp [splitDash, hb, ih hr]

theorem splitDash_join : ∀ (ps : List Bytes), ps ≠ [] → (∀ p ∈ ps, dash ∉ p) →
    splitDash (joinDash ps) = ps
  | [], h, _ => absurd rfl h
  | [p], _, h => by simpa [joinDash] using splitDash_dashFree p (h p (by simp))
  | p :: q :: r, _, h => by
    rw [joinDash, splitDash_append _ _ (h p (by simp)),
      splitDash_join (q :: r) (by simp) (fun x hx => h x (by simp [hx]))]

theorem digit_ne_dash (d : Nat) (h : d < 10) : digitByte d ≠ dash := by
  have : d = 0 ∨ d = 1 ∨ d = 2 ∨ d = 3 ∨ d = 4 ∨ d = 5 ∨ d = 6 ∨ d = 7 ∨ d = 8 ∨ d = 9 := by omega
  rcases this with h | h | h | h | h | h | h | h | h | h <;> subst h <;> decide

theorem showNat_dashFree (n : Nat) : dash ∉ showNat n := by
  fun_induction showNat n with
  | case1 n h =>
    simp only [List.mem_singleton]; exact fun h' => digit_ne_dash n h h'.symm
  | case2 n h ih =>
    have hd : n % 10 < 10 := Nat.mod_lt _ (by decide)
    simp only [List.mem_append, List.mem_singleton, not_or]
    exact ⟨ih, fun h' => digit_ne_dash _ hd h'.symm⟩

theorem pad10_dashFree (n : Nat) : dash ∉ pad10 n := by
  unfold pad10
  simp only [List.mem_append, List.mem_replicate, not_or]
  exact ⟨fun h => by have := h.2; exact absurd this (by decide), showNat_dashFree n⟩

theorem parseDigits_zeros (k : Nat) (d : Bytes) :
    parseDigitsAcc 0 (List.replicate k 48 ++ d) = parseDigitsAcc 0 d := by
  induction k with
  | zero => simp
  | succ k ih =>
    simp only [List.replicate_succ, List.cons_append, parseDigitsAcc]
    have : isDigit 48 = true := by decide
    simp only [this, if_true]
    have : (0 * 10 + ((48 : UInt8).toNat - 48)) = 0 := by decide
    rw [this]; exact ih

theorem parseUint64_pad10 (n : Nat) (h : n < 2 ^ 64) : parseUint64 (pad10 n) = some n := by
  unfold parseUint64 pad10
  have hne := showNat_ne_nil n
  have : (List.replicate (10 - (showNat n).length) 48 ++ showNat n).isEmpty = false := by
    cases hs : showNat n with
    | nil => exact absurd hs hne
    | cons a b => simp
  simp only [this, Bool.false_eq_true, if_false, parseDigits_zeros, parse_showNat, h, if_true]

theorem trunc16_dashFree (s : Bytes) (h : dash ∉ s) : dash ∉ trunc16 s := by
  unfold trunc16
  split
  · exact h
  · exact fun hm => h (List.mem_of_mem_drop hm)

theorem trunc16_length (s : Bytes) : (trunc16 s).length ≤ 16 := by
  unfold trunc16
  split
  · assumption
  · simp; omega

end BstreamVerif.OneBlockLemmas
