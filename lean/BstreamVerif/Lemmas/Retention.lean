import BstreamVerif.Lemmas.Complete
import BstreamVerif.Lemmas.ForkInv
/-!
Buffers that differ only *below* the LIB — what two forkables with different retention settings (`kept`) hold after the
same history — answer every walk the forkable makes in the same way (C03: "outputs do not depend on the retention
setting"). This file: the relation `SameAbove` and the agreement of lookups, paths and `ReversibleSegment`.
-/
namespace BstreamVerif.ForkDB
open BstreamVerif BstreamVerif.Forkable

/-- the entries at or above the LIB height, in buffer order -/
def above (db : DB) : List Entry := db.entries.filter (fun e => decide (db.libRef.num ≤ e.blk.num))

/-- two buffers that differ only below the LIB -/
structure SameAbove (db₁ db₂ : DB) : Prop where
  lib : db₂.libRef = db₁.libRef
  init : db₂.initNum = db₁.initNum
  ents : above db₂ = above db₁

theorem SameAbove.refl (db : DB) : SameAbove db db := ⟨rfl, rfl, rfl⟩
theorem SameAbove.symm {a b : DB} (h : SameAbove a b) : SameAbove b a := ⟨h.lib.symm, h.init.symm, h.ents.symm⟩

theorem find_above (db : DB) (x : Id) (e : Entry) (h : db.find x = some e) (hn : db.libRef.num ≤ e.blk.num) :
    (above db).find? (fun e => e.blk.id == x) = some e :=
  find_filter_of_pass _ _ _ e h (by simpa using hn)

theorem find_of_above (db : DB) (hw : WfEntries db) (x : Id) (e : Entry)
    (h : (above db).find? (fun e => e.blk.id == x) = some e) : db.find x = some e := by
  have hm : e ∈ above db := List.mem_of_find?_eq_some h
  have hid : e.blk.id = x := by have := List.find?_some h; simpa using this
  have := find_of_mem db hw e (List.mem_filter.mp hm).1
  rw [hid] at this; exact this

/-- a block stored at or above the LIB in one buffer is stored, identically, in the other -/
theorem SameAbove.find {db₁ db₂ : DB} (h : SameAbove db₁ db₂) (hw₂ : WfEntries db₂) (x : Id) (e : Entry)
    (hf : db₁.find x = some e) (hn : db₁.libRef.num ≤ e.blk.num) : db₂.find x = some e := by
  apply find_of_above db₂ hw₂
  rw [h.ents]; exact find_above db₁ x e hf hn

/-- paths resting on the LIB exist in both buffers -/
theorem SameAbove.isPath {db₁ db₂ : DB} (h : SameAbove db₁ db₂) (hw₂ : WfEntries db₂) (hh₁ : Heights db₁)
    (ids : List Id) (hp : IsPath db₁ db₁.libRef.id ids) : IsPath db₂ db₂.libRef.id ids := by
  have hab := heights_path db₁ hh₁ db₁.libRef.id db₁.libRef.num ids hp hh₁.2.1
  rw [h.lib]
  clear hh₁
  generalize db₁.libRef.id = bottom at hp ⊢
  induction ids generalizing bottom with
  | nil => trivial
  | cons i r ih =>
    cases hfi : db₁.find i with
    | none => have := hp.2.1; rw [hfi] at this; cases this
    | some ei =>
      have hn := hab i (by simp) ei hfi
      have hf2 := h.find hw₂ i ei hfi (by omega)
      refine ⟨?_, by rw [hf2]; rfl, ih (fun x hx e he => hab x (by simp [hx]) e he) i hp.2.2⟩
      have := hp.1
      unfold DB.link at this ⊢
      rw [hfi] at this; rw [hf2]; exact this

/-- the entries of a reversible segment are the stored entries themselves -/
theorem reversibleSegment_entries (db : DB) (fsb : Nat) (start : Ref) (l : List Entry)
    (h : db.reversibleSegment fsb start = (some l, true))
    (hs : ∀ e, db.find start.id = some e → e.blk.num = start.num) :
    ∀ x ∈ l, db.find x.blk.id = some x := by
  intro x hx
  obtain ⟨_, _, _, _, h5⟩ := reversibleSegment_sound db fsb start l h
  obtain ⟨e0, g1, g2, g3, g4, g5⟩ := h5 x hx
  obtain ⟨e1, k1, k2⟩ := reversibleSegment_nums db fsb start l true h hs x hx
  rw [g1] at k1; injection k1 with k1; subst k1
  rw [g1]
  congr 1
  rcases x with ⟨⟨xi, xp, xn, xl⟩, xs⟩
  rcases e0 with ⟨⟨ei, ep, en, el⟩, es⟩
  simp only at g2 g3 g4 g5 k2
  subst g2; subst g3; subst g4; subst g5; subst k2
  rfl

theorem entries_eq_of_ids (f : Id → Option Entry) (l l' : List Entry) (h : l.map (·.blk.id) = l'.map (·.blk.id))
    (h1 : ∀ x ∈ l, f x.blk.id = some x) (h2 : ∀ y ∈ l', f y.blk.id = some y) : l = l' := by
  induction l generalizing l' with
  | nil => cases l' with
    | nil => rfl
    | cons y r => simp at h
  | cons x r ih =>
    cases l' with
    | nil => simp at h
    | cons y r' =>
      simp only [List.map_cons, List.cons.injEq] at h
      have hx := h1 x (by simp)
      have hy := h2 y (by simp)
      rw [h.1, hy] at hx
      injection hx with hx
      subst hx
      rw [ih r' h.2 (fun z hz => h1 z (by simp [hz])) (fun z hz => h2 z (by simp [hz]))]

/-- a reversible segment found in one buffer is found, identically, in the other -/
theorem SameAbove.revSeg_transfer {db₁ db₂ : DB} (h : SameAbove db₁ db₂) (hw₁ : WfEntries db₁) (hw₂ : WfEntries db₂)
    (hh₁ : Heights db₁) (hh₂ : Heights db₂) (hi₂ : InitNumOK db₂) (fsb : Nat) (start : Ref) (l : List Entry)
    (hr : db₁.reversibleSegment fsb start = (some l, true))
    (hs : ∀ e, db₁.find start.id = some e → e.blk.num = start.num) :
    db₂.reversibleSegment fsb start = (some l, true) := by
  obtain ⟨hp, htop, hnl, _, _⟩ := reversibleSegment_sound db₁ fsb start l hr
  have hent := reversibleSegment_entries db₁ fsb start l hr hs
  have hn : db₁.libRef.id ∉ l.map (·.blk.id) := by
    intro hm; obtain ⟨x, hx, hxe⟩ := List.mem_map.mp hm; exact hnl x hx hxe
  have hab := heights_path db₁ hh₁ db₁.libRef.id db₁.libRef.num _ hp hh₁.2.1
  cases l with
  | nil =>
    -- the start block is the LIB itself
    simp only [List.map_nil, topOf_nil] at htop
    unfold DB.reversibleSegment at hr ⊢
    unfold DB.revSegAux at hr ⊢
    rw [h.lib]
    by_cases hc : (decide (start.num > fsb) && decide (start.num < db₁.libRef.num)) = true
    · rw [if_pos hc] at hr; cases hr
    · rw [if_neg hc]
      have : (start.id == db₁.libRef.id) = true := by simp [htop]
      rw [if_pos this]
  | cons c cs =>
    have hp₂ := h.isPath hw₂ hh₁ _ hp
    have hn₂ : db₂.libRef.id ∉ (c :: cs).map (·.blk.id) := by rw [h.lib]; exact hn
    -- the start block is stored, with its number, in both
    have hstart : start.id ∈ (c :: cs).map (·.blk.id) := by
      rw [← htop]; exact topOf_cons_mem _ _ _
    obtain ⟨xs, hxs, hxid⟩ := List.mem_map.mp hstart
    have hfs := hent xs hxs
    rw [hxid] at hfs
    have hfs₂ := h.find hw₂ start.id xs hfs (by have := hab start.id hstart xs hfs; omega)
    obtain ⟨l₂, h1, h2⟩ := reversibleSegment_complete db₂ hh₂ hi₂ fsb _ hp₂ hn₂ start
      (by rw [h.lib]; exact htop.symm) (by rw [numOf_of_find db₂ _ xs hfs₂]; exact (hs xs hfs).symm)
    rw [h1]
    have hs₂ : ∀ e, db₂.find start.id = some e → e.blk.num = start.num := by
      intro e he; rw [hfs₂] at he; injection he with he; subst he; exact hs xs hfs
    have hent₂ := reversibleSegment_entries db₂ fsb start l₂ h1 hs₂
    have : l₂ = c :: cs := by
      apply entries_eq_of_ids db₂.find l₂ (c :: cs) h2 hent₂
      intro y hy
      have hfy := hent y hy
      exact h.find hw₂ _ y hfy (by have := hab y.blk.id (List.mem_map.mpr ⟨y, hy, rfl⟩) y hfy; omega)
    rw [this]

/-- `ReversibleSegment` gives the same answer in both buffers -/
theorem SameAbove.revSeg_fst {db₁ db₂ : DB} (h : SameAbove db₁ db₂) (hw₁ : WfEntries db₁) (hw₂ : WfEntries db₂)
    (hh₁ : Heights db₁) (hh₂ : Heights db₂) (hi₁ : InitNumOK db₁) (hi₂ : InitNumOK db₂) (hl : db₁.hasLIB = true)
    (fsb : Nat) (start : Ref)
    (hs₁ : ∀ e, db₁.find start.id = some e → e.blk.num = start.num)
    (hs₂ : ∀ e, db₂.find start.id = some e → e.blk.num = start.num) :
    (db₁.reversibleSegment fsb start).1 = (db₂.reversibleSegment fsb start).1 := by
  have hl₂ : db₂.hasLIB = true := by unfold DB.hasLIB at hl ⊢; rw [h.lib]; exact hl
  cases hr₁ : db₁.reversibleSegment fsb start with
  | mk o₁ b₁ =>
    cases o₁ with
    | some l =>
      have hb : b₁ = true := revSegAux_reach _ _ _ _ _ _ _ _ hl hr₁
      subst hb
      rw [h.revSeg_transfer hw₁ hw₂ hh₁ hh₂ hi₂ fsb start l hr₁ hs₁]
    | none =>
      cases hr₂ : db₂.reversibleSegment fsb start with
      | mk o₂ b₂ =>
        cases o₂ with
        | none => rfl
        | some l₂ =>
          have hb : b₂ = true := revSegAux_reach _ _ _ _ _ _ _ _ hl₂ hr₂
          subst hb
          have := h.symm.revSeg_transfer hw₂ hw₁ hh₂ hh₁ hi₁ fsb start l₂ hr₂ hs₂
          rw [hr₁] at this; cases this

/-- lookups agree on ids whose stored entries, in either buffer, are not below the LIB -/
theorem SameAbove.find_agree {db₁ db₂ : DB} (h : SameAbove db₁ db₂) (hw₁ : WfEntries db₁) (hw₂ : WfEntries db₂) (x : Id)
    (h1 : ∀ e, db₁.find x = some e → db₁.libRef.num ≤ e.blk.num)
    (h2 : ∀ e, db₂.find x = some e → db₁.libRef.num ≤ e.blk.num) : db₂.find x = db₁.find x := by
  cases hf₁ : db₁.find x with
  | some e => exact h.find hw₂ x e hf₁ (h1 e hf₁)
  | none =>
    cases hf₂ : db₂.find x with
    | none => rfl
    | some e =>
      have := h.symm.find hw₁ x e hf₂ (by rw [h.lib]; exact h2 e hf₂)
      rw [hf₁] at this; cases this

theorem above_append (db : DB) (b : Blk) :
    above (appendBlk db b) = above db ++ (if db.libRef.num ≤ b.num then [⟨b, false⟩] else []) := by
  unfold above appendBlk
  simp only [List.filter_append]
  congr 1
  by_cases hb : db.libRef.num ≤ b.num
  · simp [hb]
  · simp [hb]

theorem SameAbove.append {db₁ db₂ : DB} (h : SameAbove db₁ db₂) (b : Blk) :
    SameAbove (appendBlk db₁ b) (appendBlk db₂ b) := by
  refine ⟨h.lib, h.init, ?_⟩
  rw [above_append, above_append, h.ents, h.lib]

/-- the decomposition of two paths into common part, undo part and redo part is unique once undo and redo share nothing -/
theorem switch_unique (P L A A' U U' R R' : List Id)
    (h1 : P = A ++ U.reverse) (h2 : L = A ++ R) (h3 : ∀ x ∈ R, x ∉ U)
    (h1' : P = A' ++ U'.reverse) (h2' : L = A' ++ R') (h3' : ∀ x ∈ R', x ∉ U') :
    A = A' ∧ U = U' ∧ R = R' := by
  have key : ∀ (A A' U U' R R' : List Id), A ++ U.reverse = A' ++ U'.reverse → A ++ R = A' ++ R' →
      (∀ x ∈ R, x ∉ U) → ∀ a', A' = A ++ a' → U.reverse = a' ++ U'.reverse → a' = [] := by
    intro A A' U U' R R' _ hL hd a' ha hu
    cases a' with
    | nil => rfl
    | cons z t =>
      exfalso
      rw [ha, List.append_assoc] at hL
      have hR : R = (z :: t) ++ R' := List.append_cancel_left hL
      have hzR : z ∈ R := by rw [hR]; simp
      have hzU : z ∈ U := by
        have : z ∈ U.reverse := by rw [hu]; simp
        simpa using this
      exact hd z hzR hzU
  have hP : A ++ U.reverse = A' ++ U'.reverse := by rw [← h1, ← h1']
  have hL : A ++ R = A' ++ R' := by rw [← h2, ← h2']
  rcases List.append_eq_append_iff.mp hP with ⟨a', ha, hu⟩ | ⟨c', hc, hu⟩
  · have := key A A' U U' R R' hP hL h3 a' ha hu
    subst this
    simp only [List.append_nil] at ha
    subst ha
    simp only [List.nil_append] at hu
    have hUU : U = U' := by simpa using congrArg List.reverse hu
    exact ⟨rfl, hUU, List.append_cancel_left hL⟩
  · have := key A' A U' U R' R hP.symm hL.symm h3' c' hc hu
    subst this
    simp only [List.append_nil] at hc
    subst hc
    simp only [List.nil_append] at hu
    have hUU : U' = U := by simpa using congrArg List.reverse hu
    exact ⟨rfl, hUU.symm, List.append_cancel_left hL⟩

/-- lookups agree on the blocks of a path resting on the LIB -/
theorem SameAbove.find_on_path {db₁ db₂ : DB} (h : SameAbove db₁ db₂) (hw₂ : WfEntries db₂) (hh₁ : Heights db₁)
    (ids : List Id) (hp : IsPath db₁ db₁.libRef.id ids) : ∀ x ∈ ids, db₂.find x = db₁.find x := by
  intro x hx
  have hab := heights_path db₁ hh₁ db₁.libRef.id db₁.libRef.num ids hp hh₁.2.1 x hx
  cases hf : db₁.find x with
  | none => have := isPath_present db₁ _ ids hp x hx; rw [hf] at this; cases this
  | some e => exact h.find hw₂ x e hf (by have := hab e hf; omega)

/-- lookups of the LIB block itself agree -/
theorem SameAbove.find_lib {db₁ db₂ : DB} (h : SameAbove db₁ db₂) (hw₁ : WfEntries db₁) (hw₂ : WfEntries db₂)
    (hh₁ : Heights db₁) (hh₂ : Heights db₂) : db₂.find db₁.libRef.id = db₁.find db₁.libRef.id := by
  apply h.find_agree hw₁ hw₂
  · intro e he
    have := hh₁.2.2 e (find_mem db₁ _ e he) (find_id db₁ _ e he); omega
  · intro e he
    have := hh₂.2.2 e (find_mem db₂ _ e he) (by rw [h.lib]; exact find_id db₂ _ e he)
    rw [h.lib] at this; omega

theorem mapM_congr_mem {α β} (f g : α → Option β) (l : List α) (h : ∀ x ∈ l, f x = g x) : l.mapM f = l.mapM g := by
  induction l with
  | nil => rfl
  | cons a t ih =>
    rw [List.mapM_cons, List.mapM_cons, h a (by simp), ih (fun x hx => h x (by simp [hx]))]

/-- `ChainSwitchSegments` between the consumer's chain and the chain of the new block's parent is the same -/
theorem SameAbove.chainSwitch_eq {db₁ db₂ : DB} (h : SameAbove db₁ db₂) (hw₁ : WfEntries db₁) (hw₂ : WfEntries db₂)
    (hh₁ : Heights db₁) (hh₂ : Heights db₂) (hl : db₁.libRef.id ≠ "") (P L : List Id)
    (hP : IsPath db₁ db₁.libRef.id P) (hPn : db₁.libRef.id ∉ P) (hL : IsPath db₁ db₁.libRef.id L)
    (hLn : db₁.libRef.id ∉ L) :
    db₂.chainSwitchSegments (topOf db₁.libRef.id P) (topOf db₁.libRef.id L) =
      db₁.chainSwitchSegments (topOf db₁.libRef.id P) (topOf db₁.libRef.id L) ∧
    ∃ undo redo j Pj, db₁.chainSwitchSegments (topOf db₁.libRef.id P) (topOf db₁.libRef.id L) = some (undo, redo, j) ∧
      P = Pj ++ undo.reverse ∧ L = Pj ++ redo ∧ topOf db₁.libRef.id Pj = j := by
  obtain ⟨u₁, r₁, j₁, A₁, hc₁, hP₁, hL₁, hj₁⟩ := chainSwitch_shape db₁ hw₁ hh₁ hl P L hP hPn hL hLn
  have hP₂ := h.isPath hw₂ hh₁ P hP
  have hL₂ := h.isPath hw₂ hh₁ L hL
  obtain ⟨u₂, r₂, j₂, A₂, hc₂, hP₂', hL₂', hj₂⟩ := chainSwitch_shape db₂ hw₂ hh₂ (by rw [h.lib]; exact hl) P L hP₂
    (by rw [h.lib]; exact hPn) hL₂ (by rw [h.lib]; exact hLn)
  rw [h.lib] at hc₂ hj₂
  have hd₁ := (chainSwitchSegments_sound db₁ _ _ u₁ r₁ j₁ hc₁).2.2.2.2.2.2.1
  have hd₂ := (chainSwitchSegments_sound db₂ _ _ u₂ r₂ j₂ hc₂).2.2.2.2.2.2.1
  obtain ⟨hA, hU, hR⟩ := switch_unique P L A₁ A₂ u₁ u₂ r₁ r₂ hP₁ hL₁ hd₁ hP₂' hL₂' hd₂
  subst hA; subst hU; subst hR
  refine ⟨by rw [hc₁, hc₂, ← hj₁, ← hj₂], u₁, r₁, j₁, A₁, hc₁, hP₁, hL₁, hj₁⟩

theorem above_markSent (db : DB) (y : Id) :
    above (db.markSent y) = (above db).map (fun e => if e.blk.id == y then { e with sent := true } else e) := by
  unfold above DB.markSent
  simp only
  rw [List.filter_map]
  congr 1
  apply List.filter_congr
  intro e _
  simp only [Function.comp]
  split <;> rfl

theorem SameAbove.markSent {db₁ db₂ : DB} (h : SameAbove db₁ db₂) (y : Id) :
    SameAbove (db₁.markSent y) (db₂.markSent y) := by
  refine ⟨h.lib, h.init, ?_⟩
  rw [above_markSent, above_markSent, h.ents]

theorem filter_of_imp {α} (l : List α) (p q : α → Bool) (h : ∀ a, p a = true → q a = true) :
    l.filter p = (l.filter q).filter p := by
  induction l with
  | nil => rfl
  | cons a t ih =>
    by_cases hq : q a = true
    · rw [List.filter_cons_of_pos hq]
      by_cases hp : p a = true
      · rw [List.filter_cons_of_pos hp, List.filter_cons_of_pos hp, ih]
      · rw [List.filter_cons_of_neg hp, List.filter_cons_of_neg hp, ih]
    · have hp : ¬ p a = true := fun hp => hq (h a hp)
      rw [List.filter_cons_of_neg hq, List.filter_cons_of_neg hp, ih]

/-- what is at or above the new LIB after a LIB move and the purge does not depend on the retention -/
theorem above_movePurge (db : DB) (R : Ref) (k : Nat) (h : db.libRef.num ≤ R.num) :
    above ((db.moveLIB R).purgeBeforeLIB k) = (above db).filter (fun e => decide (R.num ≤ e.blk.num)) := by
  unfold above DB.purgeBeforeLIB DB.moveLIB
  simp only
  rw [← filter_of_imp db.entries _ _ (by intro a ha; simp only [decide_eq_true_eq] at ha ⊢; omega)]
  rw [← filter_of_imp db.entries _ _ (by intro a ha; simp only [decide_eq_true_eq] at ha ⊢; omega)]

theorem SameAbove.movePurge {db₁ db₂ : DB} (h : SameAbove db₁ db₂) (R : Ref) (k₁ k₂ : Nat) (hup : db₁.libRef.num ≤ R.num) :
    SameAbove ((db₁.moveLIB R).purgeBeforeLIB k₁) ((db₂.moveLIB R).purgeBeforeLIB k₂) := by
  refine ⟨rfl, rfl, ?_⟩
  rw [above_movePurge db₁ R k₁ hup, above_movePurge db₂ R k₂ (by rw [h.lib]; exact hup), h.ents]

/-- the stalled blocks of a segment above the LIB are the same -/
theorem SameAbove.stalled_eq {db₁ db₂ : DB} (h : SameAbove db₁ db₂) (seg : List Entry)
    (hf : ∀ f, seg.head? = some f → db₁.libRef.num ≤ f.blk.num) :
    db₂.stalledInSegment seg = db₁.stalledInSegment seg := by
  unfold DB.stalledInSegment
  rw [h.lib]
  split
  · rfl
  · cases hh : seg.head? with
    | none => rfl
    | some f =>
      cases hl : seg.getLast? with
      | none => rfl
      | some l =>
        simp only
        have hge := hf f hh
        have e1 := filter_of_imp db₁.entries
          (fun e => !(seg.any (fun s => s.blk.id == e.blk.id)) && decide (e.blk.num ≥ f.blk.num) && decide (e.blk.num ≤ l.blk.num))
          (fun e => decide (db₁.libRef.num ≤ e.blk.num)) (by
            intro a ha; simp only [Bool.and_eq_true, decide_eq_true_eq] at ha ⊢; omega)
        have e2 := filter_of_imp db₂.entries
          (fun e => !(seg.any (fun s => s.blk.id == e.blk.id)) && decide (e.blk.num ≥ f.blk.num) && decide (e.blk.num ≤ l.blk.num))
          (fun e => decide (db₁.libRef.num ≤ e.blk.num)) (by
            intro a ha; simp only [Bool.and_eq_true, decide_eq_true_eq] at ha ⊢; omega)
        have ha : db₂.entries.filter (fun e => decide (db₁.libRef.num ≤ e.blk.num)) =
            db₁.entries.filter (fun e => decide (db₁.libRef.num ≤ e.blk.num)) := by
          have := h.ents; unfold above at this; rw [h.lib] at this; exact this
        rw [e1, e2, ha]

end BstreamVerif.ForkDB
