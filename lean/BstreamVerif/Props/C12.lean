import BstreamVerif.Conc.Shutter
import BstreamVerif.Facts
/-!
# C12 — Shutdown at any instant stops every source; handlers are never run concurrently
Interleaving model of shutter.Shutdown against the "obtain inner source → make it known → run it" pattern of
JoiningSource.run, EternalSource.Run and MultiplexedSource.connectSources (`Conc/Shutter.lean`). The pattern
each of them uses is *regenerated from /repo* on every run (`Facts.lean`); the theorems below are for every
schedule (any number of steps, any interleaving). Partial w.r.t. the Go runtime: goroutine scheduling inside
the modelled atomic steps, and the handler bodies, are not modelled; the dynamic `shutdown` suite samples them.
-/
namespace BstreamVerif.Props.C12
open BstreamVerif.Conc.Shutter

/-- run a schedule: a thread that is not enabled skips its turn -/
def runSched (p : Pattern) : St → List Tid → St
  | s, [] => s
  | s, t :: ts => match step p s t with
    | some s' => runSched p s' ts
    | none => runSched p s ts

def SafePattern (p : Pattern) : Prop := p = .registerThenCheck ∨ p = .lockedInit

theorem reach_closed (p : Pattern) (hp : SafePattern p) : reachClosed p = true := by
  rcases hp with rfl | rfl <;> decide

theorem reach_safe (p : Pattern) (hp : SafePattern p) : (reach p).all Safe = true := by
  rcases hp with rfl | rfl <;> decide

theorem reach_noleak (p : Pattern) (hp : SafePattern p) : (reach p).all NoLeak = true := by
  rcases hp with rfl | rfl <;> decide

theorem reach_live (p : Pattern) (hp : SafePattern p) : (reach p).all (Live p) = true := by
  rcases hp with rfl | rfl <;> decide

theorem init_in_reach (p : Pattern) : init ∈ reach p := by
  cases p <;> decide

/-- every state of every schedule lies in the (finite, explicitly computed) reachable set -/
theorem sched_in_reach (p : Pattern) (hc : reachClosed p = true) (sched : List Tid) :
    ∀ s, s ∈ reach p → runSched p s sched ∈ reach p := by
  induction sched with
  | nil => intro s hs; exact hs
  | cons t ts ih =>
    intro s hs
    simp only [runSched]
    cases hst : step p s t with
    | none => exact ih s hs
    | some s' =>
      apply ih s'
      have hall := List.all_eq_true.mp hc s hs
      have hmem : s' ∈ succs p s := by
        unfold succs
        simp only [List.mem_filterMap]
        exact ⟨t, by cases t <;> simp, hst⟩
      have := List.all_eq_true.mp hall s' hmem
      simpa using this

/-- **Shutdown at any instant reaches the inner source**: for every interleaving of the runner with a Shutdown
    of the outer source, once the shutdown callbacks have run and the runner sits in inner.Run(), the inner
    source has been shut down — so inner.Run(), and with it the outer Run, returns. -/
theorem shutdown_reaches_inner (p : Pattern) (hp : SafePattern p) (sched : List Tid) :
    Safe (runSched p init sched) = true := by
  have h := sched_in_reach p (reach_closed p hp) sched init (init_in_reach p)
  exact List.all_eq_true.mp (reach_safe p hp) _ h

/-- **no inner source is leaked**: when Shutdown has completed and the runner has returned, the inner source it had
    obtained has been shut down (also when the shutdown overtook its creation) -/
theorem no_inner_source_leaked (p : Pattern) (hp : SafePattern p) (sched : List Tid) :
    NoLeak (runSched p init sched) = true := by
  have h := sched_in_reach p (reach_closed p hp) sched init (init_in_reach p)
  exact List.all_eq_true.mp (reach_noleak p hp) _ h

/-- no deadlock before Run has returned: after Shutdown was called, as long as the runner has not returned,
    some thread can take a step (so every fair maximal run ends with Run returned) -/
theorem no_deadlock (p : Pattern) (hp : SafePattern p) (sched : List Tid) :
    Live p (runSched p init sched) = true := by
  have h := sched_in_reach p (reach_closed p hp) sched init (init_in_reach p)
  exact List.all_eq_true.mp (reach_live p hp) _ h

/-- progress measure: every enabled step strictly increases it, and it is bounded, so runs are finite -/
def rank (s : St) : Nat :=
  (match s.r with | .obtain => 0 | .publish => 1 | .check => 2 | .running => 3 | .returned => 4) +
  (match s.k with | .idle => 0 | .closedTerminating => 1 | .callbacksDone => 2 | .done => 3)

theorem step_increases_rank (p : Pattern) (s s' : St) (t : Tid) (h : step p s t = some s') : rank s < rank s' := by
  cases p <;> cases t <;> rcases s with ⟨r, k, kn, idn⟩ <;> cases r <;> cases k <;> cases kn <;> cases idn <;>
    simp [step, terminating] at h <;> subst h <;> decide

theorem rank_bounded (s : St) : rank s ≤ 7 := by
  rcases s with ⟨r, k, _, _⟩; cases r <;> cases k <;> simp [rank]

/-! ### the patterns found in the current source (regenerated facts) -/

theorem joining_uses_safe_pattern : SafePattern BstreamVerif.Facts.joiningPattern := by unfold SafePattern; decide
theorem eternal_uses_safe_pattern : SafePattern BstreamVerif.Facts.eternalPattern := by unfold SafePattern; decide
theorem multiplexed_uses_safe_pattern : SafePattern BstreamVerif.Facts.muxPattern := by unfold SafePattern; decide

theorem multiplexed_shutdown_reaches_inner (sched : List Tid) :
    Safe (runSched BstreamVerif.Facts.muxPattern init sched) = true ∧
    NoLeak (runSched BstreamVerif.Facts.muxPattern init sched) = true :=
  ⟨shutdown_reaches_inner _ multiplexed_uses_safe_pattern sched, no_inner_source_leaked _ multiplexed_uses_safe_pattern sched⟩

theorem joining_shutdown_reaches_inner (sched : List Tid) :
    Safe (runSched BstreamVerif.Facts.joiningPattern init sched) = true :=
  shutdown_reaches_inner _ joining_uses_safe_pattern sched

theorem eternal_shutdown_reaches_inner (sched : List Tid) :
    Safe (runSched BstreamVerif.Facts.eternalPattern init sched) = true :=
  shutdown_reaches_inner _ eternal_uses_safe_pattern sched

/-! ### the windows the unfixed code had (kernel-checked counter-schedules) -/

/-- registering the callback without re-checking: Shutdown completes between obtaining the source and registering -/
theorem register_only_counter :
    Safe (runSched .registerOnly init [.R, .K, .K, .R]) = false := by decide

/-- publishing the current source without the shutter lock (EternalSource's "we'll lock you some day") -/
theorem publish_only_counter :
    Safe (runSched .publishOnly init [.R, .K, .K, .R]) = false := by decide

/-- LockedInit whose failure branch shuts down only the outer source: a Shutdown that overtakes the creation of an
    inner source leaves that source neither run nor shut down (MultiplexedSource.connectSources before the fix) -/
theorem locked_init_leak_counter :
    NoLeak (runSched .lockedInitLeak init [.R, .K, .R, .K, .K]) = false := by decide

end BstreamVerif.Props.C12
