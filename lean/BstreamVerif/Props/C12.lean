import BstreamVerif.Conc.Shutter
import BstreamVerif.Facts
/-!
# C12 — Shutdown at any instant stops every source; handlers are never run concurrently
Interleaving model of shutter.Shutdown against the "obtain inner source → make it known → run it" pattern of
JoiningSource.run, EternalSource.Run and MultiplexedSource.connectSources (`Conc/Shutter.lean`). The pattern
each of them uses is *regenerated from /repo* on every run (`Facts.lean`); the theorems below are for every
schedule (any number of steps, any interleaving). Partial w.r.t. the Go runtime: goroutine scheduling inside
the modelled atomic steps, and the handler bodies, are not modelled; the dynamic `shutdown` suite samples them.
-/
namespace BstreamVerif.Props.C12
open BstreamVerif.Conc.Shutter

/-- run a schedule: a thread that is not enabled skips its turn -/
def runSched (p : Pattern) : St → List Tid → St
  | s, [] => s
  | s, t :: ts => match step p s t with
    | some s' => runSched p s' ts
    | none => runSched p s ts

def SafePattern (p : Pattern) : Prop := p = .registerThenCheck ∨ p = .lockedInit

theorem reach_closed (p : Pattern) (hp : SafePattern p) : reachClosed p = true := by
  rcases hp with rfl | rfl <;> decide

theorem reach_safe (p : Pattern) (hp : SafePattern p) : (reach p).all Safe = true := by
  rcases hp with rfl | rfl <;> decide

theorem reach_noleak (p : Pattern) (hp : SafePattern p) : (reach p).all NoLeak = true := by
  rcases hp with rfl | rfl <;> decide

theorem reach_live (p : Pattern) (hp : SafePattern p) : (reach p).all (Live p) = true := by
  rcases hp with rfl | rfl <;> decide

theorem init_in_reach (p : Pattern) : init ∈ reach p := by
  cases p <;> decide

/-- every state of every schedule lies in the (finite, explicitly computed) reachable set -/
theorem sched_in_reach (p : Pattern) (hc : reachClosed p = true) (sched : List Tid) :
    ∀ s, s ∈ reach p → runSched p s sched ∈ reach p := by
  induction sched with
  | nil => intro s hs; exact hs
  | cons t ts ih =>
    intro s hs
    simp only [runSched]
    cases hst : step p s t with
    | none => exact ih s hs
    | some s' =>
      apply ih s'
      have hall := List.all_eq_true.mp hc s hs
      have hmem : s' ∈ succs p s := by
        unfold succs
        simp only [List.mem_filterMap]
        exact ⟨t, by cases t <;> simp, hst⟩
      have := List.all_eq_true.mp hall s' hmem
      simpa using this

/-- **Shutdown at any instant reaches the inner source**: for every interleaving of the runner with a Shutdown
    of the outer source, once the shutdown callbacks have run and the runner sits in inner.Run(), the inner
    source has been shut down — so inner.Run(), and with it the outer Run, returns. -/
theorem shutdown_reaches_inner (p : Pattern) (hp : SafePattern p) (sched : List Tid) :
    Safe (runSched p init sched) = true := by
  have h := sched_in_reach p (reach_closed p hp) sched init (init_in_reach p)
  exact List.all_eq_true.mp (reach_safe p hp) _ h

/-- **no inner source is leaked**: when Shutdown has completed and the runner has returned, the inner source it had
    obtained has been shut down (also when the shutdown overtook its creation) -/
theorem no_inner_source_leaked (p : Pattern) (hp : SafePattern p) (sched : List Tid) :
    NoLeak (runSched p init sched) = true := by
  have h := sched_in_reach p (reach_closed p hp) sched init (init_in_reach p)
  exact List.all_eq_true.mp (reach_noleak p hp) _ h

/-- no deadlock before Run has returned: after Shutdown was called, as long as the runner has not returned,
    some thread can take a step (so every fair maximal run ends with Run returned) -/
theorem no_deadlock (p : Pattern) (hp : SafePattern p) (sched : List Tid) :
    Live p (runSched p init sched) = true := by
  have h := sched_in_reach p (reach_closed p hp) sched init (init_in_reach p)
  exact List.all_eq_true.mp (reach_live p hp) _ h

/-- progress measure: every enabled step strictly increases it, and it is bounded, so runs are finite -/
def rank (s : St) : Nat :=
  (match s.r with | .obtain => 0 | .publish => 1 | .check => 2 | .running => 3 | .returned => 4) +
  (match s.k with | .idle => 0 | .closedTerminating => 1 | .callbacksDone => 2 | .done => 3)

theorem step_increases_rank (p : Pattern) (s s' : St) (t : Tid) (h : step p s t = some s') : rank s < rank s' := by
  cases p <;> cases t <;> rcases s with ⟨r, k, kn, idn⟩ <;> cases r <;> cases k <;> cases kn <;> cases idn <;>
    simp [step, terminating] at h <;> subst h <;> decide

theorem rank_bounded (s : St) : rank s ≤ 7 := by
  rcases s with ⟨r, k, _, _⟩; cases r <;> cases k <;> simp [rank]

/-! ### the patterns found in the current source (regenerated facts) -/

theorem joining_uses_safe_pattern : SafePattern BstreamVerif.Facts.joiningPattern := by unfold SafePattern; decide
theorem eternal_uses_safe_pattern : SafePattern BstreamVerif.Facts.eternalPattern := by unfold SafePattern; decide
theorem multiplexed_uses_safe_pattern : SafePattern BstreamVerif.Facts.muxPattern := by unfold SafePattern; decide

theorem multiplexed_shutdown_reaches_inner (sched : List Tid) :
    Safe (runSched BstreamVerif.Facts.muxPattern init sched) = true ∧
    NoLeak (runSched BstreamVerif.Facts.muxPattern init sched) = true :=
  ⟨shutdown_reaches_inner _ multiplexed_uses_safe_pattern sched, no_inner_source_leaked _ multiplexed_uses_safe_pattern sched⟩

theorem joining_shutdown_reaches_inner (sched : List Tid) :
    Safe (runSched BstreamVerif.Facts.joiningPattern init sched) = true :=
  shutdown_reaches_inner _ joining_uses_safe_pattern sched

theorem eternal_shutdown_reaches_inner (sched : List Tid) :
    Safe (runSched BstreamVerif.Facts.eternalPattern init sched) = true :=
  shutdown_reaches_inner _ eternal_uses_safe_pattern sched

/-! ### the windows the unfixed code had (kernel-checked counter-schedules) -/

/-- registering the callback without re-checking: Shutdown completes between obtaining the source and registering -/
theorem register_only_counter :
    Safe (runSched .registerOnly init [.R, .K, .K, .R]) = false := by decide

/-- publishing the current source without the shutter lock (EternalSource's "we'll lock you some day") -/
theorem publish_only_counter :
    Safe (runSched .publishOnly init [.R, .K, .K, .R]) = false := by decide

/-- LockedInit whose failure branch shuts down only the outer source: a Shutdown that overtakes the creation of an
    inner source leaves that source neither run nor shut down (MultiplexedSource.connectSources before the fix) -/
theorem locked_init_leak_counter :
    NoLeak (runSched .lockedInitLeak init [.R, .K, .R, .K, .K]) = false := by decide

/-! ### a multiplexed source never runs two handler calls concurrently (mutex model + regenerated fact) -/

/-- handler wrappers of any number of inner sources and incarnations: `enter t` = take the mutex (when the wrapper
    takes it) and start the handler call; `leave t` = return from the handler and release. -/
inductive MuxAct where
  | enter (t : Nat) | leave (t : Nat)
deriving DecidableEq, Repr

structure MuxSt where
  holder : Option Nat := none
  inCall : List Nat := []
  maxOverlap : Nat := 0
deriving DecidableEq, Repr

def muxStep (serialized : Bool) (s : MuxSt) : MuxAct → MuxSt
  | .enter t =>
    if serialized then
      match s.holder with
      | some _ => s                                   -- blocked on handlerLock
      | none => { holder := some t, inCall := t :: s.inCall, maxOverlap := max s.maxOverlap (s.inCall.length + 1) }
    else { s with inCall := t :: s.inCall, maxOverlap := max s.maxOverlap (s.inCall.length + 1) }
  | .leave t =>
    if s.inCall.contains t then
      { s with inCall := s.inCall.erase t, holder := if s.holder = some t then none else s.holder }
    else s

def muxRun (serialized : Bool) (sched : List MuxAct) : MuxSt := sched.foldl (muxStep serialized) {}

def MuxInv (s : MuxSt) : Prop := s.maxOverlap ≤ 1 ∧ ((s.holder = none ∧ s.inCall = []) ∨ (∃ t, s.holder = some t ∧ s.inCall = [t]))

theorem mux_step_inv (s : MuxSt) (a : MuxAct) (h : MuxInv s) : MuxInv (muxStep true s a) := by
  obtain ⟨hm, hc⟩ := h
  cases a with
  | enter t =>
    rcases hc with ⟨hh, hi⟩ | ⟨u, hh, hi⟩
    · simp only [muxStep, if_true, hh, hi]
      exact ⟨by simp; omega, Or.inr ⟨t, rfl, rfl⟩⟩
    · simp only [muxStep, if_true, hh]
      exact ⟨hm, Or.inr ⟨u, hh, hi⟩⟩
  | leave t =>
    rcases hc with ⟨hh, hi⟩ | ⟨u, hh, hi⟩
    · simp only [muxStep, hi]
      exact ⟨hm, Or.inl ⟨hh, hi⟩⟩
    · by_cases e : u = t
      · subst e
        simp [muxStep, hi, hh, MuxInv, hm]
      · have : ([u] : List Nat).contains t = false := by simp; exact fun h => e h.symm
        simp only [muxStep, hi, this]
        exact ⟨hm, Or.inr ⟨u, hh, hi⟩⟩

theorem mux_run_inv (sched : List MuxAct) : ∀ s, MuxInv s → MuxInv (sched.foldl (muxStep true) s) := by
  induction sched with
  | nil => intro s h; exact h
  | cons a as ih => intro s h; exact ih _ (mux_step_inv s a h)

/-- **with the mutex taken unconditionally, no schedule of any number of wrappers (inner sources, reconnected
    incarnations) ever has two handler calls in flight** -/
theorem serialized_never_overlaps (sched : List MuxAct) : (muxRun true sched).maxOverlap ≤ 1 :=
  (mux_run_inv sched {} ⟨by decide, Or.inl ⟨rfl, rfl⟩⟩).1

/-- counter-schedule: without the mutex (e.g. skipped for a single factory) an old incarnation's call still in flight
    overlaps with the first call of its replacement -/
theorem unserialized_overlaps : (muxRun false [.enter 0, .enter 1]).maxOverlap = 2 := by decide

/-- the current source: every handler wrapper in `connectSources` takes `handlerLock` unconditionally (regenerated fact) -/
theorem multiplexed_handler_is_serialized : BstreamVerif.Facts.muxHandlerSerialized = true := by decide

theorem multiplexed_never_overlaps (sched : List MuxAct) :
    (muxRun BstreamVerif.Facts.muxHandlerSerialized sched).maxOverlap ≤ 1 := by
  rw [multiplexed_handler_is_serialized]; exact serialized_never_overlaps sched


end BstreamVerif.Props.C12
