import BstreamVerif.Lemmas.Complete
import BstreamVerif.Lemmas.StepCheckSound
import BstreamVerif.Props.C02
import BstreamVerif.Props.C01
/-!
# C18 — the fork buffer is bounded by the window above the LIB; its lookups match the stream

`window_after_lib_move`: after every LIB move nothing below LIB − retention is stored; `purge_keeps_window`: and
nothing at or above it is removed; `stored_when_linked` / `lookup_by_hash`: a block that was linked is returned by
hash; `head_is_last_new`: HeadInfo is the last block delivered as New. `canonical_lookup_on_consumer_chain` / `history_canonical_lookup`: the canonical lookup at the height of a block of the
consumer's pending chain returns that block. LowestBlockNum and the lookup on retained *final* blocks are compared
with the consumer's chain by the C18 monitors on every run.
-/
namespace BstreamVerif.Props.C18
open BstreamVerif BstreamVerif.Forkable BstreamVerif.ForkDB

theorem window_after_lib_move (cfg : Config) (a : Acc) (b : Blk) (fi : Option Entry) (libRef : Ref)
    (hmove : (!(a.st.db.hasNewIrreversibleSegment cfg.fsb libRef).1 && fi.isNone) = false) :
    (advanceTo cfg a b fi libRef).st.db.libRef = libRef ∧
    ∀ e ∈ (advanceTo cfg a b fi libRef).st.db.entries, libRef.num - cfg.kept ≤ e.blk.num :=
  advanceTo_window cfg a b fi libRef hmove

theorem purge_keeps_window (db : DB) (kept : Nat) (e : Entry) (he : e ∈ db.entries)
    (hn : db.libRef.num - kept ≤ e.blk.num) : e ∈ (db.purgeBeforeLIB kept).entries :=
  purge_keeps db kept e he hn

/-- and the lookup by hash still finds it -/
theorem lookup_survives_purge (db : DB) (kept : Nat) (x : Id) (e : Entry) (h : db.find x = some e)
    (hn : db.libRef.num - kept ≤ e.blk.num) : (db.purgeBeforeLIB kept).find x = some e :=
  find_purge db kept x e h hn

/-- a block that is linked is returned by hash, on whatever fork it lies -/
theorem lookup_by_hash (s : FState) (b : Blk) (hf : s.db.find b.id = none) :
    getBlockByHash { s with db := appendBlk s.db b } b.id = some b := by
  unfold getBlockByHash appendBlk
  rw [find_append_self s.db b hf]; rfl

/-- and by number -/
theorem lookup_by_number (s : FState) (b : Blk) (hf : s.db.find b.id = none) :
    b ∈ allBlocksAt { s with db := appendBlk s.db b } b.num := by
  unfold allBlocksAt
  apply List.mem_map.mpr
  refine ⟨⟨b, false⟩, ?_, rfl⟩
  rw [Props.C02.mem_sortById]
  simp [appendBlk]

/-- other stored blocks are unaffected by linking a new one -/
theorem lookup_stable (s : FState) (b : Blk) (x : Id) (hx : x ≠ b.id) :
    getBlockByHash { s with db := appendBlk s.db b } x = getBlockByHash s x := by
  unfold getBlockByHash appendBlk
  rw [find_append_other s.db b x hx]

/-- the sent marks do not change what the lookups return -/
theorem lookup_ignores_sent_marks (db db' : DB) (h : SameBlks db db') (x : Id) :
    (db'.find x).map (·.blk) = (db.find x).map (·.blk) := h.find_blk x

/-- HeadInfo is the last block delivered as New: after the deliveries for a chain, the head is the last block of
    the chain that had not been sent -/
theorem head_is_last_new (cfg : Config) (hnew : cfg.matches .new = true) (head : Ref) (ch : List Entry) (a : Acc)
    (hf : a.failed = false) (hn : a.failAt = none) (hnd : (ch.map (·.blk.id)).Nodup)
    (hpres : ∀ e ∈ ch, (a.st.db.find e.blk.id).isSome) :
    headInfo (ch.foldl (newStep cfg head) a).st =
      (((ch.filter (fun e => !isSent a.st.db e.blk.id)).getLast?).map (·.blk)).or a.st.lastSent :=
  (foldl_newStep_char cfg hnew head ch a hf hn hnd hpres).last

/-! ## every block received at or above the LIB is returned by hash — along every history -/

/-- the buffer returns, by hash, every block of `G` at or above its LIB -/
def Keeps (G : List Blk) (db : DB) : Prop :=
  ∀ g ∈ G, db.libRef.num ≤ g.num → ∃ e, db.find g.id = some e ∧ e.blk = g

theorem keeps_step (cfg : Config) (hnew : cfg.matches .new = true) (hundo : cfg.matches .undo = true)
    (hirr : cfg.matches .irreversible = true) (U : Id → Option Blk) (hU : UOK U) (F : List Id)
    (s : FState) (P : List Id) (b : Blk) (hI : Inv s P) (hJ : Inv2 U F s.db) (hbU : U b.id = some b)
    (hL : LibDeclOK s.db b) (hni : s.includeInit = false ∨ s.lastSent.isSome = true ∨ b.id ≠ s.db.libRef.id)
    (G : List Blk) (hG : ∀ g ∈ G, U g.id = some g) (hK : Keeps G s.db) :
    Keeps (G ++ [b]) (processBlock cfg s b none).1.db := by
  obtain ⟨_, _, _, _, _, hshape⟩ := processBlock_step cfg hnew hundo hirr s P b hI hni
    (sentClosed_of_inv2 U F s.db hI.wf hI.heights hJ) (hU.wf b.id b hbU) (hb_of_inv2 U hU F s.db hJ b hbU) hL
  have hwf := hU.wf b.id b hbU
  rcases hshape with ⟨hsame, hwhy⟩ | ⟨hf, db2, hsb, hcase⟩
  · -- nothing changed: the block is invalid, below the LIB, or already stored
    rw [hsame]
    intro g hg hn
    simp only [List.mem_append, List.mem_singleton] at hg
    rcases hg with hg | rfl
    · exact hK g hg hn
    · rcases hwhy with h | h | h
      · exact absurd h hwf.2.2
      · omega
      · obtain ⟨_, _, hlink⟩ := (addLink_exists_iff s.db g).mp h
        cases hfind : s.db.find g.id with
        | none => simp [DB.link, hfind] at hlink
        | some e =>
          refine ⟨e, rfl, ?_⟩
          have h1 := hJ.inU e (find_mem _ _ e hfind)
          rw [find_id _ _ e hfind, hbU] at h1
          injection h1 with h1
          exact h1.symm
  · -- the block was linked
    have hKa : Keeps (G ++ [b]) (appendBlk s.db b) := by
      intro g hg hn
      have hgU : U g.id = some g := by
        simp only [List.mem_append, List.mem_singleton] at hg
        rcases hg with hg | rfl
        · exact hG g hg
        · exact hbU
      by_cases hid : g.id = b.id
      · have : g = b := by rw [hid, hbU] at hgU; injection hgU with h; exact h.symm
        subst this
        exact ⟨⟨g, false⟩, find_append_self s.db g hf, rfl⟩
      · simp only [List.mem_append, List.mem_singleton] at hg
        rcases hg with hg | rfl
        · obtain ⟨e, he, heb⟩ := hK g hg hn
          exact ⟨e, by unfold appendBlk; rw [find_append_other s.db b _ hid]; exact he, heb⟩
        · exact absurd rfl hid
    have hK2 : Keeps (G ++ [b]) db2 := by
      intro g hg hn
      rw [hsb.1] at hn
      obtain ⟨e, he, heb⟩ := hKa g hg hn
      have := hsb.find_blk g.id
      rw [he] at this
      cases hf2 : db2.find g.id with
      | none => rw [hf2] at this; simp at this
      | some e2 =>
        rw [hf2] at this
        simp only [Option.map_some, Option.some.injEq] at this
        exact ⟨e2, rfl, by rw [this]; exact heb⟩
    rcases hcase with h | ⟨R, er, hdb, _, _, hup⟩
    · rw [h]; exact hK2
    · rw [hdb]
      intro g hg hn
      have hlib : ((db2.moveLIB R).purgeBeforeLIB cfg.kept).libRef = R := rfl
      rw [hlib] at hn
      obtain ⟨e, he, heb⟩ := hK2 g hg (by omega)
      exact ⟨e, find_movePurge db2 R cfg.kept g.id e he (by rw [heb]; omega), heb⟩

/-- **every history of blocks of one consistent block tree**: whatever was fed, in whatever order, every fed block at
    or above the final LIB — on any fork — is returned by hash (and hence by number: `lookup_by_number`). -/
theorem history_lookup_complete (cfg : Config) (hnew : cfg.matches .new = true) (hundo : cfg.matches .undo = true)
    (hirr : cfg.matches .irreversible = true) (U : Id → Option Blk) (hU : UOK U) (h : List Blk) (F : List Id)
    (s : FState) (P : List Id) (hI : Inv s P) (hJ : Inv2 U F s.db) (hin : ∀ b ∈ h, U b.id = some b)
    (hL : Props.C01.LibHistOK cfg s h) (hincl : s.includeInit = false)
    (G : List Blk) (hG : ∀ g ∈ G, U g.id = some g) (hK : Keeps G s.db) :
    Keeps (G ++ h) (runHistory cfg s h).1.db := by
  induction h generalizing s P F G with
  | nil => simpa [runHistory] using hK
  | cons b r ih =>
    obtain ⟨P1, F1, _, hI1, hJ1, _⟩ :=
      Props.C01.step_discipline_consistent cfg hnew hundo hirr U hU F s P b hI hJ (hin b (by simp)) hL.1 (Or.inl hincl)
    have hK1 := keeps_step cfg hnew hundo hirr U hU F s P b hI hJ (hin b (by simp)) hL.1 (Or.inl hincl) G hG hK
    have := ih F1 _ P1 hI1 hJ1 (fun x hx => hin x (by simp [hx])) hL.2 (by rw [processBlock_includeInit]; exact hincl) (G ++ [b])
      (by intro g hg; simp only [List.mem_append, List.mem_singleton] at hg
          rcases hg with hg | rfl
          · exact hG g hg
          · exact hin g (by simp)) hK1
    rw [Props.C01.runHistory_cons]
    simpa [List.append_assoc] using this

/-- **the canonical lookup at a height present on the consumer's chain returns exactly that chain's block** (state
    level: any state of the invariant; `P` is the consumer's pending chain, from the LIB to the last block delivered
    as New): `BlockInCurrentChain` is complete along it (`Lemmas/Complete.blockInChain_complete`) -/
theorem canonical_lookup_on_consumer_chain (s : FState) (P : List Id) (hI : Inv s P) (l : Blk)
    (hls : s.lastSent = some l) (hlast : ∀ e, s.db.find l.id = some e → e.blk.num = l.num)
    (x : Id) (hx : x ∈ P) (ex : Entry) (hfx : s.db.find x = some ex) :
    canonicalBlockAt s ex.blk.num = some ex.blk := by
  unfold canonicalBlockAt
  rw [hls]
  simp only
  have htop := hI.topSome l hls
  obtain ⟨pre, post, hP⟩ := List.append_of_mem hx
  have hP' : P = (pre ++ [x]) ++ post := by rw [hP]; simp
  have hxne : x ≠ "" := fun h0 => wf_path_ne _ hI.wf _ P hI.path (h0 ▸ hx)
  have hres : s.db.blockInChain l.ref ex.blk.num = ⟨x, ex.blk.num⟩ := by
    by_cases hpost : post = []
    · subst hpost
      have hid : x = l.id := by rw [← htop, hP']; simp
      have hnum : ex.blk.num = l.num := hlast ex (by rw [← hid]; exact hfx)
      unfold DB.blockInChain
      rw [if_pos (by simp [Blk.ref, hnum])]
      simp [Blk.ref, hid, hnum]
    · have hp := hI.path
      rw [hP', isPath_append] at hp
      simp only [topOf_append_singleton] at hp
      have hnd := isPath_nodup _ _ P hI.path hI.libNotin
      have hxpost : x ∉ post := by
        rw [hP] at hnd
        exact (List.nodup_cons.mp (List.nodup_append.mp hnd).2.1).1
      have htop2 : topOf x post = l.id := by rw [← htop, hP', topOf_append]; simp
      have hlpost : l.id ∈ post := by
        rcases topOf_mem x post with h | h
        · exfalso
          rcases List.eq_nil_or_concat post with h0 | ⟨p0, z, hz⟩
          · exact hpost h0
          · rw [List.concat_eq_append] at hz; subst hz
            simp only [topOf_append_singleton] at h
            exact hxpost (by rw [← h]; simp)
        · rw [htop2] at h; exact h
      obtain ⟨el, hfl⟩ : ∃ e, s.db.find l.id = some e := by
        have := isPath_present _ _ _ hp.2 l.id hlpost
        cases hfr : s.db.find l.id with
        | none => rw [hfr] at this; cases this
        | some er => exact ⟨er, rfl⟩
      have hlow : ex.blk.num < el.blk.num :=
        heights_path s.db hI.heights x ex.blk.num post hp.2
          (fun e he hpar => hI.heights.1 e he ex (find_mem _ _ ex hfx) (by rw [hpar, find_id _ _ ex hfx])) l.id hlpost el hfl
      exact blockInChain_complete s.db hI.heights x ex hfx post hp.2 hpost
        (isPath_length_le _ x post hp.2 hxpost) l.ref (by rw [htop2]; rfl)
        (by show l.num ≠ ex.blk.num; rw [← hlast el hfl]; omega)
  rw [hres]
  simp [hxne, hfx]

/-- **along every history of blocks of one consistent block tree** (hypotheses on the input only): after the history,
    the canonical lookup at the height of any block of the consumer's pending chain returns that block -/
theorem history_canonical_lookup (cfg : Config) (hnew : cfg.matches .new = true) (hundo : cfg.matches .undo = true)
    (hirr : cfg.matches .irreversible = true) (U : Id → Option Blk) (hU : UOK U) (h : List Blk) (F : List Id)
    (s : FState) (P : List Id) (hI : Inv s P) (hJ : Inv2 U F s.db) (hH : HeadU U s)
    (hin : ∀ b ∈ h, U b.id = some b) (hL : Props.C01.LibHistOK cfg s h)
    (hincl : s.includeInit = false ∨ s.lastSent.isSome = true) :
    ∃ P', Inv (runHistory cfg s h).1 P' ∧
      ∀ x ∈ P', ∀ ex, (runHistory cfg s h).1.db.find x = some ex →
        canonicalBlockAt (runHistory cfg s h).1 ex.blk.num = some ex.blk := by
  obtain ⟨P', F', hI', hJ', hH'⟩ := Props.C01.history_all_invariants_consistent cfg hnew hundo hirr U hU h F s P hI hJ hH
    hin hL hincl
  refine ⟨P', hI', ?_⟩
  intro x hx ex hfx
  cases hls : (runHistory cfg s h).1.lastSent with
  | none =>
    have := (hI'.topNone hls).1
    rw [this] at hx; cases hx
  | some l =>
    obtain ⟨bl, hbl, hnum⟩ := hH' l hls
    apply canonical_lookup_on_consumer_chain _ P' hI' l hls _ x hx ex hfx
    intro e he
    have h1 := hJ'.inU e (find_mem _ _ e he)
    rw [find_id _ _ e he, hbl] at h1
    injection h1 with h1
    rw [← h1]; exact hnum

end BstreamVerif.Props.C18
