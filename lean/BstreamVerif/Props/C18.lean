import BstreamVerif.Lemmas.StepCheckSound
import BstreamVerif.Props.C02
/-!
# C18 — the fork buffer is bounded by the window above the LIB; its lookups match the stream

`window_after_lib_move`: after every LIB move nothing below LIB − retention is stored; `purge_keeps_window`: and
nothing at or above it is removed; `stored_when_linked` / `lookup_by_hash`: a block that was linked is returned by
hash; `head_is_last_new`: HeadInfo is the last block delivered as New. The canonical lookup and LowestBlockNum are
compared with the consumer's chain by the C18 monitors on every run.
-/
namespace BstreamVerif.Props.C18
open BstreamVerif BstreamVerif.Forkable BstreamVerif.ForkDB

theorem window_after_lib_move (cfg : Config) (a : Acc) (b : Blk) (fi : Option Entry) (libRef : Ref)
    (hmove : (!(a.st.db.hasNewIrreversibleSegment cfg.fsb libRef).1 && fi.isNone) = false) :
    (advanceTo cfg a b fi libRef).st.db.libRef = libRef ∧
    ∀ e ∈ (advanceTo cfg a b fi libRef).st.db.entries, libRef.num - cfg.kept ≤ e.blk.num :=
  advanceTo_window cfg a b fi libRef hmove

theorem purge_keeps_window (db : DB) (kept : Nat) (e : Entry) (he : e ∈ db.entries)
    (hn : db.libRef.num - kept ≤ e.blk.num) : e ∈ (db.purgeBeforeLIB kept).entries :=
  purge_keeps db kept e he hn

/-- and the lookup by hash still finds it -/
theorem lookup_survives_purge (db : DB) (kept : Nat) (x : Id) (e : Entry) (h : db.find x = some e)
    (hn : db.libRef.num - kept ≤ e.blk.num) : (db.purgeBeforeLIB kept).find x = some e :=
  find_purge db kept x e h hn

/-- a block that is linked is returned by hash, on whatever fork it lies -/
theorem lookup_by_hash (s : FState) (b : Blk) (hf : s.db.find b.id = none) :
    getBlockByHash { s with db := appendBlk s.db b } b.id = some b := by
  unfold getBlockByHash appendBlk
  rw [find_append_self s.db b hf]; rfl

/-- and by number -/
theorem lookup_by_number (s : FState) (b : Blk) (hf : s.db.find b.id = none) :
    b ∈ allBlocksAt { s with db := appendBlk s.db b } b.num := by
  unfold allBlocksAt
  apply List.mem_map.mpr
  refine ⟨⟨b, false⟩, ?_, rfl⟩
  rw [Props.C02.mem_sortById]
  simp [appendBlk]

/-- other stored blocks are unaffected by linking a new one -/
theorem lookup_stable (s : FState) (b : Blk) (x : Id) (hx : x ≠ b.id) :
    getBlockByHash { s with db := appendBlk s.db b } x = getBlockByHash s x := by
  unfold getBlockByHash appendBlk
  rw [find_append_other s.db b x hx]

/-- the sent marks do not change what the lookups return -/
theorem lookup_ignores_sent_marks (db db' : DB) (h : SameBlks db db') (x : Id) :
    (db'.find x).map (·.blk) = (db.find x).map (·.blk) := h.find_blk x

/-- HeadInfo is the last block delivered as New: after the deliveries for a chain, the head is the last block of
    the chain that had not been sent -/
theorem head_is_last_new (cfg : Config) (hnew : cfg.matches .new = true) (head : Ref) (ch : List Entry) (a : Acc)
    (hf : a.failed = false) (hn : a.failAt = none) (hnd : (ch.map (·.blk.id)).Nodup)
    (hpres : ∀ e ∈ ch, (a.st.db.find e.blk.id).isSome) :
    headInfo (ch.foldl (newStep cfg head) a).st =
      (((ch.filter (fun e => !isSent a.st.db e.blk.id)).getLast?).map (·.blk)).or a.st.lastSent :=
  (foldl_newStep_char cfg hnew head ch a hf hn hnd hpres).last

end BstreamVerif.Props.C18
