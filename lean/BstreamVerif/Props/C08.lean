import BstreamVerif.Conc.Locks
import BstreamVerif.Facts
/-!
# C08 — Hub subscriptions are atomic with block processing and independent of each other
Small-step model of two concurrent registrations on the hub's subscriber slice (`Conc/Locks.lean`), parameterised
by the lock facts regenerated from /repo. Partial w.r.t. the Go runtime (see DESIGN §5).
-/
namespace BstreamVerif.Props.C08
open BstreamVerif.Conc.Locks

def runReg (ex : Bool) : RegSt → List Bool → RegSt
  | s, [] => s
  | s, t :: ts => match regStep ex s t with
    | some s' => runReg ex s' ts
    | none => runReg ex s ts

theorem reg_in_reach (ex : Bool) (hc : regReachClosed ex = true) (sched : List Bool) :
    ∀ s, s ∈ regReach ex → runReg ex s sched ∈ regReach ex := by
  induction sched with
  | nil => intro s hs; exact hs
  | cons t ts ih =>
    intro s hs
    simp only [runReg]
    cases hst : regStep ex s t with
    | none => exact ih s hs
    | some s' =>
      apply ih s'
      have hall := List.all_eq_true.mp hc s hs
      have hmem : s' ∈ regSuccs ex s := by
        unfold regSuccs
        simp only [List.mem_filterMap]
        exact ⟨t, by cases t <;> simp, hst⟩
      simpa using List.all_eq_true.mp hall s' hmem

/-- with mutually exclusive registrations no subscription is ever lost, for every interleaving -/
theorem registrations_never_lost (sched : List Bool) : regSafe (runReg true regInit sched) = true := by
  have h := reg_in_reach true (by decide) sched regInit (by decide)
  exact List.all_eq_true.mp (by decide : (regReach true).all regSafe = true) _ h

/-- F-C08, kernel-checked: without exclusion two subscribers read the same slice and one registration is lost -/
theorem lost_registration_counter : regSafe (runReg false regInit [true, false, true, false]) = false := by decide

/-- the facts of the current tree: bursts hold a lock that excludes the feeder (which holds the write lock), and
    registrations exclude each other -/
theorem hub_facts_safe : BstreamVerif.Facts.hub.Safe = true := by decide

/-- a push to a subscriber never blocks the feeder: the capacity check and the send are separated only by
    consumer receives, which shrink the channel -/
theorem push_never_blocks (cap lenAtCheck lenAtSend : Nat) (hcheck : lenAtCheck ≠ cap) (hle : lenAtCheck ≤ cap)
    (hshrink : lenAtSend ≤ lenAtCheck) : lenAtSend < cap := by omega

/-- **burst ++ every later event, for every interleaving**: a hub subscription computes its burst and registers itself
    while it holds the forkable's lock (read side; the feeder's `ProcessBlock` holds the write side — `hub_facts_safe`
    regenerates this from /repo): in the interleaving model of `Conc.Locks` (the feeder pushes events 0, 1, 2, …; the
    subscriber snapshots what was pushed so far and registers, atomically) the events fanned out to the subscription
    are exactly those pushed since its snapshot, for every schedule -/
theorem hub_subscription_is_gapless (sched : List BstreamVerif.Conc.Locks.SAct) :
    BstreamVerif.Conc.Locks.lockGapless (BstreamVerif.Conc.Locks.lockRun true BstreamVerif.Conc.Locks.lockInit sched) :=
  BstreamVerif.Conc.Locks.locked_gapless sched

/-- … and the counter-schedule when burst and registration are not atomic with the feeder -/
theorem hub_subscription_unlocked_loses_an_event :
    ¬ BstreamVerif.Conc.Locks.lockGapless (BstreamVerif.Conc.Locks.lockRun false BstreamVerif.Conc.Locks.lockInit
      [.snapshot, .push, .register, .push]) := BstreamVerif.Conc.Locks.unlocked_loses

end BstreamVerif.Props.C08
