import BstreamVerif.Model.HubBurst
import BstreamVerif.Facts
import BstreamVerif.Props.C02
/-!
# C09 — hub snapshots are the canonical chain; readiness and the servable window are true

`blocksFromNum` answers from the head segment (CompleteSegment from the head: the retained canonical chain).
`fromNum_spec`: the answer is exactly the segment from the first block numbered `n` to the head, in order, and there
is no source when no block of the segment has that number; steps are new-and-irreversible up to the hub's LIB and
New above it; every cursor names the hub head. `withForks_spec`: the with-forks snapshot holds exactly the retained
blocks at or above `n`, each once, in non-decreasing height. Readiness (bootstrap) and LowestBlockNum are compared
with the implementation and monitored on every run (hubburst suite).
-/
namespace BstreamVerif.Props.C09
open BstreamVerif BstreamVerif.ForkDB BstreamVerif.Forkable BstreamVerif.HubBurst

def fromNumEv (s : FState) (h : Blk) (e : Entry) : Event :=
  wrap e (if e.blk.num ≤ s.db.libRef.num then .newIrreversible else .new) h.ref (capLib s.db.libRef e) none

theorem go_seen (head lib : Ref) (num : Nat) (l : List Entry) :
    fromNumGo head lib num true l =
      l.map (fun e => wrap e (if e.blk.num ≤ lib.num then .newIrreversible else .new) head (capLib lib e) none) := by
  induction l with
  | nil => rfl
  | cons e r ih => simp [fromNumGo, ih]

theorem go_unseen (head lib : Ref) (num : Nat) (l : List Entry) :
    fromNumGo head lib num false l =
      (l.dropWhile (fun e => e.blk.num != num)).map
        (fun e => wrap e (if e.blk.num ≤ lib.num then .newIrreversible else .new) head (capLib lib e) none) := by
  induction l with
  | nil => rfl
  | cons e r ih =>
    by_cases he : e.blk.num = num
    · have : (e.blk.num != num) = false := by simp [he]
      rw [List.dropWhile_cons_of_neg (by simp [this])]
      unfold fromNumGo
      simp only [Bool.false_or, he, beq_self_eq_true, Bool.not_true, Bool.false_eq_true, if_false, List.map_cons]
      rw [go_seen]
    · rw [List.dropWhile_cons_of_pos (by simp [he])]
      have hb : (e.blk.num == num) = false := by simp [he]
      unfold fromNumGo
      simp only [Bool.false_or, hb, Bool.not_false, if_true]
      exact ih

/-- **request by number**: exactly the canonical chain from the first block numbered `n` to the head; no source
    when the retained canonical chain has no block with that number -/
theorem fromNum_spec (s : FState) (n : Nat) (h : Blk) (seg : List Entry) (hs : headSegment s = some (h, seg)) :
    blocksFromNum s n =
      (if (seg.dropWhile (fun e => e.blk.num != n)).isEmpty then none
       else some ((seg.dropWhile (fun e => e.blk.num != n)).map (fromNumEv s h))) := by
  unfold blocksFromNum
  rw [hs]
  simp only
  rw [go_unseen]
  cases hd : seg.dropWhile (fun e => e.blk.num != n) with
  | nil => simp
  | cons a t => simp [fromNumEv]

/-- no head segment (hub without LIB or head, or a broken chain): no source -/
theorem fromNum_none (s : FState) (n : Nat) (hs : headSegment s = none) : blocksFromNum s n = none := by
  unfold blocksFromNum; rw [hs]

theorem dropWhile_isEmpty (n : Nat) (l : List Entry) :
    (l.dropWhile (fun e => e.blk.num != n)).isEmpty = !l.any (fun e => e.blk.num == n) := by
  induction l with
  | nil => rfl
  | cons a t ih =>
    by_cases ha : a.blk.num = n
    · rw [List.dropWhile_cons_of_neg (by simp [ha])]; simp [ha]
    · rw [List.dropWhile_cons_of_pos (by simp [ha])]
      simp [ha, ih]

theorem served_iff_retained_canonical (s : FState) (n : Nat) (h : Blk) (seg : List Entry)
    (hs : headSegment s = some (h, seg)) :
    (blocksFromNum s n).isSome = seg.any (fun e => e.blk.num == n) := by
  rw [fromNum_spec s n h seg hs, dropWhile_isEmpty]
  cases seg.any (fun e => e.blk.num == n) <;> simp

/-- steps and cursors of the answer -/
theorem fromNum_event_fields (s : FState) (h : Blk) (e : Entry) :
    (fromNumEv s h e).head = h.ref ∧ (fromNumEv s h e).blk = e.blk ∧
    ((fromNumEv s h e).step = .newIrreversible ↔ e.blk.num ≤ s.db.libRef.num) ∧
    ((fromNumEv s h e).step = .new ↔ ¬ e.blk.num ≤ s.db.libRef.num) ∧
    (fromNumEv s h e).lib.num ≤ e.blk.num := by
  unfold fromNumEv wrap capLib
  refine ⟨rfl, rfl, ?_, ?_, ?_⟩
  · by_cases hc : e.blk.num ≤ s.db.libRef.num <;> simp [hc]
  · by_cases hc : e.blk.num ≤ s.db.libRef.num <;> simp [hc]
  · simp only
    split
    · simp [Blk.ref]
    · omega

/-- **the lowest servable number**: `LowestBlockNum` is the number of the first block of the retained canonical chain;
    a request from it is served, and — heights being ascending along the chain — no request below it is -/
theorem lowest_is_servable_and_minimal (s : FState) (h : Blk) (f : Entry) (rest : List Entry)
    (hs : headSegment s = some (h, f :: rest)) (hasc : ∀ e ∈ f :: rest, f.blk.num ≤ e.blk.num) :
    lowestBlockNum s = some f.blk.num ∧ (blocksFromNum s f.blk.num).isSome = true ∧
    ∀ n, n < f.blk.num → blocksFromNum s n = none := by
  have hseg : s.lastSent = some h ∧ s.db.completeSegment h.ref = (some (f :: rest), true) := by
    unfold headSegment at hs
    split at hs
    · cases hs
    · cases hl : s.lastSent with
      | none => rw [hl] at hs; cases hs
      | some l =>
        rw [hl] at hs
        simp only at hs
        cases hc : s.db.completeSegment l.ref with
        | mk o r =>
          rw [hc] at hs
          cases o with
          | none => cases hs
          | some seg =>
            cases r with
            | false => cases hs
            | true =>
              simp only [Option.some.injEq, Prod.mk.injEq] at hs
              obtain ⟨rfl, rfl⟩ := hs
              exact ⟨rfl, hc⟩
  refine ⟨?_, ?_, ?_⟩
  · unfold lowestBlockNum
    rw [hseg.1]
    simp only [hseg.2]
  · rw [served_iff_retained_canonical s _ h _ hs]; simp
  · intro n hn
    have hserved := served_iff_retained_canonical s n h _ hs
    have hno : (f :: rest).any (fun e => e.blk.num == n) = false := by
      rw [List.any_eq_false]
      intro e he
      have := hasc e he
      simp only [beq_iff_eq]
      omega
    rw [hno] at hserved
    cases hb : blocksFromNum s n with
    | none => rfl
    | some x => rw [hb] at hserved; cases hserved

/-! ### readiness (`ForkableHub.bootstrap`, compared with the real hub block by block by the `hubready` suite) -/

/-- **ready only when the live block links to the LIB height it declares**: the hub turns ready exactly when, after the
    live block `b` has been handed to the forkable, `Linkable(b)` holds; for a stored block this means that
    `BlockInCurrentChain(b, b.lib)` names a block, and that block lies on `b`'s ancestry through stored blocks -/
theorem ready_links_to_declared_lib (s : FState) (b : Blk) (e : Entry) (hf : s.db.find b.id = some e)
    (h0 : s.db.numOf? "" = none) (hl : linkable s b = true) :
    (s.db.blockInChain b.ref b.lib).isEmpty = false ∧
    ((s.db.blockInChain b.ref b.lib).id ≠ "" →
      (s.db.blockInChain b.ref b.lib).id ∈ s.db.walkDown (s.db.entries.length + 2) b.id) := by
  unfold linkable at hl
  rw [hf] at hl
  simp only at hl
  refine ⟨by simpa using hl, fun hne => BstreamVerif.ForkDB.blockInChain_on_walk s.db h0 b.ref b.lib hne⟩

/-! ### the with-forks snapshot -/

theorem mem_ins (b x : Blk) (l : List Blk) : x ∈ insByNum b l ↔ x = b ∨ x ∈ l := by
  induction l with
  | nil => simp [insByNum]
  | cons a t ih =>
    unfold insByNum
    split
    · simp
    · simp only [List.mem_cons, ih]
      constructor
      · rintro (h | h | h)
        · exact Or.inr (Or.inl h)
        · exact Or.inl h
        · exact Or.inr (Or.inr h)
      · rintro (h | h | h)
        · exact Or.inr (Or.inl h)
        · exact Or.inl h
        · exact Or.inr (Or.inr h)

theorem length_ins (b : Blk) (l : List Blk) : (insByNum b l).length = l.length + 1 := by
  induction l with
  | nil => rfl
  | cons a t ih =>
    unfold insByNum
    split
    · rfl
    · simp [ih]

theorem sorted_ins (b : Blk) (l : List Blk) (h : l.Pairwise (fun x y => x.num ≤ y.num)) :
    (insByNum b l).Pairwise (fun x y => x.num ≤ y.num) := by
  induction l with
  | nil => simp [insByNum]
  | cons a t ih =>
    unfold insByNum
    rw [List.pairwise_cons] at h
    split
    · rename_i hlt
      rw [List.pairwise_cons]
      refine ⟨?_, List.pairwise_cons.mpr h⟩
      intro y hy
      simp only [List.mem_cons] at hy
      rcases hy with rfl | hy
      · omega
      · have := h.1 y hy; omega
    · rename_i hge
      rw [List.pairwise_cons]
      refine ⟨?_, ih h.2⟩
      intro y hy
      rw [mem_ins] at hy
      rcases hy with rfl | hy
      · omega
      · exact h.1 y hy

theorem foldl_ins_spec (w acc : List Blk) (hacc : acc.Pairwise (fun x y => x.num ≤ y.num)) :
    (∀ x, x ∈ w.foldl (fun acc b => insByNum b acc) acc ↔ x ∈ w ∨ x ∈ acc) ∧
    (w.foldl (fun acc b => insByNum b acc) acc).length = w.length + acc.length ∧
    (w.foldl (fun acc b => insByNum b acc) acc).Pairwise (fun x y => x.num ≤ y.num) := by
  induction w generalizing acc with
  | nil => simp [hacc]
  | cons b t ih =>
    simp only [List.foldl_cons]
    obtain ⟨h1, h2, h3⟩ := ih (insByNum b acc) (sorted_ins b acc hacc)
    refine ⟨?_, ?_, h3⟩
    · intro x
      rw [h1, mem_ins]
      simp only [List.mem_cons]
      constructor
      · rintro (h | h | h)
        · exact Or.inl (Or.inr h)
        · exact Or.inl (Or.inl h)
        · exact Or.inr h
      · rintro ((h | h) | h)
        · exact Or.inr (Or.inl h)
        · exact Or.inl h
        · exact Or.inr (Or.inr h)
    · rw [h2, length_ins]; simp; omega

theorem length_insertById (e : Entry) (l : List Entry) : (insertById e l).length = l.length + 1 := by
  induction l with
  | nil => rfl
  | cons a t ih =>
    unfold insertById
    split
    · rfl
    · simp [ih]

theorem length_sortById (l : List Entry) : (sortById l).length = l.length := by
  induction l with
  | nil => rfl
  | cons a t ih =>
    simp only [sortById, List.foldr_cons]
    rw [length_insertById]
    unfold sortById at ih
    rw [ih]; rfl

/-- **the with-forks snapshot**: exactly the retained blocks at or above `n` (as many entries as retained blocks:
    each once), in non-decreasing height -/
theorem withForks_spec (s : FState) (n : Nat) (hl : s.db.hasLIB = true) :
    ∃ out, blocksFromNumWithForks s n = some out ∧
      (∀ b, b ∈ out ↔ ∃ e ∈ s.db.entries, e.blk = b ∧ n ≤ e.blk.num) ∧
      out.length = (s.db.entries.filter (fun e => e.blk.num ≥ n)).length ∧
      out.Pairwise (fun x y => x.num ≤ y.num) := by
  unfold blocksFromNumWithForks
  simp only [hl, Bool.not_true, Bool.false_eq_true, if_false]
  obtain ⟨h1, h2, h3⟩ := foldl_ins_spec ((sortById (s.db.entries.filter (fun e => e.blk.num ≥ n))).map (·.blk)) [] List.Pairwise.nil
  refine ⟨_, rfl, ?_, ?_, h3⟩
  · intro b
    rw [h1]
    simp only [List.not_mem_nil, or_false, List.mem_map]
    constructor
    · rintro ⟨e, he, rfl⟩
      rw [Props.C02.mem_sortById] at he
      simp only [List.mem_filter, decide_eq_true_eq] at he
      exact ⟨e, he.1, rfl, he.2⟩
    · rintro ⟨e, he, rfl, hn⟩
      exact ⟨e, by rw [Props.C02.mem_sortById]; simp [he, hn], rfl⟩
  · rw [h2]; simp [length_sortById]

/-- **tie by translation**: `substractAndRoundDownBlocks` of hub/hub.go (the start block of the one-block bootstrap),
    translated from the source on every run, is the model's `substractAndRoundDown` — the guarded subtraction of the Go
    code and the truncated subtraction of the model agree -/
theorem substractAndRoundDown_translated (blknum sub fsb : Nat) :
    BstreamVerif.Facts.Gen.substractAndRoundDownBlocks blknum sub fsb = substractAndRoundDown fsb blknum sub := by
  unfold BstreamVerif.Facts.Gen.substractAndRoundDownBlocks substractAndRoundDown
  by_cases h : blknum < sub
  · have : blknum - sub = 0 := by omega
    simp [h, this]
  · simp [h]

/-- **which number a block stream request stands for** (`BlockstreamServer.Blocks`): "the last n blocks" starts at
    head − n, never below the first streamable block and never below the lowest block the hub can serve — also when n
    exceeds the head number (no wrap-around) -/
theorem burst_request_start (burst : Int) (h : 0 ≤ burst) (head headLib lowest fsb : Nat) :
    burstStart burst head headLib lowest fsb = max lowest (max fsb (head - burst.toNat)) := by
  unfold burstStart
  have h1 : (burst == -1) = false := by
    cases hb : burst == -1
    · rfl
    · have := beq_iff_eq.mp hb; omega
  have h2 : ¬ (burst < -1) := by omega
  rw [h1]
  simp only [Bool.false_eq_true, if_false, h2]
  by_cases hc : (decide (burst.toNat > head) || decide (head - burst.toNat < fsb)) = true
  · rw [if_pos hc]
    simp only [Bool.or_eq_true, decide_eq_true_eq] at hc
    congr 1
    rw [Nat.max_def]
    split <;> omega
  · rw [if_neg hc]
    simp only [Bool.or_eq_true, decide_eq_true_eq, not_or] at hc
    congr 1
    rw [Nat.max_def]
    split <;> omega

/-- "from block n" (burst −n, n ≥ 2) starts at n unless the hub cannot serve that low; "from the LIB" (burst −1) starts
    at the LIB number the head block declares -/
theorem burst_request_from (n : Nat) (hn : 2 ≤ n) (head headLib lowest fsb : Nat) :
    burstStart (-(n : Int)) head headLib lowest fsb = max lowest n ∧
    burstStart (-1) head headLib lowest fsb = headLib := by
  refine ⟨?_, by simp [burstStart]⟩
  unfold burstStart
  have h1 : ((-(n : Int)) == -1) = false := by
    cases hb : (-(n : Int)) == -1
    · rfl
    · have := beq_iff_eq.mp hb; omega
  have h2 : (-(n : Int)) < -1 := by omega
  rw [h1]
  simp only [Bool.false_eq_true, if_false, h2, if_true, Int.neg_neg, Int.toNat_natCast]

/-- a block stream request on a hub with a head is answered with the with-forks snapshot from that number -/
theorem blockstream_burst_is_withForks_snapshot (s : FState) (h : Blk) (hs : s.lastSent = some h) (burst : Int) (fsb : Nat) :
    blockstreamBurst s burst fsb =
      blocksFromNumWithForks s (burstStart burst h.num h.lib ((lowestBlockNum s).getD 0) fsb) := by
  simp [blockstreamBurst, hs]

end BstreamVerif.Props.C09
