import BstreamVerif.Model.HubBurst
import BstreamVerif.Spec.Consumer
namespace BstreamVerif.Props.C09
open BstreamVerif BstreamVerif.Forkable BstreamVerif.HubBurst BstreamVerif.Consumer

end BstreamVerif.Props.C09
