import BstreamVerif.Lemmas.DBinLemmas
import BstreamVerif.Lemmas.OneBlockLemmas
/-!
# C16 — Block files and one-block file names decode to exactly what was encoded

Framing theorems are about `Model/DBin.lean` (byte level). Protobuf is an abstract codec: `dec` is
`proto.Unmarshal` followed by `supportLegacy`, `d m` the block a well-formed message `m` decodes to (the
hypothesis `dec m = some (d m)` is checked by the correspondence run on every written block).
-/
namespace BstreamVerif.Props.C16
open BstreamVerif.DBin hiding Bytes
open BstreamVerif.DBinLemmas BstreamVerif.OneBlock BstreamVerif.OneBlockLemmas
open BstreamVerif.Cursor (showNat parseUint64)

abbrev Bytes := List UInt8

variable {α : Type} (dec : Bytes → Option α) (d : Bytes → α)

/-- hypotheses on what was written: a valid content type, messages below 4 GiB that decode -/
def Written (dec : Bytes → Option α) (d : Bytes → α) (ct h : Bytes) (msgs : List Bytes) : Prop :=
  writeHeader ct = some h ∧ ∀ m ∈ msgs, m.length < 4294967296 ∧ dec m = some (d m)

/-- everything after an intact header and `msgs.length` intact frames, whatever follows -/
theorem read_prefix (ct h : Bytes) (msgs : List Bytes) (tail : Bytes) (hw : Written dec d ct h msgs) :
    readAll dec (h ++ (frames msgs ++ tail)) =
      (ct, msgs.map d ++ (readMsgs dec (tail.length + 1) tail).1, (readMsgs dec (tail.length + 1) tail).2) := by
  unfold readAll
  rw [readHeader_writeHeader ct h _ hw.1]
  simp only
  have hlen : (frames msgs ++ tail).length + 1 = msgs.length + ((frames msgs ++ tail).length + 1 - msgs.length) := by
    have : msgs.length ≤ (frames msgs).length := by
      clear hw
      induction msgs with
      | nil => simp
      | cons m ms ih => simp only [frames, List.flatMap_cons, List.length_append, List.length_cons] at ih ⊢
                        have := writeMessage_length m; omega
    simp only [List.length_append]; omega
  rw [hlen, readMsgs_frames dec d msgs _ tail hw.2]
  have hf : readMsgs dec ((frames msgs ++ tail).length + 1 - msgs.length) tail = readMsgs dec (tail.length + 1) tail := by
    apply readMsgs_fuel dec tail.length tail _ _ (Nat.le_refl _)
    · have : msgs.length ≤ (frames msgs).length := by
        clear hw hlen
        induction msgs with
        | nil => simp
        | cons m ms ih => simp only [frames, List.flatMap_cons, List.length_append, List.length_cons] at ih ⊢
                          have := writeMessage_length m; omega
      simp only [List.length_append]; omega
    · omega
  rw [hf]

/-- **Round trip**: any sequence of blocks written with the block writer is read back as the same sequence
    followed by end-of-file. -/
theorem roundtrip (ct : Bytes) (msgs : List Bytes) (file : Bytes) (hne : msgs ≠ [])
    (hw : writeAll ct msgs = some file) (hm : ∀ m ∈ msgs, m.length < 4294967296 ∧ dec m = some (d m)) :
    readAll dec file = (ct, msgs.map d, .eof) := by
  unfold writeAll at hw
  cases msgs with
  | nil => exact absurd rfl hne
  | cons m ms =>
    simp only [Option.map_eq_some_iff] at hw
    obtain ⟨h, hh, rfl⟩ := hw
    have := read_prefix dec d ct h (m :: ms) [] ⟨hh, hm⟩
    simp only [List.append_nil] at this
    rw [this]
    simp [readMsgs, nextMessage_nil]

/-- **Corruption / damage**: whatever happens to the bytes after the first `msgs.length` frames (any
    replacement `tail`), those first blocks are returned unaltered and in order. -/
theorem damage_after_prefix (ct h : Bytes) (msgs : List Bytes) (tail : Bytes) (hw : Written dec d ct h msgs) :
    (readAll dec (h ++ (frames msgs ++ tail))).2.1.take msgs.length = msgs.map d := by
  rw [read_prefix dec d ct h msgs tail hw]
  simp

/-- **Truncation**: every truncation point of a written file gives a header error or a correct prefix of the
    blocks (ending in end-of-file exactly at a frame boundary, in a read error otherwise) — never an altered block. -/
theorem truncation (ct h : Bytes) (msgs : List Bytes) (k : Nat) (hw : Written dec d ct h msgs)
    (hk : h.length ≤ k) :
    ∃ j, (readAll dec ((h ++ frames msgs).take k)).2.1 = (msgs.take j).map d ∧
         ((readAll dec ((h ++ frames msgs).take k)).2.2 = .eof ∨ (readAll dec ((h ++ frames msgs).take k)).2.2 = .errRead) := by
  rw [List.take_append, List.take_of_length_le hk]
  obtain ⟨j, p, hp, hcase⟩ := take_frames msgs (k - h.length)
  rw [hp]
  have hw' : Written dec d ct h (msgs.take j) := ⟨hw.1, fun m hm => hw.2 m (List.mem_of_mem_take hm)⟩
  rw [read_prefix dec d ct h (msgs.take j) p hw']
  refine ⟨j, ?_, ?_⟩
  · rcases hcase with rfl | ⟨m, n, hm, rfl, hn0, hn⟩
    · simp [readMsgs, nextMessage_nil]
    · simp [readMsgs, partial_frame_err m n (hw.2 m hm).1 hn0 hn]
  · rcases hcase with rfl | ⟨m, n, hm, rfl, hn0, hn⟩
    · left; simp [readMsgs, nextMessage_nil]
    · right; simp [readMsgs, partial_frame_err m n (hw.2 m hm).1 hn0 hn]

/-- a prefix of the written blocks is a prefix: restating `truncation` in the words of C16 -/
theorem truncation_is_prefix (ct h : Bytes) (msgs : List Bytes) (k : Nat) (hw : Written dec d ct h msgs)
    (hk : h.length ≤ k) : (readAll dec ((h ++ frames msgs).take k)).2.1 <+: msgs.map d := by
  obtain ⟨j, hj, _⟩ := truncation dec d ct h msgs k hw hk
  rw [hj]
  exact List.IsPrefix.map d (List.take_prefix j msgs)

/-- the reader decodes only complete messages: a short read is an error, an empty message is a message -/
theorem decodes_only_complete (bs m rest : Bytes) (h : nextMessage bs = .msg m rest) :
    ∃ lb, lb.length = 4 ∧ bs = lb ++ m ++ rest ∧ m.length = unbe lb := by
  rw [nextMessage_simple] at h
  unfold nextSimple at h
  split at h
  · simp at h
  · split at h
    · simp at h
    · rename_i h4
      simp only at h
      split at h
      · simp at h
      · rename_i hl
        simp only [MsgRes.msg.injEq] at h
        refine ⟨bs.take 4, by simp; omega, ?_, ?_⟩
        · rw [← h.1, ← h.2, List.append_assoc, List.take_append_drop, List.take_append_drop]
        · rw [← h.1, List.length_take]; omega

/-! ### one-block file names -/

/-- **File names**: a name built from a block parses back to the same number, LIB number and
    16-character-truncated id and parent id (ids and suffix free of '-', 64-bit heights). -/
theorem filename_roundtrip (b : NameParts) (suffix : Bytes)
    (hi : dash ∉ b.id) (hp : dash ∉ b.parent) (hs : dash ∉ suffix) (hn : b.num < 2 ^ 64) (hl : b.lib < 2 ^ 64) :
    parseFilename (fileName b suffix) =
      some ⟨⟨b.num, trunc16 b.id, trunc16 b.parent, b.lib⟩,
            joinDash [pad10 b.num, trunc16 b.id, trunc16 b.parent, showNat b.lib]⟩ := by
  unfold parseFilename fileName
  rw [splitDash_join _ (by simp) (by
    intro p hp'
    simp only [List.mem_cons, List.not_mem_nil, or_false] at hp'
    rcases hp' with rfl | rfl | rfl | rfl | rfl
    · exact pad10_dashFree _
    · exact trunc16_dashFree _ hi
    · exact trunc16_dashFree _ hp
    · exact showNat_dashFree _
    · exact hs)]
  simp [parseUint64_pad10 _ hn, BstreamVerif.CursorLemmas.parseUint64_showNat _ hl]

/-- F-C16e, kernel-checked: an id containing '-' cannot be recovered from its file name -/
theorem filename_dash_counter :
    parseFilename (fileName ⟨5, [97, 45, 98], [112], 3⟩ [103]) = none := by
  have h5 : showNat 5 = [53] := by rw [BstreamVerif.CursorLemmas.showNat_lt 5 (by decide)]; decide
  have h3 : showNat 3 = [51] := by rw [BstreamVerif.CursorLemmas.showNat_lt 3 (by decide)]; decide
  have hf : fileName ⟨5, [97, 45, 98], [112], 3⟩ [103] =
      [48, 48, 48, 48, 48, 48, 48, 48, 48, 53, 45, 97, 45, 98, 45, 112, 45, 51, 45, 103] := by
    simp only [fileName, pad10, h5, h3]; decide
  rw [hf]; decide

/-- the truncated id is a suffix of the id, at most 16 bytes -/
theorem trunc16_suffix (s : Bytes) : trunc16 s <:+ s ∧ (trunc16 s).length ≤ 16 := by
  refine ⟨?_, trunc16_length s⟩
  unfold trunc16
  split
  · exact List.suffix_refl _
  · exact List.drop_suffix _ _

/-! Non-vacuity -/
example : writeAll [116] [[1, 2, 3], []] = some [100, 98, 105, 110, 1, 0, 1, 116, 0, 0, 0, 3, 1, 2, 3, 0, 0, 0, 0] := by decide

end BstreamVerif.Props.C16
