import BstreamVerif.Model.Gates
import BstreamVerif.Spec.GateSpec
/-!
# C17 — Gates forward a suffix of the stream: nothing before the trigger, all after
-/
namespace BstreamVerif.Props.C17
open BstreamVerif.Gates BstreamVerif.GateSpec

/-- once open, a gate forwards everything -/
theorem open_forwards_all (cfg : Cfg) (s : GState) (hp : s.passed = true) (evs : List Ev) :
    forwarded evs (run cfg s evs) = evs := by
  induction evs with
  | nil => rfl
  | cons e es ih => simp [run, step, hp, forwarded, ih]

/-- closed states reachable from `initState`: not passed, construction-time gate type -/
def Closed (cfg : Cfg) (s : GState) : Prop :=
  s.passed = false ∧ s.inclusive = (initState cfg).inclusive

theorem closed_run (cfg : Cfg) (evs : List Ev) : ∀ s, Closed cfg s →
    forwarded evs (run cfg s evs) = suffixSpec cfg evs := by
  induction evs with
  | nil => intro s _; rfl
  | cons e es ih =>
    intro s ⟨hp, hi⟩
    simp only [run, step, hp, suffixSpec, fires]
    by_cases hc : considered cfg e = true
    · simp only [hc, Bool.not_true, Bool.true_and]
      by_cases ht : (trigger cfg e || special cfg e) = true
      · have hincl : (s.inclusive || special cfg e) = inclAt cfg e := by
          simp only [hi, initState, inclAt]
        simp only [ht, Bool.not_true, Bool.false_eq_true, if_false, if_true, hincl]
        cases hia : inclAt cfg e
        · simp [forwarded]
          exact open_forwards_all cfg _ rfl es
        · simp [forwarded]
          exact open_forwards_all cfg _ rfl es
      · simp only [ht, Bool.false_eq_true, if_false]
        simp only [Bool.not_eq_true] at ht
        simp only [ht, Bool.not_false, if_true]
        cases hk : cfg.kind <;> simp only [] <;>
          (try split) <;> (try split) <;> simp [forwarded] <;> apply ih <;>
            first | exact ⟨hp, hi⟩ | exact ⟨rfl, hi⟩
    · simp only [Bool.not_eq_true] at hc
      simp [hc, forwarded]
      exact ih s ⟨hp, hi⟩

/-- **C17**: what reaches the wrapped handler is exactly the suffix of the input that starts at the
    first triggering event (when the gate is inclusive there) or just after it (exclusive);
    events are forwarded unchanged and in order; nothing before the trigger. -/
theorem forwarded_eq_suffix (cfg : Cfg) (evs : List Ev) :
    forwarded evs (run cfg (initState cfg) evs) = suffixSpec cfg evs :=
  closed_run cfg evs _ ⟨rfl, rfl⟩

/-- `suffixSpec` is a suffix of the input. -/
theorem suffixSpec_isSuffix (cfg : Cfg) (evs : List Ev) : suffixSpec cfg evs <:+ evs := by
  induction evs with
  | nil => exact List.suffix_refl _
  | cons e es ih =>
    simp only [suffixSpec]
    split
    · split
      · exact List.suffix_refl _
      · exact List.suffix_cons e es
    · exact List.IsSuffix.trans ih (List.suffix_cons e es)

/-- no event is forwarded while no event has fired -/
theorem nothing_without_trigger (cfg : Cfg) (evs : List Ev) (h : ∀ e ∈ evs, fires cfg e = false) :
    suffixSpec cfg evs = [] := by
  induction evs with
  | nil => rfl
  | cons e es ih =>
    simp only [suffixSpec, h e (by simp), Bool.false_eq_true, if_false]
    exact ih (fun x hx => h x (by simp [hx]))

/-- the first firing event and everything after it: split form of the suffix statement -/
theorem suffix_at_first_trigger (cfg : Cfg) (pre post : List Ev) (e : Ev)
    (hpre : ∀ x ∈ pre, fires cfg x = false) (he : fires cfg e = true) :
    suffixSpec cfg (pre ++ e :: post) = if inclAt cfg e then e :: post else post := by
  induction pre with
  | nil => simp [suffixSpec, he]
  | cons x xs ih =>
    simp only [List.cons_append, suffixSpec, hpre x (by simp), Bool.false_eq_true, if_false]
    exact ih (fun y hy => hpre y (by simp [hy]))

/-- a number gate set below the first streamable block opens inclusively at that block -/
theorem below_first_streamable_inclusive (cfg : Cfg) (t : Nat) (hk : cfg.kind = .num t) (hlt : t < cfg.fsb)
    (e : Ev) (he : e.num = cfg.fsb) : fires cfg e = true ∧ inclAt cfg e = true := by
  simp [fires, inclAt, considered, special, trigger, hk, hlt, he]

/-- irreversible gates ignore every non-irreversible event until open -/
theorem irreversible_ignores (cfg : Cfg) (hk : (∃ t, cfg.kind = .irrNum t) ∨ (∃ t, cfg.kind = .irrId t))
    (e : Ev) (hs : e.step ≠ stepIrreversible) (s : GState) (hp : s.passed = false) :
    step cfg s e = (s, .drop) := by
  rcases hk with ⟨t, hk⟩ | ⟨t, hk⟩ <;> simp [step, hp, considered, hk, hs]

/-- hold-off: the error is returned exactly for the held-back events beyond the limit, never when the
    limit is 0 -/
theorem holdoff_spec (cfg : Cfg) (evs : List Ev) : ∀ s, Closed cfg s →
    (run cfg s evs).map (fun o => decide (o = .errHold)) = holdErrs cfg s.held evs := by
  induction evs with
  | nil => intro s _; rfl
  | cons e es ih =>
    intro s ⟨hp, hi⟩
    have open_no_err : ∀ (s' : GState), s'.passed = true → ∀ l : List Ev,
        (run cfg s' l).map (fun o => decide (o = .errHold)) = l.map (fun _ => false) := by
      intro s' hs' l
      induction l with
      | nil => rfl
      | cons x xs ihx => simp [run, step, hs', ihx]
    simp only [run, step, hp, holdErrs, fires]
    by_cases hc : considered cfg e = true
    · simp only [hc, Bool.not_true, Bool.true_and]
      by_cases ht : (trigger cfg e || special cfg e) = true
      · simp only [ht, Bool.not_true, Bool.false_eq_true, if_false, if_true, List.map_cons]
        rw [open_no_err _ rfl]
        cases (s.inclusive || special cfg e) <;> simp
      · simp only [Bool.not_eq_true] at ht
        simp only [ht, Bool.not_false, if_true, Bool.false_eq_true, if_false]
        cases hk : cfg.kind <;> simp only [] <;>
          (try split) <;> (try split) <;> simp_all <;>
          (first | exact ih _ ⟨hp, hi⟩ | exact ih _ ⟨rfl, hi⟩ | exact ih _ ⟨rfl, rfl⟩ | (apply ih; first | exact ⟨hp, hi⟩ | exact ⟨rfl, hi⟩ | exact ⟨rfl, rfl⟩))
    · simp only [Bool.not_eq_true] at hc
      simp only [hc, Bool.not_false, if_true, Bool.false_and, Bool.false_eq_true, if_false, List.map_cons]
      simp
      exact ih s ⟨hp, hi⟩

theorem holdoff_never_when_unlimited (cfg : Cfg) (h0 : cfg.maxHold = 0) (evs : List Ev) (held : Nat) :
    ∀ b ∈ holdErrs cfg held evs, b = false := by
  induction evs generalizing held with
  | nil => simp [holdErrs]
  | cons e es ih =>
    simp only [holdErrs]
    split
    · simp
    · split
      · intro b hb; simp only [List.mem_cons] at hb; rcases hb with rfl | hb; rfl; exact ih _ b hb
      · cases cfg.kind <;> simp only [h0] <;>
          (intro b hb; simp only [bne_self_eq_false, Bool.false_eq_true, if_false, List.mem_cons] at hb;
           rcases hb with rfl | hb; rfl; exact ih _ b hb)

/-- gators: `Pass` answers false before the trigger, `!exclusive` at it, true ever after -/
theorem gator_spec (k : GatorKind) (evs : List Ev) : gatorRun k false evs = gatorSpec k evs := by
  have open_true : ∀ l : List Ev, gatorRun k true l = l.map (fun _ => true) := by
    intro l; induction l with
    | nil => rfl
    | cons x xs ih => simp [gatorRun, gatorStep, ih]
  induction evs with
  | nil => rfl
  | cons e es ih =>
    cases k with
    | num t ex =>
      simp only [gatorRun, gatorStep, gatorSpec]
      by_cases h : e.num ≥ t <;> simp [h, open_true, ih]
    | time tol =>
      simp only [gatorRun, gatorStep, gatorSpec]
      by_cases h : e.age < tol <;> simp [h, open_true, ih]

/-- the trip function of a RealtimeTripper runs at most once -/
theorem tripper_once (tol : Int) (evs : List Ev) (p : Bool) : tripperRun tol p evs ≤ 1 := by
  have h1 : ∀ l, tripperRun tol true l = 0 := by
    intro l; induction l with
    | nil => rfl
    | cons x xs ih => simp [tripperRun, ih]
  induction evs generalizing p with
  | nil => simp [tripperRun]
  | cons e es ih =>
    simp only [tripperRun]
    split
    · exact ih _
    · split
      · rw [h1]; simp
      · exact ih _

/-! Non-vacuity: an exclusive number gate at 5 on the stream 3,5,6 forwards exactly [6]; an irreversible
    id gate ignores the New event of its target. -/
example : suffixSpec ⟨.num 5, false, 0, 0⟩ [⟨"a", 3, 1, 0⟩, ⟨"b", 5, 1, 0⟩, ⟨"c", 6, 1, 0⟩] = [⟨"c", 6, 1, 0⟩] := by decide
example : suffixSpec ⟨.irrId "b", true, 0, 0⟩ [⟨"b", 5, 1, 0⟩, ⟨"b", 5, 16, 0⟩, ⟨"c", 6, 1, 0⟩] =
    [⟨"b", 5, 16, 0⟩, ⟨"c", 6, 1, 0⟩] := by decide

end BstreamVerif.Props.C17
