import BstreamVerif.Lemmas.StepCheckSound
import BstreamVerif.Lemmas.Complete
import BstreamVerif.Lemmas.RetentionStep
/-!
# C03 — the stream follows the chain head and the chain's declared finality

`tip_rule`: after every incoming block the tip (the last block sent, which is the top of the consumer's chain by
`Inv.topSome`) is that block exactly when it was not stored yet, links back to the LIB through stored blocks
(a longest chain is found) and triggers (higher than the previous tip, or any height in all-blocks-trigger mode);
otherwise nothing is delivered and the tip is unchanged. Same hypotheses as C01's step theorem.
`lib_follows_declared`: the LIB moves to the ancestor of the tip at the tip's declared LIB number.
`outputs_ignore_refed_and_below_lib_blocks`: removing re-fed and below-LIB blocks from a history changes nothing.
`outputs_independent_of_retention`: the event stream does not depend on the number of final blocks kept
(`Lemmas/Retention`, `Lemmas/RetentionStep`: two forkables side by side, buffers identical at and above the LIB).
-/
namespace BstreamVerif.Props.C03
open BstreamVerif BstreamVerif.Forkable BstreamVerif.ForkDB

theorem tip_rule (cfg : Config) (hnew : cfg.matches .new = true) (hundo : cfg.matches .undo = true)
    (hirr : cfg.matches .irreversible = true) (s : FState) (P : List Id) (b : Blk)
    (hI : Inv s P) (hok : Props.C01.StepOK s b) :
    ((processBlock cfg s b none).2.1 = [] ∧ (processBlock cfg s b none).1.lastSent = s.lastSent) ∨
    (s.db.find b.id = none ∧ triggers cfg s b = true ∧
      ∃ l, (processBlock cfg s b none).1.lastSent = some l ∧ l.ref = b.ref) :=
  let ⟨_, _, _, h, _, _⟩ := processBlock_step cfg hnew hundo hirr s P b hI hok.1 hok.2.1 hok.2.2.1 hok.2.2.2.1 hok.2.2.2.2
  h

/-- **the consumer is exactly on the path from the LIB to the tip**: in every state of the invariant the consumer's
    pending list is a parent-linked path of stored blocks resting on the LIB whose top is the last block sent, without
    repetition — so after the last block of a tree's highest branch was processed (it becomes the tip by `tip_rule`),
    the consumer holds exactly the path from the LIB to that block -/
theorem consumer_on_path_to_tip (s : FState) (P : List Id) (hI : Inv s P) (l : Blk) (h : s.lastSent = some l) :
    IsPath s.db s.db.libRef.id P ∧ topOf s.db.libRef.id P = l.id ∧ P.Nodup ∧ s.db.libRef.id ∉ P :=
  ⟨hI.path, hI.topSome l h, isPath_nodup _ _ _ hI.path hI.libNotin, hI.libNotin⟩

/-- the tip is the top of the consumer's chain -/
theorem tip_is_top (s : FState) (P : List Id) (hI : Inv s P) (l : Blk) (h : s.lastSent = some l) :
    topOf s.db.libRef.id P = l.id := hI.topSome l h

/-- the trigger rule -/
theorem triggers_rule (cfg : Config) (s : FState) (b : Blk) :
    triggers cfg s b = (cfg.allTrigger || match s.lastSent with | none => true | some l => decide (b.num > l.num)) := by
  unfold triggers
  cases cfg.allTrigger <;> cases s.lastSent <;> simp

/-- a block below the LIB, a stored block and an invalid block never move the tip -/
theorem no_move (cfg : Config) (s : FState) (b : Blk) (f : Option Nat)
    (h : (b.num < s.db.libRef.num ∧ s.lastSent.isSome = true) ∨
         ((b.id ≠ b.parent ∧ b.id ≠ "" ∧ s.db.link b.id ≠ "") ∧
          (s.includeInit && s.lastSent.isNone && b.id == s.db.libRef.id) = false)) :
    (processBlock cfg s b f).1 = s ∧ (processBlock cfg s b f).2.1 = [] := by
  rcases h with ⟨h1, h2⟩ | ⟨h1, h2⟩
  · exact Props.C01.below_lib_dropped cfg s b f h1 h2
  · exact Props.C01.refeed_delivers_nothing cfg s b f h1 h2

/-- the block the LIB moves to carries the number the tip declares -/
theorem blockInChainAux_num (db : DB) (target fuel : Nat) (cur : Id) (curNum : Nat)
    (h : (db.blockInChainAux target fuel cur curNum).id ≠ "") :
    (db.blockInChainAux target fuel cur curNum).num = target := by
  induction fuel generalizing cur curNum with
  | zero => simp [DB.blockInChainAux, Ref.empty] at h
  | succ n ih =>
    unfold DB.blockInChainAux at h ⊢
    simp only at h ⊢
    cases hn : db.numOf? (db.link cur) with
    | none => rw [hn] at h; simp [Ref.empty] at h
    | some pn =>
      rw [hn] at h
      simp only at h ⊢
      by_cases h1 : (pn == target) = true
      · simp only [h1, if_true]; exact beq_iff_eq.mp h1
      · simp only [h1, Bool.false_eq_true, if_false] at h ⊢
        by_cases h2 : pn < target
        · simp only [h2, if_true]
        · simp only [h2, if_false] at h ⊢
          exact ih _ _ h

theorem lib_follows_declared (db : DB) (tip : Blk) (h : (db.blockInChain tip.ref tip.lib).id ≠ "") :
    (db.blockInChain tip.ref tip.lib).num = tip.lib := by
  unfold DB.blockInChain at h ⊢
  by_cases hs : (tip.ref.num == tip.lib) = true
  · simp only [hs, if_true]; exact beq_iff_eq.mp hs
  · simp only [hs, Bool.false_eq_true, if_false] at h ⊢
    exact blockInChainAux_num db _ _ _ _ h

/-! ### the head is actually followed (the direction a stream that never moves would fail) -/

/-- **a fresh block that links back to the LIB through blocks already received, is not below the LIB and triggers,
    becomes the tip — and the LIB moves to its ancestor at the LIB number it declares, when that ancestor is one of
    those blocks**: `ids` is any parent-linked path of stored blocks resting on the LIB whose top is the block's parent
    (the empty path when the parent is the LIB itself). With `tip_rule` and `lib_follows_declared` this makes the first
    two sentences of C03 statements about the block tree, not about what the walks happened to return:
    `ReversibleSegment`, `BlockInCurrentChain` and `HasNewIrreversibleSegment` are complete on such paths
    (`Lemmas/Complete`). -/
theorem linked_block_step (cfg : Config) (hnew : cfg.matches .new = true) (hundo : cfg.matches .undo = true)
    (hirr : cfg.matches .irreversible = true) (s : FState) (P : List Id) (b : Blk)
    (hI : Inv s P) (hok : Props.C01.StepOK s b) (hinit : InitNumOK s.db)
    (hfresh : s.db.find b.id = none) (hnb : ¬ (b.num < s.db.libRef.num ∧ s.lastSent.isSome = true))
    (ids : List Id) (hp : IsPath s.db s.db.libRef.id ids) (hn : s.db.libRef.id ∉ ids)
    (hpar : b.parent = topOf s.db.libRef.id ids) (htr : triggers cfg s b = true) :
    (∃ l, (processBlock cfg s b none).1.lastSent = some l ∧ l.ref = b.ref) ∧
    (∀ x ex, x ∈ ids → s.db.find x = some ex → ex.blk.num = b.lib →
      (processBlock cfg s b none).1.db.libRef = ⟨x, b.lib⟩) := by
  obtain ⟨_, _, _, _, _, _, hmv⟩ :=
    processBlock_step cfg hnew hundo hirr s P b hI hok.1 hok.2.1 hok.2.2.1 hok.2.2.2.1 hok.2.2.2.2
  have hb := hok.2.2.1
  have hB := hok.2.2.2.1
  have hself := find_append_self s.db b hfresh
  -- the new block is not the LIB: it would sit at the LIB's height while resting on a descendant of the LIB
  have hbl : b.id ≠ s.db.libRef.id := by
    intro hlb
    have h3 := hB.2.2.2 hlb
    rcases List.eq_nil_or_concat ids with hnil | ⟨ids0, x, hx⟩
    · subst hnil
      have := hB.2.2.1 (by simpa using hpar)
      omega
    · rw [List.concat_eq_append] at hx
      subst hx
      simp only [topOf_append_singleton] at hpar
      cases hfx : s.db.find x with
      | none =>
        have := isPath_present s.db _ _ hp x (by simp)
        rw [hfx] at this; cases this
      | some ep =>
        have h1 := heights_path s.db hI.heights _ s.db.libRef.num _ hp hI.heights.2.1 x (by simp) ep hfx
        have h2 := hB.1 ep (find_mem _ _ _ hfx) (by rw [hpar, find_id _ _ _ hfx])
        omega
  have hpath : IsPath (appendBlk s.db b) (appendBlk s.db b).libRef.id (ids ++ [b.id]) := by
    show IsPath (appendBlk s.db b) s.db.libRef.id (ids ++ [b.id])
    rw [isPath_append]
    refine ⟨isPath_append_entry s.db b _ _ hp hfresh, ?_⟩
    simp only [IsPath, and_true]
    refine ⟨?_, by unfold appendBlk; rw [hself]; rfl⟩
    unfold DB.link appendBlk; rw [hself]; exact hpar
  have hnot : (appendBlk s.db b).libRef.id ∉ ids ++ [b.id] := by
    show s.db.libRef.id ∉ ids ++ [b.id]
    simp only [List.mem_append, List.mem_singleton, not_or]
    exact ⟨hn, fun h => hbl h.symm⟩
  have hchain : ∃ c cs, computeLongestChain cfg { s with db := appendBlk s.db b } b = some (c :: cs) := by
    rcases computeLongestChain_cases cfg { s with db := appendBlk s.db b } b with ⟨c, cs, _, _, _, hres⟩ | hres
    · exact ⟨c, cs ++ [⟨b, false⟩], by rw [hres]; rfl⟩
    · rw [hres]
      obtain ⟨l, h1, h2⟩ := reversibleSegment_complete (appendBlk s.db b) (heights_append s.db b hI.heights hb hB)
        (by intro i n hin hid; exact hinit i n hin hid) cfg.fsb (ids ++ [b.id]) hpath hnot b.ref
        (by simp [Blk.ref]) (by
          show b.num = (appendBlk s.db b).numOf b.id
          rw [numOf_of_find _ _ _ (show (appendBlk s.db b).find b.id = some ⟨b, false⟩ from hself)])
      show ∃ c cs, ((appendBlk s.db b).reversibleSegment cfg.fsb b.ref).1 = some (c :: cs)
      rw [h1]
      cases l with
      | nil => simp at h2
      | cons c cs => exact ⟨c, cs, rfl⟩
  obtain ⟨htip, hlib⟩ := hmv hfresh hnb htr hchain
  refine ⟨htip, ?_⟩
  intro x ex hxin hfx hexn
  have hxb : x ≠ b.id := by intro hc; rw [hc, hfresh] at hfx; cases hfx
  exact hlib hinit (ids ++ [b.id]) x ex hpath hnot (by simp) (by simp [hxin]) hxb
    (by unfold appendBlk; rw [find_append_other s.db b x hxb]; exact hfx) hexn

theorem tip_moves_when_linked (cfg : Config) (hnew : cfg.matches .new = true) (hundo : cfg.matches .undo = true)
    (hirr : cfg.matches .irreversible = true) (s : FState) (P : List Id) (b : Blk)
    (hI : Inv s P) (hok : Props.C01.StepOK s b) (hinit : InitNumOK s.db)
    (hfresh : s.db.find b.id = none) (hnb : ¬ (b.num < s.db.libRef.num ∧ s.lastSent.isSome = true))
    (ids : List Id) (hp : IsPath s.db s.db.libRef.id ids) (hn : s.db.libRef.id ∉ ids)
    (hpar : b.parent = topOf s.db.libRef.id ids) (htr : triggers cfg s b = true) :
    ∃ l, (processBlock cfg s b none).1.lastSent = some l ∧ l.ref = b.ref :=
  (linked_block_step cfg hnew hundo hirr s P b hI hok hinit hfresh hnb ids hp hn hpar htr).1

/-- **whenever the tip moves, the LIB becomes the tip's ancestor at the tip's declared LIB number, if that ancestor has
    been received and lies above the current LIB** (it is then one of the blocks `ids` between the LIB and the new tip) -/
theorem lib_moves_to_declared_ancestor (cfg : Config) (hnew : cfg.matches .new = true) (hundo : cfg.matches .undo = true)
    (hirr : cfg.matches .irreversible = true) (s : FState) (P : List Id) (b : Blk)
    (hI : Inv s P) (hok : Props.C01.StepOK s b) (hinit : InitNumOK s.db)
    (hfresh : s.db.find b.id = none) (hnb : ¬ (b.num < s.db.libRef.num ∧ s.lastSent.isSome = true))
    (ids : List Id) (hp : IsPath s.db s.db.libRef.id ids) (hn : s.db.libRef.id ∉ ids)
    (hpar : b.parent = topOf s.db.libRef.id ids) (htr : triggers cfg s b = true)
    (x : Id) (ex : Entry) (hx : x ∈ ids) (hfx : s.db.find x = some ex) (hnum : ex.blk.num = b.lib) :
    (processBlock cfg s b none).1.db.libRef = ⟨x, b.lib⟩ :=
  (linked_block_step cfg hnew hundo hirr s P b hI hok hinit hfresh hnb ids hp hn hpar htr).2 x ex hx hfx hnum

/-- the forkable's initial buffer satisfies `InitNumOK` -/
theorem initNumOK_init (cfg : Config) : InitNumOK (init cfg).db := by
  unfold init
  cases cfg.root with
  | none => intro i n h; simp [DB.empty] at h
  | some r =>
    cases r with
    | exclusive r => intro i n h _; simp only [DB.initLIB, Option.some.injEq, Prod.mk.injEq] at h; exact h.2.symm
    | inclusive r => intro i n h _; simp only [DB.initLIB, Option.some.injEq, Prod.mk.injEq] at h; exact h.2.symm

/-- one `ProcessBlock` keeps it: the LIB reference moves only together with the purge that drops the extra entry -/
theorem initNumOK_step (cfg : Config) (s : FState) (b : Blk) (s' : FState) (h : DbShape cfg s b s')
    (hi : InitNumOK s.db) : InitNumOK s'.db := by
  rcases h with ⟨h, _⟩ | ⟨_, db2, hsb, h | ⟨R, er, h, _⟩⟩
  · rw [h]; exact hi
  · rw [h]
    intro i n hin hid
    rw [hsb.2.2] at hin
    rw [hsb.1] at hid ⊢
    exact hi i n hin hid
  · rw [h]; intro i n hin; simp [DB.purgeBeforeLIB] at hin

theorem libHistOK_append (cfg : Config) (s : FState) (pre : List Blk) (b : Blk)
    (h : Props.C01.LibHistOK cfg s (pre ++ [b])) :
    Props.C01.LibHistOK cfg s pre ∧ LibDeclOK (runHistory cfg s pre).1.db b := by
  induction pre generalizing s with
  | nil => exact ⟨trivial, h.1⟩
  | cons x r ih =>
    obtain ⟨h1, h2⟩ := ih _ h.2
    rw [Props.C01.runHistory_cons]
    exact ⟨⟨h.1, h1⟩, h2⟩

/-- the invariants and `InitNumOK` along a whole history of blocks of one consistent tree -/
theorem history_invariants_initNum (cfg : Config) (hnew : cfg.matches .new = true) (hundo : cfg.matches .undo = true)
    (hirr : cfg.matches .irreversible = true) (U : Id → Option Blk) (hU : UOK U) (h : List Blk) (F : List Id)
    (s : FState) (P : List Id) (hI : Inv s P) (hJ : Inv2 U F s.db) (hin : ∀ b ∈ h, U b.id = some b)
    (hL : Props.C01.LibHistOK cfg s h) (hincl : s.includeInit = false ∨ s.lastSent.isSome = true)
    (hi : InitNumOK s.db) :
    ∃ P' F', Inv (runHistory cfg s h).1 P' ∧ Inv2 U F' (runHistory cfg s h).1.db ∧
      InitNumOK (runHistory cfg s h).1.db ∧
      ((runHistory cfg s h).1.includeInit = false ∨ (runHistory cfg s h).1.lastSent.isSome = true) := by
  induction h generalizing s P F with
  | nil => exact ⟨P, F, hI, hJ, hi, hincl⟩
  | cons b r ih =>
    have hni : s.includeInit = false ∨ s.lastSent.isSome = true ∨ b.id ≠ s.db.libRef.id := by
      rcases hincl with h | h
      · exact Or.inl h
      · exact Or.inr (Or.inl h)
    have hbU := hin b (by simp)
    obtain ⟨P1, F1, _, hI1, hJ1, htip⟩ :=
      Props.C01.step_discipline_consistent cfg hnew hundo hirr U hU F s P b hI hJ hbU hL.1 hni
    obtain ⟨_, _, _, _, _, hshape, _⟩ := processBlock_step cfg hnew hundo hirr s P b hI hni
      (sentClosed_of_inv2 U F s.db hI.wf hI.heights hJ) (hU.wf b.id b hbU) (hb_of_inv2 U hU F s.db hJ b hbU) hL.1
    have hi1 := initNumOK_step cfg s b _ hshape hi
    rw [Props.C01.runHistory_cons]
    exact ih F1 _ P1 hI1 hJ1 (fun x hx => hin x (by simp [hx])) hL.2
      (by rcases hincl with h | h
          · exact Or.inl (by rw [processBlock_includeInit]; exact h)
          · rcases htip with ⟨_, hsame⟩ | hsome
            · exact Or.inr (by rw [hsame]; exact h)
            · exact Or.inr hsome) hi1

/-- **the head and the declared finality are followed, along every history** (hypotheses on the input only: blocks of
    one consistent block tree in any order, LIB declarations naming ancestors): after any prefix `pre` of the history,
    a block `b` that is new to the stream, not below the LIB, whose parent is the top of a path `ids` of received blocks
    resting on the LIB, and that triggers (higher than the tip, or any height in all-blocks-trigger mode) becomes the
    tip; and if one of the blocks of `ids` has the LIB number `b` declares, the LIB moves to it -/
theorem history_head_and_lib_follow (cfg : Config) (hnew : cfg.matches .new = true) (hundo : cfg.matches .undo = true)
    (hirr : cfg.matches .irreversible = true) (U : Id → Option Blk) (hU : UOK U) (pre : List Blk) (b : Blk)
    (F : List Id) (s0 : FState) (P0 : List Id) (hI : Inv s0 P0) (hJ : Inv2 U F s0.db)
    (hin : ∀ x ∈ pre ++ [b], U x.id = some x) (hL : Props.C01.LibHistOK cfg s0 (pre ++ [b]))
    (hincl : s0.includeInit = false ∨ s0.lastSent.isSome = true) (hi : InitNumOK s0.db)
    (hfresh : (runHistory cfg s0 pre).1.db.find b.id = none)
    (hnb : ¬ (b.num < (runHistory cfg s0 pre).1.db.libRef.num ∧ (runHistory cfg s0 pre).1.lastSent.isSome = true))
    (ids : List Id) (hp : IsPath (runHistory cfg s0 pre).1.db (runHistory cfg s0 pre).1.db.libRef.id ids)
    (hn : (runHistory cfg s0 pre).1.db.libRef.id ∉ ids)
    (hpar : b.parent = topOf (runHistory cfg s0 pre).1.db.libRef.id ids)
    (htr : triggers cfg (runHistory cfg s0 pre).1 b = true) :
    (∃ l, (runHistory cfg s0 (pre ++ [b])).1.lastSent = some l ∧ l.ref = b.ref) ∧
    (∀ x ex, x ∈ ids → (runHistory cfg s0 pre).1.db.find x = some ex → ex.blk.num = b.lib →
      (runHistory cfg s0 (pre ++ [b])).1.db.libRef = ⟨x, b.lib⟩) := by
  obtain ⟨hLpre, hLb⟩ := libHistOK_append cfg s0 pre b hL
  obtain ⟨P1, F1, hI1, hJ1, hi1, hincl1⟩ := history_invariants_initNum cfg hnew hundo hirr U hU pre F s0 P0 hI hJ
    (fun x hx => hin x (by simp [hx])) hLpre hincl hi
  have hbU := hin b (by simp)
  have hni : (runHistory cfg s0 pre).1.includeInit = false ∨ (runHistory cfg s0 pre).1.lastSent.isSome = true ∨
      b.id ≠ (runHistory cfg s0 pre).1.db.libRef.id := by
    rcases hincl1 with h | h
    · exact Or.inl h
    · exact Or.inr (Or.inl h)
  have hok : Props.C01.StepOK (runHistory cfg s0 pre).1 b :=
    ⟨hni, sentClosed_of_inv2 U F1 _ hI1.wf hI1.heights hJ1, hU.wf b.id b hbU, hb_of_inv2 U hU F1 _ hJ1 b hbU, hLb⟩
  have := linked_block_step cfg hnew hundo hirr _ P1 b hI1 hok hi1 hfresh hnb ids hp hn hpar htr
  have hsplit : (runHistory cfg s0 (pre ++ [b])).1 = (processBlock cfg (runHistory cfg s0 pre).1 b none).1 := by
    unfold runHistory
    rw [List.foldl_append]
    rfl
  rw [hsplit]; exact this

/-- the tip half of `history_head_and_lib_follow` -/
theorem history_tip_follows (cfg : Config) (hnew : cfg.matches .new = true) (hundo : cfg.matches .undo = true)
    (hirr : cfg.matches .irreversible = true) (U : Id → Option Blk) (hU : UOK U) (pre : List Blk) (b : Blk)
    (F : List Id) (s0 : FState) (P0 : List Id) (hI : Inv s0 P0) (hJ : Inv2 U F s0.db)
    (hin : ∀ x ∈ pre ++ [b], U x.id = some x) (hL : Props.C01.LibHistOK cfg s0 (pre ++ [b]))
    (hincl : s0.includeInit = false ∨ s0.lastSent.isSome = true) (hi : InitNumOK s0.db)
    (hfresh : (runHistory cfg s0 pre).1.db.find b.id = none)
    (hnb : ¬ (b.num < (runHistory cfg s0 pre).1.db.libRef.num ∧ (runHistory cfg s0 pre).1.lastSent.isSome = true))
    (ids : List Id) (hp : IsPath (runHistory cfg s0 pre).1.db (runHistory cfg s0 pre).1.db.libRef.id ids)
    (hn : (runHistory cfg s0 pre).1.db.libRef.id ∉ ids)
    (hpar : b.parent = topOf (runHistory cfg s0 pre).1.db.libRef.id ids)
    (htr : triggers cfg (runHistory cfg s0 pre).1 b = true) :
    ∃ l, (runHistory cfg s0 (pre ++ [b])).1.lastSent = some l ∧ l.ref = b.ref :=
  (history_head_and_lib_follow cfg hnew hundo hirr U hU pre b F s0 P0 hI hJ hin hL hincl hi hfresh hnb ids hp hn hpar htr).1

/-! ### outputs do not depend on the retention setting -/

/-- two forkables that differ only in their retention setting (`kept`), from twin states (identical at and above the
    LIB), fed the same history of blocks of one consistent tree: the same event stream -/
theorem twin_history (cfg : Config) (k : Nat) (hnew : cfg.matches .new = true) (hundo : cfg.matches .undo = true)
    (hirr : cfg.matches .irreversible = true) (U : Id → Option Blk) (hU : UOK U) (h : List Blk) (F₁ F₂ : List Id)
    (s₁ s₂ : FState) (P : List Id) (hT : Twin s₁ s₂) (hI₁ : Inv s₁ P) (hI₂ : Inv s₂ P)
    (hJ₁ : Inv2 U F₁ s₁.db) (hJ₂ : Inv2 U F₂ s₂.db) (hi₁ : InitNumOK s₁.db) (hi₂ : InitNumOK s₂.db)
    (hin : ∀ b ∈ h, U b.id = some b) (hL₁ : Props.C01.LibHistOK cfg s₁ h)
    (hL₂ : Props.C01.LibHistOK { cfg with kept := k } s₂ h)
    (hincl : s₁.includeInit = false ∨ s₁.lastSent.isSome = true) :
    (runHistory { cfg with kept := k } s₂ h).2 = (runHistory cfg s₁ h).2 := by
  induction h generalizing s₁ s₂ P F₁ F₂ with
  | nil => rfl
  | cons b r ih =>
    have hbU := hin b (by simp)
    have hincl₂ : s₂.includeInit = false ∨ s₂.lastSent.isSome = true := by rw [hT.incl, hT.last]; exact hincl
    have hni : ∀ (s : FState), (s.includeInit = false ∨ s.lastSent.isSome = true) →
        s.includeInit = false ∨ s.lastSent.isSome = true ∨ b.id ≠ s.db.libRef.id := by
      intro s hs
      rcases hs with h | h
      · exact Or.inl h
      · exact Or.inr (Or.inl h)
    obtain ⟨hev, hT'⟩ := twin_step cfg { cfg with kept := k } rfl rfl rfl hnew hundo U hU F₁ F₂ s₁ s₂ P b hT hI₁ hI₂
      hJ₁ hJ₂ hi₁ hi₂ hbU hL₁.1 hL₂.1 (hni s₁ hincl)
    obtain ⟨P₁, F₁', hrun₁, hI₁', hJ₁', htip₁⟩ :=
      Props.C01.step_discipline_consistent cfg hnew hundo hirr U hU F₁ s₁ P b hI₁ hJ₁ hbU hL₁.1 (hni s₁ hincl)
    obtain ⟨P₂, F₂', hrun₂, hI₂', hJ₂', _⟩ :=
      Props.C01.step_discipline_consistent { cfg with kept := k } hnew hundo hirr U hU F₂ s₂ P b hI₂ hJ₂ hbU hL₂.1
        (hni s₂ hincl₂)
    -- the consumer ends on the same pending chain: same events from the same position
    have hPP : P₂ = P₁ := by
      rw [hev, hT.db.lib, hrun₁] at hrun₂
      have := Option.some.inj hrun₂
      exact (CS.mk.inj this).2.symm
    subst hPP
    obtain ⟨_, _, _, _, _, hshape₁, _⟩ := processBlock_step cfg hnew hundo hirr s₁ P b hI₁ (hni s₁ hincl)
      (sentClosed_of_inv2 U F₁ s₁.db hI₁.wf hI₁.heights hJ₁) (hU.wf b.id b hbU) (hb_of_inv2 U hU F₁ s₁.db hJ₁ b hbU) hL₁.1
    obtain ⟨_, _, _, _, _, hshape₂, _⟩ := processBlock_step { cfg with kept := k } hnew hundo hirr s₂ P b hI₂
      (hni s₂ hincl₂) (sentClosed_of_inv2 U F₂ s₂.db hI₂.wf hI₂.heights hJ₂) (hU.wf b.id b hbU)
      (hb_of_inv2 U hU F₂ s₂.db hJ₂ b hbU) hL₂.1
    rw [Props.C01.runHistory_cons, Props.C01.runHistory_cons]
    simp only
    rw [hev]
    congr 1
    exact ih F₁' F₂' _ _ P₂ hT' hI₁' hI₂' hJ₁' hJ₂' (initNumOK_step cfg s₁ b _ hshape₁ hi₁)
      (initNumOK_step _ s₂ b _ hshape₂ hi₂) (fun x hx => hin x (by simp [hx])) hL₁.2 hL₂.2
      (by rcases hincl with h | h
          · exact Or.inl (by rw [processBlock_includeInit]; exact h)
          · rcases htip₁ with ⟨_, hsame⟩ | hsome
            · exact Or.inr (by rw [hsame]; exact h)
            · exact Or.inr hsome)

/-- **outputs do not depend on the retention setting**: a forkable started on a known LIB `r`, fed any history of
    blocks of one consistent block tree (any order, duplicates, forks, orphans, blocks below the LIB), delivers the
    same event stream whatever number of final blocks it is told to keep. Hypotheses on the input only: the blocks
    come from a consistent universe in which `r`'s children are above it, and LIB declarations name ancestor heights
    in both runs (`LibHistOK`, a statement about the declared numbers along each run). -/
theorem outputs_independent_of_retention (cfg : Config) (k : Nat) (r : Ref) (hr : r.id ≠ "")
    (hroot : cfg.root = some (.exclusive r)) (hnew : cfg.matches .new = true) (hundo : cfg.matches .undo = true)
    (hirr : cfg.matches .irreversible = true) (U : Id → Option Blk) (hU : UOK U)
    (h1 : ∀ b, U b.id = some b → b.parent = r.id → r.num < b.num)
    (h2 : ∀ b, U b.id = some b → b.id = r.id → b.num = r.num)
    (h : List Blk) (hin : ∀ b ∈ h, U b.id = some b)
    (hL₁ : Props.C01.LibHistOK cfg (init cfg) h)
    (hL₂ : Props.C01.LibHistOK { cfg with kept := k } (init { cfg with kept := k }) h) :
    (runHistory { cfg with kept := k } (init { cfg with kept := k }) h).2 = (runHistory cfg (init cfg) h).2 := by
  have hinit : init { cfg with kept := k } = init cfg := by unfold init; rfl
  rw [hinit] at hL₂ ⊢
  exact twin_history cfg k hnew hundo hirr U hU h [r.id] [r.id] (init cfg) (init cfg) [] (Twin.refl _)
    (Props.C01.init_inv cfg r hr hroot) (Props.C01.init_inv cfg r hr hroot)
    (Props.C01.init_inv2 cfg r hroot U h1 h2) (Props.C01.init_inv2 cfg r hroot U h1 h2)
    (initNumOK_init cfg) (initNumOK_init cfg) hin hL₁ hL₂ (Or.inl (by unfold init; rw [hroot]))

theorem addLink_initNum (db : DB) (b : Blk) : (db.addLink b).1.initNum = db.initNum := by
  unfold DB.addLink
  split
  · rfl
  · split
    · rfl
    · cases db.find b.id <;> rfl

/-- the delivery of the inclusive starting block keeps the extra `nums` entry written by `InitLIB` -/
theorem initial_step_initNum (cfg : Config) (s : FState) (b : Blk) (hplan : plan cfg s b = .initial s) :
    (processBlock cfg s b none).1.db.initNum = s.db.initNum := by
  unfold processBlock
  rw [hplan]
  simp only [processInitialInclusive, finish]
  rw [initialAcc_eq]
  simp only
  split
  · rw [show (initFirst cfg { s with db := (s.db.addLink b).1 } b none).st.db.initNum = s.db.initNum from by
      unfold initFirst; split
      · rw [phase_incl]; exact addLink_initNum s.db b
      · exact addLink_initNum s.db b]
  · rw [processIrr_db]
    simp only [initSt]
    split
    · show ((initFirst cfg { s with db := (s.db.addLink b).1 } b none).st.db.markSent b.id).initNum = s.db.initNum
      show (initFirst cfg { s with db := (s.db.addLink b).1 } b none).st.db.initNum = s.db.initNum
      unfold initFirst; split
      · rw [phase_incl]; exact addLink_initNum s.db b
      · exact addLink_initNum s.db b
    · show (initFirst cfg { s with db := (s.db.addLink b).1 } b none).st.db.initNum = s.db.initNum
      unfold initFirst; split
      · rw [phase_incl]; exact addLink_initNum s.db b
      · exact addLink_initNum s.db b

/-- the same for a forkable started on an **inclusive** LIB (the starting block itself is delivered when it arrives):
    until something is delivered the two forkables are in the same state, the delivery of the starting block does not
    involve the retention setting, and from the first delivery on `twin_history` applies -/
theorem twin_history_inclusive (cfg : Config) (k : Nat) (hnew : cfg.matches .new = true) (hundo : cfg.matches .undo = true)
    (hirr : cfg.matches .irreversible = true) (U : Id → Option Blk) (hU : UOK U) (h : List Blk) (F : List Id)
    (s : FState) (P : List Id) (hI : Inv s P) (hJ : Inv2 U F s.db) (hi : InitNumOK s.db)
    (hincl : s.includeInit = true) (hls : s.lastSent = none)
    (hin : ∀ b ∈ h, U b.id = some b) (hL₁ : Props.C01.LibHistOK cfg s h)
    (hL₂ : Props.C01.LibHistOK { cfg with kept := k } s h) :
    (runHistory { cfg with kept := k } s h).2 = (runHistory cfg s h).2 := by
  induction h generalizing s P F with
  | nil => rfl
  | cons b r ih =>
    have hbU := hin b (by simp)
    have hb := hU.wf b.id b hbU
    rw [Props.C01.runHistory_cons, Props.C01.runHistory_cons]
    simp only
    by_cases hid : b.id = s.db.libRef.id
    · -- the starting block itself
      have hplan : plan cfg s b = .initial s := by
        unfold plan
        have h1 : (b.id == b.parent) = false := by simpa using hb.2.2
        have h2 : (decide (b.num < s.db.libRef.num) && s.lastSent.isSome) = false := by simp [hls]
        have h3 : (s.includeInit && s.lastSent.isNone && b.id == s.db.libRef.id) = true := by simp [hincl, hls, hid]
        simp [h1, h2, h3]
      have hsame := initial_ignores_kept cfg k s b hplan
      obtain ⟨_, hlast', hlib', hI', hJ'⟩ := inclusive_root_step cfg hnew hirr U hU F s P b hI hJ hincl hls hbU hid
      have hi' : InitNumOK (processBlock cfg s b none).1.db := by
        intro i n hin' hid'
        rw [hlib'] at hid' ⊢
        apply hi i n _ hid'
        -- the initial delivery keeps the extra `nums` entry
        have := initial_step_initNum cfg s b hplan
        rw [← this]; exact hin'
      rw [hsame]
      congr 1
      have hL₂' := hL₂.2
      rw [hsame] at hL₂'
      exact twin_history cfg k hnew hundo hirr U hU r F F _ _ [] (Twin.refl _) hI' hI' hJ' hJ' hi' hi'
        (fun x hx => hin x (by simp [hx])) hL₁.2 hL₂' (Or.inr (by rw [hlast']; rfl))
    · -- another block: an ordinary step from identical states
      have hni : s.includeInit = false ∨ s.lastSent.isSome = true ∨ b.id ≠ s.db.libRef.id := Or.inr (Or.inr hid)
      obtain ⟨hev, hT'⟩ := twin_step cfg { cfg with kept := k } rfl rfl rfl hnew hundo U hU F F s s P b (Twin.refl s) hI hI
        hJ hJ hi hi hbU hL₁.1 hL₂.1 hni
      obtain ⟨P₁, F₁', hrun₁, hI₁', hJ₁', _⟩ :=
        Props.C01.step_discipline_consistent cfg hnew hundo hirr U hU F s P b hI hJ hbU hL₁.1 hni
      obtain ⟨P₂, F₂', hrun₂, hI₂', hJ₂', _⟩ :=
        Props.C01.step_discipline_consistent { cfg with kept := k } hnew hundo hirr U hU F s P b hI hJ hbU hL₂.1 hni
      have hPP : P₂ = P₁ := by
        rw [hev, hrun₁] at hrun₂
        have := Option.some.inj hrun₂
        exact (CS.mk.inj this).2.symm
      subst hPP
      obtain ⟨_, _, _, _, _, hshape₁, _⟩ := processBlock_step cfg hnew hundo hirr s P b hI hni
        (sentClosed_of_inv2 U F s.db hI.wf hI.heights hJ) hb (hb_of_inv2 U hU F s.db hJ b hbU) hL₁.1
      obtain ⟨_, _, _, _, _, hshape₂, _⟩ := processBlock_step { cfg with kept := k } hnew hundo hirr s P b hI hni
        (sentClosed_of_inv2 U F s.db hI.wf hI.heights hJ) hb (hb_of_inv2 U hU F s.db hJ b hbU) hL₂.1
      have hi₁' := initNumOK_step cfg s b _ hshape₁ hi
      have hi₂' := initNumOK_step _ s b _ hshape₂ hi
      rw [hev]
      congr 1
      cases hls' : (processBlock cfg s b none).1.lastSent with
      | none =>
        have heq := hT'.eq_of_not_started hls'
        have hL₂' := hL₂.2
        rw [heq] at hL₂' ⊢
        exact ih F₁' _ P₂ hI₁' hJ₁' hi₁' (by rw [processBlock_includeInit]; exact hincl) hls'
          (fun x hx => hin x (by simp [hx])) hL₁.2 hL₂'
      | some l =>
        exact twin_history cfg k hnew hundo hirr U hU r F₁' F₂' _ _ P₂ hT' hI₁' hI₂' hJ₁' hJ₂' hi₁' hi₂'
          (fun x hx => hin x (by simp [hx])) hL₁.2 hL₂.2 (Or.inr (by rw [hls']; rfl))

/-- **outputs do not depend on the retention setting**, inclusive starting LIB -/
theorem outputs_independent_of_retention_inclusive (cfg : Config) (k : Nat) (r : Ref) (hr : r.id ≠ "")
    (hroot : cfg.root = some (.inclusive r)) (hnew : cfg.matches .new = true) (hundo : cfg.matches .undo = true)
    (hirr : cfg.matches .irreversible = true) (U : Id → Option Blk) (hU : UOK U)
    (h1 : ∀ b, U b.id = some b → b.parent = r.id → r.num < b.num)
    (h2 : ∀ b, U b.id = some b → b.id = r.id → b.num = r.num)
    (h : List Blk) (hin : ∀ b ∈ h, U b.id = some b)
    (hL₁ : Props.C01.LibHistOK cfg (init cfg) h)
    (hL₂ : Props.C01.LibHistOK { cfg with kept := k } (init { cfg with kept := k }) h) :
    (runHistory { cfg with kept := k } (init { cfg with kept := k }) h).2 = (runHistory cfg (init cfg) h).2 := by
  have hinit : init { cfg with kept := k } = init cfg := by unfold init; rfl
  rw [hinit] at hL₂ ⊢
  obtain ⟨hI, hJ, hincl, hls⟩ := Props.C01.init_inv_inclusive cfg r hr hroot U h1 h2
  exact twin_history_inclusive cfg k hnew hundo hirr U hU h [r.id] (init cfg) [] hI hJ (initNumOK_init cfg) hincl hls hin hL₁ hL₂

/-! ### the inclusive starting LIB: invariants along a history, and the head is followed -/

/-- what holds after any prefix of a history fed to a forkable started on an inclusive LIB: the invariants, and either
    nothing has been delivered yet or something has -/
def InclPhase (U : Id → Option Blk) (s : FState) : Prop :=
  ∃ P F, Inv s P ∧ Inv2 U F s.db ∧ InitNumOK s.db ∧
    ((s.includeInit = true ∧ s.lastSent = none) ∨ s.lastSent.isSome = true)

theorem inclPhase_step (cfg : Config) (hnew : cfg.matches .new = true) (hundo : cfg.matches .undo = true)
    (hirr : cfg.matches .irreversible = true) (U : Id → Option Blk) (hU : UOK U) (s : FState) (b : Blk)
    (hph : InclPhase U s) (hbU : U b.id = some b) (hL : LibDeclOK s.db b) :
    InclPhase U (processBlock cfg s b none).1 := by
  obtain ⟨P, F, hI, hJ, hi, hphase⟩ := hph
  have hb := hU.wf b.id b hbU
  -- the ordinary step, whenever the block is not the awaited starting block
  have ordinary : (s.includeInit = false ∨ s.lastSent.isSome = true ∨ b.id ≠ s.db.libRef.id) →
      InclPhase U (processBlock cfg s b none).1 := by
    intro hni
    obtain ⟨P₁, F₁, _, hI₁, hJ₁, htip⟩ :=
      Props.C01.step_discipline_consistent cfg hnew hundo hirr U hU F s P b hI hJ hbU hL hni
    obtain ⟨_, _, _, _, _, hshape, _⟩ := processBlock_step cfg hnew hundo hirr s P b hI hni
      (sentClosed_of_inv2 U F s.db hI.wf hI.heights hJ) hb (hb_of_inv2 U hU F s.db hJ b hbU) hL
    refine ⟨P₁, F₁, hI₁, hJ₁, initNumOK_step cfg s b _ hshape hi, ?_⟩
    rcases htip with ⟨_, hsame⟩ | hsome
    · rcases hphase with ⟨h1, h2⟩ | h
      · exact Or.inl ⟨by rw [processBlock_includeInit]; exact h1, by rw [hsame]; exact h2⟩
      · exact Or.inr (by rw [hsame]; exact h)
    · exact Or.inr hsome
  rcases hphase with ⟨hincl, hls⟩ | hsome
  · by_cases hid : b.id = s.db.libRef.id
    · have hplan : plan cfg s b = .initial s := by
        unfold plan
        have h1 : (b.id == b.parent) = false := by simpa using hb.2.2
        have h2 : (decide (b.num < s.db.libRef.num) && s.lastSent.isSome) = false := by simp [hls]
        have h3 : (s.includeInit && s.lastSent.isNone && b.id == s.db.libRef.id) = true := by simp [hincl, hls, hid]
        simp [h1, h2, h3]
      obtain ⟨_, hlast', hlib', hI', hJ'⟩ := inclusive_root_step cfg hnew hirr U hU F s P b hI hJ hincl hls hbU hid
      refine ⟨[], F, hI', hJ', ?_, Or.inr (by rw [hlast']; rfl)⟩
      intro i n hin' hid'
      rw [hlib'] at hid' ⊢
      exact hi i n (by rw [← initial_step_initNum cfg s b hplan]; exact hin') hid'
    · exact ordinary (Or.inr (Or.inr hid))
  · exact ordinary (Or.inr (Or.inl hsome))

theorem inclPhase_history (cfg : Config) (hnew : cfg.matches .new = true) (hundo : cfg.matches .undo = true)
    (hirr : cfg.matches .irreversible = true) (U : Id → Option Blk) (hU : UOK U) (h : List Blk) (s : FState)
    (hph : InclPhase U s) (hin : ∀ b ∈ h, U b.id = some b) (hL : Props.C01.LibHistOK cfg s h) :
    InclPhase U (runHistory cfg s h).1 := by
  induction h generalizing s with
  | nil => exact hph
  | cons b r ih =>
    rw [Props.C01.runHistory_cons]
    exact ih _ (inclPhase_step cfg hnew hundo hirr U hU s b hph (hin b (by simp)) hL.1)
      (fun x hx => hin x (by simp [hx])) hL.2

/-- **the head and the declared finality are followed, inclusive starting LIB** (hypotheses on the input only): after any
    prefix of a history fed to a forkable started on an inclusive LIB `r`, a block that is new to the stream, not below
    the LIB, is not the awaited starting block itself, rests on a path of received blocks resting on the LIB and
    triggers becomes the tip; and the LIB moves to the block of that path carrying the LIB number it declares -/
theorem history_head_and_lib_follow_inclusive (cfg : Config) (r : Ref) (hr : r.id ≠ "")
    (hroot : cfg.root = some (.inclusive r)) (hnew : cfg.matches .new = true) (hundo : cfg.matches .undo = true)
    (hirr : cfg.matches .irreversible = true) (U : Id → Option Blk) (hU : UOK U)
    (h1 : ∀ b, U b.id = some b → b.parent = r.id → r.num < b.num)
    (h2 : ∀ b, U b.id = some b → b.id = r.id → b.num = r.num)
    (pre : List Blk) (b : Blk) (hin : ∀ x ∈ pre ++ [b], U x.id = some x)
    (hL : Props.C01.LibHistOK cfg (init cfg) (pre ++ [b]))
    (hnotroot : b.id ≠ (runHistory cfg (init cfg) pre).1.db.libRef.id ∨ (runHistory cfg (init cfg) pre).1.lastSent.isSome = true)
    (hfresh : (runHistory cfg (init cfg) pre).1.db.find b.id = none)
    (hnb : ¬ (b.num < (runHistory cfg (init cfg) pre).1.db.libRef.num ∧ (runHistory cfg (init cfg) pre).1.lastSent.isSome = true))
    (ids : List Id) (hp : IsPath (runHistory cfg (init cfg) pre).1.db (runHistory cfg (init cfg) pre).1.db.libRef.id ids)
    (hn : (runHistory cfg (init cfg) pre).1.db.libRef.id ∉ ids)
    (hpar : b.parent = topOf (runHistory cfg (init cfg) pre).1.db.libRef.id ids)
    (htr : triggers cfg (runHistory cfg (init cfg) pre).1 b = true) :
    (∃ l, (runHistory cfg (init cfg) (pre ++ [b])).1.lastSent = some l ∧ l.ref = b.ref) ∧
    (∀ x ex, x ∈ ids → (runHistory cfg (init cfg) pre).1.db.find x = some ex → ex.blk.num = b.lib →
      (runHistory cfg (init cfg) (pre ++ [b])).1.db.libRef = ⟨x, b.lib⟩) := by
  obtain ⟨hI0, hJ0, hincl0, hls0⟩ := Props.C01.init_inv_inclusive cfg r hr hroot U h1 h2
  obtain ⟨hLpre, hLb⟩ := libHistOK_append cfg (init cfg) pre b hL
  obtain ⟨P1, F1, hI1, hJ1, hi1, hphase⟩ := inclPhase_history cfg hnew hundo hirr U hU pre (init cfg)
    ⟨[], [r.id], hI0, hJ0, initNumOK_init cfg, Or.inl ⟨hincl0, hls0⟩⟩ (fun x hx => hin x (by simp [hx])) hLpre
  have hbU := hin b (by simp)
  have hni : (runHistory cfg (init cfg) pre).1.includeInit = false ∨ (runHistory cfg (init cfg) pre).1.lastSent.isSome = true ∨
      b.id ≠ (runHistory cfg (init cfg) pre).1.db.libRef.id := by
    rcases hnotroot with h | h
    · exact Or.inr (Or.inr h)
    · exact Or.inr (Or.inl h)
  have hok : Props.C01.StepOK (runHistory cfg (init cfg) pre).1 b :=
    ⟨hni, sentClosed_of_inv2 U F1 _ hI1.wf hI1.heights hJ1, hU.wf b.id b hbU, hb_of_inv2 U hU F1 _ hJ1 b hbU, hLb⟩
  have := linked_block_step cfg hnew hundo hirr _ P1 b hI1 hok hi1 hfresh hnb ids hp hn hpar htr
  have hsplit : (runHistory cfg (init cfg) (pre ++ [b])).1 = (processBlock cfg (runHistory cfg (init cfg) pre).1 b none).1 := by
    unfold runHistory
    rw [List.foldl_append]
    rfl
  rw [hsplit]; exact this

/-! ### outputs do not depend on re-fed or below-LIB blocks -/

/-- a block the forkable ignores in state `s`: below the LIB once the stream has started, or stored already -/
def Ignored (s : FState) (b : Blk) : Prop :=
  (b.num < s.db.libRef.num ∧ s.lastSent.isSome = true) ∨
  ((b.id ≠ b.parent ∧ b.id ≠ "" ∧ s.db.link b.id ≠ "") ∧
    (s.includeInit && s.lastSent.isNone && b.id == s.db.libRef.id) = false)

/-- `Thinned cfg s h h'`: `h'` is the history `h` with some blocks removed, each of them ignored (re-fed or below the
    LIB) in the state the forkable is in when it arrives -/
inductive Thinned (cfg : Config) : FState → List Blk → List Blk → Prop
  | nil (s : FState) : Thinned cfg s [] []
  | keep (s : FState) (b : Blk) (r r' : List Blk) :
      Thinned cfg (processBlock cfg s b none).1 r r' → Thinned cfg s (b :: r) (b :: r')
  | drop (s : FState) (b : Blk) (r r' : List Blk) : Ignored s b → Thinned cfg s r r' → Thinned cfg s (b :: r) r'

/-- **outputs do not depend on re-fed or below-LIB blocks**: whatever the history, the configuration and the state
    the forkable starts from, removing any number of blocks that arrive a second time or below the LIB changes neither
    the event stream nor the final state (no hypothesis on the blocks) -/
theorem outputs_ignore_refed_and_below_lib_blocks (cfg : Config) (s : FState) (h h' : List Blk)
    (ht : Thinned cfg s h h') : runHistory cfg s h = runHistory cfg s h' := by
  induction ht with
  | nil s => rfl
  | keep s b r r' _ ih => rw [Props.C01.runHistory_cons, Props.C01.runHistory_cons, ih]
  | drop s b r r' hig _ ih =>
    obtain ⟨h1, h2⟩ := no_move cfg s b none hig
    rw [Props.C01.runHistory_cons, h1, h2, ← ih]
    rfl

private def cfgN : Config := { root := some (.exclusive ⟨"r", 1⟩), hold := false, kept := 1, allTrigger := false, filter := 51, fsb := 0 }
private def a2 : Blk := ⟨"a2", "r", 2, 1⟩
private def a3 : Blk := ⟨"a3", "a2", 3, 1⟩
private def a4 : Blk := ⟨"a4", "a3", 4, 2⟩
private def a5 : Blk := ⟨"a5", "a4", 5, 3⟩
private def z1 : Blk := ⟨"z1", "z0", 1, 1⟩

/-- non-vacuity: a3 arrives twice, and z1 arrives below the LIB after the LIB moved to a3 -/
example : Thinned cfgN (init cfgN) [a2, a3, a3, a4, a5, z1] [a2, a3, a4, a5] := by
  apply Thinned.keep; apply Thinned.keep
  apply Thinned.drop _ _ _ _ (Or.inr ⟨⟨by decide, by decide, by decide⟩, by decide⟩)
  apply Thinned.keep; apply Thinned.keep
  apply Thinned.drop _ _ _ _ (Or.inl ⟨by decide, by decide⟩)
  exact Thinned.nil _

private def uN : List Blk := [a2, a3, a4, a5]

/-- non-vacuity of `history_head_and_lib_follow`: after a2, a3, a4 (LIB at a2) the block a5, which declares LIB 3,
    becomes the tip and moves the LIB to a3 — every hypothesis discharged by kernel evaluation -/
example : (∃ l, (runHistory cfgN (init cfgN) ([a2, a3, a4] ++ [a5])).1.lastSent = some l ∧ l.ref = a5.ref) ∧
    (runHistory cfgN (init cfgN) ([a2, a3, a4] ++ [a5])).1.db.libRef = ⟨"a3", 3⟩ := by
  have hU : UOK (ofList uN) := uokB_sound uN (by decide)
  have hI := Props.C01.init_inv cfgN ⟨"r", 1⟩ (by decide) rfl
  have hJ : Inv2 (ofList uN) ["r"] (init cfgN).db := by
    apply Props.C01.init_inv2 cfgN ⟨"r", 1⟩ rfl
    · intro b hb hp
      have hm := (ofList_mem uN _ b hb).1
      have : ∀ x ∈ uN, x.parent = "r" → 1 < x.num := by decide
      exact this b hm hp
    · intro b hb hid
      have hm := (ofList_mem uN _ b hb).1
      have : ∀ x ∈ uN, x.id = "r" → x.num = 1 := by decide
      exact this b hm hid
  have hin : ∀ b ∈ [a2, a3, a4] ++ [a5], ofList uN b.id = some b := by
    intro b hb
    apply ofList_of_mem uN (by decide)
    have : ∀ x ∈ [a2, a3, a4] ++ [a5], x ∈ uN := by decide
    exact this b hb
  have h := history_head_and_lib_follow cfgN (by decide) (by decide) (by decide) (ofList uN) hU [a2, a3, a4] a5 ["r"]
    (init cfgN) [] hI hJ hin (libHistB_sound cfgN _ _ (by decide)) (Or.inl rfl) (initNumOK_init cfgN)
    (by decide) (by decide) ["a3", "a4"] ⟨by decide, by decide, by decide, by decide, trivial⟩ (by decide) (by decide)
    (by decide)
  exact ⟨h.1, h.2 "a3" ⟨a3, true⟩ (by decide) (by decide) rfl⟩

/-- non-vacuity of `outputs_independent_of_retention`: the history a2 … a5 (two LIB moves, hence two purges) with 1 and
    with 7 kept final blocks — every hypothesis discharged by kernel evaluation -/
example : (runHistory { cfgN with kept := 7 } (init { cfgN with kept := 7 }) [a2, a3, a4, a5]).2 =
    (runHistory cfgN (init cfgN) [a2, a3, a4, a5]).2 := by
  apply outputs_independent_of_retention cfgN 7 ⟨"r", 1⟩ (by decide) rfl (by decide) (by decide) (by decide)
    (ofList uN) (uokB_sound uN (by decide))
  · intro b hb hp
    have hm := (ofList_mem uN _ b hb).1
    have : ∀ x ∈ uN, x.parent = "r" → 1 < x.num := by decide
    exact this b hm hp
  · intro b hb hid
    have hm := (ofList_mem uN _ b hb).1
    have : ∀ x ∈ uN, x.id = "r" → x.num = 1 := by decide
    exact this b hm hid
  · intro b hb
    apply ofList_of_mem uN (by decide)
    have : ∀ x ∈ [a2, a3, a4, a5], x ∈ uN := by decide
    exact this b hb
  · exact libHistB_sound cfgN _ _ (by decide)
  · exact libHistB_sound { cfgN with kept := 7 } _ _ (by decide)

end BstreamVerif.Props.C03
