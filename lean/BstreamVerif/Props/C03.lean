import BstreamVerif.Model.Forkable
import BstreamVerif.Spec.Consumer
namespace BstreamVerif.Props.C03
open BstreamVerif BstreamVerif.Forkable BstreamVerif.Consumer

end BstreamVerif.Props.C03
