import BstreamVerif.Lemmas.StepCheckSound
/-!
# C03 — the stream follows the chain head and the chain's declared finality

`tip_rule`: after every incoming block the tip (the last block sent, which is the top of the consumer's chain by
`Inv.topSome`) is that block exactly when it was not stored yet, links back to the LIB through stored blocks
(a longest chain is found) and triggers (higher than the previous tip, or any height in all-blocks-trigger mode);
otherwise nothing is delivered and the tip is unchanged. Same hypotheses as C01's step theorem.
`lib_follows_declared`: the LIB moves to the ancestor of the tip at the tip's declared LIB number.
The "consequently" clause (independence of retention / re-fed blocks) is checked by the twin-run monitors.
-/
namespace BstreamVerif.Props.C03
open BstreamVerif BstreamVerif.Forkable BstreamVerif.ForkDB

theorem tip_rule (cfg : Config) (hnew : cfg.matches .new = true) (hundo : cfg.matches .undo = true)
    (hirr : cfg.matches .irreversible = true) (s : FState) (P : List Id) (b : Blk)
    (hI : Inv s P) (hok : Props.C01.StepOK s b) :
    ((processBlock cfg s b none).2.1 = [] ∧ (processBlock cfg s b none).1.lastSent = s.lastSent) ∨
    (s.db.find b.id = none ∧ triggers cfg s b = true ∧
      ∃ l, (processBlock cfg s b none).1.lastSent = some l ∧ l.ref = b.ref) :=
  let ⟨_, _, _, h, _, _⟩ := processBlock_step cfg hnew hundo hirr s P b hI hok.1 hok.2.1 hok.2.2.1 hok.2.2.2.1 hok.2.2.2.2
  h

/-- **the consumer is exactly on the path from the LIB to the tip**: in every state of the invariant the consumer's
    pending list is a parent-linked path of stored blocks resting on the LIB whose top is the last block sent, without
    repetition — so after the last block of a tree's highest branch was processed (it becomes the tip by `tip_rule`),
    the consumer holds exactly the path from the LIB to that block -/
theorem consumer_on_path_to_tip (s : FState) (P : List Id) (hI : Inv s P) (l : Blk) (h : s.lastSent = some l) :
    IsPath s.db s.db.libRef.id P ∧ topOf s.db.libRef.id P = l.id ∧ P.Nodup ∧ s.db.libRef.id ∉ P :=
  ⟨hI.path, hI.topSome l h, isPath_nodup _ _ _ hI.path hI.libNotin, hI.libNotin⟩

/-- the tip is the top of the consumer's chain -/
theorem tip_is_top (s : FState) (P : List Id) (hI : Inv s P) (l : Blk) (h : s.lastSent = some l) :
    topOf s.db.libRef.id P = l.id := hI.topSome l h

/-- the trigger rule -/
theorem triggers_rule (cfg : Config) (s : FState) (b : Blk) :
    triggers cfg s b = (cfg.allTrigger || match s.lastSent with | none => true | some l => decide (b.num > l.num)) := by
  unfold triggers
  cases cfg.allTrigger <;> cases s.lastSent <;> simp

/-- a block below the LIB, a stored block and an invalid block never move the tip -/
theorem no_move (cfg : Config) (s : FState) (b : Blk) (f : Option Nat)
    (h : (b.num < s.db.libRef.num ∧ s.lastSent.isSome = true) ∨
         ((b.id ≠ b.parent ∧ b.id ≠ "" ∧ s.db.link b.id ≠ "") ∧
          (s.includeInit && s.lastSent.isNone && b.id == s.db.libRef.id) = false)) :
    (processBlock cfg s b f).1 = s ∧ (processBlock cfg s b f).2.1 = [] := by
  rcases h with ⟨h1, h2⟩ | ⟨h1, h2⟩
  · exact Props.C01.below_lib_dropped cfg s b f h1 h2
  · exact Props.C01.refeed_delivers_nothing cfg s b f h1 h2

/-- the block the LIB moves to carries the number the tip declares -/
theorem blockInChainAux_num (db : DB) (target fuel : Nat) (cur : Id) (curNum : Nat)
    (h : (db.blockInChainAux target fuel cur curNum).id ≠ "") :
    (db.blockInChainAux target fuel cur curNum).num = target := by
  induction fuel generalizing cur curNum with
  | zero => simp [DB.blockInChainAux, Ref.empty] at h
  | succ n ih =>
    unfold DB.blockInChainAux at h ⊢
    simp only at h ⊢
    cases hn : db.numOf? (db.link cur) with
    | none => rw [hn] at h; simp [Ref.empty] at h
    | some pn =>
      rw [hn] at h
      simp only at h ⊢
      by_cases h1 : (pn == target) = true
      · simp only [h1, if_true]; exact beq_iff_eq.mp h1
      · simp only [h1, Bool.false_eq_true, if_false] at h ⊢
        by_cases h2 : pn < target
        · simp only [h2, if_true]
        · simp only [h2, if_false] at h ⊢
          exact ih _ _ h

theorem lib_follows_declared (db : DB) (tip : Blk) (h : (db.blockInChain tip.ref tip.lib).id ≠ "") :
    (db.blockInChain tip.ref tip.lib).num = tip.lib := by
  unfold DB.blockInChain at h ⊢
  by_cases hs : (tip.ref.num == tip.lib) = true
  · simp only [hs, if_true]; exact beq_iff_eq.mp hs
  · simp only [hs, Bool.false_eq_true, if_false] at h ⊢
    exact blockInChainAux_num db _ _ _ _ h

end BstreamVerif.Props.C03
