import BstreamVerif.Props.C13
import BstreamVerif.Props.C09
/-!
# C07 — file-to-live handoff is seamless: exactly-once, in order, no dropped undo

The simulation `Joining.runStream` delivers file-side events (merged files through the cursor resolver) until the
hub can serve the block the file side is about to deliver, then the hub's burst and the live events. Theorems, for
every store, hub, schedule of hub pushes and configuration: the block at which the handoff happens is delivered
exactly once (the file event is dropped and the burst starts with that very block number); after the handoff no
file event is delivered; deliveries are never retracted or reordered; an Undo or Irreversible event coming out of the
cursor resolver never triggers the handoff, so it is always delivered (the dropped-undo defect fixed by f47de1c).
That the two sides are views of one chain ("provided files and hub together cover the chain") is an assumption
about the inputs that the theorems do not need; the consumer-level statement (discipline from the consumer state
implied by the start point) is decided by the stream monitors over the correspondence suite.
-/
namespace BstreamVerif.Props.C07
open BstreamVerif BstreamVerif.Joining BstreamVerif.HubBurst BstreamVerif.Forkable

theorem dropWhile_head_false {α} (p : α → Bool) (l : List α) (a : α) (t : List α) (h : l.dropWhile p = a :: t) :
    p a = false := by
  induction l with
  | nil => simp at h
  | cons x r ih =>
    by_cases hx : p x = true
    · rw [List.dropWhile_cons_of_pos hx] at h; exact ih h
    · rw [List.dropWhile_cons_of_neg hx] at h
      injection h with h1 _
      rw [← h1]; simpa using hx

/-- **the handoff block is delivered exactly once**: the hub's answer to a request by number starts with a block of
    exactly that number (the file event for it is the one that is dropped) -/
theorem burst_starts_at_requested_block (s : FState) (n : Nat) (e : Event) (rest : List Event)
    (h : blocksFromNum s n = some (e :: rest)) : e.blk.num = n := by
  unfold blocksFromNum at h
  cases hs : headSegment s with
  | none => rw [hs] at h; cases h
  | some p =>
    obtain ⟨hd, seg⟩ := p
    rw [hs] at h
    simp only at h
    rw [Props.C09.go_unseen] at h
    cases hd' : seg.dropWhile (fun e => e.blk.num != n) with
    | nil => rw [hd'] at h; simp at h
    | cons a t =>
      rw [hd'] at h
      simp only [List.map_cons] at h
      injection h with h
      injection h with h1 _
      have := dropWhile_head_false _ _ _ _ hd'
      rw [← h1]
      simpa [wrap] using this

/-- the handoff in `step1`: the file event is not delivered, the burst replaces the file side -/
theorem handoff_replaces_file_side (cfg : SCfg) (m : Sim) (e : Event) (rest : List Event) (b : List Event)
    (hj : m.joined = false) (hq : m.fileQ = e :: rest) (hlow : (decide (e.blk.num ≥ m.lowest) && joinable e) = true)
    (hnt : cfg.cursorIsTarget = false) (hb : blocksFromNum m.hub e.blk.num = some b) :
    (step1 cfg m).joined = true ∧ (step1 cfg m).liveQ = b ∧ (step1 cfg m).fileQ = [] ∧
    (step1 cfg m).delivered = m.delivered := by
  have hs : step1 cfg m = { m with joined := true, liveQ := b, fileQ := [] } := by
    unfold step1
    simp only [hj, Bool.false_eq_true, if_false, hq, hlow, if_true, hnt, hb]
  rw [hs]
  exact ⟨rfl, rfl, rfl, rfl⟩

/-- **no dropped undo**: an event that is not a new block (an Undo or an Irreversible announcement produced by the
    cursor resolver) never triggers the handoff: it goes to the handler chain -/
theorem non_new_event_is_delivered (cfg : SCfg) (m : Sim) (e : Event) (rest : List Event)
    (hj : m.joined = false) (hq : m.fileQ = e :: rest) (hne : joinable e = false) :
    step1 cfg m = Sim.deliver cfg { m with fileQ := rest } e := by
  unfold step1
  simp only [hj, Bool.false_eq_true, if_false, hq, hne, Bool.and_false]

theorem undo_is_not_joinable (e : Event) (h : e.step = .undo ∨ e.step = .irreversible) : joinable e = false := by
  unfold joinable
  rcases h with h | h <;> rw [h] <;> decide

/-! ### deliveries are never retracted or reordered; after the handoff the file side is silent -/

theorem foldl_push_fields (l : List Push) (x : Sim) :
    (l.foldl (fun m p => m.push p.blk) x).joined = x.joined ∧ (l.foldl (fun m p => m.push p.blk) x).fileQ = x.fileQ := by
  induction l generalizing x with
  | nil => exact ⟨rfl, rfl⟩
  | cons p t ih =>
    simp only [List.foldl_cons]
    have := ih (x.push p.blk)
    have hp : (x.push p.blk).joined = x.joined ∧ (x.push p.blk).fileQ = x.fileQ := by unfold Sim.push; exact ⟨rfl, rfl⟩
    exact ⟨this.1.trans hp.1, this.2.trans hp.2⟩

theorem applyPushes_fields (m : Sim) (w : When) :
    (m.applyPushes w).joined = m.joined ∧ (m.applyPushes w).fileQ = m.fileQ := by
  unfold Sim.applyPushes
  exact foldl_push_fields _ _

theorem deliver_prefix (cfg : SCfg) (m : Sim) (e : Event) (d : List Event) (hd : m.delivered = d) :
    d <+: (Sim.deliver cfg m e).delivered ∧ (Sim.deliver cfg m e).joined = m.joined ∧
    (Sim.deliver cfg m e).fileQ = m.fileQ := by
  subst hd
  unfold Sim.deliver
  split
  · exact ⟨List.prefix_refl _, rfl, rfl⟩
  · split
    · exact ⟨List.prefix_refl _, rfl, rfl⟩
    · have ha := applyPushes_fields { m with delivered := m.delivered ++ [e], count := m.count + 1 } (.afterDelivery m.count)
      have hd := (Props.C13.applyPushes_out { m with delivered := m.delivered ++ [e], count := m.count + 1 } (.afterDelivery m.count)).1
      split
      · exact ⟨List.prefix_append _ _, rfl, rfl⟩
      split
      · exact ⟨by simp only; rw [hd]; exact List.prefix_append _ _, ha.1, ha.2⟩
      · exact ⟨by rw [hd]; exact List.prefix_append _ _, ha.1, ha.2⟩

/-- once on the live side the file side stays empty: no file event is ever delivered after the handoff -/
def LiveClean (m : Sim) : Prop := m.joined = true → m.fileQ = []

theorem step1_prefix (cfg : SCfg) (m : Sim) (hc : LiveClean m) :
    m.delivered <+: (step1 cfg m).delivered ∧ LiveClean (step1 cfg m) := by
  unfold step1
  by_cases hj : m.joined = true
  · rw [if_pos hj]
    cases hq : m.liveQ with
    | cons e rest =>
      simp only
      have := deliver_prefix cfg { m with liveQ := rest } e m.delivered rfl
      exact ⟨this.1, fun _ => by rw [this.2.2]; exact hc hj⟩
    | nil =>
      simp only
      cases hp : m.pushes with
      | cons p rest =>
        simp only
        exact ⟨by rw [(Props.C13.push_out _ _).1]; exact List.prefix_refl _, fun _ => by unfold Sim.push; exact hc hj⟩
      | nil => exact ⟨List.prefix_refl _, fun _ => hc hj⟩
  · rw [if_neg hj]
    cases hq : m.fileQ with
    | nil =>
      simp only
      cases m.fileEnd with
      | some e => exact ⟨List.prefix_refl _, fun h => absurd h hj⟩
      | none => exact ⟨List.prefix_refl _, fun h => absurd h hj⟩
    | cons e rest =>
      simp only
      by_cases hlow : (decide (e.blk.num ≥ m.lowest) && joinable e) = true
      · rw [if_pos hlow]
        generalize (if cfg.cursorIsTarget = true then
            (match cfg.cursor with | some c => hubThroughCursor m.hub e.blk.num c | none => none)
          else blocksFromNum m.hub e.blk.num) = burst
        cases burst with
        | some b => exact ⟨List.prefix_refl _, fun _ => rfl⟩
        | none =>
          simp only
          have := deliver_prefix cfg { m with fileQ := rest, lowest := if m.ready then hubLowest m.hub else 0 } e m.delivered rfl
          exact ⟨this.1, fun h => by rw [this.2.1] at h; exact absurd h hj⟩
      · rw [if_neg hlow]
        have := deliver_prefix cfg { m with fileQ := rest } e m.delivered rfl
        exact ⟨this.1, fun h => by rw [this.2.1] at h; exact absurd h hj⟩

/-- **deliveries are never retracted or reordered** along the whole run -/
theorem simLoop_prefix (cfg : SCfg) (fuel : Nat) (m : Sim) (hc : LiveClean m) :
    m.delivered <+: (simLoop cfg fuel m).delivered ∧ LiveClean (simLoop cfg fuel m) := by
  induction fuel generalizing m with
  | zero => exact ⟨List.prefix_refl _, hc⟩
  | succ n ih =>
    unfold simLoop
    split
    · exact ⟨List.prefix_refl _, hc⟩
    · obtain ⟨h1, h2⟩ := step1_prefix cfg m hc
      obtain ⟨h3, h4⟩ := ih (step1 cfg m) h2
      exact ⟨List.IsPrefix.trans h1 h3, h4⟩

end BstreamVerif.Props.C07
