import BstreamVerif.Props.C13
import BstreamVerif.Props.C09
import BstreamVerif.Props.C06
import BstreamVerif.Props.C01
import BstreamVerif.Lemmas.Seam
import BstreamVerif.Lemmas.StepCheckSound
import BstreamVerif.Lemmas.StackConsumer
/-!
# C07 — file-to-live handoff is seamless: exactly-once, in order, no dropped undo

The simulation `Joining.runStream` delivers file-side events (merged files through the cursor resolver) until the
hub can serve the block the file side is about to deliver, then the hub's burst and the live events. Theorems, for
every store, hub, schedule of hub pushes and configuration: the block at which the handoff happens is delivered
exactly once (the file event is dropped and the burst starts with that very block number); after the handoff no
file event is delivered; deliveries are never retracted or reordered; an Undo or Irreversible event coming out of the
cursor resolver never triggers the handoff, so it is always delivered (the dropped-undo defect fixed by f47de1c).
That the two sides are views of one chain ("provided files and hub together cover the chain") is an assumption
about the inputs that the theorems do not need; the consumer-level statement (discipline from the consumer state
implied by the start point) is decided by the stream monitors over the correspondence suite.
-/
namespace BstreamVerif.Props.C07
open BstreamVerif BstreamVerif.Joining BstreamVerif.HubBurst BstreamVerif.Forkable

theorem dropWhile_head_false {α} (p : α → Bool) (l : List α) (a : α) (t : List α) (h : l.dropWhile p = a :: t) :
    p a = false := by
  induction l with
  | nil => simp at h
  | cons x r ih =>
    by_cases hx : p x = true
    · rw [List.dropWhile_cons_of_pos hx] at h; exact ih h
    · rw [List.dropWhile_cons_of_neg hx] at h
      injection h with h1 _
      rw [← h1]; simpa using hx

/-- **the handoff block is delivered exactly once**: the hub's answer to a request by number starts with a block of
    exactly that number (the file event for it is the one that is dropped) -/
theorem burst_starts_at_requested_block (s : FState) (n : Nat) (e : Event) (rest : List Event)
    (h : blocksFromNum s n = some (e :: rest)) : e.blk.num = n := by
  unfold blocksFromNum at h
  cases hs : headSegment s with
  | none => rw [hs] at h; cases h
  | some p =>
    obtain ⟨hd, seg⟩ := p
    rw [hs] at h
    simp only at h
    rw [Props.C09.go_unseen] at h
    cases hd' : seg.dropWhile (fun e => e.blk.num != n) with
    | nil => rw [hd'] at h; simp at h
    | cons a t =>
      rw [hd'] at h
      simp only [List.map_cons] at h
      injection h with h
      injection h with h1 _
      have := dropWhile_head_false _ _ _ _ hd'
      rw [← h1]
      simpa [wrap] using this

/-- the handoff in `step1`: the file event is not delivered, the burst replaces the file side -/
theorem handoff_replaces_file_side (cfg : SCfg) (m : Sim) (e : Event) (rest : List Event) (b : List Event)
    (hj : m.joined = false) (hq : m.fileQ = e :: rest) (hlow : (decide (e.blk.num ≥ m.lowest) && joinable e) = true)
    (hnt : cfg.cursorIsTarget = false) (hb : blocksFromNum m.hub e.blk.num = some b) :
    (step1 cfg m).joined = true ∧ (step1 cfg m).liveQ = b ∧ (step1 cfg m).fileQ = [] ∧
    (step1 cfg m).delivered = m.delivered := by
  have hs : step1 cfg m = { m with joined := true, liveQ := b, fileQ := [] } := by
    unfold step1
    simp only [hj, Bool.false_eq_true, if_false, hq, hlow, if_true, hnt, hb]
  rw [hs]
  exact ⟨rfl, rfl, rfl, rfl⟩

/-- **no dropped undo**: an event that is not a new block (an Undo or an Irreversible announcement produced by the
    cursor resolver) never triggers the handoff: it goes to the handler chain -/
theorem non_new_event_is_delivered (cfg : SCfg) (m : Sim) (e : Event) (rest : List Event)
    (hj : m.joined = false) (hq : m.fileQ = e :: rest) (hne : joinable e = false) :
    step1 cfg m = Sim.deliver cfg { m with fileQ := rest } e := by
  unfold step1
  simp only [hj, Bool.false_eq_true, if_false, hq, hne, Bool.and_false]

theorem undo_is_not_joinable (e : Event) (h : e.step = .undo ∨ e.step = .irreversible) : joinable e = false := by
  unfold joinable
  rcases h with h | h <;> rw [h] <;> decide

/-! ### deliveries are never retracted or reordered; after the handoff the file side is silent -/

theorem foldl_push_fields (l : List Push) (x : Sim) :
    (l.foldl (fun m p => m.push p.blk) x).joined = x.joined ∧ (l.foldl (fun m p => m.push p.blk) x).fileQ = x.fileQ := by
  induction l generalizing x with
  | nil => exact ⟨rfl, rfl⟩
  | cons p t ih =>
    simp only [List.foldl_cons]
    have := ih (x.push p.blk)
    have hp : (x.push p.blk).joined = x.joined ∧ (x.push p.blk).fileQ = x.fileQ := by unfold Sim.push; exact ⟨rfl, rfl⟩
    exact ⟨this.1.trans hp.1, this.2.trans hp.2⟩

theorem applyPushes_fields (m : Sim) (w : When) :
    (m.applyPushes w).joined = m.joined ∧ (m.applyPushes w).fileQ = m.fileQ := by
  unfold Sim.applyPushes
  exact foldl_push_fields _ _

theorem deliver_prefix (cfg : SCfg) (m : Sim) (e : Event) (d : List Event) (hd : m.delivered = d) :
    d <+: (Sim.deliver cfg m e).delivered ∧ (Sim.deliver cfg m e).joined = m.joined ∧
    (Sim.deliver cfg m e).fileQ = m.fileQ := by
  subst hd
  unfold Sim.deliver
  split
  · exact ⟨List.prefix_refl _, rfl, rfl⟩
  · split
    · exact ⟨List.prefix_refl _, rfl, rfl⟩
    · have ha := applyPushes_fields { m with delivered := m.delivered ++ [e], count := m.count + 1 } (.afterDelivery m.count)
      have hd := (Props.C13.applyPushes_out { m with delivered := m.delivered ++ [e], count := m.count + 1 } (.afterDelivery m.count)).1
      split
      · exact ⟨List.prefix_append _ _, rfl, rfl⟩
      split
      · exact ⟨by simp only; rw [hd]; exact List.prefix_append _ _, ha.1, ha.2⟩
      · exact ⟨by rw [hd]; exact List.prefix_append _ _, ha.1, ha.2⟩

/-- once on the live side the file side stays empty: no file event is ever delivered after the handoff -/
def LiveClean (m : Sim) : Prop := m.joined = true → m.fileQ = []

theorem step1_prefix (cfg : SCfg) (m : Sim) (hc : LiveClean m) :
    m.delivered <+: (step1 cfg m).delivered ∧ LiveClean (step1 cfg m) := by
  unfold step1
  by_cases hj : m.joined = true
  · rw [if_pos hj]
    cases hq : m.liveQ with
    | cons e rest =>
      simp only
      have := deliver_prefix cfg { m with liveQ := rest } e m.delivered rfl
      exact ⟨this.1, fun _ => by rw [this.2.2]; exact hc hj⟩
    | nil =>
      simp only
      cases hp : m.pushes with
      | cons p rest =>
        simp only
        exact ⟨by rw [(Props.C13.push_out _ _).1]; exact List.prefix_refl _, fun _ => by unfold Sim.push; exact hc hj⟩
      | nil => exact ⟨List.prefix_refl _, fun _ => hc hj⟩
  · rw [if_neg hj]
    cases hq : m.fileQ with
    | nil =>
      simp only
      cases m.fileEnd with
      | some e => exact ⟨List.prefix_refl _, fun h => absurd h hj⟩
      | none => exact ⟨List.prefix_refl _, fun h => absurd h hj⟩
    | cons e rest =>
      simp only
      by_cases hlow : (decide (e.blk.num ≥ m.lowest) && joinable e) = true
      · rw [if_pos hlow]
        generalize (if cfg.cursorIsTarget = true then
            (match cfg.cursor with | some c => hubThroughCursor m.hub e.blk.num c | none => none)
          else blocksFromNum m.hub e.blk.num) = burst
        cases burst with
        | some b => exact ⟨List.prefix_refl _, fun _ => rfl⟩
        | none =>
          simp only
          have := deliver_prefix cfg { m with fileQ := rest, lowest := if m.ready then hubLowest m.hub else 0 } e m.delivered rfl
          exact ⟨this.1, fun h => by rw [this.2.1] at h; exact absurd h hj⟩
      · rw [if_neg hlow]
        have := deliver_prefix cfg { m with fileQ := rest } e m.delivered rfl
        exact ⟨this.1, fun h => by rw [this.2.1] at h; exact absurd h hj⟩

/-- **deliveries are never retracted or reordered** along the whole run -/
theorem simLoop_prefix (cfg : SCfg) (fuel : Nat) (m : Sim) (hc : LiveClean m) :
    m.delivered <+: (simLoop cfg fuel m).delivered ∧ LiveClean (simLoop cfg fuel m) := by
  induction fuel generalizing m with
  | zero => exact ⟨List.prefix_refl _, hc⟩
  | succ n ih =>
    unfold simLoop
    split
    · exact ⟨List.prefix_refl _, hc⟩
    · obtain ⟨h1, h2⟩ := step1_prefix cfg m hc
      obtain ⟨h3, h4⟩ := ih (step1 cfg m) h2
      exact ⟨List.IsPrefix.trans h1 h3, h4⟩

/-! ### consumer level: the handoff by block number is seamless -/
section Seamless
open BstreamVerif.ForkDB BstreamVerif.Seam

theorem dropWhile_append_of_mem {α} (p : α → Bool) (K R : List α) (h : ∃ k ∈ K, p k = false) :
    (K ++ R).dropWhile p = K.dropWhile p ++ R := by
  induction K with
  | nil => obtain ⟨k, hk, _⟩ := h; cases hk
  | cons a t ih =>
    by_cases ha : p a = true
    · rw [List.cons_append, List.dropWhile_cons_of_pos ha, List.dropWhile_cons_of_pos ha]
      apply ih
      obtain ⟨k, hk, hp⟩ := h
      rcases List.mem_cons.mp hk with rfl | hk
      · rw [ha] at hp; cases hp
      · exact ⟨k, hk, hp⟩
    · rw [List.cons_append, List.dropWhile_cons_of_neg ha, List.dropWhile_cons_of_neg ha]; rfl

theorem dropWhile_ne_nil_of_mem {α} (p : α → Bool) (K : List α) (h : ∃ k ∈ K, p k = false) : K.dropWhile p ≠ [] := by
  induction K with
  | nil => obtain ⟨k, hk, _⟩ := h; cases hk
  | cons a t ih =>
    by_cases ha : p a = true
    · rw [List.dropWhile_cons_of_pos ha]
      apply ih
      obtain ⟨k, hk, hp⟩ := h
      rcases List.mem_cons.mp hk with rfl | hk
      · rw [ha] at hp; cases hp
      · exact ⟨k, hk, hp⟩
    · rw [List.dropWhile_cons_of_neg ha]; simp

theorem getLast?_dropWhile {α} (p : α → Bool) (K : List α) (h : K.dropWhile p ≠ []) :
    (K.dropWhile p).getLast? = K.getLast? := by
  induction K with
  | nil => simp at h
  | cons a t ih =>
    by_cases ha : p a = true
    · rw [List.dropWhile_cons_of_pos ha] at h ⊢
      rw [ih h]
      cases t with
      | nil => simp at h
      | cons b r => simp [List.getLast?_cons_cons]
    · rw [List.dropWhile_cons_of_neg ha]

/-- **The seam, in general**: whatever the stream delivered before the handoff (`pre`: merged blocks, or the undo /
    irreversible / new+irreversible events the cursor resolver produced for a start from a cursor — the joining source
    asks the hub by block number in both cases), as long as it left the consumer `c0` resting on a block `t` with
    nothing pending, and the first block of the hub's answer is the child of `t`: the deliveries before the handoff,
    the hub's burst and everything the hub delivers afterwards form one sequence the push/pop consumer accepts, and
    after the burst the consumer stands exactly where the hub's own consumer stands. -/
theorem handoff_is_seamless (cfg : Forkable.Config) (hnew : cfg.matches .new = true)
    (hundo : cfg.matches .undo = true) (hirr : cfg.matches .irreversible = true)
    (U : Id → Option Blk) (hU : UOK U) (F : List Id) (s : FState) (P : List Id) (hI : Inv s P) (hJ : Inv2 U F s.db)
    (h : Blk) (seg : List Entry) (hs : headSegment s = some (h, seg))
    (hnum : ∀ e, s.db.find h.id = some e → e.blk.num = h.num)
    (n : Nat) (hn : n ≤ s.db.libRef.num) (hex : ∃ e ∈ seg, e.blk.num = n)
    (c0 : CS) (pre : List Event) (t : Id) (hpre : c0.run pre = some ⟨t, []⟩)
    (hjoin : ∀ e, (seg.dropWhile (fun e => e.blk.num != n)).head? = some e → e.blk.parent = t)
    (hist : List Blk) (hin : ∀ b ∈ hist, U b.id = some b) (hL : Props.C01.LibHistOK cfg s hist) :
    ∃ burst P', blocksFromNum s n = some burst ∧
      c0.run (pre ++ burst) = some ⟨s.db.libRef.id, P⟩ ∧
      c0.run (pre ++ burst ++ (runHistory cfg s hist).2) =
        some ⟨(runHistory cfg s hist).1.db.libRef.id, P'⟩ ∧
      Inv (runHistory cfg s hist).1 P' := by
  obtain ⟨K, PE, hseg, hP, hPE, hK, hlast, _⟩ := headSegment_shape s P hI h seg hs hnum
  let p : Entry → Bool := fun e => e.blk.num != n
  -- the requested block is among the retained final blocks
  have hinK : ∃ k ∈ K, p k = false := by
    obtain ⟨e, he, hen⟩ := hex
    rw [hseg] at he
    rcases List.mem_append.mp he with he | he
    · exact ⟨e, he, by simp [p, hen]⟩
    · exact absurd (by omega : e.blk.num ≤ s.db.libRef.num) (hPE e he)
  have hdw : seg.dropWhile p = K.dropWhile p ++ PE := by rw [hseg]; exact dropWhile_append_of_mem p K PE hinK
  have hAne : K.dropWhile p ≠ [] := dropWhile_ne_nil_of_mem p K hinK
  have hA : ∀ e ∈ K.dropWhile p, e.blk.num ≤ s.db.libRef.num :=
    fun e he => hK e ((List.dropWhile_sublist p).subset he)
  -- the burst
  have hburst : blocksFromNum s n = some ((K.dropWhile p ++ PE).map (Props.C09.fromNumEv s h)) := by
    rw [Props.C09.fromNum_spec s n h seg hs]
    have : seg.dropWhile (fun e => e.blk.num != n) = K.dropWhile p ++ PE := hdw
    rw [this]
    have hne : (K.dropWhile p ++ PE).isEmpty = false := by
      cases hd : K.dropWhile p with
      | nil => exact absurd hd hAne
      | cons a t => rfl
    rw [hne]; rfl
  -- it is parent-linked from the last file block
  have hlinked : linkedBlks t ((K.dropWhile p ++ PE).map (·.blk)) := by
    rw [← hdw]
    apply linkedBlks_of_linkedE
    · exact linkedE_dropWhile p seg (headSegment_linked s h seg hs)
    · exact hjoin
  -- the retained final blocks end with the LIB block
  have htopA : topOf t ((K.dropWhile p).map (·.blk.id)) = s.db.libRef.id := by
    rcases hlast with hnil | ⟨eL, hg, hid⟩
    · rw [hnil] at hAne; simp at hAne
    · unfold topOf
      rw [List.getLast?_map, getLast?_dropWhile p K hAne, hg]
      simpa using hid
  have hrun1 : c0.run (pre ++ (K.dropWhile p ++ PE).map (Props.C09.fromNumEv s h)) = some ⟨s.db.libRef.id, P⟩ := by
    rw [run_append, hpre]
    simp only [Option.bind_some]
    rw [run_burst s h _ _ PE hA hPE hlinked, htopA, hP]
  have hsent : s.lastSent.isSome = true := by
    unfold headSegment at hs
    split at hs
    · cases hs
    · cases hl : s.lastSent with
      | none => rw [hl] at hs; cases hs
      | some l => rfl
  obtain ⟨P', hrun2, hI'⟩ := Props.C01.history_discipline_consistent cfg hnew hundo hirr U hU hist F s P hI hJ hin hL (Or.inr hsent)
  refine ⟨_, P', hburst, hrun1, ?_, hI'⟩
  rw [run_append, hrun1]
  exact hrun2

/-- **File-to-live handoff by block number, at consumer level.** The stream has delivered the merged blocks `fb`
    (parent-linked from the block `r0` the consumer rests on, each new and irreversible at once); the hub — in any state
    satisfying the forkable invariant, with pending chain `P` — serves the request for block `n` (at or below its LIB,
    retained on its chain), and the first block of its answer is the child of the last file block ("files and hub
    cover one chain"). Then the file deliveries, the hub's burst and **everything the hub delivers afterwards**, for any
    later history of blocks of one consistent block tree, form one sequence that the push/pop consumer accepts: every
    New extends its tip, every Undo pops it, every Irreversible announces its oldest pending block — and after the burst
    the consumer stands exactly where the hub's own consumer stands (`⟨LIB, P⟩`), so nothing is missing and nothing is
    delivered twice across the seam. -/
theorem handoff_by_number_is_seamless (cfg : Forkable.Config) (hnew : cfg.matches .new = true)
    (hundo : cfg.matches .undo = true) (hirr : cfg.matches .irreversible = true)
    (U : Id → Option Blk) (hU : UOK U) (F : List Id) (s : FState) (P : List Id) (hI : Inv s P) (hJ : Inv2 U F s.db)
    (h : Blk) (seg : List Entry) (hs : headSegment s = some (h, seg))
    (hnum : ∀ e, s.db.find h.id = some e → e.blk.num = h.num)
    (n : Nat) (hn : n ≤ s.db.libRef.num) (hex : ∃ e ∈ seg, e.blk.num = n)
    (r0 : Id) (fb : List Blk) (hfile : linkedBlks r0 fb)
    (hjoin : ∀ e, (seg.dropWhile (fun e => e.blk.num != n)).head? = some e → e.blk.parent = topOf r0 (fb.map (·.id)))
    (hist : List Blk) (hin : ∀ b ∈ hist, U b.id = some b) (hL : Props.C01.LibHistOK cfg s hist) :
    ∃ burst P', blocksFromNum s n = some burst ∧
      (⟨r0, []⟩ : CS).run (fb.map (Resolver.fileEv .newIrreversible) ++ burst) = some ⟨s.db.libRef.id, P⟩ ∧
      (⟨r0, []⟩ : CS).run (fb.map (Resolver.fileEv .newIrreversible) ++ burst ++ (runHistory cfg s hist).2) =
        some ⟨(runHistory cfg s hist).1.db.libRef.id, P'⟩ ∧
      Inv (runHistory cfg s hist).1 P' :=
  handoff_is_seamless cfg hnew hundo hirr U hU F s P hI hJ h seg hs hnum n hn hex ⟨r0, []⟩ _ _
    (run_fileEvs r0 fb hfile) hjoin hist hin hL

/-- what the cursor resolver delivers for a New cursor on the canonical chain (`C06.on_chain_new_cursor`), seen by the
    consumer that stood at the cursor — resting on the cursor's LIB, holding the canonical blocks up to the cursor
    block: its pending blocks are announced final oldest first, then every later merged block arrives new and
    irreversible; nothing stays pending -/
theorem resolver_events_leave_nothing_pending (files : List Resolver.ForkFile) (c : Cur) (lo mid post : List Blk) (cb : Blk)
    (hlo : ∀ b ∈ lo, b.num ≤ c.lib.num) (hmid : ∀ b ∈ mid, c.lib.num < b.num ∧ b.num < c.block.num)
    (hcb : cb.id = c.block.id) (hcn : cb.num = c.block.num) (hlt : c.lib.num < c.block.num)
    (hstep : c.step ≠ .undo) (hpost : linkedBlks cb.id post) :
    (⟨c.lib.id, (mid ++ [cb]).map (·.id)⟩ : CS).run (Resolver.run files c false (lo ++ mid ++ cb :: post)).1 =
      some ⟨topOf cb.id (post.map (·.id)), []⟩ := by
  have hpre : ∀ b ∈ lo ++ mid, b.num < c.block.num := by
    intro b hb
    rcases List.mem_append.mp hb with hb | hb
    · have := hlo b hb; omega
    · exact (hmid b hb).2
  rw [Props.C06.on_chain_new_cursor files c (lo ++ mid) post cb hpre hcb (by omega) hstep]
  simp only
  have hsb : Resolver.sendBetween .irreversible (lo ++ mid ++ [cb]) c.lib.num c.block.num =
      (mid ++ [cb]).map (Resolver.fileEv .irreversible) := by
    unfold Resolver.sendBetween
    rw [List.append_assoc, List.filter_append]
    have h1 : lo.filter (fun b => decide (b.num > c.lib.num) && decide (b.num ≤ c.block.num)) = [] := by
      rw [List.filter_eq_nil_iff]
      intro b hb
      have := hlo b hb
      simp; omega
    have h2 : (mid ++ [cb]).filter (fun b => decide (b.num > c.lib.num) && decide (b.num ≤ c.block.num)) = mid ++ [cb] := by
      rw [List.filter_eq_self]
      intro b hb
      rcases List.mem_append.mp hb with hb | hb
      · have := hmid b hb; simp; omega
      · simp only [List.mem_singleton] at hb; subst hb; simp; omega
    rw [h1, h2]; rfl
  rw [hsb, run_append]
  have e1 : (⟨c.lib.id, (mid ++ [cb]).map (·.id)⟩ : CS).run ((mid ++ [cb]).map (Resolver.fileEv .irreversible)) =
      some ⟨cb.id, []⟩ := by
    unfold CS.run
    have : ((mid ++ [cb]).map (Resolver.fileEv .irreversible)).map sbOf = (mid ++ [cb]).map (fun b => (Step.irreversible, b)) := by
      simp [sbOf, Resolver.fileEv]
    rw [this]
    have := runSB_irrs c.lib.id (mid ++ [cb]) []
    simp only [List.append_nil] at this
    rw [this]
    simp [topOf]
  rw [e1]
  simp only [Option.bind_some]
  exact run_fileEvs cb.id post hpost


/-- **what a stream consumer with the default step filter sees**: a stream started by block number delivers, after its
    step filter (New, new+irreversible, Undo — `C13.default_filter`), the merged blocks, the hub's burst and the hub's
    later events; the consumer that pushes on New / new+irreversible and pops on Undo, starting on the block the
    stream rests on with nothing held, accepts that whole sequence and at the end (indeed at every moment,
    `SC.chain_at_every_moment`) holds one parent-linked chain rooted there: every canonical block from the start on
    exactly once and in order, every forked block undone before its replacement arrives. -/
theorem handoff_by_number_default_filter (cfg : Forkable.Config) (hnew : cfg.matches .new = true)
    (hundo : cfg.matches .undo = true) (hirr : cfg.matches .irreversible = true)
    (U : Id → Option Blk) (hU : UOK U) (F : List Id) (s : FState) (P : List Id) (hI : Inv s P) (hJ : Inv2 U F s.db)
    (h : Blk) (seg : List Entry) (hs : headSegment s = some (h, seg))
    (hnum : ∀ e, s.db.find h.id = some e → e.blk.num = h.num)
    (n : Nat) (hn : n ≤ s.db.libRef.num) (hex : ∃ e ∈ seg, e.blk.num = n)
    (r0 : Id) (fb : List Blk) (hfile : linkedBlks r0 fb)
    (hjoin : ∀ e, (seg.dropWhile (fun e => e.blk.num != n)).head? = some e → e.blk.parent = topOf r0 (fb.map (·.id)))
    (hist : List Blk) (hin : ∀ b ∈ hist, U b.id = some b) (hL : Props.C01.LibHistOK cfg s hist) :
    ∃ burst c', blocksFromNum s n = some burst ∧
      (⟨r0, []⟩ : SC).runSB (((fb.map (Resolver.fileEv .newIrreversible) ++ burst ++ (runHistory cfg s hist).2).map sbOf).filter
          seenByPushPop) = some c' ∧ c'.Chain := by
  obtain ⟨burst, P', hb, _, hrun, _⟩ := handoff_by_number_is_seamless cfg hnew hundo hirr U hU F s P hI hJ h seg hs hnum n hn hex
    r0 fb hfile hjoin hist hin hL
  have hf : Follows ⟨r0, []⟩ ⟨r0, []⟩ := ⟨[], [], rfl, rfl, rfl⟩
  obtain ⟨c', hr, _, hc⟩ := follows_run _ _ ⟨r0, []⟩ _ hf trivial hrun
  exact ⟨burst, c', hb, by rw [SC.runSB_filter]; exact hr, hc⟩

/-- **End to end, hypotheses on the inputs only.** A hub whose forkable was started on a known LIB `r` and has since
    been fed any history `h1`; a stream that read the merged blocks `fb` and now asks for block `n`, which the hub
    retains at or below its LIB, the first block of the answer being the child of the last merged block; any later
    history `h2` — all blocks drawn from one consistent block tree `U` whose LIB declarations name ancestors' heights.
    Then the merged blocks, the hub's burst and everything the hub delivers afterwards form one sequence that the
    push/pop consumer accepts, ending on the hub's chain and LIB. The forkable invariants are not assumed: they are
    established from the initial state by `C01.history_all_invariants_consistent`. -/
theorem handoff_end_to_end (cfg : Forkable.Config) (hnew : cfg.matches .new = true)
    (hundo : cfg.matches .undo = true) (hirr : cfg.matches .irreversible = true)
    (r : Ref) (hr : r.id ≠ "") (hroot : cfg.root = some (.exclusive r))
    (U : Id → Option Blk) (hU : UOK U)
    (hr1 : ∀ b, U b.id = some b → b.parent = r.id → r.num < b.num)
    (hr2 : ∀ b, U b.id = some b → b.id = r.id → b.num = r.num)
    (h1 : List Blk) (hin1 : ∀ b ∈ h1, U b.id = some b) (hL1 : Props.C01.LibHistOK cfg (Forkable.init cfg) h1)
    (h : Blk) (seg : List Entry)
    (hs : headSegment (runHistory cfg (Forkable.init cfg) h1).1 = some (h, seg))
    (n : Nat) (hn : n ≤ (runHistory cfg (Forkable.init cfg) h1).1.db.libRef.num) (hex : ∃ e ∈ seg, e.blk.num = n)
    (r0 : Id) (fb : List Blk) (hfile : linkedBlks r0 fb)
    (hjoin : ∀ e, (seg.dropWhile (fun e => e.blk.num != n)).head? = some e → e.blk.parent = topOf r0 (fb.map (·.id)))
    (h2 : List Blk) (hin2 : ∀ b ∈ h2, U b.id = some b)
    (hL2 : Props.C01.LibHistOK cfg (runHistory cfg (Forkable.init cfg) h1).1 h2) :
    ∃ burst P', blocksFromNum (runHistory cfg (Forkable.init cfg) h1).1 n = some burst ∧
      (⟨r0, []⟩ : CS).run (fb.map (Resolver.fileEv .newIrreversible) ++ burst ++
          (runHistory cfg (runHistory cfg (Forkable.init cfg) h1).1 h2).2) =
        some ⟨(runHistory cfg (runHistory cfg (Forkable.init cfg) h1).1 h2).1.db.libRef.id, P'⟩ := by
  have hI0 := Props.C01.init_inv cfg r hr hroot
  have hJ0 := Props.C01.init_inv2 cfg r hroot U hr1 hr2
  have hH0 : Forkable.HeadU U (Forkable.init cfg) := by
    intro l hl
    have : (Forkable.init cfg).lastSent = none := by unfold Forkable.init; rw [hroot]
    rw [this] at hl; cases hl
  have hni0 : (Forkable.init cfg).includeInit = false := by unfold Forkable.init; rw [hroot]
  obtain ⟨P, F, hI, hJ, hH⟩ := Props.C01.history_all_invariants_consistent cfg hnew hundo hirr U hU h1 [r.id]
    (Forkable.init cfg) [] hI0 hJ0 hH0 hin1 hL1 (Or.inl hni0)
  have hlast : (runHistory cfg (Forkable.init cfg) h1).1.lastSent = some h := by
    unfold headSegment at hs
    split at hs
    · cases hs
    · cases hl : (runHistory cfg (Forkable.init cfg) h1).1.lastSent with
      | none => rw [hl] at hs; cases hs
      | some l =>
        rw [hl] at hs
        simp only at hs
        cases hc : (runHistory cfg (Forkable.init cfg) h1).1.db.completeSegment l.ref with
        | mk o rr =>
          rw [hc] at hs
          cases o with
          | none => cases hs
          | some sg =>
            cases rr with
            | false => cases hs
            | true =>
              simp only [Option.some.injEq, Prod.mk.injEq] at hs
              rw [hs.1]
  obtain ⟨burst, P', hb, _, hrun, _⟩ := handoff_by_number_is_seamless cfg hnew hundo hirr U hU F _ P hI hJ h seg hs
    (fun e he => Props.C01.head_num_of_invariants U hU F _ hJ hH h hlast e he)
    n hn hex r0 fb hfile hjoin h2 hin2 hL2
  exact ⟨burst, P', hb, hrun⟩

/-- **End to end for the hub's own configuration** (`forkable.New(h, HoldBlocksUntilLIB(), WithKeptFinalBlocks(n))`: no
    LIB to start with, blocks held until one is discovered): the same statement, with the hub's forkable started empty
    and fed any history `h1` of one consistent block tree. That the hub serves the request (`headSegment … = some …`)
    implies that it has discovered its LIB; the invariants then hold by `C01.history_all_invariants_discovery`. -/
theorem handoff_end_to_end_hub (cfg : Forkable.Config) (hroot : cfg.root = none) (hhold : cfg.hold = true)
    (hnew : cfg.matches .new = true) (hundo : cfg.matches .undo = true) (hirr : cfg.matches .irreversible = true)
    (U : Id → Option Blk) (hU : UOK U)
    (h1 : List Blk) (hin1 : ∀ b ∈ h1, U b.id = some b) (hL1 : Props.C01.LibHistOK cfg (Forkable.init cfg) h1)
    (h : Blk) (seg : List Entry)
    (hs : headSegment (runHistory cfg (Forkable.init cfg) h1).1 = some (h, seg))
    (n : Nat) (hn : n ≤ (runHistory cfg (Forkable.init cfg) h1).1.db.libRef.num) (hex : ∃ e ∈ seg, e.blk.num = n)
    (r0 : Id) (fb : List Blk) (hfile : linkedBlks r0 fb)
    (hjoin : ∀ e, (seg.dropWhile (fun e => e.blk.num != n)).head? = some e → e.blk.parent = topOf r0 (fb.map (·.id)))
    (h2 : List Blk) (hin2 : ∀ b ∈ h2, U b.id = some b)
    (hL2 : Props.C01.LibHistOK cfg (runHistory cfg (Forkable.init cfg) h1).1 h2) :
    ∃ burst P', blocksFromNum (runHistory cfg (Forkable.init cfg) h1).1 n = some burst ∧
      (⟨r0, []⟩ : CS).run (fb.map (Resolver.fileEv .newIrreversible) ++ burst ++
          (runHistory cfg (runHistory cfg (Forkable.init cfg) h1).1 h2).2) =
        some ⟨(runHistory cfg (runHistory cfg (Forkable.init cfg) h1).1 h2).1.db.libRef.id, P'⟩ := by
  have hlast : (runHistory cfg (Forkable.init cfg) h1).1.lastSent = some h := by
    unfold headSegment at hs
    split at hs
    · cases hs
    · cases hl : (runHistory cfg (Forkable.init cfg) h1).1.lastSent with
      | none => rw [hl] at hs; cases hs
      | some l =>
        rw [hl] at hs
        simp only at hs
        cases hc : (runHistory cfg (Forkable.init cfg) h1).1.db.completeSegment l.ref with
        | mk o rr =>
          rw [hc] at hs
          cases o with
          | none => cases hs
          | some sg =>
            cases rr with
            | false => cases hs
            | true =>
              simp only [Option.some.injEq, Prod.mk.injEq] at hs
              rw [hs.1]
  rcases Props.C01.history_all_invariants_discovery cfg hhold hnew hundo hirr U hU h1 (Forkable.init cfg)
      (preInv_init U cfg hroot) hin1 hL1 with hPre | ⟨P, F, hI, hJ, hH⟩
  · -- no LIB discovered: the hub has no head, it cannot have served the request
    rw [hPre.noLast] at hlast; cases hlast
  · obtain ⟨burst, P', hb, _, hrun, _⟩ := handoff_by_number_is_seamless cfg hnew hundo hirr U hU F _ P hI hJ h seg hs
      (fun e he => Props.C01.head_num_of_invariants U hU F _ hJ hH h hlast e he)
      n hn hex r0 fb hfile hjoin h2 hin2 hL2
    exact ⟨burst, P', hb, hrun⟩

end Seamless

/-! Non-vacuity of `handoff_by_number_is_seamless`: a hub (known LIB `r`, ten final blocks kept) that has received
    a2…a5 stands on LIB a3 with a4, a5 pending and still holds a2, a3. A stream that read a2 from the merged files asks
    for block 3; afterwards the hub reorganises to b5, b6, b7 (undo a5) and moves its LIB to a4. Every hypothesis of the
    theorem is discharged by kernel evaluation or by the soundness lemmas of the executable checks. -/
section Example
private def cfgK : Forkable.Config :=
  { root := some (.exclusive ⟨"r", 1⟩), hold := false, kept := 10, allTrigger := false, filter := 51, fsb := 0 }
private def uK : List Blk :=
  [⟨"a2", "r", 2, 1⟩, ⟨"a3", "a2", 3, 1⟩, ⟨"a4", "a3", 4, 2⟩, ⟨"a5", "a4", 5, 3⟩,
   ⟨"b5", "a4", 5, 3⟩, ⟨"b6", "b5", 6, 3⟩, ⟨"b7", "b6", 7, 4⟩]
private def hK1 : List Blk := [⟨"a2", "r", 2, 1⟩, ⟨"a3", "a2", 3, 1⟩, ⟨"a4", "a3", 4, 2⟩, ⟨"a5", "a4", 5, 3⟩]
private def hK2 : List Blk := [⟨"b5", "a4", 5, 3⟩, ⟨"b6", "b5", 6, 3⟩, ⟨"b7", "b6", 7, 4⟩]
private def sK : FState := (runHistory cfgK (Forkable.init cfgK) hK1).1
private def fbK : List Blk := [⟨"a2", "r", 2, 1⟩]

example : ∃ burst P P', blocksFromNum sK 3 = some burst ∧
    (⟨"r", []⟩ : CS).run (fbK.map (Resolver.fileEv .newIrreversible) ++ burst) = some ⟨"a3", P⟩ ∧
    (⟨"r", []⟩ : CS).run (fbK.map (Resolver.fileEv .newIrreversible) ++ burst ++ (runHistory cfgK sK hK2).2) =
      some ⟨(runHistory cfgK sK hK2).1.db.libRef.id, P'⟩ := by
  have hU : UOK (ofList uK) := uokB_sound uK (by decide)
  have hI0 := Props.C01.init_inv cfgK ⟨"r", 1⟩ (by decide) rfl
  have hJ0 : Inv2 (ofList uK) ["r"] (Forkable.init cfgK).db := by
    apply Props.C01.init_inv2 cfgK ⟨"r", 1⟩ rfl
    · intro b hb hp
      have hm := (ofList_mem uK _ b hb).1
      exact (by decide : ∀ x ∈ uK, x.parent = "r" → 1 < x.num) b hm hp
    · intro b hb hid
      have hm := (ofList_mem uK _ b hb).1
      exact (by decide : ∀ x ∈ uK, x.id = "r" → x.num = 1) b hm hid
  have hin1 : ∀ b ∈ hK1, ofList uK b.id = some b := fun b hb =>
    ofList_of_mem uK (by decide) b ((by decide : ∀ x ∈ hK1, x ∈ uK) b hb)
  have hin2 : ∀ b ∈ hK2, ofList uK b.id = some b := fun b hb =>
    ofList_of_mem uK (by decide) b ((by decide : ∀ x ∈ hK2, x ∈ uK) b hb)
  obtain ⟨P, F, hI, hJ⟩ := Props.C01.history_invariants_consistent cfgK (by decide) (by decide) (by decide)
    (ofList uK) hU hK1 ["r"] (Forkable.init cfgK) [] hI0 hJ0 hin1 (libHistB_sound cfgK hK1 _ (by decide)) (Or.inl rfl)
  have hs : headSegment sK = some (⟨"a5", "a4", 5, 3⟩,
      [⟨⟨"a2", "r", 2, 1⟩, true⟩, ⟨⟨"a3", "a2", 3, 1⟩, true⟩, ⟨⟨"a4", "a3", 4, 2⟩, true⟩, ⟨⟨"a5", "a4", 5, 3⟩, true⟩]) := by decide
  obtain ⟨burst, P', hb, h1, h2, _⟩ := handoff_by_number_is_seamless cfgK (by decide) (by decide) (by decide)
    (ofList uK) hU F sK P hI hJ _ _ hs
    (by intro e he
        have hd : (sK.db.find "a5").map (·.blk.num) = some 5 := by decide
        rw [he] at hd; simpa using hd)
    3 (by decide) (by decide) "r" fbK ⟨rfl, trivial⟩ (by decide) hK2 hin2 (libHistB_sound cfgK hK2 _ (by decide))
  exact ⟨burst, P, P', hb, h1, h2⟩

/-- what the consumer of that example sees, computed: a2 from the files; a3 new+irreversible, a4, a5 from the hub's
    burst; then undo a5, new b5, b6, b7 and a4 announced final — ending on LIB a4 holding b5, b6, b7 -/
example :
    (((fbK.map (Resolver.fileEv .newIrreversible) ++ ((blocksFromNum sK 3).getD []) ++ (runHistory cfgK sK hK2).2).map
        (fun e => (e.step, e.blk.id))) =
      [(.newIrreversible, "a2"), (.newIrreversible, "a3"), (.new, "a4"), (.new, "a5"),
       (.undo, "a5"), (.new, "b5"), (.new, "b6"), (.new, "b7"), (.irreversible, "a4")]) ∧
    (⟨"r", []⟩ : CS).run (fbK.map (Resolver.fileEv .newIrreversible) ++ ((blocksFromNum sK 3).getD []) ++
        (runHistory cfgK sK hK2).2) = some ⟨"a4", ["b5", "b6", "b7"]⟩ := by decide
end Example

end BstreamVerif.Props.C07
