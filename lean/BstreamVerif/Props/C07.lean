import BstreamVerif.Model.Joining
namespace BstreamVerif.Props.C07
open BstreamVerif BstreamVerif.Joining

end BstreamVerif.Props.C07
