import BstreamVerif.Model.FileSourceSeq
namespace BstreamVerif.Props.C11
open BstreamVerif

end BstreamVerif.Props.C11
