import BstreamVerif.Props.C10
import BstreamVerif.Props.C06
import BstreamVerif.Props.C07
import BstreamVerif.Props.C01
/-!
# C11 — every fault ends a source cleanly: Run returns, the error is reported, nothing follows

What a theorem can carry here is the logic of the sequential models: after the first error nothing further is
delivered, what was delivered before it is an in-order gap-free prefix, and the reported outcome names the cause.
That the real `Run` returns (goroutines end, channels drain) for faults injected at every position of the store,
preprocessor and handler is decided by the fault-enumeration correspondence suite (`faults`) with outcome sets;
the shutdown protocol itself is C12.
-/
namespace BstreamVerif.Props.C11
open BstreamVerif BstreamVerif.FileSourceSeq

/-- the handler budget after one file: one unit per delivered block -/
theorem streamFile_budget (cfg : Cfg) (base : Nat) (blocks : List Blk) (last : Id) (k : Nat) (acc : List Blk) :
    ((streamFile cfg true base none blocks last (some k) acc).2.2.2 = some .handlerErr →
      (streamFile cfg true base none blocks last (some k) acc).1.length = acc.length + k + 1) ∧
    ((streamFile cfg true base none blocks last (some k) acc).2.2.2 ≠ some .handlerErr →
      ∃ k', (streamFile cfg true base none blocks last (some k) acc).2.2.1 = some k' ∧
        (streamFile cfg true base none blocks last (some k) acc).1.length + k' = acc.length + k) := by
  induction blocks generalizing last k acc with
  | nil => simp [streamFile]
  | cons b rest ih =>
    unfold streamFile
    by_cases h1 : b.num < cfg.start
    · simp only [h1, if_true]; exact ih last k acc
    · simp only [h1, if_false]
      by_cases h2 : b.num < base
      · simp only [h2, if_true]; exact ih last k acc
      · simp only [h2, if_false, passesFilter, Bool.not_true, Bool.false_eq_true, Bool.true_and]
        by_cases h3 : (last != "" && b.parent != last) = true
        · simp only [h3, if_true]
          exact ⟨by simp, fun _ => ⟨k, rfl, rfl⟩⟩
        · simp only [h3, Bool.false_eq_true, if_false]
          cases k with
          | zero => simp
          | succ k =>
            simp only
            obtain ⟨g1, g2⟩ := ih b.id k (acc ++ [b])
            refine ⟨?_, ?_⟩
            · intro h; rw [g1 h]; simp; omega
            · intro h
              obtain ⟨k', hk, hl⟩ := g2 h
              exact ⟨k', hk, by rw [← Nat.add_assoc] at *; simp at hl ⊢; omega⟩

/-- **a handler error ends the file source at once**: with a handler that fails on its (k+1)-th call, exactly k+1
    blocks were handed to it, they are an in-order parent-linked prefix of the stored blocks, and nothing follows -/
theorem handler_error_ends_run (cfg : Cfg) (bundles : List Bundle) (k : Nat) (hsz : cfg.bundleSize ≠ 0)
    (h : (run cfg bundles (some k)).2 = .handlerErr) :
    (run cfg bundles (some k)).1 <+: Props.C10.storedFrom cfg bundles (bundles.length + 2) (lowBoundary cfg.start cfg.bundleSize) ∧
    Props.C10.linkedFrom "" (run cfg bundles (some k)).1 :=
  let r := Props.C10.run_spec cfg bundles (some k) hsz
  ⟨r.1, r.2.1⟩

/-- **a break in the chain ends the file source before the offending block** -/
theorem chain_break_ends_run (cfg : Cfg) (bundles : List Bundle) (failAt : Option Nat) (hsz : cfg.bundleSize ≠ 0)
    (id : Id) (h : (run cfg bundles failAt).2 = .nonSequential id) :
    ∃ b rest, Props.C10.storedFrom cfg bundles (bundles.length + 2) (lowBoundary cfg.start cfg.bundleSize) =
        (run cfg bundles failAt).1 ++ b :: rest ∧ b.id = id ∧ b.parent ≠ Props.C10.lastId "" (run cfg bundles failAt).1 :=
  (Props.C10.run_spec cfg bundles failAt hsz).2.2.2.2 id h

/-- **an unresolvable cursor ends the resumed source with the resolution error and no delivery at all** -/
theorem unresolvable_cursor_ends_run (files : List Resolver.ForkFile) (c : HubBurst.Cur) (pre post : List Blk) (b : Blk)
    (hpre : ∀ x ∈ pre, x.num < c.block.num) (hid : b.id ≠ c.block.id) (hnum : ¬ b.num < c.block.num) (e : Resolver.RErr)
    (hres : Resolver.resolve files (pre ++ [b]) c (files.length + 2) (Resolver.trunc16 c.block.id) [] = .error e) :
    Resolver.run files c false (pre ++ b :: post) = ([], some e) :=
  Props.C06.unresolvable files c pre post b hpre hid hnum e hres

/-- **the stream stops for good**: once the simulation has an outcome no further step changes anything -/
theorem ended_is_final (cfg : Joining.SCfg) (fuel : Nat) (m : Joining.Sim) (h : m.ended.isSome = true) :
    Joining.simLoop cfg fuel m = m := by
  cases fuel with
  | zero => rfl
  | succ n => unfold Joining.simLoop; simp [h]

/-- **a handler error at stream level is the reported outcome, whatever the stop block says**: when the user handler
    fails on a block that reaches it (the block passes the step filter and is not above the stop block), that block is
    the last delivery and the stream ends with the handler's error — also when the block is the stop block itself
    (the stop-block handler returns the handler's error before it looks at the block number) -/
theorem stream_handler_error_is_the_outcome (cfg : Joining.SCfg) (m : Joining.Sim) (e : Event)
    (hf : Joining.passesFilter cfg e.step = true) (hs : ¬ (cfg.stop ≠ 0 ∧ e.blk.num > cfg.stop))
    (hfail : cfg.failNum = some e.blk.num) :
    (Joining.Sim.deliver cfg m e).ended = some .handlerErr ∧
    (Joining.Sim.deliver cfg m e).delivered = m.delivered ++ [e] := by
  unfold Joining.Sim.deliver
  have h1 : (!Joining.passesFilter cfg e.step) = false := by simp [hf]
  have h2 : (cfg.stop != 0 && decide (e.blk.num > cfg.stop)) = false := by
    cases hb : (cfg.stop != 0 && decide (e.blk.num > cfg.stop)) with
    | false => rfl
    | true =>
      exfalso; apply hs
      simp only [Bool.and_eq_true, bne_iff_ne, ne_eq, decide_eq_true_eq] at hb
      exact hb
  have h3 : (cfg.failNum == some e.blk.num) = true := by rw [hfail]; simp
  simp [h1, h2, h3]

/-- … and from then on nothing more is delivered -/
theorem stream_handler_error_is_final (cfg : Joining.SCfg) (m : Joining.Sim) (e : Event) (fuel : Nat)
    (hf : Joining.passesFilter cfg e.step = true) (hs : ¬ (cfg.stop ≠ 0 ∧ e.blk.num > cfg.stop))
    (hfail : cfg.failNum = some e.blk.num) :
    (Joining.simLoop cfg fuel (Joining.Sim.deliver cfg m e)).delivered = m.delivered ++ [e] := by
  obtain ⟨h1, h2⟩ := stream_handler_error_is_the_outcome cfg m e hf hs hfail
  rw [ended_is_final cfg fuel _ (by rw [h1]; rfl)]
  exact h2

/-- **a handler error during cursor resolution ends the replay**: the failing call is the last event and the source
    reports the handler's error -/
theorem resolver_handler_error_ends_replay (files : List Resolver.ForkFile) (c : HubBurst.Cur) (pt : Bool) (canon : List Blk)
    (k : Nat) (h : k < (Resolver.run files c pt canon).1.length) :
    Resolver.runFailing files c pt canon (some k) = ((Resolver.run files c pt canon).1.take (k + 1), some .handler) ∧
    (Resolver.runFailing files c pt canon (some k)).1.length = k + 1 := by
  unfold Resolver.runFailing
  simp only [h, if_true, List.length_take, true_and]
  omega

/-- **a handler error inside the fork-aware handler is returned at once** (C01) -/
theorem forkable_handler_error (cfg : Forkable.Config) (s : Forkable.FState) (b : Blk) (k : Nat)
    (h : k < (Forkable.processBlock cfg s b none).2.1.length) :
    (Forkable.processBlock cfg s b (some k)).2.1 = (Forkable.processBlock cfg s b none).2.1.take (k + 1) ∧
    (Forkable.processBlock cfg s b (some k)).2.2 = .errHandler :=
  (Props.C01.handler_error_returned_at_once cfg s b k).1 h

/-- **no crash branch**: for every state, block and failure point, `ProcessBlock` returns ok, the handler's error, or
    rejects a block naming itself as parent; the branch in which the Go code would dereference a missing block of the
    undo/redo segments is unreachable -/
theorem forkable_never_takes_the_crash_branch (cfg : Forkable.Config) (s : Forkable.FState) (b : Blk) (f : Option Nat)
    (h : (Forkable.processBlock cfg s b f).2.2 = .errInvalid) : b.id = b.parent :=
  Forkable.invalid_only_for_self_parent cfg s b f h

end BstreamVerif.Props.C11
