import BstreamVerif.Model.HubBurst
import BstreamVerif.Lemmas.ForkInv
import BstreamVerif.Lemmas.SegShape
import BstreamVerif.Lemmas.Ascending
import BstreamVerif.Lemmas.StepCheckSound
/-!
# C05 — resuming from a cursor on the live hub equals never having disconnected

`blocksFromCursor` on the head segment `seg` (the hub's retained canonical chain). For a cursor whose block and LIB
lie on that chain (`fastPath`): nothing at or below the cursor LIB is delivered; every canonical block above the
cursor block (the cursor block itself for an Undo cursor) is delivered exactly once, in chain order, as New above
the hub LIB and new-and-irreversible up to it; canonical blocks between the cursor LIB and the cursor block that the
hub has finalised meanwhile are announced Irreversible; for a final cursor the irreversible events are exactly the
canonical final blocks after the cursor block. A cursor whose LIB is below the retained chain gets no source.
For a cursor on a fork the burst is the undo walk to the junction followed by the burst of the junction cursor.
That the burst leaves the *consumer at the cursor* on the hub's chain for every history is decided by the
consumer-at-cursor monitor over the hubburst correspondence suite (kept seeded change
C05-cursor-below-lib-assumed-canonical); it is not a theorem here.
-/
namespace BstreamVerif.Props.C05
open BstreamVerif BstreamVerif.ForkDB BstreamVerif.Forkable BstreamVerif.HubBurst

/-- what the fast path does with one canonical block -/
def fastEv (s : FState) (h : Blk) (c : Cur) (e : Entry) : Option Event :=
  if e.blk.num ≤ c.lib.num then none
  else if e.blk.num ≤ s.db.libRef.num then
    let step := if e.blk.num > c.block.num || (isUndo c && e.blk.num == c.block.num) then Step.newIrreversible else Step.irreversible
    some (wrap e step h.ref e.blk.ref none)
  else if e.blk.num > c.block.num || (isUndo c && e.blk.num == c.block.num) then
    some (wrap e .new h.ref s.db.libRef none)
  else none

theorem fastPath_eq (s : FState) (h : Blk) (seg : List Entry) (c : Cur) :
    fastPath s h seg c = seg.filterMap (fastEv s h c) := rfl

theorem fastEv_blk (s : FState) (h : Blk) (c : Cur) (e : Entry) (ev : Event) (he : fastEv s h c e = some ev) :
    ev.blk = e.blk ∧ ev.head = h.ref := by
  unfold fastEv at he
  split at he
  · cases he
  · split at he
    · injection he with he; subst he; exact ⟨rfl, rfl⟩
    · split at he
      · injection he with he; subst he; exact ⟨rfl, rfl⟩
      · cases he

/-- delivered blocks are canonical blocks, in chain order, none twice -/
theorem fastPath_in_chain_order (s : FState) (h : Blk) (seg : List Entry) (c : Cur) :
    ((fastPath s h seg c).map (·.blk)).Sublist (seg.map (·.blk)) := by
  rw [fastPath_eq]
  induction seg with
  | nil => simp
  | cons e r ih =>
    rw [List.filterMap_cons]
    cases hf : fastEv s h c e with
    | none => simp only [List.map_cons]; exact List.Sublist.cons _ ih
    | some ev =>
      simp only [List.map_cons]
      rw [(fastEv_blk s h c e ev hf).1]
      exact List.Sublist.cons_cons _ ih

/-- nothing at or below the cursor LIB is delivered again -/
theorem nothing_at_or_below_cursor_lib (s : FState) (h : Blk) (seg : List Entry) (c : Cur) :
    ∀ ev ∈ fastPath s h seg c, c.lib.num < ev.blk.num := by
  intro ev hev
  rw [fastPath_eq, List.mem_filterMap] at hev
  obtain ⟨e, _, he⟩ := hev
  have hb := (fastEv_blk s h c e ev he).1
  unfold fastEv at he
  split at he
  · cases he
  · rw [hb]; omega

/-- every canonical block above the cursor block is delivered: as New above the hub LIB, new-and-irreversible up to it -/
theorem everything_above_cursor_block (s : FState) (h : Blk) (seg : List Entry) (c : Cur) (e : Entry) (he : e ∈ seg)
    (h1 : c.block.num < e.blk.num) (h2 : c.lib.num < e.blk.num) :
    ∃ ev ∈ fastPath s h seg c, ev.blk = e.blk ∧
      ev.step = (if e.blk.num ≤ s.db.libRef.num then Step.newIrreversible else Step.new) := by
  rw [fastPath_eq]
  have hnot : ¬ e.blk.num ≤ c.lib.num := by omega
  by_cases hl : e.blk.num ≤ s.db.libRef.num
  · refine ⟨wrap e .newIrreversible h.ref e.blk.ref none, ?_, rfl, by simp [wrap, hl]⟩
    rw [List.mem_filterMap]
    refine ⟨e, he, ?_⟩
    unfold fastEv
    simp [hnot, hl, h1]
  · refine ⟨wrap e .new h.ref s.db.libRef none, ?_, rfl, by simp [wrap, hl]⟩
    rw [List.mem_filterMap]
    refine ⟨e, he, ?_⟩
    unfold fastEv
    simp [hnot, hl, h1]

/-- a New/Undo cursor: nothing at or below the cursor block is delivered as New (an Undo cursor re-delivers its block) -/
theorem nothing_new_below_cursor_block (s : FState) (h : Blk) (seg : List Entry) (c : Cur) (hu : isUndo c = false) :
    ∀ ev ∈ fastPath s h seg c, (ev.step = .new ∨ ev.step = .newIrreversible) → c.block.num < ev.blk.num := by
  intro ev hev hstep
  rw [fastPath_eq, List.mem_filterMap] at hev
  obtain ⟨e, _, he⟩ := hev
  have hb := (fastEv_blk s h c e ev he).1
  unfold fastEv at he
  simp only [hu, Bool.false_and, Bool.or_false, decide_eq_true_eq] at he
  split at he
  · cases he
  · split at he
    · injection he with he
      subst he
      simp only [wrap] at hstep hb ⊢
      by_cases hg : e.blk.num > c.block.num
      · exact hg
      · simp [hg] at hstep
    · split at he
      · rename_i hg
        injection he with he
        subst he
        exact hg
      · cases he

/-- **final-blocks-only consumer on a final cursor**: the irreversible events are exactly the canonical final
    blocks after the cursor LIB -/
theorem final_events_exact (s : FState) (h : Blk) (seg : List Entry) (c : Cur) :
    ((fastPath s h seg c).filter (fun ev => ev.step == .irreversible || ev.step == .newIrreversible)).map (·.blk) =
      (seg.filter (fun e => decide (c.lib.num < e.blk.num) && decide (e.blk.num ≤ s.db.libRef.num))).map (·.blk) := by
  rw [fastPath_eq]
  induction seg with
  | nil => rfl
  | cons e r ih =>
    rw [List.filterMap_cons]
    by_cases h1 : e.blk.num ≤ c.lib.num
    · have hf : fastEv s h c e = none := by simp [fastEv, h1]
      rw [hf, List.filter_cons_of_neg (by simp; omega)]
      exact ih
    · by_cases h2 : e.blk.num ≤ s.db.libRef.num
      · have hf : ∃ st, (st = Step.newIrreversible ∨ st = Step.irreversible) ∧ fastEv s h c e = some (wrap e st h.ref e.blk.ref none) := by
          unfold fastEv
          simp only [h1, if_false, h2, if_true]
          by_cases hg : (decide (e.blk.num > c.block.num) || (isUndo c && e.blk.num == c.block.num)) = true
          · exact ⟨_, Or.inl rfl, by simp [hg]⟩
          · exact ⟨_, Or.inr rfl, by simp [hg]⟩
        obtain ⟨st, hst, hf⟩ := hf
        rw [hf]
        simp only
        rw [List.filter_cons_of_pos (by rcases hst with rfl | rfl <;> simp [wrap]),
          List.filter_cons_of_pos (by simp; omega)]
        simp only [List.map_cons, wrap]
        rw [ih]
      · rw [List.filter_cons_of_neg (by simp; omega)]
        cases hf : fastEv s h c e with
        | none => exact ih
        | some ev =>
          have : ev.step = .new := by
            unfold fastEv at hf
            simp only [h1, if_false, h2] at hf
            split at hf
            · injection hf with hf; subst hf; rfl
            · cases hf
          simp only
          rw [List.filter_cons_of_neg (by simp [this])]
          exact ih

/-- **no partial source**: a cursor whose LIB lies below the retained canonical chain is refused -/
theorem refused_below_window (s : FState) (fuel : Nat) (c : Cur) (h : Blk) (first : Entry) (rest : List Entry)
    (hs : headSegment s = some (h, first :: rest)) (hlow : c.lib.num < first.blk.num) :
    blocksFromCursor s (fuel + 1) c = none := by
  unfold blocksFromCursor
  rw [hs]
  simp [hlow]

/-- a hub without head segment serves no cursor -/
theorem refused_without_chain (s : FState) (fuel : Nat) (c : Cur) (hs : headSegment s = none) :
    blocksFromCursor s fuel c = none := by
  cases fuel with
  | zero => rfl
  | succ n => unfold blocksFromCursor; rw [hs]

/-- a cursor on the retained canonical chain is served by the fast path -/
theorem served_on_chain (s : FState) (fuel : Nat) (c : Cur) (h : Blk) (first : Entry) (rest : List Entry)
    (hs : headSegment s = some (h, first :: rest)) (hlib : ¬ c.lib.num < first.blk.num)
    (hb : blockIn c.block.id (first :: rest) = true) (hl : blockIn c.lib.id (first :: rest) = true) :
    blocksFromCursor s (fuel + 1) c = some (fastPath s h (first :: rest) c) := by
  unfold blocksFromCursor
  rw [hs]
  simp [hlib, hb, hl]

/-- a cursor on a fork: the burst is the undo walk (newest first, every undo naming the junction) followed by the
    burst of the New cursor on the junction -/
theorem fork_cursor_shape (s : FState) (fuel : Nat) (c : Cur) (h : Blk) (first : Entry) (rest : List Entry)
    (hs : headSegment s = some (h, first :: rest)) (hlib : ¬ c.lib.num < first.blk.num)
    (hoff : (blockIn c.block.id (first :: rest) && blockIn c.lib.id (first :: rest)) = false)
    (out : List Event) (hout : blocksFromCursor s (fuel + 1) c = some out) :
    ∃ undos jid j back, undoWalk s (first :: rest) c (s.db.entries.length + 1) c.block.id [] = some (undos, jid) ∧
      s.db.find jid = some j ∧
      blocksFromCursor s fuel ⟨.new, ⟨jid, j.blk.num⟩, h.ref, c.lib⟩ = some back ∧
      out = undos.map (fun e => wrap e .undo h.ref c.lib (some j.blk.ref)) ++ back := by
  unfold blocksFromCursor at hout
  rw [hs] at hout
  simp only [hlib, if_false, hoff, Bool.false_eq_true] at hout
  cases hu : undoWalk s (first :: rest) c (s.db.entries.length + 1) c.block.id [] with
  | none => rw [hu] at hout; cases hout
  | some p =>
    obtain ⟨undos, jid⟩ := p
    rw [hu] at hout
    simp only at hout
    cases hj : s.db.find jid with
    | none => rw [hj] at hout; cases hout
    | some j =>
      rw [hj] at hout
      simp only at hout
      cases hb : blocksFromCursor s fuel ⟨.new, ⟨jid, j.blk.num⟩, h.ref, c.lib⟩ with
      | none => rw [hb] at hout; cases hout
      | some back =>
        rw [hb] at hout
        injection hout with hout
        exact ⟨undos, jid, j, back, rfl, hj, hb, hout.symm⟩

/-! ## the burst applied to the consumer at the cursor (cursor on the retained canonical chain)

`B` is the part of the hub's canonical chain above the cursor LIB, split by height into four consecutive zones:
`B1a` — at or below both the hub LIB and the cursor block (the consumer holds them pending; the hub finalised them);
`B1b` — at or below the hub LIB, above the cursor block (new to the consumer and already final);
`B2a` — above the hub LIB, at or below the cursor block (held pending, still reversible);
`B2b` — above both (new). Heights ascend along the chain, so `B1b` and `B2a` cannot both be non-empty. -/

theorem filterMap_uniform {α β} (f : α → Option β) (g : α → β) (l : List α) (h : ∀ x ∈ l, f x = some (g x)) :
    l.filterMap f = l.map g := by
  induction l with
  | nil => rfl
  | cons a t ih =>
    rw [List.filterMap_cons, h a (by simp)]
    simp only [List.map_cons]
    rw [ih (fun x hx => h x (by simp [hx]))]

theorem filterMap_none {α β} (f : α → Option β) (l : List α) (h : ∀ x ∈ l, f x = none) : l.filterMap f = [] := by
  induction l with
  | nil => rfl
  | cons a t ih => rw [List.filterMap_cons, h a (by simp)]; exact ih (fun x hx => h x (by simp [hx]))

theorem runSB_newIrrs (lib : Id) (bs : List Blk) (h : linkedBlks lib bs) :
    (⟨lib, []⟩ : CS).runSB (bs.map (fun b => (Step.newIrreversible, b))) = some ⟨topOf lib (bs.map (·.id)), []⟩ := by
  induction bs generalizing lib with
  | nil => rfl
  | cons b r ih =>
    simp only [List.map_cons, CS.runSB, CS.apply, List.isEmpty_nil, h.1, beq_self_eq_true, Bool.and_self, if_true,
      topOf_cons]
    exact ih b.id h.2

/-- **a New cursor on the hub's canonical chain**: the burst takes the consumer that stood at the cursor (resting on
    the cursor LIB, holding the canonical blocks up to the cursor block) exactly onto the hub's current chain and final
    block — the finalised pending blocks are announced oldest first, the blocks the consumer missed are delivered once,
    in order, and nothing is delivered twice. -/
theorem burst_takes_consumer_to_hub_chain (s : FState) (h : Blk) (c : Cur) (B1a B1b B2a B2b : List Entry)
    (hu : isUndo c = false)
    (z1a : ∀ e ∈ B1a, c.lib.num < e.blk.num ∧ e.blk.num ≤ s.db.libRef.num ∧ e.blk.num ≤ c.block.num)
    (z1b : ∀ e ∈ B1b, c.lib.num < e.blk.num ∧ e.blk.num ≤ s.db.libRef.num ∧ c.block.num < e.blk.num)
    (z2a : ∀ e ∈ B2a, c.lib.num < e.blk.num ∧ s.db.libRef.num < e.blk.num ∧ e.blk.num ≤ c.block.num)
    (z2b : ∀ e ∈ B2b, c.lib.num < e.blk.num ∧ s.db.libRef.num < e.blk.num ∧ c.block.num < e.blk.num)
    (hzone : B1b = [] ∨ B2a = [])
    (hlink : linkedBlks c.lib.id ((B1a ++ B1b ++ B2a ++ B2b).map (·.blk))) :
    (⟨c.lib.id, (B1a ++ B2a).map (·.blk.id)⟩ : CS).run (fastPath s h (B1a ++ B1b ++ B2a ++ B2b) c) =
      some ⟨topOf c.lib.id ((B1a ++ B1b).map (·.blk.id)), (B2a ++ B2b).map (·.blk.id)⟩ := by
  have e1a : B1a.filterMap (fastEv s h c) = B1a.map (fun e => wrap e .irreversible h.ref e.blk.ref none) := by
    apply filterMap_uniform
    intro e he
    obtain ⟨g1, g2, g3⟩ := z1a e he
    unfold fastEv
    have : ¬ e.blk.num ≤ c.lib.num := by omega
    have h3 : ¬ e.blk.num > c.block.num := by omega
    simp [this, g2, hu, h3]
  have e1b : B1b.filterMap (fastEv s h c) = B1b.map (fun e => wrap e .newIrreversible h.ref e.blk.ref none) := by
    apply filterMap_uniform
    intro e he
    obtain ⟨g1, g2, g3⟩ := z1b e he
    unfold fastEv
    have : ¬ e.blk.num ≤ c.lib.num := by omega
    simp [this, g2, hu, g3]
  have e2a : B2a.filterMap (fastEv s h c) = [] := by
    apply filterMap_none
    intro e he
    obtain ⟨g1, g2, g3⟩ := z2a e he
    unfold fastEv
    have : ¬ e.blk.num ≤ c.lib.num := by omega
    have h2 : ¬ e.blk.num ≤ s.db.libRef.num := by omega
    have h3 : ¬ e.blk.num > c.block.num := by omega
    simp [this, h2, hu, h3]
  have e2b : B2b.filterMap (fastEv s h c) = B2b.map (fun e => wrap e .new h.ref s.db.libRef none) := by
    apply filterMap_uniform
    intro e he
    obtain ⟨g1, g2, g3⟩ := z2b e he
    unfold fastEv
    have : ¬ e.blk.num ≤ c.lib.num := by omega
    have h2 : ¬ e.blk.num ≤ s.db.libRef.num := by omega
    simp [this, h2, hu, g3]
  rw [fastPath_eq, List.filterMap_append, List.filterMap_append, List.filterMap_append, e1a, e1b, e2a, e2b]
  unfold CS.run
  simp only [List.append_nil, List.map_append, List.map_map]
  have m1 : (sbOf ∘ fun e => wrap e Step.irreversible h.ref e.blk.ref none) = (fun e : Entry => (Step.irreversible, e.blk)) := rfl
  have m2 : (sbOf ∘ fun e => wrap e Step.newIrreversible h.ref e.blk.ref none) = (fun e : Entry => (Step.newIrreversible, e.blk)) := rfl
  have m3 : (sbOf ∘ fun e => wrap e Step.new h.ref s.db.libRef none) = (fun e : Entry => (Step.new, e.blk)) := rfl
  rw [m1, m2, m3, runSB_append, runSB_append]
  have a1 : B1a.map (fun e => (Step.irreversible, e.blk)) = (B1a.map (·.blk)).map (fun b => (Step.irreversible, b)) := by simp
  have a2 : B1b.map (fun e => (Step.newIrreversible, e.blk)) = (B1b.map (·.blk)).map (fun b => (Step.newIrreversible, b)) := by simp
  have a3 : B2b.map (fun e => (Step.new, e.blk)) = (B2b.map (·.blk)).map (fun b => (Step.new, b)) := by simp
  have i1 : (fun (x : Entry) => x.blk.id) = (fun b : Blk => b.id) ∘ (fun x : Entry => x.blk) := rfl
  -- split the linking of the chain into its four zones
  simp only [List.map_append] at hlink
  rw [linkedBlks_append, linkedBlks_append, linkedBlks_append] at hlink
  obtain ⟨⟨⟨l1a, l1b⟩, l2a⟩, l2b⟩ := hlink
  have hid : ∀ l : List Entry, (l.map (·.blk)).map (·.id) = l.map (·.blk.id) := by intro l; simp
  rw [a1]
  have start : (⟨c.lib.id, B1a.map (·.blk.id) ++ B2a.map (·.blk.id)⟩ : CS) =
      ⟨c.lib.id, (B1a.map (·.blk)).map (·.id) ++ B2a.map (·.blk.id)⟩ := by rw [hid]
  rw [start, runSB_irrs]
  simp only [Option.bind_some]
  rw [hid]
  rcases hzone with hz | hz
  · -- nothing is new-and-final: the consumer keeps its reversible pending blocks and gets the new ones
    subst hz
    simp only [List.map_nil, CS.runSB, Option.bind_some, List.append_nil]
    rw [a3]
    simp only [List.map_nil, List.append_nil] at l2a l2b
    have hl : linkedBlks (topOf (topOf c.lib.id (B1a.map (·.blk.id))) (B2a.map (·.blk.id))) (B2b.map (·.blk)) := by
      have := l2b
      rw [List.map_append, topOf_append, hid, hid] at this
      exact this
    rw [runSB_news _ _ _ hl, hid]
  · -- the consumer's pending blocks are all final: the missed final blocks arrive new-and-irreversible
    subst hz
    simp only [List.map_nil, List.append_nil]
    rw [a2]
    have hl1 : linkedBlks (topOf c.lib.id (B1a.map (·.blk.id))) (B1b.map (·.blk)) := by
      have := l1b; rw [hid] at this; exact this
    rw [runSB_newIrrs _ _ hl1]
    simp only [Option.bind_some]
    rw [a3, hid]
    have hl2 : linkedBlks (topOf (topOf (topOf c.lib.id (B1a.map (·.blk.id))) (B1b.map (·.blk.id))) []) (B2b.map (·.blk)) := by
      have := l2b
      simp only [List.map_nil, List.append_nil, List.map_append] at this
      rw [topOf_append, hid, hid] at this
      simpa using this
    rw [runSB_news _ _ _ hl2, hid, topOf_append]

/-! ### state level: every hub state satisfying the forkable invariant -/
section StateLevel
open BstreamVerif.Seam BstreamVerif.Ascending

private abbrev nE (e : Entry) : Nat := e.blk.num

theorem filterMap_fastEv_below (s : FState) (h : Blk) (c : Cur) (l : List Entry) (hl : ∀ e ∈ l, e.blk.num ≤ c.lib.num) :
    l.filterMap (fastEv s h c) = [] := by
  apply filterMap_none
  intro e he
  unfold fastEv
  simp [hl e he]

/-- the run part: what the fast path of `blocksFromCursor` does to the consumer standing at a (non-Undo) position
    `c.block.num` above `c.lib`, on any hub state satisfying the invariant -/
theorem resume_run_on_hub_chain (s : FState) (P : List Id) (hI : Inv s P) (h : Blk) (seg : List Entry)
    (hs : headSegment s = some (h, seg)) (hnum : ∀ e, s.db.find h.id = some e → e.blk.num = h.num)
    (c : Cur) (hu : isUndo c = false)
    (el : Entry) (hel : el ∈ seg) (helid : el.blk.id = c.lib.id) (helnum : el.blk.num = c.lib.num)
    (hcl : c.lib.num ≤ s.db.libRef.num) :
    (⟨c.lib.id, (seg.filter (fun e => decide (c.lib.num < e.blk.num) && decide (e.blk.num ≤ c.block.num))).map (·.blk.id)⟩ : CS).run
        (fastPath s h seg c) = some ⟨s.db.libRef.id, P⟩ := by
  obtain ⟨K, PE, hseg, hP, hPE, hK, hlast, hstored⟩ := headSegment_shape s P hI h seg hs hnum
  have hlinkE : LinkedE seg := headSegment_linked s h seg hs
  have hasc : Asc nE seg := linkedE_ascending s.db hI.heights seg hlinkE hstored
  -- thresholds
  let cl := c.lib.num
  let cbn := c.block.num
  let L := s.db.libRef.num
  -- seg = below ++ Z
  have hsplit0 := split_at nE cl seg hasc
  let below := seg.filter (fun a => decide (nE a ≤ cl))
  let Z := seg.filter (fun a => decide (cl < nE a))
  have hZasc : Asc nE Z := asc_filter nE _ hasc
  have hsplit1 := split_at nE L Z hZasc
  let Z1 := Z.filter (fun a => decide (nE a ≤ L))
  let Z2 := Z.filter (fun a => decide (L < nE a))
  have hsplit1a := split_at nE cbn Z1 (asc_filter nE _ hZasc)
  have hsplit1b := split_at nE cbn Z2 (asc_filter nE _ hZasc)
  let B1a := Z1.filter (fun a => decide (nE a ≤ cbn))
  let B1b := Z1.filter (fun a => decide (cbn < nE a))
  let B2a := Z2.filter (fun a => decide (nE a ≤ cbn))
  let B2b := Z2.filter (fun a => decide (cbn < nE a))
  have hZ : Z = B1a ++ B1b ++ B2a ++ B2b := by
    have e1 : Z = Z1 ++ Z2 := hsplit1
    have e2 : Z1 = B1a ++ B1b := hsplit1a
    have e3 : Z2 = B2a ++ B2b := hsplit1b
    calc Z = Z1 ++ Z2 := e1
      _ = (B1a ++ B1b) ++ (B2a ++ B2b) := by rw [← e2, ← e3]
      _ = B1a ++ B1b ++ B2a ++ B2b := by simp only [List.append_assoc]
  -- membership facts
  have mZ : ∀ e ∈ Z, cl < e.blk.num := by
    intro e he; have := (List.mem_filter.mp he).2; simpa [nE] using this
  have mZ1 : ∀ e ∈ Z1, cl < e.blk.num ∧ e.blk.num ≤ L := by
    intro e he
    have h1 := List.mem_filter.mp he
    exact ⟨mZ e h1.1, by simpa [nE] using h1.2⟩
  have mZ2 : ∀ e ∈ Z2, cl < e.blk.num ∧ L < e.blk.num := by
    intro e he
    have h1 := List.mem_filter.mp he
    exact ⟨mZ e h1.1, by simpa [nE] using h1.2⟩
  have z1a : ∀ e ∈ B1a, c.lib.num < e.blk.num ∧ e.blk.num ≤ s.db.libRef.num ∧ e.blk.num ≤ c.block.num := by
    intro e he
    have h1 := List.mem_filter.mp he
    exact ⟨(mZ1 e h1.1).1, (mZ1 e h1.1).2, by simpa [nE] using h1.2⟩
  have z1b : ∀ e ∈ B1b, c.lib.num < e.blk.num ∧ e.blk.num ≤ s.db.libRef.num ∧ c.block.num < e.blk.num := by
    intro e he
    have h1 := List.mem_filter.mp he
    exact ⟨(mZ1 e h1.1).1, (mZ1 e h1.1).2, by simpa [nE] using h1.2⟩
  have z2a : ∀ e ∈ B2a, c.lib.num < e.blk.num ∧ s.db.libRef.num < e.blk.num ∧ e.blk.num ≤ c.block.num := by
    intro e he
    have h1 := List.mem_filter.mp he
    exact ⟨(mZ2 e h1.1).1, (mZ2 e h1.1).2, by simpa [nE] using h1.2⟩
  have z2b : ∀ e ∈ B2b, c.lib.num < e.blk.num ∧ s.db.libRef.num < e.blk.num ∧ c.block.num < e.blk.num := by
    intro e he
    have h1 := List.mem_filter.mp he
    exact ⟨(mZ2 e h1.1).1, (mZ2 e h1.1).2, by simpa [nE] using h1.2⟩
  have hzone : B1b = [] ∨ B2a = [] := by
    by_cases hc : cbn ≤ L
    · right
      apply List.eq_nil_iff_forall_not_mem.mpr
      intro e he
      obtain ⟨_, g2, g3⟩ := z2a e he
      have : c.block.num ≤ s.db.libRef.num := hc
      omega
    · left
      apply List.eq_nil_iff_forall_not_mem.mpr
      intro e he
      obtain ⟨_, g2, g3⟩ := z1b e he
      have : ¬ c.block.num ≤ s.db.libRef.num := hc
      omega
  -- the cursor's LIB block is the last block at or below the cursor LIB height
  have hbelow_last : below.getLast? = some el := by
    apply last_of_max nE below (asc_filter nE _ hasc) el
    · exact List.mem_filter.mpr ⟨hel, by simp [nE, helnum, cl]⟩
    · intro x hx
      have := (List.mem_filter.mp hx).2
      simp only [nE, decide_eq_true_eq] at this
      simp only [nE]; omega
  have hsegZ : seg = below ++ Z := hsplit0
  have hlinkZ : linkedBlks c.lib.id (Z.map (·.blk)) := by
    apply linkedBlks_of_linkedE
    · apply linkedE_append_right below Z; rw [← hsegZ]; exact hlinkE
    · intro f hf
      cases hZc : Z with
      | nil => rw [hZc] at hf; cases hf
      | cons z R =>
        rw [hZc] at hf
        simp only [List.head?_cons, Option.some.injEq] at hf
        subst hf
        have hl2 : LinkedE (below ++ z :: R) := by rw [← hZc, ← hsegZ]; exact hlinkE
        rw [linkedE_append_head below z R el hl2 hbelow_last, helid]
  -- the burst only concerns the blocks above the cursor LIB
  have hfp : fastPath s h seg c = fastPath s h (B1a ++ B1b ++ B2a ++ B2b) c := by
    rw [← hZ, fastPath_eq, fastPath_eq]
    have : seg.filterMap (fastEv s h c) = (below ++ Z).filterMap (fastEv s h c) := by rw [← hsegZ]
    rw [this, List.filterMap_append, filterMap_fastEv_below s h c below (by
      intro e he
      have := (List.mem_filter.mp he).2
      simpa [nE, cl] using this)]
    rfl
  have hheld : seg.filter (fun e => decide (c.lib.num < e.blk.num) && decide (e.blk.num ≤ c.block.num)) = B1a ++ B2a := by
    have e1 : Z.filter (fun a => decide (nE a ≤ cbn)) = B1a ++ B2a := by
      have : Z = Z1 ++ Z2 := hsplit1
      rw [this, List.filter_append]
    rw [← e1]
    show _ = (seg.filter (fun a => decide (cl < nE a))).filter (fun a => decide (nE a ≤ cbn))
    rw [List.filter_filter]
    apply List.filter_congr
    intro x _
    simp [nE, cl, cbn, Bool.and_comm]
  have hmain := burst_takes_consumer_to_hub_chain s h c B1a B1b B2a B2b hu z1a z1b z2a z2b hzone
    (by rw [← hZ]; exact hlinkZ)
  -- the blocks above the hub LIB are the pending chain; the final ones end with the LIB block
  have hcl' : cl ≤ L := hcl
  have hZ2 : B2a ++ B2b = PE := by
    have e3 : Z2 = B2a ++ B2b := hsplit1b
    rw [← e3]
    show (seg.filter (fun a => decide (cl < nE a))).filter (fun a => decide (L < nE a)) = PE
    rw [List.filter_filter, hseg, List.filter_append]
    have k0 : K.filter (fun a => decide (L < nE a) && decide (cl < nE a)) = [] := by
      rw [List.filter_eq_nil_iff]
      intro e he
      have := hK e he
      simp [nE, L]; omega
    have p0 : PE.filter (fun a => decide (L < nE a) && decide (cl < nE a)) = PE := by
      rw [List.filter_eq_self]
      intro e he
      have := hPE e he
      simp [nE, L, cl]; omega
    rw [k0, p0]; rfl
  have hZ1 : B1a ++ B1b = K.filter (fun a => decide (cl < nE a)) := by
    have e2 : Z1 = B1a ++ B1b := hsplit1a
    rw [← e2]
    show (seg.filter (fun a => decide (cl < nE a))).filter (fun a => decide (nE a ≤ L)) = _
    rw [List.filter_filter, hseg, List.filter_append]
    have p0 : PE.filter (fun a => decide (nE a ≤ L) && decide (cl < nE a)) = [] := by
      rw [List.filter_eq_nil_iff]
      intro e he
      have := hPE e he
      simp [nE, L]; omega
    have k0 : K.filter (fun a => decide (nE a ≤ L) && decide (cl < nE a)) = K.filter (fun a => decide (cl < nE a)) := by
      apply List.filter_congr
      intro e he
      have := hK e he
      simp [nE, L]; omega
    rw [p0, k0, List.append_nil]
  have hKasc : Asc nE K := asc_sublist nE hasc (by rw [hseg]; exact List.sublist_append_left K PE)
  have htop : topOf c.lib.id ((B1a ++ B1b).map (·.blk.id)) = s.db.libRef.id := by
    rw [hZ1]
    have hKsplit := split_at nE cl K hKasc
    cases hne : K.filter (fun a => decide (cl < nE a)) with
    | nil =>
      -- every retained final block is at or below the cursor LIB: the cursor LIB is the hub's LIB
      simp only [List.map_nil, topOf_nil]
      have helK : el ∈ K := by
        rw [hseg] at hel
        rcases List.mem_append.mp hel with h1 | h1
        · exact h1
        · exact absurd (by omega : el.blk.num ≤ s.db.libRef.num) (hPE el h1)
      rcases hlast with hnil | ⟨eL, hg, hid⟩
      · rw [hnil] at helK; cases helK
      · have heLK : eL ∈ K := List.mem_of_getLast? hg
        have heLnum : eL.blk.num = s.db.libRef.num :=
          hI.heights.2.2 eL (find_mem s.db _ eL (hstored eL (by rw [hseg]; exact List.mem_append_left _ heLK))) hid
        have hle : eL.blk.num ≤ cl := by
          have : eL ∉ K.filter (fun a => decide (cl < nE a)) := by rw [hne]; simp
          have h2 : ¬ (cl < eL.blk.num) := by
            intro hlt; apply this; exact List.mem_filter.mpr ⟨heLK, by simpa [nE] using hlt⟩
          omega
        have : el = eL := key_inj nE K hKasc el eL helK heLK (by simp only [nE]; omega)
        rw [← helid, this, hid]
    | cons a t =>
      rcases hlast with hnil | ⟨eL, hg, hid⟩
      · rw [hnil] at hne; cases hne
      · have hlastK : (K.filter (fun a => decide (cl < nE a))).getLast? = some eL := by
          have : K.getLast? = ((K.filter (fun a => decide (nE a ≤ cl))) ++ (K.filter (fun a => decide (cl < nE a)))).getLast? := by
            rw [← hKsplit]
          rw [this, List.getLast?_append, hne] at hg
          rw [hne]
          simpa using hg
        rw [← hne]
        unfold topOf
        rw [List.getLast?_map, hlastK]
        simpa using hid
  rw [hheld, hfp, List.map_append]
  have := hmain
  rw [htop, hZ2, hP] at this
  simpa [List.map_append] using this


/-- a cursor whose block and LIB are retained on the hub's chain is served by the fast path -/
theorem served_on_hub_chain (s : FState) (P : List Id) (hI : Inv s P) (h : Blk) (seg : List Entry)
    (hs : headSegment s = some (h, seg)) (hnum : ∀ e, s.db.find h.id = some e → e.blk.num = h.num)
    (c : Cur) (el : Entry) (hel : el ∈ seg) (helid : el.blk.id = c.lib.id) (helnum : el.blk.num = c.lib.num)
    (eb : Entry) (heb : eb ∈ seg) (hebid : eb.blk.id = c.block.id) :
    blocksFromCursor s 1 c = some (fastPath s h seg c) := by
  obtain ⟨K, PE, hseg, hP, hPE, hK, hlast, hstored⟩ := headSegment_shape s P hI h seg hs hnum
  have hasc : Asc nE seg := linkedE_ascending s.db hI.heights seg (headSegment_linked s h seg hs) hstored
  cases hsg : seg with
  | nil => rw [hsg] at hel; cases hel
  | cons first rest =>
    rw [hsg] at hs
    have hfirst : ¬ c.lib.num < first.blk.num := by
      have hp := List.pairwise_cons.mp (by rw [hsg] at hasc; exact hasc)
      rw [hsg] at hel
      rcases List.mem_cons.mp hel with rfl | h1
      · omega
      · have := hp.1 el h1; simp only [nE] at this; omega
    have hb : blockIn c.block.id (first :: rest) = true := by
      unfold blockIn
      rw [← hsg]
      exact List.any_eq_true.mpr ⟨eb, heb, by simp [hebid]⟩
    have hl : blockIn c.lib.id (first :: rest) = true := by
      unfold blockIn
      rw [← hsg]
      exact List.any_eq_true.mpr ⟨el, hel, by simp [helid]⟩
    exact served_on_chain s 0 c h first rest hs hfirst hb hl

/-- **Resuming from a New cursor on the hub's chain equals never having disconnected — for every hub state that
    satisfies the forkable invariant** (pending chain `P`): when the cursor's block and LIB are retained on the hub's
    chain (the cursor's LIB reference carries that block's number) and the hub's LIB has not fallen behind the
    cursor's, the hub serves the cursor, and the burst takes the consumer that stood at the cursor — resting on the
    cursor's LIB, holding the hub chain's blocks up to the cursor block — exactly onto the hub's own consumer state
    `⟨LIB, P⟩`. Everything the hub delivers afterwards then continues the discipline (`C01`). -/
theorem resume_new_cursor_on_hub_chain (s : FState) (P : List Id) (hI : Inv s P) (h : Blk) (seg : List Entry)
    (hs : headSegment s = some (h, seg)) (hnum : ∀ e, s.db.find h.id = some e → e.blk.num = h.num)
    (c : Cur) (hu : isUndo c = false)
    (el : Entry) (hel : el ∈ seg) (helid : el.blk.id = c.lib.id) (helnum : el.blk.num = c.lib.num)
    (eb : Entry) (heb : eb ∈ seg) (hebid : eb.blk.id = c.block.id)
    (hcl : c.lib.num ≤ s.db.libRef.num) :
    blocksFromCursor s 1 c = some (fastPath s h seg c) ∧
    (⟨c.lib.id, (seg.filter (fun e => decide (c.lib.num < e.blk.num) && decide (e.blk.num ≤ c.block.num))).map (·.blk.id)⟩ : CS).run
        (fastPath s h seg c) = some ⟨s.db.libRef.id, P⟩ :=
  ⟨served_on_hub_chain s P hI h seg hs hnum c el hel helid helnum eb heb hebid,
   resume_run_on_hub_chain s P hI h seg hs hnum c hu el hel helid helnum hcl⟩

/-- **the same for an Undo cursor on the hub's chain** (the undone block has become canonical again): the consumer
    stood *below* the cursor block — it holds the hub chain's blocks above the cursor LIB and below the cursor block —
    and the burst, which delivers the cursor block again, takes it onto the hub's consumer state ⟨LIB, P⟩. (The fast path
    treats an Undo cursor at height n exactly like a New cursor at height n − 1.) -/
theorem resume_undo_cursor_on_hub_chain (s : FState) (P : List Id) (hI : Inv s P) (h : Blk) (seg : List Entry)
    (hs : headSegment s = some (h, seg)) (hnum : ∀ e, s.db.find h.id = some e → e.blk.num = h.num)
    (c : Cur) (hu : isUndo c = true) (hpos : 1 ≤ c.block.num)
    (el : Entry) (hel : el ∈ seg) (helid : el.blk.id = c.lib.id) (helnum : el.blk.num = c.lib.num)
    (eb : Entry) (heb : eb ∈ seg) (hebid : eb.blk.id = c.block.id)
    (hcl : c.lib.num ≤ s.db.libRef.num) :
    blocksFromCursor s 1 c = some (fastPath s h seg c) ∧
    (⟨c.lib.id, (seg.filter (fun e => decide (c.lib.num < e.blk.num) && decide (e.blk.num < c.block.num))).map (·.blk.id)⟩ : CS).run
        (fastPath s h seg c) = some ⟨s.db.libRef.id, P⟩ := by
  refine ⟨served_on_hub_chain s P hI h seg hs hnum c el hel helid helnum eb heb hebid, ?_⟩
  -- the New cursor one height below
  let c' : Cur := ⟨.new, ⟨c.block.id, c.block.num - 1⟩, c.head, c.lib⟩
  have hfp : fastPath s h seg c = fastPath s h seg c' := by
    rw [fastPath_eq, fastPath_eq]
    have hfun : fastEv s h c = fastEv s h c' := by
      funext e
      unfold fastEv
      have hu' : isUndo c' = false := by simp [isUndo, c']
      simp only [hu, hu', Bool.true_and, Bool.false_and, Bool.or_false, c']
      have e1 : (decide (e.blk.num > c.block.num) || (e.blk.num == c.block.num)) = decide (e.blk.num > c.block.num - 1) := by
        by_cases hgt : e.blk.num > c.block.num
        · simp [hgt]; omega
        · by_cases heq : e.blk.num = c.block.num
          · simp [heq]; omega
          · have : ¬ e.blk.num > c.block.num - 1 := by omega
            simp [hgt, heq, this]
      rw [e1]
    rw [hfun]
  have hfilter : seg.filter (fun e => decide (c.lib.num < e.blk.num) && decide (e.blk.num < c.block.num)) =
      seg.filter (fun e => decide (c'.lib.num < e.blk.num) && decide (e.blk.num ≤ c'.block.num)) := by
    apply List.filter_congr
    intro e _
    simp only [c']
    have : (e.blk.num < c.block.num) ↔ (e.blk.num ≤ c.block.num - 1) := by omega
    simp [this]
  rw [hfp, hfilter]
  exact resume_run_on_hub_chain s P hI h seg hs hnum c' (by simp [isUndo, c']) el hel helid helnum hcl

theorem undoWalk_junction_on_seg (s : FState) (seg : List Entry) (c : Cur) (fuel : Nat) (id : Id) (acc undos : List Entry)
    (jid : Id) (h : undoWalk s seg c fuel id acc = some (undos, jid)) : blockIn jid seg = true := by
  induction fuel generalizing id acc with
  | zero => simp [undoWalk] at h
  | succ n ih =>
    unfold undoWalk at h
    cases hf : s.db.find id with
    | none => rw [hf] at h; cases h
    | some e =>
      rw [hf] at h
      simp only at h
      by_cases hb : blockIn e.blk.parent seg = true
      · simp only [hb, if_true, Option.some.injEq, Prod.mk.injEq] at h
        rw [← h.2]; exact hb
      · simp only [hb, Bool.false_eq_true, if_false] at h
        exact ih _ _ h

/-- **Resuming from a cursor on a fork, state level**: when the hub serves a cursor whose block was forked out, the
    burst first undoes the consumer's forked blocks, newest first, down to the junction on the hub's chain, and then
    continues as for the New cursor on that junction: applied to the consumer that stood at the cursor — resting on the
    cursor's LIB, holding the hub chain's blocks up to the junction and then the forked blocks the burst undoes — it
    ends exactly on the hub's own consumer state `⟨LIB, P⟩`. -/
theorem resume_fork_cursor_on_hub (s : FState) (P : List Id) (hI : Inv s P) (h : Blk) (first : Entry) (rest : List Entry)
    (hs : headSegment s = some (h, first :: rest)) (hnum : ∀ e, s.db.find h.id = some e → e.blk.num = h.num)
    (c : Cur) (hlib : ¬ c.lib.num < first.blk.num)
    (hoff : (blockIn c.block.id (first :: rest) && blockIn c.lib.id (first :: rest)) = false)
    (out : List Event) (hout : blocksFromCursor s 2 c = some out)
    (el : Entry) (hel : el ∈ first :: rest) (helid : el.blk.id = c.lib.id) (helnum : el.blk.num = c.lib.num)
    (hcl : c.lib.num ≤ s.db.libRef.num) :
    ∃ (undos : List Entry) (j : Entry), undoWalk s (first :: rest) c (s.db.entries.length + 1) c.block.id [] = some (undos, j.blk.id) ∧
      (⟨c.lib.id, ((first :: rest).filter (fun e => decide (c.lib.num < e.blk.num) && decide (e.blk.num ≤ j.blk.num))).map (·.blk.id) ++
          (undos.map (·.blk.id)).reverse⟩ : CS).run out = some ⟨s.db.libRef.id, P⟩ := by
  obtain ⟨undos, jid, j, back, hwalk, hj, hback, hshape⟩ := fork_cursor_shape s 1 c h first rest hs hlib hoff out hout
  have hjid : j.blk.id = jid := find_id s.db jid j hj
  -- the junction is on the hub's chain, stored as `j`
  have hjseg : blockIn jid (first :: rest) = true := undoWalk_junction_on_seg s _ c _ _ _ _ _ hwalk
  obtain ⟨K, PE, hseg, hP, hPE, hK, hlast, hstored⟩ := headSegment_shape s P hI h (first :: rest) hs hnum
  obtain ⟨ej, hejm, hejid⟩ : ∃ ej ∈ first :: rest, ej.blk.id = jid := by
    unfold blockIn at hjseg
    obtain ⟨x, hx, hxe⟩ := List.any_eq_true.mp hjseg
    exact ⟨x, hx, by simpa using hxe⟩
  have hejj : ej = j := by
    have := hstored ej hejm
    rw [hejid, hj] at this
    exact (Option.some.inj this).symm
  subst hejj
  let c' : Cur := ⟨.new, ⟨jid, ej.blk.num⟩, h.ref, c.lib⟩
  obtain ⟨h1, h2⟩ := resume_new_cursor_on_hub_chain s P hI h (first :: rest) hs hnum c' (by simp [isUndo, c'])
    el hel helid helnum ej hejm hejid hcl
  refine ⟨undos, ej, by rw [hjid]; exact hwalk, ?_⟩
  rw [hshape, run_append]
  have hundo : (⟨c.lib.id, ((first :: rest).filter (fun e => decide (c.lib.num < e.blk.num) && decide (e.blk.num ≤ ej.blk.num))).map (·.blk.id) ++
      (undos.map (·.blk.id)).reverse⟩ : CS).run (undos.map (fun e => wrap e .undo h.ref c.lib (some ej.blk.ref))) =
      some ⟨c.lib.id, ((first :: rest).filter (fun e => decide (c.lib.num < e.blk.num) && decide (e.blk.num ≤ ej.blk.num))).map (·.blk.id)⟩ := by
    unfold CS.run
    have e1 : (undos.map (fun e => wrap e .undo h.ref c.lib (some ej.blk.ref))).map sbOf =
        (undos.map (·.blk)).map (fun b => (Step.undo, b)) := by
      simp [sbOf, wrap]
    rw [e1]
    have := runSB_undos c.lib.id
      (((first :: rest).filter (fun e => decide (c.lib.num < e.blk.num) && decide (e.blk.num ≤ ej.blk.num))).map (·.blk.id))
      (undos.map (·.blk))
    simpa [List.map_map, Function.comp_def] using this
  rw [hundo]
  simp only [Option.bind_some]
  have hb2 : back = fastPath s h (first :: rest) c' := by
    have : blocksFromCursor s 1 c' = some back := hback
    rw [h1] at this
    exact (Option.some.inj this).symm
  rw [hb2]
  exact h2

/-- **… equals never having disconnected**: the burst, followed by everything the hub delivers afterwards for any later
    history of blocks of one consistent block tree, is one sequence the consumer that stood at the cursor accepts; it
    ends on the hub's chain and LIB as if it had stayed subscribed -/
theorem resume_equals_never_disconnected (cfg : Forkable.Config) (hnew : cfg.matches .new = true)
    (hundo : cfg.matches .undo = true) (hirr : cfg.matches .irreversible = true)
    (U : Id → Option Blk) (hU : UOK U) (F : List Id) (s : FState) (P : List Id) (hI : Inv s P) (hJ : Inv2 U F s.db)
    (h : Blk) (seg : List Entry) (hs : headSegment s = some (h, seg))
    (hnum : ∀ e, s.db.find h.id = some e → e.blk.num = h.num)
    (c : Cur) (hu : isUndo c = false)
    (el : Entry) (hel : el ∈ seg) (helid : el.blk.id = c.lib.id) (helnum : el.blk.num = c.lib.num)
    (eb : Entry) (heb : eb ∈ seg) (hebid : eb.blk.id = c.block.id) (hcl : c.lib.num ≤ s.db.libRef.num)
    (hist : List Blk) (hin : ∀ b ∈ hist, U b.id = some b) (hL : Props.C01.LibHistOK cfg s hist) :
    ∃ burst P', blocksFromCursor s 1 c = some burst ∧
      (⟨c.lib.id, (seg.filter (fun e => decide (c.lib.num < e.blk.num) && decide (e.blk.num ≤ c.block.num))).map (·.blk.id)⟩ : CS).run
          (burst ++ (runHistory cfg s hist).2) = some ⟨(runHistory cfg s hist).1.db.libRef.id, P'⟩ ∧
      Inv (runHistory cfg s hist).1 P' := by
  obtain ⟨h1, h2⟩ := resume_new_cursor_on_hub_chain s P hI h seg hs hnum c hu el hel helid helnum eb heb hebid hcl
  have hsent : s.lastSent.isSome = true := by
    unfold headSegment at hs
    split at hs
    · cases hs
    · cases hl : s.lastSent with
      | none => rw [hl] at hs; cases hs
      | some l => rfl
  obtain ⟨P', hrun, hI'⟩ := Props.C01.history_discipline_consistent cfg hnew hundo hirr U hU hist F s P hI hJ hin hL (Or.inr hsent)
  refine ⟨_, P', h1, ?_, hI'⟩
  rw [run_append, h2]
  exact hrun

/-- **End to end for the hub's own configuration, hypotheses on the inputs only**: a hub forkable started empty
    (hold-until-LIB) and fed any history `h1` of blocks of one consistent block tree; a New cursor whose block and LIB
    the hub retains on its chain; any later history `h2`. The hub serves the cursor, and the burst followed by
    everything the hub delivers afterwards is accepted by the consumer that stood at the cursor, which ends on the
    hub's chain and LIB: resuming equals never having disconnected. -/
theorem resume_end_to_end_hub (cfg : Forkable.Config) (hroot : cfg.root = none) (hhold : cfg.hold = true)
    (hnew : cfg.matches .new = true) (hundo : cfg.matches .undo = true) (hirr : cfg.matches .irreversible = true)
    (U : Id → Option Blk) (hU : UOK U)
    (h1 : List Blk) (hin1 : ∀ b ∈ h1, U b.id = some b) (hL1 : Props.C01.LibHistOK cfg (Forkable.init cfg) h1)
    (h : Blk) (seg : List Entry)
    (hs : headSegment (runHistory cfg (Forkable.init cfg) h1).1 = some (h, seg))
    (c : Cur) (hu : isUndo c = false)
    (el : Entry) (hel : el ∈ seg) (helid : el.blk.id = c.lib.id) (helnum : el.blk.num = c.lib.num)
    (eb : Entry) (heb : eb ∈ seg) (hebid : eb.blk.id = c.block.id)
    (hcl : c.lib.num ≤ (runHistory cfg (Forkable.init cfg) h1).1.db.libRef.num)
    (h2 : List Blk) (hin2 : ∀ b ∈ h2, U b.id = some b)
    (hL2 : Props.C01.LibHistOK cfg (runHistory cfg (Forkable.init cfg) h1).1 h2) :
    ∃ burst P', blocksFromCursor (runHistory cfg (Forkable.init cfg) h1).1 1 c = some burst ∧
      (⟨c.lib.id, (seg.filter (fun e => decide (c.lib.num < e.blk.num) && decide (e.blk.num ≤ c.block.num))).map (·.blk.id)⟩ : CS).run
          (burst ++ (runHistory cfg (runHistory cfg (Forkable.init cfg) h1).1 h2).2) =
        some ⟨(runHistory cfg (runHistory cfg (Forkable.init cfg) h1).1 h2).1.db.libRef.id, P'⟩ := by
  have hlast : (runHistory cfg (Forkable.init cfg) h1).1.lastSent = some h := by
    unfold headSegment at hs
    split at hs
    · cases hs
    · cases hl : (runHistory cfg (Forkable.init cfg) h1).1.lastSent with
      | none => rw [hl] at hs; cases hs
      | some l =>
        rw [hl] at hs
        simp only at hs
        cases hc : (runHistory cfg (Forkable.init cfg) h1).1.db.completeSegment l.ref with
        | mk o rr =>
          rw [hc] at hs
          cases o with
          | none => cases hs
          | some sg =>
            cases rr with
            | false => cases hs
            | true =>
              simp only [Option.some.injEq, Prod.mk.injEq] at hs
              rw [hs.1]
  rcases Props.C01.history_all_invariants_discovery cfg hhold hnew hundo hirr U hU h1 (Forkable.init cfg)
      (preInv_init U cfg hroot) hin1 hL1 with hPre | ⟨P, F, hI, hJ, hH⟩
  · rw [hPre.noLast] at hlast; cases hlast
  · obtain ⟨burst, P', hb, hrun, _⟩ := resume_equals_never_disconnected cfg hnew hundo hirr U hU F _ P hI hJ h seg hs
      (fun e he => Props.C01.head_num_of_invariants U hU F _ hJ hH h hlast e he)
      c hu el hel helid helnum eb heb hebid hcl h2 hin2 hL2
    exact ⟨burst, P', hb, hrun⟩

end StateLevel

/-! Non-vacuity of `resume_new_cursor_on_hub_chain`: a hub (known LIB `r`, ten final blocks kept) that has received
    a2…a5 stands on LIB a3 with a4, a5 pending and still holds a2, a3. A consumer that disconnected at the cursor
    "New a3, LIB a2" (holding a3 above a2) reconnects: a3 is announced final, a4 and a5 are delivered New, and it stands
    on ⟨a3, [a4, a5]⟩ — the hub's own consumer state. -/
section Example
private def cfgK : Forkable.Config :=
  { root := some (.exclusive ⟨"r", 1⟩), hold := false, kept := 10, allTrigger := false, filter := 51, fsb := 0 }
private def uK : List Blk := [⟨"a2", "r", 2, 1⟩, ⟨"a3", "a2", 3, 1⟩, ⟨"a4", "a3", 4, 2⟩, ⟨"a5", "a4", 5, 3⟩]
private def sK : FState := (runHistory cfgK (Forkable.init cfgK) uK).1
private def cK : Cur := ⟨.new, ⟨"a3", 3⟩, ⟨"a3", 3⟩, ⟨"a2", 2⟩⟩

example : ∃ burst P, blocksFromCursor sK 1 cK = some burst ∧
    (⟨"a2", ["a3"]⟩ : CS).run burst = some ⟨"a3", P⟩ := by
  have hU : UOK (ofList uK) := uokB_sound uK (by decide)
  have hI0 := Props.C01.init_inv cfgK ⟨"r", 1⟩ (by decide) rfl
  have hJ0 : Inv2 (ofList uK) ["r"] (Forkable.init cfgK).db := by
    apply Props.C01.init_inv2 cfgK ⟨"r", 1⟩ rfl
    · intro b hb hp
      exact (by decide : ∀ x ∈ uK, x.parent = "r" → 1 < x.num) b (ofList_mem uK _ b hb).1 hp
    · intro b hb hid
      exact (by decide : ∀ x ∈ uK, x.id = "r" → x.num = 1) b (ofList_mem uK _ b hb).1 hid
  obtain ⟨P, _, hI, _⟩ := Props.C01.history_invariants_consistent cfgK (by decide) (by decide) (by decide)
    (ofList uK) hU uK ["r"] (Forkable.init cfgK) [] hI0 hJ0
    (fun b hb => ofList_of_mem uK (by decide) b hb) (libHistB_sound cfgK uK _ (by decide)) (Or.inl rfl)
  have hs : headSegment sK = some (⟨"a5", "a4", 5, 3⟩,
      [⟨⟨"a2", "r", 2, 1⟩, true⟩, ⟨⟨"a3", "a2", 3, 1⟩, true⟩, ⟨⟨"a4", "a3", 4, 2⟩, true⟩, ⟨⟨"a5", "a4", 5, 3⟩, true⟩]) := by decide
  obtain ⟨h1, h2⟩ := resume_new_cursor_on_hub_chain sK P hI _ _ hs
    (by intro e he
        have hd : (sK.db.find "a5").map (·.blk.num) = some 5 := by decide
        rw [he] at hd; simpa using hd)
    cK (by decide) ⟨⟨"a2", "r", 2, 1⟩, true⟩ (by decide) rfl rfl ⟨⟨"a3", "a2", 3, 1⟩, true⟩ (by decide) rfl (by decide)
  refine ⟨_, P, h1, ?_⟩
  have : (sK.db.libRef.id) = "a3" := by decide
  rw [← this]
  exact h2

example : ((blocksFromCursor sK 1 cK).map (·.map (fun e => (e.step, e.blk.id)))) =
    some [(.irreversible, "a3"), (.new, "a4"), (.new, "a5")] := by decide
/-! Non-vacuity of `resume_fork_cursor_on_hub`: the hub received a2, a3, b4, then a4, a5 (b4 forked out; LIB a2). A
    consumer that disconnected at "New b4, LIB a2" — holding a3, b4 — reconnects: b4 is undone (junction a3), a4 and a5
    are delivered, and it stands on ⟨a2, [a3, a4, a5]⟩, the hub's own consumer state. The hypotheses of the theorem hold
    for this state and cursor (the invariant by the history theorem, the rest by kernel evaluation). -/
private def hF : List Blk := [⟨"a2", "r", 2, 1⟩, ⟨"a3", "a2", 3, 1⟩, ⟨"b4", "a3", 4, 1⟩, ⟨"a4", "a3", 4, 2⟩, ⟨"a5", "a4", 5, 2⟩]
private def sF : FState := (runHistory cfgK (Forkable.init cfgK) hF).1
private def cF : Cur := ⟨.new, ⟨"b4", 4⟩, ⟨"b4", 4⟩, ⟨"a2", 2⟩⟩

example : ∃ P, Inv sF P := by
  have hU : UOK (ofList hF) := uokB_sound hF (by decide)
  have hI0 := Props.C01.init_inv cfgK ⟨"r", 1⟩ (by decide) rfl
  have hJ0 : Inv2 (ofList hF) ["r"] (Forkable.init cfgK).db := by
    apply Props.C01.init_inv2 cfgK ⟨"r", 1⟩ rfl
    · intro b hb hp
      exact (by decide : ∀ x ∈ hF, x.parent = "r" → 1 < x.num) b (ofList_mem hF _ b hb).1 hp
    · intro b hb hid
      exact (by decide : ∀ x ∈ hF, x.id = "r" → x.num = 1) b (ofList_mem hF _ b hb).1 hid
  obtain ⟨P, _, hI, _⟩ := Props.C01.history_invariants_consistent cfgK (by decide) (by decide) (by decide)
    (ofList hF) hU hF ["r"] (Forkable.init cfgK) [] hI0 hJ0
    (fun b hb => ofList_of_mem hF (by decide) b hb) (libHistB_sound cfgK hF _ (by decide)) (Or.inl rfl)
  exact ⟨P, hI⟩

example : headSegment sF = some (⟨"a5", "a4", 5, 2⟩,
      ⟨⟨"a2", "r", 2, 1⟩, true⟩ :: [⟨⟨"a3", "a2", 3, 1⟩, true⟩, ⟨⟨"a4", "a3", 4, 2⟩, true⟩, ⟨⟨"a5", "a4", 5, 2⟩, true⟩]) ∧
    (blockIn cF.block.id [⟨⟨"a2", "r", 2, 1⟩, true⟩, ⟨⟨"a3", "a2", 3, 1⟩, true⟩, ⟨⟨"a4", "a3", 4, 2⟩, true⟩, ⟨⟨"a5", "a4", 5, 2⟩, true⟩] &&
      blockIn cF.lib.id [⟨⟨"a2", "r", 2, 1⟩, true⟩, ⟨⟨"a3", "a2", 3, 1⟩, true⟩, ⟨⟨"a4", "a3", 4, 2⟩, true⟩, ⟨⟨"a5", "a4", 5, 2⟩, true⟩]) = false ∧
    (blocksFromCursor sF 2 cF).isSome = true ∧ cF.lib.num ≤ sF.db.libRef.num := by decide

example : ((blocksFromCursor sF 2 cF).map (·.map (fun e => (e.step, e.blk.id)))) =
      some [(.undo, "b4"), (.new, "a4"), (.new, "a5")] ∧
    (blocksFromCursor sF 2 cF).bind (fun out => (⟨"a2", ["a3", "b4"]⟩ : CS).run out) = some ⟨"a2", ["a3", "a4", "a5"]⟩ := by decide
end Example

end BstreamVerif.Props.C05
