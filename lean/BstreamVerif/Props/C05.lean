import BstreamVerif.Model.HubBurst
/-!
# C05 — resuming from a cursor on the live hub equals never having disconnected

`blocksFromCursor` on the head segment `seg` (the hub's retained canonical chain). For a cursor whose block and LIB
lie on that chain (`fastPath`): nothing at or below the cursor LIB is delivered; every canonical block above the
cursor block (the cursor block itself for an Undo cursor) is delivered exactly once, in chain order, as New above
the hub LIB and new-and-irreversible up to it; canonical blocks between the cursor LIB and the cursor block that the
hub has finalised meanwhile are announced Irreversible; for a final cursor the irreversible events are exactly the
canonical final blocks after the cursor block. A cursor whose LIB is below the retained chain gets no source.
For a cursor on a fork the burst is the undo walk to the junction followed by the burst of the junction cursor.
That the burst leaves the *consumer at the cursor* on the hub's chain for every history is decided by the
consumer-at-cursor monitor over the hubburst correspondence suite (kept seeded change
C05-cursor-below-lib-assumed-canonical); it is not a theorem here.
-/
namespace BstreamVerif.Props.C05
open BstreamVerif BstreamVerif.ForkDB BstreamVerif.Forkable BstreamVerif.HubBurst

/-- what the fast path does with one canonical block -/
def fastEv (s : FState) (h : Blk) (c : Cur) (e : Entry) : Option Event :=
  if e.blk.num ≤ c.lib.num then none
  else if e.blk.num ≤ s.db.libRef.num then
    let step := if e.blk.num > c.block.num || (isUndo c && e.blk.num == c.block.num) then Step.newIrreversible else Step.irreversible
    some (wrap e step h.ref e.blk.ref none)
  else if e.blk.num > c.block.num || (isUndo c && e.blk.num == c.block.num) then
    some (wrap e .new h.ref s.db.libRef none)
  else none

theorem fastPath_eq (s : FState) (h : Blk) (seg : List Entry) (c : Cur) :
    fastPath s h seg c = seg.filterMap (fastEv s h c) := rfl

theorem fastEv_blk (s : FState) (h : Blk) (c : Cur) (e : Entry) (ev : Event) (he : fastEv s h c e = some ev) :
    ev.blk = e.blk ∧ ev.head = h.ref := by
  unfold fastEv at he
  split at he
  · cases he
  · split at he
    · injection he with he; subst he; exact ⟨rfl, rfl⟩
    · split at he
      · injection he with he; subst he; exact ⟨rfl, rfl⟩
      · cases he

/-- delivered blocks are canonical blocks, in chain order, none twice -/
theorem fastPath_in_chain_order (s : FState) (h : Blk) (seg : List Entry) (c : Cur) :
    ((fastPath s h seg c).map (·.blk)).Sublist (seg.map (·.blk)) := by
  rw [fastPath_eq]
  induction seg with
  | nil => simp
  | cons e r ih =>
    rw [List.filterMap_cons]
    cases hf : fastEv s h c e with
    | none => simp only [List.map_cons]; exact List.Sublist.cons _ ih
    | some ev =>
      simp only [List.map_cons]
      rw [(fastEv_blk s h c e ev hf).1]
      exact List.Sublist.cons_cons _ ih

/-- nothing at or below the cursor LIB is delivered again -/
theorem nothing_at_or_below_cursor_lib (s : FState) (h : Blk) (seg : List Entry) (c : Cur) :
    ∀ ev ∈ fastPath s h seg c, c.lib.num < ev.blk.num := by
  intro ev hev
  rw [fastPath_eq, List.mem_filterMap] at hev
  obtain ⟨e, _, he⟩ := hev
  have hb := (fastEv_blk s h c e ev he).1
  unfold fastEv at he
  split at he
  · cases he
  · rw [hb]; omega

/-- every canonical block above the cursor block is delivered: as New above the hub LIB, new-and-irreversible up to it -/
theorem everything_above_cursor_block (s : FState) (h : Blk) (seg : List Entry) (c : Cur) (e : Entry) (he : e ∈ seg)
    (h1 : c.block.num < e.blk.num) (h2 : c.lib.num < e.blk.num) :
    ∃ ev ∈ fastPath s h seg c, ev.blk = e.blk ∧
      ev.step = (if e.blk.num ≤ s.db.libRef.num then Step.newIrreversible else Step.new) := by
  rw [fastPath_eq]
  have hnot : ¬ e.blk.num ≤ c.lib.num := by omega
  by_cases hl : e.blk.num ≤ s.db.libRef.num
  · refine ⟨wrap e .newIrreversible h.ref e.blk.ref none, ?_, rfl, by simp [wrap, hl]⟩
    rw [List.mem_filterMap]
    refine ⟨e, he, ?_⟩
    unfold fastEv
    simp [hnot, hl, h1]
  · refine ⟨wrap e .new h.ref s.db.libRef none, ?_, rfl, by simp [wrap, hl]⟩
    rw [List.mem_filterMap]
    refine ⟨e, he, ?_⟩
    unfold fastEv
    simp [hnot, hl, h1]

/-- a New/Undo cursor: nothing at or below the cursor block is delivered as New (an Undo cursor re-delivers its block) -/
theorem nothing_new_below_cursor_block (s : FState) (h : Blk) (seg : List Entry) (c : Cur) (hu : isUndo c = false) :
    ∀ ev ∈ fastPath s h seg c, (ev.step = .new ∨ ev.step = .newIrreversible) → c.block.num < ev.blk.num := by
  intro ev hev hstep
  rw [fastPath_eq, List.mem_filterMap] at hev
  obtain ⟨e, _, he⟩ := hev
  have hb := (fastEv_blk s h c e ev he).1
  unfold fastEv at he
  simp only [hu, Bool.false_and, Bool.or_false, decide_eq_true_eq] at he
  split at he
  · cases he
  · split at he
    · injection he with he
      subst he
      simp only [wrap] at hstep hb ⊢
      by_cases hg : e.blk.num > c.block.num
      · exact hg
      · simp [hg] at hstep
    · split at he
      · rename_i hg
        injection he with he
        subst he
        exact hg
      · cases he

/-- **final-blocks-only consumer on a final cursor**: the irreversible events are exactly the canonical final
    blocks after the cursor LIB -/
theorem final_events_exact (s : FState) (h : Blk) (seg : List Entry) (c : Cur) :
    ((fastPath s h seg c).filter (fun ev => ev.step == .irreversible || ev.step == .newIrreversible)).map (·.blk) =
      (seg.filter (fun e => decide (c.lib.num < e.blk.num) && decide (e.blk.num ≤ s.db.libRef.num))).map (·.blk) := by
  rw [fastPath_eq]
  induction seg with
  | nil => rfl
  | cons e r ih =>
    rw [List.filterMap_cons]
    by_cases h1 : e.blk.num ≤ c.lib.num
    · have hf : fastEv s h c e = none := by simp [fastEv, h1]
      rw [hf, List.filter_cons_of_neg (by simp; omega)]
      exact ih
    · by_cases h2 : e.blk.num ≤ s.db.libRef.num
      · have hf : ∃ st, (st = Step.newIrreversible ∨ st = Step.irreversible) ∧ fastEv s h c e = some (wrap e st h.ref e.blk.ref none) := by
          unfold fastEv
          simp only [h1, if_false, h2, if_true]
          by_cases hg : (decide (e.blk.num > c.block.num) || (isUndo c && e.blk.num == c.block.num)) = true
          · exact ⟨_, Or.inl rfl, by simp [hg]⟩
          · exact ⟨_, Or.inr rfl, by simp [hg]⟩
        obtain ⟨st, hst, hf⟩ := hf
        rw [hf]
        simp only
        rw [List.filter_cons_of_pos (by rcases hst with rfl | rfl <;> simp [wrap]),
          List.filter_cons_of_pos (by simp; omega)]
        simp only [List.map_cons, wrap]
        rw [ih]
      · rw [List.filter_cons_of_neg (by simp; omega)]
        cases hf : fastEv s h c e with
        | none => exact ih
        | some ev =>
          have : ev.step = .new := by
            unfold fastEv at hf
            simp only [h1, if_false, h2] at hf
            split at hf
            · injection hf with hf; subst hf; rfl
            · cases hf
          simp only
          rw [List.filter_cons_of_neg (by simp [this])]
          exact ih

/-- **no partial source**: a cursor whose LIB lies below the retained canonical chain is refused -/
theorem refused_below_window (s : FState) (fuel : Nat) (c : Cur) (h : Blk) (first : Entry) (rest : List Entry)
    (hs : headSegment s = some (h, first :: rest)) (hlow : c.lib.num < first.blk.num) :
    blocksFromCursor s (fuel + 1) c = none := by
  unfold blocksFromCursor
  rw [hs]
  simp [hlow]

/-- a hub without head segment serves no cursor -/
theorem refused_without_chain (s : FState) (fuel : Nat) (c : Cur) (hs : headSegment s = none) :
    blocksFromCursor s fuel c = none := by
  cases fuel with
  | zero => rfl
  | succ n => unfold blocksFromCursor; rw [hs]

/-- a cursor on the retained canonical chain is served by the fast path -/
theorem served_on_chain (s : FState) (fuel : Nat) (c : Cur) (h : Blk) (first : Entry) (rest : List Entry)
    (hs : headSegment s = some (h, first :: rest)) (hlib : ¬ c.lib.num < first.blk.num)
    (hb : blockIn c.block.id (first :: rest) = true) (hl : blockIn c.lib.id (first :: rest) = true) :
    blocksFromCursor s (fuel + 1) c = some (fastPath s h (first :: rest) c) := by
  unfold blocksFromCursor
  rw [hs]
  simp [hlib, hb, hl]

/-- a cursor on a fork: the burst is the undo walk (newest first, every undo naming the junction) followed by the
    burst of the New cursor on the junction -/
theorem fork_cursor_shape (s : FState) (fuel : Nat) (c : Cur) (h : Blk) (first : Entry) (rest : List Entry)
    (hs : headSegment s = some (h, first :: rest)) (hlib : ¬ c.lib.num < first.blk.num)
    (hoff : (blockIn c.block.id (first :: rest) && blockIn c.lib.id (first :: rest)) = false)
    (out : List Event) (hout : blocksFromCursor s (fuel + 1) c = some out) :
    ∃ undos jid j back, undoWalk s (first :: rest) c (s.db.entries.length + 1) c.block.id [] = some (undos, jid) ∧
      s.db.find jid = some j ∧
      blocksFromCursor s fuel ⟨.new, ⟨jid, j.blk.num⟩, h.ref, c.lib⟩ = some back ∧
      out = undos.map (fun e => wrap e .undo h.ref c.lib (some j.blk.ref)) ++ back := by
  unfold blocksFromCursor at hout
  rw [hs] at hout
  simp only [hlib, if_false, hoff, Bool.false_eq_true] at hout
  cases hu : undoWalk s (first :: rest) c (s.db.entries.length + 1) c.block.id [] with
  | none => rw [hu] at hout; cases hout
  | some p =>
    obtain ⟨undos, jid⟩ := p
    rw [hu] at hout
    simp only at hout
    cases hj : s.db.find jid with
    | none => rw [hj] at hout; cases hout
    | some j =>
      rw [hj] at hout
      simp only at hout
      cases hb : blocksFromCursor s fuel ⟨.new, ⟨jid, j.blk.num⟩, h.ref, c.lib⟩ with
      | none => rw [hb] at hout; cases hout
      | some back =>
        rw [hb] at hout
        injection hout with hout
        exact ⟨undos, jid, j, back, rfl, hj, hb, hout.symm⟩

end BstreamVerif.Props.C05
