import BstreamVerif.Model.HubBurst
import BstreamVerif.Spec.Consumer
namespace BstreamVerif.Props.C05
open BstreamVerif BstreamVerif.Forkable BstreamVerif.HubBurst BstreamVerif.Consumer

end BstreamVerif.Props.C05
