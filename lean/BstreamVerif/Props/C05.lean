import BstreamVerif.Model.HubBurst
import BstreamVerif.Lemmas.ForkInv
/-!
# C05 — resuming from a cursor on the live hub equals never having disconnected

`blocksFromCursor` on the head segment `seg` (the hub's retained canonical chain). For a cursor whose block and LIB
lie on that chain (`fastPath`): nothing at or below the cursor LIB is delivered; every canonical block above the
cursor block (the cursor block itself for an Undo cursor) is delivered exactly once, in chain order, as New above
the hub LIB and new-and-irreversible up to it; canonical blocks between the cursor LIB and the cursor block that the
hub has finalised meanwhile are announced Irreversible; for a final cursor the irreversible events are exactly the
canonical final blocks after the cursor block. A cursor whose LIB is below the retained chain gets no source.
For a cursor on a fork the burst is the undo walk to the junction followed by the burst of the junction cursor.
That the burst leaves the *consumer at the cursor* on the hub's chain for every history is decided by the
consumer-at-cursor monitor over the hubburst correspondence suite (kept seeded change
C05-cursor-below-lib-assumed-canonical); it is not a theorem here.
-/
namespace BstreamVerif.Props.C05
open BstreamVerif BstreamVerif.ForkDB BstreamVerif.Forkable BstreamVerif.HubBurst

/-- what the fast path does with one canonical block -/
def fastEv (s : FState) (h : Blk) (c : Cur) (e : Entry) : Option Event :=
  if e.blk.num ≤ c.lib.num then none
  else if e.blk.num ≤ s.db.libRef.num then
    let step := if e.blk.num > c.block.num || (isUndo c && e.blk.num == c.block.num) then Step.newIrreversible else Step.irreversible
    some (wrap e step h.ref e.blk.ref none)
  else if e.blk.num > c.block.num || (isUndo c && e.blk.num == c.block.num) then
    some (wrap e .new h.ref s.db.libRef none)
  else none

theorem fastPath_eq (s : FState) (h : Blk) (seg : List Entry) (c : Cur) :
    fastPath s h seg c = seg.filterMap (fastEv s h c) := rfl

theorem fastEv_blk (s : FState) (h : Blk) (c : Cur) (e : Entry) (ev : Event) (he : fastEv s h c e = some ev) :
    ev.blk = e.blk ∧ ev.head = h.ref := by
  unfold fastEv at he
  split at he
  · cases he
  · split at he
    · injection he with he; subst he; exact ⟨rfl, rfl⟩
    · split at he
      · injection he with he; subst he; exact ⟨rfl, rfl⟩
      · cases he

/-- delivered blocks are canonical blocks, in chain order, none twice -/
theorem fastPath_in_chain_order (s : FState) (h : Blk) (seg : List Entry) (c : Cur) :
    ((fastPath s h seg c).map (·.blk)).Sublist (seg.map (·.blk)) := by
  rw [fastPath_eq]
  induction seg with
  | nil => simp
  | cons e r ih =>
    rw [List.filterMap_cons]
    cases hf : fastEv s h c e with
    | none => simp only [List.map_cons]; exact List.Sublist.cons _ ih
    | some ev =>
      simp only [List.map_cons]
      rw [(fastEv_blk s h c e ev hf).1]
      exact List.Sublist.cons_cons _ ih

/-- nothing at or below the cursor LIB is delivered again -/
theorem nothing_at_or_below_cursor_lib (s : FState) (h : Blk) (seg : List Entry) (c : Cur) :
    ∀ ev ∈ fastPath s h seg c, c.lib.num < ev.blk.num := by
  intro ev hev
  rw [fastPath_eq, List.mem_filterMap] at hev
  obtain ⟨e, _, he⟩ := hev
  have hb := (fastEv_blk s h c e ev he).1
  unfold fastEv at he
  split at he
  · cases he
  · rw [hb]; omega

/-- every canonical block above the cursor block is delivered: as New above the hub LIB, new-and-irreversible up to it -/
theorem everything_above_cursor_block (s : FState) (h : Blk) (seg : List Entry) (c : Cur) (e : Entry) (he : e ∈ seg)
    (h1 : c.block.num < e.blk.num) (h2 : c.lib.num < e.blk.num) :
    ∃ ev ∈ fastPath s h seg c, ev.blk = e.blk ∧
      ev.step = (if e.blk.num ≤ s.db.libRef.num then Step.newIrreversible else Step.new) := by
  rw [fastPath_eq]
  have hnot : ¬ e.blk.num ≤ c.lib.num := by omega
  by_cases hl : e.blk.num ≤ s.db.libRef.num
  · refine ⟨wrap e .newIrreversible h.ref e.blk.ref none, ?_, rfl, by simp [wrap, hl]⟩
    rw [List.mem_filterMap]
    refine ⟨e, he, ?_⟩
    unfold fastEv
    simp [hnot, hl, h1]
  · refine ⟨wrap e .new h.ref s.db.libRef none, ?_, rfl, by simp [wrap, hl]⟩
    rw [List.mem_filterMap]
    refine ⟨e, he, ?_⟩
    unfold fastEv
    simp [hnot, hl, h1]

/-- a New/Undo cursor: nothing at or below the cursor block is delivered as New (an Undo cursor re-delivers its block) -/
theorem nothing_new_below_cursor_block (s : FState) (h : Blk) (seg : List Entry) (c : Cur) (hu : isUndo c = false) :
    ∀ ev ∈ fastPath s h seg c, (ev.step = .new ∨ ev.step = .newIrreversible) → c.block.num < ev.blk.num := by
  intro ev hev hstep
  rw [fastPath_eq, List.mem_filterMap] at hev
  obtain ⟨e, _, he⟩ := hev
  have hb := (fastEv_blk s h c e ev he).1
  unfold fastEv at he
  simp only [hu, Bool.false_and, Bool.or_false, decide_eq_true_eq] at he
  split at he
  · cases he
  · split at he
    · injection he with he
      subst he
      simp only [wrap] at hstep hb ⊢
      by_cases hg : e.blk.num > c.block.num
      · exact hg
      · simp [hg] at hstep
    · split at he
      · rename_i hg
        injection he with he
        subst he
        exact hg
      · cases he

/-- **final-blocks-only consumer on a final cursor**: the irreversible events are exactly the canonical final
    blocks after the cursor LIB -/
theorem final_events_exact (s : FState) (h : Blk) (seg : List Entry) (c : Cur) :
    ((fastPath s h seg c).filter (fun ev => ev.step == .irreversible || ev.step == .newIrreversible)).map (·.blk) =
      (seg.filter (fun e => decide (c.lib.num < e.blk.num) && decide (e.blk.num ≤ s.db.libRef.num))).map (·.blk) := by
  rw [fastPath_eq]
  induction seg with
  | nil => rfl
  | cons e r ih =>
    rw [List.filterMap_cons]
    by_cases h1 : e.blk.num ≤ c.lib.num
    · have hf : fastEv s h c e = none := by simp [fastEv, h1]
      rw [hf, List.filter_cons_of_neg (by simp; omega)]
      exact ih
    · by_cases h2 : e.blk.num ≤ s.db.libRef.num
      · have hf : ∃ st, (st = Step.newIrreversible ∨ st = Step.irreversible) ∧ fastEv s h c e = some (wrap e st h.ref e.blk.ref none) := by
          unfold fastEv
          simp only [h1, if_false, h2, if_true]
          by_cases hg : (decide (e.blk.num > c.block.num) || (isUndo c && e.blk.num == c.block.num)) = true
          · exact ⟨_, Or.inl rfl, by simp [hg]⟩
          · exact ⟨_, Or.inr rfl, by simp [hg]⟩
        obtain ⟨st, hst, hf⟩ := hf
        rw [hf]
        simp only
        rw [List.filter_cons_of_pos (by rcases hst with rfl | rfl <;> simp [wrap]),
          List.filter_cons_of_pos (by simp; omega)]
        simp only [List.map_cons, wrap]
        rw [ih]
      · rw [List.filter_cons_of_neg (by simp; omega)]
        cases hf : fastEv s h c e with
        | none => exact ih
        | some ev =>
          have : ev.step = .new := by
            unfold fastEv at hf
            simp only [h1, if_false, h2] at hf
            split at hf
            · injection hf with hf; subst hf; rfl
            · cases hf
          simp only
          rw [List.filter_cons_of_neg (by simp [this])]
          exact ih

/-- **no partial source**: a cursor whose LIB lies below the retained canonical chain is refused -/
theorem refused_below_window (s : FState) (fuel : Nat) (c : Cur) (h : Blk) (first : Entry) (rest : List Entry)
    (hs : headSegment s = some (h, first :: rest)) (hlow : c.lib.num < first.blk.num) :
    blocksFromCursor s (fuel + 1) c = none := by
  unfold blocksFromCursor
  rw [hs]
  simp [hlow]

/-- a hub without head segment serves no cursor -/
theorem refused_without_chain (s : FState) (fuel : Nat) (c : Cur) (hs : headSegment s = none) :
    blocksFromCursor s fuel c = none := by
  cases fuel with
  | zero => rfl
  | succ n => unfold blocksFromCursor; rw [hs]

/-- a cursor on the retained canonical chain is served by the fast path -/
theorem served_on_chain (s : FState) (fuel : Nat) (c : Cur) (h : Blk) (first : Entry) (rest : List Entry)
    (hs : headSegment s = some (h, first :: rest)) (hlib : ¬ c.lib.num < first.blk.num)
    (hb : blockIn c.block.id (first :: rest) = true) (hl : blockIn c.lib.id (first :: rest) = true) :
    blocksFromCursor s (fuel + 1) c = some (fastPath s h (first :: rest) c) := by
  unfold blocksFromCursor
  rw [hs]
  simp [hlib, hb, hl]

/-- a cursor on a fork: the burst is the undo walk (newest first, every undo naming the junction) followed by the
    burst of the New cursor on the junction -/
theorem fork_cursor_shape (s : FState) (fuel : Nat) (c : Cur) (h : Blk) (first : Entry) (rest : List Entry)
    (hs : headSegment s = some (h, first :: rest)) (hlib : ¬ c.lib.num < first.blk.num)
    (hoff : (blockIn c.block.id (first :: rest) && blockIn c.lib.id (first :: rest)) = false)
    (out : List Event) (hout : blocksFromCursor s (fuel + 1) c = some out) :
    ∃ undos jid j back, undoWalk s (first :: rest) c (s.db.entries.length + 1) c.block.id [] = some (undos, jid) ∧
      s.db.find jid = some j ∧
      blocksFromCursor s fuel ⟨.new, ⟨jid, j.blk.num⟩, h.ref, c.lib⟩ = some back ∧
      out = undos.map (fun e => wrap e .undo h.ref c.lib (some j.blk.ref)) ++ back := by
  unfold blocksFromCursor at hout
  rw [hs] at hout
  simp only [hlib, if_false, hoff, Bool.false_eq_true] at hout
  cases hu : undoWalk s (first :: rest) c (s.db.entries.length + 1) c.block.id [] with
  | none => rw [hu] at hout; cases hout
  | some p =>
    obtain ⟨undos, jid⟩ := p
    rw [hu] at hout
    simp only at hout
    cases hj : s.db.find jid with
    | none => rw [hj] at hout; cases hout
    | some j =>
      rw [hj] at hout
      simp only at hout
      cases hb : blocksFromCursor s fuel ⟨.new, ⟨jid, j.blk.num⟩, h.ref, c.lib⟩ with
      | none => rw [hb] at hout; cases hout
      | some back =>
        rw [hb] at hout
        injection hout with hout
        exact ⟨undos, jid, j, back, rfl, hj, hb, hout.symm⟩

/-! ## the burst applied to the consumer at the cursor (cursor on the retained canonical chain)

`B` is the part of the hub's canonical chain above the cursor LIB, split by height into four consecutive zones:
`B1a` — at or below both the hub LIB and the cursor block (the consumer holds them pending; the hub finalised them);
`B1b` — at or below the hub LIB, above the cursor block (new to the consumer and already final);
`B2a` — above the hub LIB, at or below the cursor block (held pending, still reversible);
`B2b` — above both (new). Heights ascend along the chain, so `B1b` and `B2a` cannot both be non-empty. -/

theorem filterMap_uniform {α β} (f : α → Option β) (g : α → β) (l : List α) (h : ∀ x ∈ l, f x = some (g x)) :
    l.filterMap f = l.map g := by
  induction l with
  | nil => rfl
  | cons a t ih =>
    rw [List.filterMap_cons, h a (by simp)]
    simp only [List.map_cons]
    rw [ih (fun x hx => h x (by simp [hx]))]

theorem filterMap_none {α β} (f : α → Option β) (l : List α) (h : ∀ x ∈ l, f x = none) : l.filterMap f = [] := by
  induction l with
  | nil => rfl
  | cons a t ih => rw [List.filterMap_cons, h a (by simp)]; exact ih (fun x hx => h x (by simp [hx]))

theorem runSB_newIrrs (lib : Id) (bs : List Blk) (h : linkedBlks lib bs) :
    (⟨lib, []⟩ : CS).runSB (bs.map (fun b => (Step.newIrreversible, b))) = some ⟨topOf lib (bs.map (·.id)), []⟩ := by
  induction bs generalizing lib with
  | nil => rfl
  | cons b r ih =>
    simp only [List.map_cons, CS.runSB, CS.apply, List.isEmpty_nil, h.1, beq_self_eq_true, Bool.and_self, if_true,
      topOf_cons]
    exact ih b.id h.2

/-- **a New cursor on the hub's canonical chain**: the burst takes the consumer that stood at the cursor (resting on
    the cursor LIB, holding the canonical blocks up to the cursor block) exactly onto the hub's current chain and final
    block — the finalised pending blocks are announced oldest first, the blocks the consumer missed are delivered once,
    in order, and nothing is delivered twice. -/
theorem burst_takes_consumer_to_hub_chain (s : FState) (h : Blk) (c : Cur) (B1a B1b B2a B2b : List Entry)
    (hu : isUndo c = false)
    (z1a : ∀ e ∈ B1a, c.lib.num < e.blk.num ∧ e.blk.num ≤ s.db.libRef.num ∧ e.blk.num ≤ c.block.num)
    (z1b : ∀ e ∈ B1b, c.lib.num < e.blk.num ∧ e.blk.num ≤ s.db.libRef.num ∧ c.block.num < e.blk.num)
    (z2a : ∀ e ∈ B2a, c.lib.num < e.blk.num ∧ s.db.libRef.num < e.blk.num ∧ e.blk.num ≤ c.block.num)
    (z2b : ∀ e ∈ B2b, c.lib.num < e.blk.num ∧ s.db.libRef.num < e.blk.num ∧ c.block.num < e.blk.num)
    (hzone : B1b = [] ∨ B2a = [])
    (hlink : linkedBlks c.lib.id ((B1a ++ B1b ++ B2a ++ B2b).map (·.blk))) :
    (⟨c.lib.id, (B1a ++ B2a).map (·.blk.id)⟩ : CS).run (fastPath s h (B1a ++ B1b ++ B2a ++ B2b) c) =
      some ⟨topOf c.lib.id ((B1a ++ B1b).map (·.blk.id)), (B2a ++ B2b).map (·.blk.id)⟩ := by
  have e1a : B1a.filterMap (fastEv s h c) = B1a.map (fun e => wrap e .irreversible h.ref e.blk.ref none) := by
    apply filterMap_uniform
    intro e he
    obtain ⟨g1, g2, g3⟩ := z1a e he
    unfold fastEv
    have : ¬ e.blk.num ≤ c.lib.num := by omega
    have h3 : ¬ e.blk.num > c.block.num := by omega
    simp [this, g2, hu, h3]
  have e1b : B1b.filterMap (fastEv s h c) = B1b.map (fun e => wrap e .newIrreversible h.ref e.blk.ref none) := by
    apply filterMap_uniform
    intro e he
    obtain ⟨g1, g2, g3⟩ := z1b e he
    unfold fastEv
    have : ¬ e.blk.num ≤ c.lib.num := by omega
    simp [this, g2, hu, g3]
  have e2a : B2a.filterMap (fastEv s h c) = [] := by
    apply filterMap_none
    intro e he
    obtain ⟨g1, g2, g3⟩ := z2a e he
    unfold fastEv
    have : ¬ e.blk.num ≤ c.lib.num := by omega
    have h2 : ¬ e.blk.num ≤ s.db.libRef.num := by omega
    have h3 : ¬ e.blk.num > c.block.num := by omega
    simp [this, h2, hu, h3]
  have e2b : B2b.filterMap (fastEv s h c) = B2b.map (fun e => wrap e .new h.ref s.db.libRef none) := by
    apply filterMap_uniform
    intro e he
    obtain ⟨g1, g2, g3⟩ := z2b e he
    unfold fastEv
    have : ¬ e.blk.num ≤ c.lib.num := by omega
    have h2 : ¬ e.blk.num ≤ s.db.libRef.num := by omega
    simp [this, h2, hu, g3]
  rw [fastPath_eq, List.filterMap_append, List.filterMap_append, List.filterMap_append, e1a, e1b, e2a, e2b]
  unfold CS.run
  simp only [List.append_nil, List.map_append, List.map_map]
  have m1 : (sbOf ∘ fun e => wrap e Step.irreversible h.ref e.blk.ref none) = (fun e : Entry => (Step.irreversible, e.blk)) := rfl
  have m2 : (sbOf ∘ fun e => wrap e Step.newIrreversible h.ref e.blk.ref none) = (fun e : Entry => (Step.newIrreversible, e.blk)) := rfl
  have m3 : (sbOf ∘ fun e => wrap e Step.new h.ref s.db.libRef none) = (fun e : Entry => (Step.new, e.blk)) := rfl
  rw [m1, m2, m3, runSB_append, runSB_append]
  have a1 : B1a.map (fun e => (Step.irreversible, e.blk)) = (B1a.map (·.blk)).map (fun b => (Step.irreversible, b)) := by simp
  have a2 : B1b.map (fun e => (Step.newIrreversible, e.blk)) = (B1b.map (·.blk)).map (fun b => (Step.newIrreversible, b)) := by simp
  have a3 : B2b.map (fun e => (Step.new, e.blk)) = (B2b.map (·.blk)).map (fun b => (Step.new, b)) := by simp
  have i1 : (fun (x : Entry) => x.blk.id) = (fun b : Blk => b.id) ∘ (fun x : Entry => x.blk) := rfl
  -- split the linking of the chain into its four zones
  simp only [List.map_append] at hlink
  rw [linkedBlks_append, linkedBlks_append, linkedBlks_append] at hlink
  obtain ⟨⟨⟨l1a, l1b⟩, l2a⟩, l2b⟩ := hlink
  have hid : ∀ l : List Entry, (l.map (·.blk)).map (·.id) = l.map (·.blk.id) := by intro l; simp
  rw [a1]
  have start : (⟨c.lib.id, B1a.map (·.blk.id) ++ B2a.map (·.blk.id)⟩ : CS) =
      ⟨c.lib.id, (B1a.map (·.blk)).map (·.id) ++ B2a.map (·.blk.id)⟩ := by rw [hid]
  rw [start, runSB_irrs]
  simp only [Option.bind_some]
  rw [hid]
  rcases hzone with hz | hz
  · -- nothing is new-and-final: the consumer keeps its reversible pending blocks and gets the new ones
    subst hz
    simp only [List.map_nil, CS.runSB, Option.bind_some, List.append_nil]
    rw [a3]
    simp only [List.map_nil, List.append_nil] at l2a l2b
    have hl : linkedBlks (topOf (topOf c.lib.id (B1a.map (·.blk.id))) (B2a.map (·.blk.id))) (B2b.map (·.blk)) := by
      have := l2b
      rw [List.map_append, topOf_append, hid, hid] at this
      exact this
    rw [runSB_news _ _ _ hl, hid]
  · -- the consumer's pending blocks are all final: the missed final blocks arrive new-and-irreversible
    subst hz
    simp only [List.map_nil, List.append_nil]
    rw [a2]
    have hl1 : linkedBlks (topOf c.lib.id (B1a.map (·.blk.id))) (B1b.map (·.blk)) := by
      have := l1b; rw [hid] at this; exact this
    rw [runSB_newIrrs _ _ hl1]
    simp only [Option.bind_some]
    rw [a3, hid]
    have hl2 : linkedBlks (topOf (topOf (topOf c.lib.id (B1a.map (·.blk.id))) (B1b.map (·.blk.id))) []) (B2b.map (·.blk)) := by
      have := l2b
      simp only [List.map_nil, List.append_nil, List.map_append] at this
      rw [topOf_append, hid, hid] at this
      simpa using this
    rw [runSB_news _ _ _ hl2, hid, topOf_append]

end BstreamVerif.Props.C05
