import BstreamVerif.Lemmas.IndexInv
import BstreamVerif.Facts
import BstreamVerif.Model.FileSourceSeq
/-!
# C15 — Block indexes find what was indexed; indexed file streaming loses no match
Provider/indexer half first; the file-source half (what `PassesFilter` lets through of one bundle) second.
-/
namespace BstreamVerif.Props.C15
open BstreamVerif.Index BstreamVerif.IndexLemmas BstreamVerif.IndexInv

/-- **Provider**: for an index file covering `base`, `BlocksInRange(base, size)` returns exactly the indexed
    blocks carrying a wanted key inside `[max base fsb, base+size)`, in ascending order. -/
theorem blocksInRange_spec (files : List IndexFile) (want : Key → Bool) (p : Provider) (base bundle : Nat)
    (f : IndexFile) (hb : bundle ≠ 0) (hmod : base % bundle = 0)
    (hnotLoaded : ¬ (base ≥ p.loadedLow ∧ base + bundle ≤ p.loadedHigh))
    (hf : findIndex files p.sizes base bundle = some f) :
    (blocksInRange files want p base bundle).2 =
      some ((matchingOf want f).filter (fun n => decide (max base p.fsb ≤ n) && decide (n < base + bundle))) := by
  unfold blocksInRange
  have h0 : (bundle == 0) = false := by simp [hb]
  have h1 : (base % bundle != 0) = false := by simp [hmod]
  have h2 : (decide (base ≥ p.loadedLow) && decide (base + bundle ≤ p.loadedHigh)) = false := by
    simp only [Bool.and_eq_false_iff, decide_eq_false_iff_not]
    by_cases hx : base ≥ p.loadedLow
    · right; exact fun hy => hnotLoaded ⟨hx, hy⟩
    · left; exact hx
  simp only [h0, Bool.false_eq_true, if_false, h1, h2, hf]
  rw [scan_eq_filter _ _ _ (matchingOf_asc want f)]

/-- membership form: `n` is returned iff it lies in the window and some wanted key's bitmap of that file has it -/
theorem blocksInRange_mem (files : List IndexFile) (want : Key → Bool) (p : Provider) (base bundle : Nat)
    (f : IndexFile) (hb : bundle ≠ 0) (hmod : base % bundle = 0)
    (hnotLoaded : ¬ (base ≥ p.loadedLow ∧ base + bundle ≤ p.loadedHigh))
    (hf : findIndex files p.sizes base bundle = some f) (n : Nat) :
    (∃ l, (blocksInRange files want p base bundle).2 = some l ∧ n ∈ l) ↔
      (max base p.fsb ≤ n ∧ n < base + bundle ∧ ∃ kb ∈ f.kv, want kb.1 = true ∧ n ∈ kb.2) := by
  rw [blocksInRange_spec files want p base bundle f hb hmod hnotLoaded hf]
  simp only [Option.some.injEq, exists_eq_left', List.mem_filter, matchingOf_mem, Bool.and_eq_true, decide_eq_true_eq]
  constructor
  · rintro ⟨h1, h2, h3⟩; exact ⟨h2, h3, h1⟩
  · rintro ⟨h1, h2, h3⟩; exact ⟨h3, h1, h2⟩

/-- results are strictly ascending (each block once) -/
theorem blocksInRange_ascending (files : List IndexFile) (want : Key → Bool) (p : Provider) (base bundle : Nat)
    (f : IndexFile) (hb : bundle ≠ 0) (hmod : base % bundle = 0)
    (hnotLoaded : ¬ (base ≥ p.loadedLow ∧ base + bundle ≤ p.loadedHigh))
    (hf : findIndex files p.sizes base bundle = some f) :
    ∃ l, (blocksInRange files want p base bundle).2 = some l ∧ l.Pairwise (· < ·) := by
  refine ⟨_, blocksInRange_spec files want p base bundle f hb hmod hnotLoaded hf, ?_⟩
  exact List.Pairwise.filter _ (matchingOf_asc want f)

/-- the upper bound is exclusive: `base+size` itself is never returned (the statement F-C15 violated) -/
theorem upper_bound_exclusive (lo hi : Nat) (l : Bitmap) : hi ∉ scan lo hi l := by
  induction l with
  | nil => simp [scan]
  | cons x xs ih =>
    unfold scan
    split
    · exact ih
    · split
      · simp
      · rename_i h1 h2
        simp only [List.mem_cons, not_or]
        exact ⟨by omega, ih⟩

/-- **Indexer**: every index file written while feeding strictly ascending blocks that start on an index boundary
    holds, for every key, exactly the fed blocks of its range carrying that key. -/
theorem written_files_exact (size fsb : Nat) (hs : 0 < size) (a : Nat × List Key) (rest : Adds) (h0 : a.1 % size = 0)
    (hasc : (a :: rest).Pairwise (fun x y => x.1 < y.1)) :
    ∀ f ∈ (runAdds (initIx size fsb) (a :: rest)).written, ∀ k m,
      m ∈ kvGet f.kv k ↔ (f.low ≤ m ∧ m < f.low + size ∧ ∃ ks, (m, ks) ∈ a :: rest ∧ k ∈ ks) := by
  intro f hf k m
  exact ((inv_run size fsb hs a rest h0 hasc).files f hf).2 k m



/-- adding keys for a block (restated from the lemma library): membership after one `Add` -/
theorem add_membership (keys : List Key) (kv : KV) (k' : Key) (n m : Nat) :
    m ∈ kvGet (keys.foldl (fun acc k => kvAdd acc k n) kv) k' ↔ (k' ∈ keys ∧ m = n) ∨ m ∈ kvGet kv k' :=
  kvAddAll_get keys kv k' n m

/-! Non-vacuity: index size 10 spanning two bundles of 5; the window [10,15) excludes 15 (F-C15's input). -/
example : scan 10 15 [10, 11, 12, 13, 14, 15, 16] = [10, 11, 12, 13, 14] := by decide

/-! ## File-source half: what one bundle delivers under an index result

`streamFile` with `filtered = some l` is the model of `streamReader` + `incomingBlocksFile.PassesFilter` (compared with
the real file source by the `indexsrc` suite). `l` is what `lookupBlockIndex` hands over: the provider's matches of
the bundle merged with the start, stop and whitelisted numbers, ascending. -/
section FileSource
open BstreamVerif BstreamVerif.FileSourceSeq

/-- the stored blocks of the file the source looks at (at or above the start block and the bundle base) -/
def eligible (cfg : Cfg) (base : Nat) (blocks : List Blk) : List Blk :=
  blocks.filter (fun b => decide (cfg.start ≤ b.num) && decide (base ≤ b.num))

/-- closed form of the delivery: a block passes iff it consumes at least one wanted number -/
def deliverF : List Nat → List Blk → List Blk
  | _, [] => []
  | r, b :: rest =>
    if (r.dropWhile (fun w => decide (b.num ≥ w))).length < r.length
    then b :: deliverF (r.dropWhile (fun w => decide (b.num ≥ w))) rest
    else deliverF (r.dropWhile (fun w => decide (b.num ≥ w))) rest

theorem streamFile_filtered (cfg : Cfg) (base : Nat) (l : List Nat) (blocks : List Blk) (last : Id) (acc : List Blk) :
    (streamFile cfg false base (some l) blocks last none acc).1 = acc ++ deliverF l (eligible cfg base blocks) ∧
    (streamFile cfg false base (some l) blocks last none acc).2.2.2 = none := by
  induction blocks generalizing l last acc with
  | nil => simp [streamFile, eligible, deliverF]
  | cons b rest ih =>
    unfold streamFile
    by_cases h1 : b.num < cfg.start
    · simp only [h1, if_true]
      have hel : eligible cfg base (b :: rest) = eligible cfg base rest := by
        unfold eligible; rw [List.filter_cons_of_neg]; simp; omega
      rw [hel]; exact ih l last acc
    · simp only [h1, if_false]
      by_cases h2 : b.num < base
      · simp only [h2, if_true]
        have hel : eligible cfg base (b :: rest) = eligible cfg base rest := by
          unfold eligible; rw [List.filter_cons_of_neg]; simp; omega
        rw [hel]; exact ih l last acc
      · simp only [h2, if_false]
        have hel : eligible cfg base (b :: rest) = b :: eligible cfg base rest := by
          unfold eligible; rw [List.filter_cons_of_pos]; simp; omega
        rw [hel]
        simp only [passesFilter]
        by_cases hp : (l.dropWhile (fun w => decide (b.num ≥ w))).length < l.length
        · have hd : deliverF l (b :: eligible cfg base rest)
              = b :: deliverF (l.dropWhile (fun w => decide (b.num ≥ w))) (eligible cfg base rest) := by
            rw [deliverF, if_pos hp]
          rw [hd]
          simp only [hp, decide_true, Bool.not_true, Bool.false_and, Bool.false_eq_true, if_false]
          have := ih (l.dropWhile (fun w => decide (b.num ≥ w))) b.id (acc ++ [b])
          simpa [List.append_assoc] using this
        · have hd : deliverF l (b :: eligible cfg base rest)
              = deliverF (l.dropWhile (fun w => decide (b.num ≥ w))) (eligible cfg base rest) := by
            rw [deliverF, if_neg hp]
          rw [hd]
          simp only [hp, decide_false, Bool.not_false, if_true]
          exact ih _ last acc

theorem deliverF_sublist (r : List Nat) (bs : List Blk) : (deliverF r bs).Sublist bs := by
  induction bs generalizing r with
  | nil => simp [deliverF]
  | cons b rest ih =>
    rw [deliverF]
    split
    · exact (ih _).cons_cons b
    · exact (ih _).cons b

private theorem mem_dropWhile_of_not (p : Nat → Bool) (r : List Nat) (x : Nat) (hx : x ∈ r) (hp : p x = false) :
    x ∈ r.dropWhile p := by
  induction r with
  | nil => cases hx
  | cons h t ih =>
    rw [List.dropWhile_cons]
    split
    · rcases List.mem_cons.mp hx with rfl | hx
      · simp_all
      · exact ih hx
    · exact hx

private theorem dropWhile_gt (c : Nat) (r : List Nat) (hs : r.Pairwise (· ≤ ·)) :
    ∀ x ∈ r.dropWhile (fun w => decide (c ≥ w)), c < x := by
  induction r with
  | nil => intro x hx; cases hx
  | cons h t ih =>
    intro x hx
    rw [List.dropWhile_cons] at hx
    split at hx
    · exact ih (List.pairwise_cons.mp hs).2 x hx
    · rename_i hh
      have hh' : c < h := by simpa using hh
      rcases List.mem_cons.mp hx with rfl | hx
      · exact hh'
      · have := (List.pairwise_cons.mp hs).1 x hx; omega

private theorem dropWhile_pairwise (p : Nat → Bool) (r : List Nat) (hs : r.Pairwise (· ≤ ·)) :
    (r.dropWhile p).Pairwise (· ≤ ·) :=
  hs.sublist (List.dropWhile_sublist p)

/-- **No match is lost**: every stored block of the bundle whose number is wanted is delivered
    (`l` ascending, block numbers ascending within the file). -/
theorem deliverF_complete (r : List Nat) (bs : List Blk) (hs : r.Pairwise (· ≤ ·))
    (hb : bs.Pairwise (fun a b => a.num < b.num)) (b : Blk) (hmem : b ∈ bs) (hw : b.num ∈ r) :
    b ∈ deliverF r bs := by
  induction bs generalizing r with
  | nil => cases hmem
  | cons c rest ih =>
    have hb' := List.pairwise_cons.mp hb
    rw [deliverF]
    rcases List.mem_cons.mp hmem with rfl | hm
    · -- the head of r is ≤ b.num, so it is consumed
      have hlt : (r.dropWhile (fun w => decide (b.num ≥ w))).length < r.length := by
        cases r with
        | nil => cases hw
        | cons h t =>
          have hh : h ≤ b.num := by
            rcases List.mem_cons.mp hw with e | hw
            · omega
            · exact (List.pairwise_cons.mp hs).1 _ hw
          rw [List.dropWhile_cons, if_pos (by simpa using hh)]
          have := (List.dropWhile_sublist (fun w => decide (b.num ≥ w)) (l := t)).length_le
          simp only [List.length_cons]; omega
      rw [if_pos hlt]; exact List.mem_cons_self
    · have hlt := hb'.1 b hm
      have hw' : b.num ∈ r.dropWhile (fun w => decide (c.num ≥ w)) :=
        mem_dropWhile_of_not _ r b.num hw (by simp; omega)
      have := ih _ (dropWhile_pairwise _ r hs) hb'.2 hm hw'
      split
      · exact List.mem_cons_of_mem _ this
      · exact this

/-- **Nothing besides the matches**: a delivered block is the first stored block at or above some wanted number
    (the wanted block itself, or the next existing block when that number is skipped). -/
theorem deliverF_sound (r : List Nat) (bs : List Blk) (hs : r.Pairwise (· ≤ ·))
    (hb : bs.Pairwise (fun a b => a.num < b.num)) (b : Blk) (hd : b ∈ deliverF r bs) :
    ∃ w ∈ r, w ≤ b.num ∧ ∀ b' ∈ bs, b'.num < b.num → b'.num < w := by
  induction bs generalizing r with
  | nil => simp [deliverF] at hd
  | cons c rest ih =>
    have hb' := List.pairwise_cons.mp hb
    rw [deliverF] at hd
    have tail : b ∈ deliverF (r.dropWhile (fun w => decide (c.num ≥ w))) rest →
        ∃ w ∈ r, w ≤ b.num ∧ ∀ b' ∈ c :: rest, b'.num < b.num → b'.num < w := by
      intro h
      obtain ⟨w, hw, hle, hall⟩ := ih _ (dropWhile_pairwise _ r hs) hb'.2 h
      refine ⟨w, (List.dropWhile_sublist _).subset hw, hle, ?_⟩
      intro b' hb'm hlt
      rcases List.mem_cons.mp hb'm with rfl | hm
      · exact dropWhile_gt _ r hs w hw
      · exact hall b' hm hlt
    split at hd
    · rename_i hlt
      rcases List.mem_cons.mp hd with rfl | hd
      · cases r with
        | nil => simp at hlt
        | cons h t =>
          by_cases hh : h ≤ b.num
          · refine ⟨h, List.mem_cons_self, hh, ?_⟩
            intro b' hb'm hlt'
            rcases List.mem_cons.mp hb'm with rfl | hm
            · omega
            · have := hb'.1 b' hm; omega
          · rw [List.dropWhile_cons, if_neg (by simpa using hh)] at hlt
            simp at hlt
      · exact tail hd
    · exact tail hd

/-- C15, one bundle, at the level of `streamFile`: in stored order and each once (`Sublist`), every wanted stored
    block, and only blocks that are the first stored block at or above a wanted number. -/
theorem indexed_bundle_delivery (cfg : Cfg) (base : Nat) (l : List Nat) (blocks : List Blk) (last : Id)
    (hs : l.Pairwise (· ≤ ·)) (hb : blocks.Pairwise (fun a b => a.num < b.num)) :
    let out := (streamFile cfg false base (some l) blocks last none []).1
    out.Sublist (eligible cfg base blocks) ∧
    (∀ b ∈ eligible cfg base blocks, b.num ∈ l → b ∈ out) ∧
    (∀ b ∈ out, ∃ w ∈ l, w ≤ b.num ∧ ∀ b' ∈ eligible cfg base blocks, b'.num < b.num → b'.num < w) := by
  have h := (streamFile_filtered cfg base l blocks last []).1
  simp only [List.nil_append] at h
  have hb2 : (eligible cfg base blocks).Pairwise (fun a b => a.num < b.num) :=
    hb.sublist List.filter_sublist
  simp only [h]
  exact ⟨deliverF_sublist _ _, fun b hm hw => deliverF_complete _ _ hs hb2 b hm hw,
    fun b hd => deliverF_sound _ _ hs hb2 b hd⟩

/-! ### `tweakRangeIndexResults`: what is handed to `PassesFilter` -/

theorem mem_insertSortedNat (n x : Nat) (l : List Nat) : x ∈ insertSortedNat n l ↔ x = n ∨ x ∈ l := by
  induction l with
  | nil => simp [insertSortedNat]
  | cons h t ih =>
    unfold insertSortedNat
    split
    · simp
    · split
      · rename_i _ he
        have : n = h := by simpa using he
        subst this; simp
      · simp only [List.mem_cons, ih]
        constructor
        · rintro (h1 | h1 | h1) <;> simp [h1]
        · rintro (h1 | h1 | h1) <;> simp [h1]

theorem pairwise_insertSortedNat (n : Nat) (l : List Nat) (hl : l.Pairwise (· < ·)) :
    (insertSortedNat n l).Pairwise (· < ·) := by
  induction l with
  | nil => simp [insertSortedNat]
  | cons h t ih =>
    have hp := List.pairwise_cons.mp hl
    unfold insertSortedNat
    split
    · rename_i hlt
      refine List.pairwise_cons.mpr ⟨?_, hl⟩
      intro y hy
      rcases List.mem_cons.mp hy with rfl | hy
      · exact hlt
      · have := hp.1 y hy; omega
    · split
      · exact hl
      · rename_i h1 h2
        have hne : n ≠ h := by simpa using h2
        refine List.pairwise_cons.mpr ⟨?_, ih hp.2⟩
        intro y hy
        rcases (mem_insertSortedNat n y t).mp hy with rfl | hy
        · omega
        · exact hp.1 y hy

theorem foldl_insertSorted (xs acc : List Nat) (ha : acc.Pairwise (· < ·)) :
    (xs.foldl (fun l n => insertSortedNat n l) acc).Pairwise (· < ·) ∧
    ∀ x, x ∈ xs.foldl (fun l n => insertSortedNat n l) acc ↔ x ∈ xs ∨ x ∈ acc := by
  induction xs generalizing acc with
  | nil => simp [ha]
  | cons y ys ih =>
    simp only [List.foldl_cons]
    obtain ⟨h1, h2⟩ := ih (insertSortedNat y acc) (pairwise_insertSortedNat y acc ha)
    refine ⟨h1, fun x => ?_⟩
    rw [h2, mem_insertSortedNat]
    simp only [List.mem_cons]
    constructor
    · rintro (h | h | h) <;> simp [h]
    · rintro ((h | h) | h) <;> simp [h]

/-- the numbers `tweakRangeIndexResults` may add to the provider's answer for the bundle at `base` -/
def addsOf (cfg : Cfg) (wl : List Nat) (base : Nat) : List Nat :=
  wl.filter (fun w => w ≥ base && w < base + cfg.bundleSize) ++
    (if base ≤ cfg.start && base + cfg.bundleSize > cfg.start then [cfg.start] else []) ++
    (if cfg.stop != 0 && base ≤ cfg.stop && base + cfg.bundleSize > cfg.stop then [cfg.stop] else [])

/-- bounded, sorted, duplicate-free -/
def uniqOf (cfg : Cfg) (all : List Nat) : List Nat :=
  (all.filter (fun b => b ≥ cfg.start && (cfg.stop == 0 || b ≤ cfg.stop))).foldl (fun l n => insertSortedNat n l) []

theorem tweakRange_eq (cfg : Cfg) (wl : List Nat) (base : Nat) (r : Option (List Nat)) :
    tweakRange cfg wl base r =
      if (addsOf cfg wl base).isEmpty then (r, wl.filter (fun w => w ≥ base + cfg.bundleSize))
      else (if (uniqOf cfg (r.getD [] ++ addsOf cfg wl base)).isEmpty then none
            else some (uniqOf cfg (r.getD [] ++ addsOf cfg wl base)), wl.filter (fun w => w ≥ base + cfg.bundleSize)) := rfl

/-- **What the filter list is**: either the provider's answer untouched (nothing to add), or — ascending, each number
    once — the provider's matches and the start / stop / whitelisted numbers of the bundle, cut to `[start, stop]`. -/
theorem tweakRange_spec (cfg : Cfg) (wl : List Nat) (base : Nat) (r : Option (List Nat)) (out : List Nat)
    (h : (tweakRange cfg wl base r).1 = some out) :
    (addsOf cfg wl base = [] ∧ r = some out) ∨
    (out.Pairwise (· < ·) ∧
      ∀ x, x ∈ out ↔ (cfg.start ≤ x ∧ (cfg.stop = 0 ∨ x ≤ cfg.stop)) ∧ (x ∈ r.getD [] ∨ x ∈ addsOf cfg wl base)) := by
  rw [tweakRange_eq] at h
  by_cases he : (addsOf cfg wl base).isEmpty = true
  · rw [if_pos he] at h
    left
    exact ⟨by simpa using he, h⟩
  · rw [if_neg he] at h
    right
    simp only at h
    by_cases hu : (uniqOf cfg (r.getD [] ++ addsOf cfg wl base)).isEmpty = true
    · rw [if_pos hu] at h; cases h
    · rw [if_neg hu] at h
      simp only [Option.some.injEq] at h
      subst h
      obtain ⟨h1, h2⟩ := foldl_insertSorted
        ((r.getD [] ++ addsOf cfg wl base).filter (fun b => b ≥ cfg.start && (cfg.stop == 0 || b ≤ cfg.stop)))
        [] List.Pairwise.nil
      refine ⟨h1, fun x => ?_⟩
      unfold uniqOf
      rw [h2]
      simp only [List.mem_filter, List.mem_append, List.not_mem_nil, or_false, Bool.and_eq_true,
        decide_eq_true_eq, Bool.or_eq_true, beq_iff_eq, ge_iff_le]
      constructor
      · rintro ⟨hm, hb⟩; exact ⟨hb, hm⟩
      · rintro ⟨hb, hm⟩; exact ⟨hm, hb⟩

/-- **No match is lost in a bundle the index covers**: a stored block of the bundle at `base` whose number the
    provider reported (ascending answer `l`) and which lies between start and stop is delivered, whatever the
    whitelist, start and stop add to the list. -/
theorem indexed_bundle_no_match_lost (cfg : Cfg) (wl : List Nat) (base : Nat) (l out : List Nat) (blocks : List Blk)
    (last : Id) (hl : l.Pairwise (· < ·)) (hb : blocks.Pairwise (fun a b => a.num < b.num))
    (h : (tweakRange cfg wl base (some l)).1 = some out)
    (b : Blk) (hm : b ∈ blocks) (hbase : base ≤ b.num) (hstart : cfg.start ≤ b.num)
    (hstop : cfg.stop = 0 ∨ b.num ≤ cfg.stop) (hw : b.num ∈ l) :
    b ∈ (streamFile cfg false base (some out) blocks last none []).1 := by
  have hle : ∀ {r : List Nat}, r.Pairwise (· < ·) → r.Pairwise (· ≤ ·) :=
    fun hr => hr.imp (fun h => Nat.le_of_lt h)
  have hel : b ∈ eligible cfg base blocks := by
    unfold eligible; simp [hm, hbase, hstart]
  rcases tweakRange_spec cfg wl base (some l) out h with ⟨_, he⟩ | ⟨hp, hmem⟩
  · have : l = out := by simpa using he
    subst this
    exact (indexed_bundle_delivery cfg base l blocks last (hle hl) hb).2.1 b hel hw
  · have hin : b.num ∈ out := (hmem b.num).mpr ⟨⟨hstart, hstop⟩, Or.inl (by simpa using hw)⟩
    exact (indexed_bundle_delivery cfg base out blocks last (hle hp) hb).2.1 b hel hin

/-- … **and nothing besides** the matches and the start, stop and whitelisted blocks: a delivered block is the
    first stored block at or above a number the provider reported or that `tweakRangeIndexResults` added. -/
theorem indexed_bundle_only_wanted (cfg : Cfg) (wl : List Nat) (base : Nat) (l out : List Nat) (blocks : List Blk)
    (last : Id) (hl : l.Pairwise (· < ·)) (hb : blocks.Pairwise (fun a b => a.num < b.num))
    (h : (tweakRange cfg wl base (some l)).1 = some out)
    (b : Blk) (hd : b ∈ (streamFile cfg false base (some out) blocks last none []).1) :
    ∃ w, (w ∈ l ∨ w = cfg.start ∨ w = cfg.stop ∨ w ∈ wl) ∧ w ≤ b.num ∧
      ∀ b' ∈ eligible cfg base blocks, b'.num < b.num → b'.num < w := by
  have hle : ∀ {r : List Nat}, r.Pairwise (· < ·) → r.Pairwise (· ≤ ·) :=
    fun hr => hr.imp (fun h => Nat.le_of_lt h)
  rcases tweakRange_spec cfg wl base (some l) out h with ⟨_, he⟩ | ⟨hp, hmem⟩
  · have : l = out := by simpa using he
    subst this
    obtain ⟨w, hw, h1, h2⟩ := (indexed_bundle_delivery cfg base l blocks last (hle hl) hb).2.2 b hd
    exact ⟨w, Or.inl hw, h1, h2⟩
  · obtain ⟨w, hw, h1, h2⟩ := (indexed_bundle_delivery cfg base out blocks last (hle hp) hb).2.2 b hd
    refine ⟨w, ?_, h1, h2⟩
    rcases ((hmem w).mp hw).2 with hx | hx
    · exact Or.inl (by simpa using hx)
    · unfold addsOf at hx
      simp only [List.mem_append, List.mem_filter] at hx
      rcases hx with (hx | hx) | hx
      · exact Or.inr (Or.inr (Or.inr hx.1))
      · split at hx
        · exact Or.inr (Or.inl (by simpa using hx))
        · cases hx
      · split at hx
        · exact Or.inr (Or.inr (Or.inl (by simpa using hx)))
        · cases hx

/-! Non-vacuity: bundle 10..19 with 13 skipped; wanted 12, 13, 17: delivers 12, 14 (next existing after 13), 17. -/
example :
    let blk (n : Nat) : Blk := { id := toString n, parent := toString (n - 1), num := n, lib := 0 }
    ((streamFile { start := 11, stop := 0, bundleSize := 10, whitelist := [] } false 10 (some [12, 13, 17])
        ([10, 11, 12, 14, 15, 16, 17, 18].map blk) "" none []).1.map (·.num)) = [12, 14, 17] := by decide

end FileSource

/-- **tie by translation**: `lowBoundary` of transform/block_index_helpers.go (the range an index file covers),
    translated from the source on every run, is the model's -/
theorem index_lowBoundary_translated (i m : Nat) :
    BstreamVerif.Facts.Gen.indexLowBoundary i m = BstreamVerif.Index.lowBoundary i m := rfl

end BstreamVerif.Props.C15
