import BstreamVerif.Lemmas.IndexInv
/-!
# C15 — Block indexes find what was indexed; indexed file streaming loses no match
Provider/indexer half (the file-source half is in the second part of this file once `FileSourceSeq` is in).
-/
namespace BstreamVerif.Props.C15
open BstreamVerif.Index BstreamVerif.IndexLemmas BstreamVerif.IndexInv

/-- **Provider**: for an index file covering `base`, `BlocksInRange(base, size)` returns exactly the indexed
    blocks carrying a wanted key inside `[max base fsb, base+size)`, in ascending order. -/
theorem blocksInRange_spec (files : List IndexFile) (want : Key → Bool) (p : Provider) (base bundle : Nat)
    (f : IndexFile) (hb : bundle ≠ 0) (hmod : base % bundle = 0)
    (hnotLoaded : ¬ (base ≥ p.loadedLow ∧ base + bundle ≤ p.loadedHigh))
    (hf : findIndex files p.sizes base bundle = some f) :
    (blocksInRange files want p base bundle).2 =
      some ((matchingOf want f).filter (fun n => decide (max base p.fsb ≤ n) && decide (n < base + bundle))) := by
  unfold blocksInRange
  have h0 : (bundle == 0) = false := by simp [hb]
  have h1 : (base % bundle != 0) = false := by simp [hmod]
  have h2 : (decide (base ≥ p.loadedLow) && decide (base + bundle ≤ p.loadedHigh)) = false := by
    simp only [Bool.and_eq_false_iff, decide_eq_false_iff_not]
    by_cases hx : base ≥ p.loadedLow
    · right; exact fun hy => hnotLoaded ⟨hx, hy⟩
    · left; exact hx
  simp only [h0, Bool.false_eq_true, if_false, h1, h2, hf]
  rw [scan_eq_filter _ _ _ (matchingOf_asc want f)]

/-- membership form: `n` is returned iff it lies in the window and some wanted key's bitmap of that file has it -/
theorem blocksInRange_mem (files : List IndexFile) (want : Key → Bool) (p : Provider) (base bundle : Nat)
    (f : IndexFile) (hb : bundle ≠ 0) (hmod : base % bundle = 0)
    (hnotLoaded : ¬ (base ≥ p.loadedLow ∧ base + bundle ≤ p.loadedHigh))
    (hf : findIndex files p.sizes base bundle = some f) (n : Nat) :
    (∃ l, (blocksInRange files want p base bundle).2 = some l ∧ n ∈ l) ↔
      (max base p.fsb ≤ n ∧ n < base + bundle ∧ ∃ kb ∈ f.kv, want kb.1 = true ∧ n ∈ kb.2) := by
  rw [blocksInRange_spec files want p base bundle f hb hmod hnotLoaded hf]
  simp only [Option.some.injEq, exists_eq_left', List.mem_filter, matchingOf_mem, Bool.and_eq_true, decide_eq_true_eq]
  constructor
  · rintro ⟨h1, h2, h3⟩; exact ⟨h2, h3, h1⟩
  · rintro ⟨h1, h2, h3⟩; exact ⟨h3, h1, h2⟩

/-- results are strictly ascending (each block once) -/
theorem blocksInRange_ascending (files : List IndexFile) (want : Key → Bool) (p : Provider) (base bundle : Nat)
    (f : IndexFile) (hb : bundle ≠ 0) (hmod : base % bundle = 0)
    (hnotLoaded : ¬ (base ≥ p.loadedLow ∧ base + bundle ≤ p.loadedHigh))
    (hf : findIndex files p.sizes base bundle = some f) :
    ∃ l, (blocksInRange files want p base bundle).2 = some l ∧ l.Pairwise (· < ·) := by
  refine ⟨_, blocksInRange_spec files want p base bundle f hb hmod hnotLoaded hf, ?_⟩
  exact List.Pairwise.filter _ (matchingOf_asc want f)

/-- the upper bound is exclusive: `base+size` itself is never returned (the statement F-C15 violated) -/
theorem upper_bound_exclusive (lo hi : Nat) (l : Bitmap) : hi ∉ scan lo hi l := by
  induction l with
  | nil => simp [scan]
  | cons x xs ih =>
    unfold scan
    split
    · exact ih
    · split
      · simp
      · rename_i h1 h2
        simp only [List.mem_cons, not_or]
        exact ⟨by omega, ih⟩

/-- **Indexer**: every index file written while feeding strictly ascending blocks that start on an index boundary
    holds, for every key, exactly the fed blocks of its range carrying that key. -/
theorem written_files_exact (size fsb : Nat) (hs : 0 < size) (a : Nat × List Key) (rest : Adds) (h0 : a.1 % size = 0)
    (hasc : (a :: rest).Pairwise (fun x y => x.1 < y.1)) :
    ∀ f ∈ (runAdds (initIx size fsb) (a :: rest)).written, ∀ k m,
      m ∈ kvGet f.kv k ↔ (f.low ≤ m ∧ m < f.low + size ∧ ∃ ks, (m, ks) ∈ a :: rest ∧ k ∈ ks) := by
  intro f hf k m
  exact ((inv_run size fsb hs a rest h0 hasc).files f hf).2 k m



/-- adding keys for a block (restated from the lemma library): membership after one `Add` -/
theorem add_membership (keys : List Key) (kv : KV) (k' : Key) (n m : Nat) :
    m ∈ kvGet (keys.foldl (fun acc k => kvAdd acc k n) kv) k' ↔ (k' ∈ keys ∧ m = n) ∨ m ∈ kvGet kv k' :=
  kvAddAll_get keys kv k' n m

/-! Non-vacuity: index size 10 spanning two bundles of 5; the window [10,15) excludes 15 (F-C15's input). -/
example : scan 10 15 [10, 11, 12, 13, 14, 15, 16] = [10, 11, 12, 13, 14] := by decide

end BstreamVerif.Props.C15
