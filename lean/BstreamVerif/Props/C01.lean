import BstreamVerif.Lemmas.ForkStep
import BstreamVerif.Lemmas.Discovery
import BstreamVerif.Lemmas.Inclusive
import BstreamVerif.Lemmas.StackConsumer
/-!
# C01 — Undo/New discipline: a consumer always holds one valid parent-linked chain

Model: `Forkable.processBlock` (`Model/Forkable.lean`, `Model/ForkDB.lean`), tied to `/repo/forkable` by the
`forkable` correspondence suite. The consumer is `Forkable.CS`: it pushes on New (the block must name the current
tip, or the LIB when nothing is pending, as its parent), pops on Undo (the block must be the current tip) and drops
its oldest pending block on Irreversible.

Main theorem: `history_discipline_consistent` — hypotheses on the *input* only: the blocks of the history come from
one consistent block tree (`UOK`: ids identify blocks, non-empty ids, heights grow along parent links) and LIB
declarations name the height of a stored ancestor (`LibHistOK`); the forkable knows its LIB and does not wait for an
inclusive starting block (`Inv`, established by `init_inv`/`init_inv2` for an exclusive starting LIB); the handler
sees New, Undo and Irreversible. `step_discipline`/`history_discipline` are the same statements with the state-side
hypothesis `SentClosed` ("a delivered block was delivered together with its ancestors above the LIB") in place of the
universe; `Lemmas/SentInv` proves `SentClosed` from the universe (a purged block can only come back below the LIB,
where it is dropped). Every hypothesis has a Boolean check with a soundness theorem (`Lemmas/StepCheckSound`), used
for the non-vacuity example and by the driver's coverage counters. LIB discovery and the inclusive starting block
are covered by the correspondence and the trace monitors only.
-/
namespace BstreamVerif.Props.C01
open BstreamVerif BstreamVerif.Forkable BstreamVerif.ForkDB

/-- hypotheses on one step -/
def StepOK (s : FState) (b : Blk) : Prop :=
  (s.includeInit = false ∨ s.lastSent.isSome = true ∨ b.id ≠ s.db.libRef.id) ∧
  SentClosed s.db ∧ WFin b ∧ HB s.db b ∧ LibDeclOK s.db b

/-- hypotheses along a history -/
def HistOK (cfg : Config) : FState → List Blk → Prop
  | _, [] => True
  | s, b :: r => StepOK s b ∧ HistOK cfg (processBlock cfg s b none).1 r

/-- **one incoming block** (whatever it is: new head, fork block, duplicate, orphan, block below the LIB):
    the delivered events keep the consumer on one parent-linked chain resting on the LIB — every New names the
    current tip as parent, every Undo is the current tip, every Irreversible is the oldest pending block — and the
    consumer ends exactly on the chain from the LIB to the last block sent. -/
theorem step_discipline (cfg : Config) (hnew : cfg.matches .new = true) (hundo : cfg.matches .undo = true)
    (hirr : cfg.matches .irreversible = true) (s : FState) (P : List Id) (b : Blk)
    (hI : Inv s P) (hok : StepOK s b) :
    ∃ P', (⟨s.db.libRef.id, P⟩ : CS).run (processBlock cfg s b none).2.1 =
        some ⟨(processBlock cfg s b none).1.db.libRef.id, P'⟩ ∧
      Inv (processBlock cfg s b none).1 P' :=
  let ⟨P', h1, h2, _, _, _⟩ := processBlock_step cfg hnew hundo hirr s P b hI hok.1 hok.2.1 hok.2.2.1 hok.2.2.2.1 hok.2.2.2.2
  ⟨P', h1, h2⟩

theorem runHistory_cons (cfg : Config) (s : FState) (b : Blk) (r : List Blk) :
    runHistory cfg s (b :: r) =
      ((runHistory cfg (processBlock cfg s b none).1 r).1,
       (processBlock cfg s b none).2.1 ++ (runHistory cfg (processBlock cfg s b none).1 r).2) := by
  have gen : ∀ (r : List Blk) (s : FState) (acc : List Event),
      r.foldl (fun (acc : FState × List Event) b =>
        ((processBlock cfg acc.1 b none).1, acc.2 ++ (processBlock cfg acc.1 b none).2.1)) (s, acc) =
      ((runHistory cfg s r).1, acc ++ (runHistory cfg s r).2) := by
    intro r
    induction r with
    | nil => intro s acc; simp [runHistory]
    | cons x t ih =>
      intro s acc
      simp only [List.foldl_cons]
      rw [ih]
      unfold runHistory
      simp only [List.foldl_cons, List.nil_append]
      rw [ih (processBlock cfg s x none).1 (processBlock cfg s x none).2.1]
      simp [runHistory]
  unfold runHistory
  simp only [List.foldl_cons, List.nil_append]
  exact gen r _ _

/-- **every history**: for any order, duplication, gaps or forking of the incoming blocks (within `HistOK`) the
    whole event stream is accepted by the push/pop consumer, which always holds the chain from the LIB to the last
    block sent. By induction over the history: no bound on its length or on the shape of the tree. -/
theorem history_discipline (cfg : Config) (hnew : cfg.matches .new = true) (hundo : cfg.matches .undo = true)
    (hirr : cfg.matches .irreversible = true) (h : List Blk) (s : FState) (P : List Id)
    (hI : Inv s P) (hok : HistOK cfg s h) :
    ∃ P', (⟨s.db.libRef.id, P⟩ : CS).run (runHistory cfg s h).2 =
        some ⟨(runHistory cfg s h).1.db.libRef.id, P'⟩ ∧ Inv (runHistory cfg s h).1 P' := by
  induction h generalizing s P with
  | nil => exact ⟨P, rfl, hI⟩
  | cons b r ih =>
    obtain ⟨P1, hrun1, hI1⟩ := step_discipline cfg hnew hundo hirr s P b hI hok.1
    obtain ⟨P2, hrun2, hI2⟩ := ih _ P1 hI1 hok.2
    rw [runHistory_cons]
    refine ⟨P2, ?_, hI2⟩
    simp only
    rw [run_append, hrun1]
    exact hrun2

/-! ### the same for every history drawn from a consistent set of blocks: no hypothesis on the states any more -/

/-- LIB declarations along a history resolve to stored ancestors carrying their real number -/
def LibHistOK (cfg : Config) : FState → List Blk → Prop
  | _, [] => True
  | s, b :: r => LibDeclOK s.db b ∧ LibHistOK cfg (processBlock cfg s b none).1 r

/-- **one incoming block drawn from a consistent universe** -/
theorem step_discipline_consistent (cfg : Config) (hnew : cfg.matches .new = true) (hundo : cfg.matches .undo = true)
    (hirr : cfg.matches .irreversible = true) (U : Id → Option Blk) (hU : UOK U) (F : List Id)
    (s : FState) (P : List Id) (b : Blk) (hI : Inv s P) (hJ : Inv2 U F s.db) (hbU : U b.id = some b)
    (hL : LibDeclOK s.db b) (hni : s.includeInit = false ∨ s.lastSent.isSome = true ∨ b.id ≠ s.db.libRef.id) :
    ∃ P' F', (⟨s.db.libRef.id, P⟩ : CS).run (processBlock cfg s b none).2.1 =
        some ⟨(processBlock cfg s b none).1.db.libRef.id, P'⟩ ∧
      Inv (processBlock cfg s b none).1 P' ∧ Inv2 U F' (processBlock cfg s b none).1.db ∧
      (((processBlock cfg s b none).2.1 = [] ∧ (processBlock cfg s b none).1.lastSent = s.lastSent) ∨
        (processBlock cfg s b none).1.lastSent.isSome = true) := by
  obtain ⟨P', h1, h2, h3, h4, _⟩ := processBlock_step cfg hnew hundo hirr s P b hI hni
    (sentClosed_of_inv2 U F s.db hI.wf hI.heights hJ) (hU.wf b.id b hbU) (hb_of_inv2 U hU F s.db hJ b hbU) hL
  obtain ⟨F', hJ'⟩ := h4 U F hU hJ hbU
  refine ⟨P', F', h1, h2, hJ', ?_⟩
  rcases h3 with h | ⟨_, _, l, hl, _⟩
  · exact Or.inl h
  · exact Or.inr (by rw [hl]; rfl)

/-- **every history of blocks of one consistent block tree** — any order, duplicates, gaps, forks, orphans, blocks
    below the LIB, blocks arriving before their parents: the whole event stream keeps the push/pop consumer on one
    parent-linked chain resting on the LIB. The only hypotheses are about the *input*: the blocks come from a set in
    which ids identify blocks and heights grow along parent links (`UOK`), and LIB declarations name the height of an
    ancestor (`LibHistOK`). -/
theorem history_discipline_consistent (cfg : Config) (hnew : cfg.matches .new = true) (hundo : cfg.matches .undo = true)
    (hirr : cfg.matches .irreversible = true) (U : Id → Option Blk) (hU : UOK U) (h : List Blk) (F : List Id)
    (s : FState) (P : List Id) (hI : Inv s P) (hJ : Inv2 U F s.db) (hin : ∀ b ∈ h, U b.id = some b)
    (hL : LibHistOK cfg s h) (hincl : s.includeInit = false ∨ s.lastSent.isSome = true) :
    ∃ P', (⟨s.db.libRef.id, P⟩ : CS).run (runHistory cfg s h).2 =
        some ⟨(runHistory cfg s h).1.db.libRef.id, P'⟩ ∧ Inv (runHistory cfg s h).1 P' := by
  induction h generalizing s P F with
  | nil => exact ⟨P, rfl, hI⟩
  | cons b r ih =>
    have hni : s.includeInit = false ∨ s.lastSent.isSome = true ∨ b.id ≠ s.db.libRef.id := by
      rcases hincl with h | h
      · exact Or.inl h
      · exact Or.inr (Or.inl h)
    obtain ⟨P1, F1, hrun1, hI1, hJ1, htip⟩ :=
      step_discipline_consistent cfg hnew hundo hirr U hU F s P b hI hJ (hin b (by simp)) hL.1 hni
    obtain ⟨P2, hrun2, hI2⟩ := ih F1 _ P1 hI1 hJ1 (fun x hx => hin x (by simp [hx])) hL.2
      (by rcases hincl with h | h
          · exact Or.inl (by rw [processBlock_includeInit]; exact h)
          · rcases htip with ⟨_, hsame⟩ | hsome
            · exact Or.inr (by rw [hsame]; exact h)
            · exact Or.inr hsome)
    rw [runHistory_cons]
    refine ⟨P2, ?_, hI2⟩
    simp only
    rw [run_append, hrun1]
    exact hrun2

/-- the same induction, keeping both invariants of the final state: what a later stage (a subscriber joining the hub,
    C07) needs to continue from it -/
theorem history_invariants_consistent (cfg : Config) (hnew : cfg.matches .new = true) (hundo : cfg.matches .undo = true)
    (hirr : cfg.matches .irreversible = true) (U : Id → Option Blk) (hU : UOK U) (h : List Blk) (F : List Id)
    (s : FState) (P : List Id) (hI : Inv s P) (hJ : Inv2 U F s.db) (hin : ∀ b ∈ h, U b.id = some b)
    (hL : LibHistOK cfg s h) (hincl : s.includeInit = false ∨ s.lastSent.isSome = true) :
    ∃ P' F', Inv (runHistory cfg s h).1 P' ∧ Inv2 U F' (runHistory cfg s h).1.db := by
  induction h generalizing s P F with
  | nil => exact ⟨P, F, hI, hJ⟩
  | cons b r ih =>
    have hni : s.includeInit = false ∨ s.lastSent.isSome = true ∨ b.id ≠ s.db.libRef.id := by
      rcases hincl with h | h
      · exact Or.inl h
      · exact Or.inr (Or.inl h)
    obtain ⟨P1, F1, _, hI1, hJ1, htip⟩ :=
      step_discipline_consistent cfg hnew hundo hirr U hU F s P b hI hJ (hin b (by simp)) hL.1 hni
    obtain ⟨P2, F2, hI2, hJ2⟩ := ih F1 _ P1 hI1 hJ1 (fun x hx => hin x (by simp [hx])) hL.2
      (by rcases hincl with h | h
          · exact Or.inl (by rw [processBlock_includeInit]; exact h)
          · rcases htip with ⟨_, hsame⟩ | hsome
            · exact Or.inr (by rw [hsame]; exact h)
            · exact Or.inr hsome)
    rw [runHistory_cons]
    exact ⟨P2, F2, hI2, hJ2⟩

theorem headU_step (cfg : Config) (hnew : cfg.matches .new = true) (hundo : cfg.matches .undo = true)
    (hirr : cfg.matches .irreversible = true) (U : Id → Option Blk) (hU : UOK U) (F : List Id)
    (s : FState) (P : List Id) (b : Blk) (hI : Inv s P) (hJ : Inv2 U F s.db) (hbU : U b.id = some b)
    (hL : LibDeclOK s.db b) (hni : s.includeInit = false ∨ s.lastSent.isSome = true ∨ b.id ≠ s.db.libRef.id)
    (hH : HeadU U s) : HeadU U (processBlock cfg s b none).1 := by
  obtain ⟨_, _, _, h3, _, _⟩ := processBlock_step cfg hnew hundo hirr s P b hI hni
    (sentClosed_of_inv2 U F s.db hI.wf hI.heights hJ) (hU.wf b.id b hbU) (hb_of_inv2 U hU F s.db hJ b hbU) hL
  intro l hl
  rcases h3 with ⟨_, hsame⟩ | ⟨_, _, l', hl', href⟩
  · rw [hsame] at hl; exact hH l hl
  · rw [hl'] at hl
    have : l' = l := Option.some.inj hl
    subst this
    have hid : l'.id = b.id := by have := congrArg Ref.id href; simpa [Blk.ref] using this
    have hn : l'.num = b.num := by have := congrArg Ref.num href; simpa [Blk.ref] using this
    exact ⟨b, by rw [hid]; exact hbU, hn.symm⟩

/-- the head block carries the number under which it is stored (the side condition `hnum` of the state-level theorems
    of C05 and C07): it follows from the invariants along any history -/
theorem head_num_of_invariants (U : Id → Option Blk) (hU : UOK U) (F : List Id) (s : FState) (hJ : Inv2 U F s.db)
    (hH : HeadU U s) (l : Blk) (hl : s.lastSent = some l) (e : Entry) (he : s.db.find l.id = some e) :
    e.blk.num = l.num := by
  obtain ⟨b, hb, hn⟩ := hH l hl
  have hin := hJ.inU e (find_mem s.db _ e he)
  rw [find_id s.db _ e he, hb] at hin
  have : b = e.blk := Option.some.inj hin
  rw [← this]; exact hn

/-- the three invariants along a whole history -/
theorem history_all_invariants_consistent (cfg : Config) (hnew : cfg.matches .new = true) (hundo : cfg.matches .undo = true)
    (hirr : cfg.matches .irreversible = true) (U : Id → Option Blk) (hU : UOK U) (h : List Blk) (F : List Id)
    (s : FState) (P : List Id) (hI : Inv s P) (hJ : Inv2 U F s.db) (hH : HeadU U s) (hin : ∀ b ∈ h, U b.id = some b)
    (hL : LibHistOK cfg s h) (hincl : s.includeInit = false ∨ s.lastSent.isSome = true) :
    ∃ P' F', Inv (runHistory cfg s h).1 P' ∧ Inv2 U F' (runHistory cfg s h).1.db ∧ HeadU U (runHistory cfg s h).1 := by
  induction h generalizing s P F with
  | nil => exact ⟨P, F, hI, hJ, hH⟩
  | cons b r ih =>
    have hni : s.includeInit = false ∨ s.lastSent.isSome = true ∨ b.id ≠ s.db.libRef.id := by
      rcases hincl with h | h
      · exact Or.inl h
      · exact Or.inr (Or.inl h)
    obtain ⟨P1, F1, _, hI1, hJ1, htip⟩ :=
      step_discipline_consistent cfg hnew hundo hirr U hU F s P b hI hJ (hin b (by simp)) hL.1 hni
    have hH1 := headU_step cfg hnew hundo hirr U hU F s P b hI hJ (hin b (by simp)) hL.1 hni hH
    obtain ⟨P2, F2, hI2, hJ2, hH2⟩ := ih F1 _ P1 hI1 hJ1 hH1 (fun x hx => hin x (by simp [hx])) hL.2
      (by rcases hincl with h | h
          · exact Or.inl (by rw [processBlock_includeInit]; exact h)
          · rcases htip with ⟨_, hsame⟩ | hsome
            · exact Or.inr (by rw [hsame]; exact h)
            · exact Or.inr hsome)
    rw [runHistory_cons]
    exact ⟨P2, F2, hI2, hJ2, hH2⟩

/-- **C01 as it is stated — the consumer that only pushes on New and pops on Undo.** A forkable with a known LIB, fed
    any history of blocks of one consistent block tree (any order, duplicates, gaps, forks, orphans): a consumer that
    starts on the LIB holding nothing, pushes every block delivered New, pops on every Undo — checking nothing but
    "New extends my tip, Undo is my tip" — and ignores every other event never sees either check fail, and at every
    moment of the stream holds one parent-linked chain rooted at the starting LIB. -/
theorem push_pop_consumer_holds_one_chain (cfg : Config) (hnew : cfg.matches .new = true)
    (hundo : cfg.matches .undo = true) (hirr : cfg.matches .irreversible = true) (U : Id → Option Blk) (hU : UOK U)
    (h : List Blk) (F : List Id) (s : FState) (hI : Inv s []) (hJ : Inv2 U F s.db) (hin : ∀ b ∈ h, U b.id = some b)
    (hL : LibHistOK cfg s h) (hincl : s.includeInit = false ∨ s.lastSent.isSome = true) :
    (∃ c', (⟨s.db.libRef.id, []⟩ : SC).runSB ((runHistory cfg s h).2.map sbOf) = some c' ∧ c'.Chain) ∧
    ∀ pre post, (runHistory cfg s h).2.map sbOf = pre ++ post →
      ∃ c1, (⟨s.db.libRef.id, []⟩ : SC).runSB pre = some c1 ∧ c1.Chain := by
  obtain ⟨P', hrun, _⟩ := history_discipline_consistent cfg hnew hundo hirr U hU h F s [] hI hJ hin hL hincl
  have hf : Follows ⟨s.db.libRef.id, []⟩ ⟨s.db.libRef.id, []⟩ := ⟨[], [], rfl, rfl, rfl⟩
  obtain ⟨c', hr, _, hc⟩ := follows_run _ _ ⟨s.db.libRef.id, []⟩ _ hf trivial hrun
  refine ⟨⟨c', hr, hc⟩, ?_⟩
  intro pre post hsplit
  rw [hsplit] at hr
  exact SC.chain_at_every_moment _ c' pre post trivial hr

/-! ### LIB discovery with hold-until-LIB — the configuration of ForkableHub -/

theorem runHistory_nil (cfg : Config) (s : FState) : runHistory cfg s [] = (s, []) := rfl

/-- **a hold-until-LIB forkable that discovers its LIB** (`forkable.New(h, HoldBlocksUntilLIB(), WithKeptFinalBlocks(n))`,
    as ForkableHub builds it), fed any history of blocks of one consistent block tree: either no LIB is ever found
    and nothing is delivered; or the history splits as `h1 ++ b :: h2` where nothing is delivered during `h1`, the
    block `b` discovers the LIB — the deliveries for it are the chain from the LIB (exclusive) to `b` as New followed
    by the announcement of the LIB block itself (or New `b`, Irreversible `b` when `b` is its own LIB), see
    `DiscoveryStep` — and from then on the whole event stream keeps the push/pop consumer on one parent-linked chain
    resting on the LIB, exactly as for a known LIB. -/
theorem history_discipline_discovery (cfg : Config) (hhold : cfg.hold = true) (hnew : cfg.matches .new = true)
    (hundo : cfg.matches .undo = true) (hirr : cfg.matches .irreversible = true)
    (U : Id → Option Blk) (hU : UOK U) (h : List Blk) (s : FState) (hP : PreInv U s)
    (hin : ∀ b ∈ h, U b.id = some b) (hL : LibHistOK cfg s h) :
    ((runHistory cfg s h).2 = [] ∧ PreInv U (runHistory cfg s h).1) ∨
    (∃ h1 b h2 P', h = h1 ++ b :: h2 ∧ (runHistory cfg s h1).2 = [] ∧
      DiscoveryStep U b (processBlock cfg (runHistory cfg s h1).1 b none).1 (processBlock cfg (runHistory cfg s h1).1 b none).2.1 ∧
      Inv (processBlock cfg (runHistory cfg s h1).1 b none).1 P' ∧
      (runHistory cfg s h).2 = (processBlock cfg (runHistory cfg s h1).1 b none).2.1 ++
        (runHistory cfg (processBlock cfg (runHistory cfg s h1).1 b none).1 h2).2 ∧
      ∃ P'', (⟨(processBlock cfg (runHistory cfg s h1).1 b none).1.db.libRef.id, P'⟩ : CS).run
          (runHistory cfg (processBlock cfg (runHistory cfg s h1).1 b none).1 h2).2 =
          some ⟨(runHistory cfg s h).1.db.libRef.id, P''⟩ ∧ Inv (runHistory cfg s h).1 P'') := by
  induction h generalizing s with
  | nil => exact Or.inl ⟨rfl, hP⟩
  | cons b r ih =>
    have hd := discovery_step cfg hhold hnew hundo hirr U hU s b hP (hin b (by simp)) hL.1
    have hfound : ∀ (P' : List Id) (F : List Id), Inv (processBlock cfg s b none).1 P' →
        Inv2 U F (processBlock cfg s b none).1.db →
        ∃ h1 b' h2 P'', (b :: r) = h1 ++ b' :: h2 ∧ (runHistory cfg s h1).2 = [] ∧
          DiscoveryStep U b' (processBlock cfg (runHistory cfg s h1).1 b' none).1 (processBlock cfg (runHistory cfg s h1).1 b' none).2.1 ∧
          Inv (processBlock cfg (runHistory cfg s h1).1 b' none).1 P'' ∧
          (runHistory cfg s (b :: r)).2 = (processBlock cfg (runHistory cfg s h1).1 b' none).2.1 ++
            (runHistory cfg (processBlock cfg (runHistory cfg s h1).1 b' none).1 h2).2 ∧
          ∃ P3, (⟨(processBlock cfg (runHistory cfg s h1).1 b' none).1.db.libRef.id, P''⟩ : CS).run
              (runHistory cfg (processBlock cfg (runHistory cfg s h1).1 b' none).1 h2).2 =
              some ⟨(runHistory cfg s (b :: r)).1.db.libRef.id, P3⟩ ∧ Inv (runHistory cfg s (b :: r)).1 P3 := by
      intro P' F hI hJ
      obtain ⟨P3, hrun, hI3⟩ := history_discipline_consistent cfg hnew hundo hirr U hU r F _ P' hI hJ
        (fun x hx => hin x (by simp [hx])) hL.2 (Or.inl (by rw [processBlock_includeInit]; exact hP.noInit))
      refine ⟨[], b, r, P', rfl, rfl, hd, hI, by rw [runHistory_cons]; rfl, P3, ?_, ?_⟩
      · rw [runHistory_cons]; exact hrun
      · rw [runHistory_cons]; exact hI3
    rcases hd with ⟨hP', hev⟩ | ⟨_, _, hI, hJ, _⟩ | ⟨Lb, news, _, _, _, hI, hJ, _⟩
    · -- still no LIB: continue with the rest of the history
      rcases ih _ hP' (fun x hx => hin x (by simp [hx])) hL.2 with ⟨he, hPf⟩ | ⟨h1, b', h2, P', heq, he1, hds, hI, hevs, P'', hrun, hIf⟩
      · left
        rw [runHistory_cons]
        exact ⟨by simp only; rw [hev, he]; rfl, hPf⟩
      · right
        refine ⟨b :: h1, b', h2, P', by rw [heq]; rfl, ?_, ?_, ?_, ?_, P'', ?_, ?_⟩
        · rw [runHistory_cons]; simp only; rw [hev, he1]; rfl
        · rw [runHistory_cons]; exact hds
        · rw [runHistory_cons]; exact hI
        · rw [runHistory_cons, runHistory_cons]; simp only; rw [hev, hevs]; rfl
        · rw [runHistory_cons, runHistory_cons]; exact hrun
        · rw [runHistory_cons]; exact hIf
    · exact Or.inr (hfound [] [b.id] hI hJ)
    · exact Or.inr (hfound _ [Lb.id] hI hJ)

/-- the three invariants along a whole history of a hold-until-LIB forkable: either no LIB was found (nothing stored
    as sent, nothing delivered), or the final state satisfies `Inv`, `Inv2` and `HeadU` -/
theorem history_all_invariants_discovery (cfg : Config) (hhold : cfg.hold = true) (hnew : cfg.matches .new = true)
    (hundo : cfg.matches .undo = true) (hirr : cfg.matches .irreversible = true)
    (U : Id → Option Blk) (hU : UOK U) (h : List Blk) (s : FState) (hP : PreInv U s)
    (hin : ∀ b ∈ h, U b.id = some b) (hL : LibHistOK cfg s h) :
    PreInv U (runHistory cfg s h).1 ∨
    ∃ P F, Inv (runHistory cfg s h).1 P ∧ Inv2 U F (runHistory cfg s h).1.db ∧ HeadU U (runHistory cfg s h).1 := by
  induction h generalizing s with
  | nil => exact Or.inl hP
  | cons b r ih =>
    have hd := discovery_step cfg hhold hnew hundo hirr U hU s b hP (hin b (by simp)) hL.1
    rw [runHistory_cons]
    have hafter : ∀ (P : List Id) (F : List Id), Inv (processBlock cfg s b none).1 P →
        Inv2 U F (processBlock cfg s b none).1.db → HeadU U (processBlock cfg s b none).1 →
        ∃ P' F', Inv (runHistory cfg (processBlock cfg s b none).1 r).1 P' ∧
          Inv2 U F' (runHistory cfg (processBlock cfg s b none).1 r).1.db ∧
          HeadU U (runHistory cfg (processBlock cfg s b none).1 r).1 := by
      intro P F hI hJ hH
      exact history_all_invariants_consistent cfg hnew hundo hirr U hU r F _ P hI hJ hH
        (fun x hx => hin x (by simp [hx])) hL.2 (Or.inl (by rw [processBlock_includeInit]; exact hP.noInit))
    rcases hd with ⟨hP', _⟩ | ⟨_, _, hI, hJ, hH, _⟩ | ⟨Lb, news, _, _, _, hI, hJ, hH, _⟩
    · exact ih _ hP' (fun x hx => hin x (by simp [hx])) hL.2
    · exact Or.inr (hafter [] [b.id] hI hJ hH)
    · exact Or.inr (hafter _ [Lb.id] hI hJ hH)

/-- **C01 as it is stated, for the hub's configuration** (no LIB to start with, blocks held until one is discovered):
    either nothing is ever delivered, or there is a block `base` — the discovered LIB, or the parent of a block that is
    its own LIB — such that the consumer that starts on `base` holding nothing, pushes on New and pops on Undo and
    ignores every other event accepts the whole event stream and holds one parent-linked chain rooted at `base`. -/
theorem push_pop_consumer_discovery (cfg : Config) (hhold : cfg.hold = true) (hnew : cfg.matches .new = true)
    (hundo : cfg.matches .undo = true) (hirr : cfg.matches .irreversible = true)
    (U : Id → Option Blk) (hU : UOK U) (h : List Blk) (s : FState) (hP : PreInv U s)
    (hin : ∀ b ∈ h, U b.id = some b) (hL : LibHistOK cfg s h) :
    (runHistory cfg s h).2 = [] ∨
    ∃ base c', (⟨base, []⟩ : SC).runSB ((runHistory cfg s h).2.map sbOf) = some c' ∧ c'.Chain := by
  induction h generalizing s with
  | nil => exact Or.inl rfl
  | cons b r ih =>
    have hd := discovery_step cfg hhold hnew hundo hirr U hU s b hP (hin b (by simp)) hL.1
    rw [runHistory_cons]
    simp only
    -- once the LIB is known: the rest of the history, seen by the push/pop consumer that follows `CS`
    have hrest : ∀ (P : List Id) (F : List Id) (st : SC), Inv (processBlock cfg s b none).1 P →
        Inv2 U F (processBlock cfg s b none).1.db → Follows ⟨(processBlock cfg s b none).1.db.libRef.id, P⟩ st → st.Chain →
        ∃ c', st.runSB ((runHistory cfg (processBlock cfg s b none).1 r).2.map sbOf) = some c' ∧ c'.Chain := by
      intro P F st hI hJ hf hc
      obtain ⟨P', hrun, _⟩ := history_discipline_consistent cfg hnew hundo hirr U hU r F _ P hI hJ
        (fun x hx => hin x (by simp [hx])) hL.2 (Or.inl (by rw [processBlock_includeInit]; exact hP.noInit))
      obtain ⟨c', hr, _, hc'⟩ := follows_run _ _ st _ hf hc hrun
      exact ⟨c', hr, hc'⟩
    rcases hd with ⟨hP', hev⟩ | ⟨hlib, hevs, hI, hJ, _⟩ | ⟨Lb, news, hLid, hevs, hlinked, hI, hJ, _⟩
    · rw [hev, List.nil_append]
      exact ih _ hP' (fun x hx => hin x (by simp [hx])) hL.2
    · -- the block is its own LIB: New b, Irreversible b
      right
      refine ⟨b.parent, ?_⟩
      have hfirst : (⟨b.parent, []⟩ : SC).runSB ((processBlock cfg s b none).2.1.map sbOf) = some ⟨b.parent, [b]⟩ := by
        rw [hevs]
        simp [SC.runSB, SC.apply, SC.top]
      obtain ⟨c', hr, hc'⟩ := hrest [] [b.id] ⟨b.parent, [b]⟩ hI hJ
        ⟨[b], [], rfl, rfl, by rw [hlib]; simp [Blk.ref]⟩ ⟨rfl, trivial⟩
      exact ⟨c', by rw [List.map_append, SC.runSB_append, hfirst]; exact hr, hc'⟩
    · -- the LIB is a stored ancestor: the chain above it is delivered New, then the LIB itself is announced
      right
      refine ⟨Lb.id, ?_⟩
      have hfirst : (⟨Lb.id, []⟩ : SC).runSB ((processBlock cfg s b none).2.1.map sbOf) = some ⟨Lb.id, news⟩ := by
        rw [hevs, SC.runSB_append, SC.run_news Lb.id [] news (by simpa using hlinked)]
        simp only [Option.bind_some, List.nil_append]
        split
        · rfl
        · simp [SC.runSB, SC.apply]
      obtain ⟨c', hr, hc'⟩ := hrest (news.map (·.id)) [Lb.id] ⟨Lb.id, news⟩ hI hJ
        ⟨[], news, rfl, rfl, by rw [← hLid]; rfl⟩ hlinked
      exact ⟨c', by rw [List.map_append, SC.runSB_append, hfirst]; exact hr, hc'⟩

/-! ### the inclusive starting block (`WithInclusiveLIB`) -/

/-- **a forkable started on an inclusive LIB**, fed any history of blocks of one consistent block tree: either nothing is
    ever delivered; or the history splits as `h1 ++ b :: h2` where nothing is delivered during `h1`, the block `b` is the
    first one delivered — either it is the starting block itself, delivered New and announced irreversible at once, or a
    block that the push/pop consumer resting on the starting LIB accepts — and from then on the whole event stream
    keeps the consumer on one parent-linked chain resting on the LIB. -/
theorem history_discipline_inclusive (cfg : Config) (hnew : cfg.matches .new = true) (hundo : cfg.matches .undo = true)
    (hirr : cfg.matches .irreversible = true) (U : Id → Option Blk) (hU : UOK U) (h : List Blk) (F : List Id)
    (s : FState) (hI : Inv s []) (hJ : Inv2 U F s.db) (hincl : s.includeInit = true) (hls : s.lastSent = none)
    (hin : ∀ b ∈ h, U b.id = some b) (hL : LibHistOK cfg s h) :
    ((runHistory cfg s h).2 = [] ∧ (runHistory cfg s h).1.lastSent = none) ∨
    (∃ h1 b h2 P', h = h1 ++ b :: h2 ∧ (runHistory cfg s h1).2 = [] ∧
      ((b.id = (runHistory cfg s h1).1.db.libRef.id ∧ P' = [] ∧
          (processBlock cfg (runHistory cfg s h1).1 b none).2.1.map sbOf = [(Step.new, b), (Step.irreversible, b)]) ∨
        (⟨(runHistory cfg s h1).1.db.libRef.id, []⟩ : CS).run (processBlock cfg (runHistory cfg s h1).1 b none).2.1 =
          some ⟨(processBlock cfg (runHistory cfg s h1).1 b none).1.db.libRef.id, P'⟩) ∧
      Inv (processBlock cfg (runHistory cfg s h1).1 b none).1 P' ∧
      (runHistory cfg s h).2 = (processBlock cfg (runHistory cfg s h1).1 b none).2.1 ++
        (runHistory cfg (processBlock cfg (runHistory cfg s h1).1 b none).1 h2).2 ∧
      ∃ P'', (⟨(processBlock cfg (runHistory cfg s h1).1 b none).1.db.libRef.id, P'⟩ : CS).run
          (runHistory cfg (processBlock cfg (runHistory cfg s h1).1 b none).1 h2).2 =
          some ⟨(runHistory cfg s h).1.db.libRef.id, P''⟩ ∧ Inv (runHistory cfg s h).1 P'') := by
  induction h generalizing s F with
  | nil => exact Or.inl ⟨rfl, hls⟩
  | cons b r ih =>
    -- once something was sent the rest of the history is an ordinary one
    have hrest : ∀ (P' : List Id) (F' : List Id), Inv (processBlock cfg s b none).1 P' →
        Inv2 U F' (processBlock cfg s b none).1.db → (processBlock cfg s b none).1.lastSent.isSome = true →
        ∃ P3, (⟨(processBlock cfg s b none).1.db.libRef.id, P'⟩ : CS).run (runHistory cfg (processBlock cfg s b none).1 r).2 =
            some ⟨(runHistory cfg s (b :: r)).1.db.libRef.id, P3⟩ ∧ Inv (runHistory cfg s (b :: r)).1 P3 := by
      intro P' F' hI' hJ' hsome
      obtain ⟨P3, hrun, hI3⟩ := history_discipline_consistent cfg hnew hundo hirr U hU r F' _ P' hI' hJ'
        (fun x hx => hin x (by simp [hx])) hL.2 (Or.inr hsome)
      exact ⟨P3, by rw [runHistory_cons]; exact hrun, by rw [runHistory_cons]; exact hI3⟩
    by_cases hid : b.id = s.db.libRef.id
    · -- the starting block itself
      obtain ⟨hevs, hlast, hlib, hI', hJ'⟩ :=
        inclusive_root_step cfg hnew hirr U hU F s [] b hI hJ hincl hls (hin b (by simp)) hid
      obtain ⟨P3, hrun, hI3⟩ := hrest [] F hI' hJ' (by rw [hlast]; rfl)
      right
      exact ⟨[], b, r, [], rfl, rfl, Or.inl ⟨hid, rfl, hevs⟩, hI', by rw [runHistory_cons]; rfl, P3, hrun, hI3⟩
    · obtain ⟨P1, F1, hrun1, hI1, hJ1, htip⟩ :=
        step_discipline_consistent cfg hnew hundo hirr U hU F s [] b hI hJ (hin b (by simp)) hL.1 (Or.inr (Or.inr hid))
      rcases htip with ⟨hev, hsame⟩ | hsome
      · -- nothing delivered: still waiting
        have hls' : (processBlock cfg s b none).1.lastSent = none := by rw [hsame]; exact hls
        have hP1 : P1 = [] := (hI1.topNone hls').1
        subst hP1
        rcases ih F1 _ hI1 hJ1 (by rw [processBlock_includeInit]; exact hincl) hls'
            (fun x hx => hin x (by simp [hx])) hL.2 with ⟨he, hl⟩ | ⟨h1, b', h2, P', heq, he1, hfirst, hIb, hevs, P'', hrun, hIf⟩
        · left
          rw [runHistory_cons]
          exact ⟨by simp only; rw [hev, he]; rfl, hl⟩
        · right
          refine ⟨b :: h1, b', h2, P', by rw [heq]; rfl, ?_, ?_, ?_, ?_, P'', ?_, ?_⟩
          · rw [runHistory_cons]; simp only; rw [hev, he1]; rfl
          · rw [runHistory_cons]; exact hfirst
          · rw [runHistory_cons]; exact hIb
          · rw [runHistory_cons, runHistory_cons]; simp only; rw [hev, hevs]; rfl
          · rw [runHistory_cons, runHistory_cons]; exact hrun
          · rw [runHistory_cons]; exact hIf
      · -- an ordinary block was the first one delivered
        obtain ⟨P3, hrun, hI3⟩ := hrest P1 F1 hI1 hJ1 hsome
        right
        exact ⟨[], b, r, P1, rfl, rfl, Or.inr hrun1, hI1, by rw [runHistory_cons]; rfl, P3, hrun, hI3⟩

/-- the invariants hold initially for a forkable started on an inclusive LIB `r` consistent with the universe -/
theorem init_inv_inclusive (cfg : Config) (r : Ref) (hr : r.id ≠ "") (hroot : cfg.root = some (.inclusive r))
    (U : Id → Option Blk)
    (h1 : ∀ b, U b.id = some b → b.parent = r.id → r.num < b.num)
    (h2 : ∀ b, U b.id = some b → b.id = r.id → b.num = r.num) :
    Inv (init cfg) [] ∧ Inv2 U [r.id] (init cfg).db ∧ (init cfg).includeInit = true ∧ (init cfg).lastSent = none := by
  unfold init
  rw [hroot]
  refine ⟨⟨hr, ⟨by simp [DB.initLIB, DB.empty], by simp [DB.initLIB, DB.empty]⟩,
    ⟨by simp [DB.initLIB, DB.empty], by simp [DB.initLIB, DB.empty], by simp [DB.initLIB, DB.empty]⟩,
    trivial, by simp, by simp, by simp, ?_, ?_, ?_, Or.inl rfl⟩, ⟨?_, by simp [DB.initLIB, DB.empty], ?_, by simp [DB.initLIB, DB.empty], h1, h2⟩, rfl, rfl⟩
  · intro _; exact ⟨rfl, by simp [DB.initLIB, DB.empty]⟩
  · intro c cs h; cases h
  · intro i n hin
    simp only [DB.initLIB, DB.empty, Option.some.injEq, Prod.mk.injEq] at hin
    rw [← hin.1]; exact hr
  · intro e he; simp [DB.initLIB, DB.empty] at he
  · intro f hf hne
    simp only [List.mem_singleton] at hf
    exact absurd hf hne

/-- the universe-side invariant holds initially for a forkable started on an exclusive LIB `r` that is consistent
    with the universe (blocks naming `r` as parent are higher; the block `r` itself, if it exists, has `r`'s number) -/
theorem init_inv2 (cfg : Config) (r : Ref) (hroot : cfg.root = some (.exclusive r)) (U : Id → Option Blk)
    (h1 : ∀ b, U b.id = some b → b.parent = r.id → r.num < b.num)
    (h2 : ∀ b, U b.id = some b → b.id = r.id → b.num = r.num) :
    Inv2 U [r.id] (init cfg).db := by
  unfold init
  rw [hroot]
  refine ⟨?_, by simp [DB.initLIB, DB.empty], ?_, by simp [DB.initLIB, DB.empty], h1, h2⟩
  · intro e he; simp [DB.initLIB, DB.empty] at he
  · intro f hf hne
    simp only [List.mem_singleton] at hf
    exact absurd hf hne

/-- the invariant holds initially for a forkable started on a known (exclusive) LIB -/
theorem init_inv (cfg : Config) (r : Ref) (hr : r.id ≠ "") (hroot : cfg.root = some (.exclusive r)) :
    Inv (init cfg) [] := by
  unfold init
  rw [hroot]
  refine ⟨hr, ⟨by simp [DB.initLIB, DB.empty], by simp [DB.initLIB, DB.empty]⟩,
    ⟨by simp [DB.initLIB, DB.empty], by simp [DB.initLIB, DB.empty], by simp [DB.initLIB, DB.empty]⟩,
    trivial, by simp, by simp, by simp, ?_, ?_, ?_, Or.inr rfl⟩
  · intro _; exact ⟨rfl, by simp [DB.initLIB, DB.empty]⟩
  · intro c cs h; cases h
  · intro i n hin
    simp only [DB.initLIB, DB.empty, Option.some.injEq, Prod.mk.injEq] at hin
    rw [← hin.1]; exact hr

/-- and so does `SentClosed`: nothing is stored yet -/
theorem init_sentClosed (cfg : Config) (r : Ref) (hroot : cfg.root = some (.exclusive r)) :
    SentClosed (init cfg).db := by
  unfold init
  rw [hroot]
  intro ids x hp _ _
  rw [isPath_append] at hp
  have := hp.2.2.1
  simp [DB.find, DB.initLIB, DB.empty] at this

/-- **feeding a stored block a second time delivers nothing** and leaves the state unchanged -/
theorem refeed_delivers_nothing (cfg : Config) (s : FState) (b : Blk) (failAt : Option Nat)
    (hstored : b.id ≠ b.parent ∧ b.id ≠ "" ∧ s.db.link b.id ≠ "")
    (hni : (s.includeInit && s.lastSent.isNone && b.id == s.db.libRef.id) = false) :
    (processBlock cfg s b failAt).1 = s ∧ (processBlock cfg s b failAt).2.1 = [] :=
  processBlock_refeed cfg s b failAt ((addLink_exists_iff s.db b).mpr hstored) hni

/-- a block that was just linked is stored: feeding it again is the case above -/
theorem linked_block_is_stored (db : DB) (b : Blk) (hb : WFin b) (hf : db.find b.id = none) :
    (appendBlk db b).link b.id ≠ "" := by
  unfold DB.link appendBlk
  rw [find_append_self db b hf]
  exact hb.2.1

/-- a block below the LIB is dropped once the stream has started -/
theorem below_lib_dropped (cfg : Config) (s : FState) (b : Blk) (failAt : Option Nat)
    (h1 : b.num < s.db.libRef.num) (h2 : s.lastSent.isSome = true) :
    (processBlock cfg s b failAt).1 = s ∧ (processBlock cfg s b failAt).2.1 = [] :=
  processBlock_below_lib cfg s b failAt h1 h2

/-- **a handler error is returned to the source at once, with no further event for that incoming block**:
    the failing run delivered exactly the events up to and including the one the handler refused. Holds for every
    state and block, with no hypothesis. -/
theorem handler_error_returned_at_once (cfg : Config) (s : FState) (b : Blk) (k : Nat) :
    (k < (processBlock cfg s b none).2.1.length →
      (processBlock cfg s b (some k)).2.1 = (processBlock cfg s b none).2.1.take (k + 1) ∧
      (processBlock cfg s b (some k)).2.2 = .errHandler) ∧
    (¬ k < (processBlock cfg s b none).2.1.length → processBlock cfg s b (some k) = processBlock cfg s b none) :=
  processBlock_handler_error cfg s b k

end BstreamVerif.Props.C01
