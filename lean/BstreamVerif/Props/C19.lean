import BstreamVerif.Model.Range
import BstreamVerif.Spec.RangeMon
namespace BstreamVerif.Props.C19
open BstreamVerif.Range BstreamVerif.RangeMon

theorem placeholder : True := trivial

end BstreamVerif.Props.C19
