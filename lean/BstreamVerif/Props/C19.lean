import BstreamVerif.Model.Range
import BstreamVerif.Spec.RangeMon
import BstreamVerif.Lemmas.RangeLemmas
/-!
# C19 — Block range algebra is exact at every boundary and parsing never crashes

Theorems about the model of `/repo/range.go` (`Model/Range.lean`), over `UInt64`: every start/end
pair, every flag pair, every chunk size. The specification side (`Spec/RangeMon.lean`) is interval
arithmetic over `Nat`; the same `containsSpec`/`splitShape` functions are evaluated by the driver on
the implementation's answers.
-/
namespace BstreamVerif.Props.C19
open BstreamVerif.Range BstreamVerif.RangeMon BstreamVerif.RangeLemmas

/-- Contains = interval arithmetic implied by bounds and flags. -/
theorem contains_spec (r : Range) (n : UInt64) : contains r n = containsSpec r n := by
  unfold contains containsSpec
  rcases r with ⟨s, e, xs, xe⟩
  cases xs <;> cases e <;> cases xe <;>
    simp [UInt64.lt_iff_toNat_lt, ← UInt64.toNat_inj] <;> bool_omega

/-- ReachedEndBlock n ⇔ no number above n is in the range (for closed ranges), never for open ones. -/
theorem reachedEnd_spec (r : Range) (n : UInt64) : reachedEnd r n = reachedSpec r n := by
  unfold reachedEnd reachedSpec
  rcases r with ⟨s, _ | e, xs, xe⟩
  · rfl
  · have := n.toNat_lt; have := e.toNat_lt
    cases xe <;>
    simp [UInt64.le_iff_toNat_le, ← UInt64.toNat_inj, UInt64.toNat_sub] <;> bool_omega

/-- `reachedSpec` means what C19 says: once reached, no higher number is in the range. -/
theorem reachedSpec_sound (r : Range) (n m : UInt64) (hr : reachedSpec r n = true) (hm : n < m) :
    containsSpec r m = false := by
  rcases r with ⟨s, _ | e, xs, xe⟩
  · simp [reachedSpec] at hr
  · unfold reachedSpec at hr; unfold containsSpec
    simp only [UInt64.lt_iff_toNat_lt] at hm
    cases xe <;> simp at hr ⊢ <;> intros <;> omega

/-- Size = distance between the bounds (for ranges accepted by the constructors, end > start). -/
theorem size_spec (r : Range) (e : UInt64) (h : r.stop = some e) (hv : r.start < e) :
    ∃ v, size r = some v ∧ v.toNat = e.toNat - r.start.toNat := by
  refine ⟨e - r.start, by simp [size, h], ?_⟩
  exact UInt64.toNat_sub_of_le _ _ (by simp only [UInt64.le_iff_toNat_le, UInt64.lt_iff_toNat_lt] at *; omega)

theorem size_open (r : Range) (h : r.stop = none) : size r = none := by simp [size, h]

/-- Next: starts where `r` ends, same flags, `size` long. Previous: ends where `r` starts. -/
theorem next_spec (r : Range) (e sz : UInt64) (h : r.stop = some e) :
    next r sz = ⟨e, some (e + sz), r.exS, r.exE⟩ := by simp [next, h]

theorem previous_spec (r : Range) (e sz : UInt64) (h : r.stop = some e) :
    previous r sz = ⟨r.start - sz, some r.start, r.exS, r.exE⟩ := by simp [previous, h]

/-- IsNext holds exactly for the value-equal successor (this is the statement the pointer comparison broke). -/
theorem isNext_iff (r nx : Range) (sz : UInt64) : isNext r nx sz = true ↔ nx = next r sz := by
  rcases nx with ⟨a, b, c, d⟩
  unfold isNext equals
  generalize next r sz = q
  rcases q with ⟨a', b', c', d'⟩
  simp only [Bool.and_eq_true, beq_iff_eq, Range.mk.injEq]
  constructor
  · rintro ⟨⟨⟨h1, h2⟩, h3⟩, h4⟩; exact ⟨h1.symm, h2.symm, h3.symm, h4.symm⟩
  · rintro ⟨h1, h2, h3, h4⟩; exact ⟨⟨⟨h1.symm, h2.symm⟩, h3.symm⟩, h4.symm⟩

theorem isNext_spec (r nx : Range) (sz : UInt64) : isNext r nx sz = isNextSpec r nx sz := by
  have h := isNext_iff r nx sz
  unfold isNextSpec
  cases hs : r.stop with
  | none =>
    have : next r sz = ⟨r.start + sz, none, r.exS, r.exE⟩ := by simp [next, hs]
    rw [this] at h
    rw [Bool.eq_iff_iff, h]; simp
  | some e =>
    have : next r sz = ⟨e, some (e + sz), r.exS, r.exE⟩ := by simp [next, hs]
    rw [this] at h
    rw [Bool.eq_iff_iff, h]; simp

/-- **Split.** For every valid closed range and every positive chunk size, `Split` returns chunks that
    start at the range start, end at the range end, are contiguous, have all inner boundaries on
    multiples of the chunk size, keep the flags and are non-degenerate (`splitShape`); and, unless the
    range is exclusive at *both* ends and was cut in ≥ 2 chunks (finding F-C19d), together they contain
    exactly the numbers the range contains. -/
theorem split_spec (r : Range) (e c : UInt64) (hr : r.stop = some e) (hv : r.start < e) (hc : 0 < c) :
    ∃ cs, split r c = .ok cs ∧ splitShape r c cs = true ∧
      ((¬ (r.exS = true ∧ r.exE = true) ∨ cs.length = 1) →
        ∀ n, cs.any (fun ch => containsSpec ch n) = containsSpec r n) := by
  rcases r with ⟨s, st, xs, xe⟩
  simp only at hr hv; subst hr
  unfold split
  by_cases hle : e - s ≤ c
  · refine ⟨[⟨s, some e, xs, xe⟩], by simp [hle], ?_, ?_⟩
    · simp [splitShape, contiguous, innerStarts, properChunk, hv]
    · intro _ n; simp
  · obtain ⟨f1, f2, f3⟩ := init_facts s e c hv hc hle
    have ok := splitLoop_ok xs xe e c hc s _ f1 f2 f3
    have hs : (if e - s ≤ c then SplitResult.ok [⟨s, some e, xs, xe⟩]
        else if hc : 0 < c then
          let ce := (s + c) - (s + c) % c
          SplitResult.ok (splitLoop xs xe e c hc s ce)
        else SplitResult.panic) = .ok (splitLoop xs xe e c hc s ((s + c) - (s + c) % c)) := by
      simp only [hle, if_false, hc, dite_true]
    refine ⟨_, hs, ?_, ?_⟩
    · obtain ⟨i1, i2, i3, i4, i5, i6⟩ := chunksOK_shape _ _ ok
      simp only [splitShape, i1, i2, i3, i4, i5, i6]; simp
    · intro hx n
      rcases hx with hx | hx
      · exact chunksOK_union hx n _ _ ok
      · generalize splitLoop xs xe e c hc s _ = l at ok hx
        match l, ok, hx with
        | [ch], ok, _ => obtain ⟨rfl, _⟩ := ok; simp

/-- F-C19d, kernel-checked witness: the full union clause is false for a both-exclusive range. -/
theorem split_both_exclusive_counter :
    split ⟨10, some 20, true, true⟩ 5 = .ok [⟨10, some 15, true, true⟩, ⟨15, some 20, true, true⟩] ∧
    containsSpec ⟨10, some 20, true, true⟩ 15 = true ∧
    ([⟨10, some 15, true, true⟩, ⟨15, some 20, true, true⟩] : List Range).any (fun ch => containsSpec ch 15) = false := by
  refine ⟨?_, by decide, by decide⟩
  simp [split, splitLoop]

/-- Split never crashes for a positive chunk size (chunk size 0 is a division by zero in Go, outside C19). -/
theorem split_total (r : Range) (c : UInt64) (hc : 0 < c) : split r c ≠ .panic := by
  unfold split
  cases r.stop with
  | none => simp
  | some e => by_cases h : e - r.start ≤ c <;> simp [h, hc]

theorem parseBounds_total (ch : List (List UInt8)) : parseBounds ch ≠ .panic := by
  unfold parseBounds
  repeat' split
  all_goals simp

/-- ParseRange returns a range or an error for every input byte string — never a crash. -/
theorem parseRange_total (inp : List UInt8) : parseRange inp ≠ .panic := by
  unfold parseRange
  split
  · simp
  · exact parseBounds_total _

/-- …and a returned range is a valid inclusive closed range. -/
theorem parseRange_ok_valid (inp : List UInt8) (r : Range) (h : parseRange inp = .ok r) :
    ∃ e, r.stop = some e ∧ r.start < e ∧ r.exS = false ∧ r.exE = false := by
  unfold parseRange at h
  split at h
  · simp at h
  · unfold parseBounds at h
    repeat' split at h
    all_goals first | (simp at h; done) | skip
    rename_i hn
    simp only [ParseResult.ok.injEq] at h; subst h
    unfold newRange at hn
    split at hn
    · rename_i heq
      simp only [Option.some.injEq] at heq; subst heq
      split at hn
      · simp at hn
      · rename_i hle
        simp only [Option.some.injEq] at hn; subst hn
        refine ⟨_, rfl, ?_, rfl, rfl⟩
        simp only [UInt64.lt_iff_toNat_lt, UInt64.le_iff_toNat_le] at *; omega
    · rename_i heq; simp at heq

/-! Non-vacuity: the hypotheses of `split_spec` are met by ordinary ranges, and the model computes. -/
example : split ⟨10, some 20, false, true⟩ 5 = .ok [⟨10, some 15, false, true⟩, ⟨15, some 20, false, true⟩] := by
  simp [split, splitLoop]
example : ((10 : UInt64) < 20) ∧ (0 : UInt64) < 5 := by decide
example : parseRange [49, 48, 32, 45, 32, 50, 48] = .ok ⟨10, some 20, false, false⟩ := by decide   -- "10 - 20"
example : parseRange [53] = .err "bounds" := by decide                                              -- "5"

/-- Next = the adjacent range of the given length after the receiver (interval arithmetic modulo 2^64). -/
theorem next_meets_monitor_spec (r : Range) (n : UInt64) : nextSpec r (next r n) n = true := by
  unfold nextSpec next
  rcases r with ⟨s, _ | e, xs, xe⟩
  · simp [UInt64.toNat_add]
  · simp [UInt64.toNat_add]

/-- Previous = the adjacent range of the given length before the receiver: it ends where the receiver starts. -/
theorem previous_meets_monitor_spec (r : Range) (n : UInt64) : prevSpec r (previous r n) n = true := by
  unfold prevSpec previous
  have h1 := r.start.toNat_lt
  have h2 := n.toNat_lt
  rcases r with ⟨s, _ | e, xs, xe⟩
  · simp only [BEq.rfl, Bool.and_self, Bool.true_and, Bool.and_true, decide_eq_true_eq]
    rw [UInt64.toNat_sub]; omega
  · simp only [BEq.rfl, Bool.and_self, Bool.true_and, Bool.and_true, decide_eq_true_eq]
    rw [UInt64.toNat_sub]; omega

/-- Size = end minus start; an error for an open-ended range. -/
theorem size_meets_monitor_spec (r : Range) : sizeSpec r ((size r).map (·.toNat)) = true := by
  unfold sizeSpec size
  rcases r with ⟨s, _ | e, xs, xe⟩
  · rfl
  · have h1 := s.toNat_lt
    have h2 := e.toNat_lt
    simp only [Option.map_some, beq_iff_eq, Option.some.injEq]
    rw [UInt64.toNat_sub]; omega

end BstreamVerif.Props.C19
