import BstreamVerif.Model.BlockServer
import BstreamVerif.Conc.Locks
import BstreamVerif.Facts
/-!
# C20 — Block-stream server fan-out never blocks the producer, isolates slow readers
Sequential core (atomic push / subscribe / unsubscribe / recv). The concurrent half (RWMutex, channel
send after a capacity check) is covered by `send_never_blocks` below plus the regenerated lock facts and
the stress run; it is partial w.r.t. the Go runtime.
-/
namespace BstreamVerif.Props.C20
open BstreamVerif.BlockServer

/-- subscriber invariant: the channel is closed at most once, and `closed` records exactly that -/
def SubInv (s : Sub) : Prop := s.closes ≤ 1 ∧ (s.closed = true ↔ s.closes = 1) ∧ s.queue.length ≤ s.cap

theorem push_sub_inv (s : Sub) (b : Id) (h : SubInv s) : SubInv (s.push b) := by
  obtain ⟨h1, h2, h3⟩ := h
  unfold Sub.push SubInv
  by_cases hfull : (s.queue.length == s.cap) = true
  · by_cases hc : s.closed = true
    · simp only [hfull, hc, if_true]; exact ⟨h1, by simpa [hc] using h2, h3⟩
    · have h0 : s.closes = 0 := by
        have := (not_congr h2).mp hc; omega
      simp only [hfull, hc, if_true, Bool.false_eq_true, if_false, h0]
      exact ⟨by omega, by simp, h3⟩
  · by_cases hc : s.closed = true
    · simp only [hfull, hc, if_true, Bool.false_eq_true, if_false]; exact ⟨h1, by simpa [hc] using h2, h3⟩
    · simp only [hfull, hc, Bool.false_eq_true, if_false]
      simp only [beq_iff_eq] at hfull
      refine ⟨h1, by simpa [hc] using h2, ?_⟩
      simp only [List.length_append, List.length_cons, List.length_nil]; omega

/-- a closed subscription never changes again: nothing is delivered after the close, and it is not closed twice -/
theorem push_closed_frozen (s : Sub) (b : Id) (hc : s.closed = true) : s.push b = s := by
  unfold Sub.push; split <;> simp [hc]

/-- an open subscription with room receives the block at the end of its queue (push order kept) -/
theorem push_enqueues (s : Sub) (b : Id) (hc : s.closed = false) (hroom : s.queue.length < s.cap) :
    s.push b = { s with queue := s.queue ++ [b] } := by
  unfold Sub.push
  have : (s.queue.length == s.cap) = false := by simp; omega
  simp [this, hc]

/-- overflow closes exactly this subscription, keeps what it already holds -/
theorem push_overflow (s : Sub) (b : Id) (hc : s.closed = false) (hfull : s.queue.length = s.cap) :
    s.push b = { s with closed := true, closes := s.closes + 1 } := by
  unfold Sub.push; simp [hfull, hc]

/-- isolation: PushBlock acts on every subscription separately (what happens to subscriber `i` is a
    function of subscriber `i` alone), and never fails or blocks in the model -/
theorem push_pointwise (s : Server) (b : Id) (i : Nat) :
    (push s b).subs[i]? = (s.subs[i]?).map (fun sub => if sub.active && !sub.closed then sub.push b else sub) := by
  simp [push]

/-- the burst: the last min(burst, buffered) blocks, for every signed 64-bit burst value (negative = 0) -/
theorem burst_spec (s : Server) (hb : s.buffered = true) (burst : Int) :
    burstOf s burst <:+ s.buffer ∧ (burstOf s burst).length = min burst.toNat s.buffer.length := by
  unfold burstOf
  simp only [hb, Bool.not_true, Bool.false_eq_true, if_false]
  by_cases h : burst.toNat < s.buffer.length
  · simp only [h, if_true]
    exact ⟨List.drop_suffix _ _, by simp; omega⟩
  · simp only [h, if_false]
    exact ⟨List.suffix_refl _, by omega⟩

theorem burst_negative (s : Server) (burst : Int) (hneg : burst < 0) : burstOf s burst = [] ∨ s.buffer = [] := by
  unfold burstOf
  by_cases hb : s.buffered = true
  · have : burst.toNat = 0 := by omega
    simp only [hb, Bool.not_true, Bool.false_eq_true, if_false, this]
    by_cases h : 0 < s.buffer.length
    · left; simp [h]
    · right; exact List.eq_nil_of_length_eq_zero (by omega)
  · left; simp [hb]

/-- subscribe is total and creates one open subscription holding the burst, capacity 200 + burst length -/
theorem subscribe_spec (s : Server) (burst : Int) :
    (subscribe s burst).subs = s.subs ++ [(⟨200 + (burstOf s burst).length, burstOf s burst, false, 0, true⟩ : Sub)] := rfl

theorem subscribe_keeps_others (s : Server) (burst : Int) (i : Nat) (hi : i < s.subs.length) :
    (subscribe s burst).subs[i]? = s.subs[i]? := by
  simp [subscribe, List.getElem?_append_left hi]

/-! ### the buffered window -/

theorem bufPush_nodup (size : Nat) (buf : List Id) (b : Id) (h : buf.Nodup) : (bufPush size buf b).Nodup := by
  by_cases hm : b ∈ buf
  · simp [bufPush, hm, h]
  · have hd : (if buf.length ≥ size then buf.drop 1 else buf).Nodup := by
      split
      · exact List.Nodup.sublist (List.drop_sublist _ _) h
      · exact h
    have hnd : b ∉ (if buf.length ≥ size then buf.drop 1 else buf) := by
      split
      · exact fun hm' => hm (List.mem_of_mem_drop hm')
      · exact hm
    have hc : buf.contains b = false := by simpa using hm
    unfold bufPush
    simp only [hc, Bool.false_eq_true, if_false]
    split
    · refine List.nodup_append.mpr ⟨hd, by simp, ?_⟩
      intro a ha c hc'
      simp only [List.mem_singleton] at hc'; subst hc'
      exact fun e => hnd (e ▸ ha)
    · exact hd

theorem bufPush_length (size : Nat) (buf : List Id) (b : Id) (h : buf.length ≤ size) :
    (bufPush size buf b).length ≤ size := by
  by_cases hm : b ∈ buf
  · simp [bufPush, hm, h]
  · have hc : buf.contains b = false := by simpa using hm
    unfold bufPush
    simp only [hc, Bool.false_eq_true, if_false]
    by_cases hs : size > 0
    · simp only [hs, if_true, List.length_append, List.length_cons, List.length_nil]
      split
      · simp only [List.length_drop]; omega
      · omega
    · simp only [hs, if_false]
      split
      · simp only [List.length_drop]; omega
      · omega

/-- a new block becomes the head of the window; the window is the previous one minus (when full) its oldest block -/
theorem bufPush_new (size : Nat) (buf : List Id) (b : Id) (hnew : b ∉ buf) (hs : 0 < size) :
    bufPush size buf b = (if buf.length ≥ size then buf.drop 1 else buf) ++ [b] := by
  have hc : buf.contains b = false := by simpa using hnew
  unfold bufPush
  simp only [hc, Bool.false_eq_true, if_false, hs, gt_iff_lt, if_true]

/-- a repeated id leaves the window untouched (the statement the unfixed code violated) -/
theorem bufPush_repeat (size : Nat) (buf : List Id) (b : Id) (h : b ∈ buf) : bufPush size buf b = buf := by
  have hc : buf.contains b = true := by simpa using h
  unfold bufPush
  simp only [hc, if_true]

/-! ### the buffered window along a whole history of pushes -/

/-- the window after a whole history of pushes -/
def window (size : Nat) (bs : List Id) : List Id := bs.foldl (bufPush size) []

/-- one push onto "the last `size` of `pre`" gives "the last `size` of `pre ++ [b]`" when `b` is new -/
theorem bufPush_lastN (size : Nat) (hs : 0 < size) (pre : List Id) (b : Id) (hb : b ∉ pre) :
    bufPush size (pre.drop (pre.length - size)) b = (pre ++ [b]).drop ((pre ++ [b]).length - size) := by
  have hb' : b ∉ pre.drop (pre.length - size) := fun hm => hb (List.mem_of_mem_drop hm)
  rw [bufPush_new _ _ _ hb' hs]
  by_cases hl : size ≤ pre.length
  · have h1 : (pre.drop (pre.length - size)).length ≥ size := by simp only [List.length_drop]; omega
    rw [if_pos h1, List.drop_drop]
    have h2 : (pre ++ [b]).length - size = pre.length - size + 1 := by simp; omega
    rw [h2, List.drop_append_of_le_length (by omega)]
  · have h1 : ¬ (pre.drop (pre.length - size)).length ≥ size := by simp only [List.length_drop]; omega
    rw [if_neg h1]
    have h0 : pre.length - size = 0 := by omega
    have h2 : (pre ++ [b]).length - size = 0 := by simp; omega
    rw [h0, h2]; simp

theorem window_lastN_aux (size : Nat) (hs : 0 < size) (bs : List Id) : ∀ pre : List Id, (pre ++ bs).Nodup →
    bs.foldl (bufPush size) (pre.drop (pre.length - size)) = (pre ++ bs).drop ((pre ++ bs).length - size) := by
  induction bs with
  | nil => intro pre _; simp
  | cons b bs ih =>
    intro pre hnd
    have hb : b ∉ pre := by
      intro hm
      exact (List.nodup_append.mp hnd).2.2 b hm b (by simp) rfl
    rw [List.foldl_cons, bufPush_lastN size hs pre b hb]
    have := ih (pre ++ [b]) (by simpa using hnd)
    simpa using this

/-- **Whole-history form of "the buffered window always holds the most recent distinct blocks up to its size"**:
after any history of pairwise distinct pushes the window is exactly the last `min size n` of them, in push order. -/
theorem window_of_distinct_history (size : Nat) (hs : 0 < size) (bs : List Id) (hnd : bs.Nodup) :
    window size bs = bs.drop (bs.length - size) := by
  have := window_lastN_aux size hs bs [] (by simpa using hnd)
  simpa [window] using this

theorem foldl_bufPush_inv (size : Nat) (bs : List Id) : ∀ buf : List Id, buf.Nodup → buf.length ≤ size →
    (bs.foldl (bufPush size) buf).Nodup ∧ (bs.foldl (bufPush size) buf).length ≤ size := by
  induction bs with
  | nil => intro buf h1 h2; exact ⟨h1, h2⟩
  | cons b bs ih => intro buf h1 h2; exact ih _ (bufPush_nodup _ _ _ h1) (bufPush_length _ _ _ h2)

/-- along **any** history (repeats, re-pushes of evicted blocks) the window has no duplicates and never exceeds its size -/
theorem window_inv (size : Nat) (bs : List Id) : (window size bs).Nodup ∧ (window size bs).length ≤ size :=
  foldl_bufPush_inv size bs [] (by simp) (by simp)

/-- along any history the block pushed last is in the window (size > 0): the head of the stream is always burstable -/
theorem window_has_last (size : Nat) (hs : 0 < size) (bs : List Id) (b : Id) : b ∈ window size (bs ++ [b]) := by
  have : window size (bs ++ [b]) = bufPush size (window size bs) b := by simp [window, List.foldl_append]
  rw [this]
  by_cases hm : b ∈ window size bs
  · rw [bufPush_repeat _ _ _ hm]; exact hm
  · rw [bufPush_new _ _ _ hm hs]; simp

example : window 3 ["a","b","c","d","e"] = ["c","d","e"] := by decide
example : window 3 ["a","b","b","a","c","d","a"] = ["c","d","a"] := by decide

/-- the server's buffer along a history of `PushBlock`s is the fold of `bufPush` (ties `window` to `push`) -/
theorem server_history_buffer (bs : List Id) : ∀ s : Server, s.buffered = true →
    (bs.foldl push s).buffer = bs.foldl (bufPush s.size) s.buffer ∧ (bs.foldl push s).size = s.size
      ∧ (bs.foldl push s).buffered = true := by
  induction bs with
  | nil => intro s h; simp [h]
  | cons b bs ih =>
    intro s h
    have h1 : (push s b).buffered = true := by simp [push, h]
    have h2 : (push s b).size = s.size := by simp [push]
    have h3 : (push s b).buffer = bufPush s.size s.buffer b := by simp [push, h]
    have := ih (push s b) h1
    simp only [List.foldl_cons]
    rw [h2, h3] at this
    exact this

/-! ### one subscriber's stream under any interleaving of pushes and receives -/

inductive SubOp where
  | push (b : Id) | recv
deriving Repr

/-- ghost-extended run of one subscription: (sub, received so far, offered so far) -/
def subRun : Sub × List Id × List Id → List SubOp → Sub × List Id × List Id
  | st, [] => st
  | (s, got, offered), .push b :: ops => subRun (s.push b, got, offered ++ [b]) ops
  | (s, got, offered), .recv :: ops =>
    match s.queue with
    | x :: rest => subRun ({ s with queue := rest }, got ++ [x], offered) ops
    | [] => subRun (s, got, offered) ops

/-- **stream theorem**: whatever the interleaving of pushes and receives (i.e. whatever the consumer's
    speed), what the subscriber has received plus what is still queued is a prefix of burst ++ pushes, in
    order, and is *all* of it as long as the subscription has not overflowed. -/
theorem stream_prefix (ops : List SubOp) : ∀ (s : Sub) (got offered : List Id),
    SubInv s → (got ++ s.queue <+: offered) → (s.closed = false → got ++ s.queue = offered) →
    let r := subRun (s, got, offered) ops
    SubInv r.1 ∧ (r.2.1 ++ r.1.queue <+: r.2.2) ∧ (r.1.closed = false → r.2.1 ++ r.1.queue = r.2.2) := by
  induction ops with
  | nil => intro s got offered hi hp he; exact ⟨hi, hp, he⟩
  | cons op ops ih =>
    intro s got offered hi hp he
    cases op with
    | push b =>
      simp only [subRun]
      apply ih
      · exact push_sub_inv s b hi
      · unfold Sub.push
        split
        · split
          · exact List.IsPrefix.trans hp (List.prefix_append _ _)
          · exact List.IsPrefix.trans hp (List.prefix_append _ _)
        · split
          · exact List.IsPrefix.trans hp (List.prefix_append _ _)
          · rename_i hc
            have := he (by simpa using hc)
            simp only [← List.append_assoc, this]; exact List.prefix_refl _
      · intro hcl
        unfold Sub.push at hcl ⊢
        split at hcl
        · split at hcl
          · rename_i hc; simp [hc] at hcl
          · simp at hcl
        · split at hcl
          · rename_i hc; simp [hc] at hcl
          · rename_i hfull hc
            simp only [hfull, hc, Bool.false_eq_true, if_false]
            have := he (by simpa using hc)
            simp only [← List.append_assoc, this]
    | recv =>
      simp only [subRun]
      cases hq : s.queue with
      | nil => simp only []; exact ih s got offered hi hp he
      | cons x rest =>
        simp only []
        apply ih
        · obtain ⟨h1, h2, h3⟩ := hi
          exact ⟨h1, h2, by simp only [hq, List.length_cons] at h3; simp; omega⟩
        · simpa [hq, List.append_assoc] using hp
        · intro hcl; simpa [hq, List.append_assoc] using he hcl

/-- concurrent half, the arithmetic core: between the producer's capacity check and its send only
    consumers touch the channel, and they only shrink it — so the send finds room and cannot block. -/
theorem send_never_blocks (cap lenAtCheck lenAtSend : Nat) (hcheck : lenAtCheck ≠ cap) (hle : lenAtCheck ≤ cap)
    (hshrink : lenAtSend ≤ lenAtCheck) : lenAtSend < cap := by omega

/-! Non-vacuity -/
example : SubInv { cap := 200, queue := [], closed := false, closes := 0, active := true } := by
  simp [SubInv]
example : bufPush 3 ["a", "b", "c"] "c" = ["a", "b", "c"] ∧ bufPush 3 ["a", "b", "c"] "d" = ["b", "c", "d"] := by decide

/-! ### atomicity of `subscribe` with respect to `PushBlock` — the assumption of the model above, tied to the source

The theorems above treat `subscribe`, `unsubscribe` and `PushBlock` as atomic operations. What makes them atomic in
the code is regenerated from /repo on every run (`Facts.server`, extracted by `factx`: each of the three takes the
server lock as its first statement and releases it in a `defer` that is the second one; `subscribe` and `unsubscribe`
take it for writing). The small interleaving model `Conc.Locks.lockStep` says why that matters. -/
section Atomicity
open BstreamVerif.Conc.Locks

/-- **no block is lost between the burst and the fan-out**, for every interleaving of pushes with a subscription
    taken under the write lock -/
theorem locked_subscription_is_gapless (sched : List SAct) : lockGapless (lockRun true lockInit sched) :=
  locked_gapless sched

/-- kernel-checked counter-schedule: with the burst taken before the lock (snapshot, push, register, push), the
    block pushed in between is in neither the burst nor the fan-out -/
theorem unlocked_subscription_loses_a_block :
    ¬ lockGapless (lockRun false lockInit [.snapshot, .push, .register, .push]) := unlocked_loses

/-- the facts of the current tree: `PushBlock` holds the server lock, `subscribe`/`unsubscribe` hold it for writing
    during the whole call, a subscription is closed at most once -/
theorem server_facts_safe : BstreamVerif.Facts.server.Safe = true := by decide

end Atomicity

end BstreamVerif.Props.C20
