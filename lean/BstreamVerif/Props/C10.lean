import BstreamVerif.Model.FileSourceSeq
import BstreamVerif.Model.Resolver
namespace BstreamVerif.Props.C10
open BstreamVerif

end BstreamVerif.Props.C10
